#!/bin/bash
# Run checks against a seeded change WITHOUT touching /repo or the shared Lake project:
#   tools/run_seed.sh <patch.diff> <tier> C01 [C02 ...]
# A scratch worktree of /repo HEAD gets the patch; a scratch rsync copy of /verif (with its .lake cache) runs the checks
# with VERIF_REPO pointing at the patched worktree.  Equivalent to `git -C /repo apply` + run + `git checkout -- .`,
# but safe while other work is going on in /repo and /verif.  Everything is removed afterwards.
set -u
patch=$(readlink -f "$1"); tier=$2; shift 2
tag=$$
wt=/tmp/seedrun_$tag/repo_$tag; vc=/tmp/seedrun_$tag/verif
mkdir -p /tmp/seedrun_$tag
git -C /repo worktree add -q --detach $wt HEAD || exit 2
cp /repo/gemclus/tree/_utils.cpython-312-x86_64-linux-gnu.so $wt/gemclus/tree/ 2>/dev/null
(cd $wt && git apply "$patch") || { echo "patch does not apply"; git -C /repo worktree remove --force $wt; rm -rf /tmp/seedrun_$tag; exit 2; }
rsync -a --exclude replays --exclude .git ${VERIF_SRC:-/verif}/ $vc/
rc_all=0
for c in "$@"; do
  echo "--- $c ($tier) against $(basename $patch)"
  (cd $vc && VERIF_REPO=$wt timeout 3000 ./check $c --tier $tier 2>&1 | grep -E "VIOLATION|KNOWN-FINDING|MACHINERY|Error|error" | head -8; echo "rc=${PIPESTATUS[0]}")
  if [ -d $vc/replays ]; then mkdir -p /tmp/seed_replays/$(basename $(dirname $patch)); cp -r $vc/replays/. /tmp/seed_replays/$(basename $(dirname $patch))/ 2>/dev/null; fi
done
git -C /repo worktree remove --force $wt
rm -rf /tmp/seedrun_$tag
