#!/bin/bash
# tools/seed_recheck.sh [ids...]  — re-runs every stored seeded change (or the given ids) against its property's quick check, as the
# check is run in practice (escalation on), and rewrites meta.json's "result" (the previous one is kept in "history").
cd "$(dirname "$0")/.."
ids="$@"; [ -z "$ids" ] && ids=$(ls seeded)
par=${SEED_PAR:-5}
run_one() {
  id=$1; prop=${id%%-*}; log=/tmp/seedrecheck_$id.log
  tools/run_seed.sh seeded/$id/patch.diff quick $prop > $log 2>&1
  /venv/bin/python - "$id" "$prop" "$log" <<'PY'
import json,sys,re,subprocess
id_,prop,log=sys.argv[1:]
out=open(log).read()
viol=re.findall(r"VIOLATION property=\S+ replay=\S+( no-failing-input-found)?",out)
rc=re.findall(r"rc=(\d+)",out)
res=("MISSED (check exits 0)" if rc and rc[-1]=="0" else
     ("VIOLATION no-failing-input-found" if viol and all(v for v in viol) else
      (f"VIOLATION with failing input ({sum(1 for v in viol if not v)} replay(s))" if viol else f"rc={rc[-1] if rc else '?'}")))
p=f"/verif/seeded/{id_}/meta.json"
m=json.load(open(p))
head=subprocess.run("git -C /verif log --format=%h -1",shell=True,capture_output=True,text=True).stdout.strip()
old=m.get("result",{}).get(prop)
if old and old!=res:
    m.setdefault("history",[]).append(old)
m["result"]={prop:res}
m["rechecked_at_verif_commit"]=head
json.dump(m,open(p,"w"),indent=1)
print(id_,"->",res)
PY
}
export -f run_one
printf "%s\n" $ids | xargs -P $par -I{} bash -c 'run_one {}'
