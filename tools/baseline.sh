#!/bin/bash
# Runs the pinned test suite (guard OFF) and checks that every stable_pass test of BASELINE.json still passes.
out=$(mktemp /tmp/junit.XXXXXX.xml)
cd /repo && env -u GEMCLUS_VERIF OMP_NUM_THREADS=2 OPENBLAS_NUM_THREADS=2 /venv/bin/python -m pytest -ra -q -p no:cacheprovider --timeout=900 --continue-on-collection-errors --junitxml=$out >/tmp/baseline.log 2>&1
/venv/bin/python - "$out" <<'PY'
import json,sys,xml.etree.ElementTree as ET
b=json.load(open('/root/.vp/BASELINE.json'))
want=set(b['stable_pass'])
t=ET.parse(sys.argv[1]).getroot()
passed=set(); failed=set()
for tc in t.iter('testcase'):
    name=f"{tc.get('classname')}::{tc.get('name')}"
    bad=any(c.tag in('failure','error','skipped') for c in tc)
    (failed if bad else passed).add(name)
missing=sorted(want-passed)
print(f"passed={len(passed)} failed={len(failed)} baseline={len(want)} baseline_missing={len(missing)}")
for m in missing[:20]: print("MISSING",m)
sys.exit(1 if missing else 0)
PY
rc=$?
rm -f $out
exit $rc
