"""Pins the AST fingerprints of every function / method of gemclus (tests excluded) and the text fingerprint of _utils.pyx
at /repo's CURRENT state into harness/pinned_sources.json.  Run it after every accepted change of /repo (fix: commits).
The pins raise no alarm by themselves: a check whose anchored sources differ from the pins only searches deeper
(core.Ctx.escalated), because a hand-written model is then no longer known to describe the code."""
import json, os, sys
sys.path.insert(0, os.path.dirname(os.path.dirname(os.path.abspath(__file__))))
from harness import core
pins = core.source_fingerprints()
json.dump(pins, open(os.path.join(core.VERIF, "harness", "pinned_sources.json"), "w"), indent=0, sort_keys=True)
print(sum(len(v) for v in pins.values()), "units pinned in", len(pins), "files")
