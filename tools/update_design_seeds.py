"""rewrites the table and the totals paragraph of DESIGN.md section 20 from seeded/*/meta.json (run after tools/seed_recheck.sh)"""
import json, glob, os, re, subprocess, sys
V = os.path.dirname(os.path.dirname(os.path.abspath(__file__)))
table = subprocess.run([sys.executable, os.path.join(V, "tools", "seed_table.py")], capture_output=True, text=True).stdout.rstrip("\n")
metas = {os.path.basename(d): json.load(open(os.path.join(d, "meta.json"))) for d in sorted(glob.glob(os.path.join(V, "seeded", "*")))}
cur = {k: m.get("result", {}).get(m["property"], "?") for k, m in metas.items()}
first = {k: (m.get("history") or [cur[k]])[0] for k, m in metas.items()}
withinput = [k for k, r in cur.items() if r.startswith("VIOLATION with failing input")]
nfi = [k for k, r in cur.items() if "no-failing-input-found" in r]
missed = [k for k, r in cur.items() if k not in withinput and k not in nfi]
bad_first = [k for k, r in first.items() if "MISSED" in r or r.startswith("rc=") or "escalation" in r or "initially MISSED" in r]
nfi_first = [k for k, r in first.items() if "no-failing-input-found" in r and k not in bad_first]
tot = (f"**Totals on the current checks ({len(metas)} stored changes, plain quick tier, `tools/seed_recheck.sh`): {len(withinput)} reported with a "
       f"concrete\nfailing input, {len(nfi)} reported as `no-failing-input-found` ({', '.join(nfi) or 'none'}), {len(missed)} missed"
       f"{' (' + ', '.join(missed) + ')' if missed else ''}.**  At first contact (before the\nstrengthening each of them triggered) "
       f"{len(bad_first)} were missed, crashed the harness, timed out or were caught only with the thorough\nsizes ({', '.join(bad_first)}) "
       f"and {len(nfi_first)} were reported without a failing input ({', '.join(nfi_first)}).")
p = os.path.join(V, "DESIGN.md")
s = open(p).read()
a = s.index("| seed | change | result of the property's quick check |")
b = s.index("\n\n", a)
s = s[:a] + table + s[b:]
s, n = re.subn(r"\*\*Totals on the current checks \(.*?reported without a failing input \([^)]*\)\.", lambda m: tot, s, flags=re.S)
assert n == 1, n
open(p, "w").write(s)
print(tot)
