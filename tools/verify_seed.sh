#!/bin/bash
# tools/verify_seed.sh <src worktree dir> <id>   — confirm a seeded change independently, then store it under seeded/<id>/
# (1) demo passes on the current /repo HEAD, (2) patch applies, (3) demo fails with it, (4) the 626 stable tests still pass with it.
set -u
src=$1; id=$2; lid=$(echo ${id%%-*} | tr A-Z a-z)
wt=/tmp/seedverify_$$
git -C /repo worktree add -q --detach $wt HEAD || exit 2
cp /repo/gemclus/tree/_utils.cpython-312-x86_64-linux-gnu.so $wt/gemclus/tree/
cp $src/demo_$lid.py $wt/
cd $wt
OMP_NUM_THREADS=2 timeout 1500 /venv/bin/python demo_$lid.py > /tmp/seed_demo_before.log 2>&1; before=$?
git apply --check $src/patch_$lid.diff 2>/tmp/seed_apply.log; applies=$?
if [ $applies -ne 0 ]; then echo "PATCH DOES NOT APPLY on HEAD"; cat /tmp/seed_apply.log; cd /; git -C /repo worktree remove --force $wt; exit 1; fi
git apply $src/patch_$lid.diff
OMP_NUM_THREADS=2 timeout 1500 /venv/bin/python demo_$lid.py > /tmp/seed_demo_after.log 2>&1; after=$?
out=$(mktemp /tmp/junit.XXXXXX.xml)
env OMP_NUM_THREADS=2 OPENBLAS_NUM_THREADS=2 /venv/bin/python -m pytest -ra -q -p no:cacheprovider --timeout=900 --continue-on-collection-errors --ignore=demo_$lid.py --junitxml=$out >/tmp/seed_tests.log 2>&1
/venv/bin/python - "$out" <<'PY'
import json,sys,xml.etree.ElementTree as ET
b=json.load(open('/root/.vp/BASELINE.json')); want=set(b['stable_pass'])
t=ET.parse(sys.argv[1]).getroot(); passed=set()
for tc in t.iter('testcase'):
    if not any(c.tag in('failure','error','skipped') for c in tc): passed.add(f"{tc.get('classname')}::{tc.get('name')}")
missing=sorted(want-passed); print(f"stable tests missing with patch: {len(missing)}"); [print(' ',m) for m in missing[:10]]
sys.exit(1 if missing else 0)
PY
tests=$?
rm -f $out
echo "demo before=$before (want 0)  after=$after (want !=0)  tests=$tests (want 0)"
cd /
git -C /repo worktree remove --force $wt
if [ $before -eq 0 ] && [ $after -ne 0 ] && [ $tests -eq 0 ]; then
  mkdir -p /verif/seeded/$id
  cp $src/patch_$lid.diff /verif/seeded/$id/patch.diff; cp $src/demo_$lid.py /verif/seeded/$id/demo.py; cp $src/meta_$lid.json /verif/seeded/$id/meta_seeder.json
  echo "CONFIRMED -> /verif/seeded/$id"
else
  echo "NOT CONFIRMED"; tail -5 /tmp/seed_demo_before.log; tail -5 /tmp/seed_demo_after.log
fi
