#!/bin/bash
# runs every check of the given tier in parallel (default quick); prints rc per property and any alarm line
tier=${1:-quick}; out=${2:-/tmp/q_$tier}; mkdir -p $out; rm -f $out/rc.txt
cd "$(dirname "$0")/.."
for i in 01 02 03 04 05 06 07 08 09 10 11 12 13 14 15 16 17 18 19 20; do
  ( s=$(date +%s); ./check C$i --tier $tier > $out/C$i.log 2>&1; echo "C$i rc=$? $(( $(date +%s)-s ))s" >> $out/rc.txt ) &
done; wait; sort $out/rc.txt; grep -h "VIOLATION\|MACHINERY\|Traceback" $out/C*.log | head -40
