#!/bin/bash
# tools/run_harmless.sh <diff> [checks...]  — runs the quick checks (all 20 by default) against a behaviour-preserving refactoring
# (scratch worktree + scratch copy of /verif).  Any VIOLATION line is a false alarm unless it ends with no-failing-input-found.
patch=$(readlink -f "$1"); shift; checks="$@"
[ -z "$checks" ] && checks="C01 C02 C03 C04 C05 C06 C07 C08 C09 C10 C11 C12 C13 C14 C15 C16 C17 C18 C19 C20"
tag=$$; wt=/tmp/harmrun_$tag/repo_$tag; vc=/tmp/harmrun_$tag/verif; mkdir -p /tmp/harmrun_$tag
git -C /repo worktree add -q --detach $wt HEAD || exit 2
cp /repo/gemclus/tree/_utils.cpython-312-x86_64-linux-gnu.so $wt/gemclus/tree/ 2>/dev/null
(cd $wt && git apply "$patch") || { echo "patch does not apply"; git -C /repo worktree remove --force $wt; rm -rf /tmp/harmrun_$tag; exit 2; }
rsync -a --exclude replays --exclude .git /verif/ $vc/
for c in $checks; do
  ( cd $vc && VERIF_REPO=$wt timeout 3000 ./check $c --tier quick > /tmp/harmrun_$tag/$c.log 2>&1; rc=$?; echo "$(basename $patch) $c rc=$rc" >> /tmp/harmrun_$tag/rc.txt ) &
done; wait
sort /tmp/harmrun_$tag/rc.txt | grep -v "rc=0"
grep -h "VIOLATION" /tmp/harmrun_$tag/C*.log | head
mkdir -p /tmp/harm_replays/$(basename $patch); cp -r $vc/replays/. /tmp/harm_replays/$(basename $patch)/ 2>/dev/null
git -C /repo worktree remove --force $wt; rm -rf /tmp/harmrun_$tag
echo "$(basename $patch) done"
