#!/bin/bash
# tools/seed_intake.sh <src dir with patch_cXX.diff demo_cXX.py meta_cXX.json> <PROP e.g. C10> [tier]
# (1) confirms the seeded change independently (demo passes on HEAD, fails with the patch, stable tests still pass),
# (2) stores it as seeded/<PROP>-<k>/ (next free k), (3) runs the property's check against it, (4) writes meta.json.
set -u
src=$(readlink -f "$1"); prop=$2; tier=${3:-quick}; lid=$(echo $prop | tr A-Z a-z)
cd "$(dirname "$0")/.."
k=1; while [ -e seeded/$prop-$k ]; do k=$((k+1)); done; id=$prop-$k
mkdir -p seeded/$id   # reserve
tag=$$; wt=/tmp/seedverify_$tag/repo_$tag; mkdir -p /tmp/seedverify_$tag; log=/tmp/seedverify_$tag.log
git -C /repo worktree add -q --detach $wt HEAD || exit 2
cp /repo/gemclus/tree/_utils.cpython-312-x86_64-linux-gnu.so $wt/gemclus/tree/
cp $src/demo_$lid.py $wt/
cd $wt
OMP_NUM_THREADS=2 timeout 1500 /venv/bin/python demo_$lid.py > $log.before 2>&1; before=$?
git apply --check $src/patch_$lid.diff 2>$log.apply; applies=$?
after=0; tests=1
if [ $applies -eq 0 ]; then
  git apply $src/patch_$lid.diff
  OMP_NUM_THREADS=2 timeout 1500 /venv/bin/python demo_$lid.py > $log.after 2>&1; after=$?
  rm -f demo_$lid.py
  /tmp/seedkit/run_tests.sh $wt > $log.tests 2>&1; tests=$?
fi
cd /verif
git -C /repo worktree remove --force $wt
echo "$id: demo before=$before (want 0) after=$after (want !=0) tests=$tests (want 0) applies=$applies"
if [ $before -ne 0 ] || [ $after -eq 0 ] || [ $tests -ne 0 ] || [ $applies -ne 0 ]; then
  echo "$id NOT CONFIRMED"; tail -3 $log.before $log.after $log.tests 2>/dev/null; rmdir seeded/$id; exit 1
fi
cp $src/patch_$lid.diff seeded/$id/patch.diff; cp $src/demo_$lid.py seeded/$id/demo.py; cp $src/meta_$lid.json seeded/$id/meta_seeder.json 2>/dev/null
# plain quick tier first; if it misses, once more with the opt-in escalation to the thorough sizes
VERIF_NO_ESCALATE=1 tools/run_seed.sh seeded/$id/patch.diff $tier $prop > $log.check 2>&1
if grep -q "^rc=0" $log.check; then
  echo "(plain $tier tier missed it; re-running with escalation)" >> $log.check
  VERIF_ESCALATE=1 tools/run_seed.sh seeded/$id/patch.diff $tier $prop >> $log.check 2>&1
fi
cat $log.check | tail -6
/venv/bin/python - "$id" "$prop" "$tier" "$log.check" "$log.after" <<'PY'
import json,sys,os,re
id_,prop,tier,chk,after=sys.argv[1:]
d=f"/verif/seeded/{id_}"
ms={}
try: ms=json.load(open(d+"/meta_seeder.json"))
except Exception: pass
out=open(chk).read()
viol=re.findall(r"VIOLATION property=\S+ replay=\S+( no-failing-input-found)?",out)
rc=re.findall(r"rc=(\d+)",out)
esc=" [only after escalation to the thorough sizes: the plain quick tier missed it]" if "re-running with escalation" in out else ""
res=("MISSED (check exits 0)" if rc and rc[-1]=="0" else
     ("VIOLATION no-failing-input-found" if viol and all(v for v in viol) else
      (f"VIOLATION with failing input ({len(viol)} replay(s))" if viol else f"rc={rc[-1] if rc else '?'}")))
meta={"property":prop,"seed_id":id_,"summary":ms.get("summary"),"files_changed":ms.get("files_changed"),
 "needs_to_manifest":ms.get("needs_to_manifest"),
 "produced_by":"fresh sub-agent given only the property text and a scratch worktree of /repo (nothing from /verif except the neutral tools run_tests.sh / pyx2py.py)",
 "confirmed_by":"tools/seed_intake.sh: demo exits 0 on /repo HEAD, non-zero with patch.diff applied in a scratch worktree; the 626 stable tests of BASELINE.json still pass with the patch",
 "demo_failure_tail":open(after).read()[-400:],
 "checks_run":f"tools/run_seed.sh seeded/{id_}/patch.diff {tier} {prop}",
 "result":{prop:res+esc}}
json.dump(meta,open(d+"/meta.json","w"),indent=1)
if os.path.exists(d+"/meta_seeder.json"): os.remove(d+"/meta_seeder.json")
print(id_,"->",res)
PY
rm -f $log.*
