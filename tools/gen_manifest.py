"""Writes MANIFEST.json from the table below (kept valid at all times)."""
import json, os
V = os.path.dirname(os.path.dirname(os.path.abspath(__file__)))
props = [json.loads(l) for l in open(os.path.join(V, "properties.jsonl"))]
CLAIMS = json.load(open(os.path.join(V, "tools", "claims.json")))
checks, na = [], []
for p in props:
    c = CLAIMS.get(p["id"])
    if not c or not c.get("claimed"):
        na.append({"property_id": p["id"], "reason": (c or {}).get("reason", "check not built yet (work in progress; see DESIGN.md section 11)")})
        continue
    checks.append({
        "property_id": p["id"],
        "quick_cmd": f"./check {p['id']} --tier quick",
        "thorough_cmd": f"./check {p['id']} --tier thorough",
        "evidence_file": f"evidence/{p['id']}.json",
        "replay_cmd_template": f"./check {p['id']} --replay {{path}}",
        "engine": "lean4-gemverif",
        "level_claimed": {"category": "proof", "text": c["text"], "design_ref": c.get("design_ref", "DESIGN.md section 6")},
        "level_note": c["note"],
        "technique": c["technique"],
    })
m = {
    "version": 1,
    "setup_cmd": "./check --setup",
    "hooks": {"guard": "GEMCLUS_VERIF", "enable": "no source hooks are needed: every observation point is reachable from the harness process (the variable is set by the harness and currently read by nothing in /repo)",
              "baseline_off_cmd": "cd /repo && /venv/bin/python -m pytest -ra -q -p no:cacheprovider --timeout=900 --continue-on-collection-errors",
              "source_commits": [], "add_only": True},
    "engines": [{"name": "lean4-gemverif", "path": "lean/", "serves_properties": [c["property_id"] for c in checks],
                 "kind_free_text": "Lean 4 + Mathlib: executable models (generic in the number type) with property theorems; tied to /repo by a table/scalar translator (translator/) and by a differential correspondence harness (harness/) over a line protocol"}],
    "checks": checks,
    "notes": "Fix commits in /repo and known findings are listed in known_findings.json; DESIGN.md describes approach, trusted base and which seeded changes each check catches.",
    "not_applicable": na,
}
json.dump(m, open(os.path.join(V, "MANIFEST.json"), "w"), indent=1)
print(f"{len(checks)} claimed, {len(na)} not claimed")
