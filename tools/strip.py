import ast,sys
def strip(path):
    src=open(path).read()
    tree=ast.parse(src)
    lines=src.split('\n')
    kill=set()
    for node in ast.walk(tree):
        if isinstance(node,(ast.FunctionDef,ast.ClassDef,ast.Module)):
            b=node.body
            if b and isinstance(b[0],ast.Expr) and isinstance(getattr(b[0],'value',None),ast.Constant) and isinstance(b[0].value.value,str):
                for l in range(b[0].lineno,b[0].end_lineno+1): kill.add(l)
    for i,l in enumerate(lines,1):
        if i not in kill: print(f"{i}\t{l}")
for p in sys.argv[1:]:
    print('#####',p); strip(p)
