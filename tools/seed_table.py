"""prints the markdown table of DESIGN.md section 20 from seeded/*/meta.json"""
import json, glob, os
V = os.path.dirname(os.path.dirname(os.path.abspath(__file__)))
rows = []
for d in sorted(glob.glob(os.path.join(V, "seeded", "*"))):
    m = json.load(open(os.path.join(d, "meta.json")))
    prop = m["property"]
    res = m.get("result", {}).get(prop, "?")
    hist = m.get("history", [])
    summ = (m.get("summary") or "").replace("\n", " ").replace("|", "/")
    if len(summ) > 230:
        summ = summ[:227] + "..."
    note = ""
    if hist:
        note = f" (first run: {hist[0]}; check strengthened since)"
    rows.append(f"| {os.path.basename(d)} | {summ} | {res}{note} |")
print("| seed | change | result of the property's quick check |\n|---|---|---|")
print("\n".join(rows))
