import GemVerif.Num
