/-
  Second part of the untyped NumPy of GemVerif/Np.lean: what translator/geminis.py needs to transcribe the
  `evaluate` methods of the GEMINI objectives (Gen/Geminis.lean).

  NUMBER OF DIMENSIONS.  `Arr α` stays a 2-D carrier `(r, c)`.  The translator tracks the number of dimensions of
  every NumPy value statically (it is determined by the operations once `y_pred` and `affinity` are 2-D) and stores
    * a 0-d array / NumPy scalar (result of `np.sum(x)`, `x.mean()`, `.squeeze()`)  as a `(1, 1)` `Arr`,
    * a 1-D array of shape `(m,)`                                                    as a `(1, m)` `Arr`,
  which is exactly how NumPy's broadcasting treats them (shapes are left-padded with 1).  Operations whose meaning
  depends on the number of dimensions come in one version per case (`sumVec` for 1-D, `sumAll` for 2-D, …); the
  1-D / 0-d versions check the stored shape (`r = 1`) in `ok`, so that a wrong static guess can never go unnoticed.
  Python scalars (`self.epsilon`, literals, `y_pred.shape[0]`) stay scalars (`α`, resp. `Nat`).

  3-D ARRAYS (the N×K×K tensors of the one-vs-one total variation) have their own carrier `Arr3 α` with shape
  `(d0, d1, d2)`: `np.expand_dims` of a 2-D array, batched `@`, `np.transpose(·, axes=[0, 2, 1])`, broadcasting
  arithmetic, reductions over the first axis and `np.squeeze(·, axis)` back to 2-D.

  BOOLEAN ARRAYS are `Arr Bool` (`gtS`, `ltS`, `eqS`, `band`); `ofMask` is the 0/1 float array NumPy converts them
  to inside arithmetic (`gradient * clip_mask`, `delta + delta_mask`).

  PYTHON-LEVEL ERRORS.  `inPlace` re-checks the shape rule of `x op= y`; `checked flags` wraps what a method returns,
  `flags` being the conjunction of the `ok` of every array the method computed and of the translator's own
  conditions (`N != 0` for a division of Python scalars by `N`).

  SUMMATION ORDER.  Every reduction is `sumTo` (= `sumFin`, index order) over ONE axis; the full reduction of a 2-D
  array (`sumAll`, `meanAll`) sums each row, then the row sums — the order the hand models of Model/Gemini.lean use.

  No Mathlib.
-/
import GemVerif.Np

namespace GemVerif.Np
open GemVerif RealLike

namespace Arr
variable {α : Type} [RealLike α]

/-! ### scalars as arrays, pairs -/

/-- a 0-d array (NumPy scalar) holding `s` -/
def ofScalar (s : α) : Arr α := { r := 1, c := 1, get := fun _ _ => s }

/-! ### elementwise functions -/

/-- `np.log(A)` -/
def log (A : Arr α) : Arr α := { A with get := fun i j => RealLike.log (A.get i j) }
/-- `np.sqrt(A)` -/
def sqrt (A : Arr α) : Arr α := { A with get := fun i j => RealLike.sqrt (A.get i j) }
/-- `np.abs(A)` -/
def abs (A : Arr α) : Arr α := { A with get := fun i j => RealLike.abs (A.get i j) }
/-- `np.sign(A)` -/
def sign (A : Arr α) : Arr α := { A with get := fun i j => RealLike.sign (A.get i j) }
/-- `np.square(A)` -/
def square (A : Arr α) : Arr α := { A with get := fun i j => RealLike.sq (A.get i j) }
/-- `np.clip(A, lo, hi)` with scalar bounds -/
def clip (A : Arr α) (lo hi : α) : Arr α := { A with get := fun i j => RealLike.clip (A.get i j) lo hi }

/-! ### array ∘ Python scalar (`s * A` and `A * s` are `smul` / `muls` of Np.lean) -/

/-- `A + s` -/
def adds (A : Arr α) (s : α) : Arr α := { A with get := fun i j => A.get i j + s }
/-- `s + A` -/
def radds (s : α) (A : Arr α) : Arr α := { A with get := fun i j => s + A.get i j }
/-- `A - s` -/
def subs (A : Arr α) (s : α) : Arr α := { A with get := fun i j => A.get i j - s }
/-- `s - A` -/
def rsubs (s : α) (A : Arr α) : Arr α := { A with get := fun i j => s - A.get i j }
/-- `A / s` -/
def divs (A : Arr α) (s : α) : Arr α := { A with get := fun i j => A.get i j / s }
/-- `s / A` -/
def rdivs (s : α) (A : Arr α) : Arr α := { A with get := fun i j => s / A.get i j }

/-! ### reductions -/

/-- `A.sum(1)` of a 2-D array WITHOUT keepdims: the 1-D array of the `r` row sums -/
def sumAxis1v (A : Arr α) : Arr α :=
  { r := 1, c := A.r, get := fun _ j => sumTo A.c fun l => A.get j l, ok := A.ok }

/-- `A.mean(0)` of a 2-D array (with or without keepdims: shape `(1, c)` resp. `(c,)`) -/
def meanAxis0 (A : Arr α) : Arr α :=
  { r := 1, c := A.c, get := fun _ j => (sumTo A.r fun l => A.get l j) / nat A.r, ok := A.ok }

/-- `A.mean(1, keepdims=True)` of a 2-D array: shape `(r, 1)` -/
def meanAxis1 (A : Arr α) : Arr α :=
  { r := A.r, c := 1, get := fun i _ => (sumTo A.c fun l => A.get i l) / nat A.c, ok := A.ok }

/-- `A.mean(1)` of a 2-D array without keepdims: the 1-D array of the `r` row means -/
def meanAxis1v (A : Arr α) : Arr α :=
  { r := 1, c := A.r, get := fun _ j => (sumTo A.c fun l => A.get j l) / nat A.c, ok := A.ok }

/-- `np.sum(v)` / `v.sum(0)` of a 1-D array: a 0-d array -/
def sumVec (v : Arr α) : Arr α :=
  { r := 1, c := 1, get := fun _ _ => sumTo v.c fun l => v.get 0 l, ok := v.ok && v.r == 1 }

/-- `np.mean(v)` / `v.mean(0)` of a 1-D array: a 0-d array -/
def meanVec (v : Arr α) : Arr α :=
  { r := 1, c := 1, get := fun _ _ => (sumTo v.c fun l => v.get 0 l) / nat v.c, ok := v.ok && v.r == 1 }

/-- `np.sum(A)` of a 2-D array: a 0-d array (row sums first, then their sum) -/
def sumAll (A : Arr α) : Arr α :=
  { r := 1, c := 1, get := fun _ _ => sumTo A.r fun i => sumTo A.c fun l => A.get i l, ok := A.ok }

/-- `np.mean(A)` of a 2-D array: a 0-d array (`np.sum(A) / A.size`) -/
def meanAll (A : Arr α) : Arr α :=
  { r := 1, c := 1, get := fun _ _ => (sumTo A.r fun i => sumTo A.c fun l => A.get i l) / nat (A.r * A.c),
    ok := A.ok }

/-! ### shapes -/

/-- `v.reshape((-1, 1))` of a 1-D array: the `(m, 1)` column -/
def reshapeCol (v : Arr α) : Arr α :=
  { r := v.c, c := 1, get := fun i _ => v.get 0 i, ok := v.ok && v.r == 1 }

/-- `v.reshape((1, -1))` of a 1-D array: the `(1, m)` row (same storage; only the stored-shape check is added) -/
def reshapeRow (v : Arr α) : Arr α := { v with ok := v.ok && v.r == 1 }

/-- `A.squeeze()` where the translator expects a single element (a `(1, 1)` or `(1,)` array): the 0-d array.
    Any other shape is flagged, because NumPy would then NOT return a scalar. -/
def squeeze0 (A : Arr α) : Arr α := { A with ok := A.ok && A.r == 1 && A.c == 1 }

/-- `np.eye(m)` -/
def eye (m : Nat) : Arr α := { r := m, c := m, get := fun i j => if i = j then 1 else 0 }

/-- `np.diag(A)` of a 2-D array: the 1-D array of the `min r c` diagonal entries -/
def diagVec (A : Arr α) : Arr α :=
  { r := 1, c := Nat.min A.r A.c, get := fun _ j => A.get j j, ok := A.ok }

/-- `np.diag(v)` of a 1-D array: the `(m, m)` diagonal matrix -/
def diagMat (v : Arr α) : Arr α :=
  { r := v.c, c := v.c, get := fun i j => if i = j then v.get 0 i else 0, ok := v.ok && v.r == 1 }

/-- `np.dot(A, v)` / `A @ v` for a 2-D `A` and a 1-D `v`: the 1-D array of shape `(r,)` -/
def matvec (A v : Arr α) : Arr α :=
  { r := 1, c := A.r, get := fun _ i => sumTo A.c fun l => A.get i l * v.get 0 l,
    ok := A.ok && v.ok && v.r == 1 && A.c == v.c }

/-! ### Boolean arrays -/

/-- `A > s` -/
def gtS (A : Arr α) (s : α) : Arr Bool :=
  { r := A.r, c := A.c, get := fun i j => RealLike.lt s (A.get i j), ok := A.ok }
/-- `A < s` -/
def ltS (A : Arr α) (s : α) : Arr Bool :=
  { r := A.r, c := A.c, get := fun i j => RealLike.lt (A.get i j) s, ok := A.ok }
/-- `A == s` -/
def eqS (A : Arr α) (s : α) : Arr Bool :=
  { r := A.r, c := A.c, get := fun i j => RealLike.beq (A.get i j) s, ok := A.ok }

/-- `M & N` on Boolean arrays (broadcasting) -/
def band (M N : Arr Bool) : Arr Bool :=
  { r := bdim M.r N.r, c := bdim M.c N.c,
    get := fun i j => M.get (bidx M.r i) (bidx M.c j) && N.get (bidx N.r i) (bidx N.c j),
    ok := M.ok && N.ok && bok M.r N.r && bok M.c N.c }

/-- the float array a Boolean array becomes inside arithmetic: `True -> 1.0`, `False -> 0.0` -/
def ofMask (M : Arr Bool) : Arr α :=
  { r := M.r, c := M.c, get := fun i j => ofBool (M.get i j), ok := M.ok }

/-- `A[M] = s` for a Boolean array `M` of the shape of `A` (NumPy raises IndexError otherwise) -/
def setWhere (A : Arr α) (M : Arr Bool) (s : α) : Arr α :=
  { A with get := fun i j => if M.get i j then s else A.get i j,
           ok := A.ok && M.ok && A.r == M.r && A.c == M.c }

/-- `np.fill_diagonal(A, s)` on a 2-D array (in place; `wrap=False`): the entries `A[i, i]`, `i < min(r, c)`, become `s` -/
def fillDiagonal (A : Arr α) (s : α) : Arr α := { A with get := fun i j => if i = j then s else A.get i j }

/-- `A[:, m] = s` for a 1-D Boolean array `m` with one entry per column of `A` -/
def setColsWhere (A : Arr α) (m : Arr Bool) (s : α) : Arr α :=
  { A with get := fun i j => if m.get 0 j then s else A.get i j,
           ok := A.ok && m.ok && m.r == 1 && A.c == m.c }

/-- `np.repeat(A, m, axis=0)` of a 2-D array: every row is repeated `m` times in a row -/
def repeat0 (A : Arr α) (m : Nat) : Arr α :=
  { r := A.r * m, c := A.c, get := fun i j => A.get (i / m) j, ok := A.ok }

end Arr

/-! ### 3-D arrays -/

structure Arr3 (α : Type) where
  d0 : Nat
  d1 : Nat
  d2 : Nat
  get : Nat → Nat → Nat → α
  /-- `false` = NumPy would have raised somewhere on the way -/
  ok : Bool := true

namespace Arr3
variable {α : Type} [RealLike α]

/-- `np.expand_dims(A, axis=0)` of a 2-D array: shape `(1, r, c)` (also: how NumPy broadcasts a 2-D array against a
    3-D one) -/
def expandFirst (A : Arr α) : Arr3 α :=
  { d0 := 1, d1 := A.r, d2 := A.c, get := fun _ j k => A.get j k, ok := A.ok }
/-- `np.expand_dims(A, axis=1)` of a 2-D array: shape `(r, 1, c)` -/
def expandMid (A : Arr α) : Arr3 α :=
  { d0 := A.r, d1 := 1, d2 := A.c, get := fun i _ k => A.get i k, ok := A.ok }
/-- `np.expand_dims(A, axis=-1)` of a 2-D array: shape `(r, c, 1)` -/
def expandLast (A : Arr α) : Arr3 α :=
  { d0 := A.r, d1 := A.c, d2 := 1, get := fun i j _ => A.get i j, ok := A.ok }

/-- `np.transpose(T, axes=[0, 2, 1])` -/
def transpose021 (T : Arr3 α) : Arr3 α :=
  { d0 := T.d0, d1 := T.d2, d2 := T.d1, get := fun i j k => T.get i k j, ok := T.ok }

/-- `S @ T` on 3-D arrays: one matrix product per index of the first axis (which broadcasts) -/
def matmul (S T : Arr3 α) : Arr3 α :=
  { d0 := bdim S.d0 T.d0, d1 := S.d1, d2 := T.d2,
    get := fun i a b => sumTo S.d2 fun l => S.get (bidx S.d0 i) a l * T.get (bidx T.d0 i) l b,
    ok := S.ok && T.ok && bok S.d0 T.d0 && S.d2 == T.d1 }

/-- elementwise binary operation with NumPy broadcasting on the three axes -/
def zipWith (f : α → α → α) (S T : Arr3 α) : Arr3 α :=
  { d0 := bdim S.d0 T.d0, d1 := bdim S.d1 T.d1, d2 := bdim S.d2 T.d2,
    get := fun i j k => f (S.get (bidx S.d0 i) (bidx S.d1 j) (bidx S.d2 k)) (T.get (bidx T.d0 i) (bidx T.d1 j) (bidx T.d2 k)),
    ok := S.ok && T.ok && bok S.d0 T.d0 && bok S.d1 T.d1 && bok S.d2 T.d2 }

/-- `S + T` -/
def add (S T : Arr3 α) : Arr3 α := zipWith (· + ·) S T
/-- `S - T` -/
def sub (S T : Arr3 α) : Arr3 α := zipWith (· - ·) S T
/-- `S * T` (elementwise) -/
def mul (S T : Arr3 α) : Arr3 α := zipWith (· * ·) S T
/-- `S / T` (elementwise) -/
def div (S T : Arr3 α) : Arr3 α := zipWith (· / ·) S T

/-- `-T` -/
def neg (T : Arr3 α) : Arr3 α := { T with get := fun i j k => -(T.get i j k) }
/-- `np.sign(T)` -/
def sign (T : Arr3 α) : Arr3 α := { T with get := fun i j k => RealLike.sign (T.get i j k) }
/-- `np.abs(T)` -/
def abs (T : Arr3 α) : Arr3 α := { T with get := fun i j k => RealLike.abs (T.get i j k) }
/-- `s * T` for a Python scalar `s` -/
def smul (s : α) (T : Arr3 α) : Arr3 α := { T with get := fun i j k => s * T.get i j k }
/-- `T * s` -/
def muls (T : Arr3 α) (s : α) : Arr3 α := { T with get := fun i j k => T.get i j k * s }
/-- `T / s` -/
def divs (T : Arr3 α) (s : α) : Arr3 α := { T with get := fun i j k => T.get i j k / s }

/-- `T.sum(0)`: the 2-D array of shape `(d1, d2)` -/
def sumAxis0 (T : Arr3 α) : Arr α :=
  { r := T.d1, c := T.d2, get := fun j k => sumTo T.d0 fun l => T.get l j k, ok := T.ok }
/-- `T.mean(0)` / `np.mean(T, axis=0)`: the 2-D array of shape `(d1, d2)` -/
def meanAxis0 (T : Arr3 α) : Arr α :=
  { r := T.d1, c := T.d2, get := fun j k => (sumTo T.d0 fun l => T.get l j k) / nat T.d0, ok := T.ok }

/-- `np.squeeze(T, axis=1)`: shape `(d0, d2)`; NumPy raises unless `d1 = 1` -/
def squeeze1 (T : Arr3 α) : Arr α :=
  { r := T.d0, c := T.d2, get := fun i k => T.get i 0 k, ok := T.ok && T.d1 == 1 }
/-- `np.squeeze(T, axis=2)`: shape `(d0, d1)`; NumPy raises unless `d2 = 1` -/
def squeeze2 (T : Arr3 α) : Arr α :=
  { r := T.d0, c := T.d1, get := fun i j => T.get i j 0, ok := T.ok && T.d2 == 1 }

end Arr3

namespace Arr
variable {α : Type} [RealLike α]

/-! ### Python-level checks -/

/-- the result `R` of an in-place update `T op= …` (`T += x`, `T /= x`, …): NumPy raises unless the broadcast
    result has exactly the shape of `T` -/
def inPlace (T R : Arr α) : Arr α := { R with ok := R.ok && R.r == T.r && R.c == T.c }

/-- the returned value of a method: `flags` collects the `ok` of EVERY array the method computed on the way (also
    those the result does not depend on: an exception anywhere aborts the call) -/
def checked (flags : Bool) (A : Arr α) : Arr α := { A with ok := A.ok && flags }

end Arr
end GemVerif.Np
