/-
  Number abstraction shared by every executable model.

  One definition, two uses: model functions are written once, generic in `[RealLike α]`;
  the driver executes them on `Float` (IEEE doubles, as numpy) or `Rat` (exact), and the
  property theorems instantiate them at `ℝ` (`GemVerif/NumReal.lean`).
  This file must stay free of Mathlib imports so that drivers start fast.
-/
namespace GemVerif

class RealLike (α : Type) extends Zero α, One α, Add α, Sub α, Mul α, Div α, Neg α, NatCast α where
  log : α → α
  sqrt : α → α
  exp : α → α
  abs : α → α
  max : α → α → α
  min : α → α → α
  /-- strict comparison, Boolean so that models stay executable -/
  lt : α → α → Bool
  le : α → α → Bool
  /-- equality test as the implementation performs it (`==` on doubles) -/
  beq : α → α → Bool

namespace RealLike
variable {α : Type} [RealLike α]

/-- numeric literal `n` -/
@[inline] def nat (n : Nat) : α := (n : α)
/-- `0.5` -/
@[inline] def half : α := (1 : α) / nat 2
/-- `np.sign` -/
def sign (x : α) : α := if lt 0 x then 1 else if lt x 0 then -1 else 0
/-- `np.clip(x, lo, hi)` = `min(max(x, lo), hi)` -/
def clip (x lo hi : α) : α := min (max x lo) hi
/-- Boolean mask as a number, like numpy's `array * bool_array` -/
def ofBool (b : Bool) : α := if b then 1 else 0
def sq (x : α) : α := x * x
end RealLike

/-- Sum of a finite family, in index order (numpy sums in index order for the tiny sizes we use;
    the order is irrelevant over ℝ). -/
def sumFin {α : Type} [Zero α] [Add α] {n : Nat} (f : Fin n → α) : α := (List.ofFn f).sum

instance : RealLike Float where
  log := Float.log
  sqrt := Float.sqrt
  exp := Float.exp
  abs := Float.abs
  -- numpy's maximum/minimum propagate NaN; so do these
  max a b := if a.isNaN then a else if b.isNaN then b else if a < b then b else a
  min a b := if a.isNaN then a else if b.isNaN then b else if b < a then b else a
  lt a b := a < b
  le a b := a ≤ b
  beq a b := a == b
  natCast n := Float.ofNat n

/-- `Rat` executes the purely algebraic units exactly. `log`, `sqrt`, `exp` are never called by
    those units; they are defined as 0 so that a call would show up as a disagreement. -/
instance : RealLike Rat where
  log _ := 0
  sqrt _ := 0
  exp _ := 0
  abs a := if a < 0 then -a else a
  max a b := if a < b then b else a
  min a b := if b < a then b else a
  lt a b := a < b
  le a b := a ≤ b
  beq a b := a == b
  natCast n := (n : Rat)

/-- Dense row-major matrix helper for drivers: turns a flat array into a function. -/
def matOf {α : Type} [Inhabited α] (a : Array α) (n k : Nat) : Fin n → Fin k → α :=
  fun i j => a[i.val * k + j.val]!

def vecOf {α : Type} [Inhabited α] (a : Array α) (n : Nat) : Fin n → α :=
  fun i => a[i.val]!

/-- A finite function memoised in an array.  `tab f` is computed once (it is a value, not a
    closure) and behaves as `f` (`tab_apply` in `NumReal.lean`).  Models use it only to keep the
    executable cost polynomial; it is transparent to every theorem. -/
structure Tab (α : Type) (n : Nat) where
  arr : Array α

def Tab.get {α : Type} [Inhabited α] {n : Nat} (t : Tab α n) (i : Fin n) : α := t.arr[i.val]!

instance {α : Type} [Inhabited α] {n : Nat} : CoeFun (Tab α n) (fun _ => Fin n → α) := ⟨Tab.get⟩

@[noinline] def tab {α : Type} {n : Nat} (f : Fin n → α) : Tab α n := ⟨Array.ofFn f⟩

structure Tab2 (α : Type) (n k : Nat) where
  arr : Array (Array α)

def Tab2.get {α : Type} [Inhabited α] {n k : Nat} (t : Tab2 α n k) (i : Fin n) (j : Fin k) : α :=
  (t.arr[i.val]!)[j.val]!

instance {α : Type} [Inhabited α] {n k : Nat} : CoeFun (Tab2 α n k) (fun _ => Fin n → Fin k → α) :=
  ⟨Tab2.get⟩

@[noinline] def tab2 {α : Type} {n k : Nat} (f : Fin n → Fin k → α) : Tab2 α n k :=
  ⟨Array.ofFn fun i : Fin n => Array.ofFn (f i)⟩

end GemVerif
