/-
  Line-protocol helpers shared by the drivers (`lake env lean --run Drivers/X.lean`).
  Floats travel as the 16-hex-digit bit pattern of the IEEE double, never as decimals.
-/
import GemVerif.Num

namespace GemVerif.Drv

def hexVal (c : Char) : Nat :=
  if '0' ≤ c ∧ c ≤ '9' then c.toNat - '0'.toNat
  else if 'a' ≤ c ∧ c ≤ 'f' then c.toNat - 'a'.toNat + 10
  else if 'A' ≤ c ∧ c ≤ 'F' then c.toNat - 'A'.toNat + 10 else 0

def parseHex (s : String) : Nat := s.foldl (fun acc c => acc * 16 + hexVal c) 0

def floatOfHex (s : String) : Float := Float.ofBits (UInt64.ofNat (parseHex s))

def hexDigit (n : Nat) : Char :=
  if n < 10 then Char.ofNat ('0'.toNat + n) else Char.ofNat ('a'.toNat + n - 10)

def hexOfFloat (x : Float) : String :=
  -- canonical NaN token: all NaNs compare equal in the harness
  if x.isNaN then "nan" else
  let b := x.toBits.toNat
  String.ofList ((List.range 16).map fun i => hexDigit ((b >>> (4 * (15 - i))) % 16))

def floatsOut (xs : List Float) : String := " ".intercalate (xs.map hexOfFloat)

def parseInt (s : String) : Int :=
  if s.startsWith "-" then -((s.drop 1).toString.toNat!) else s.toNat!

/-- rational `num/den` or integer -/
def parseRat (s : String) : Rat :=
  match s.splitOn "/" with
  | [a, b] => (parseInt a : Rat) / (parseInt b : Rat)
  | _ => (parseInt s : Rat)

def ratOut (q : Rat) : String := s!"{q.num}/{q.den}"

/-- Cursor over the tokens of one line. -/
structure Toks where
  toks : Array String
  pos : Nat := 0

namespace Toks
def next (t : Toks) : String × Toks := (t.toks[t.pos]!, { t with pos := t.pos + 1 })
def nat (t : Toks) : Nat × Toks := let (s, t) := t.next; (s.toNat!, t)
def int (t : Toks) : Int × Toks := let (s, t) := t.next; (parseInt s, t)
def float (t : Toks) : Float × Toks := let (s, t) := t.next; (floatOfHex s, t)
def rat (t : Toks) : Rat × Toks := let (s, t) := t.next; (parseRat s, t)
def floats (t : Toks) (n : Nat) : Array Float × Toks :=
  (((t.toks.extract t.pos (t.pos + n)).map floatOfHex), { t with pos := t.pos + n })
def rats (t : Toks) (n : Nat) : Array Rat × Toks :=
  (((t.toks.extract t.pos (t.pos + n)).map parseRat), { t with pos := t.pos + n })
def ints (t : Toks) (n : Nat) : Array Int × Toks :=
  (((t.toks.extract t.pos (t.pos + n)).map parseInt), { t with pos := t.pos + n })
def nats (t : Toks) (n : Nat) : Array Nat × Toks :=
  (((t.toks.extract t.pos (t.pos + n)).map String.toNat!), { t with pos := t.pos + n })
end Toks

def tokenize (line : String) : Toks :=
  { toks := ((line.trimAscii.toString.splitOn " ").filter (· ≠ "")).toArray }

/-- Read stdin line by line, answer one line per request. -/
partial def serve (step : Toks → String) : IO Unit := do
  let stdin ← IO.getStdin
  let stdout ← IO.getStdout
  let rec loop : IO Unit := do
    let line ← stdin.getLine
    if line.isEmpty then return ()
    let t := tokenize line
    if t.toks.size == 0 then loop else
    stdout.putStrLn (step t)
    loop
  loop
  stdout.flush

def matOut {n k : Nat} (f : Fin n → Fin k → Float) : String :=
  floatsOut ((List.finRange n).flatMap fun i => (List.finRange k).map fun j => f i j)

end GemVerif.Drv
