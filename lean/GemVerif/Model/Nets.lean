/-
  Executable model of the forward passes (`_infer`) and hand-written back-propagation
  (`_compute_grads`, `_update_weights` penalties) of the gradient-trained models:
  gemclus/linear/_linear_geminis.py (LinearModel, RIM, KernelRIM), gemclus/mlp/_mlp_geminis.py (MLPModel),
  gemclus/sparse/_mlp_sparse.py (SparseMLPModel), gemclus/nonparametric/_categorical_models.py.
  Matrices are functions `Fin r → Fin c → α`.  No Mathlib.
-/
import GemVerif.Num

namespace GemVerif.Model.Nets
open GemVerif RealLike

variable {α : Type} [RealLike α]

local instance (priority := low) : Inhabited α := ⟨0⟩

/-- maximum of a non-empty row (`np.max(X, axis=1)`); 0 for an empty one -/
def rowMax {K : Nat} (z : Fin K → α) : α :=
  match (List.ofFn z) with
  | [] => 0
  | x :: xs => xs.foldl max x

/-- `sklearn.utils.extmath.softmax` on one row: subtract the row max, exponentiate, normalise -/
def softmaxRow {K : Nat} (z : Fin K → α) : Fin K → α :=
  let m := rowMax z
  let e := tab fun k => exp (z k - m)
  let s := sumFin fun k => e k
  fun k => e k / s

/-- `X @ W + b` -/
def affine {n d K : Nat} (X : Fin n → Fin d → α) (W : Fin d → Fin K → α) (b : Fin K → α) : Fin n → Fin K → α :=
  fun i k => (sumFin fun j => X i j * W j k) + b k

/-- `LinearModel._infer` -/
def linearInfer {n d K : Nat} (X : Fin n → Fin d → α) (W : Fin d → Fin K → α) (b : Fin K → α) : Fin n → Fin K → α :=
  fun i => softmaxRow (affine X W b i)

/-- `tau_hat_grad = y_pred * (gradient - (y_pred * gradient).sum(1, keepdims=True))` -/
def tauHat {n K : Nat} (y g : Fin n → Fin K → α) : Fin n → Fin K → α :=
  fun i k => y i k * (g i k - sumFin fun c => y i c * g i c)

/-- `LinearModel._compute_grads`: `[-X.T @ tau, -tau.sum(0)]` -/
def linearGradW {n d K : Nat} (X : Fin n → Fin d → α) (y g : Fin n → Fin K → α) : Fin d → Fin K → α :=
  let t := tab2 (tauHat y g)
  fun j k => -(sumFin fun i => X i j * t i k)

def linearGradB {n K : Nat} (y g : Fin n → Fin K → α) : Fin K → α :=
  let t := tab2 (tauHat y g)
  fun k => -(sumFin fun i => t i k)

/-- `RIM._update_weights`: `gradients[0] += self.reg * 2 * self.W_` -/
def rimGradW {n d K : Nat} (reg : α) (X : Fin n → Fin d → α) (W : Fin d → Fin K → α) (y g : Fin n → Fin K → α) :
    Fin d → Fin K → α :=
  fun j k => linearGradW X y g j k + reg * nat 2 * W j k

/-- `KernelRIM._compute_grads`: `Xb` holds the batch's rows of the training kernel (`m × n`), `κ` is the complete
    `n × n` training kernel kept by `fit`, `W` is `n × K`:
    `base_grads[0] += 2 * self.reg * np.dot(self._training_kernel, self.W_)` -/
def kernelRimGradW {m n K : Nat} (reg : α) (κ : Fin n → Fin n → α) (Xb : Fin m → Fin n → α) (W : Fin n → Fin K → α)
    (y g : Fin m → Fin K → α) : Fin n → Fin K → α :=
  fun j k => linearGradW Xb y g j k + nat 2 * reg * (sumFin fun l => κ j l * W l k)

/-- hidden activations `H = max(X @ W1 + b1, 0)` -/
def hidden {n d h : Nat} (X : Fin n → Fin d → α) (W1 : Fin d → Fin h → α) (b1 : Fin h → α) : Fin n → Fin h → α :=
  fun i j => max (affine X W1 b1 i j) 0

/-- `MLPModel._infer` -/
def mlpInfer {n d h K : Nat} (X : Fin n → Fin d → α) (W1 : Fin d → Fin h → α) (b1 : Fin h → α)
    (W2 : Fin h → Fin K → α) (b2 : Fin K → α) : Fin n → Fin K → α :=
  let H := tab2 (hidden X W1 b1)
  fun i => softmaxRow (affine H W2 b2 i)

/-- `SparseMLPModel._infer`: the MLP logits plus the skip connection `X @ W_skip` -/
def sparseMlpInfer {n d h K : Nat} (X : Fin n → Fin d → α) (W1 : Fin d → Fin h → α) (b1 : Fin h → α)
    (W2 : Fin h → Fin K → α) (b2 : Fin K → α) (Ws : Fin d → Fin K → α) : Fin n → Fin K → α :=
  let H := tab2 (hidden X W1 b1)
  fun i => softmaxRow fun k => affine H W2 b2 i k + sumFin fun j => X i j * Ws j k

/-- the five gradients of `MLPModel._compute_grads` / `SparseMLPModel._compute_grads` (already negated).
    `H` is the retained hidden activation `self.H_`. -/
structure MlpGrads (α : Type) (d h K : Nat) where
  W1 : Fin d → Fin h → α
  W2 : Fin h → Fin K → α
  b1 : Fin h → α
  b2 : Fin K → α
  Ws : Fin d → Fin K → α     -- only meaningful for the sparse model

def mlpGrads {n d h K : Nat} (X : Fin n → Fin d → α) (H : Fin n → Fin h → α) (W2 : Fin h → Fin K → α)
    (y g : Fin n → Fin K → α) : MlpGrads α d h K :=
  let t := tab2 (tauHat y g)
  -- backprop_grad = (tau @ W2.T) * (H > 0)
  let bp := tab2 fun i j => (sumFin fun k => t i k * W2 j k) * ofBool (lt 0 (H i j))
  { W1 := fun a j => -(sumFin fun i => X i a * bp i j),
    W2 := fun j k => -(sumFin fun i => H i j * t i k),
    b1 := fun j => -(sumFin fun i => bp i j),
    b2 := fun k => -(sumFin fun i => t i k),
    Ws := fun a k => -(sumFin fun i => X i a * t i k) }

/-- `CategoricalModel`: `_infer = softmax(logits_)`, `_compute_grads = [-tau]` -/
def categoricalInfer {n K : Nat} (logits : Fin n → Fin K → α) : Fin n → Fin K → α :=
  fun i => softmaxRow (logits i)

def categoricalGrad {n K : Nat} (y g : Fin n → Fin K → α) : Fin n → Fin K → α :=
  fun i k => -(tauHat y g i k)

/-- `predict`: index of the first maximal entry (`np.argmax`) -/
def argmaxRow {K : Nat} (z : Fin K → α) : Nat :=
  ((List.ofFn z).zipIdx.foldl (fun (best : Option (α × Nat)) (x : α × Nat) =>
    match best with
    | none => some x
    | some (bv, bi) => if lt bv x.1 then some x else some (bv, bi)) none).map (·.2) |>.getD 0

end GemVerif.Model.Nets
