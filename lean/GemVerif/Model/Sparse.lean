/-
  Executable model of the feature-selection layer of the sparse estimators (C06):
    gemclus/sparse/_linear_sparse.py, _mlp_sparse.py : `_update_weights`, `_n_selected_features`,
      `get_selection`, `_group_lasso_penalty`, `_get_weights`, the restore blocks of `path`;
    gemclus/sparse/_base_sparse.py : `check_groups`.
  Written after the source; generic in the number type; no Mathlib.  The proximal operators themselves are
  those of `Model/Prox.lean` (property C05), the forward passes those of `Model/Nets.lean`.

  What is abstract here, on purpose: the optimiser.  `self.optimiser_.update_params(weights, gradients)` is an
  ARBITRARY function `opt` on the weights (gradients, momenta, Adam moments are inside the closure); the only thing
  `_update_weights` reads from it afterwards is `self.optimiser_.learning_rate` — its CURRENT value, i.e. the value
  after `update_params` returned (Adam rewrites that attribute inside every `update_params`).
-/
import GemVerif.Num
import GemVerif.Model.Prox
import GemVerif.Model.Nets

namespace GemVerif.Model.Sparse
open GemVerif RealLike GemVerif.Model.Prox GemVerif.Model.Nets

variable {α : Type} [RealLike α]

/-! ### selection: `get_selection`, `_n_selected_features`, `_group_lasso_penalty` -/

/-- `np.linalg.norm(W, axis=1, ord=2) != 0`, row `i` (`nan != 0` is `True` in numpy and here) -/
def rowSelected {d h : Nat} (W : Fin d → Fin h → α) (i : Fin d) : Bool := !(beq (norm2 (W i)) 0)

/-- `get_selection`: `np.nonzero(np.linalg.norm(W, axis=1, ord=2))[0]` — the rows whose norm is `!= 0`, ascending -/
def getSelection {d h : Nat} (W : Fin d → Fin h → α) : List (Fin d) :=
  (List.finRange d).filter (rowSelected W)

/-- `_n_selected_features`: `(np.linalg.norm(W, axis=1, ord=2) != 0).sum()` -/
def nSelected {d h : Nat} (W : Fin d → Fin h → α) : Nat :=
  ((List.finRange d).map fun i => if rowSelected W i then 1 else 0).sum

/-- `_group_lasso_penalty`: `np.linalg.norm(W, axis=1, ord=2).sum()` -/
def groupLassoPenalty {d h : Nat} (W : Fin d → Fin h → α) : α :=
  sumL ((List.finRange d).map fun i => norm2 (W i))

/-! ### weights of the two estimators -/

/-- `SparseLinearModel._get_weights() = [W_, b_]` -/
structure LinW (α : Type) (d K : Nat) where
  W : Fin d → Fin K → α
  b : Fin K → α

/-- `SparseMLPModel._get_weights() = [W1_, W2_, W_skip_, b1_, b2_]` -/
structure MlpW (α : Type) (d h K : Nat) where
  W1 : Fin d → Fin h → α
  W2 : Fin h → Fin K → α
  Ws : Fin d → Fin K → α
  b1 : Fin h → α
  b2 : Fin K → α

/-- `predict_proba` of the sparse linear model (`LinearModel._infer`) -/
def LinW.predictProba {d K n : Nat} (w : LinW α d K) (X : Fin n → Fin d → α) : Fin n → Fin K → α :=
  linearInfer X w.W w.b

/-- `predict_proba` of the sparse MLP (`SparseMLPModel._infer`) -/
def MlpW.predictProba {d h K n : Nat} (w : MlpW α d h K) (X : Fin n → Fin d → α) : Fin n → Fin K → α :=
  sparseMlpInfer X w.W1 w.b1 w.W2 w.b2 w.Ws

/-- selection of the two estimators: the linear one reads `W_`, the MLP reads `W_skip_` -/
def LinW.selection {d K : Nat} (w : LinW α d K) : List (Fin d) := getSelection w.W
def MlpW.selection {d h K : Nat} (w : MlpW α d h K) : List (Fin d) := getSelection w.Ws

/-! ### `_update_weights` -/

/-- the threshold handed to the proximal operator: `self.alpha * self.optimiser_.learning_rate` -/
def threshold (alpha lr : α) : α := alpha * lr

/-- the group operators fill `np.empty` row by row; a row no group covers stays uninitialised (`none`).
    `check_groups` only ever produces complete partitions, for which every row is written. -/
def collectRows {d h : Nat} (f : Fin d → Option (Fin h → α)) : Option (Fin d → Fin h → α) :=
  if (List.finRange d).all (fun i => (f i).isSome) then some (fun i => (f i).getD fun _ => 0) else none

/-- the part of `SparseLinearModel._update_weights` after the optimiser:
    `new_W = linear_prox_grad(W_, alpha * lr)` or `group_linear_prox_grad(groups_, W_, alpha * lr)`; `np.copyto(W_, new_W)` -/
def proxLinear {d K : Nat} (groups : Option (List (List (Fin d)))) (alpha lr : α) (w : LinW α d K) :
    Option (LinW α d K) :=
  match groups with
  | none => some { w with W := linearProx w.W (threshold alpha lr) }
  | some gs => (collectRows (groupLinearProx gs w.W (threshold alpha lr))).map fun W' => { w with W := W' }

/-- `SparseLinearModel._update_weights`: optimiser step (arbitrary), then the proximal step.
    `lr` is the optimiser's learning rate after `update_params`. -/
def updateLinear {d K : Nat} (groups : Option (List (List (Fin d)))) (opt : LinW α d K → LinW α d K)
    (alpha lr : α) (w : LinW α d K) : Option (LinW α d K) :=
  proxLinear groups alpha lr (opt w)

/-- the part of `SparseMLPModel._update_weights` after the optimiser:
    `mlp_prox_grad(W_skip_, W1_, alpha * lr, M)` or the group version; `np.copyto` into `W_skip_`, `W1_` -/
def proxMlp {d h K : Nat} (groups : Option (List (List (Fin d)))) (M alpha lr : α) (w : MlpW α d h K) :
    Option (MlpW α d h K) :=
  match groups with
  | none =>
    let r := mlpProx w.Ws w.W1 (threshold alpha lr) M
    some { w with Ws := r.1, W1 := r.2 }
  | some gs =>
    let r := groupMlpProx gs w.Ws w.W1 (threshold alpha lr) M
    match collectRows r.1, collectRows r.2 with
    | some Ws', some W1' => some { w with Ws := Ws', W1 := W1' }
    | _, _ => none

/-- `SparseMLPModel._update_weights` -/
def updateMlp {d h K : Nat} (groups : Option (List (List (Fin d)))) (M : α) (opt : MlpW α d h K → MlpW α d h K)
    (alpha lr : α) (w : MlpW α d h K) : Option (MlpW α d h K) :=
  proxMlp groups M alpha lr (opt w)

/-! ### histories: fits, path steps, snapshots, restoration

  The only statements that write the weights of a sparse estimator are `_init_params` (start of every `fit`, always
  followed by at least one `_update_weights`: `max_iter ≥ 1` is validated and a data set has at least one batch),
  `_update_weights` itself, and the `np.copyto` restore block of `path`, which copies `best_weights`, a copy
  (`[w.copy() for w in weights]`) taken by `_path` right after the initial fit or at the end of a path step. -/

inductive Ev (W α : Type) where
  /-- one `_update_weights` call; `init = some w₀` when it is the first update of a new `fit`, whose `_init_params`
      has just replaced the weights by `w₀` (arbitrary).  `opt` is the optimiser step, `lr` its learning rate afterwards,
      `alpha` the value of `self.alpha` at that moment (it changes along a path). -/
  | update (init : Option W) (opt : W → W) (alpha lr : α)
  /-- `best_weights = [w.copy() for w in weights]` -/
  | snapshot
  /-- the restore block of `path` -/
  | restore

/-- estimator weights (`none` before the first `fit`) and the `best_weights` snapshot of the running `path` -/
structure HState (W : Type) where
  cur : Option W := none
  snap : Option W := none

/-- one event; `none` = the Python code would fail (no weights yet / nothing to restore / uninitialised rows) -/
def stepEv {W : Type} (prox : α → α → W → Option W) (s : HState W) : Ev W α → Option (HState W)
  | .update init opt alpha lr =>
    match init.orElse (fun _ => s.cur) with
    | none => none
    | some w => (prox alpha lr (opt w)).map fun w' => { s with cur := some w' }
  | .snapshot => s.cur.map fun w => { s with snap := some w }
  | .restore => s.snap.map fun w => { s with cur := some w }

def runEvs {W : Type} (prox : α → α → W → Option W) : HState W → List (Ev W α) → Option (HState W)
  | s, [] => some s
  | s, e :: es => (stepEv prox s e).bind fun s' => runEvs prox s' es

/-! ### `check_groups` -/

inductive GroupsErr where
  /-- "Indices passed to the groups argument should be contained in …" -/
  | outOfRange
  /-- "Groups must form a partition of the set of variable indices." -/
  | notPartition
  /-- "There cannot be duplicate entries in groups." -/
  | duplicate
  deriving DecidableEq, Repr

/-- `len(set(l)) != len(l)` -/
def hasDup : List Int → Bool
  | [] => false
  | x :: xs => xs.contains x || hasDup xs

/-- the singletons appended by `check_groups`: `[[i] for i in range(n) if i not in all_indices]` -/
def singletons (all : List Int) (n : Nat) : List (List Int) :=
  ((List.range n).filter fun (i : Nat) => !(all.contains (Int.ofNat i))).map fun (i : Nat) => [Int.ofNat i]

/-- the body of `check_groups` once `all_indices` (the concatenation of the groups) has been built -/
def checkAll (gs : List (List Int)) (all : List Int) (n : Nat) : Except GroupsErr (Option (List (List Int))) :=
  -- `len(all_indices) > 0 and (min(all_indices) < 0 or max(all_indices) >= n_features_in)`
  if all.any (fun i => i < 0) || all.any (fun i => i ≥ (n : Int)) then .error .outOfRange
  else if all.length == n then
    -- `set(all_indices) != set(range(n))` (the indices are already known to lie in range)
    if (List.range n).all (fun (i : Nat) => all.contains (Int.ofNat i)) then .ok (some gs) else .error .notPartition
  else if hasDup all then .error .duplicate
  else .ok (some (gs ++ singletons all n))

/-- `check_groups(groups, n_features_in)`.  `groups = None ↦ None`;
    `all_indices = []; for g in groups: all_indices.extend(list(g))`. -/
def checkGroups (groups : Option (List (List Int))) (n : Nat) : Except GroupsErr (Option (List (List Int))) :=
  match groups with
  | none => .ok none
  | some gs => checkAll gs gs.flatten n

/-- the completion alone, as a function of the user's (partial) list -/
def completeGroups (gs : List (List Int)) (n : Nat) : List (List Int) := gs ++ singletons gs.flatten n

/-- `groups_` as lists of row indices for the proximal operators (indices are in range after `check_groups`) -/
def toFinGroups (d : Nat) (gs : List (List Int)) : List (List (Fin d)) :=
  gs.map fun g => g.filterMap fun i => if h : 0 ≤ i ∧ i.toNat < d then some ⟨i.toNat, h.2⟩ else none

/-! ### `_get_weights`, snapshot and the restore blocks of `path` -/

/-- the named arrays of the two estimators -/
inductive LinSlot where | W | b
  deriving DecidableEq, Repr
inductive MlpSlot where | W1 | W2 | Ws | b1 | b2
  deriving DecidableEq, Repr

/-- `SparseLinearModel._get_weights`: `[self.W_, self.b_]` -/
def linGetWeights : List LinSlot := [.W, .b]
/-- `SparseMLPModel._get_weights`: `[self.W1_, self.W2_, self.W_skip_, self.b1_, self.b2_]` -/
def mlpGetWeights : List MlpSlot := [.W1, .W2, .Ws, .b1, .b2]

/-- restore block of `SparseLinearModel.path`: `np.copyto(self.W_, best_weights[0]); np.copyto(self.b_, best_weights[1])` -/
def linRestoreBlock : List (LinSlot × Nat) := [(.W, 0), (.b, 1)]
/-- restore block of `SparseMLPModel.path`: `W1_ ← [0]`, `W2_ ← [1]`, `W_skip_ ← [2]`, `b1_ ← [3]`, `b2_ ← [4]` -/
def mlpRestoreBlock : List (MlpSlot × Nat) := [(.W1, 0), (.W2, 1), (.Ws, 2), (.b1, 3), (.b2, 4)]

/-- `[w.copy() for w in weights]` with `weights = _get_weights()`; the arrays are values of an arbitrary type `A` -/
def snapshot {S A : Type} (getWeights : List S) (est : S → A) : List A := getWeights.map est

/-- a sequence of `np.copyto(self.<slot>, best_weights[k])` statements -/
def applyRestore {S A : Type} [DecidableEq S] (block : List (S × Nat)) (est : S → A) (bw : List A) : S → A :=
  block.foldl (fun e (p : S × Nat) => match bw[p.2]? with
    | some a => fun s => if s = p.1 then a else e s
    | none => e) est

end GemVerif.Model.Sparse
