/-
  Frames (property C12): the shape of the statically translated dataflow facts about the estimators' public methods,
  and the Boolean checkers evaluated over the whole translated table (`Gen/Frames.lean`).  No Mathlib.

  A `Frame` describes ONE call of a public method of ONE concrete class, everything it calls on `self` included:
    reads   attributes read before being (definitely) written in that call       — may over-approximate
    writes  attributes possibly written at some moment of the call               — may over-approximate
    net     attributes whose value at a NORMAL exit may differ from their value at entry — may over-approximate (⊆ writes)
    netExc  attributes that may additionally be left modified when the call RAISES   — may over-approximate (⊆ writes)
    must    attributes definitely (re)bound on every normal return               — may under-approximate
  The pseudo attribute `*fitted*` stands for "which fitted attributes exist" (what `check_is_fitted` looks at);
  `*np.random*` for numpy's global generator.
-/
namespace GemVerif.Model.Frames

structure Frame where
  cls : String
  method : String
  reads : List String
  writes : List String
  net : List String
  netExc : List String
  must : List String
deriving Repr, DecidableEq

/-- one store of the constructor chain: `self.attr = <param src>` (kind "param") or `self.attr = <literal src>` (kind "const") -/
structure InitStore where
  cls : String
  attr : String
  kind : String
  src : String
deriving Repr, DecidableEq

/-- the translated tables of one source tree -/
structure Tables where
  classes : List String
  hyper : List (String × List String)
  init : List InitStore
  frames : List Frame

/-! ### list helpers (Boolean, so that `decide` evaluates them) -/

def subset (a b : List String) : Bool := a.all fun x => b.contains x
def disjoint (a b : List String) : Bool := a.all fun x => !b.contains x
def sameSet (a b : List String) : Bool := subset a b && subset b a

/-! ### derived tables -/

/-- constructor parameters of class `c` = the keys of `get_params()` -/
def hyperOf (T : Tables) (c : String) : List String := (T.hyper.lookup c).getD []

/-- attributes the constructor chain sets to a literal (`gemini = 'mi'` in `RIM`, `batch_size = None` in `CategoricalModel`) -/
def initConsts (T : Tables) (c : String) : List String :=
  (T.init.filter fun s => s.cls == c && s.kind == "const").map (·.attr)

/-- the CONFIGURATION of an object of class `c`: what a freshly constructed (or cloned) object holds -/
def config (T : Tables) (c : String) : List String := hyperOf T c ++ initConsts T c

/-- the methods after which "the same model" is claimed -/
def fittingMethods : List String := ["fit", "fit_predict", "path"]

/-- public methods that are not supposed to change the model -/
def isObserver (m : String) : Bool := !(m == "__init__") && !fittingMethods.contains m

/-! ### the checkers -/

/-- every attribute read-before-written by method `m` of any class is part of the configuration:
    the call depends on its arguments and on hyperparameters only, never on state left by earlier calls.
    (For `path` the attributes written by its own initial `fit` are not reads-before-write.) -/
def noStaleRead (T : Tables) (m : String) : Bool :=
  T.frames.all fun f => !(f.method == m) || subset f.reads (config T f.cls)

/-- all (class, method, attribute) with a configuration attribute in `sel frame`, constructor excluded -/
def violationsOf (sel : Frame → List String) (T : Tables) : List (String × String × String) :=
  T.frames.flatMap fun f =>
    if f.method == "__init__" then [] else
      ((sel f).filter fun a => (config T f.cls).contains a).map fun a => (f.cls, f.method, a)

/-- configuration attributes possibly different at a NORMAL exit of a public call -/
def netViolations (T : Tables) : List (String × String × String) := violationsOf (·.net) T

/-- configuration attributes possibly different at ANY exit (normal or exceptional) of a public call -/
def allViolations (T : Tables) : List (String × String × String) := violationsOf (fun f => f.net ++ f.netExc) T

/-- the constructor stores every parameter unchanged under its own name, stores nothing else under a parameter's name,
    every other store is a literal; the `__init__` frame reads nothing and writes exactly the stored attributes -/
def initIdentity (T : Tables) : Bool :=
  T.classes.all fun c =>
    let stores := T.init.filter fun s => s.cls == c
    (hyperOf T c).all (fun p => stores.any fun s => s.attr == p && s.kind == "param" && s.src == p)
    && stores.all (fun s =>
        (s.kind == "param" && s.attr == s.src && (hyperOf T c).contains s.src)
        || (s.kind == "const" && !(hyperOf T c).contains s.attr))
    && T.frames.all (fun f => !(f.cls == c && f.method == "__init__") ||
        (f.reads.isEmpty && sameSet f.writes (stores.map (·.attr))))

/-- an observer (`predict`, `predict_proba`, `score`, …) leaves untouched everything a fitting method of the same class
    reads before writing -/
def observersKeepInputs (T : Tables) : Bool :=
  T.frames.all fun f => !isObserver f.method ||
    T.frames.all fun g => !(g.cls == f.cls && fittingMethods.contains g.method) || disjoint f.net g.reads

/-- an observer reads only the configuration and what `fit` definitely wrote (so its answers after a fit are
    determined by that fit) -/
def observersReadModel (T : Tables) : Bool :=
  T.frames.all fun f => !isObserver f.method ||
    T.frames.all fun g => !(g.cls == f.cls && g.method == "fit") || subset f.reads (config T f.cls ++ g.must)

/-- the methods every estimator must have a frame for -/
def requiredMethods : List String := ["__init__", "fit", "fit_predict", "predict", "score"]

/-- every class has its hyperparameter list and a frame for every required method; frames are unique per (class, method)
    and only mention listed classes -/
def complete (T : Tables) : Bool :=
  T.classes.all (fun c =>
    (T.hyper.lookup c).isSome &&
    requiredMethods.all fun m => (T.frames.filter fun f => f.cls == c && f.method == m).length == 1)
  && T.frames.all (fun f => T.classes.contains f.cls &&
      (T.frames.filter fun g => g.cls == f.cls && g.method == f.method).length == 1)
  && T.frames.all (fun f => subset f.net f.writes && subset f.netExc f.writes && subset f.must f.writes)

end GemVerif.Model.Frames
