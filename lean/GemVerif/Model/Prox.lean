/-
  Executable model of `gemclus/sparse/_prox_grad.py`: `soft_threshold`, `mlp_prox_grad`,
  `group_mlp_prox_grad`, `linear_prox_grad`, `group_linear_prox_grad`, written line by line after
  the numpy source, generic in the number type.  No Mathlib.

  Shapes: a weight matrix is `Fin d → Fin h → α` (features on the rows).  Every numpy operation in
  the four functions acts independently on each row (`axis=1`, `keepdims=True`), so the model has a
  *row* operator and the matrix operator applies it to each row.  The group wrappers flatten the
  rows of a group (`W[g].reshape((1, -1))`, row-major) into one row of length `|g|·h`, apply the
  same row operator and scatter the result back (`W_star[g] = ….reshape(group_W.shape)`).

  Notes on faithfulness.
  * `np.linalg.norm(·, axis=1)` is `sqrt(add.reduce(x*x, axis=1))`; `sumL` adds left to right, which
    is numpy's order for fewer than 8 summands (above, numpy uses 8 partial sums: a rounding-level
    difference only, invisible on dyadic inputs whose squares add exactly).
  * `np.cumsum` starts from the first element (not from `0 + x₀`); so does `cumsum`.
  * `M ** 2` is modelled as `M * M`.
  * Division by `‖v‖ = 0` is NOT guarded in `mlp_prox_grad`; the model divides as well.  On `Float`
    this gives the IEEE `inf`/`nan` of numpy; on ℝ, `x / 0 = 0` (Lean/Mathlib convention).  The two
    agree on the in-scope zero rows (`v = 0`, `u = 0`, `α > 0`: both give `β = θ = 0`), for different
    reasons — see `Props/C05.lean`.
  * `np.sort(np.abs(u), axis=1)[:, ::-1]` is the non-increasing rearrangement of the values; it is
    modelled by an insertion sort into non-increasing order (values only are observable, so the
    sorting algorithm is not).
  * `groups` that do not cover a row leave that row of `np.empty` uninitialised: the model answers
    `none` for such a row.  If several groups contain a row, the last one wins (sequential loop).
-/
import GemVerif.Num

namespace GemVerif.Model.Prox
open GemVerif RealLike

variable {α : Type} [RealLike α]

/-- `soft_threshold(threshold, x) = np.sign(x) * np.maximum(np.abs(x) - threshold, 0)` -/
def softThreshold (t x : α) : α := sign x * max (abs x - t) 0

/-- left-to-right sum (`np.add.reduce` on a short contiguous row) -/
def sumL (l : List α) : α := l.foldl (· + ·) 0

/-- `np.linalg.norm(v, ord=2, axis=1)` of one row -/
def norm2 {n : Nat} (v : Fin n → α) : α := sqrt (sumL (List.ofFn fun k => v k * v k))

/-- insert into a non-increasing list -/
def insertDesc (x : α) : List α → List α
  | [] => [x]
  | y :: ys => if le y x then x :: y :: ys else y :: insertDesc x ys

/-- `np.sort(·)[::-1]`: the values in non-increasing order -/
def sortDesc (l : List α) : List α := l.foldr insertDesc []

def cumsumFrom (acc : α) : List α → List α
  | [] => []
  | x :: xs => (acc + x) :: cumsumFrom (acc + x) xs

/-- `np.cumsum` -/
def cumsum : List α → List α
  | [] => []
  | x :: xs => x :: cumsumFrom x xs

/-! ### `mlp_prox_grad`, one row (`v` = skip weights of the feature, `u` = its hidden weights) -/

/-- `u_abs_sorted = np.sort(np.abs(u), axis=1)[:, ::-1]` -/
def uAbsSorted {h : Nat} (u : Fin h → α) : List α := sortDesc (List.ofFn fun j => abs (u j))

/-- `a_s = alpha - M * np.concatenate([zeros, np.cumsum(u_abs_sorted)])`, entry `s ∈ 0..h` -/
def aS (L : List α) (al M : α) (s : Nat) : α := al - M * ((0 :: cumsum L).getD s 0)

/-- `x = np.maximum(1 - a_s / norm_v, 0) / (1 + s * M ** 2)`, entry `s` -/
def xS (L : List α) (al M normv : α) (s : Nat) : α :=
  max (1 - aS L al M s / normv) 0 / (1 + nat s * (M * M))

/-- `w = M * x * norm_v`, entry `s` -/
def wS (L : List α) (al M normv : α) (s : Nat) : α := M * xS L al M normv s * normv

/-- `lower = np.concatenate([soft_threshold(0, u_abs_sorted), zeros])`, entry `s` -/
def lowerS (L : List α) (s : Nat) : α := ((L.map (softThreshold 0)) ++ [0]).getD s 0

/-- `idx = np.sum(lower > w)` over the `h + 1` breakpoints -/
def hierIdx (L : List α) (al M normv : α) : Nat :=
  ((List.range (L.length + 1)).filter fun s => lt (wS L al M normv s) (lowerS L s)).length

/-- `x_star`, `w_star` (`np.take_along_axis(·, idx)`) -/
def xStar {k h : Nat} (v : Fin k → α) (u : Fin h → α) (al M : α) : α :=
  let L := uAbsSorted u
  let normv := norm2 v
  xS L al M normv (hierIdx L al M normv)

def wStar {k h : Nat} (v : Fin k → α) (u : Fin h → α) (al M : α) : α :=
  let L := uAbsSorted u
  let normv := norm2 v
  wS L al M normv (hierIdx L al M normv)

/-- `np.where(u >= 0, 1, -1)` -/
def signPM (x : α) : α := if le 0 x then 1 else -1

/-- one row of `mlp_prox_grad`: `(beta_star, theta_star)` -/
def hierProxRow {k h : Nat} (v : Fin k → α) (u : Fin h → α) (al M : α) : (Fin k → α) × (Fin h → α) :=
  let xs := xStar v u al M
  let ws := wStar v u al M
  (fun c => xs * v c, fun j => signPM (u j) * min (softThreshold 0 (abs (u j))) ws)

/-- `mlp_prox_grad(W_skip_, W1_, alpha, M)` -/
def mlpProx {d k h : Nat} (Ws : Fin d → Fin k → α) (W1 : Fin d → Fin h → α) (al M : α) :
    (Fin d → Fin k → α) × (Fin d → Fin h → α) :=
  (fun i => (hierProxRow (Ws i) (W1 i) al M).1, fun i => (hierProxRow (Ws i) (W1 i) al M).2)

/-! ### `linear_prox_grad` -/

/-- one row of `linear_prox_grad`:
    `np.maximum(W_norms - alpha, 0) * W / np.where(W_norms == 0, 1, W_norms)` -/
def linearProxRow {h : Nat} (w : Fin h → α) (al : α) : Fin h → α :=
  let nrm := norm2 w
  fun j => max (nrm - al) 0 * w j / (if beq nrm 0 then 1 else nrm)

/-- `linear_prox_grad(W, alpha)` -/
def linearProx {d h : Nat} (W : Fin d → Fin h → α) (al : α) : Fin d → Fin h → α :=
  fun i => linearProxRow (W i) al

/-! ### group wrappers -/

/-- position `(q, j)` of entry `p` of a row-major flattened `m × h` block -/
def unflat {m h : Nat} (p : Fin (m * h)) : Fin m × Fin h :=
  have hh : 0 < h := by
    rcases Nat.eq_zero_or_pos h with h0 | h0
    · exact absurd p.isLt (by simp [h0])
    · exact h0
  (⟨p.val / h, by
      have h1 : p.val < h * m := Nat.mul_comm m h ▸ p.isLt
      exact Nat.div_lt_of_lt_mul h1⟩,
   ⟨p.val % h, Nat.mod_lt _ hh⟩)

/-- entry `(q, j)` of an `m × h` block sits at `q * h + j` of the flattened row -/
def flatIdx {m h : Nat} (q : Fin m) (j : Fin h) : Fin (m * h) :=
  ⟨q.val * h + j.val, by
    calc q.val * h + j.val < q.val * h + h := Nat.add_lt_add_left j.isLt _
      _ = (q.val + 1) * h := by rw [Nat.add_mul, Nat.one_mul]
      _ ≤ m * h := Nat.mul_le_mul_right _ q.isLt⟩

/-- `W[g].reshape((1, -1))` -/
def flatGroup {d h : Nat} (W : Fin d → Fin h → α) (g : List (Fin d)) : Fin (g.length * h) → α :=
  fun p => W (g.get (unflat p).1) (unflat p).2

/-- the group whose assignment `W_star[g] = …` is the last to write row `i`, with a position of
    `i` inside it; `none` when no group contains `i` (the row of `np.empty` stays uninitialised) -/
def locate {d : Nat} (groups : List (List (Fin d))) (i : Fin d) :
    Option ((g : List (Fin d)) × Fin g.length) :=
  groups.foldl (fun acc g => match g.finIdxOf? i with
    | some q => some ⟨g, q⟩
    | none => acc) none

/-- `W_star[g] = group_W_star.reshape(group_W.shape)` for every `g`, read at row `i` -/
def scatter {d h : Nat} (groups : List (List (Fin d)))
    (res : (g : List (Fin d)) → Fin (g.length * h) → α) (i : Fin d) : Option (Fin h → α) :=
  match locate groups i with
  | none => none
  | some ⟨g, q⟩ => some fun j => res g (flatIdx q j)

/-- `group_linear_prox_grad(groups, W, alpha)`, row `i` -/
def groupLinearProx {d h : Nat} (groups : List (List (Fin d))) (W : Fin d → Fin h → α) (al : α) :
    Fin d → Option (Fin h → α) :=
  scatter groups fun g => linearProxRow (flatGroup W g) al

/-- `group_mlp_prox_grad(groups, W_skip, W1, alpha, M)`, row `i` of `W_skip_star` and of `W1_star` -/
def groupMlpProx {d k h : Nat} (groups : List (List (Fin d))) (Ws : Fin d → Fin k → α)
    (W1 : Fin d → Fin h → α) (al M : α) : (Fin d → Option (Fin k → α)) × (Fin d → Option (Fin h → α)) :=
  (scatter groups fun g => (hierProxRow (flatGroup Ws g) (flatGroup W1 g) al M).1,
   scatter groups fun g => (hierProxRow (flatGroup Ws g) (flatGroup W1 g) al M).2)

end GemVerif.Model.Prox
