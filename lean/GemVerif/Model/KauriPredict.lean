/-
  Executable model of `Tree.predict` of gemclus/tree/kauri.py AS THE NUMPY CODE IS WRITTEN: the recursion works on the
  whole array, splits its rows with two Boolean masks, recurses on the two sub-arrays and scatters the answers back:

      def predict(self, X, node=0):
          if node < 0 or node > self.n_nodes:
              raise ValueError(...)
          if self.children_left[node] == -1:
              return self.target[node] * np.ones(len(X), dtype=np.int64)
          else:
              if self.categorical_nodes[node]:                                   # never set by `fit`: not modelled
                  X_left = X[:, self.features[node]] == self.thresholds
              else:
                  X_left = X[:, self.features[node]] <= self.thresholds[node]
              X_right = ~X_left
              predictions = np.zeros(len(X), dtype=np.int64)
              predictions[X_left] = self.predict(X[X_left], self.children_left[node])
              predictions[X_right] = self.predict(X[X_right], self.children_right[node])
              return predictions

  (`Model.Kauri.Tree.route` is the per-row reading of the same function; `Lemmas/RowLocal.lean` proves the two agree on
  well-formed trees.)  Everything that makes the Python code raise is `none`: node outside `0..n_nodes`, an index past the
  end of a list, a threshold or a feature that is `None`, a mask assignment with the wrong number of values, recursion
  that does not end (`fuel` exhausted: Python's RecursionError on a cyclic tree).  One deviation, outside what `fit`
  can build: a NEGATIVE feature index is `none` here, numpy would count the column from the end (rows are total
  functions `Nat → α` in this model, they have no width).  No Mathlib.
-/
import GemVerif.Model.Kauri

namespace GemVerif.Model.Kauri
open GemVerif RealLike

variable {α : Type} [RealLike α]

/-- `X[mask]`: the rows whose mask entry is `True`, in their order -/
def selectRows {β : Type} : List β → List Bool → List β
  | x :: xs, m :: ms => if m then x :: selectRows xs ms else selectRows xs ms
  | _, _ => []

/-- `predictions[mask] = vals`: the `True` positions of `mask` receive the entries of `vals` in order; numpy raises when
    the mask has another length than `predictions` or when the number of values differs from the number of `True`s
    (a length-1 `vals` would be broadcast by numpy: never produced here, the recursion returns one value per row) -/
def maskAssign : List Int → List Bool → List Int → Option (List Int)
  | [], [], [] => some []
  | p :: ps, m :: ms, vals =>
    if m then
      match vals with
      | v :: vs => (maskAssign ps ms vs).map (v :: ·)
      | [] => none
    else (maskAssign ps ms vals).map (p :: ·)
  | _, _, _ => none

/-- `Tree.predict(X, node)` on the whole array `X` (a list of rows) -/
def Tree.predictMask (t : Tree α) : Nat → Int → List (Nat → α) → Option (List Int)
  | 0, _, _ => none
  | fuel + 1, node, X =>
    if node < 0 || node > (t.nNodes : Int) then none            -- ValueError
    else
      let k := node.toNat
      match t.left[k]? with
      | none => none                                              -- IndexError
      | some l =>
        if l == -1 then
          -- self.target[node] * np.ones(len(X), dtype=np.int64)
          (t.target[k]?).map fun c => List.replicate X.length c
        else
          match t.feat[k]?, t.thr[k]?, t.right[k]? with
          | some (some f), some (some th), some r =>
            if f < 0 then none else
            -- X_left = X[:, self.features[node]] <= self.thresholds[node] ; X_right = ~X_left
            let xLeft := X.map fun x => le (x f.toNat) th
            let xRight := xLeft.map not
            match t.predictMask fuel l (selectRows X xLeft), t.predictMask fuel r (selectRows X xRight) with
            | some pl, some pr =>
              -- predictions = np.zeros(len(X)); predictions[X_left] = …; predictions[X_right] = …
              (maskAssign (List.replicate X.length 0) xLeft pl).bind fun p => maskAssign p xRight pr
            | _, _ => none
          | _, _, _ => none

/-- the per-row reading: every row routed on its own (`fuel` = recursion budget of `Tree.route`) -/
def Tree.routeAll (t : Tree α) (fuel : Nat) {n : Nat} (X : Fin n → Nat → α) : Fin n → Int :=
  fun i => t.route (X i) fuel 0

end GemVerif.Model.Kauri
