/-
  The two optimisers `DiscriminativeModel.fit` constructs (`gemclus/_base_gemini.py`):
      if self.solver == "sgd": self.optimiser_ = SGDOptimizer(weights, self.learning_rate)
      else:                    self.optimiser_ = AdamOptimizer(weights, self.learning_rate)
  and calls through `_update_weights` → `self.optimiser_.update_params(weights, grads)`.
  The classes are scikit-learn's (`sklearn/neural_network/_stochastic_optimizers.py`); they act coordinate by coordinate, so
  the model is written for ONE coordinate, line by line after `_get_updates` / `update_params`.  The harness ties it to
  the real objects on lists of arrays of several shapes (every coordinate against this scalar model).
  No Mathlib import: the driver executes this on `Float`.
-/
import GemVerif.Num

namespace GemVerif.Model.Optim
open GemVerif

variable {α : Type} [RealLike α]

/-- `SGDOptimizer(params, learning_rate_init, lr_schedule="constant", momentum, nesterov)`; GemClus passes only the first two,
    so `momentum = 0.9`, `nesterov = True` at run time; the model keeps them as parameters. -/
structure SgdCfg (α : Type) where
  lr : α
  momentum : α
  nesterov : Bool

/-- `SGDOptimizer._get_updates` on one coordinate: `(new velocity, update)` -/
def sgdStep (c : SgdCfg α) (v g : α) : α × α :=
  let v' := c.momentum * v - c.lr * g
  let u := if c.nesterov then c.momentum * v' - c.lr * g else v'
  (v', u)

/-- `update_params` repeated over a history of gradients: state `(weight, velocity)` -/
def sgdRun (c : SgdCfg α) : List α → α × α → α × α
  | [], s => s
  | g :: gs, (w, v) => sgdRun c gs (w + (sgdStep c v g).2, (sgdStep c v g).1)

/-- `AdamOptimizer(params, learning_rate_init, beta_1, beta_2, epsilon)` -/
structure AdamCfg (α : Type) where
  lr0 : α
  beta1 : α
  beta2 : α
  eps : α

/-- `beta ** t` for an integer step counter -/
def powNat (b : α) : Nat → α
  | 0 => 1
  | t + 1 => b * powNat b t

/-- the value `AdamOptimizer._get_updates` writes to `self.learning_rate` at step `t` (the attribute the sparse models read
    for their proximal threshold): `lr0 * sqrt(1 - beta_2**t) / (1 - beta_1**t)` -/
def adamLr (c : AdamCfg α) (t : Nat) : α :=
  c.lr0 * RealLike.sqrt (1 - powNat c.beta2 t) / (1 - powNat c.beta1 t)

/-- per-coordinate Adam state: step counter and the two moments -/
structure AdamSt (α : Type) where
  t : Nat
  m : α
  v : α

def adamInit : AdamSt α := { t := 0, m := 0, v := 0 }

/-- `AdamOptimizer._get_updates` on one coordinate: `(new state, update)` -/
def adamStep (c : AdamCfg α) (s : AdamSt α) (g : α) : AdamSt α × α :=
  let t' := s.t + 1
  let m' := c.beta1 * s.m + (1 - c.beta1) * g
  let v' := c.beta2 * s.v + (1 - c.beta2) * (g * g)
  let lr := adamLr c t'
  ({ t := t', m := m', v := v' }, (-lr) * m' / (RealLike.sqrt v' + c.eps))

def adamRun (c : AdamCfg α) : List α → α × AdamSt α → α × AdamSt α
  | [], s => s
  | g :: gs, (w, s) => adamRun c gs (w + (adamStep c s g).2, (adamStep c s g).1)

end GemVerif.Model.Optim
