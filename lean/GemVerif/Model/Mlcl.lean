/-
  Executable model of `gemclus/mlcl.py`, written after the source line by line.  No Mathlib.

  * `_check_structural_constraint`, `_check_linking_constraint`  ↦  `structural`, `checkLinking`
    (the acceptor of `add_mlcl_constraint`).  Two external calls are modelled, not translated:
      - `list(set(...))`: returns SOME duplicate-free enumeration of its elements; the order CPython
        chooses is an input of the model (`uniq`); `dedup` is the first-occurrence representative;
      - `scipy.sparse.csgraph.breadth_first_order(M, s, directed=False)`: returns the nodes reachable
        from `s`; `bfsReach` computes that set (in increasing order; the code never depends on the
        order because it tests both orientations of every pair) — `Lemmas/Mlcl.lean` proves that it is
        the connected component, the harness compares it with scipy on every recorded call.
    The one place where the source as it stands (`fixed = false`) and the intended acceptor
    (`fixed = true`) differ is `nodeKey`: what a BFS node (a position in `unique_indices`) is
    compared with the entries of a cannot-link pair — the position itself, or the sample index at
    that position.
  * `decorate_grads.intercept_grads`  ↦  `inject`.
-/
import GemVerif.Num

namespace GemVerif.Model.Mlcl
open GemVerif

/-- one constraint `(i, j)`: two sample indices -/
abbrev Pair := Int × Int

/-! ### `_check_structural_constraint` -/

/-- `[p[0] for p in must_link] + [p[1] for p in must_link]` -/
def endpoints (ML : List Pair) : List Int := ML.map (·.1) ++ ML.map (·.2)

/-- a canonical value of `list(set(l))`: first occurrences, in order -/
def dedup : List Int → List Int
  | [] => []
  | x :: xs => x :: (dedup xs).filter (fun y => y != x)

/-- `connection_matrix` after
    `for pair in must_link: i, j = unique_indices.index(pair[0]), unique_indices.index(pair[1]);
     connection_matrix[i, j] = connection_matrix[j, i] = 1` -/
def connMatrix (uniq : List Int) (ML : List Pair) : Nat → Nat → Bool :=
  let edges := ML.map fun p => (uniq.idxOf p.1, uniq.idxOf p.2)
  fun i j => edges.any fun e => (e.1 == i && e.2 == j) || (e.2 == i && e.1 == j)

/-- non-zero entries of an `n × n` matrix, row-major -/
def edgesOf (n : Nat) (M : Nat → Nat → Bool) : List (Nat × Nat) :=
  (List.range n).flatMap fun i => ((List.range n).filter fun j => M i j).map fun j => (i, j)

/-- a component label for every node.  (A structure, not a bare function: a definition returning a
    bare closure is eta-expanded by the compiler, which would re-evaluate `a`, `b` below at every
    call and make label look-ups exponential in the number of edges.) -/
structure Labels where
  get : Nat → Nat

/-- merge the component of `e.1` into the component of `e.2` -/
def mergeStep (lab : Labels) (e : Nat × Nat) : Labels :=
  let a := lab.get e.1
  let b := lab.get e.2
  ⟨fun v => let l := lab.get v; if l == a then b else l⟩

/-- a component label for every node of the undirected graph with adjacency matrix `M` -/
def compLabels (n : Nat) (M : Nat → Nat → Bool) : Labels :=
  (edgesOf n M).foldl mergeStep ⟨id⟩

/-- `csgraph.breadth_first_order(M, s, directed=False, return_predecessors=False)` as a set:
    the nodes `< n` connected to `s`, listed in increasing order -/
def bfsReach (n : Nat) (M : Nat → Nat → Bool) (s : Nat) : List Nat :=
  let lab := compLabels n M
  let ls := lab.get s
  (List.range n).filter fun v => lab.get v == ls

/-- `itertools.combinations(l, r=2)` -/
def pairs {β : Type} : List β → List (β × β)
  | [] => []
  | x :: xs => xs.map (fun y => (x, y)) ++ pairs xs

/-- what the BFS node `i` is compared with.  Source as it stands: the node number itself
    (`i == pair_i`); intended: the sample index `unique_indices[i]`. -/
def nodeKey (fixed : Bool) (uniq : List Int) (i : Nat) : Int :=
  if fixed then uniq.getD i 0 else (i : Int)

/-- `(i == pair_i and j == pair_j) or (i == pair_j and j == pair_i)` -/
def clash (key : Nat → Int) (i j : Nat) (p : Pair) : Bool :=
  (key i == p.1 && key j == p.2) || (key i == p.2 && key j == p.1)

/-- the `while len(samples_to_explore) != 0` loop; `false` = the `ValueError` was raised.
    One iteration removes at least `samples_to_explore[0]`, so `fuel = n` iterations suffice
    (`Lemmas/Mlcl.lean`: the verdict is exact, hence the fuel never runs out). -/
def exploreLoop (key : Nat → Int) (n : Nat) (M : Nat → Nat → Bool) (CL : List Pair) :
    Nat → List Nat → Bool
  | 0, _ => true
  | _ + 1, [] => true
  | fuel + 1, s :: rest =>
    let reachable := bfsReach n M s
    let toExplore := reachable.foldl (fun l node => l.erase node) (s :: rest)
    if (pairs reachable).any (fun ij => CL.any fun p => clash key ij.1 ij.2 p) then false
    else exploreLoop key n M CL fuel toExplore

/-- `_check_structural_constraint(must_link, cannot_link)`; `true` = returns, `false` = raises
    "Triangular contradiction".  `uniq` is the value of `list(set(unique_indices))`. -/
def structural (fixed : Bool) (uniq : List Int) (ML CL : List Pair) : Bool :=
  let n := uniq.length
  let M := connMatrix uniq ML
  exploreLoop (nodeKey fixed uniq) n M CL n (List.range n)

/-! ### `_check_linking_constraint` (on inputs that pass `check_array`: lists of integer pairs) -/

inductive Verdict
  | ok
  /-- "An element is necessary in the same cluster as itself, check constraints in must-link" -/
  | selfMust
  /-- "An element cannot be in a different cluster than itself, check constraints in cannot-link" -/
  | selfCannot
  /-- "Triangular contradiction in Must-link / Cannot-link constraints" -/
  | contradiction
  deriving DecidableEq, Repr

def Verdict.token : Verdict → String
  | .ok => "ok"
  | .selfMust => "self-must"
  | .selfCannot => "self-cannot"
  | .contradiction => "contradiction"

/-- `_check_linking_constraint(must_link, cannot_link)`; an empty list is `None` -/
def checkLinking (fixed : Bool) (uniq : List Int) (ML CL : List Pair) : Verdict :=
  if ML.any (fun p => p.1 == p.2) then .selfMust
  else if CL.any (fun p => p.1 == p.2) then .selfCannot
  else if ML.length > 0 && CL.length > 0 then
    if structural fixed uniq ML CL then .ok else .contradiction
  else .ok

/-- acceptor for a given enumeration `uniq` of the must-link end points -/
def acceptsWith (fixed : Bool) (uniq : List Int) (ML CL : List Pair) : Bool :=
  checkLinking fixed uniq ML CL == .ok

/-- the source as it stands: BFS positions compared with sample indices -/
def acceptsCurrent (ML CL : List Pair) : Bool := acceptsWith false (dedup (endpoints ML)) ML CL

/-- the intended acceptor: sample indices compared with sample indices -/
def acceptsFixed (ML CL : List Pair) : Bool := acceptsWith true (dedup (endpoints ML)) ML CL

/-! ### `decorate_grads` / `intercept_grads` -/

section Inject
variable {α : Type} [RealLike α] {K : Nat}

/-- rows of `y_pred` / `gradient`, addressed by their position in the batch -/
abbrev Rows (α : Type) (K : Nat) := Nat → Fin K → α

/-- `gradient[r] += d` (`sub = false`) / `gradient[r] -= d` (`sub = true`) -/
def bumpRow (sub : Bool) (g : Rows α K) (r : Nat) (d : Fin K → α) : Rows α K :=
  fun r' k => if r' == r then (if sub then g r' k - d k else g r' k + d k) else g r' k

/-- body of `for (i, j) in cannot_link:` (`sub = false`) / `in must_link:` (`sub = true`) -/
def injectPair (sub : Bool) (last : List Int) (factor : α) (y : Rows α K) (g : Rows α K)
    (p : Pair) : Rows α K :=
  if last.contains p.1 && last.contains p.2 then
    let idx0 := last.idxOf p.1
    let idx1 := last.idxOf p.2
    let g1 := bumpRow sub g idx0 (fun k => factor * (y idx0 k - y idx1 k))
    bumpRow sub g1 idx1 (fun k => factor * (y idx1 k - y idx0 k))
  else g

/-- `intercept_grads`: the gradient handed to the wrapped `_compute_grads`.
    `last = gemini_model._batchify.indices`. -/
def inject (last : List Int) (CL ML : List Pair) (factor : α) (y g : Rows α K) : Rows α K :=
  let g1 := CL.foldl (injectPair false last factor y) g
  ML.foldl (injectPair true last factor y) g1

end Inject

end GemVerif.Model.Mlcl
