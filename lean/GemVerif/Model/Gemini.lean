/-
  Executable model of `gemclus/gemini/_fdivergences.py` and `gemclus/gemini/_geomdistances.py`
  (`evaluate` of the six GEMINI classes: score and gradient), written line by line after the
  numpy source, generic in the number type.  `P : Fin n → Fin K → α` is `y_pred`,
  `κ : Fin n → Fin n → α` the affinity.  No Mathlib.
-/
import GemVerif.Num

namespace GemVerif.Model
open GemVerif RealLike

variable {α : Type} [RealLike α]

instance (priority := low) instInhabitedOfRealLike : Inhabited α := ⟨0⟩

/-- `np.clip(y_pred, eps, 1 - eps)` -/
def clipP {n K : Nat} (ε : α) (P : Fin n → Fin K → α) : Fin n → Fin K → α :=
  fun i k => clip (P i k) ε (1 - ε)

/-- `(y_pred > eps) & (y_pred < 1 - eps)` as 0/1 -/
def clipMask {n K : Nat} (ε : α) (P : Fin n → Fin K → α) : Fin n → Fin K → α :=
  fun i k => ofBool (lt ε (P i k) && lt (P i k) (1 - ε))

/-- `x.mean(0)` of an `n × K` array -/
def mean0 {n K : Nat} (p : Fin n → Fin K → α) : Fin K → α :=
  fun k => sumFin (fun i => p i k) / nat n

/-- `np.mean` of a vector of length `n` -/
def meanV {n : Nat} (v : Fin n → α) : α := sumFin v / nat n

/-! ### KL -/

def klScore {n K : Nat} (ε : α) (ovo : Bool) (P : Fin n → Fin K → α) : α :=
  let p := clipP ε P
  let py := tab (mean0 p)
  let clusterEntropy := sumFin fun k => py k * log (py k)
  let predictionEntropy := sumFin fun k => meanV fun i => p i k * log (p i k)
  if ovo then
    predictionEntropy - sumFin fun k => py k * meanV fun i => log (p i k)
  else
    predictionEntropy - clusterEntropy

def klGrad {n K : Nat} (ε : α) (ovo : Bool) (P : Fin n → Fin K → α) : Fin n → Fin K → α :=
  let p := clipP ε P
  let py := tab (mean0 p)
  let mlog := tab fun k => meanV fun i => log (p i k)
  fun i k =>
    (if ovo then
      (log (p i k) + 1) / nat n - (py k / p i k + mlog k) / nat n
    else
      log (p i k) / nat n - log (py k) / nat n) * clipMask ε P i k

/-! ### Total variation -/

def tvScore {n K : Nat} (ε : α) (ovo : Bool) (P : Fin n → Fin K → α) : α :=
  let p := clipP ε P
  let py := tab (mean0 p)
  if ovo then
    half * sumFin fun a => sumFin fun b => meanV fun i => abs (py a * p i b - py b * p i a)
  else
    half * sumFin fun k => meanV fun i => abs (p i k - py k)

def tvGrad {n K : Nat} (ε : α) (ovo : Bool) (P : Fin n → Fin K → α) : Fin n → Fin K → α :=
  let p := clipP ε P
  let py := tab (mean0 p)
  if ovo then
    -- difference[i,a,b] = p_y[a] p[i,b] - p_y[b] p[i,a]
    let base : Fin n → Fin K → Fin K → α := fun i a b => sign (py a * p i b - py b * p i a) / nat n
    let cpg : Fin n → Fin K → Fin K → α := fun i a b => base i a b - base i b a
    let xg : Fin n → Fin K → α := fun i b => sumFin fun a => py a * cpg i a b
    let yg : Fin n → Fin K → α := tab2 fun i a => sumFin fun b => cpg i a b * p i b
    let ygm := tab fun k => meanV fun i => yg i k
    fun i k => half * (xg i k + ygm k) * clipMask ε P i k
  else
    let sg : Fin n → Fin K → α := fun i k => sign (p i k - py k)
    let sgm := tab fun k => meanV fun i => sg i k
    fun i k => half * ((sg i k - sgm k) / nat n) * clipMask ε P i k

/-! ### Squared Hellinger -/

def hellingerScore {n K : Nat} (ε : α) (ovo : Bool) (P : Fin n → Fin K → α) : α :=
  let p := clipP ε P
  let py := tab (mean0 p)
  let est : Fin n → α := fun i => sumFin fun k => sqrt (p i k * py k)
  if ovo then 1 - meanV fun i => sq (est i) else 1 - meanV est

def hellingerGrad {n K : Nat} (ε : α) (ovo : Bool) (P : Fin n → Fin K → α) : Fin n → Fin K → α :=
  let p := clipP ε P
  let py := tab (mean0 p)
  let cw : Fin n → Fin K → α := tab2 fun i k => sqrt (p i k * py k)
  let est : Fin n → α := tab fun i => sumFin fun k => cw i k
  if ovo then
    let se : Fin n → α := tab fun i => sqrt (sq (est i))
    let m := tab fun k => meanV fun i => p i k / cw i k * se i
    fun i k => (-(py k / cw i k * se i + m k)) / nat n * clipMask ε P i k
  else
    let m := tab fun k => meanV fun i => p i k / cw i k
    fun i k => (-half * (py k / cw i k + m k)) / nat n * clipMask ε P i k

/-! ### Pearson chi-square -/

def chi2Score {n K : Nat} (ε : α) (ovo : Bool) (P : Fin n → Fin K → α) : α :=
  let p := clipP ε P
  let py := tab (mean0 p)
  let cw : Fin n → Fin K → α := fun i k => p i k / py k
  if ovo then
    half * meanV fun i => (sumFin fun k => p i k * cw i k) * (sumFin fun k => py k / cw i k)
  else
    half * meanV fun i => sumFin fun k => p i k * cw i k

def chi2Grad {n K : Nat} (ε : α) (ovo : Bool) (P : Fin n → Fin K → α) : Fin n → Fin K → α :=
  let p := clipP ε P
  let py := tab (mean0 p)
  let cw : Fin n → Fin K → α := tab2 fun i k => p i k / py k
  if ovo then
    let al : Fin n → α := tab fun i => sumFin fun k => p i k * cw i k
    let be : Fin n → α := tab fun i => sumFin fun k => py k / cw i k
    let m := tab fun k => meanV fun i => nat 2 * (al i / cw i k) - be i * cw i k * cw i k
    fun i k => half * ((nat 2 * (be i * cw i k) - al i / cw i k / cw i k + m k) / nat n) * clipMask ε P i k
  else
    let m := tab fun k => meanV fun i => sq (cw i k)
    fun i k => half * ((nat 2 * cw i k - m k) / nat n) * clipMask ε P i k

/-! ### MMD -/

/-- `alpha = y_pred / pi` and `gamma = (affinity / N**2) @ alpha` -/
def mmdAlpha {n K : Nat} (ε : α) (P : Fin n → Fin K → α) : Fin n → Fin K → α :=
  let y := clipP ε P
  let pi := tab (mean0 y)
  fun i k => y i k / pi k

def mmdGamma {n K : Nat} (ε : α) (P : Fin n → Fin K → α) (κ : Fin n → Fin n → α) : Fin n → Fin K → α :=
  let al := tab2 (mmdAlpha ε P)
  fun i k => sumFin fun j => κ i j / (nat n * nat n) * al j k

/-- OvO pairwise distances `delta[a,b]` -/
def mmdDeltaOvo {n K : Nat} (ε : α) (P : Fin n → Fin K → α) (κ : Fin n → Fin n → α) : Fin K → Fin K → α :=
  let al := tab2 (mmdAlpha ε P)
  let ga := tab2 (mmdGamma ε P κ)
  let om : Fin K → Fin K → α := tab2 fun a b => sumFin fun i => al i a * ga i b
  fun a b => sqrt (max (-(nat 2) * om a b + om b b + om a a) 0)

/-- OvA distances `delta[k]` -/
def mmdDeltaOva {n K : Nat} (ε : α) (P : Fin n → Fin K → α) (κ : Fin n → Fin n → α) : Fin K → α :=
  let al := tab2 (mmdAlpha ε P)
  let ga := tab2 (mmdGamma ε P κ)
  let c : α := sumFin fun i => sumFin fun j => κ i j / (nat n * nat n)
  fun k =>
    let a := sumFin fun i => al i k * ga i k
    let b := sumFin fun i => ga i k
    sqrt (max (a + c - nat 2 * b) 0)

def mmdScore {n K : Nat} (ε : α) (ovo : Bool) (P : Fin n → Fin K → α) (κ : Fin n → Fin n → α) : α :=
  let y := clipP ε P
  let pi := tab (mean0 y)
  if ovo then
    let de := tab2 (mmdDeltaOvo ε P κ)
    sumFin fun b => (sumFin fun a => pi a * de a b) * pi b
  else
    let de := tab (mmdDeltaOva ε P κ)
    sumFin fun k => pi k * de k

def mmdGrad {n K : Nat} (ε : α) (ovo : Bool) (P : Fin n → Fin K → α) (κ : Fin n → Fin n → α) :
    Fin n → Fin K → α :=
  let y := clipP ε P
  let pi := tab (mean0 y)
  let al := tab2 (mmdAlpha ε P)
  let ga := tab2 (mmdGamma ε P κ)
  if ovo then
    let om : Fin K → Fin K → α := tab2 fun a b => sumFin fun i => al i a * ga i b
    let de := tab2 (mmdDeltaOvo ε P κ)
    let lam : Fin K → Fin K → α := tab2 fun a b =>
      if a = b then 0 else if beq (de a b) 0 then 0 else pi a * pi b / (de a b + 0)
    let ls := tab fun b => sumFin fun a => lam a b
    let gl : Fin n → Fin K → α := tab2 fun i k => sumFin fun a => ga i a * lam a k
    let m := tab fun k => meanV fun i => al i k * gl i k
    let pd := tab fun k => sumFin fun a => pi a * de a k
    fun i k =>
      ((ga i k * ls k - gl i k - om k k * ls k / nat n + m k) / pi k + pd k / nat n) * nat 2
        * clipMask ε P i k
  else
    let de := tab (mmdDeltaOva ε P κ)
    let mm : Fin n → Fin K → α := tab2 fun i k => sumFin fun j => κ i j / (nat n * nat n) * (al j k - 1)
    let mmean := tab fun k => meanV fun i => mm i k
    fun i k =>
      (if beq (de k) 0 then 0 else (mm i k - mmean k) / (de k + 0)) * clipMask ε P i k

/-! ### Wasserstein (POT's `emd2` is a parameter: value and dual potentials) -/

/-- The weight vectors handed to `ot.emd2`: `wy[k][i] = y_pred[i,k] / (pi[k] * N)` -/
def wassWeights {n K : Nat} (ε : α) (P : Fin n → Fin K → α) : Fin K → Fin n → α :=
  let y := clipP ε P
  let pi := tab (mean0 y)
  fun k i => y i k / (pi k * nat n)

structure Emd (α : Type) (n : Nat) where
  value : α
  u : Fin n → α
  v : Fin n → α

/-- Table form: `pairE a b` is the result of `ot.emd2(wy[a], wy[b], affinity, log=True)` (used for
    `a < b` only) and `unifE k` the result of `ot.emd2(wy[k], 1/N, affinity, log=True)`. -/
def wassScoreT {n K : Nat} (pairE : Fin K → Fin K → Emd α n) (unifE : Fin K → Emd α n) (ε : α)
    (ovo : Bool) (P : Fin n → Fin K → α) : α :=
  let y := clipP ε P
  let pi := tab (mean0 y)
  if ovo then
    -- wasserstein_distances[k1,k2] filled for k1 < k2 and mirrored; diagonal 0
    let w : Fin K → Fin K → α := fun a b =>
      if a.val < b.val then (pairE a b).value
      else if b.val < a.val then (pairE b a).value else 0
    sumFin fun a => pi a * sumFin fun b => w a b * pi b
  else
    sumFin fun k => pi k * (unifE k).value

def wassGradT {n K : Nat} (pairE : Fin K → Fin K → Emd α n) (unifE : Fin K → Emd α n) (ε : α)
    (ovo : Bool) (P : Fin n → Fin K → α) : Fin n → Fin K → α :=
  let y := clipP ε P
  let pi := tab (mean0 y)
  if ovo then
    let w : Fin K → Fin K → α := fun a b =>
      if a.val < b.val then (pairE a b).value
      else if b.val < a.val then (pairE b a).value else 0
    -- centred potential that column k receives from the pair {k, o}
    let pot : Fin K → Fin K → Fin n → α := fun k o =>
      if k.val < o.val then
        let u := (pairE k o).u
        let ub := meanV u
        fun i => u i - ub
      else
        let v := (pairE o k).v
        let vb := meanV v
        fun i => v i - vb
    fun i k =>
      ((sumFin fun o => if o = k then 0 else
          nat 2 * pi o * (pot k o i / nat n
            - sumFin fun j => pot k o j * y j k / (nat n * nat n * pi k)))
        + nat 2 * (sumFin fun b => w k b * pi b) / nat n) * clipMask ε P i k
  else
    fun i k =>
      let u := (unifE k).u
      let ub := meanV u
      ((u i - ub) / nat n + (unifE k).value / nat n
        - (sumFin fun j => y j k * (u j - ub)) / (nat n * nat n * pi k)) * clipMask ε P i k

/-- Function form: `emd2 a b` stands for `ot.emd2(a, b, affinity, log=True)`. -/
def wassScore {n K : Nat} (emd2 : (Fin n → α) → (Fin n → α) → Emd α n) (ε : α) (ovo : Bool)
    (P : Fin n → Fin K → α) : α :=
  let wy := wassWeights ε P
  wassScoreT (fun a b => emd2 (wy a) (wy b)) (fun k => emd2 (wy k) (fun _ => 1 / nat n)) ε ovo P

def wassGrad {n K : Nat} (emd2 : (Fin n → α) → (Fin n → α) → Emd α n) (ε : α) (ovo : Bool)
    (P : Fin n → Fin K → α) : Fin n → Fin K → α :=
  let wy := wassWeights ε P
  wassGradT (fun a b => emd2 (wy a) (wy b)) (fun k => emd2 (wy k) (fun _ => 1 / nat n)) ε ovo P

end GemVerif.Model
