/-
  Executable model of the regularisation path (C07): `gemclus/sparse/_base_sparse.py::_path` and the `path` methods of
  `SparseLinearModel` / `SparseMLPModel` (restore blocks: `Model/Sparse.lean`).  No Mathlib.

  `_path` is modelled as a fold over an abstract TRACE.  The numerical training (fits, batches, gradients, proximal
  steps, the GEMINI itself) is OUTSIDE the model: what the model consumes is what `_path` itself observes of it —
    * after the initial fit: the validation score, the number of selected features, the weights (an abstract token `ω`);
    * for every outer step: the validation score and group-lasso penalty at the start of the step, then, for every epoch
      of the inner loop, the triple (score, group-lasso penalty, isnan(score)) returned by `compute_val_score` after the
      epoch's updates, and finally (number of selected features, penalty, weights) of the estimator after the step.
  Everything `_path` DECIDES is in the model: argument defaults and warnings, `set_params(alpha=0)`, the outer
  `while n_selected > min_features`, the inner `while i < max_iter and patience < max_patience` with the early-stopping
  and NaN rules, the NaN `break`, the four appends, `alpha *= alpha_multiplier`, the best-score and best-weights rules,
  and the restoration rule of `path`.  The trace is a finite list: if the loops want more than the trace holds the
  model says so (`needMoreSteps` / `needMoreEpochs`) instead of inventing observations.
-/
import GemVerif.Num

namespace GemVerif.Model.Path
open GemVerif RealLike

variable {α : Type} [RealLike α]

/-! ### arguments, defaults, warnings -/

/-- arguments of `path` / `_path` as the caller passed them -/
structure PathArgs (α : Type) where
  alphaMultiplier : α
  minFeatures : Int
  keepThreshold : α
  earlyStoppingFactor : α
  maxPatience : Int

/-- which `warnings.warn` of the argument block fired -/
structure Warnings where
  multiplier : Bool
  keepThreshold : Bool
  minFeatures : Bool
  /-- "min_features … greater or equal to the number of features" (warning only, value kept) -/
  minFeaturesGe : Bool
  deriving DecidableEq, Repr

/-- `1.05` (correctly rounded quotient of two exactly representable numbers = the literal) -/
def defaultMultiplier : α := nat 105 / nat 100
/-- `0.9` -/
def defaultKeep : α := nat 9 / nat 10
/-- `2` -/
def defaultMinFeatures : Int := 2

/-- the argument block at the top of `_path`; `d = X.shape[1]` -/
def normalise (a : PathArgs α) (d : Nat) : PathArgs α × Warnings :=
  -- if alpha_multiplier <= 1: warn; alpha_multiplier = 1.05
  let w1 := le a.alphaMultiplier 1
  let m := if w1 then defaultMultiplier else a.alphaMultiplier
  -- if keep_threshold < 0 or keep_threshold > 1: warn; keep_threshold = 0.9
  let w2 := lt a.keepThreshold 0 || lt 1 a.keepThreshold
  let k := if w2 then defaultKeep else a.keepThreshold
  -- if min_features <= 0: warn; min_features = 2   elif min_features >= X.shape[1]: warn
  let w3 := decide (a.minFeatures ≤ 0)
  let mf := if w3 then defaultMinFeatures else a.minFeatures
  let w4 := !w3 && decide (a.minFeatures ≥ (d : Int))
  ({ a with alphaMultiplier := m, keepThreshold := k, minFeatures := mf }, ⟨w1, w2, w3, w4⟩)

/-! ### the observed trace -/

/-- one epoch of the inner loop as `compute_val_score` reports it afterwards:
    `iteration_gemini_score`, `clf._group_lasso_penalty()` (so that `iteration_l1 = penalty * clf.alpha`), `np.isnan(score)` -/
structure Epoch (α : Type) where
  score : α
  penalty : α
  isNaN : Bool

/-- one outer step -/
structure StepObs (α ω : Type) where
  /-- `compute_val_score` at the beginning of the step: score and group-lasso penalty -/
  valScore : α
  valPenalty : α
  /-- the epochs that were observed (the model consumes as many as ITS loop runs) -/
  epochs : List (Epoch α)
  /-- `_n_selected_features()`, `_group_lasso_penalty()`, weights of the estimator after the step's last epoch -/
  nSel : Nat
  penalty : α
  weights : ω

structure Trace (α ω : Type) where
  /-- `compute_val_score` right after the initial fit with `alpha = 0` -/
  initScore : α
  initNSel : Nat
  initWeights : ω
  steps : List (StepObs α ω)

/-! ### configuration, state, result -/

/-- what `_path` reads from the estimator and its (normalised) arguments -/
structure Cfg (α : Type) where
  /-- `clf.max_iter` -/
  maxIter : Nat
  /-- `X.shape[1]` -/
  d : Nat
  mult : α
  minFeatures : Int
  keep : α
  esf : α
  maxPatience : Int

inductive Exit where
  /-- the outer `while` test failed -/
  | normal
  /-- `if np.isnan(iteration_gemini_score): break` -/
  | nanAbort
  /-- the outer loop wants another step but the trace has none: no termination within the trace -/
  | needMoreSteps
  /-- the inner loop wants another epoch but the step's trace has none -/
  | needMoreEpochs
  /-- `iteration_gemini_score` read before assignment (`max_patience <= 0`): UnboundLocalError -/
  | unboundScore
  deriving DecidableEq, Repr

/-- local variables of `_path` while the outer loop runs (+ two ghost histories used only to state theorems) -/
structure PState (α ω : Type) where
  /-- local `alpha` -/
  alpha : α
  /-- the attribute `clf.alpha` -/
  clfAlpha : α
  /-- `best_gemini_score` -/
  best : α
  /-- `best_weights` -/
  bestW : ω
  /-- weights currently held by the estimator -/
  curW : ω
  alphas : List α
  nFeatures : List Nat
  geminis : List α
  penalties : List α
  /-- Python scoping: `iteration_gemini_score` keeps its value from the previous outer step -/
  last : Option (Epoch α)
  /-- ghost: weights after each completed step; final value of `i` in each started step -/
  weightsHist : List ω
  epochsRun : List Nat

structure PathResult (α ω : Type) where
  exit : Exit
  /-- the return tuple `best_weights, geminis, group_lasso_penalties, alphas, n_features` -/
  bestWeights : ω
  geminis : List α
  penalties : List α
  alphas : List α
  nFeatures : List Nat
  /-- `clf.alpha` and the estimator's weights when `_path` returns -/
  clfAlpha : α
  curW : ω
  /-- `best_gemini_score` at the end -/
  best : α
  weightsHist : List ω
  epochsRun : List Nat

def finish {ω : Type} (st : PState α ω) (e : Exit) : PathResult α ω :=
  { exit := e, bestWeights := st.bestW, geminis := st.geminis, penalties := st.penalties, alphas := st.alphas,
    nFeatures := st.nFeatures, clfAlpha := st.clfAlpha, curW := st.curW, best := st.best,
    weightsHist := st.weightsHist, epochsRun := st.epochsRun }

/-! ### inner loop -/

inductive Inner (α : Type) where
  /-- loop left with counter `i`; `last` = the value of `iteration_gemini_score` & co. (None if never assigned) -/
  | done (i : Nat) (last : Option (Epoch α))
  | exhausted

/-- ```
    while i < clf.max_iter and patience < max_patience:
        <one epoch of updates>
        iteration_gemini_score, iteration_l1 = compute_val_score(...)
        if iteration_gemini_score > (2 - early_stopping_factor) * validation_gemini_score \
                or iteration_l1 < early_stopping_factor * validation_l1:
            validation_l1 = iteration_l1; validation_gemini_score = iteration_gemini_score; patience = 0
        else:
            patience += 1
        if np.isnan(iteration_gemini_score):
            patience = max_patience
        i += 1
    ``` -/
def innerLoop (maxIter : Nat) (maxPat : Int) (esf alpha : α) :
    Nat → Int → α → α → Option (Epoch α) → List (Epoch α) → Inner α
  | i, pat, _, _, last, [] => if i < maxIter ∧ pat < maxPat then .exhausted else .done i last
  | i, pat, vs, vl, last, e :: rest =>
    if i < maxIter ∧ pat < maxPat then
      let l1 := e.penalty * alpha
      let improved := lt ((nat 2 - esf) * vs) e.score || lt l1 (esf * vl)
      let vs' := if improved then e.score else vs
      let vl' := if improved then l1 else vl
      let pat' := if improved then 0 else pat + 1
      let pat'' := if e.isNaN then maxPat else pat'
      innerLoop maxIter maxPat esf alpha (i + 1) pat'' vs' vl' (some e) rest
    else .done i last

/-! ### outer loop -/

/-- `if iteration_gemini_score >= best_gemini_score and clf._n_selected_features() == X.shape[1]` -/
def newBest (d : Nat) (best score : α) (nSel : Nat) : α :=
  if le best score && nSel == d then score else best

/-- `if iteration_gemini_score >= keep_threshold * best_gemini_score` (with the best score just updated) -/
def keeps (keep best score : α) : Bool := le (keep * best) score

/-- state after the inner loop of a step (`clf.alpha = alpha` was set at the top of the step; the estimator now holds
    the step's weights; `iteration_gemini_score` & co. keep the values of the last epoch run) -/
def afterInner {ω : Type} (st : PState α ω) (s : StepObs α ω) (i : Nat) (last : Option (Epoch α)) : PState α ω :=
  { st with clfAlpha := st.alpha, curW := s.weights, epochsRun := st.epochsRun ++ [i], last := last }

/-- the end of a completed step (`e` = last epoch run):
    ```
    alphas.append(alpha); n_features.append(clf._n_selected_features().item())
    geminis.append(iteration_gemini_score); group_lasso_penalties.append(clf._group_lasso_penalty())
    alpha *= alpha_multiplier
    if iteration_gemini_score >= best_gemini_score and clf._n_selected_features() == X.shape[1]:
        best_gemini_score = iteration_gemini_score
    if iteration_gemini_score >= keep_threshold * best_gemini_score:
        best_weights = [w.copy() for w in weights]
    ``` -/
def advance {ω : Type} (c : Cfg α) (st : PState α ω) (s : StepObs α ω) (i : Nat) (e : Epoch α) : PState α ω :=
  let best' := newBest c.d st.best e.score s.nSel
  { afterInner st s i (some e) with
    alphas := st.alphas ++ [st.alpha], nFeatures := st.nFeatures ++ [s.nSel],
    geminis := st.geminis ++ [e.score], penalties := st.penalties ++ [s.penalty],
    weightsHist := st.weightsHist ++ [s.weights],
    alpha := st.alpha * c.mult, best := best',
    bestW := if keeps c.keep best' e.score then s.weights else st.bestW }

/-- the inner loop of a step that starts in state `st`:
    `clf.alpha = alpha; validation_gemini_score, validation_l1 = compute_val_score(...); patience = 0; i = 0; while …` -/
def stepInner {ω : Type} (c : Cfg α) (st : PState α ω) (s : StepObs α ω) : Inner α :=
  innerLoop c.maxIter c.maxPatience c.esf st.alpha 0 0 s.valScore (s.valPenalty * st.alpha) st.last s.epochs

/-- `while clf._n_selected_features() > min_features: …`; `nSel` = selected count of the current weights -/
def outerLoop {ω : Type} (c : Cfg α) : PState α ω → Nat → List (StepObs α ω) → PathResult α ω
  | st, nSel, [] => if (nSel : Int) > c.minFeatures then finish st .needMoreSteps else finish st .normal
  | st, nSel, s :: rest =>
    if (nSel : Int) > c.minFeatures then
      match stepInner c st s with
      | .exhausted => finish { st with clfAlpha := st.alpha } .needMoreEpochs
      | .done i none => finish (afterInner st s i none) .unboundScore
      | .done i (some e) =>
        -- if np.isnan(iteration_gemini_score): break
        if e.isNaN then finish (afterInner st s i (some e)) .nanAbort
        else outerLoop c (advance c st s i e) s.nSel rest
    else finish st .normal

/-- state of `_path` when the outer loop is entered: `alpha = clf.alpha; initial_alpha = clf.alpha; clf.set_params(alpha=0); try: clf.fit(X, y);
    best_gemini_score, _ = compute_val_score(...); best_weights = [w.copy() for w in weights]; the four empty lists` -/
def initState {ω : Type} (alpha0 : α) (tr : Trace α ω) : PState α ω :=
  { alpha := alpha0, clfAlpha := 0, best := tr.initScore, bestW := tr.initWeights, curW := tr.initWeights,
    alphas := [], nFeatures := [], geminis := [], penalties := [], last := none, weightsHist := [], epochsRun := [] }

def cfgOf (maxIter d : Nat) (a : PathArgs α) : Cfg α :=
  { maxIter := maxIter, d := d, mult := a.alphaMultiplier, minFeatures := a.minFeatures, keep := a.keepThreshold,
    esf := a.earlyStoppingFactor, maxPatience := a.maxPatience }

/-- `try: … finally: clf.set_params(alpha=initial_alpha)`: executed on every way out of `_path` — the normal return, the
    NaN `break`, and an exception (`unboundScore`).  The two remaining exit kinds are not exits of the Python function
    (the observed trace ended too early) and are left as they are. -/
def restoreAlpha {ω : Type} (alpha0 : α) (r : PathResult α ω) : PathResult α ω :=
  match r.exit with
  | .normal | .nanAbort | .unboundScore => { r with clfAlpha := alpha0 }
  | _ => r

/-- `_path(clf, X, y, alpha_multiplier, min_features, keep_threshold, early_stopping_factor, max_patience)`;
    `alpha0 = clf.alpha` on entry, `maxIter = clf.max_iter`, `d = X.shape[1]` -/
def runPath {ω : Type} (alpha0 : α) (maxIter d : Nat) (args : PathArgs α) (tr : Trace α ω) :
    PathResult α ω × Warnings :=
  (restoreAlpha alpha0
    (outerLoop (cfgOf maxIter d (normalise args d).1) (initState alpha0 tr) tr.initNSel tr.steps), (normalise args d).2)

/-! ### the `path` methods -/

/-- what the estimator holds after `path(...)`:
    ```
    if restore_best_weights:
        if not self.dynamic: <np.copyto every weight from best_weights>
        else: warnings.warn(...)
    ``` ; second component: the "incompatible with the dynamic mode" warning -/
def afterPath {ω : Type} (restore dynamic : Bool) (r : PathResult α ω) : ω × Bool :=
  if restore then
    if !dynamic then (r.bestWeights, false) else (r.curW, true)
  else (r.curW, false)

/-- `if y is not None and self.dynamic: warnings.warn("Dynamic mode is incompatible with a precomputed metric…")` -/
def warnDynamicPrecomputed (hasY dynamic : Bool) : Bool := hasY && dynamic

end GemVerif.Model.Path
