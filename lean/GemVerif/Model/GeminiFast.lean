/-
  Table-valued twins of the MMD definitions of `GemVerif/Model/Gemini.lean`, for the driver only.

  `mmdGrad ε ovo P κ : Fin n → Fin K → α` is a closure; Lean compiles it with its full arity, so
  `mmdGrad ε ovo P κ i k` rebuilds every intermediate table for every entry (and the helpers
  `mmdAlpha`, `mmdGamma`, `mmdDeltaOvo`, `mmdDeltaOva` do the same inside).  The definitions below
  return `Tab`/`Tab2` VALUES: every intermediate table is bound by a `let` at the top level of a
  definition whose result type is not a function, hence computed once.  Per entry they perform the
  same arithmetic operations, on the same operands, in the same order as the originals, so the two
  agree for EVERY number type — `Float` included (`GemVerif/Props/C02Fast.lean` proves
  `mmdGradFast_eq`, `mmdScoreFast_eq` generically in `[RealLike α]`).

  Nothing here is a model of the Python code in its own right: the models stay in `Gemini.lean`.
  No Mathlib.
-/
import GemVerif.Model.Gemini

namespace GemVerif.Model
open GemVerif RealLike

variable {α : Type} [RealLike α]

/-- table of `mmdAlpha` -/
def mmdAlphaFast {n K : Nat} (ε : α) (P : Fin n → Fin K → α) : Tab2 α n K :=
  let y := clipP ε P
  let pi := tab (mean0 y)
  tab2 fun i k => y i k / pi k

/-- table of `mmdGamma` -/
def mmdGammaFast {n K : Nat} (ε : α) (P : Fin n → Fin K → α) (κ : Fin n → Fin n → α) :
    Tab2 α n K :=
  let al := mmdAlphaFast ε P
  tab2 fun i k => sumFin fun j => κ i j / (nat n * nat n) * al j k

/-- table of `mmdDeltaOvo` -/
def mmdDeltaOvoFast {n K : Nat} (ε : α) (P : Fin n → Fin K → α) (κ : Fin n → Fin n → α) :
    Tab2 α K K :=
  let al := mmdAlphaFast ε P
  let ga := mmdGammaFast ε P κ
  let om : Tab2 α K K := tab2 fun a b => sumFin fun i => al i a * ga i b
  tab2 fun a b => sqrt (max (-(nat 2) * om a b + om b b + om a a) 0)

/-- table of `mmdDeltaOva` -/
def mmdDeltaOvaFast {n K : Nat} (ε : α) (P : Fin n → Fin K → α) (κ : Fin n → Fin n → α) :
    Tab α K :=
  let al := mmdAlphaFast ε P
  let ga := mmdGammaFast ε P κ
  let c : α := sumFin fun i => sumFin fun j => κ i j / (nat n * nat n)
  tab fun k =>
    let a := sumFin fun i => al i k * ga i k
    let b := sumFin fun i => ga i k
    sqrt (max (a + c - nat 2 * b) 0)

/-- `mmdScore`, every table computed once -/
def mmdScoreFast {n K : Nat} (ε : α) (ovo : Bool) (P : Fin n → Fin K → α) (κ : Fin n → Fin n → α) :
    α :=
  let y := clipP ε P
  let pi := tab (mean0 y)
  if ovo then
    let de := mmdDeltaOvoFast ε P κ
    sumFin fun b => (sumFin fun a => pi a * de a b) * pi b
  else
    let de := mmdDeltaOvaFast ε P κ
    sumFin fun k => pi k * de k

/-- one-vs-one branch of `mmdGradFast` -/
def mmdGradOvoFast {n K : Nat} (ε : α) (P : Fin n → Fin K → α) (κ : Fin n → Fin n → α) :
    Tab2 α n K :=
  let y := clipP ε P
  let pi := tab (mean0 y)
  let al := mmdAlphaFast ε P
  let ga := mmdGammaFast ε P κ
  let om : Tab2 α K K := tab2 fun a b => sumFin fun i => al i a * ga i b
  let de := mmdDeltaOvoFast ε P κ
  let lam : Tab2 α K K := tab2 fun a b =>
    if a = b then 0 else if beq (de a b) 0 then 0 else pi a * pi b / (de a b + 0)
  let ls := tab fun b => sumFin fun a => lam a b
  let gl : Tab2 α n K := tab2 fun i k => sumFin fun a => ga i a * lam a k
  let m := tab fun k => meanV fun i => al i k * gl i k
  let pd := tab fun k => sumFin fun a => pi a * de a k
  tab2 fun i k =>
    ((ga i k * ls k - gl i k - om k k * ls k / nat n + m k) / pi k + pd k / nat n) * nat 2
      * clipMask ε P i k

/-- one-vs-all branch of `mmdGradFast` -/
def mmdGradOvaFast {n K : Nat} (ε : α) (P : Fin n → Fin K → α) (κ : Fin n → Fin n → α) :
    Tab2 α n K :=
  let al := mmdAlphaFast ε P
  let de := mmdDeltaOvaFast ε P κ
  let mm : Tab2 α n K := tab2 fun i k => sumFin fun j => κ i j / (nat n * nat n) * (al j k - 1)
  let mmean := tab fun k => meanV fun i => mm i k
  tab2 fun i k =>
    (if beq (de k) 0 then 0 else (mm i k - mmean k) / (de k + 0)) * clipMask ε P i k

/-- `mmdGrad` as a table, every intermediate table computed once -/
def mmdGradFast {n K : Nat} (ε : α) (ovo : Bool) (P : Fin n → Fin K → α) (κ : Fin n → Fin n → α) :
    Tab2 α n K :=
  if ovo then mmdGradOvoFast ε P κ else mmdGradOvaFast ε P κ

end GemVerif.Model
