/-
  Executable model of the Douglas differentiable tree (`gemclus/tree/douglas.py`):
  `_leaf_binning`, `_merge_leaf`, `_infer`, the bookkeeping of `_init_params`,
  `find_active_points` (as the source is: `activeCurrent`; as the property wants it:
  `activeFixed`) and `_compute_grads`.  Written line by line after the numpy source, generic in the
  number type: the driver runs it on `Float`, the theorems instantiate it at `ℝ`.  No Mathlib.

  Conventions.  `X : Fin n → Fin d → α` is the data, `cl : List (Nat × List α)` is
  `cut_points_list_` (feature index, cut points of that feature, in the order stored — sorted or not),
  `S : Fin L → Fin K → α` is `leaf_scores_`, `T` the temperature.  Whatever makes the Python code raise
  (feature index outside the data, empty `cut_points_list_`, `leaf_scores_` of the wrong height, mask of
  the wrong length, empty cut vector in `find_active_points`, no sample) is `none` here.
-/
import GemVerif.Num

namespace GemVerif.Model.Douglas
open GemVerif RealLike

variable {α : Type} [RealLike α]

/-! ### `np.argsort` (insertion sort on (value, position) pairs; stable) -/

/-- insert `a` in front of the first element `b` with `le a b` -/
def insertBy {β : Type} (le : β → β → Bool) (a : β) : List β → List β
  | [] => [a]
  | b :: l => if le a b then a :: b :: l else b :: insertBy le a l

/-- insertion sort -/
def isort {β : Type} (le : β → β → Bool) : List β → List β
  | [] => []
  | a :: l => insertBy le a (isort le l)

/-- the comparison used by the argsort: on the value only -/
def pairLe (p q : α × Nat) : Bool := le p.1 q.1

/-- `order = np.argsort(cut_points)` -/
def argsort (cuts : List α) : List Nat :=
  (isort pairLe cuts.zipIdx).map fun p => p.2

/-- `cut_points[order]` -/
def takeIdx (cuts : List α) (order : List Nat) : List α :=
  order.map fun i => cuts.getD i 0

/-! ### `np.cumsum`, row maximum, scikit-learn's `softmax` -/

def cumsumAux (acc : α) : List α → List α
  | [] => []
  | a :: l => (acc + a) :: cumsumAux (acc + a) l

/-- `np.cumsum` of a vector: running sums from the left, the first entry unchanged -/
def cumsum : List α → List α
  | [] => []
  | a :: l => a :: cumsumAux a l

/-- `np.max(row)`: running maximum from the left (`0` for the empty row, which never occurs) -/
def maxL : List α → α
  | [] => 0
  | a :: l => l.foldl max a

/-- `np.sum(row)`: running sum from the left -/
def sumL (l : List α) : α := l.foldl (fun s a => s + a) 0

/-- `sklearn.utils.extmath.softmax` on one row: subtract the row maximum, exponentiate,
    divide by the row sum. -/
def softmaxRow (z : List α) : List α :=
  let m := maxL z
  let e := z.map fun v => exp (v - m)
  let s := sumL e
  e.map fun v => v / s

/-! ### `_leaf_binning` -/

/-- `W = np.linspace(1, n + 1, n + 1)` : exactly `1, 2, …, n + 1` -/
def linspaceW (n : Nat) : List α := (List.range (n + 1)).map fun j => nat (j + 1)

/-- `sorted_cut_points = cut_points[np.argsort(cut_points)]` -/
def sortedCuts (cuts : List α) : List α := takeIdx cuts (argsort cuts)

/-- `b = np.cumsum(np.concatenate([np.zeros(1), -sorted_cut_points]))` -/
def bias (cuts : List α) : List α := cumsum (0 :: (sortedCuts cuts).map fun c => -c)

/-- `logits = X @ W + b` for the single sample value `x` (one row of the `n × 1` slice) -/
def logits (x : α) (cuts : List α) : List α :=
  List.zipWith (fun w b => x * w + b) (linspaceW cuts.length) (bias cuts)

/-- membership part of `_leaf_binning(X, cut_points)` for one sample:
    `softmax(logits / self.temperature)` -/
def binning (T : α) (x : α) (cuts : List α) : List α :=
  softmaxRow ((logits x cuts).map fun v => v / T)

/-- `_leaf_binning` for one sample: (memberships, order) -/
def leafBinning (T : α) (x : α) (cuts : List α) : List α × List Nat :=
  (binning T x cuts, argsort cuts)

/-! ### `_merge_leaf`, `_infer` -/

/-- `_merge_leaf` on one sample: `np.einsum("ij,ik->ijk", a, b).reshape((-1, J·K))`, i.e. entry
    `j * len(b) + k` is `a[j] * b[k]`. -/
def kron (a b : List α) : List α := a.flatMap fun aj => b.map fun bk => aj * bk

/-- `reduce(self._merge_leaf, all_binnings)`; `reduce` of an empty sequence raises -/
def mergeAll : List (List α) → Option (List α)
  | [] => none
  | b :: bs => some (bs.foldl kron b)

/-- value of feature `f` of a sample, `0` outside the data (never read: see `inRange`) -/
def xget {d : Nat} (x : Fin d → α) (f : Nat) : α := if h : f < d then x ⟨f, h⟩ else 0

/-- every feature index of `cut_points_list_` addresses a column of the data; otherwise
    `X[:, f:f+1]` is an empty slice and `X @ W` raises -/
def inRange (d : Nat) (cl : List (Nat × List α)) : Bool := cl.all fun z => decide (z.1 < d)

/-- `all_binnings` of `_infer` for one sample -/
def binnings {d : Nat} (T : α) (x : Fin d → α) (cl : List (Nat × List α)) : List (List α) :=
  cl.map fun z => binning T (xget x z.1) z.2

/-- `self._leaf` (one row): the merged leaf memberships -/
def leafRow {d : Nat} (T : α) (x : Fin d → α) (cl : List (Nat × List α)) : Option (List α) :=
  if inRange d cl then mergeAll (binnings T x cl) else none

/-- `y_pred = leaf @ self.leaf_scores_` (one row) -/
def scoreRow {L K : Nat} (leaf : List α) (S : Fin L → Fin K → α) : List α :=
  List.ofFn fun k : Fin K => sumFin fun l : Fin L => leaf.getD l.val 0 * S l k

/-- `_infer(X)` for one sample: `softmax(leaf @ leaf_scores_)`; the matrix product raises when
    `leaf_scores_` does not have one row per leaf -/
def inferRow {d L K : Nat} (T : α) (x : Fin d → α) (cl : List (Nat × List α)) (S : Fin L → Fin K → α) :
    Option (List α) :=
  match leafRow T x cl with
  | none => none
  | some leaf => if leaf.length = L then some (softmaxRow (scoreRow leaf S)) else none

/-- `_infer(X)`: row by row -/
def infer {n d L K : Nat} (T : α) (X : Fin n → Fin d → α) (cl : List (Nat × List α))
    (S : Fin L → Fin K → α) : Fin n → Option (List α) :=
  fun i => inferRow T (X i) cl S

/-! ### `_init_params` (bookkeeping only; the values are random draws) -/

/-- the feature indices that receive cut points: all of them without a mask, the `True` positions
    of the mask otherwise; a mask whose length differs from `X.shape[1]` raises `ValueError` -/
def usedFeatures (mask : Option (List Bool)) (d : Nat) : Option (List Nat) :=
  match mask with
  | none => some (List.range d)
  | some m =>
    if m.length != d then none
    else some ((List.range d).filter fun i => m.getD i false)

/-- `num_leaf`: `(n_cuts + 1) ** X.shape[1]` without a mask, `(n_cuts + 1) ** len(cut_points_list_)`
    with one -/
def numLeaf (nCuts : Nat) (mask : Option (List Bool)) (d : Nat) : Option Nat :=
  match mask with
  | none => some ((nCuts + 1) ^ d)
  | some _ => (usedFeatures mask d).map fun u => (nCuts + 1) ^ u.length

/-- `cut_points_list_` given the drawn values (`draw f` = the `n_cuts` normal draws of feature `f`) -/
def initCutList (mask : Option (List Bool)) (d : Nat) (draw : Nat → List α) : Option (List (Nat × List α)) :=
  (usedFeatures mask d).map fun u => u.map fun f => (f, draw f)

/-! ### `find_active_points` -/

/-- `cut_points.min()` ; raises on an empty vector -/
def minL? : List α → Option α
  | [] => none
  | a :: l => some (l.foldl min a)

/-- `cut_points.max()` ; raises on an empty vector -/
def maxL? : List α → Option α
  | [] => none
  | a :: l => some (l.foldl max a)

/-- `np.all(p(feature))` -/
def colAll {n : Nat} (p : α → Bool) (col : Fin n → α) : Bool := (List.finRange n).all fun i => p (col i)

/-- the test of the source as it is:
    `not (np.all(feature <= min_threshold) or np.all(feature >= max_threshold))` -/
def testCurrent {n : Nat} (col : Fin n → α) (cuts : List α) : Option Bool :=
  match minL? cuts, maxL? cuts with
  | some mn, some mx => some (!(colAll (fun v => le v mn) col || colAll (fun v => le mx v) col))
  | _, _ => none

/-- the test the property asks for: some cut point lies strictly between the smallest and the
    largest value taken by the feature, `np.any((feature.min() < cut_points) & (cut_points < feature.max()))` -/
def testFixed {n : Nat} (col : Fin n → α) (cuts : List α) : Option Bool :=
  match minL? (List.ofFn col), maxL? (List.ofFn col) with
  | some lo, some hi => some (cuts.any fun c => lt lo c && lt c hi)
  | _, _ => none

/-- the loop over `cut_points_list_` -/
def activeLoop {n d : Nat} (test : (Fin n → α) → List α → Option Bool) (X : Fin n → Fin d → α) :
    List (Nat × List α) → Option (List Nat)
  | [] => some []
  | z :: rest =>
    if h : z.1 < d then
      match test (fun i => X i ⟨z.1, h⟩) z.2, activeLoop test X rest with
      | some b, some r => some (if b then z.1 :: r else r)
      | _, _ => none
    else none  -- IndexError

def activeWith {n d : Nat} (test : (Fin n → α) → List α → Option Bool) (X : Fin n → Fin d → α)
    (cl : List (Nat × List α)) : Option (List Nat) :=
  if n = 0 then none                -- check_array: at least one sample
  else if d < cl.length then none   -- "The passed data has fewer features than ..."
  else activeLoop test X cl

/-- `find_active_points` of the source as it is -/
def activeCurrent {n d : Nat} (X : Fin n → Fin d → α) (cl : List (Nat × List α)) : Option (List Nat) :=
  activeWith testCurrent X cl

/-- `find_active_points` as the property describes it -/
def activeFixed {n d : Nat} (X : Fin n → Fin d → α) (cl : List (Nat × List α)) : Option (List Nat) :=
  activeWith testFixed X cl

/-! ### `_compute_grads` (back-propagation; serves C03)

  Reads `self._leaf`, `self._all_binnings`, `self._all_orders` as retained by the `_infer(X)` call that
  precedes it in `fit` (same `X`): the model recomputes them from `X`. -/

local instance (priority := low) instInhabitedGrads : Inhabited α := ⟨0⟩

/-- `np.argsort` of an integer vector (used on `order`, a permutation: gives its inverse) -/
def argsortNat (l : List Nat) : List Nat :=
  (isort (fun p q : Nat × Nat => decide (p.1 ≤ q.1)) l.zipIdx).map fun p => p.2

/-- the axis lengths `len(x[1]) + 1` of `axes_for_reshape` -/
def radices (cl : List (Nat × List α)) : List Nat := cl.map fun z => z.2.length + 1

/-- coordinate along axis `i` of the flat leaf index `l` in the C-order reshape to `radices` -/
def digit (rs : List Nat) (i l : Nat) : Nat := (l / (rs.drop (i + 1)).prod) % rs.getD i 1

/-- `_compute_grads(X, y_pred, gradient)`: the list `updates` — first `-leaf_score_backprop`
    (row-major `L × K`), then `-cut_grad` for every entry of `cut_points_list_`. -/
def computeGrads {n d L K : Nat} (T : α) (X : Fin n → Fin d → α) (cl : List (Nat × List α))
    (S : Fin L → Fin K → α) (yPred grad : Fin n → Fin K → α) : Option (List (List α)) :=
  match (List.finRange n).mapM (fun r => leafRow T (X r) cl) with
  | none => none
  | some leaves =>
    if leaves.all (fun lf => lf.length == L) then
      let leaf : Fin n → Fin L → α := fun r l => (leaves.getD r.val []).getD l.val 0
      -- y_pred_grad = y_pred * (gradient - (y_pred * gradient).sum(1, keepdims=True))
      let ypg : Fin n → Fin K → α :=
        tab2 fun r k => yPred r k * (grad r k - sumFin fun k' => yPred r k' * grad r k')
      -- leaf_score_backprop = self._leaf.T @ y_pred_grad
      let lsb : List α := (List.finRange L).flatMap fun l => (List.finRange K).map fun k =>
        -(sumFin fun r => leaf r l * ypg r k)
      -- binning_backprop = (y_pred_grad @ self.leaf_scores_.T).reshape(axes) * self._leaf.reshape(axes)
      let bb : Fin n → Fin L → α := tab2 fun r l => (sumFin fun k => ypg r k * S l k) * leaf r l
      let rs := radices cl
      let cutGrads : List (List α) := cl.zipIdx.map fun zi =>
        let z := zi.1
        let i := zi.2
        let ci := z.2.length
        -- self._all_binnings[i]
        let B : Fin n → Fin (ci + 1) → α := tab2 fun r j => (binning T (xget (X r) z.1) z.2).getD j.val 0
        -- weighted_grad = binning_backprop.sum(axes_for_sum)   (already carries the membership of this feature)
        let wg : Fin n → Fin (ci + 1) → α := tab2 fun r j =>
          sumFin fun l : Fin L => if digit rs i l.val = j.val then bb r l else 0
        -- bin_grad = weighted_grad - B * weighted_grad.sum(1, keepdims=True); bin_grad /= temperature
        let bg : Fin n → Fin (ci + 1) → α := tab2 fun r j =>
          (wg r j - B r j * sumFin fun j' => wg r j') / T
        -- bias_grad = bin_grad.sum(0)[1:]
        let biasGrad : List α := (List.finRange (ci + 1)).tail.map fun j => sumFin fun r => bg r j
        -- cumsum_grad = -np.cumsum(bias_grad[::-1])[::-1]
        let cumsumGrad : List α := (cumsum biasGrad.reverse).reverse.map fun v => -v
        -- cut_grad = cumsum_grad[np.argsort(self._all_orders[i])] ; updates += [-cut_grad]
        (argsortNat (argsort z.2)).map fun p => -(cumsumGrad.getD p 0)
      some (lsb :: cutGrads)
    else none

end GemVerif.Model.Douglas
