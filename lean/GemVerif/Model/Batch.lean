/-
  Executable model of the mini-batch machinery of GemClus (property C10).  No Mathlib.

  Source units, modelled line by line:

  * `gemclus/_base_gemini.py::DiscriminativeModel._batchify`
        random_state = check_random_state(random_state)
        all_indices = random_state.permutation(len(X))                     -- `perm` (external: numpy RNG)
        batch_size = len(X) if self.batch_size is None else self.batch_size
        j = 0
        while j < len(X):
            batch_indices = all_indices[j:j + batch_size]                  -- `(perm.drop j).take bs`
            X_batch = X[batch_indices]                                     -- `gather X idx`
            if affinity_matrix is not None:
                affinity_batch = affinity_matrix[batch_indices][:, batch_indices]   -- `block A idx`
            else:
                affinity_batch = None
            yield X_batch, affinity_batch
            j += batch_size
  * `DiscriminativeModel.fit` (loop skeleton): `for i in range(max_iter): for batch in _batchify(..): … _update_weights`
    and `n_iter_ = max_iter`; `_parameter_constraints` of `batch_size` and `max_iter`.
  * `gemclus/nonparametric/_categorical_models.py::CategoricalModel._batchify`:  `yield X, affinity_matrix`.
  * `gemclus/mlcl.py::add_mlcl_constraint.decorate_batch`.
  * `gemclus/sparse/_base_sparse.py::compute_val_score` (slices `j:j+batch_size`) and the epoch loop of `_path`.

  The permutation drawn by `random_state.permutation(len(X))` is an input of the model (`perm`); numpy guarantees
  `perm.length = len(X)`, so the loop bound `len(X)` is `perm.length` here.
-/

namespace GemVerif.Model.Batch

/-- A matrix as a list of rows (numpy 2-D array; entries are opaque for batching). -/
abbrev Mat (α : Type) := List (List α)

/-! ### `_batchify` : the index lists -/

/-- The `while j < len(X)` loop of `_batchify`, started at `j`, with the effective `batch_size = bs ≥ 1`:
    yields `all_indices[j:j+bs]` and advances `j += bs`. -/
def batchLoop (all : List Nat) (bs : Nat) (hbs : 0 < bs) (j : Nat) : List (List Nat) :=
  if j < all.length then
    ((all.drop j).take bs) :: batchLoop all bs hbs (j + bs)
  else []
termination_by all.length - j
decreasing_by omega

/-- Index lists yielded by one call of `DiscriminativeModel._batchify` when the RNG returned `perm`.
    `batch_size = None` ↦ `len(X)` (and the loop does not run at all on empty data).
    `some 0` cannot reach this code (`_validate_params` rejects it, see `fitRun`; the Python loop would never
    advance); the model value `[]` for it is never used by a theorem or by the driver. -/
def batchify (perm : List Nat) : Option Nat → List (List Nat)
  | none => if h : 0 < perm.length then batchLoop perm perm.length h 0 else []
  | some bs => if h : 0 < bs then batchLoop perm bs h 0 else []

/-! ### fancy indexing -/

/-- `X[idx]` for an integer index array (rows gathered in the order of `idx`). -/
def gather {β : Type} [Inhabited β] (X : List β) (idx : List Nat) : List β := idx.map (fun i => X[i]!)

/-- `M[:, idx]`: the same gather inside every row. -/
def gatherCols {α : Type} [Inhabited α] (M : Mat α) (idx : List Nat) : Mat α := M.map (fun row => gather row idx)

/-- `affinity_matrix[batch_indices][:, batch_indices]` -/
def block {α : Type} [Inhabited α] (A : Mat α) (idx : List Nat) : Mat α := gatherCols (gather A idx) idx

/-- What `_batchify` yields: the data rows and the affinity block (or `None`). -/
structure Batch (β α : Type) where
  data : List β
  aff : Option (Mat α)
deriving Repr, BEq, DecidableEq

/-- One yielded pair of `_batchify` for the index list `idx`. -/
def mkBatch {β α : Type} [Inhabited β] [Inhabited α] (X : List β) (A : Option (Mat α)) (idx : List Nat) : Batch β α :=
  { data := gather X idx
    aff := match A with
      | some A => some (block A idx)
      | none => none }

/-- All pairs yielded by one call `DiscriminativeModel._batchify(X, affinity_matrix, random_state)`. -/
def batchifyData {β α : Type} [Inhabited β] [Inhabited α] (X : List β) (A : Option (Mat α)) (perm : List Nat)
    (bs : Option Nat) : List (Batch β α) :=
  (batchify perm bs).map (mkBatch X A)

/-- `CategoricalModel._batchify`: `yield X, affinity_matrix` (once, no RNG, no `batch_size`). -/
def batchifyCategorical {β α : Type} (X : List β) (A : Option (Mat α)) : List (Batch β α) := [⟨X, A⟩]

/-! ### `mlcl.decorate_batch` -/

/-- A batch yielded by the decorated `_batchify`, together with the value of `disguise_batch.indices` at that yield. -/
structure DecBatch (β α : Type) where
  data : List β
  aff : Option (Mat α)
  recorded : List Nat
deriving Repr, BEq, DecidableEq

/-- `decorate_batch(func)`:
      indices = np.arange(len(X))
      for subset, affinity_batch in func(indices, affinity_matrix, random_state):
          disguise_batch.indices = subset.tolist()
          yield X[subset], affinity_batch
    `inner` is the undecorated `_batchify` (applied to the index vector instead of the data). -/
def decorate {β α : Type} [Inhabited β] (inner : List Nat → Option (Mat α) → List (Batch Nat α))
    (X : List β) (A : Option (Mat α)) : List (DecBatch β α) :=
  let indices := List.range X.length
  (inner indices A).map fun b => { data := gather X b.data, aff := b.aff, recorded := b.data }

/-- decorated `DiscriminativeModel._batchify` -/
def batchifyDecorated {β α : Type} [Inhabited β] [Inhabited α] (X : List β) (A : Option (Mat α)) (perm : List Nat)
    (bs : Option Nat) : List (DecBatch β α) :=
  decorate (fun ind A' => batchifyData ind A' perm bs) X A

/-- decorated `CategoricalModel._batchify` -/
def batchifyCategoricalDecorated {β α : Type} [Inhabited β] (X : List β) (A : Option (Mat α)) : List (DecBatch β α) :=
  decorate (fun ind A' => batchifyCategorical ind A') X A

/-! ### `fit` : epochs and optimiser steps -/

/-- Index lists of all optimiser steps of `fit`, in order: `for i in range(max_iter): for … in _batchify(…)`;
    `perms i` is the permutation drawn in epoch `i`.  One `_update_weights` per element. -/
def fitSteps (maxIter : Nat) (perms : Nat → List Nat) (bs : Option Nat) : List (List Nat) :=
  (List.range maxIter).flatMap fun i => batchify (perms i) bs

/-- number of `optimiser_.update_params` calls of `fit` -/
def fitStepCount (maxIter : Nat) (perms : Nat → List Nat) (bs : Option Nat) : Nat := (fitSteps maxIter perms bs).length

/-- the steps of a `CategoricalModel.fit`: one full batch per epoch -/
def fitStepsCategorical (maxIter n : Nat) : List (List Nat) :=
  (List.range maxIter).flatMap fun _ => [List.range n]

/-- Result of the batching skeleton of `fit`. -/
structure FitTrace where
  epochs : List (List (List Nat))   -- per epoch, the index lists of its batches
  steps : Nat                       -- `update_params` calls
  nIter : Nat                       -- `n_iter_`
deriving Repr, BEq, DecidableEq

/-- `_parameter_constraints`: `"batch_size": [Interval(Integral, 1, None, closed="left"), None]`,
    `"max_iter": [Interval(Integral, 1, None, closed="left")]` — checked by `self._validate_params()` first in `fit`. -/
def paramsValid (maxIter : Int) (bs : Option Int) : Bool :=
  decide (1 ≤ maxIter) && (match bs with | none => true | some b => decide (1 ≤ b))

/-- The batching skeleton of `DiscriminativeModel.fit` (`categorical = true`: `CategoricalModel`, whose
    constructor has no `batch_size`, so `self.batch_size` is `None` and `_batchify` is overridden).
    `perms` are the successive results of `random_state.permutation(n)`.  Invalid hyper-parameters are rejected
    as the code does. -/
def fitRun (categorical : Bool) (n : Nat) (maxIter : Int) (bs : Option Int) (perms : Nat → List Nat) :
    Except String FitTrace :=
  if !paramsValid maxIter bs then .error "InvalidParameterError" else
  let mi := maxIter.toNat
  let b := bs.map Int.toNat
  let epochs := (List.range mi).map fun i => if categorical then [List.range n] else batchify (perms i) b
  .ok { epochs := epochs, steps := epochs.flatten.length, nIter := mi }

/-! ### `compute_val_score` : contiguous validation blocks -/

/-- Index ranges `j:j+batch_size` visited by `compute_val_score` (`j = 0; while j < len(X): …; j += batch_size`);
    `_path` passes `batch_size = clf.batch_size`, or `len(X)` when it is `None`. -/
def valBlocks (n : Nat) (bs : Nat) : List (List Nat) :=
  if h : 0 < bs then batchLoop (List.range n) bs h 0 else []

/-- `X[j:j+bs]` -/
def slice {β : Type} (X : List β) (j bs : Nat) : List β := (X.drop j).take bs

/-- `y[j:j+bs][:, j:j+bs]` -/
def sliceBlock {α : Type} (y : Mat α) (j bs : Nat) : Mat α := (slice y j bs).map fun row => slice row j bs

/-- The loop of `compute_val_score` for a user-supplied affinity `y` (`y is not None`), started at `j`:
      X_batch = X[j:j + batch_size];  affinity = y[j:j+batch_size][:, j:j+batch_size];  j += batch_size -/
def valLoop {β α : Type} (X : List β) (y : Mat α) (bs : Nat) (hbs : 0 < bs) (j : Nat) : List (Batch β α) :=
  if j < X.length then
    ⟨slice X j bs, some (sliceBlock y j bs)⟩ :: valLoop X y bs hbs (j + bs)
  else []
termination_by X.length - j
decreasing_by omega

/-- The `(X_batch, affinity)` pairs of `compute_val_score` for a user-supplied affinity `y`. -/
def valBatches {β α : Type} (X : List β) (y : Mat α) (bs : Nat) : List (Batch β α) :=
  if h : 0 < bs then valLoop X y bs h 0 else []

/-- batch size used by `_path` for validation: `clf.batch_size if clf.batch_size is not None else len(X)` -/
def pathBatchSize (n : Nat) : Option Nat → Nat
  | none => n
  | some b => b

end GemVerif.Model.Batch
