/-
  Executable model of the ASSEMBLY logic of `gemclus/data/synthetic_data.py` (property C20), written line by
  line after the source.  The random primitives of numpy (`choice`, `normal`, `multivariate_normal`,
  `chisquare`, `permutation`) are PARAMETERS: the model receives the arrays they returned and reproduces what the
  Python code does with them.  Constants come from the regenerated `Gen/DataGen.lean`.

  Conventions: a row is a `List α`; a drawn array is a function `Nat → row` (row i); the K per-component arrays
  of `draw_gmm` are `draws : Nat → Nat → row` (`draws k i` = `X[k][i]`).  No Mathlib.
-/
import GemVerif.Num
import GemVerif.Gen.DataGen

namespace GemVerif.Model.DataGen
open GemVerif
open GemVerif.Gen.DataGen (Q Q3)

variable {α : Type} [RealLike α]

/-! ### exact constants into the number type -/

def ofInt (z : Int) : α := if z < 0 then -((z.natAbs : Nat) : α) else ((z.natAbs : Nat) : α)
/-- `(num, den)` ↦ num / den -/
def ofQ (q : Q) : α := ofInt q.1 / ((q.2 : Nat) : α)
/-- `(a, b)` ↦ a + b·√3 -/
def ofQ3 (q : Q3) : α := ofQ q.1 + ofQ q.2 * RealLike.sqrt (RealLike.nat 3)

/-- left-to-right sum `((0 + f 0) + f 1) + …`, as `np.sum` adds a short vector -/
def sumTo (n : Nat) (f : Nat → α) : α := (List.range n).foldl (fun s k => s + f k) 0

/-! ### draw_gmm -/

/-- `X = [X[k][i] for i, k in enumerate(y)]` -/
def selectRows {ρ : Type} (y : List Nat) (draws : Nat → Nat → ρ) : List ρ :=
  y.mapIdx fun i k => draws k i

/-- What the validity tests of `draw_gmm` look at (after `check_array`, which guarantees finite numbers). -/
structure GmmIn (α : Type) where
  /-- `K, d = loc.shape` -/
  K : Nat
  d : Nat
  /-- `scale.shape` -/
  scaleShape : List Nat
  /-- `pvals.shape[0]` -/
  pvalsLen : Nat
  pvals : Nat → α
  /-- `scale[k]` when d = 1 (a variance) -/
  var1 : Nat → α
  /-- numpy: `np.any(np.linalg.eigvals(scale[k]) < 0)` -/
  eigNeg : Nat → Bool
  /-- `np.all(scale[k] == 0)` -/
  allZero : Nat → Bool
  /-- `scale[k]` equals its transpose (only consulted if the source tests it) -/
  symm : Nat → Bool

/-- One test made before any draw.  `none`: passes; `some e`: the function raises (`e` names the test). -/
def commonGuard (g : String) (p : GmmIn α) : Option String :=
  if g = "lenScale" then
    match p.scaleShape[0]? with
    | none => some "IndexError"
    | some s => if p.K ≠ s then some "lenScale" else none
  else if g = "square" then
    if p.d ≠ 1 then
      match p.scaleShape[1]?, p.scaleShape[2]? with
      | some a, some b => if p.d ≠ a ∨ p.d ≠ b then some "square" else none
      | _, _ => some "IndexError"
    else none
  else if g = "lenPvals" then (if p.K ≠ p.pvalsLen then some "lenPvals" else none)
  else if g = "pvalsPos" then
    (if (List.range p.pvalsLen).any (fun k => RealLike.le (p.pvals k) 0) then some "pvalsPos" else none)
  else if g = "pvalsSum" then
    (if RealLike.beq (sumTo p.pvalsLen p.pvals) 1 then none else some "pvalsSum")
  else some "unknown-guard"

def checkCommon (p : GmmIn α) : List String → Option String
  | [] => none
  | g :: gs => match commonGuard g p with
    | some e => some e
    | none => checkCommon p gs

/-- One test made on component `k` inside the `for k in range(K)` loop. -/
def compGuard (g : String) (p : GmmIn α) (k : Nat) : Option String :=
  if g = "varPos" then (if RealLike.le (p.var1 k) 0 then some "varPos" else none)
  else if g = "eigNonneg" then (if p.eigNeg k then some "eigNonneg" else none)
  else if g = "notAllZero" then (if p.allZero k then some "notAllZero" else none)
  else if g = "symmetric" then (if p.symm k then none else some "symmetric")
  else some "unknown-guard"

def checkComp (p : GmmIn α) (k : Nat) : List String → Option String
  | [] => none
  | g :: gs => match compGuard g p k with
    | some e => some e
    | none => checkComp p k gs

/-- `for k in range(K): <tests>` -/
def checkComps (p : GmmIn α) (gs : List String) : List Nat → Option String
  | [] => none
  | k :: ks => match checkComp p k gs with
    | some e => some e
    | none => checkComps p gs ks

/-- The acceptor of `draw_gmm`: `none` = the parameter set is accepted, `some e` = rejected by test `e`. -/
def gmmAccept (p : GmmIn α) : Option String :=
  match checkCommon p Gen.DataGen.gmmGuardsCommon with
  | some e => some e
  | none =>
    if p.d = 1 then checkComps p Gen.DataGen.gmmGuards1d (List.range p.K)
    else checkComps p Gen.DataGen.gmmGuardsNd (List.range p.K)

/-- The number handed to `generator.normal` as its `scale` (a standard deviation) for a component of variance `v`. -/
def normalStdOf (tok : String) (v : α) : Option α :=
  if tok = "scale[k]" then some v
  else if tok = "sqrt(scale[k])" then some (RealLike.sqrt v)
  else none

/-- `draw_gmm`: `y` is what `choice` returned, `draws k` what the k-th component primitive returned. -/
def drawGmm (p : GmmIn α) (y : List Nat) (draws : Nat → Nat → List α) : Except String (List (List α) × List Nat) :=
  match gmmAccept p with
  | some e => .error e
  | none => .ok (selectRows y draws, y)

/-! ### multivariate_student_t -/

/-- one row of `np.sqrt(df / u) * nx + loc.reshape((1, -1))` -/
def studentRow (df u : α) (nx loc : List α) : List α :=
  List.zipWith (fun z l => RealLike.sqrt (df / u) * z + l) nx loc

/-- `us i` = i-th chi-square draw, `nxs i` = i-th row of the centred normal draw -/
def studentT (n : Nat) (df : α) (us : Nat → α) (nxs : Nat → List α) (loc : List α) : List (List α) :=
  (List.range n).map fun i => studentRow df (us i) (nxs i) loc

/-! ### gstm -/

/-- `n_gaussian = 3 * n // 4` -/
def gstmNGaussian (n : Nat) : Nat := Gen.DataGen.gstmSplit.1 * n / Gen.DataGen.gstmSplit.2

/-- `locations = np.array([[1, 1], [1, -1], [-1, 1], [-1, -1]]) * alpha` -/
def gstmLocations (alpha : α) : List (List α) :=
  Gen.DataGen.gstmLocations.map fun r => r.map fun c => ofInt c * alpha
/-- `locations[:-1]`: means of the Gaussian components -/
def gstmGaussLocs (alpha : α) : List (List α) :=
  Gen.DataGen.gstmGaussLocs.map fun r => r.map fun c => ofInt c * alpha
/-- `locations[-1]`: location of the Student-t component -/
def gstmStudentLoc (alpha : α) : List α := Gen.DataGen.gstmStudentLoc.map fun c => ofInt c * alpha

/-- `gstm`: `yG`/`drawsG` come from the inner `draw_gmm(n_gaussian, …)`, `us`/`nxs` from the inner
    `multivariate_student_t(n - n_gaussian, …)`, `order = generator.permutation(n)`.
    Returns `(X[order], y[order])`; an index outside the stacked arrays (numpy: IndexError) is `none`. -/
def gstm (n : Nat) (alpha df : α) (yG : List Nat) (drawsG : Nat → Nat → List α)
    (us : Nat → α) (nxs : Nat → List α) (order : List Nat) : List (Option (List α)) × List (Option Nat) :=
  let nG := gstmNGaussian n
  let nS := n - nG
  let XG := selectRows yG drawsG
  let XS := studentT nS df us nxs (gstmStudentLoc alpha)
  let X := XG ++ XS                                                        -- np.vstack([X_gaussian, X_student])
  let y := yG ++ List.replicate nS Gen.DataGen.gstmStudentLabel            -- np.concatenate([y_gaussian, ones * 3])
  (order.map fun o => X[o]?, order.map fun o => y[o]?)

/-! ### celeux_one -/

/-- `mu1 = np.ones(5) * mu; mu2 = -mu1; mu3 = np.zeros(5)` -/
def c1Means (mu : α) : List (List α) := Gen.DataGen.c1MeanCoeffs.map fun r => r.map fun c => ofInt c * mu

/-- `np.concatenate([good_variables, noise], axis=1), y` -/
def celeuxOne (y : List Nat) (draws : Nat → Nat → List α) (noise : Nat → List α) : List (List α) × List Nat :=
  ((selectRows y draws).mapIdx fun i r => r ++ noise i, y)

/-! ### celeux_two -/

def c2Offsets : List α := Gen.DataGen.c2Offsets.map ofQ
def c2B : List (List α) := Gen.DataGen.c2B.map fun r => r.map ofQ
def c2Means : List (List α) := Gen.DataGen.c2Means.map fun r => r.map ofQ
def c2NoiseCov : List (List α) := Gen.DataGen.c2NoiseCov.map fun r => r.map ofQ3
def c2X1214Mean : List α := Gen.DataGen.c2X1214Mean.map ofQ

/-- `b` by columns (the literal of the source before `.T`): `c2BT[j] = b[:, j]` -/
def c2BT : List (List α) := Gen.DataGen.c2BT.map fun r => r.map ofQ

/-- `Σ_k g[k] * col[k]`, summed left to right -/
def dot (g col : List α) : α := (List.zipWith (fun a b => a * b) g col).foldl (fun s x => s + x) 0

/-- one row of `offsets + good_variables @ b + noise` (`bT[j]` = column j of b) -/
def affineRow (offsets : List α) (bT : List (List α)) (g e : List α) : List α :=
  List.zipWith (fun s ej => s + ej) (List.zipWith (fun o col => o + dot g col) offsets bT) e

/-- `celeux_two`: `noise i` = row i of the 9-variate normal draw, `x1214 i` = row i of the last draw.
    Row i of the result: `good_i ++ X3_11_i ++ X12_14_i`. -/
def celeuxTwo (y : List Nat) (draws : Nat → Nat → List α) (noise x1214 : Nat → List α) :
    List (List α) × List Nat :=
  ((selectRows y draws).mapIdx fun i g => g ++ affineRow c2Offsets c2BT g (noise i) ++ x1214 i, y)

end GemVerif.Model.DataGen
