/-
  Model of the public API of `gemclus/_base_gemini.py`
  (`DiscriminativeModel.fit / fit_predict / predict_proba / predict / score`, attributes `labels_`, `n_iter_`,
  `optimiser_`) as a state machine over an abstract model family, written after the Python source line by line.

  What a concrete estimator class supplies (the abstract methods `_init_params`, `_infer`, `_compute_grads`,
  `_get_weights`, plus `get_gemini`) is the structure `Family`.  The body of the training loop
  (`_batchify → _infer → gemini(…, return_grad=True) → _compute_grads → _update_weights`) is ONE abstract state
  transformer `epoch` (its content is the subject of C02/C03/C10); `fit` iterates it `max_iter` times.
  Everything scikit-learn does (`_validate_params`, `check_array`, `validate_data(ensure_min_samples=n_clusters)`,
  `check_is_fitted`) appears as an explicit test with an error token, never as a default.

  The number of clusters `K` is a type index: `n_clusters = K`.  No Mathlib.
-/
import GemVerif.Num
import GemVerif.Model.Nets

namespace GemVerif.Model.Api
open GemVerif

/-- an array of predictions `y_pred` of shape `(n, K)`; the row count is part of the value because it is the row
    count of whatever data was passed in -/
structure Mat (α : Type) (K : Nat) where
  n : Nat
  val : Fin n → Fin K → α

/-- `np.argmax(P, axis=1)` / `P.argmax(1)`: first maximal entry of every row -/
def Mat.argmax {α : Type} [RealLike α] {K : Nat} (P : Mat α K) : List Nat :=
  List.ofFn fun i => Nets.argmaxRow (P.val i)

/-- `solver: StrOptions({"sgd", "adam"})` -/
inductive Solver
  | adam
  | sgd
  deriving DecidableEq, Repr

/-- the class of the object stored in `optimiser_` -/
inductive Optimiser
  | AdamOptimizer
  | SGDOptimizer
  deriving DecidableEq, Repr

/-- `if self.solver == "sgd": SGDOptimizer(...) else: AdamOptimizer(...)` -/
def optimiserOf : Solver → Optimiser
  | .sgd => .SGDOptimizer
  | _ => .AdamOptimizer

/-- the hyper-parameters `fit` itself reads (`n_clusters` is the type index `K`) -/
structure Config where
  maxIter : Nat
  solver : Solver
  /-- outcome of the table check of every other hyper-parameter (`learning_rate`, `batch_size`, `gemini`, …):
      scikit-learn's validators and the GEMINI constructor's `@constraint_params` are trusted, hence a parameter -/
  restValid : Bool
  deriving Repr

/-- `self._validate_params()`: `n_clusters ≥ 1`, `max_iter ≥ 1` (Interval(Integral, 1, None, closed="left")) and the rest -/
def Config.valid (c : Config) (K : Nat) : Bool := decide (1 ≤ K) && decide (1 ≤ c.maxIter) && c.restValid

inductive Err
  /-- `InvalidParameterError` from `_validate_params` -/
  | invalidParameter
  /-- `ValueError` from `validate_data(..., ensure_min_samples=self.n_clusters)` -/
  | tooFewSamples
  /-- `NotFittedError` from `check_is_fitted` -/
  | notFitted
  /-- `ValueError` from `gemini.compute_affinity` ("precomputed" without a matrix) -/
  | noAffinity
  deriving DecidableEq, Repr

/-- What a concrete estimator class provides.  `X` is the type of data sets, `Aff` of affinity matrices, `Y` of the
    optional `y` argument, `Params` of the learnable weights, `Opt` of the optimiser's internal state, `Rng` of the
    `RandomState`. -/
structure Family (α : Type) (K : Nat) (X Y Aff Params Opt Rng : Type) where
  /-- `len(X)` -/
  rows : X → Nat
  /-- `self._init_params(random_state, X)` -/
  initParams : Rng → X → Params × Rng
  /-- `SGDOptimizer(weights, lr)` / `AdamOptimizer(weights, lr)` -/
  newOptimiser : Solver → Params → Opt
  /-- `self._infer(X, retain)`: the returned array (what `retain=True` stores is read by `_compute_grads` only) -/
  infer : Params → Bool → X → Mat α K
  /-- `self.get_gemini().compute_affinity(X, y)`; `none` = the call raises -/
  affinity : X → Option Y → Option Aff
  /-- `self.get_gemini()(y_pred, affinity)` -/
  gemini : Mat α K → Aff → α
  /-- one pass of `for X_batch, affinity_batch in self._batchify(X, affinity, random_state): …` -/
  epoch : X → Aff → Params × Opt × Rng → Params × Opt × Rng

/-- the attributes set by a completed `fit` -/
structure Fitted (Params Opt : Type) where
  params : Params
  optimiser : Optimiser
  optState : Opt
  labels : List Nat
  nIter : Nat

/-- an estimator object: constructor arguments and, after `fit`, the learned attributes -/
structure Estimator (Params Opt : Type) where
  cfg : Config
  fitted : Option (Fitted Params Opt) := none

variable {α : Type} [RealLike α] {K : Nat} {X Y Aff Params Opt Rng : Type}

/-- `for i in range(self.max_iter): <epoch>` -/
def train (F : Family α K X Y Aff Params Opt Rng) (x : X) (aff : Aff) : Nat → Params × Opt × Rng → Params × Opt × Rng
  | 0, s => s
  | i + 1, s => train F x aff i (F.epoch x aff s)

/-- `DiscriminativeModel.fit(X, y)` -/
def fit (F : Family α K X Y Aff Params Opt Rng) (e : Estimator Params Opt) (rng : Rng) (x : X) (y : Option Y) :
    Except Err (Estimator Params Opt) :=
  -- self._validate_params()
  if !e.cfg.valid K then .error .invalidParameter
  -- X = validate_data(self, X, ..., ensure_min_samples=self.n_clusters)
  else if F.rows x < K then .error .tooFewSamples
  else
    -- self._init_params(random_state, X); weights = self._get_weights(); gemini = self.get_gemini()
    let (θ₀, rng) := F.initParams rng x
    -- self.optimiser_ = SGDOptimizer(...) if self.solver == "sgd" else AdamOptimizer(...)
    let opt := F.newOptimiser e.cfg.solver θ₀
    -- affinity = gemini.compute_affinity(X, y)
    match F.affinity x y with
    | none => .error .noAffinity
    | some aff =>
      let (θ, o, _) := train F x aff e.cfg.maxIter (θ₀, opt, rng)
      -- self.labels_ = self._infer(X).argmax(1); self.n_iter_ = self.max_iter
      .ok { e with fitted := some { params := θ, optimiser := optimiserOf e.cfg.solver, optState := o,
                                    labels := (F.infer θ true x).argmax, nIter := e.cfg.maxIter } }

/-- `predict_proba(X)`: `check_is_fitted(self)`; `self._infer(X, retain=False)` -/
def predictProba (F : Family α K X Y Aff Params Opt Rng) (e : Estimator Params Opt) (x : X) : Except Err (Mat α K) :=
  match e.fitted with
  | none => .error .notFitted
  | some f => .ok (F.infer f.params false x)

/-- `predict(X)`: `check_is_fitted(self)`; `np.argmax(self.predict_proba(X), axis=1)` -/
def predict (F : Family α K X Y Aff Params Opt Rng) (e : Estimator Params Opt) (x : X) : Except Err (List Nat) :=
  match e.fitted with
  | none => .error .notFitted
  | some _ =>
    match predictProba F e x with
    | .error err => .error err
    | .ok P => .ok P.argmax

/-- `score(X, y)`: `gemini = self.get_gemini(); K = gemini.compute_affinity(X, y); y_pred = self.predict_proba(X);
    return gemini(y_pred, K).item()` -/
def score (F : Family α K X Y Aff Params Opt Rng) (e : Estimator Params Opt) (x : X) (y : Option Y) : Except Err α :=
  match F.affinity x y with
  | none => .error .noAffinity
  | some aff =>
    match predictProba F e x with
    | .error err => .error err
    | .ok P => .ok (F.gemini P aff)

/-- `fit_predict(X, y)`: `self.fit(X, y).labels_` -/
def fitPredict (F : Family α K X Y Aff Params Opt Rng) (e : Estimator Params Opt) (rng : Rng) (x : X) (y : Option Y) :
    Except Err (Estimator Params Opt × List Nat) :=
  match fit F e rng x y with
  | .error err => .error err
  | .ok e' => .ok (e', (e'.fitted.map (·.labels)).getD [])

/-! ### the concrete forward passes of `Model/Nets.lean` as families (executed by `Drivers/Api.lean`)

`training` stands for the whole loop: an arbitrary function of the initial weights. -/

/-- a data set: `n` rows of `d` features -/
structure Data (α : Type) (d : Nat) where
  n : Nat
  val : Fin n → Fin d → α

structure LinearParams (α : Type) (d K : Nat) where
  W : Fin d → Fin K → α
  b : Fin K → α

structure MlpParams (α : Type) (d h K : Nat) where
  W1 : Fin d → Fin h → α
  b1 : Fin h → α
  W2 : Fin h → Fin K → α
  b2 : Fin K → α
  /-- `W_skip_` (SparseMLPModel only) -/
  Ws : Option (Fin d → Fin K → α)

/-- `LinearModel` (also LinearMMD, LinearWasserstein, RIM, SparseLinear*): `softmax(X @ W_ + b_)` whatever `retain` -/
def linearFamily {d : Nat} (init : LinearParams α d K) (training : LinearParams α d K → LinearParams α d K)
    (gem : Mat α K → Unit → α) : Family α K (Data α d) Unit Unit (LinearParams α d K) Unit Unit where
  rows x := x.n
  initParams r _ := (init, r)
  newOptimiser _ _ := ()
  infer θ _ x := ⟨x.n, Nets.linearInfer x.val θ.W θ.b⟩
  affinity _ _ := some ()
  gemini := gem
  epoch _ _ s := (training s.1, s.2)

/-- `MLPModel._infer` / `SparseMLPModel._infer`: `retain` only decides whether `self.H_` is stored -/
def mlpFamily {d h : Nat} (init : MlpParams α d h K) (training : MlpParams α d h K → MlpParams α d h K)
    (gem : Mat α K → Unit → α) : Family α K (Data α d) Unit Unit (MlpParams α d h K) Unit Unit where
  rows x := x.n
  initParams r _ := (init, r)
  newOptimiser _ _ := ()
  infer θ _ x :=
    match θ.Ws with
    | none => ⟨x.n, Nets.mlpInfer x.val θ.W1 θ.b1 θ.W2 θ.b2⟩
    | some Ws => ⟨x.n, Nets.sparseMlpInfer x.val θ.W1 θ.b1 θ.W2 θ.b2 Ws⟩
  affinity _ _ := some ()
  gemini := gem
  epoch _ _ s := (training s.1, s.2)

end GemVerif.Model.Api
