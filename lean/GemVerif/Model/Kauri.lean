/-
  Executable model of KAURI: `compute_all_splits` (control skeleton; the gain formulas are the
  regenerated `Gen.Kauri.*`), the sorted scan of `find_best_split`, `gemini_objective`
  (gemclus/tree/_utils.pyx), and `Kauri.fit`'s loop, `Tree._add_child`, `Tree.predict` and
  `print_kauri_tree` (gemclus/tree/kauri.py).  No Mathlib.
-/
import GemVerif.Num
import GemVerif.Gen.KauriGains

namespace GemVerif.Model.Kauri
open GemVerif RealLike

variable {α : Type} [RealLike α]

local instance (priority := low) : Inhabited α := ⟨0⟩

/-- `Split` of `_utils.pyx` -/
structure Split (α : Type) where
  gain : α
  leaf : Int
  left : Int
  right : Int
  feature : Int
  threshold : α

/-- `Split(0, -1, -1, -1, -1, 0, False)` -/
def Split.init : Split α := ⟨0, -1, -1, -1, -1, 0⟩

/-- gains that may be `-np.inf`: `none` is `-inf` -/
abbrev NegInf (α : Type) := Option α

/-- `x >= o` -/
def geN (x : α) (o : NegInf α) : Bool := match o with | none => true | some y => le y x
/-- `a + b` -/
def addN (a b : NegInf α) : NegInf α := match a, b with | some x, some y => some (x + y) | _, _ => none
/-- `a > b` -/
def gtN (a b : NegInf α) : Bool :=
  match a, b with
  | some x, some y => lt y x
  | some _, none => true
  | none, _ => false

/-- everything `compute_all_splits` reads about the candidate (leaf, feature, threshold) -/
structure Cand (α : Type) where
  sl_square : α
  sr_square : α
  leaf_square : α
  sl_clusters : Nat → α
  sr_clusters : Nat → α
  cluster_sizes : Nat → Nat
  gammaDiag : Nat → α          -- gamma[c, c]
  omega_k_feat : α             -- omega[k, feature_id] (read by the double-star formula of some source versions)
  n_leaf : Nat
  n_clusters : Nat
  K_max : Nat
  k : Nat
  leaf_id : Nat
  split_size : Nat
  feature_id : Nat
  threshold : α

/-- call a generated formula with the stocks of candidate `c` and other cluster `p` -/
@[inline] def Cand.app (c : Cand α)
    (f : α → α → α → α → α → α → α → α → α → α → α → α → α → α → α) (p : Nat) : α :=
  f c.sl_square c.sr_square c.leaf_square (nat c.n_leaf) (nat c.split_size) (nat (c.cluster_sizes c.k))
    (nat (c.cluster_sizes p)) (c.gammaDiag c.k) (c.gammaDiag p) (c.sl_clusters c.k) (c.sr_clusters c.k)
    (c.sl_clusters p) (c.sr_clusters p) c.omega_k_feat

def Split.set (b : Split α) (c : Cand α) (g : α) (l r : Nat) : Split α :=
  { gain := g, leaf := c.leaf_id, left := l, right := r, feature := c.feature_id, threshold := c.threshold }

/-- state of the top-2 tracking inside the `k_prime` loop -/
structure Top2 (α : Type) where
  topGL : NegInf α := none
  secGL : NegInf α := none
  topKL : Int := -1
  secKL : Int := -1
  topGR : NegInf α := none
  secGR : NegInf α := none
  topKR : Int := -1
  secKR : Int := -1

/-- one iteration of `for k_prime in range(n_clusters)` (after the `k == k_prime` test) -/
def switchStep (c : Cand α) (st : Top2 α × Split α) (p : Nat) : Top2 α × Split α :=
  if c.k = p then st else
  let (t, best) := st
  let ls := c.app Gen.Kauri.leftSwitch p
  let rs := c.app Gen.Kauri.rightSwitch p
  let t :=
    if geN ls t.topGL then { t with topGL := some ls, secGL := t.topGL, topKL := p, secKL := t.topKL }
    else if geN ls t.secGL then { t with secGL := some ls, secKL := p }
    else t
  let t :=
    if geN rs t.topGR then { t with topGR := some rs, secGR := t.topGR, topKR := p, secKR := t.topKR }
    else if geN rs t.secGR then { t with secGR := some rs, secKR := p }
    else t
  let best :=
    if le best.gain ls || le best.gain rs then
      if lt rs ls then best.set c ls p c.k else best.set c rs c.k p
    else best
  (t, best)

/-- `compute_all_splits`: returns the updated running best -/
def computeAllSplits (best : Split α) (c : Cand α) : Split α :=
  let csk := c.cluster_sizes c.k
  -- double star
  let best :=
    if c.n_clusters + 1 < c.K_max && c.n_leaf != csk then
      let g := c.app Gen.Kauri.doubleStar c.k
      if lt best.gain g then best.set c g c.n_clusters (c.n_clusters + 1) else best
    else best
  -- single star
  let best :=
    if c.n_clusters < c.K_max then
      let l := c.app Gen.Kauri.leftStar c.k
      let r := c.app Gen.Kauri.rightStar c.k
      if lt best.gain l || lt best.gain r then
        if lt r l then best.set c l c.n_clusters c.k else best.set c r c.k c.n_clusters
      else best
    else best
  -- switch and reallocation
  if c.n_clusters ≥ 2 then
    let (t, best) := (List.range c.n_clusters).foldl (switchStep c) (({} : Top2 α), best)
    if c.n_clusters ≥ 3 && c.n_leaf != csk then
      let corr := c.app Gen.Kauri.corrective c.k
      let (ref, kl, kr) : NegInf α × Int × Int :=
        if t.topKL != t.topKR then (addN t.topGL t.topGR, t.topKL, t.topKR)
        else if gtN (addN t.topGL t.secGR) (addN t.topGR t.secGL) then (addN t.topGL t.secGR, t.topKL, t.secKR)
        else (addN t.topGR t.secGL, t.secKL, t.topKR)
      match ref with
      | some r =>
        if lt best.gain (r + corr) then
          { gain := r + corr, leaf := c.leaf_id, left := kl, right := kr, feature := c.feature_id,
            threshold := c.threshold }
        else best
      | none => best
    else best
  else best

/-! ### tree state as `find_best_split` sees it -/

/-- `leafOf[i]` = leaf of sample `i` (the matrix `Z`), `clusterOf[l]` = cluster of leaf `l` (the matrix `Y`) -/
structure Assign where
  n : Nat
  leafOf : Array Nat
  clusterOf : Array Nat

def Assign.samplesOfLeaf (a : Assign) (l : Nat) : List Nat :=
  (List.range a.n).filter fun i => a.leafOf[i]! == l

def Assign.clusterOfSample (a : Assign) (i : Nat) : Nat := a.clusterOf[a.leafOf[i]!]!

def Assign.samplesOfCluster (a : Assign) (nLeaves c : Nat) : List Nat :=
  (List.range a.n).filter fun i => a.leafOf[i]! < nLeaves && a.clusterOfSample i == c

def sumL (l : List α) : α := l.foldl (· + ·) 0

/-- σ(A × B) -/
def stock (κ : Nat → Nat → α) (A B : List Nat) : α := sumL (A.map fun i => sumL (B.map fun j => κ i j))

/-- insertion of `(value, index)` pairs, stable, by value: the order `np.argsort` produces up to ties -/
def insertBy (le' : α → α → Bool) (x : α × Nat) : List (α × Nat) → List (α × Nat)
  | [] => [x]
  | y :: ys => if le' y.1 x.1 then y :: insertBy le' x ys else x :: y :: ys

def sortBy (le' : α → α → Bool) (l : List (α × Nat)) : List (α × Nat) := l.foldl (fun acc x => insertBy le' x acc) []

/-- accumulators of the sorted scan -/
structure Scan (α : Type) where
  sl_square : α
  sr_square : α
  sl_clusters : Array α
  sr_clusters : Array α
  best : Split α

/-- `find_best_split` -/
def findBestSplit (κ : Nat → Nat → α) (X : Nat → Nat → α) (toExplore : List Nat) (a : Assign)
    (nClusters K_max nLeaves minLeaf : Nat) (features : List Nat) : Split α :=
  let clusterSamples : Array (List Nat) := Array.ofFn fun c : Fin nClusters => a.samplesOfCluster nLeaves c.val
  -- omega[c, i] = σ(C_c × {i})
  let omega : Array (Array α) := clusterSamples.map fun cs => Array.ofFn fun i : Fin a.n => sumL (cs.map fun j => κ j i.val)
  let gammaDiag : Array α := Array.ofFn fun c : Fin nClusters => sumL ((clusterSamples[c.val]!).map fun i => (omega[c.val]!)[i]!)
  let sizes : Array Nat := clusterSamples.map List.length
  toExplore.foldl (fun best j =>
    let leaf := a.samplesOfLeaf j
    let k := a.clusterOf[j]!
    let nLeaf := leaf.length
    let leafSq : α := stock κ leaf leaf
    let srC0 : Array α := Array.ofFn fun c : Fin nClusters => sumL (leaf.map fun i => (omega[c.val]!)[i]!)
    features.foldl (fun best f =>
      let nu : Array Nat := ((sortBy (fun x y => le x y) (leaf.map fun i => (X i f, i))).map (·.2)).toArray
      let init : Scan α := ⟨0, leafSq, Array.replicate nClusters 0, srC0, best⟩
      let fin := (List.range (nLeaf - 1)).foldl (fun (s : Scan α) l =>
        let i := nu[l]!
        let alpha := sumL ((List.range l).map fun l' => κ i nu[l']!)
        let beta := sumL ((List.range (nLeaf - 1 - l)).map fun d => κ i nu[l + 1 + d]!)
        let sl := s.sl_square + (nat 2 * alpha + κ i i)
        let sr := s.sr_square - (nat 2 * beta + κ i i)
        let slc := Array.ofFn fun c : Fin nClusters => s.sl_clusters[c.val]! + (omega[c.val]!)[i]!
        let src := Array.ofFn fun c : Fin nClusters => s.sr_clusters[c.val]! - (omega[c.val]!)[i]!
        let s' : Scan α := ⟨sl, sr, slc, src, s.best⟩
        if l + 1 < minLeaf || l + minLeaf + 1 > nLeaf then s'
        else if beq (X i f) (X nu[l + 1]! f) then s'
        else
          let c : Cand α := {
            sl_square := sl, sr_square := sr, leaf_square := leafSq,
            sl_clusters := fun c => slc[c]!, sr_clusters := fun c => src[c]!,
            cluster_sizes := fun c => sizes[c]!, gammaDiag := fun c => gammaDiag[c]!,
            omega_k_feat := (omega[k]!)[f]!,
            n_leaf := nLeaf, n_clusters := nClusters, K_max := K_max, k := k, leaf_id := j,
            split_size := l + 1, feature_id := f, threshold := X i f }
          { s' with best := computeAllSplits s'.best c }) init
      fin.best) best) Split.init

/-- `gemini_objective(y_pred, kernel)`: Σ over the distinct labels of σ(C²)/|C| -/
def objective (κ : Nat → Nat → α) (labels : List Nat) : α :=
  let vals := labels.eraseDups
  sumL (vals.map fun v =>
    let C := (List.range labels.length).filter fun i => labels[i]! == v
    stock κ C C / nat C.length)

/-! ### the tree and the fit loop (`gemclus/tree/kauri.py`) -/

structure Tree (α : Type) where
  left : Array Int := #[-1]
  right : Array Int := #[-1]
  target : Array Int := #[0]
  thr : Array (Option α) := #[none]
  feat : Array (Option Int) := #[none]
  gains : Array α
  depths : Array Nat := #[0]
  nNodes : Nat := 1

def Tree.init : Tree α := { gains := #[0] }

/-- `Tree._add_child` -/
def Tree.addChild (t : Tree α) (father : Nat) (s : Split α) : Tree α :=
  let d := t.depths[father]! + 1
  { left := (t.left.set! father t.nNodes).push (-1) |>.push (-1),
    right := (t.right.set! father (t.nNodes + 1)).push (-1) |>.push (-1),
    thr := (t.thr.set! father (some s.threshold)).push none |>.push none,
    feat := (t.feat.set! father (some s.feature)).push none |>.push none,
    gains := (t.gains.set! father s.gain).push 0 |>.push 0,
    depths := t.depths.push d |>.push d,
    target := t.target.push s.left |>.push s.right,
    nNodes := t.nNodes + 2 }

/-- `Tree.predict` for one row `x` (the numpy code routes every row independently) -/
def Tree.route (t : Tree α) (x : Nat → α) : Nat → Nat → Int
  | 0, node => t.target[node]!
  | fuel + 1, node =>
    if t.left[node]! == -1 then t.target[node]!
    else
      let f := ((t.feat[node]!).getD 0).toNat
      match t.thr[node]! with
      | some th => if le (x f) th then t.route x fuel (t.left[node]!).toNat else t.route x fuel (t.right[node]!).toNat
      | none => t.target[node]!

def rep (s : String) (n : Nat) : String := String.join (List.replicate n s)

/-- `print_kauri_tree.print_node`: the lines printed for the subtree of `node`.  `showThr` renders a threshold as
    Python's f-string does, `name f` is `feature_names[f]` or the default `X[:, f]`. -/
def Tree.printNode (t : Tree α) (showThr : α → String) (name : Int → String) : Nat → Nat → List String
  | 0, _ => []
  | fuel + 1, node =>
    let pre := rep "| " (t.depths[node]!)
    if t.left[node]! == -1 then
      [pre ++ s!"Node {node}", pre ++ " " ++ s!"Cluster: {t.target[node]!}"]
    else
      let f := (t.feat[node]!).getD 0
      let th := match t.thr[node]! with
        | some x => showThr x
        | none => "None"
      [pre ++ s!"Node {node}", pre ++ "|=" ++ s!"{name f} <= {th}"]
        ++ t.printNode showThr name fuel (t.left[node]!).toNat
        ++ [pre ++ "|=" ++ s!"{name f} > {th}"]
        ++ t.printNode showThr name fuel (t.right[node]!).toNat

structure Params where
  maxClusters : Nat
  maxDepth : Nat      -- already resolved (`len(X)` when None)
  minSplit : Nat
  minLeaf : Nat
  maxLeaves : Nat     -- already resolved (`n` when None)

structure FitState (α : Type) where
  asg : Assign
  tree : Tree α
  nLeaves : Nat := 1
  nClusters : Nat := 1
  toExplore : List Nat := [0]
  leaf2node : Array Nat
  lastGainPos : Bool := true     -- `last_gain > 0` (initially `inf`)
  steps : Nat := 0

def FitState.init (n : Nat) (p : Params) : FitState α :=
  { asg := ⟨n, Array.replicate n 0, Array.replicate p.maxLeaves 0⟩, tree := Tree.init,
    toExplore := if n ≥ p.minSplit then [0] else [],
    leaf2node := Array.replicate p.maxLeaves 0 }

/-- the loop guard `last_gain > 0 and n_leaves < max_leaves and len(leaves_to_explore) != 0` -/
def FitState.continues (s : FitState α) (p : Params) : Bool :=
  s.lastGainPos && s.nLeaves < p.maxLeaves && !s.toExplore.isEmpty

/-- body of the `if last_gain > 0:` branch: apply the chosen split -/
def applySplit (X : Nat → Nat → α) (p : Params) (s : FitState α) (b : Split α) : FitState α :=
  let leaf := b.leaf.toNat
  let f := b.feature.toNat
  let members := s.asg.samplesOfLeaf leaf
  let rightIdx := members.filter fun i => !(le (X i f) b.threshold)
  let leftCount := members.length - rightIdx.length
  let leafOf := rightIdx.foldl (fun (acc : Array Nat) i => acc.set! i s.nLeaves) s.asg.leafOf
  let clusterOf := (s.asg.clusterOf.set! leaf b.left.toNat).set! s.nLeaves b.right.toNat
  let father := s.leaf2node[leaf]!
  let tree := s.tree.addChild father b
  let parentDepth := tree.depths[father]!
  let l2n := (s.leaf2node.set! leaf (2 * s.nLeaves - 1)).set! s.nLeaves (2 * s.nLeaves)
  let expl := s.toExplore.erase leaf
  let expl :=
    if parentDepth + 1 < p.maxDepth then
      let e1 := if leftCount ≥ p.minSplit then expl ++ [leaf] else expl
      if rightIdx.length ≥ p.minSplit then e1 ++ [s.nLeaves] else e1
    else expl
  let nc : Int := s.nClusters
  let nClusters :=
    if b.left ≥ nc && b.right ≥ nc then s.nClusters + 2
    else if b.left ≥ nc || b.right ≥ nc then s.nClusters + 1 else s.nClusters
  { s with asg := { s.asg with leafOf := leafOf, clusterOf := clusterOf }, tree := tree, nLeaves := s.nLeaves + 1,
           nClusters := nClusters, toExplore := expl, leaf2node := l2n }

/-- one iteration of the `while` loop, given the feature subset drawn by the RNG -/
def fitStep (κ : Nat → Nat → α) (X : Nat → Nat → α) (p : Params) (s : FitState α) (features : List Nat) :
    FitState α :=
  if !s.continues p then s else
  let b := findBestSplit κ X s.toExplore s.asg s.nClusters p.maxClusters s.nLeaves p.minLeaf features
  let s := { s with steps := s.steps + 1 }
  if lt 0 b.gain then { applySplit X p s b with lastGainPos := true }
  else { s with lastGainPos := false }

/-- the whole loop over the recorded RNG draws -/
def fit (κ : Nat → Nat → α) (X : Nat → Nat → α) (n : Nat) (p : Params) (draws : List (List Nat)) : FitState α :=
  draws.foldl (fitStep κ X p) (FitState.init n p)

/-- `labels_ = (Y @ Z).argmax(0)` -/
def FitState.labels (s : FitState α) : List Nat := (List.range s.asg.n).map s.asg.clusterOfSample
/-- `leaves_ = Z.argmax(0)` -/
def FitState.leaves (s : FitState α) : List Nat := (List.range s.asg.n).map fun i => s.asg.leafOf[i]!

end GemVerif.Model.Kauri
