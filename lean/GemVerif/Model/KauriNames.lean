/-
  Executable model of `print_kauri_tree(kauri_tree, feature_names=None)` of gemclus/tree/kauri.py INCLUDING the
  validation of `feature_names` (fix 781feb7) and the name lookup `feature_names[feature]` as Python performs it:

      def print_kauri_tree(kauri_tree, feature_names=None):
          if not isinstance(kauri_tree, Kauri): raise ValueError(...)           # not modelled: the argument of the
          check_is_fitted(kauri_tree)                                           #   model IS the fitted `tree_`
          if feature_names is not None:
              if np.ndim(feature_names) != 1:
                  raise ValueError("The feature names must be a one-dimensional array-like indexed by feature")
              used_features = [x for x in kauri_tree.tree_.features if x is not None]
              if len(used_features) > 0 and len(feature_names) <= max(used_features):
                  raise ValueError("Fewer feature names than used features by the tree were provided")

          def print_node(node_id):
              current_depth = kauri_tree.tree_.depths[node_id]
              print("| " * current_depth, f"Node {node_id}", sep="")
              left_child = kauri_tree.tree_.children_left[node_id]
              right_child = kauri_tree.tree_.children_right[node_id]
              if left_child == -1:
                  print("| " * current_depth, f"Cluster: {kauri_tree.tree_.target[node_id]}")
                  return
              feature = kauri_tree.tree_.features[node_id]
              threshold = kauri_tree.tree_.thresholds[node_id]
              if feature_names is not None:
                  feature_name = feature_names[feature]
              else:
                  feature_name = f"X[:, {feature}]"
              print("| " * current_depth, "|=", f"{feature_name} <= {threshold}", sep="")
              print_node(left_child)
              print("| " * current_depth, "|=", f"{feature_name} > {threshold}", sep="")
              print_node(right_child)

          print_node(0)

  `Tree.printNode` (Model/Kauri.lean) is the same printer with a TOTAL name function; here the lookup is partial, the
  printer stops at the first exception and the outcome records what had reached stdout by then.

  What the function sees of a `feature_names` that is not `None` is `NamesArg`: `np.ndim` of it and, for a
  one-dimensional argument, its entries (`len(feature_names)` = number of entries; an entry is used through
  `f"{entry}"` only, so it is carried as the string it formats to).  For another `ndim` the entries are never looked at
  (the call ends at the first `raise`; `len()` of a 0-d array, which would be a TypeError, is never evaluated).

  Deviations, all outside what `fit` can build (they need an internal node whose feature is `None`): numpy would answer
  `names[None]` with a 2-d array where this model reports a failed lookup.  No Mathlib.
-/
import GemVerif.Model.Kauri

namespace GemVerif.Model.Kauri
open GemVerif RealLike

variable {α : Type} [RealLike α]

/-- a `feature_names` argument that is not `None`, as far as `print_kauri_tree` looks at it -/
structure NamesArg where
  /-- `np.ndim(feature_names)` -/
  ndim : Nat
  /-- the entries of a one-dimensional argument, each as `f"{entry}"`; `len(feature_names)` is `items.size` -/
  items : Array String

/-- the exceptions that can end the call -/
inductive PrintError where
  /-- `ValueError("The feature names must be a one-dimensional array-like indexed by feature")` -/
  | notOneDim
  /-- `ValueError("Fewer feature names than used features by the tree were provided")` -/
  | tooFew
  /-- `feature_names[feature]` raised: IndexError (index outside `-len .. len-1`), TypeError (`feature` is `None`) -/
  | lookup
  /-- recursion that does not end (`fuel` exhausted: RecursionError on a cyclic tree) -/
  | recursion
  deriving DecidableEq, Repr

/-- `[x for x in kauri_tree.tree_.features if x is not None]` -/
def usedFeatures (t : Tree α) : List Int := t.feat.toList.filterMap id

/-- Python's `max` of a non-empty list of ints (never called on an empty list: guarded by `len(...) > 0`) -/
def pyMax : List Int → Int
  | [] => 0
  | x :: xs => xs.foldl Max.max x

/-- the `if feature_names is not None:` block: `.ok ()` when no `raise` is reached -/
def validateNames (t : Tree α) : Option NamesArg → Except PrintError Unit
  | none => .ok ()
  | some a =>
    if a.ndim != 1 then .error .notOneDim
    else
      let used := usedFeatures t
      if used.length > 0 && (a.items.size : Int) ≤ pyMax used then .error .tooFew
      else .ok ()

/-- `seq[i]` for a Python list / tuple / 1-d array and an int `i`: negative indices count from the end -/
def pyIndex (a : Array String) (i : Int) : Option String :=
  if 0 ≤ i then a[i.toNat]?
  else if -(a.size : Int) ≤ i then a[((a.size : Int) + i).toNat]?
  else none

/-- `feature_name`: `feature_names[feature]`, or the default `f"X[:, {feature}]"` -/
def nameAt : Option NamesArg → Option Int → Option String
  | none, some f => some s!"X[:, {f}]"
  | none, none => some "X[:, None]"
  | some a, some f => pyIndex a.items f
  | some _, none => none

/-- how a call ends: the lines that reached stdout, and the exception if there was one -/
structure Outcome where
  printed : List String
  error : Option PrintError
  deriving DecidableEq, Repr

/-- `print_node(node_id)`, stopping at the first exception -/
def Tree.printNodeNamed (t : Tree α) (showThr : α → String) (names : Option NamesArg) : Nat → Nat → Outcome
  | 0, _ => ⟨[], some .recursion⟩
  | fuel + 1, node =>
    let pre := rep "| " (t.depths[node]!)
    let l0 := pre ++ s!"Node {node}"
    if t.left[node]! == -1 then
      ⟨[l0, pre ++ " " ++ s!"Cluster: {t.target[node]!}"], none⟩
    else
      let th := match t.thr[node]! with
        | some x => showThr x
        | none => "None"
      match nameAt names (t.feat[node]!) with
      | none => ⟨[l0], some .lookup⟩
      | some nm =>
        let L := t.printNodeNamed showThr names fuel (t.left[node]!).toNat
        let out1 := [l0, pre ++ "|=" ++ s!"{nm} <= {th}"] ++ L.printed
        match L.error with
        | some e => ⟨out1, some e⟩
        | none =>
          let R := t.printNodeNamed showThr names fuel (t.right[node]!).toNat
          ⟨out1 ++ [pre ++ "|=" ++ s!"{nm} > {th}"] ++ R.printed, R.error⟩

/-- the whole call: validation first, then `print_node(0)` -/
def printKauriTree (t : Tree α) (showThr : α → String) (names : Option NamesArg) (fuel : Nat) : Outcome :=
  match validateNames t names with
  | .error e => ⟨[], some e⟩
  | .ok () => t.printNodeNamed showThr names fuel 0

end GemVerif.Model.Kauri
