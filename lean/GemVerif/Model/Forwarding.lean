/-
  Forwarding model (C11): how an estimator's hyperparameters become the GEMINI it trains with, and how that
  GEMINI (or `KernelRIM` / `Kauri`) turns `X`, `y` into the affinity matrix.

  The Python side is translated (translator/forwarding.py, python `ast`) into DATA — decision trees over a
  handful of tests and expressions (`Gen/Forwarding.lean`).  This file holds the data types and the
  interpreter, written after the Python semantics of the statements the translator accepts:

    * `AffTree`  — body of `MMDGEMINI.compute_affinity`, `WassersteinGEMINI.compute_affinity`,
                   `_FDivergence.compute_affinity`, `KernelRIM._compute_kernel`, `Kauri._compute_kernel`;
    * `GemTree`  — body of `get_gemini` (`DiscriminativeModel` and the overrides);
    * `CtorDesc` — a GEMINI constructor: parameters, defaults, `@constraint_params`, attribute bindings
                   (through the `super().__init__` chain), the class whose `evaluate` runs;
    * `EstDesc`  — an estimator: constructor parameters/defaults, attribute bindings through the
                   `super().__init__` chain (in particular what reaches `self.gemini`), its `get_gemini` tree and
                   (KernelRIM, Kauri) its own kernel tree.

  Nothing numeric happens here: the pairwise functions of scikit-learn and user callables are opaque
  operations `Ops M`; instantiated with the free term algebra `Sym` every question is decidable, and for an
  arbitrary `Ops M` the dispatch theorems of `Props/C11.lean` hold generically.  No Mathlib.
-/

namespace GemVerif.Model.Forwarding

/-- a keyword dictionary (`kernel_params`): key ↦ value token, in insertion order -/
abbrev Params := List (String × String)

/-- Python values that hyperparameters relevant to forwarding take (GEMINI instances excluded) -/
inductive Atom
  | none
  | bool (b : Bool)
  | str (s : String)
  | fn (id : String)          -- a callable, identified by a token
  | dict (p : Params)
  | tok (repr : String)       -- any other constant (numbers), by its `repr`
  deriving DecidableEq, Repr, Inhabited

/-- a constructed GEMINI object: the class that was called, the class whose `evaluate` runs, the attributes -/
structure GeminiObj where
  ctor : String
  evalCls : String
  attrs : List (String × Atom)
  deriving DecidableEq, Repr, Inhabited

inductive Val
  | atom (a : Atom)
  | gem (g : GeminiObj)
  deriving DecidableEq, Repr, Inhabited

abbrev Hyper := List (String × Val)

def lookup {α : Type} (l : List (String × α)) (k : String) : Option α :=
  match l with
  | [] => none
  | (k', v) :: t => if k' = k then some v else lookup t k

/-! ### affinity trees -/

/-- positional data arguments: `X`, `self.input_data_` -/
inductive Arg | X | train
  deriving DecidableEq, Repr

inductive MetricSrc
  | attr (a : String)      -- `metric=self.a`
  | const (s : String)     -- `metric="linear"`
  deriving DecidableEq, Repr

inductive ParamSrc
  | noParams               -- no `**` argument
  | orEmpty (a : String)   -- `**(dict() if self.a is None else self.a)`
  deriving DecidableEq, Repr

inductive AffExpr
  | y                                                        -- the caller's matrix
  | noneVal                                                  -- `None`
  | callAttr (a : String) (args : List Arg)                  -- `self.a(args…)`
  | pairwise (fn : String) (args : List Arg) (metric : MetricSrc) (params : ParamSrc)
  deriving DecidableEq, Repr

inductive AffTest
  | isCallable (a : String)        -- `callable(self.a)`
  | attrEq (a : String) (s : String) -- `self.a == "s"`
  | yIsNone                        -- `y is None`
  | attrNotNone (a : String)       -- `self.a is not None`
  deriving DecidableEq, Repr

inductive AffTree
  | ite (t : AffTest) (thn els : AffTree)
  | ret (e : AffExpr)
  | raise (exc : String)
  | warn (k : AffTree)             -- `warnings.warn(...)` then continue
  deriving DecidableEq, Repr

/-- the metric handed to scikit-learn: a name, or (Kauri only) a callable applied per pair of rows -/
inductive MetricVal
  | name (s : String)
  | fn (f : String)
  deriving DecidableEq, Repr

/-- opaque operations: scikit-learn's `pairwise_kernels` / `pairwise_distances` and user callables -/
structure Ops (M : Type) where
  pairwise : String → List Arg → MetricVal → Params → M
  call : String → List Arg → M

/-- outcome of one affinity computation -/
structure Out (M : Type) where
  warnings : Nat
  res : Except String (Option M)

instance {α : Type} [DecidableEq α] : DecidableEq (Except String α) := fun a b =>
  match a, b with
  | .ok x, .ok y => if h : x = y then isTrue (by rw [h]) else isFalse (fun e => h (by cases e; rfl))
  | .error x, .error y => if h : x = y then isTrue (by rw [h]) else isFalse (fun e => h (by cases e; rfl))
  | .ok _, .error _ => isFalse (fun e => by cases e)
  | .error _, .ok _ => isFalse (fun e => by cases e)

instance {M : Type} [DecidableEq M] : DecidableEq (Out M) := fun a b =>
  if h : a.warnings = b.warnings ∧ a.res = b.res then
    isTrue (by cases a; cases b; simp_all)
  else isFalse (fun e => h (by rw [e]; exact ⟨rfl, rfl⟩))

def evalTest {M : Type} (attrs : List (String × Atom)) (y : Option M) : AffTest → Except String Bool
  | .isCallable a => match lookup attrs a with
      | some (.fn _) => .ok true
      | some _ => .ok false
      | none => .error "AttributeError"
  | .attrEq a s => match lookup attrs a with
      | some (.str s') => .ok (s' == s)
      | some _ => .ok false
      | none => .error "AttributeError"
  | .yIsNone => .ok y.isNone
  | .attrNotNone a => match lookup attrs a with
      | some .none => .ok false
      | some _ => .ok true
      | none => .error "AttributeError"

def evalExpr {M : Type} (ops : Ops M) (attrs : List (String × Atom)) (y : Option M) :
    AffExpr → Except String (Option M)
  | .y => .ok y
  | .noneVal => .ok none
  | .callAttr a args => match lookup attrs a with
      | some (.fn f) => .ok (some (ops.call f args))
      | some _ => .error "TypeError"          -- calling a non-callable
      | none => .error "AttributeError"
  | .pairwise fn args metric params =>
      let m : Except String MetricVal := match metric with
        | .const s => .ok (.name s)
        | .attr a => match lookup attrs a with
            | some (.str s) => .ok (.name s)
            | some (.fn f) => .ok (.fn f)
            | some _ => .error "ValueError"    -- scikit-learn rejects any other metric value
            | none => .error "AttributeError"
      let p : Except String Params := match params with
        | .noParams => .ok []
        | .orEmpty a => match lookup attrs a with
            | some .none => .ok []
            | some (.dict d) => .ok d
            | some _ => .error "TypeError"     -- `**` of a non-mapping
            | none => .error "AttributeError"
      match m, p with
      | .ok m, .ok p => .ok (some (ops.pairwise fn args m p))
      | .error e, _ => .error e
      | _, .error e => .error e

/-- run a translated `compute_affinity` / `_compute_kernel` body on an object with attributes `attrs` -/
def runAff {M : Type} (ops : Ops M) (attrs : List (String × Atom)) (y : Option M) : AffTree → Out M
  | .ite t a b => match evalTest attrs y t with
      | .ok true => runAff ops attrs y a
      | .ok false => runAff ops attrs y b
      | .error e => ⟨0, .error e⟩
  | .ret e => ⟨0, evalExpr ops attrs y e⟩
  | .raise exc => ⟨0, .error exc⟩
  | .warn k => let o := runAff ops attrs y k; ⟨o.warnings + 1, o.res⟩

/-! ### GEMINI constructors -/

/-- one alternative of a `@constraint_params` entry -/
inductive Constraint
  | isBool | isDict | isNone | isCallable
  | strOptions (opts : List String)
  | other                      -- intervals etc.: satisfied by number tokens only
  deriving DecidableEq, Repr

def Constraint.sat : Constraint → Atom → Bool
  | .isBool, .bool _ => true
  | .isDict, .dict _ => true
  | .isNone, .none => true
  | .isCallable, .fn _ => true
  | .strOptions o, .str s => o.contains s
  | .other, .tok _ => true
  | _, _ => false

/-- where an attribute's value comes from, in terms of the class's own constructor parameters -/
inductive Src
  | param (p : String)
  | const (a : Atom)
  deriving DecidableEq, Repr

structure CtorDesc where
  name : String
  params : List (String × Atom)                    -- constructor parameters with defaults
  /-- every `@constraint_params` test met along the `super().__init__` chain, in execution order:
      ("Cls.param", value in terms of this class's own parameters, accepted alternatives) -/
  checks : List (String × Src × List Constraint)
  binds : List (String × Src)                      -- attribute ↦ source, through the super chain
  evalCls : String                                 -- MRO owner of `evaluate`
  affinityOwner : String                           -- MRO owner of `compute_affinity`
  affinity : AffTree                               -- its translated body
  deriving Repr

def srcVal (env : List (String × Atom)) : Src → Except String Atom
  | .const a => .ok a
  | .param p => match lookup env p with
      | some v => .ok v
      | none => .error "TypeError"

/-- effective arguments: defaults overridden by the keywords given; an unknown keyword is a `TypeError` -/
def bindArgs (params : List (String × Atom)) (kws : List (String × Atom)) : Except String (List (String × Atom)) :=
  if kws.all (fun kw => (lookup params kw.1).isSome) then
    .ok (params.map fun (p, d) => (p, (lookup kws p).getD d))
  else .error "TypeError"

def runChecks (env : List (String × Atom)) : List (String × Src × List Constraint) → Except String Unit
  | [] => .ok ()
  | (_, s, alts) :: t =>
      match srcVal env s with
      | .error e => .error e
      | .ok v => if alts.any (·.sat v) then runChecks env t else .error "InvalidParameterError"

def bindAttrs (env : List (String × Atom)) : List (String × Src) → Except String (List (String × Atom))
  | [] => .ok []
  | (a, s) :: t => match srcVal env s, bindAttrs env t with
      | .ok v, .ok r => .ok ((a, v) :: r)
      | .error e, _ => .error e
      | _, .error e => .error e

/-- `Cls(**kws)` -/
def construct (c : CtorDesc) (kws : List (String × Atom)) : Except String GeminiObj :=
  match bindArgs c.params kws with
  | .error e => .error e
  | .ok env =>
    match runChecks env c.checks with
    | .error e => .error e
    | .ok () =>
      match bindAttrs env c.binds with
      | .error e => .error e
      | .ok attrs => .ok ⟨c.name, c.evalCls, attrs⟩

/-! ### `get_gemini` -/

inductive GemTest
  | attrIsNone (a : String)       -- `self.a is None`
  | attrIsStr (a : String)        -- `isinstance(self.a, str)`
  deriving DecidableEq, Repr

inductive GemExpr
  | registryConst (s : String)                       -- `_str_to_gemini("s")`
  | registryAttr (a : String)                        -- `_str_to_gemini(self.a)`
  | attr (a : String)                                -- `self.a`
  | build (cls : String) (kws : List (String × String))  -- `Cls(kw=self.a, …)`
  deriving DecidableEq, Repr

inductive GemTree
  | ite (t : GemTest) (thn els : GemTree)
  | ret (e : GemExpr)
  deriving DecidableEq, Repr

structure EstDesc where
  name : String
  params : List (String × Atom)          -- constructor parameters with defaults
  binds : List (String × Src)            -- attribute ↦ source through the `super().__init__` chain
  getGeminiOwner : String                -- class that defines the `get_gemini` in force ("" = none: Kauri)
  getGemini : Option GemTree
  kernelOwner : String
  ownKernel : Option AffTree             -- `_compute_kernel` (KernelRIM, Kauri)
  deriving Repr

/-- the translated world the evaluator runs in -/
structure Tables where
  ctors : List CtorDesc
  /-- `_str_to_gemini`: name ↦ constructor call -/
  registry : List (String × String × List (String × Atom))
  available : List String

def findCtor (T : Tables) (cls : String) : Option CtorDesc := T.ctors.find? (·.name == cls)

/-- the estimator's attributes after `__init__(**hyper)`.  A GEMINI instance can only be the value of an
    attribute bound to a parameter. -/
def estAttrs (e : EstDesc) (h : Hyper) : Except String (List (String × Val)) :=
  if h.all (fun kw => (lookup e.params kw.1).isSome) then
    .ok (e.binds.filterMap fun (a, s) =>
      match s with
      | .const c => some (a, Val.atom c)
      | .param p => match lookup h p with
          | some v => some (a, v)
          | none => (lookup e.params p).map fun d => (a, Val.atom d))
  else .error "TypeError"

def strToGemini (T : Tables) (s : String) : Except String GeminiObj :=
  if ¬ T.available.contains s then .error "ValueError" else
  match lookup T.registry s with
  | none => .error "returns None"      -- a name in AVAILABLE_GEMINIS without a branch
  | some (cls, kws) => match findCtor T cls with
      | none => .error "NameError"
      | some c => construct c kws

def evalGemExpr (T : Tables) (attrs : List (String × Val)) : GemExpr → Except String GeminiObj
  | .registryConst s => strToGemini T s
  | .registryAttr a => match lookup attrs a with
      | some (.atom (.str s)) => strToGemini T s
      | some _ => .error "TypeError"
      | none => .error "AttributeError"
  | .attr a => match lookup attrs a with
      | some (.gem g) => .ok g
      | some (.atom _) => .error "not a GEMINI"
      | none => .error "AttributeError"
  | .build cls kws =>
      let args : Except String (List (String × Atom)) := kws.foldr (fun (kw, a) acc =>
        match acc, lookup attrs a with
        | .ok r, some (.atom v) => .ok ((kw, v) :: r)
        | .ok _, some (.gem _) => .error "InvalidParameterError"
        | .ok _, none => .error "AttributeError"
        | .error e, _ => .error e) (.ok [])
      match args, findCtor T cls with
      | .error e, _ => .error e
      | _, none => .error "NameError"
      | .ok kws, some c => construct c kws

def runGem (T : Tables) (attrs : List (String × Val)) : GemTree → Except String GeminiObj
  | .ite t a b =>
      let c : Except String Bool := match t with
        | .attrIsNone x => match lookup attrs x with
            | some (.atom .none) => .ok true
            | some _ => .ok false
            | none => .error "AttributeError"
        | .attrIsStr x => match lookup attrs x with
            | some (.atom (.str _)) => .ok true
            | some _ => .ok false
            | none => .error "AttributeError"
      match c with
      | .ok true => runGem T attrs a
      | .ok false => runGem T attrs b
      | .error e => .error e
  | .ret e => evalGemExpr T attrs e

/-- `Est(**hyper).get_gemini()` -/
def resolveGemini (T : Tables) (e : EstDesc) (h : Hyper) : Except String GeminiObj :=
  match e.getGemini, estAttrs e h with
  | none, _ => .error "AttributeError"
  | _, .error x => .error x
  | some t, .ok attrs => runGem T attrs t

/-- `g.compute_affinity(X, y)` for a constructed GEMINI -/
def computeAffinity {M : Type} (T : Tables) (ops : Ops M) (g : GeminiObj) (y : Option M) : Out M :=
  match findCtor T g.ctor with
  | none => ⟨0, .error "NameError"⟩
  | some c => runAff ops g.attrs y c.affinity

/-- the affinity `Est(**hyper)` trains / scores with: `get_gemini().compute_affinity(X, y)` -/
def estAffinity {M : Type} (T : Tables) (ops : Ops M) (e : EstDesc) (h : Hyper) (y : Option M) : Out M :=
  match resolveGemini T e h with
  | .error x => ⟨0, .error x⟩
  | .ok g => computeAffinity T ops g y

/-- `Est(**hyper)._compute_kernel(X[, y])` (KernelRIM, Kauri); GEMINI instances are not attributes it reads -/
def estOwnKernel {M : Type} (ops : Ops M) (e : EstDesc) (h : Hyper) (y : Option M) : Out M :=
  match e.ownKernel, estAttrs e h with
  | none, _ => ⟨0, .error "AttributeError"⟩
  | _, .error x => ⟨0, .error x⟩
  | some t, .ok attrs =>
      runAff ops (attrs.filterMap fun (a, v) => match v with | .atom x => some (a, x) | .gem _ => none) y t

/-! ### the free interpretation -/

/-- symbolic affinities: which operation produced the matrix, from what -/
inductive Sym
  | user                                                              -- the caller's `y`
  | pairwise (fn : String) (args : List Arg) (metric : MetricVal) (params : Params)
  | call (f : String) (args : List Arg)
  deriving DecidableEq, Repr

def symOps : Ops Sym := ⟨Sym.pairwise, Sym.call⟩

/-! ### documented descriptors (what `Props/C11.lean` compares against) -/

/-- the affinity a GEMINI object describes, read off its attributes the way the docstrings word it -/
inductive AffKind
  | notNeeded
  | named (s : String) (p : Option Params)
  | callable (f : String) (p : Option Params)
  | precomputed (p : Option Params)
  deriving DecidableEq, Repr

structure GeminiDoc where
  cls : String          -- class whose `evaluate` runs
  ovo : Bool
  aff : AffKind
  eps : String
  deriving DecidableEq, Repr

def optParams : Option Atom → Option (Option Params)
  | some .none => some none
  | some (.dict d) => some (some d)
  | _ => none

/-- project a constructed object onto (class, ovo, affinity description, epsilon); `none` when an attribute
    is missing or of an unexpected type -/
def describe (g : GeminiObj) : Option GeminiDoc :=
  match lookup g.attrs "ovo", lookup g.attrs "epsilon" with
  | some (.bool ovo), some (.tok eps) =>
    let mk (k : Option Atom) (p : Option Atom) : Option AffKind :=
      match k, optParams p with
      | some (.str s), some p => some (if s = "precomputed" then .precomputed p else .named s p)
      | some (.fn f), some p => some (.callable f p)
      | _, _ => none
    let aff : Option AffKind :=
      match lookup g.attrs "kernel", lookup g.attrs "metric" with
      | some k, none => mk (some k) (lookup g.attrs "kernel_params")
      | none, some m => mk (some m) (lookup g.attrs "metric_params")
      | none, none => some .notNeeded
      | some _, some _ => none
    aff.map fun a => ⟨g.evalCls, ovo, a, eps⟩
  | _, _ => none

end GemVerif.Model.Forwarding
