/-
  Executable model of the prediction side of the gradient-trained estimators
  (gemclus/_base_gemini.py `predict_proba` / `predict`, gemclus/linear/_linear_geminis.py `KernelRIM`).

    KernelRIM._compute_kernel(X)  = pairwise_kernels(X, self.input_data_, metric=self.base_kernel, **params)
                                    (or `self.base_kernel(X, self.input_data_)` for a callable)
    KernelRIM.fit(X)              : input_data_ = X; training_kernel = _compute_kernel(X);
                                    super().fit(training_kernel)  … labels_ = _infer(training_kernel).argmax(1)
    KernelRIM.predict_proba(X)    = _infer(_compute_kernel(X))            (`_infer` is `LinearModel._infer`)
    DiscriminativeModel.predict(X)= np.argmax(self.predict_proba(X), axis=1)

  scikit-learn's `pairwise_kernels` is represented by a parameter `pairwise : row → row → α`: entry `(i, j)` of the
  kernel matrix is a function of row `i` of the first argument and row `j` of the second one only (true of every metric
  of `PAIRWISE_KERNEL_FUNCTIONS`: `gamma=None` defaults to `1 / n_features`, a function of the number of COLUMNS; a
  user-supplied callable is assumed to be of that form too).  `dot` is the `linear` metric.  No Mathlib.
-/
import GemVerif.Model.Nets

namespace GemVerif.Model.KernelRim
open GemVerif RealLike Model.Nets

variable {α : Type} [RealLike α]

/-- `KernelRIM._compute_kernel(X)`: the kernel between the rows of `X` and the stored training points `input_data_` -/
def computeKernel {m n d : Nat} (pairwise : (Fin d → α) → (Fin d → α) → α) (Xnew : Fin m → Fin d → α)
    (Xtrain : Fin n → Fin d → α) : Fin m → Fin n → α :=
  fun i j => pairwise (Xnew i) (Xtrain j)

/-- `training_kernel = self._compute_kernel(X)` inside `KernelRIM.fit` (after `self.input_data_ = X`) -/
def trainingKernel {n d : Nat} (pairwise : (Fin d → α) → (Fin d → α) → α) (Xtrain : Fin n → Fin d → α) :
    Fin n → Fin n → α :=
  computeKernel pairwise Xtrain Xtrain

/-- `KernelRIM.predict_proba(X)`: `self._infer(self._compute_kernel(X))`, `W : n × K` has one row per training point -/
def kernelRimInfer {m n d K : Nat} (pairwise : (Fin d → α) → (Fin d → α) → α) (Xnew : Fin m → Fin d → α)
    (Xtrain : Fin n → Fin d → α) (W : Fin n → Fin K → α) (b : Fin K → α) : Fin m → Fin K → α :=
  linearInfer (fun i j => pairwise (Xnew i) (Xtrain j)) W b

/-- the `linear` metric of `pairwise_kernels`: `X @ Y.T`, entry by entry -/
def dot {d : Nat} (x y : Fin d → α) : α := sumFin fun j => x j * y j

/-- `np.argmax` of a vector given as a list: position of the first maximal entry -/
def argmaxList (l : List α) : Nat :=
  (l.zipIdx.foldl (fun (best : Option (α × Nat)) (x : α × Nat) =>
    match best with
    | none => some x
    | some (bv, bi) => if lt bv x.1 then some x else some (bv, bi)) none).map (·.2) |>.getD 0

/-- `np.argmax(P, axis=1)`: `predict` from `predict_proba`, and `labels_ = self._infer(X).argmax(1)` at the end of `fit` -/
def predictLabels {n K : Nat} (P : Fin n → Fin K → α) : Fin n → Nat :=
  fun i => argmaxRow (P i)

/-- `labels_` as `KernelRIM.fit` stores them: `self._infer(training_kernel).argmax(1)` with the final weights -/
def kernelRimFitLabels {n d K : Nat} (pairwise : (Fin d → α) → (Fin d → α) → α) (Xtrain : Fin n → Fin d → α)
    (W : Fin n → Fin K → α) (b : Fin K → α) : Fin n → Nat :=
  predictLabels (linearInfer (trainingKernel pairwise Xtrain) W b)

/-- `KernelRIM.predict(X)` -/
def kernelRimPredict {m n d K : Nat} (pairwise : (Fin d → α) → (Fin d → α) → α) (Xnew : Fin m → Fin d → α)
    (Xtrain : Fin n → Fin d → α) (W : Fin n → Fin K → α) (b : Fin K → α) : Fin m → Nat :=
  predictLabels (kernelRimInfer pairwise Xnew Xtrain W b)

end GemVerif.Model.KernelRim
