/-
  Executable model of hyperparameter validation (property C16).  No Mathlib.

  * `Constraint` — the constraint forms that occur in GemClus' `_parameter_constraints` tables and
    `@constraint_params` decorators, `Value` — representative classes of Python values,
    `satisfies` — scikit-learn's `is_satisfied_by` for each form
    (`sklearn/utils/_param_validation.py`: `Interval`, `StrOptions`, `_InstancesOf`, `_NoneConstraint`, `_Callables`,
    `_RandomStates`, `_ArrayLikes`, `_Booleans`; gemclus/_constraints.py::check_constraint builds the same objects).
  * the Python primitives onto which the translator maps `check_groups` (`pyMin`, `pyMax`, `pySetEq`, …) and the
    hand-written line-by-line model `checkGroups` of gemclus/sparse/_base_sparse.py::check_groups
    (the translated unit is `Gen.Constraints.checkGroups`; `Props/C16` proves they are the same function).

  The tables themselves are generated (`Gen/Constraints.lean`).
-/
namespace GemVerif.Model.Constraints

/-! ### Constraints -/

inductive NumType | integral | real
  deriving DecidableEq, Repr

/-- a bound as written in the source: `None`, a number, `np.inf`, `-np.inf` -/
inductive Bound
  | unbounded
  | fin (q : Rat)
  | posInf
  | negInf
  deriving DecidableEq, Repr

inductive Closed | left | right | both | neither
  deriving DecidableEq, Repr

inductive Constraint
  /-- `Interval(Integral|Real, lo, hi, closed=…)` -/
  | interval (t : NumType) (lo hi : Bound) (closed : Closed)
  /-- `StrOptions(set)`: the set is the union of the named sets and the literal strings -/
  | strOptions (sets : List String) (lits : List String)
  /-- a type used as a constraint (`bool`, `dict`, `list`, `np.ndarray`, `_GEMINI`, `Kauri`, …): `isinstance` -/
  | instanceOf (cls : String)
  /-- `None` -/
  | none
  /-- the builtin `callable` -/
  | callable
  /-- `"random_state"` -/
  | randomState
  /-- `"array-like"` -/
  | arrayLike
  /-- `"boolean"`: `bool` or `numpy.bool_` -/
  | booleans
  deriving DecidableEq, Repr

/-! ### Values -/

/-- Representative classes of Python values.  Each class is realised by several concrete Python objects in the
    correspondence run (e.g. `int 2` by `2` and `numpy.int64(2)`, `float q` by a Python float, `numpy.float64` and
    `numpy.float32`). -/
inductive Value
  /-- `int` / numpy integer (a `numbers.Integral` that is not a `bool`) -/
  | int (n : Int)
  /-- finite `float` / numpy floating with exactly this value -/
  | float (q : Rat)
  | posInf
  | negInf
  | nan
  /-- Python `bool` (a subclass of `int`: `numbers.Integral`, value 0 / 1) -/
  | bool (b : Bool)
  /-- `numpy.bool_` (not registered in the `numbers` tower, not a `bool`) -/
  | npBool (b : Bool)
  | str (s : String)
  | none
  /-- a plain function / lambda -/
  | func
  | dict
  | list
  | tuple
  /-- an `ndarray` with at least one dimension -/
  | ndarray
  /-- a `numpy.random.RandomState` instance -/
  | randomState
  /-- an instance of the GEMINI class `cls` (callable: `_GEMINI.__call__`) -/
  | gemini (cls : String)
  /-- an instance of the estimator class `cls` (not callable, no `__len__`) -/
  | estimator (cls : String)
  /-- any other object (`object()`) -/
  | object
  deriving DecidableEq, Repr

/-- extended rationals, for interval arithmetic with `±inf` -/
inductive Ext
  | negInf
  | fin (q : Rat)
  | posInf
  deriving DecidableEq, Repr

def Ext.lt : Ext → Ext → Bool
  | .negInf, .negInf => false
  | .negInf, _ => true
  | .fin _, .negInf => false
  | .fin a, .fin b => decide (a < b)
  | .fin _, .posInf => true
  | .posInf, _ => false

def Ext.le (a b : Ext) : Bool := a.lt b || a == b

/-- the number a value denotes, `none` for non-numbers and for NaN -/
def Value.num? : Value → Option Ext
  | .int n => some (.fin n)
  | .float q => some (.fin q)
  | .posInf => some .posInf
  | .negInf => some .negInf
  | .bool b => some (.fin (if b then 1 else 0))
  | _ => Option.none

/-- `isinstance(v, numbers.Integral)` -/
def Value.isIntegral : Value → Bool
  | .int _ | .bool _ => true
  | _ => false

/-- `isinstance(v, numbers.Real)` -/
def Value.isReal : Value → Bool
  | .int _ | .bool _ | .float _ | .posInf | .negInf | .nan => true
  | _ => false

/-- what the validator reads for its `left` / `right` attributes -/
def Bound.lower : Bound → Ext
  | .unbounded => .negInf           -- `left = -np.inf if self.left is None else self.left`
  | .fin q => .fin q
  | .posInf => .posInf
  | .negInf => .negInf

def Bound.upper : Bound → Ext
  | .unbounded => .posInf           -- `right = np.inf if self.right is None else self.right`
  | .fin q => .fin q
  | .posInf => .posInf
  | .negInf => .negInf

/-- `Interval.__contains__` (after the NaN test): `left_cmp = lt if closed in (left, both) else le` rejects,
    `right_cmp = gt if closed in (right, both) else ge` rejects. -/
def inInterval (lo hi : Bound) (c : Closed) (x : Ext) : Bool :=
  let leftClosed := c == .left || c == .both
  let rightClosed := c == .right || c == .both
  let rejectLeft := if leftClosed then x.lt lo.lower else x.le lo.lower
  let rejectRight := if rightClosed then hi.upper.lt x else hi.upper.le x
  !rejectLeft && !rejectRight

/-- environment: members of the named string sets, ancestors of every class -/
structure Env where
  sets : List (String × List String)
  ancestors : List (String × List String)

def Env.members (env : Env) (name : String) : List String :=
  (env.sets.lookup name).getD []

def Env.isSubclass (env : Env) (cls parent : String) : Bool :=
  ((env.ancestors.lookup cls).getD [cls]).contains parent

/-- `isinstance(v, cls)` for the types that occur as constraints -/
def isInstance (env : Env) (cls : String) : Value → Bool
  | .bool _ => cls == "bool" || cls == "int"
  | .int _ => cls == "int"
  | .float _ | .posInf | .negInf | .nan => cls == "float"
  | .str _ => cls == "str"
  | .dict => cls == "dict"
  | .list => cls == "list"
  | .tuple => cls == "tuple"
  | .ndarray => cls == "ndarray"
  | .randomState => cls == "RandomState"
  | .gemini c => env.isSubclass c cls
  | .estimator c => env.isSubclass c cls
  | _ => false

/-- `_is_arraylike_not_scalar`: has `__len__` / `shape` / `__array__` and is not a numpy scalar (strings are scalars) -/
def isArrayLike : Value → Bool
  | .list | .tuple | .ndarray | .dict => true
  | _ => false

/-- builtin `callable(v)` -/
def isCallable : Value → Bool
  | .func | .gemini _ => true
  | _ => false

/-- `Interval.is_satisfied_by(v)`: `isinstance(v, type)` and `v in interval` (NaN is in no interval) -/
def satisfiesInterval (t : NumType) (lo hi : Bound) (c : Closed) (v : Value) : Bool :=
  (match t with | .integral => v.isIntegral | .real => v.isReal) &&
  (match v.num? with
   | some x => inInterval lo hi c x
   | Option.none => false)

/-- `constraint.is_satisfied_by(v)` -/
def satisfies (env : Env) : Constraint → Value → Bool
  | .interval t lo hi c, v => satisfiesInterval t lo hi c v
  | .strOptions sets lits, .str s => (sets.any fun nm => (env.members nm).contains s) || lits.contains s
  | .strOptions _ _, _ => false
  | .instanceOf cls, v => isInstance env cls v
  | .none, v => v == Value.none
  | .callable, v => isCallable v
  | .randomState, v =>
    -- `_RandomStates`: [Interval(Integral, 0, 2**32 - 1, closed="both"), np.random.RandomState, None]
    satisfiesInterval .integral (.fin 0) (.fin 4294967295) .both v || isInstance env "RandomState" v || v == Value.none
  | .arrayLike, v => isArrayLike v
  | .booleans, v => (match v with | .bool _ | .npBool _ => true | _ => false)

/-- `validate_parameter_constraints` for one parameter: no table entry = not validated; otherwise any constraint -/
def accepts (env : Env) (row : Option (List Constraint)) (v : Value) : Bool :=
  match row with
  | Option.none => true
  | some cs => cs.any fun c => satisfies env c v

/-- members of the scikit-learn constants used by `StrOptions` (scikit-learn 1.9; trusted, compared with the
    installed scikit-learn on every run of the check) -/
def sklearnSets : List (String × List String) := [
  ("PAIRWISE_KERNEL_FUNCTIONS",
    ["additive_chi2", "chi2", "linear", "polynomial", "poly", "rbf", "laplacian", "sigmoid", "cosine"]),
  ("PAIRWISE_DISTANCE_FUNCTIONS",
    ["cityblock", "cosine", "euclidean", "haversine", "l2", "l1", "manhattan", "precomputed", "nan_euclidean"]),
  ("PAIRED_DISTANCES", ["cosine", "euclidean", "l2", "l1", "manhattan", "cityblock"])]

/-! ### Python primitives used by the translation of `check_groups` -/

inductive Cmp | lt | le | gt | ge | eq | ne
  deriving DecidableEq, Repr

def Cmp.eval : Cmp → Int → Int → Bool
  | .lt, a, b => decide (a < b)
  | .le, a, b => decide (a ≤ b)
  | .gt, a, b => decide (a > b)
  | .ge, a, b => decide (a ≥ b)
  | .eq, a, b => decide (a = b)
  | .ne, a, b => decide (a ≠ b)

/-- `min(xs)`; the empty list raises `ValueError: min() arg is an empty sequence` -/
def pyMin : List Int → Except String Int
  | [] => throw "ValueError:min() arg is"
  | x :: xs => pure (xs.foldl min x)

/-- `max(xs)` -/
def pyMax : List Int → Except String Int
  | [] => throw "ValueError:max() arg is"
  | x :: xs => pure (xs.foldl max x)

def pyLen (xs : List Int) : Int := xs.length

/-- `range(n)` -/
def pyRange (n : Nat) : List Int := (List.range n).map Int.ofNat

/-- `x in xs` -/
def pyIn (x : Int) (xs : List Int) : Bool := xs.contains x

/-- the distinct elements of `xs` (one representative each; the order is irrelevant for `len(set(xs))`) -/
def pyDistinct : List Int → List Int
  | [] => []
  | x :: xs => if xs.contains x then pyDistinct xs else x :: pyDistinct xs

/-- `len(set(xs))` -/
def pySetLen (xs : List Int) : Int := (pyDistinct xs).length

/-- `set(xs) == set(ys)` -/
def pySetEq (xs ys : List Int) : Bool := xs.all (fun x => ys.contains x) && ys.all (fun y => xs.contains y)

/-- `a <op> b`, left operand first -/
def pyCmp (op : Cmp) (a b : Except String Int) : Except String Bool := do
  let x ← a
  let y ← b
  pure (op.eval x y)

/-- `a or b` (short-circuit) -/
def pyOr (a : Except String Bool) (b : Unit → Except String Bool) : Except String Bool := do
  if (← a) then pure true else b ()

/-- `a and b` (short-circuit) -/
def pyAnd (a : Except String Bool) (b : Unit → Except String Bool) : Except String Bool := do
  if (← a) then b () else pure false

def pyNot (a : Except String Bool) : Except String Bool := do
  pure (!(← a))

/-- `if c: A else: B` where evaluating `c` may raise -/
def pyIf {α : Type} (c : Except String Bool) (t e : Unit → Except String α) : Except String α := do
  if (← c) then t () else e ()

/-! ### `check_groups`, written after the source line by line -/

abbrev Groups := List (List Int)

def checkGroups (groups : Option Groups) (n_features_in : Nat) : Except String (Option Groups) :=
  match groups with
  | Option.none => pure Option.none                               -- else: return None
  | some groups =>                                                -- if groups is not None:
    -- all_indices = [];  for g in groups: all_indices.extend(list(g))
    let all_indices : List Int := groups.foldl (fun acc g => acc ++ g) []
    -- if not all(isinstance(i, Integral) and not isinstance(i, bool) for i in all_indices): raise ValueError
    --   (a type guard on the elements: it never fires on a list of integers, the only inputs of this model; wrongly
    --    typed contents are exercised on the real code by the harness)
    -- if len(all_indices) > 0 and (min(all_indices) < 0 or max(all_indices) >= n_features_in): raise ValueError
    pyIf (pyAnd (pyCmp .gt (pure (pyLen all_indices)) (pure (0 : Int))) fun _ =>
            (pyOr (pyCmp .lt (pyMin all_indices) (pure (0 : Int))) fun _ =>
              (pyCmp .ge (pyMax all_indices) (pure (n_features_in : Int)))))
      (fun _ => throw "ValueError:Indices passed to") fun _ =>
    -- if len(all_indices) == n_features_in:
    pyIf (pyCmp .eq (pure (pyLen all_indices)) (pure (n_features_in : Int))) (fun _ =>
      -- if set(all_indices) != set(range(n_features_in)): raise ValueError
      pyIf (pure (!(pySetEq all_indices (pyRange n_features_in)))) (fun _ => throw "ValueError:Groups must form") fun _ =>
      -- return groups
      pure (some groups))
    fun _ =>
      -- if len(set(all_indices)) != len(all_indices): raise ValueError
      pyIf (pyCmp .ne (pure (pySetLen all_indices)) (pure (pyLen all_indices)))
        (fun _ => throw "ValueError:There cannot be") fun _ =>
      -- new_groups = groups + [[i] for i in range(n_features_in) if i not in all_indices];  return new_groups
      pure (some (groups ++ (((pyRange n_features_in).filter fun i => !(pyIn i all_indices)).map fun i => [i])))

end GemVerif.Model.Constraints
