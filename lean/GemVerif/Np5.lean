/-
  Fifth part of the untyped NumPy of GemVerif/Np.lean: what translator/douglas.py needs to transcribe the Douglas tree
  (gemclus/tree/douglas.py: `_leaf_binning`, `_merge_leaf`, `_infer`, `_compute_grads`) into Gen/Douglas.lean.

  1-D ARRAYS are stored `(1, m)` as in Np2.lean; INTEGER ARRAYS (`np.argsort`, the retained `order`s) are `Arr Nat`.
  SORTING POSITIONS.  `np.argsort(v)` is modelled by a STABLE insertion sort of the positions `0 … m-1` by their values
  (`argsortBy`): positions of equal values come in increasing order.  NumPy's default `argsort` (introsort) promises
  nothing about ties; for pairwise distinct values every algorithm gives this answer.  Nothing is claimed about `NaN`s.
  `np.linspace(a, b, num)` follows NumPy's formula (`arange(num) * step + a` with `step = (b - a) / (num - 1)`, the last
  entry overwritten by `b`; `arange(1) * (b - a) + a` for `num = 1`).
  `np.einsum("ij,ik->ijk", A, B)` is `Arr3.einsumIjIk` (one product per entry, the common axis broadcasts as NumPy's);
  `T.reshape((-1, np.prod(T.shape[1:])))` is `Arr3.flattenTail` (NumPy raises when the `-1` cannot be inferred: an
  empty tail).
  `functools.reduce(f, L)` without initial value is `Arr.reduce1` (`TypeError` on an empty list).
  N-D ARRAYS.  `A.reshape((-1, r₁, …, r_k))` of a 2-D `(n, L)` array is an `ArrN`: the SAME flat row-major `(n, L)` storage plus
  the list of trailing axes `[r₁, …, r_k]`.  It is flagged unless `r₁ ⋯ r_k = L ≠ 0` (for another product NumPy would either
  raise or produce a different leading axis, which is not supported here).  The coordinate along trailing axis `i` of the flat
  index `l` is `digitN rs i l = (l / (r_{i+1} ⋯ r_k)) % r_i` (C order).  `S * T` (`ArrN.mul`) is supported for two such arrays of
  identical shape; `T.sum(axes)` over ALL trailing axes but the `i`-th is `ArrN.sumExcept T i`: the `(n, r_i)` array of the
  marginals, each the sum, in flat-index order, of the entries whose `i`-th coordinate is `j`.

  `np.arange(a, b, dtype=np.float64)` for non-negative integers `a`, `b` is `Arr.arangeFrom a b` (NumPy stores `a`, `a + 1` and fills the
  rest with `first + j * (second - first)`), `np.arange(n)` the integer array `arangeN n`.
  `a[:, :, np.newaxis] * b[:, np.newaxis, :]` needs nothing new: `Arr3.mul (Arr3.expandLast a) (Arr3.expandMid b)` of Np2.lean.
  UNINITIALISED MEMORY.  `np.empty_like(v)` is `Arr.emptyLike v` / `emptyLikeN I`: the shape of the argument, entries given by the
  OPAQUE constants `uninit` / `uninitN` — no proof can unfold them, so whatever is proved about a program that allocates with
  `np.empty_like` holds for every content of the fresh memory.  The scatter `g[I] = v` (1-D `g`, 1-D integer `I`, 1-D `v` with
  `len(v) = len(I)`; a `v` that would have to be broadcast is flagged) is `Arr.setAt g I v`: the assignments `g[I[k]] = v[k]` are
  made for `k = 0, 1, …` in this order, so a repeated index keeps the LAST value and a position no index names keeps its old
  entry; an index `≥ len(g)` raises IndexError.

  No Mathlib.
-/
import GemVerif.Np4

namespace GemVerif.Np
open GemVerif RealLike

/-- insert position `i` in front of the first position `j` with `le i j` -/
def insertIdxBy (le : Nat → Nat → Bool) (i : Nat) : List Nat → List Nat
  | [] => [i]
  | j :: js => if le i j then i :: j :: js else j :: insertIdxBy le i js

/-- the positions `0 … n-1` sorted by `le` (stable insertion sort: `n-1` is inserted first, `0` last) -/
def argsortBy (le : Nat → Nat → Bool) (n : Nat) : List Nat := (List.range n).foldr (insertIdxBy le) []

/-- coordinate along trailing axis `i` of the flat index `l` in the C-order reshape to the axes `rs` -/
def digitN (rs : List Nat) (i l : Nat) : Nat := (l / (rs.drop (i + 1)).prod) % rs.getD i 1

/-- the integer-array value standing for "NumPy / Python raised" -/
def errN : Arr Nat := { r := 0, c := 0, get := fun _ _ => 0, ok := false }

/-- `L[i]` on a Python list of integer arrays (`errN` stands for IndexError) -/
def nthN (L : List (Arr Nat)) (i : Nat) : Arr Nat := L.getD i errN

/-- an integer array among the returned values of a method (see `Arr.checked`) -/
def checkedN (flags : Bool) (I : Arr Nat) : Arr Nat := { I with ok := I.ok && flags }

/-- what freshly allocated integer memory holds (`np.empty_like` of an integer array): unspecified — opaque to every proof -/
opaque uninitN (i j : Nat) : Nat := 0

/-- `np.empty_like(I)` of an integer array -/
def emptyLikeN (I : Arr Nat) : Arr Nat := { r := I.r, c := I.c, get := uninitN, ok := I.ok }

/-- `np.arange(n)`: the integer array `0, …, n-1` -/
def arangeN (n : Nat) : Arr Nat := { r := 1, c := n, get := fun _ j => j }

/-- entry `j` after the assignments `g[I 0] = v 0; …; g[I (m-1)] = v (m-1)`, made in this order, when it was `old` before:
    the value written by the LAST `k < m` with `I k = j`, `old` when there is none -/
def scatterGet {β : Type} (I : Nat → Nat) (v : Nat → β) (old : β) (j : Nat) : Nat → β
  | 0 => old
  | m + 1 => if I m = j then v m else scatterGet I v old j m

/-- `g[I] = v` for 1-D `g`, `v` (floats or integers) and a 1-D integer array `I`: the array `g` holds afterwards -/
def Arr.setAt {β : Type} (g : Arr β) (I : Arr Nat) (v : Arr β) : Arr β :=
  { r := 1, c := g.c, get := fun _ j => scatterGet (I.get 0) (v.get 0) (g.get 0 j) j I.c,
    ok := g.ok && I.ok && v.ok && g.r == 1 && I.r == 1 && v.r == 1 && v.c == I.c &&
      (List.range I.c).all fun k => decide (I.get 0 k < g.c) }

/-- `np.argsort(I)` of a 1-D integer array -/
def argsortN (I : Arr Nat) : Arr Nat :=
  { r := 1, c := I.c, get := fun _ j => (argsortBy (fun a b => decide (I.get 0 a ≤ I.get 0 b)) I.c).getD j 0,
    ok := I.ok && I.r == 1 }

namespace Arr
variable {α : Type} [RealLike α]

/-- a 1-D array from a list -/
def ofList (l : List α) : Arr α := { r := 1, c := l.length, get := fun _ j => l.getD j 0 }

/-- `np.linspace(a, b, num)` (endpoint included): a 1-D array -/
def linspace (a b : α) (num : Nat) : Arr α :=
  { r := 1, c := num,
    get := fun _ j =>
      if num = 1 then nat j * (b - a) + a
      else if j + 1 = num then b
      else nat j * ((b - a) / nat (num - 1)) + a }

/-- `np.arange(a, b, dtype=np.float64)` for non-negative integers: `b - a` entries; NumPy stores `a` and `a + 1` (converted to
    doubles) and fills entry `j ≥ 2` with `first + j * (second - first)` -/
def arangeFrom (a b : Nat) : Arr α :=
  { r := 1, c := b - a,
    get := fun _ j => if j = 0 then nat a else if j = 1 then nat (a + 1) else nat a + nat j * (nat (a + 1) - nat a) }

/-- what freshly allocated float memory holds (`np.empty_like`): unspecified — opaque to every proof -/
opaque uninit {α : Type} [RealLike α] (i j : Nat) : α := 0

/-- `np.empty_like(v)` -/
def emptyLike (v : Arr α) : Arr α := { r := v.r, c := v.c, get := uninit, ok := v.ok }

/-- `np.argsort(v)` of a 1-D float array: an integer array -/
def argsort1 (v : Arr α) : Arr Nat :=
  { r := 1, c := v.c, get := fun _ j => (argsortBy (fun a b => le (v.get 0 a) (v.get 0 b)) v.c).getD j 0,
    ok := v.ok && v.r == 1 }

/-- `v[I]` for a 1-D array `v` and a 1-D integer array `I` (fancy indexing: a copy); an index `≥ len(v)` raises IndexError -/
def take1 (v : Arr α) (I : Arr Nat) : Arr α :=
  { r := 1, c := I.c, get := fun _ j => v.get 0 (I.get 0 j),
    ok := v.ok && I.ok && v.r == 1 && I.r == 1 && (List.range I.c).all fun j => decide (I.get 0 j < v.c) }

/-- `v[k:]` of a 1-D array (a view) -/
def drop1 (v : Arr α) (k : Nat) : Arr α :=
  { r := 1, c := v.c - k, get := fun _ j => v.get 0 (j + k), ok := v.ok && v.r == 1 }

/-- `v[:-k]` of a 1-D array for a literal `k ≥ 1` (a view) -/
def dropLast1 (v : Arr α) (k : Nat) : Arr α :=
  { r := 1, c := v.c - k, get := fun _ j => v.get 0 j, ok := v.ok && v.r == 1 }

/-- `A[:, a:b]` of a 2-D array (a view): Python clips the bounds to the number of columns -/
def colSlice (A : Arr α) (a b : Nat) : Arr α :=
  { r := A.r, c := Nat.min b A.c - Nat.min a A.c, get := fun i j => A.get i (a + j), ok := A.ok }

/-- `functools.reduce(f, L)` (no initial value): TypeError on an empty list -/
def reduce1 (f : Arr α → Arr α → Arr α) : List (Arr α) → Arr α
  | [] => err
  | a :: l => l.foldl f a

end Arr

namespace Arr3
variable {α : Type} [RealLike α]

/-- `np.einsum("ij,ik->ijk", A, B)`: `out[i, j, k] = A[i, j] * B[i, k]` (the common axis broadcasts a size 1) -/
def einsumIjIk (A B : Arr α) : Arr3 α :=
  { d0 := bdim A.r B.r, d1 := A.c, d2 := B.c, get := fun i j k => A.get (bidx A.r i) j * B.get (bidx B.r i) k,
    ok := A.ok && B.ok && bok A.r B.r }

/-- `T.reshape((-1, np.prod(T.shape[1:])))`: shape `(d0, d1 * d2)`, row-major; NumPy cannot infer the `-1` when `d1 * d2 = 0` -/
def flattenTail (T : Arr3 α) : Arr α :=
  { r := T.d0, c := T.d1 * T.d2, get := fun i p => T.get i (p / T.d2) (p % T.d2), ok := T.ok && T.d1 * T.d2 != 0 }

end Arr3

/-- an N-d array `(n, r₁, …, r_k)` stored flat: `flat` is `(n, r₁ ⋯ r_k)` row-major, `axes = [r₁, …, r_k]` -/
structure ArrN (α : Type) where
  flat : Arr α
  axes : List Nat
  ok : Bool := true

namespace ArrN
variable {α : Type} [RealLike α]

/-- `A.reshape((-1, r₁, …, r_k))` of a 2-D array whose rows have `r₁ ⋯ r_k ≠ 0` entries (a view) -/
def reshapeOf (A : Arr α) (axes : List Nat) : ArrN α :=
  { flat := A, axes := axes, ok := A.ok && axes.prod == A.c && A.c != 0 }

/-- `S * T` for two N-d arrays of the same shape -/
def mul (S T : ArrN α) : ArrN α :=
  { flat := { r := S.flat.r, c := S.flat.c, get := fun i l => S.flat.get i l * T.flat.get i l },
    axes := S.axes,
    ok := S.ok && T.ok && S.axes == T.axes && S.flat.r == T.flat.r && S.flat.c == T.flat.c }

/-- `T.sum(axes)` where `axes` are all the trailing axes but the `i`-th: shape `(n, r_i)` -/
def sumExcept (T : ArrN α) (i : Nat) : Arr α :=
  { r := T.flat.r, c := T.axes.getD i 0,
    get := fun r j => sumTo T.flat.c fun l => if digitN T.axes i l = j then T.flat.get r l else 0,
    ok := T.ok && decide (i < T.axes.length) }

end ArrN
end GemVerif.Np
