/-
  Fourth part of the untyped NumPy of GemVerif/Np.lean: what translator/wass.py needs to transcribe
  `WassersteinGEMINI.evaluate` (gemclus/gemini/_geomdistances.py) into Gen/Wass.lean — Python `for` loops over `range`,
  integer indexing, column updates, Python lists of the `log` dictionaries of POT, and POT's `ot.emd2` itself, which is a
  PARAMETER of the generated definitions.

  LOOPS.  `for k in range(K):` becomes `(List.range K).foldl (fun st k => …) init`, `for k2 in range(k1 + 1, K):` becomes a
  fold over `pyRange (k1 + 1) K`.  The state `st` is a tuple `(ok, x₁, …, xₘ)`: `x₁ … xₘ` are the variables, bound before the
  loop, that the body writes into (`x[k] = …`, `x[a, b] = …`, `x[:, k] += …`, `x.append(…)`), `ok : Bool` is the conjunction
  of the `ok` of every array bound in the iterations done so far (an exception in ANY iteration aborts the call).
  `for a, b in itertools.combinations(range(K), 2):` IS the nested pair of loops `for a in range(K): for b in range(a + 1, K):`
  (pairs `a < b` in lexicographic order); the translator emits that.
  INTEGER INDICES are `Nat`s (loop variables: never negative, so no wrap-around); an index out of range makes `ok := false`
  (IndexError).  Reading one entry of a 1-D array gives a scalar (`at1`), which has no `ok` of its own: the translator puts
  `inb1 v k` among the flags of the enclosing block.
  `ot.emd2(a, b, M, log=True)` is `emd2 a b M : EmdR α`: the transport cost `value` and the two dual potentials
  `log["u"]`, `log["v"]` (1-D arrays), plus `ok` (POT raises on mismatching sizes).  The same `EmdR` value stands for the
  pair `(value, log)` and for the dictionary `log` alone; `EmdR.none` stands for a `None` entry of a Python list (`[None] * K`):
  subscripting it raises TypeError (`u`, `v` are `Arr.err`).
  `EmdR.ofModel emd` is the `emd2` the theorems of Props/C01WassGen.lean instantiate the parameter with: the solver
  `emd M a b : Emd α n` of Model/Gemini.lean (a function of the cost matrix and the two weight vectors) applied to the contents of
  the three arrays, which must have the shapes `(n,)`, `(n,)`, `(n, n)`.

  No Mathlib.
-/
import GemVerif.Np3
import GemVerif.Model.Gemini

namespace GemVerif.Np
open GemVerif RealLike

/-- Python's `range(a, b)` -/
def pyRange (a b : Nat) : List Nat := List.range' a (b - a)

/-- what `ot.emd2(a, b, M, log=True)` returns: the value and the dictionary `log` (entries `"u"`, `"v"`) -/
structure EmdR (α : Type) where
  value : α
  u : Arr α
  v : Arr α
  /-- `false` = POT raised (or: this is `None`) -/
  ok : Bool := true

namespace Arr
variable {α : Type} [RealLike α]

/-! ### integer indexing -/

/-- `A[k]` of a 2-D array: the 1-D array of row `k` (a view) -/
def row (A : Arr α) (k : Nat) : Arr α :=
  { r := 1, c := A.c, get := fun _ j => A.get k j, ok := A.ok && decide (k < A.r) }

/-- `A[:, k]` of a 2-D array: the 1-D array of column `k` (a view) -/
def col (A : Arr α) (k : Nat) : Arr α :=
  { r := 1, c := A.r, get := fun _ i => A.get i k, ok := A.ok && decide (k < A.c) }

/-- `v[k]` of a 1-D array: a scalar -/
def at1 (v : Arr α) (k : Nat) : α := v.get 0 k

/-- `v[k]` of a 1-D array raises no IndexError -/
def inb1 (v : Arr α) (k : Nat) : Bool := v.ok && v.r == 1 && decide (k < v.c)

/-- `v[k] = s` on a 1-D array -/
def setAt1 (v : Arr α) (k : Nat) (s : α) : Arr α :=
  { v with get := fun i j => if j = k then s else v.get i j, ok := v.ok && v.r == 1 && decide (k < v.c) }

/-- `A[a, b] = s` on a 2-D array -/
def setAt2 (A : Arr α) (a b : Nat) (s : α) : Arr α :=
  { A with get := fun i j => if i = a ∧ j = b then s else A.get i j, ok := A.ok && decide (a < A.r) && decide (b < A.c) }

/-- `A[:, k] op= …`: column `k` of the 2-D array `A` becomes the 1-D array `R` (the value of `A[:, k] op …`), which must have
    exactly the shape `(A.r,)` of the column (an in-place update does not broadcast its target) -/
def setCol (A : Arr α) (k : Nat) (R : Arr α) : Arr α :=
  { A with get := fun i j => if j = k then R.get 0 i else A.get i j,
           ok := A.ok && R.ok && R.r == 1 && R.c == A.r && decide (k < A.c) }

/-- `np.dot(a, b)` of two 1-D arrays: a 0-d array -/
def dotVec (a b : Arr α) : Arr α :=
  { r := 1, c := 1, get := fun _ _ => sumTo a.c fun l => a.get 0 l * b.get 0 l,
    ok := a.ok && b.ok && a.r == 1 && b.r == 1 && a.c == b.c }

/-- `np.vstack(L)` of a Python list of 1-D arrays of one length: the 2-D array whose rows they are; NumPy raises on an empty
    list and on differing lengths -/
def vstack (L : List (Arr α)) : Arr α :=
  { r := L.length, c := (L.headD err).c, get := fun i j => (L.getD i err).get 0 j,
    ok := !L.isEmpty && L.all fun A => A.ok && A.r == 1 && A.c == (L.headD err).c }

end Arr

namespace EmdR
variable {α : Type} [RealLike α]

/-- a `None` entry of a Python list of `log` dictionaries -/
def none : EmdR α := { value := 0, u := Arr.err, v := Arr.err, ok := false }

instance : Inhabited (EmdR α) := ⟨none⟩

/-- the result of a solver of Model/Gemini.lean as POT returns it -/
def ofEmd {n : Nat} (E : Model.Emd α n) : EmdR α :=
  { value := E.value, u := Arr.ofRow E.u, v := Arr.ofRow E.v }

/-- `ot.emd2(a, b, M, log=True)` for the solver `emd` (cost matrix, weights, weights) of Model/Gemini.lean -/
def ofModel {n : Nat} (emd : (Fin n → Fin n → α) → (Fin n → α) → (Fin n → α) → Model.Emd α n) (a b M : Arr α) : EmdR α :=
  { ofEmd (emd (fun i j => M.get i.val j.val) (fun i => a.get 0 i.val) (fun i => b.get 0 i.val)) with
    ok := a.ok && b.ok && M.ok && a.r == 1 && b.r == 1 && a.c == n && b.c == n && M.r == n && M.c == n }

/-- `L[i] = x` on a Python list (an index out of range poisons the list: IndexError) -/
def setNth (L : List (EmdR α)) (i : Nat) (x : EmdR α) : List (EmdR α) :=
  if i < L.length then L.set i x else [none]

end EmdR
end GemVerif.Np
