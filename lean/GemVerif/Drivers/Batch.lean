/-
  Line-protocol driver for the batching model (C10).  Data rows and affinity entries travel as opaque tokens
  (the hex bit patterns of the doubles): batching only moves them around, so the comparison is exact.

  Requests
    idx  <bs|None> <n> <perm: n nats>
         -> index lists of one `_batchify` call:            `i i i|i i|…`            (`-` when there is no batch)
    yield <plain|dec|cat|catdec> <bs|None> <n> <d> <hasA 0|1> <X: n*d tokens> [<A: n*n tokens>] <perm: n nats>
         -> the yielded pairs:  `X t t … A None|t t … R -|i i …` joined by ` ; `
    fit  <cat 0|1> <n> <max_iter int> <bs int|None> <perms: max(max_iter,0)*n nats (none when cat=1)>
         -> `InvalidParameterError`  |  `steps S niter N epochs i i|i i || i i|i i`
    val  <bs> <n> <d> <X: n*d tokens> <y: n*n tokens>
         -> `blocks i i|i i batches X … A … ; …`
-/
import GemVerif.DriverUtil
import GemVerif.Model.Batch

open GemVerif GemVerif.Drv GemVerif.Model.Batch

def natsOut (l : List Nat) : String := if l.isEmpty then "-" else " ".intercalate (l.map toString)

def idxOut (bl : List (List Nat)) : String := if bl.isEmpty then "-" else "|".intercalate (bl.map natsOut)

def toksOut (l : List String) : String := if l.isEmpty then "-" else " ".intercalate l

def affOut : Option (Mat String) → String
  | none => "None"
  | some M => toksOut M.flatten

def batchOut (b : Batch (List String) String) : String :=
  s!"X {toksOut b.data.flatten} A {affOut b.aff}"

def decOut (b : DecBatch (List String) String) : String :=
  s!"X {toksOut b.data.flatten} A {affOut b.aff} R {natsOut b.recorded}"

def optNat (s : String) : Option Nat := if s == "None" then none else some s.toNat!

def optInt (s : String) : Option Int := if s == "None" then none else some (parseInt s)

def readStrs (t : Toks) (k : Nat) : List String × Toks :=
  ((t.toks.extract t.pos (t.pos + k)).toList, { t with pos := t.pos + k })

/-- row-major tokens -> list of `r` rows of `c` tokens -/
def rowsOf (l : List String) (r c : Nat) : List (List String) :=
  (List.range r).map fun i => (l.drop (i * c)).take c

def step (t : Toks) : String :=
  let (op, t) := t.next
  match op with
  | "idx" =>
    let (bs, t) := t.next
    let (n, t) := t.nat
    let (perm, _) := t.nats n
    idxOut (batchify perm.toList (optNat bs))
  | "yield" =>
    let (kind, t) := t.next
    let (bs, t) := t.next
    let (n, t) := t.nat
    let (d, t) := t.nat
    let (hasA, t) := t.nat
    let (xs, t) := readStrs t (n * d)
    let (A, t) := if hasA == 1 then
        let (as, t) := readStrs t (n * n)
        (some (rowsOf as n n), t)
      else (none, t)
    let (perm, _) := t.nats n
    let X := rowsOf xs n d
    match kind with
    | "plain" => " ; ".intercalate ((batchifyData X A perm.toList (optNat bs)).map batchOut)
    | "dec" => " ; ".intercalate ((batchifyDecorated X A perm.toList (optNat bs)).map decOut)
    | "cat" => " ; ".intercalate ((batchifyCategorical X A).map batchOut)
    | "catdec" => " ; ".intercalate ((batchifyCategoricalDecorated X A).map decOut)
    | _ => "bad-kind"
  | "fit" =>
    let (cat, t) := t.nat
    let (n, t) := t.nat
    let (mi, t) := t.int
    let (bs, t) := t.next
    let k := if cat == 1 then 0 else mi.toNat
    let (ps, _) := t.nats (k * n)
    let perms : Nat → List Nat := fun i => (ps.toList.drop (i * n)).take n
    match fitRun (cat == 1) n mi (optInt bs) perms with
    | .error e => e
    | .ok tr => s!"steps {tr.steps} niter {tr.nIter} epochs {" || ".intercalate (tr.epochs.map idxOut)}"
  | "val" =>
    let (bs, t) := t.nat
    let (n, t) := t.nat
    let (d, t) := t.nat
    let (xs, t) := readStrs t (n * d)
    let (ys, _) := readStrs t (n * n)
    let X := rowsOf xs n d
    let y := rowsOf ys n n
    s!"blocks {idxOut (valBlocks n bs)} batches {" ; ".intercalate ((valBatches X y bs).map batchOut)}"
  | _ => "bad-op"

def main : IO Unit := serve step
