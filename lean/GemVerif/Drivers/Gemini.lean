/- Line-protocol driver for the GEMINI models (C01, C02, C13, C17). -/
import GemVerif.DriverUtil
import GemVerif.Model.Gemini
import GemVerif.Model.GeminiFast

open GemVerif GemVerif.Drv GemVerif.Model

/-- request: `<score|grad> <kl|tv|hellinger|chi2|mmd|wass> <ovo 0/1> n K eps P[n*K] [kappa[n*n] | emd tables]` -/
def step (t : Toks) : String :=
  let (op, t) := t.next
  let (cls, t) := t.next
  let (ovoN, t) := t.nat
  let ovo := ovoN == 1
  let (n, t) := t.nat
  let (K, t) := t.nat
  let (ε, t) := t.float
  let (Pa, t) := t.floats (n * K)
  let P : Fin n → Fin K → Float := matOf Pa n K
  let outS (x : Float) := hexOfFloat x
  let outG (g : Fin n → Fin K → Float) := matOut g
  match cls with
  | "kl" => if op == "score" then outS (klScore ε ovo P) else outG (klGrad ε ovo P)
  | "tv" => if op == "score" then outS (tvScore ε ovo P) else outG (tvGrad ε ovo P)
  | "hellinger" => if op == "score" then outS (hellingerScore ε ovo P) else outG (hellingerGrad ε ovo P)
  | "chi2" => if op == "score" then outS (chi2Score ε ovo P) else outG (chi2Grad ε ovo P)
  | "mmd" =>
    let (Ka, _) := t.floats (n * n)
    let κ : Fin n → Fin n → Float := matOf Ka n n
    -- `mmdScoreFast`/`mmdGradFast` build every table once; they equal `mmdScore`/`mmdGrad` entry for
    -- entry for every number type, `Float` included (`Props/C02Fast.lean`: `mmdScoreFast_eq`,
    -- `mmdGradFast_eq`, the latter for any `Inhabited` instance used by the look-up `Tab2.get`)
    if op == "score" then outS (mmdScoreFast ε ovo P κ)
    else
      let G : Tab2 Float n K := mmdGradFast ε ovo P κ
      outG G.get
  | "wass" =>
    -- emd tables: K*K pair entries then K uniform entries, each `value u[n] v[n]`
    let sz := 1 + 2 * n
    let (Ea, _) := t.floats ((K * K + K) * sz)
    let mk (idx : Nat) : Emd Float n :=
      { value := Ea[idx * sz]!, u := fun i => Ea[idx * sz + 1 + i.val]!, v := fun i => Ea[idx * sz + 1 + n + i.val]! }
    let pairE : Fin K → Fin K → Emd Float n := fun a b => mk (a.val * K + b.val)
    let unifE : Fin K → Emd Float n := fun k => mk (K * K + k.val)
    if op == "score" then outS (wassScoreT pairE unifE ε ovo P)
    else if op == "weights" then
      floatsOut ((List.finRange K).flatMap fun k => (List.finRange n).map fun i => wassWeights ε P k i)
    else outG (wassGradT pairE unifE ε ovo P)
  | _ => "bad-op"

def main : IO Unit := serve step
