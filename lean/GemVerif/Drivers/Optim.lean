/- Line-protocol driver for `Model/Optim.lean` (scikit-learn's SGD / Adam optimisers as GemClus drives them; C03). -/
import GemVerif.DriverUtil
import GemVerif.Model.Optim

open GemVerif GemVerif.Drv GemVerif.Model.Optim

/-- requests
  `sgd lr momentum nesterov(0/1) w0 T g₁…g_T`        → `w₁ v₁ … w_T v_T`
  `adam lr0 b1 b2 eps w0 T g₁…g_T`                    → `w₁ lr₁ … w_T lr_T`   (`lr_t` = the `learning_rate` attribute after step t) -/
def step (t : Toks) : String :=
  let (op, t) := t.next
  match op with
  | "sgd" =>
    let (lr, t) := t.float
    let (mu, t) := t.float
    let (nv, t) := t.nat
    let (w0, t) := t.float
    let (T, t) := t.nat
    let (gs, _) := t.floats T
    let c : SgdCfg Float := { lr := lr, momentum := mu, nesterov := nv != 0 }
    let (_, out) := gs.foldl (fun (acc : (Float × Float) × List Float) g =>
      let s := sgdRun c [g] acc.1
      (s, acc.2 ++ [s.1, s.2])) ((w0, 0), [])
    floatsOut out
  | "adam" =>
    let (lr0, t) := t.float
    let (b1, t) := t.float
    let (b2, t) := t.float
    let (eps, t) := t.float
    let (w0, t) := t.float
    let (T, t) := t.nat
    let (gs, _) := t.floats T
    let c : AdamCfg Float := { lr0 := lr0, beta1 := b1, beta2 := b2, eps := eps }
    let (_, out) := gs.foldl (fun (acc : (Float × AdamSt Float) × List Float) g =>
      let s := adamRun c [g] acc.1
      (s, acc.2 ++ [s.1, adamLr c s.2.t])) ((w0, adamInit), [])
    floatsOut out
  | _ => "bad-op"

def main : IO Unit := serve step
