/- Line-protocol driver for the Douglas model (C15; later C03). -/
import GemVerif.DriverUtil
import GemVerif.Model.Douglas

open GemVerif GemVerif.Drv GemVerif.Model.Douglas

/-- `m {f c cuts[c]}*m` -/
def readCutList (t : Toks) : List (Nat × List Float) × Toks :=
  let (m, t) := t.nat
  let rec go : Nat → List (Nat × List Float) → Toks → List (Nat × List Float) × Toks
    | 0, acc, t => (acc.reverse, t)
    | k + 1, acc, t =>
      let (f, t) := t.nat
      let (c, t) := t.nat
      let (cs, t) := t.floats c
      go k ((f, cs.toList) :: acc) t
  go m [] t

def natsOut (l : List Nat) : String := " ".intercalate (l.map toString)

def optNats : Option (List Nat) → String
  | none => "error"
  | some l => s!"{l.length} {natsOut l}"

/-- all rows or nothing -/
def allRows {n : Nat} (f : Fin n → Option (List Float)) : Option (List (List Float)) :=
  (List.finRange n).mapM f

/-- requests
    * `bin T n c x[n] cuts[c]`                         → `n*(c+1) memberships | order[c] | sorted[c] | logits n*(c+1)`
    * `leaf T n d X[n*d] m {f c cuts}*m`               → `L leaf[n*L]` or `error`
    * `infer T n d X[n*d] m {f c cuts}*m L K S[L*K]`   → `proba[n*K]` or `error`
    * `init d nCuts hasMask [len bits…]`               → `k used[k] numleaf` or `error`
    * `active n d X[n*d] m {f c cuts}*m`               → `cur <k used…|error> fix <k used…|error>`
    * `grads T n d X[n*d] m {f c cuts}*m L K S[L*K] ypred[n*K] gradient[n*K]` → `updates[0] | updates[1] | …` or `error` -/
def step (t : Toks) : String :=
  let (op, t) := t.next
  match op with
  | "bin" =>
    let (T, t) := t.float
    let (n, t) := t.nat
    let (c, t) := t.nat
    let (xs, t) := t.floats n
    let (cs, _) := t.floats c
    let cuts := cs.toList
    let rows := xs.toList.flatMap fun x => binning T x cuts
    let lg := xs.toList.flatMap fun x => logits x cuts
    s!"{floatsOut rows} | {natsOut (argsort cuts)} | {floatsOut (sortedCuts cuts)} | {floatsOut lg}"
  | "leaf" =>
    let (T, t) := t.float
    let (n, t) := t.nat
    let (d, t) := t.nat
    let (Xa, t) := t.floats (n * d)
    let X : Fin n → Fin d → Float := matOf Xa n d
    let (cl, _) := readCutList t
    match allRows fun i => leafRow T (X i) cl with
    | none => "error"
    | some rows => s!"{(rows.headD []).length} {floatsOut rows.flatten}"
  | "infer" =>
    let (T, t) := t.float
    let (n, t) := t.nat
    let (d, t) := t.nat
    let (Xa, t) := t.floats (n * d)
    let X : Fin n → Fin d → Float := matOf Xa n d
    let (cl, t) := readCutList t
    let (L, t) := t.nat
    let (K, t) := t.nat
    let (Sa, _) := t.floats (L * K)
    let S : Fin L → Fin K → Float := matOf Sa L K
    match allRows (infer T X cl S) with
    | none => "error"
    | some rows => floatsOut rows.flatten
  | "init" =>
    let (d, t) := t.nat
    let (nCuts, t) := t.nat
    let (hasMask, t) := t.nat
    let mask : Option (List Bool) :=
      if hasMask == 0 then none else
        let (len, t) := t.nat
        let (bits, _) := t.nats len
        some (bits.toList.map fun b => b != 0)
    match usedFeatures mask d, numLeaf nCuts mask d with
    | some u, some nl => s!"{u.length} {natsOut u} {nl}"
    | _, _ => "error"
  | "active" =>
    let (n, t) := t.nat
    let (d, t) := t.nat
    let (Xa, t) := t.floats (n * d)
    let X : Fin n → Fin d → Float := matOf Xa n d
    let (cl, _) := readCutList t
    s!"cur {optNats (activeCurrent X cl)} fix {optNats (activeFixed X cl)}"
  | "grads" =>
    let (T, t) := t.float
    let (n, t) := t.nat
    let (d, t) := t.nat
    let (Xa, t) := t.floats (n * d)
    let X : Fin n → Fin d → Float := matOf Xa n d
    let (cl, t) := readCutList t
    let (L, t) := t.nat
    let (K, t) := t.nat
    let (Sa, t) := t.floats (L * K)
    let S : Fin L → Fin K → Float := matOf Sa L K
    let (Pa, t) := t.floats (n * K)
    let (Ga, _) := t.floats (n * K)
    match computeGrads T X cl S (matOf Pa n K) (matOf Ga n K) with
    | none => "error"
    | some ups => " | ".intercalate (ups.map floatsOut)
  | _ => "bad-op"

def main : IO Unit := serve step
