/- Line-protocol driver for the API state machine of `Model/Api.lean` (C04).

   request : `api <linear|mlp|smlp> n nt d [h] K max_iter <adam|sgd> X[n*d] Xt[nt*d] <final weights>`
             (weights: linear `W[d*K] b[K]`; mlp `W1[d*h] b1[h] W2[h*K] b2[K]`; smlp adds `Ws[d*K]`)
   answer  : `labels_ | predict(Xt) | predict_proba(Xt) | n_iter_ optimiser_`  or  `error <token>`
   The training loop is the function "return the recorded final weights" (the loop itself is C03's subject); the
   initial weights are zeros, so an answer can only match if `fit` really ran `max_iter ≥ 1` epochs. -/
import GemVerif.DriverUtil
import GemVerif.Model.Api

open GemVerif GemVerif.Drv GemVerif.Model GemVerif.Model.Api

def rdMat (t : Toks) (r c : Nat) : (Fin r → Fin c → Float) × Toks :=
  let (a, t) := t.floats (r * c)
  (matOf a r c, t)

def rdVec (t : Toks) (n : Nat) : (Fin n → Float) × Toks :=
  let (a, t) := t.floats n
  (vecOf a n, t)

def natsOut (l : List Nat) : String := " ".intercalate (l.map toString)

def errOut : Err → String
  | .invalidParameter => "error invalidParameter"
  | .tooFewSamples => "error tooFewSamples"
  | .notFitted => "error notFitted"
  | .noAffinity => "error noAffinity"

def optOut : Optimiser → String
  | .AdamOptimizer => "AdamOptimizer"
  | .SGDOptimizer => "SGDOptimizer"

def answer {K d : Nat} {Params : Type} (F : Family Float K (Data Float d) Unit Unit Params Unit Unit)
    (cfg : Config) (X Xt : Data Float d) : String :=
  match fit F { cfg := cfg } () X none with
  | .error e => errOut e
  | .ok est =>
    match est.fitted, predict F est Xt, predictProba F est Xt with
    | some f, .ok pr, .ok P =>
      natsOut f.labels ++ " | " ++ natsOut pr ++ " | " ++ matOut P.val ++ " | " ++ toString f.nIter ++ " "
        ++ optOut f.optimiser
    | _, .error e, _ => errOut e
    | _, _, .error e => errOut e
    | none, _, _ => errOut .notFitted

def solverOf (s : String) : Solver := if s == "sgd" then .sgd else .adam

def step (t : Toks) : String :=
  let (op, t) := t.next
  let (kind, t) := t.next
  let (n, t) := t.nat; let (nt, t) := t.nat; let (d, t) := t.nat
  match op, kind with
  | "api", "linear" =>
    let (K, t) := t.nat; let (mi, t) := t.nat; let (sv, t) := t.next
    let (X, t) := rdMat t n d; let (Xt, t) := rdMat t nt d
    let (W, t) := rdMat t d K; let (b, _) := rdVec t K
    let F := linearFamily (α := Float) ⟨fun _ _ => 0, fun _ => 0⟩ (fun _ => ⟨W, b⟩) (fun _ _ => 0)
    answer F ⟨mi, solverOf sv, true⟩ ⟨n, X⟩ ⟨nt, Xt⟩
  | "api", "mlp" =>
    let (h, t) := t.nat; let (K, t) := t.nat; let (mi, t) := t.nat; let (sv, t) := t.next
    let (X, t) := rdMat t n d; let (Xt, t) := rdMat t nt d
    let (W1, t) := rdMat t d h; let (b1, t) := rdVec t h; let (W2, t) := rdMat t h K; let (b2, _) := rdVec t K
    let F := mlpFamily (α := Float) ⟨fun _ _ => 0, fun _ => 0, fun _ _ => 0, fun _ => 0, none⟩
      (fun _ => ⟨W1, b1, W2, b2, none⟩) (fun _ _ => 0)
    answer F ⟨mi, solverOf sv, true⟩ ⟨n, X⟩ ⟨nt, Xt⟩
  | "api", "smlp" =>
    let (h, t) := t.nat; let (K, t) := t.nat; let (mi, t) := t.nat; let (sv, t) := t.next
    let (X, t) := rdMat t n d; let (Xt, t) := rdMat t nt d
    let (W1, t) := rdMat t d h; let (b1, t) := rdVec t h; let (W2, t) := rdMat t h K; let (b2, t) := rdVec t K
    let (Ws, _) := rdMat t d K
    let F := mlpFamily (α := Float) ⟨fun _ _ => 0, fun _ => 0, fun _ _ => 0, fun _ => 0, some fun _ _ => 0⟩
      (fun _ => ⟨W1, b1, W2, b2, some Ws⟩) (fun _ _ => 0)
    answer F ⟨mi, solverOf sv, true⟩ ⟨n, X⟩ ⟨nt, Xt⟩
  | _, _ => "bad-op"

def main : IO Unit := serve step
