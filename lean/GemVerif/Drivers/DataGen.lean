/- Line-protocol driver for the data-generator assembly models (C20), run on `Float`.
   The harness replays the arrays recorded from numpy's primitives; the answers are compared with what the real
   functions returned. -/
import GemVerif.DriverUtil
import GemVerif.Model.DataGen

open GemVerif GemVerif.Drv GemVerif.Model.DataGen

/-- row `i` of a flat row-major `n × d` block starting at `off` -/
def rowOf (a : Array Float) (off d i : Nat) : List Float := (List.range d).map fun j => a[off + i * d + j]!

def natsOut (xs : List Nat) : String := " ".intercalate (xs.map toString)
def rowsOut (xs : List (List Float)) : String := floatsOut xs.flatten
def optFloat : Option Float → String
  | none => "none"
  | some x => hexOfFloat x

def step (t : Toks) : String :=
  let (op, t) := t.next
  match op with
  | "gmm" =>
    let (K, t) := t.nat
    let (d, t) := t.nat
    let (ns, t) := t.nat
    let (shape, t) := t.nats ns
    let (pl, t) := t.nat
    let (pv, t) := t.floats pl
    let (var1, t) := t.floats K
    let (eig, t) := t.nats K
    let (az, t) := t.nats K
    let (sy, t) := t.nats K
    let (n, t) := t.nat
    let (y, t) := t.nats n
    let (rl, t) := t.nat
    let (dr, _) := t.floats (K * n * rl)
    let p : GmmIn Float :=
      { K := K, d := d, scaleShape := shape.toList, pvalsLen := pl
        pvals := (fun k => pv[k]!)
        var1 := (fun k => var1[k]!)
        eigNeg := (fun k => eig[k]! == 1)
        allZero := (fun k => az[k]! == 1)
        symm := (fun k => sy[k]! == 1) }
    match drawGmm p y.toList (fun k i => rowOf dr (k * n * rl) rl i) with
    | .error e => s!"err {e}"
    | .ok (X, lab) =>
      let stds := if d == 1 then (List.range K).map (fun k => optFloat (normalStdOf Gen.DataGen.gmmNormalStd (var1[k]!))) else []
      s!"ok std {" ".intercalate stds} X {rowsOut X} y {natsOut lab}"
  | "student" =>
    let (n, t) := t.nat
    let (d, t) := t.nat
    let (df, t) := t.float
    let (loc, t) := t.floats d
    let (us, t) := t.floats n
    let (nx, _) := t.floats (n * d)
    rowsOut (studentT n df (fun i => us[i]!) (fun i => rowOf nx 0 d i) loc.toList)
  | "gstm" =>
    let (n, t) := t.nat
    let (alpha, t) := t.float
    let (df, t) := t.float
    let (nG, t) := t.nat
    let (yG, t) := t.nats nG
    let (dr, t) := t.floats (3 * nG * 2)
    let (nS, t) := t.nat
    let (us, t) := t.floats nS
    let (nx, t) := t.floats (nS * 2)
    let (order, _) := t.nats n
    let (X, y) := gstm n alpha df yG.toList (fun k i => rowOf dr (k * nG * 2) 2 i) (fun i => us[i]!)
      (fun i => rowOf nx 0 2 i) order.toList
    let xs := X.map fun r => match r with
      | none => "none"
      | some r => floatsOut r
    let ys := y.map fun l => match l with
      | none => "none"
      | some l => toString l
    s!"X {" ".intercalate xs} y {" ".intercalate ys} nG {gstmNGaussian n} locs {rowsOut (gstmLocations alpha)} " ++
    s!"glocs {rowsOut (gstmGaussLocs alpha)} sloc {floatsOut (gstmStudentLoc alpha)}"
  | "c1" =>
    let (n, t) := t.nat
    let (p, t) := t.nat
    let (mu, t) := t.float
    let (y, t) := t.nats n
    let (dr, t) := t.floats (3 * n * 5)
    let (nz, _) := t.floats (n * p)
    let (X, lab) := celeuxOne y.toList (fun k i => rowOf dr (k * n * 5) 5 i) (fun i => rowOf nz 0 p i)
    s!"X {rowsOut X} y {natsOut lab} means {rowsOut (c1Means mu)}"
  | "c2" =>
    let (n, t) := t.nat
    let (y, t) := t.nats n
    let (dr, t) := t.floats (4 * n * 2)
    let (nz, t) := t.floats (n * 9)
    let (xl, _) := t.floats (n * 3)
    let (X, lab) := celeuxTwo y.toList (fun k i => rowOf dr (k * n * 2) 2 i) (fun i => rowOf nz 0 9 i)
      (fun i => rowOf xl 0 3 i)
    s!"X {rowsOut X} y {natsOut lab}"
  | "c2params" =>
    s!"means {rowsOut (c2Means (α := Float))} b {rowsOut (c2B (α := Float))} offsets {floatsOut (c2Offsets (α := Float))} " ++
    s!"noisecov {rowsOut (c2NoiseCov (α := Float))} x1214mean {floatsOut (c2X1214Mean (α := Float))}"
  | _ => "bad-op"

def main : IO Unit := serve step
