/-
  Line-protocol driver for the forwarding model (C11), run on the REGENERATED tables `Gen.Forwarding`.

  Values   n:            None                 b:0 | b:1     bool            s:<text>   str
           f:<id>        a callable           t:<repr>      other constant
           d:<k>=<v>,<k>=<v>…   dict (d: alone = empty)
           g:<ctor>;<evalCls>;<attr>~<value>;…   a GEMINI instance (values as above)
  Requests
    resolve <Estimator> <kw>=<value> …           `Est(**kw).get_gemini()`
        -> `ok <ctor> <evalCls> <attr>~<value>;…`  |  `error <Exception>`
    aff <Estimator> <y 0|1> <kw>=<value> …       `Est(**kw).get_gemini().compute_affinity(X, y)`
    kernel <Estimator> <y 0|1> <kw>=<value> …    `Est(**kw)._compute_kernel(X[, y])`
        -> `<#warnings> ok none | user | pairwise:<fn>:<args>:<name|fn>:<metric>:<params|-> | call:<f>:<args>`
         | `<#warnings> error <Exception>`        (args: `X` or `X+train`)
    names                                         -> the estimator names of the table
-/
import GemVerif.DriverUtil
import GemVerif.Model.Forwarding
import GemVerif.Gen.Forwarding

open GemVerif GemVerif.Drv GemVerif.Model.Forwarding

def splitFirst (s : String) (sep : String) : String × String :=
  match s.splitOn sep with
  | [] => ("", "")
  | h :: t => (h, sep.intercalate t)

def parseDict (s : String) : Params :=
  if s == "" then [] else (s.splitOn ",").map fun kv => splitFirst kv "="

def parseAtom (s : String) : Atom :=
  let (tag, body) := splitFirst s ":"
  match tag with
  | "n" => .none
  | "b" => .bool (body == "1")
  | "s" => .str body
  | "f" => .fn body
  | "t" => .tok body
  | "d" => .dict (parseDict body)
  | _ => .tok s

def parseGem (body : String) : GeminiObj :=
  match body.splitOn ";" with
  | ctor :: ev :: attrs =>
      ⟨ctor, ev, (attrs.filter (· ≠ "")).map fun a => let (k, v) := splitFirst a "~"; (k, parseAtom v)⟩
  | _ => ⟨"", "", []⟩

def parseVal (s : String) : Val :=
  let (tag, body) := splitFirst s ":"
  if tag == "g" then .gem (parseGem body) else .atom (parseAtom s)

def parseHyper (toks : List String) : Hyper :=
  toks.map fun t => let (k, v) := splitFirst t "="; (k, parseVal v)

def dictOut (p : Params) : String :=
  ",".intercalate (p.map fun (k, v) => s!"{k}={v}")

def atomOut : Atom → String
  | .none => "n:"
  | .bool b => if b then "b:1" else "b:0"
  | .str s => s!"s:{s}"
  | .fn f => s!"f:{f}"
  | .tok t => s!"t:{t}"
  | .dict d => s!"d:{dictOut d}"

def gemOut (g : GeminiObj) : String :=
  s!"{g.ctor} {g.evalCls} " ++ ";".intercalate (g.attrs.map fun (k, v) => s!"{k}~{atomOut v}")

def argsOut (a : List Arg) : String :=
  "+".intercalate (a.map fun x => match x with | .X => "X" | .train => "train")

def symOut : Option Sym → String
  | none => "none"
  | some .user => "user"
  | some (.pairwise fn args m p) =>
      let (kind, name) := match m with | .name s => ("name", s) | .fn f => ("fn", f)
      s!"pairwise:{fn}:{argsOut args}:{kind}:{name}:{if p.isEmpty then "-" else dictOut p}"
  | some (.call f args) => s!"call:{f}:{argsOut args}"

def outOut (o : Out Sym) : String :=
  match o.res with
  | .ok m => s!"{o.warnings} ok {symOut m}"
  | .error e => s!"{o.warnings} error {e}"

def findEst (n : String) : Option EstDesc := Gen.Forwarding.estimators.find? (·.name == n)

def restOf (t : Toks) : List String := (t.toks.extract t.pos t.toks.size).toList

def step (t : Toks) : String :=
  let (op, t) := t.next
  match op with
  | "names" => " ".intercalate (Gen.Forwarding.estimators.map (·.name))
  | "resolve" =>
    let (n, t) := t.next
    match findEst n with
    | none => "error UnknownEstimator"
    | some e => match resolveGemini Gen.Forwarding.tables e (parseHyper (restOf t)) with
        | .ok g => "ok " ++ gemOut g
        | .error x => "error " ++ x
  | "aff" =>
    let (n, t) := t.next
    let (y, t) := t.nat
    match findEst n with
    | none => "0 error UnknownEstimator"
    | some e => outOut (estAffinity Gen.Forwarding.tables symOps e (parseHyper (restOf t))
        (if y == 1 then some Sym.user else none))
  | "kernel" =>
    let (n, t) := t.next
    let (y, t) := t.nat
    match findEst n with
    | none => "0 error UnknownEstimator"
    | some e => outOut (estOwnKernel symOps e (parseHyper (restOf t)) (if y == 1 then some Sym.user else none))
  | _ => "error UnknownRequest"

def main : IO Unit := serve step
