/- Line-protocol driver for the proximal operators of `gemclus/sparse/_prox_grad.py` (C05). -/
import GemVerif.DriverUtil
import GemVerif.Model.Prox

open GemVerif GemVerif.Drv GemVerif.Model.Prox

def readGroups (d : Nat) : Nat → List (List (Fin d)) × Toks → Option (List (List (Fin d)) × Toks)
  | 0, acc => some acc
  | n + 1, (gs, t) =>
    let (m, t1) := t.nat
    let (fs, t2) := t1.nats m
    -- an index outside `range(d)` raises IndexError in numpy: rejected here as well
    match fs.toList.mapM (fun i => if hi : i < d then some (⟨i, hi⟩ : Fin d) else none) with
    | none => none
    | some g => readGroups d n (gs ++ [g], t2)

def rowsOut {d h : Nat} (f : Fin d → Option (Fin h → Float)) : Option (List Float) :=
  (List.finRange d).foldr (fun i acc =>
    match f i, acc with
    | some r, some l => some ((List.ofFn r) ++ l)
    | _, _ => none) (some [])

/-- requests
  `linear d h alpha W[d*h]`                                     → `W*[d*h]`
  `mlp d k h alpha M Wskip[d*k] W1[d*h]`                        → `Wskip*[d*k] W1*[d*h] | idx[d]`
  `glinear d h alpha G (m i₁…i_m)×G W[d*h]`                     → `W*[d*h]` or `uninit` / `index-error`
  `gmlp d k h alpha M G (m i₁…i_m)×G Wskip[d*k] W1[d*h]`        → `Wskip*[d*k] W1*[d*h]` or `uninit` / `index-error`
  `sort n x[n]`                                                 → the values in non-increasing order -/
def step (t : Toks) : String :=
  let (op, t) := t.next
  match op with
  | "linear" =>
    let (d, t) := t.nat
    let (h, t) := t.nat
    let (al, t) := t.float
    let (Wa, _) := t.floats (d * h)
    let W : Fin d → Fin h → Float := matOf Wa d h
    matOut (linearProx W al)
  | "mlp" =>
    let (d, t) := t.nat
    let (k, t) := t.nat
    let (h, t) := t.nat
    let (al, t) := t.float
    let (M, t) := t.float
    let (Sa, t) := t.floats (d * k)
    let (Ua, _) := t.floats (d * h)
    let Ws : Fin d → Fin k → Float := matOf Sa d k
    let W1 : Fin d → Fin h → Float := matOf Ua d h
    let rows := (List.finRange d).map fun i => hierProxRow (Ws i) (W1 i) al M
    let idxs := (List.finRange d).map fun i =>
      hierIdx (uAbsSorted (W1 i)) al M (norm2 (Ws i))
    floatsOut (rows.flatMap fun r => List.ofFn r.1) ++ " " ++ floatsOut (rows.flatMap fun r => List.ofFn r.2)
      ++ " | " ++ " ".intercalate (idxs.map toString)
  | "glinear" =>
    let (d, t) := t.nat
    let (h, t) := t.nat
    let (al, t) := t.float
    let (G, t) := t.nat
    match readGroups d G ([], t) with
    | none => "index-error"
    | some (groups, t) =>
      let (Wa, _) := t.floats (d * h)
      let W : Fin d → Fin h → Float := matOf Wa d h
      match rowsOut (groupLinearProx groups W al) with
      | none => "uninit"
      | some l => floatsOut l
  | "gmlp" =>
    let (d, t) := t.nat
    let (k, t) := t.nat
    let (h, t) := t.nat
    let (al, t) := t.float
    let (M, t) := t.float
    let (G, t) := t.nat
    match readGroups d G ([], t) with
    | none => "index-error"
    | some (groups, t) =>
      let (Sa, t) := t.floats (d * k)
      let (Ua, _) := t.floats (d * h)
      let Ws : Fin d → Fin k → Float := matOf Sa d k
      let W1 : Fin d → Fin h → Float := matOf Ua d h
      let r := groupMlpProx groups Ws W1 al M
      match rowsOut r.1, rowsOut r.2 with
      | some a, some b => floatsOut a ++ " " ++ floatsOut b
      | _, _ => "uninit"
  | "sort" =>
    let (n, t) := t.nat
    let (xa, _) := t.floats n
    floatsOut (sortDesc xa.toList)
  | _ => "bad-op"

def main : IO Unit := serve step
