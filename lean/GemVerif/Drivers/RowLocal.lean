/- Line-protocol driver for the prediction-side models of C18 (KernelRIM forward pass, arg-max, `Tree.predict`). -/
import GemVerif.DriverUtil
import GemVerif.Model.KernelRim
import GemVerif.Model.KauriPredict

open GemVerif GemVerif.Drv GemVerif.Model.Nets GemVerif.Model.KernelRim GemVerif.Model.Kauri

def rdMat (t : Toks) (r c : Nat) : (Fin r → Fin c → Float) × Toks :=
  let (a, t) := t.floats (r * c)
  (matOf a r c, t)

def rdVec (t : Toks) (n : Nat) : (Fin n → Float) × Toks :=
  let (a, t) := t.floats n
  (vecOf a n, t)

def optInts (t : Toks) (n : Nat) : Array (Option Int) × Toks :=
  (((t.toks.extract t.pos (t.pos + n)).map fun s => if s == "None" then none else some (parseInt s)),
    { t with pos := t.pos + n })

def optFloats (t : Toks) (n : Nat) : Array (Option Float) × Toks :=
  (((t.toks.extract t.pos (t.pos + n)).map fun s => if s == "None" then none else some (floatOfHex s)),
    { t with pos := t.pos + n })

def intsOut (l : List Int) : String := " ".intercalate (l.map toString)

/-- requests
    * `krim m n d K Xnew[m*d] Xtrain[n*d] W[n*K] b[K]`  → `proba[m*K]` (`kernelRimInfer` with the `linear` metric)
    * `argmax n K P[n*K]`                               → `labels[n]`
    * `tree n d X[n*d] N nNodes left[N] right[N] target[N] feat[N] thr[N] fuel`
                                                        → `mask <labels[n] | error> route <labels[n]>` -/
def step (t : Toks) : String :=
  let (op, t) := t.next
  match op with
  | "krim" =>
    let (m, t) := t.nat; let (n, t) := t.nat; let (d, t) := t.nat; let (K, t) := t.nat
    let (Xnew, t) := rdMat t m d; let (Xtrain, t) := rdMat t n d
    let (W, t) := rdMat t n K; let (b, _) := rdVec t K
    matOut (kernelRimInfer dot Xnew Xtrain W b)
  | "argmax" =>
    let (n, t) := t.nat; let (K, t) := t.nat
    let (P, _) := rdMat t n K
    " ".intercalate ((List.finRange n).map fun i => toString (predictLabels P i))
  | "tree" =>
    let (n, t) := t.nat; let (d, t) := t.nat
    let (Xa, t) := t.floats (n * d)
    let (N, t) := t.nat
    let (nNodes, t) := t.nat
    let (left, t) := t.ints N; let (right, t) := t.ints N; let (target, t) := t.ints N
    let (feat, t) := optInts t N; let (thr, t) := optFloats t N
    let (fuel, _) := t.nat
    let tr : Tree Float := { left := left, right := right, target := target, thr := thr, feat := feat,
                             gains := Array.replicate N 0, depths := Array.replicate N 0, nNodes := nNodes }
    let row (i : Nat) : Nat → Float := fun j => Xa[i * d + j]!
    let X : Fin n → Nat → Float := fun i => row i.val
    let mask := match tr.predictMask fuel 0 (List.ofFn X) with
      | none => "error"
      | some l => intsOut l
    s!"mask {mask} route {intsOut (List.ofFn (tr.routeAll fuel X))}"
  | _ => "bad-op"

def main : IO Unit := serve step
