/- Line-protocol driver for the model of `gemclus/mlcl.py` (C14). -/
import GemVerif.DriverUtil
import GemVerif.Model.Mlcl

open GemVerif GemVerif.Drv GemVerif.Model.Mlcl

/-- `m i1 j1 … im jm` -/
def readPairs (t : Toks) : List Pair × Toks :=
  let (m, t) := t.nat
  let (a, t) := t.ints (2 * m)
  ((List.range m).map (fun q => (a[2 * q]!, a[2 * q + 1]!)), t)

def readIntList (t : Toks) : List Int × Toks :=
  let (m, t) := t.nat
  let (a, t) := t.ints m
  (a.toList, t)

/-- requests
    * `acc <fixed 0|1> u U[u] m ML[2m] c CL[2c]`   → verdict token of `checkLinking`
    * `conn u U[u] m ML[2m]`                        → the `u×u` connection matrix, row-major 0/1
    * `bfs n M[n*n] s`                              → `bfsReach n M s` (increasing)
    * `inj K b last[b] c CL[2c] m ML[2m] factor y[b*K] g[b*K]` → `inject …` rows `0..b-1`, row-major -/
def step (t : Toks) : String :=
  let (op, t) := t.next
  match op with
  | "acc" =>
    let (fx, t) := t.nat
    let (uniq, t) := readIntList t
    let (ml, t) := readPairs t
    let (cl, _) := readPairs t
    (checkLinking (fx == 1) uniq ml cl).token
  | "conn" =>
    let (uniq, t) := readIntList t
    let (ml, _) := readPairs t
    let n := uniq.length
    let M := connMatrix uniq ml
    " ".intercalate ((List.range n).flatMap fun i => (List.range n).map fun j => if M i j then "1" else "0")
  | "bfs" =>
    let (n, t) := t.nat
    let (a, t) := t.nats (n * n)
    let (s, _) := t.nat
    let M : Nat → Nat → Bool := fun i j => i < n && j < n && a[i * n + j]! != 0
    let r := bfsReach n M s
    if r.isEmpty then "-" else " ".intercalate (r.map toString)
  | "inj" =>
    let (K, t) := t.nat
    let (last, t) := readIntList t
    let b := last.length
    let (cl, t) := readPairs t
    let (ml, t) := readPairs t
    let (factor, t) := t.float
    let (ya, t) := t.floats (b * K)
    let (ga, _) := t.floats (b * K)
    let y : Rows Float K := fun r k => ya[r * K + k.val]!
    let g : Rows Float K := fun r k => ga[r * K + k.val]!
    let out := inject last cl ml factor y g
    floatsOut ((List.range b).flatMap fun r => (List.finRange K).map fun k => out r k)
  | _ => "bad-op"

def main : IO Unit := serve step
