/- Line-protocol driver for forward passes and back-propagation (C03, C04, C06, C18). -/
import GemVerif.DriverUtil
import GemVerif.Model.Nets

open GemVerif GemVerif.Drv GemVerif.Model.Nets

def vecOut {n : Nat} (f : Fin n → Float) : String := floatsOut ((List.finRange n).map f)

def rdMat (t : Toks) (r c : Nat) : (Fin r → Fin c → Float) × Toks :=
  let (a, t) := t.floats (r * c)
  (matOf a r c, t)

def rdVec (t : Toks) (n : Nat) : (Fin n → Float) × Toks :=
  let (a, t) := t.floats n
  (vecOf a n, t)

def step (t : Toks) : String :=
  let (op, t) := t.next
  let (kind, t) := t.next
  match op, kind with
  | "infer", "linear" =>
    let (n, t) := t.nat; let (d, t) := t.nat; let (K, t) := t.nat
    let (X, t) := rdMat t n d; let (W, t) := rdMat t d K; let (b, _) := rdVec t K
    matOut (linearInfer X W b)
  | "infer", "mlp" =>
    let (n, t) := t.nat; let (d, t) := t.nat; let (h, t) := t.nat; let (K, t) := t.nat
    let (X, t) := rdMat t n d; let (W1, t) := rdMat t d h; let (b1, t) := rdVec t h
    let (W2, t) := rdMat t h K; let (b2, _) := rdVec t K
    matOut (mlpInfer X W1 b1 W2 b2)
  | "infer", "smlp" =>
    let (n, t) := t.nat; let (d, t) := t.nat; let (h, t) := t.nat; let (K, t) := t.nat
    let (X, t) := rdMat t n d; let (W1, t) := rdMat t d h; let (b1, t) := rdVec t h
    let (W2, t) := rdMat t h K; let (b2, t) := rdVec t K; let (Ws, _) := rdMat t d K
    matOut (sparseMlpInfer X W1 b1 W2 b2 Ws)
  | "infer", "cat" =>
    let (n, t) := t.nat; let (K, t) := t.nat
    let (L, _) := rdMat t n K
    matOut (categoricalInfer L)
  | "grads", "linear" =>
    let (n, t) := t.nat; let (d, t) := t.nat; let (K, t) := t.nat
    let (X, t) := rdMat t n d; let (y, t) := rdMat t n K; let (g, _) := rdMat t n K
    matOut (linearGradW X y g) ++ " " ++ vecOut (linearGradB y g)
  | "grads", "rim" =>
    let (n, t) := t.nat; let (d, t) := t.nat; let (K, t) := t.nat
    let (reg, t) := t.float
    let (X, t) := rdMat t n d; let (W, t) := rdMat t d K; let (y, t) := rdMat t n K; let (g, _) := rdMat t n K
    matOut (rimGradW reg X W y g) ++ " " ++ vecOut (linearGradB y g)
  | "grads", "krim" =>
    let (m, t) := t.nat; let (n, t) := t.nat; let (K, t) := t.nat
    let (reg, t) := t.float
    let (κ, t) := rdMat t n n; let (Xb, t) := rdMat t m n; let (W, t) := rdMat t n K
    let (y, t) := rdMat t m K; let (g, _) := rdMat t m K
    matOut (kernelRimGradW reg κ Xb W y g) ++ " " ++ vecOut (linearGradB y g)
  | "grads", "mlp" =>
    let (n, t) := t.nat; let (d, t) := t.nat; let (h, t) := t.nat; let (K, t) := t.nat
    let (X, t) := rdMat t n d; let (H, t) := rdMat t n h; let (W2, t) := rdMat t h K
    let (y, t) := rdMat t n K; let (g, _) := rdMat t n K
    let r := mlpGrads X H W2 y g
    matOut r.W1 ++ " " ++ matOut r.W2 ++ " " ++ vecOut r.b1 ++ " " ++ vecOut r.b2 ++ " " ++ matOut r.Ws
  | "grads", "cat" =>
    let (n, t) := t.nat; let (K, t) := t.nat
    let (y, t) := rdMat t n K; let (g, _) := rdMat t n K
    matOut (categoricalGrad y g)
  | _, _ => "bad-op"

def main : IO Unit := serve step
