/- Line-protocol driver for the validation model (C16): generated tables + `satisfies`, the documented domains,
   the translated `check_groups`, the Kauri and Douglas scalar tests. -/
import GemVerif.DriverUtil
import GemVerif.Model.Constraints
import GemVerif.Gen.Constraints
import GemVerif.Lemmas.Constraints

open GemVerif GemVerif.Drv GemVerif.Model.Constraints

namespace C16Drv

def env : Env := { sets := Gen.Constraints.namedSets ++ sklearnSets, ancestors := Gen.Constraints.ancestors }

def hexStr (s : String) : String :=
  if s.isEmpty then "-" else
  String.join (s.toUTF8.toList.map fun b => String.ofList [hexDigit (b.toNat / 16), hexDigit (b.toNat % 16)])

def unhexStr (h : String) : String :=
  if h == "-" then "" else
  let cs := h.toList
  let rec go : List Char → List UInt8
    | a :: b :: rest => UInt8.ofNat (hexVal a * 16 + hexVal b) :: go rest
    | _ => []
  (String.fromUTF8? (ByteArray.mk (go cs).toArray)).getD ""

/-- value tokens: `int n | float p/q | posinf | neginf | nan | bool 0|1 | npbool 0|1 | str <hex> | none | func | dict |
    list | tuple | ndarray | rs | gemini C | est C | object` -/
def readValue (t : Toks) : Value × Toks :=
  let (k, t) := t.next
  match k with
  | "int" => let (n, t) := t.int; (.int n, t)
  | "float" => let (q, t) := t.rat; (.float q, t)
  | "posinf" => (.posInf, t)
  | "neginf" => (.negInf, t)
  | "nan" => (.nan, t)
  | "bool" => let (n, t) := t.nat; (.bool (n != 0), t)
  | "npbool" => let (n, t) := t.nat; (.npBool (n != 0), t)
  | "str" => let (s, t) := t.next; (.str (unhexStr s), t)
  | "none" => (.none, t)
  | "func" => (.func, t)
  | "dict" => (.dict, t)
  | "list" => (.list, t)
  | "tuple" => (.tuple, t)
  | "ndarray" => (.ndarray, t)
  | "rs" => (.randomState, t)
  | "gemini" => let (s, t) := t.next; (.gemini s, t)
  | "est" => let (s, t) := t.next; (.estimator s, t)
  | _ => (.object, t)

def showValue : Value → String
  | .int n => s!"int {n}"
  | .float q => s!"float {q.num}/{q.den}"
  | .posInf => "posinf"
  | .negInf => "neginf"
  | .nan => "nan"
  | .bool b => s!"bool {if b then 1 else 0}"
  | .npBool b => s!"npbool {if b then 1 else 0}"
  | .str s => s!"str {hexStr s}"
  | .none => "none"
  | .func => "func"
  | .dict => "dict"
  | .list => "list"
  | .tuple => "tuple"
  | .ndarray => "ndarray"
  | .randomState => "rs"
  | .gemini c => s!"gemini {c}"
  | .estimator c => s!"est {c}"
  | .object => "object"

def tables := Gen.Constraints.estimators ++ Gen.Constraints.functions

def showGroups (g : List (List Int)) : String :=
  " ".intercalate (toString g.length :: g.map fun x => " ".intercalate (toString x.length :: x.map toString))

def showTriples (l : List (String × String × Value)) : String :=
  " ; ".intercalate (l.map fun (o, p, v) => s!"{o} {p} {showValue v}")

/-- requests
    * `acc owner param <value>`   → `1` / `0` (`Model.accepts` on the generated row), `nokey`
    * `doc owner param <value>`   → `in` / `out` / `unspec`, `nodoc`
    * `cg d none` | `cg d m len_1 i… … len_m i…` → `ok none` | `ok <groups>` | `err <tag_with_underscores>`
    * `kauri leaf split`, `mask len d` → `1` when the code raises
    * `universe`  → every representative value, ` ; `-separated
    * `keys` / `dockeys` → `owner param` pairs, ` ; `-separated;  `dead` → dead decorator keys
    * `late` / `known` → the `lateRejected` / `knownDeviations` triples of the Spec; `unval` → `unvalidated` pairs -/
def step (t : Toks) : String :=
  let (op, t) := t.next
  match op with
  | "acc" =>
    let (o, t) := t.next
    let (p, t) := t.next
    let (v, _) := readValue t
    match (tables.lookup o).bind fun rows => rows.lookup p with
    | some row => if accepts env row v then "1" else "0"
    | none => "nokey"
  | "doc" =>
    let (o, t) := t.next
    let (p, t) := t.next
    let (v, _) := readValue t
    match Spec.Constraints.docVerdict o p v with
    | some .inDom => "in"
    | some .outDom => "out"
    | some .unspecified => "unspec"
    | none => "nodoc"
  | "cg" =>
    let (d, t) := t.nat
    let (k, t) := t.next
    let groups : Option (List (List Int)) :=
      if k == "none" then none else
        let m := k.toNat!
        let rec go (m : Nat) (t : Toks) (acc : List (List Int)) : List (List Int) :=
          match m with
          | 0 => acc.reverse
          | m + 1 => let (l, t) := t.nat; let (a, t) := t.ints l; go m t (a.toList :: acc)
        some (go m t [])
    match Gen.Constraints.checkGroups groups d with
    | .ok none => "ok none"
    | .ok (some g) => "ok " ++ showGroups g
    | .error e => "err " ++ e.replace " " "_"
  | "kauri" =>
    let (l, t) := t.int
    let (s, _) := t.int
    if Gen.Constraints.kauriRejects l s then "1" else "0"
  | "mask" =>
    let (m, t) := t.int
    let (d, _) := t.int
    if Gen.Constraints.douglasMaskRejects m d then "1" else "0"
  | "universe" =>
    " ; ".intercalate ((Spec.Constraints.repValues env tables).map showValue)
  | "keys" => " ; ".intercalate (tables.flatMap fun (o, rows) => rows.map fun (p, _) => s!"{o} {p}")
  | "dockeys" => " ; ".intercalate (Spec.Constraints.documentedKeys.map fun (o, p) => s!"{o} {p}")
  | "dead" => " ; ".intercalate (Gen.Constraints.deadKeys.map fun (o, p) => s!"{o} {p}")
  | "late" => showTriples Spec.Constraints.lateRejected
  | "known" => showTriples Spec.Constraints.knownDeviations
  | "unval" => " ; ".intercalate (Spec.Constraints.unvalidated.map fun (o, p) => s!"{o} {p}")
  | _ => "bad-op"

end C16Drv

def main : IO Unit := serve C16Drv.step
