/- Line-protocol driver for the KAURI models over exact rationals (C08, C09, C19). -/
import GemVerif.DriverUtil
import GemVerif.Model.Kauri
import GemVerif.Model.KauriNames
import GemVerif.Lemmas.KauriC09

open GemVerif GemVerif.Drv GemVerif.Model.Kauri

def splitOut (b : Split Rat) : String :=
  s!"{ratOut b.gain} {b.leaf} {b.left} {b.right} {b.feature} {ratOut b.threshold}"

def optRat : Option Rat → String
  | none => "None"
  | some q => ratOut q

def optInt : Option Int → String
  | none => "None"
  | some q => toString q

/-- finite decimal of a dyadic rational, as Python's `repr(float)` prints small dyadics (`1.0`, `-0.375`) -/
def showDyadic (q : Rat) : String :=
  let neg := q < 0
  let a := if neg then -q else q
  let ip := a.floor.toNat
  let rec digits (fuel : Nat) (r : Rat) (acc : String) : String :=
    match fuel with
    | 0 => acc
    | fuel + 1 =>
      if r == 0 then acc else
      let r10 := r * 10
      let dgt := r10.floor.toNat
      digits fuel (r10 - dgt) (acc ++ toString dgt)
  let frac := digits 40 (a - ip) ""
  (if neg then "-" else "") ++ toString ip ++ "." ++ (if frac == "" then "0" else frac)

def readMat (t : Toks) (r c : Nat) : (Nat → Nat → Rat) × Toks :=
  let (a, t) := t.rats (r * c)
  ((fun i j => a[i * c + j]!), t)

def readDraws (t : Toks) : Nat → List (List Nat) × Toks → List (List Nat) × Toks
  | 0, acc => acc
  | k + 1, (ds, t') =>
    let (m, t1) := t'.nat
    let (fs, t2) := t1.nats m
    readDraws t k (ds ++ [fs.toList], t2)

/-- `x<hex of the UTF-8 bytes>` ↔ string (names and printed lines travel this way: any character may occur in them) -/
def unhexStr (s : String) : String :=
  let cs := (s.drop 1).toString.toList
  let rec go : List Char → ByteArray → ByteArray
    | a :: b :: rest, acc => go rest (acc.push (UInt8.ofNat (hexVal a * 16 + hexVal b)))
    | _, acc => acc
  String.fromUTF8! (go cs ByteArray.empty)

def hexStr (s : String) : String :=
  "x" ++ String.ofList (s.toUTF8.toList.flatMap fun b => [hexDigit (b.toNat / 16), hexDigit (b.toNat % 16)])

def errOut : Option PrintError → String
  | none => "ok"
  | some .notOneDim => "notOneDim"
  | some .tooFew => "tooFew"
  | some .lookup => "lookup"
  | some .recursion => "recursion"

def step (t : Toks) : String :=
  let (op, t) := t.next
  match op with
  | "fbs" =>
    let (n, t) := t.nat
    let (d, t) := t.nat
    let (κ, t) := readMat t n n
    let (X, t) := readMat t n d
    let (ne, t) := t.nat
    let (expl, t) := t.nats ne
    let (leafOf, t) := t.nats n
    let (nl, t) := t.nat
    let (clusterOf, t) := t.nats nl
    let (nClusters, t) := t.nat
    let (Kmax, t) := t.nat
    let (nLeaves, t) := t.nat
    let (minLeaf, t) := t.nat
    let (nf, t) := t.nat
    let (feats, _) := t.nats nf
    splitOut (findBestSplit κ X expl.toList ⟨n, leafOf, clusterOf⟩ nClusters Kmax nLeaves minLeaf feats.toList)
  | "cas" =>
    -- compute_all_splits on explicit stocks
    let (bg, t) := t.rat
    let (bl, t) := t.int
    let (blt, t) := t.int
    let (brt, t) := t.int
    let (bf, t) := t.int
    let (bth, t) := t.rat
    let (sl, t) := t.rat
    let (sr, t) := t.rat
    let (lf, t) := t.rat
    let (nc, t) := t.nat
    let (slc, t) := t.rats nc
    let (src, t) := t.rats nc
    let (cs, t) := t.nats nc
    let (gd, t) := t.rats nc
    let (w, t) := t.rat
    let (nLeaf, t) := t.nat
    let (Kmax, t) := t.nat
    let (k, t) := t.nat
    let (leafId, t) := t.nat
    let (splitSize, t) := t.nat
    let (featId, t) := t.nat
    let (thr, _) := t.rat
    let c : Cand Rat := {
      sl_square := sl, sr_square := sr, leaf_square := lf,
      sl_clusters := (fun i => slc[i]!), sr_clusters := (fun i => src[i]!),
      cluster_sizes := (fun i => cs[i]!), gammaDiag := (fun i => gd[i]!),
      omega_k_feat := w, n_leaf := nLeaf, n_clusters := nc, K_max := Kmax, k := k, leaf_id := leafId,
      split_size := splitSize, feature_id := featId, threshold := thr }
    splitOut (computeAllSplits ⟨bg, bl, blt, brt, bf, bth⟩ c)
  | "obj" =>
    let (n, t) := t.nat
    let (κ, t) := readMat t n n
    let (labels, _) := t.nats n
    ratOut (objective κ labels.toList)
  | "print" =>
    -- same arguments as `fit`, then `m name_1 .. name_m` (m = 0: default names); lines joined by `⏎`
    let (n, t) := t.nat
    let (d, t) := t.nat
    let (κ, t) := readMat t n n
    let (X, t) := readMat t n d
    let (maxClusters, t) := t.nat
    let (maxDepth, t) := t.nat
    let (minSplit, t) := t.nat
    let (minLeaf, t) := t.nat
    let (maxLeaves, t) := t.nat
    let (nd, t) := t.nat
    let (draws, t) := readDraws t nd ([], t)
    let (m, t) := t.nat
    let names := (t.toks.extract t.pos (t.pos + m))
    let p : Params := ⟨maxClusters, maxDepth, minSplit, minLeaf, maxLeaves⟩
    let s : FitState Rat := fit κ X n p draws
    let name : Int → String := fun f => if m == 0 then s!"X[:, {f}]" else names[f.toNat]!
    "⏎".intercalate (s.tree.printNode showDyadic name (s.tree.nNodes + 1) 0)
  | "printn" =>
    -- `print_kauri_tree` WITH its validation (Model/KauriNames.lean): same arguments as `fit`, then `k` and `k` arguments
    -- `feature_names`, each `none` (None) or `ndim m xhex_1 .. xhex_m`; answer per argument (joined by ` ; `): how the
    -- call ends (`ok` or the exception), then the lines that reached stdout
    let (n, t) := t.nat
    let (d, t) := t.nat
    let (κ, t) := readMat t n n
    let (X, t) := readMat t n d
    let (maxClusters, t) := t.nat
    let (maxDepth, t) := t.nat
    let (minSplit, t) := t.nat
    let (minLeaf, t) := t.nat
    let (maxLeaves, t) := t.nat
    let (nd, t) := t.nat
    let (draws, t) := readDraws t nd ([], t)
    let (k, t) := t.nat
    let p : Params := ⟨maxClusters, maxDepth, minSplit, minLeaf, maxLeaves⟩
    let s : FitState Rat := fit κ X n p draws
    let rec readArgs : Nat → List (Option NamesArg) × Toks → List (Option NamesArg) × Toks
      | 0, acc => acc
      | j + 1, (as, t') =>
        let (tag, t1) := t'.next
        if tag == "none" then readArgs j (as ++ [none], t1) else
        let (m, t2) := t1.nat
        readArgs j (as ++ [some ⟨tag.toNat!, (t2.toks.extract t2.pos (t2.pos + m)).map unhexStr⟩],
          { t2 with pos := t2.pos + m })
    let (args, _) := readArgs k ([], t)
    " ; ".intercalate (args.map fun names =>
      let o := printKauriTree s.tree showDyadic names (s.tree.nNodes + 1)
      " ".intercalate (errOut o.error :: o.printed.map hexStr))
  | "fit" =>
    let (n, t) := t.nat
    let (d, t) := t.nat
    let (κ, t) := readMat t n n
    let (X, t) := readMat t n d
    let (maxClusters, t) := t.nat
    let (maxDepth, t) := t.nat
    let (minSplit, t) := t.nat
    let (minLeaf, t) := t.nat
    let (maxLeaves, t) := t.nat
    let (nd, t) := t.nat
    let (draws, _) := readDraws t nd ([], t)
    let p : Params := ⟨maxClusters, maxDepth, minSplit, minLeaf, maxLeaves⟩
    let s : FitState Rat := fit κ X n p draws
    let tr := s.tree
    let ints (a : Array Int) := " ".intercalate (a.toList.map toString)
    let nats (a : List Nat) := " ".intercalate (a.map toString)
    s!"steps {s.steps} nleaves {s.nLeaves} nclusters {s.nClusters} labels {nats s.labels} leaves {nats s.leaves} " ++
    s!"left {ints tr.left} right {ints tr.right} target {ints tr.target} " ++
    s!"feat {" ".intercalate (tr.feat.toList.map optInt)} thr {" ".intercalate (tr.thr.toList.map optRat)} " ++
    s!"gains {" ".intercalate (tr.gains.toList.map ratOut)} depths {nats tr.depths.toList} " ++
    s!"score {ratOut (objective κ s.labels)} route {" ".intercalate ((List.range n).map fun i => toString (tr.route (X i) (tr.nNodes + 1) 0))}"
  | "fith" =>
    -- hybrid run of the fit loop: `m` scripted answers of `find_best_split` (gain leaf left right feature threshold),
    -- applied by `KauriC09.stepWith` (= the loop body, `fitStep_eq_stepWith`), then the loop proper on `nd` recorded draws
    let (n, t) := t.nat
    let (d, t) := t.nat
    let (κ, t) := readMat t n n
    let (X, t) := readMat t n d
    let (maxClusters, t) := t.nat
    let (maxDepth, t) := t.nat
    let (minSplit, t) := t.nat
    let (minLeaf, t) := t.nat
    let (maxLeaves, t) := t.nat
    let (m, t) := t.nat
    let rec readSplits (t : Toks) : Nat → List (Split Rat) × Toks → List (Split Rat) × Toks
      | 0, acc => acc
      | k + 1, (bs, t') =>
        let (g, t1) := t'.rat
        let (lf, t2) := t1.int
        let (l, t3) := t2.int
        let (r, t4) := t3.int
        let (f, t5) := t4.int
        let (th, t6) := t5.rat
        readSplits t k (bs ++ [⟨g, lf, l, r, f, th⟩], t6)
    let (bs, t) := readSplits t m ([], t)
    let (nd, t) := t.nat
    let (draws, _) := readDraws t nd ([], t)
    let p : Params := ⟨maxClusters, maxDepth, minSplit, minLeaf, maxLeaves⟩
    let s0 : FitState Rat := GemVerif.KauriC09.fitWith X n p bs
    let s : FitState Rat := draws.foldl (fitStep κ X p) s0
    let tr := s.tree
    let ints (a : Array Int) := " ".intercalate (a.toList.map toString)
    let nats (a : List Nat) := " ".intercalate (a.map toString)
    s!"steps {s.steps} nleaves {s.nLeaves} nclusters {s.nClusters} labels {nats s.labels} leaves {nats s.leaves} " ++
    s!"left {ints tr.left} right {ints tr.right} target {ints tr.target} " ++
    s!"feat {" ".intercalate (tr.feat.toList.map optInt)} thr {" ".intercalate (tr.thr.toList.map optRat)} " ++
    s!"gains {" ".intercalate (tr.gains.toList.map ratOut)} depths {nats tr.depths.toList} " ++
    s!"score {ratOut (objective κ s.labels)} route {" ".intercalate ((List.range n).map fun i => toString (tr.route (X i) (tr.nNodes + 1) 0))}"
  | _ => "bad-op"

def main : IO Unit := serve step
