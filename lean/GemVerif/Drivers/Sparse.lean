/- Line-protocol driver for the feature-selection layer of the sparse estimators (C06): `Model/Sparse.lean`. -/
import GemVerif.DriverUtil
import GemVerif.Model.Sparse

open GemVerif GemVerif.Drv GemVerif.Model.Prox GemVerif.Model.Sparse

def readFinGroups (d : Nat) : Nat → List (List (Fin d)) × Toks → Option (List (List (Fin d)) × Toks)
  | 0, acc => some acc
  | n + 1, (gs, t) =>
    let (m, t1) := t.nat
    let (fs, t2) := t1.nats m
    match fs.toList.mapM (fun i => if hi : i < d then some (⟨i, hi⟩ : Fin d) else none) with
    | none => none
    | some g => readFinGroups d n (gs ++ [g], t2)

/-- `G` = -1 (`groups_ is None`) or the number of groups, followed by `(m i₁…i_m)×G` -/
def readOptGroups (d : Nat) (t : Toks) : Option (Option (List (List (Fin d))) × Toks) :=
  let (G, t) := t.int
  if G < 0 then some (none, t) else
  match readFinGroups d G.toNat ([], t) with
  | none => none
  | some (gs, t) => some (some gs, t)

def readIntGroups : Nat → List (List Int) × Toks → List (List Int) × Toks
  | 0, acc => acc
  | n + 1, (gs, t) =>
    let (m, t1) := t.nat
    let (fs, t2) := t1.ints m
    readIntGroups n (gs ++ [fs.toList], t2)

def groupsOut (gs : List (List Int)) : String :=
  s!"{gs.length}" ++ String.join (gs.map fun g => s!" {g.length}" ++ String.join (g.map fun i => s!" {i}"))

def errName : GroupsErr → String
  | .outOfRange => "outOfRange"
  | .notPartition => "notPartition"
  | .duplicate => "duplicate"

/-- requests
  `sel d h W[d*h]`                                             → `idx… | count | penalty`
  `groups n G (m i₁…i_m)×G`   (`G = -1`: `groups=None`)        → `none` / `err <name>` / `ok G' (m i…)×G'`
  `updlin d K alpha lr G (m i…)×G W[d*K]`                      → `W*[d*K]` or `uninit` / `index-error`
  `updmlp d h K M alpha lr G (m i…)×G Wskip[d*K] W1[d*h]`      → `Wskip*[d*K] W1*[d*h]` or `uninit` / `index-error`
  (`upd…`: the weights AFTER the optimiser step; the model multiplies `alpha * lr` itself) -/
def step (t : Toks) : String :=
  let (op, t) := t.next
  match op with
  | "sel" =>
    let (d, t) := t.nat
    let (h, t) := t.nat
    let (Wa, _) := t.floats (d * h)
    let W : Fin d → Fin h → Float := matOf Wa d h
    " ".intercalate ((getSelection W).map fun i => toString i.val) ++ s!" | {nSelected W} | " ++ hexOfFloat (groupLassoPenalty W)
  | "groups" =>
    let (n, t) := t.nat
    let (G, t) := t.int
    let groups : Option (List (List Int)) := if G < 0 then none else some (readIntGroups G.toNat ([], t)).1
    match checkGroups groups n with
    | .error e => "err " ++ errName e
    | .ok none => "none"
    | .ok (some gs) => "ok " ++ groupsOut gs
  | "updlin" =>
    let (d, t) := t.nat
    let (K, t) := t.nat
    let (al, t) := t.float
    let (lr, t) := t.float
    match readOptGroups d t with
    | none => "index-error"
    | some (groups, t) =>
      let (Wa, _) := t.floats (d * K)
      let w : LinW Float d K := { W := matOf Wa d K, b := fun _ => 0 }
      match proxLinear groups al lr w with
      | none => "uninit"
      | some w' => matOut w'.W
  | "updmlp" =>
    let (d, t) := t.nat
    let (h, t) := t.nat
    let (K, t) := t.nat
    let (M, t) := t.float
    let (al, t) := t.float
    let (lr, t) := t.float
    match readOptGroups d t with
    | none => "index-error"
    | some (groups, t) =>
      let (Sa, t) := t.floats (d * K)
      let (Ua, _) := t.floats (d * h)
      let w : MlpW Float d h K :=
        { W1 := matOf Ua d h, W2 := fun _ _ => 0, Ws := matOf Sa d K, b1 := fun _ => 0, b2 := fun _ => 0 }
      match proxMlp groups M al lr w with
      | none => "uninit"
      | some w' => matOut w'.Ws ++ " " ++ matOut w'.W1
  | _ => "bad-op"

def main : IO Unit := serve step
