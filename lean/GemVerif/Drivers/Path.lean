/- Line-protocol driver for the regularisation-path model (C07): `Model/Path.lean`, weights tokens `ω = Nat`
   (0 = weights after the initial fit, `t` = weights after the `t`-th outer step). -/
import GemVerif.DriverUtil
import GemVerif.Model.Path

open GemVerif GemVerif.Drv GemVerif.Model.Path

def readEpochs : Nat → List (Epoch Float) × Toks → List (Epoch Float) × Toks
  | 0, acc => acc
  | n + 1, (es, t) =>
    let (sc, t) := t.float
    let (pen, t) := t.float
    let (nan, t) := t.nat
    readEpochs n (es ++ [{ score := sc, penalty := pen, isNaN := nan != 0 }], t)

def readSteps : Nat → Nat → List (StepObs Float Nat) × Toks → List (StepObs Float Nat) × Toks
  | 0, _, acc => acc
  | n + 1, id, (ss, t) =>
    let (vs, t) := t.float
    let (vp, t) := t.float
    let (ne, t) := t.nat
    let (es, t) := readEpochs ne ([], t)
    let (nSel, t) := t.nat
    let (pen, t) := t.float
    readSteps n (id + 1) (ss ++ [{ valScore := vs, valPenalty := vp, epochs := es, nSel := nSel, penalty := pen, weights := id }], t)

def exitName : Exit → String
  | .normal => "normal"
  | .nanAbort => "nanAbort"
  | .needMoreSteps => "needMoreSteps"
  | .needMoreEpochs => "needMoreEpochs"
  | .unboundScore => "unboundScore"

def b01 (b : Bool) : String := if b then "1" else "0"

/-- request
  `path d maxIter alpha0 mult minF keep esf maxPat restore dynamic hasY initScore initNSel T
        (valScore valPen E (score pen isnan)×E nSel penalty)×T`
  answer
  `exit <name> best <id> final <id> clfalpha <hex> warn <m><k><f><g><r><y> mult <hex> keep <hex> minf <int>
   steps <epochs run per started step…> | alphas… | nfeat… | geminis… | pens… | bestscore <hex>` -/
def step (t : Toks) : String :=
  let (op, t) := t.next
  match op with
  | "path" =>
    let (d, t) := t.nat
    let (maxIter, t) := t.nat
    let (alpha0, t) := t.float
    let (mult, t) := t.float
    let (minF, t) := t.int
    let (keep, t) := t.float
    let (esf, t) := t.float
    let (maxPat, t) := t.int
    let (restore, t) := t.nat
    let (dynamic, t) := t.nat
    let (hasY, t) := t.nat
    let (initScore, t) := t.float
    let (initNSel, t) := t.nat
    let (T, t) := t.nat
    let (steps, _) := readSteps T 1 ([], t)
    let args : PathArgs Float := { alphaMultiplier := mult, minFeatures := minF, keepThreshold := keep,
                                   earlyStoppingFactor := esf, maxPatience := maxPat }
    let tr : Trace Float Nat := { initScore := initScore, initNSel := initNSel, initWeights := 0, steps := steps }
    let (r, w) := runPath alpha0 maxIter d args tr
    let (fin, wr) := afterPath (restore != 0) (dynamic != 0) r
    let a := (normalise args d).1
    s!"exit {exitName r.exit} best {r.bestWeights} final {fin} clfalpha {hexOfFloat r.clfAlpha} warn "
      ++ b01 w.multiplier ++ b01 w.keepThreshold ++ b01 w.minFeatures ++ b01 w.minFeaturesGe ++ b01 wr
      ++ b01 (warnDynamicPrecomputed (hasY != 0) (dynamic != 0))
      ++ s!" mult {hexOfFloat a.alphaMultiplier} keep {hexOfFloat a.keepThreshold} minf {a.minFeatures} steps "
      ++ " ".intercalate (r.epochsRun.map toString)
      ++ " | " ++ floatsOut r.alphas ++ " | " ++ " ".intercalate (r.nFeatures.map toString)
      ++ " | " ++ floatsOut r.geminis ++ " | " ++ floatsOut r.penalties ++ " | bestscore " ++ hexOfFloat r.best
  | _ => "bad-op"

def main : IO Unit := serve step
