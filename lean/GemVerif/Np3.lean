/-
  Third part of the untyped NumPy of GemVerif/Np.lean: what translator/prox.py needs to transcribe the proximal
  operators of gemclus/sparse/_prox_grad.py (Gen/Prox.lean).

  Every array is 2-D here, except `np.arange(n)` (1-D, stored `(1, n)` as in Np2.lean).

  ORDER OF THE FLOATING-POINT OPERATIONS.
    * `np.linalg.norm(A, axis=1, keepdims=True)` is `sqrt(add.reduce(A * A, axis=1))`: `sumLTo` adds from the left,
      starting from 0 (`List.foldl`), unlike `sumTo` of Np.lean (`List.sum`, a right fold) — the order the hand model of
      Model/Prox.lean uses, and NumPy's for fewer than 8 summands.
    * `np.cumsum` is `add.accumulate`: `r[0] = a[0]`, `r[j+1] = r[j] + a[j+1]` (`cumsumTo`).
  SORTING.  `np.sort(A, axis=1)` is modelled by an ascending insertion sort with the Boolean `RealLike.le`
  (`sortAsc`).  Only the VALUES of the sorted row are observable, so any algorithm producing the sorted permutation
  would do — over a linear order; nothing is claimed about `NaN`s.
  INTEGER ARRAYS are `Arr Nat` (`np.sum(mask, axis=1, keepdims=True)`; the index argument of `np.take_along_axis`).
  An index out of range makes `ok := false` (NumPy raises IndexError).  Negative (wrap-around) indices do not exist here:
  row indices are `Nat`s.
  UNINITIALISED MEMORY.  `np.empty(shape)` is `Arr.empty junk r c`: an array whose entries are the arbitrary function
  `junk`, a parameter of the generated definition — theorems hold for every `junk`.
  FANCY INDEXING WITH A LIST OF ROWS.  `A[g]` is `takeRows A g`; `A[g] = R` is `setRows A g R`: rows are written in the
  order of `g`, so that for a row index occurring twice the LAST occurrence wins.  NumPy leaves that case unspecified
  ("if an element is set more than once, it is not possible to predict the final result"): statements about `setRows`
  that are meant to speak about NumPy must either assume `g` free of repetitions or show that the values written to
  one row coincide (what Lemmas/ProxGen.lean `RowsAre.setRows` asks for).
  LOOPS.  `for g in groups:` over a Python list becomes `List.foldl` over `groups : List (List Nat)`, the state being the
  arrays the body writes into.

  No Mathlib.
-/
import GemVerif.Np2

namespace GemVerif.Np
open GemVerif RealLike

/-- `0 + f 0 + f 1 + … + f (n-1)`, added from the left (`np.add.reduce` on a short row) -/
def sumLTo {α : Type} [Zero α] [Add α] (n : Nat) (f : Nat → α) : α :=
  (List.ofFn fun l : Fin n => f l.val).foldl (· + ·) 0

/-- `np.cumsum`: `f 0`, `f 0 + f 1`, `(f 0 + f 1) + f 2`, … -/
def cumsumTo {α : Type} [Add α] (f : Nat → α) : Nat → α
  | 0 => f 0
  | j + 1 => cumsumTo f j + f (j + 1)

/-- insert into a non-decreasing list -/
def insertAsc {α : Type} [RealLike α] (x : α) : List α → List α
  | [] => [x]
  | y :: ys => if le x y then x :: y :: ys else y :: insertAsc x ys

/-- `np.sort` of a row: the values in non-decreasing order -/
def sortAsc {α : Type} [RealLike α] (l : List α) : List α := l.foldr insertAsc []

/-- number of `j < n` with `p j` (`np.sum` of a Boolean row) -/
def countTo (n : Nat) (p : Nat → Bool) : Nat := ((List.range n).filter p).length

/-- `W[g] = …` writes the rows in the order of `g`: the position in `g` of the LAST occurrence of `i`, after `q`
    positions have been skipped (`acc`: what was found before) -/
def lastIdxAux (i : Nat) : List Nat → Nat → Option Nat → Option Nat
  | [], _, acc => acc
  | x :: xs, q, acc => lastIdxAux i xs (q + 1) (if x = i then some q else acc)

/-- position of the last occurrence of `i` in `g` -/
def lastIdx (g : List Nat) (i : Nat) : Option Nat := lastIdxAux i g 0 none

namespace Arr
variable {α : Type} [RealLike α]

/-! ### construction -/

/-- `np.zeros((r, c))` -/
def zeros (r c : Nat) : Arr α := { r := r, c := c, get := fun _ _ => 0 }

/-- `np.empty((r, c))`: uninitialised memory, whose contents are `junk` -/
def empty (junk : Nat → Nat → α) (r c : Nat) : Arr α := { r := r, c := c, get := junk }

/-- `np.full((r, c), s)`: every entry is the Python scalar `s` -/
def full (r c : Nat) (s : α) : Arr α := { r := r, c := c, get := fun _ _ => s }

/-- `np.arange(n)`: the 1-D array `0, 1, …, n-1` -/
def arange (n : Nat) : Arr α := { r := 1, c := n, get := fun _ j => nat j }

/-! ### elementwise -/

/-- `np.minimum(A, B)` (broadcasting) -/
def minimum (A B : Arr α) : Arr α := zipWith RealLike.min A B

/-- `A >= s` -/
def geS (A : Arr α) (s : α) : Arr Bool :=
  { r := A.r, c := A.c, get := fun i j => RealLike.le s (A.get i j), ok := A.ok }

/-- `A > B` between two arrays (broadcasting) -/
def gtA (A B : Arr α) : Arr Bool :=
  { r := bdim A.r B.r, c := bdim A.c B.c,
    get := fun i j => RealLike.lt (B.get (bidx B.r i) (bidx B.c j)) (A.get (bidx A.r i) (bidx A.c j)),
    ok := A.ok && B.ok && bok A.r B.r && bok A.c B.c }

/-- `np.where(M, s, A)` for a Boolean array, a Python scalar and an array (broadcasting) -/
def whereSA (M : Arr Bool) (s : α) (A : Arr α) : Arr α :=
  { r := bdim M.r A.r, c := bdim M.c A.c,
    get := fun i j => if M.get (bidx M.r i) (bidx M.c j) then s else A.get (bidx A.r i) (bidx A.c j),
    ok := M.ok && A.ok && bok M.r A.r && bok M.c A.c }

/-- `np.where(M, s, t)` for a Boolean array and two Python scalars -/
def whereSS (M : Arr Bool) (s t : α) : Arr α :=
  { r := M.r, c := M.c, get := fun i j => if M.get i j then s else t, ok := M.ok }

/-! ### along axis 1 -/

/-- `np.linalg.norm(A, axis=1, keepdims=True)` (also with `ord=2`): shape `(r, 1)` -/
def normAxis1 (A : Arr α) : Arr α :=
  { r := A.r, c := 1, get := fun i _ => RealLike.sqrt (sumLTo A.c fun l => A.get i l * A.get i l), ok := A.ok }

/-- `np.sort(A, axis=1)`: every row in non-decreasing order -/
def sortAxis1 (A : Arr α) : Arr α :=
  { A with get := fun i j => (sortAsc (List.ofFn fun l : Fin A.c => A.get i l.val)).getD j 0 }

/-- `A[:, ::-1]`: the columns in reverse order -/
def flipCols (A : Arr α) : Arr α := { A with get := fun i j => A.get i (A.c - 1 - j) }

/-- `np.cumsum(A, axis=1)` -/
def cumsumAxis1 (A : Arr α) : Arr α := { A with get := fun i j => cumsumTo (fun l => A.get i l) j }

/-- `np.concatenate([A, B], axis=1)`: NumPy raises unless the numbers of rows agree (no broadcasting) -/
def concat1 (A B : Arr α) : Arr α :=
  { r := A.r, c := A.c + B.c, get := fun i j => if j < A.c then A.get i j else B.get i (j - A.c),
    ok := A.ok && B.ok && A.r == B.r }

/-- `np.sum(M, axis=1, keepdims=True)` of a Boolean array: the `(r, 1)` integer array of the row counts -/
def countAxis1 (M : Arr Bool) : Arr Nat :=
  { r := M.r, c := 1, get := fun i _ => countTo M.c fun j => M.get i j, ok := M.ok }

/-- `np.take_along_axis(A, I, axis=1)`: `out[i, j] = A[i, I[i, j]]`; the row axis broadcasts, an index `≥ A.c` raises
    IndexError -/
def takeAlong1 (A : Arr α) (I : Arr Nat) : Arr α :=
  { r := bdim A.r I.r, c := I.c, get := fun i j => A.get (bidx A.r i) (I.get (bidx I.r i) j),
    ok := A.ok && I.ok && bok A.r I.r &&
      (List.range (bdim A.r I.r)).all fun i => (List.range I.c).all fun j => decide (I.get (bidx I.r i) j < A.c) }

/-! ### shapes -/

/-- `A.reshape((r, c))` of a 2-D array (row-major); NumPy raises unless the sizes agree -/
def reshape2 (A : Arr α) (r c : Nat) : Arr α :=
  { r := r, c := c, get := fun i j => A.get ((i * c + j) / A.c) ((i * c + j) % A.c),
    ok := A.ok && A.r * A.c == r * c }

/-- `A.reshape((1, -1))` of a 2-D array: the rows one after the other -/
def flattenRow (A : Arr α) : Arr α :=
  { r := 1, c := A.r * A.c, get := fun _ p => A.get (p / A.c) (p % A.c), ok := A.ok }

/-! ### rows selected by a list of indices -/

/-- `A[g]` for a list `g` of row indices: the `(len(g), c)` array of those rows; an index `≥ A.r` raises IndexError -/
def takeRows (A : Arr α) (g : List Nat) : Arr α :=
  { r := g.length, c := A.c, get := fun q j => A.get (g.getD q 0) j, ok := A.ok && g.all fun i => decide (i < A.r) }

/-- `A[g] = R` for a list `g` of row indices (the value broadcasts to `(len(g), A.c)`), rows written in the order
    of `g` -/
def setRows (A : Arr α) (g : List Nat) (R : Arr α) : Arr α :=
  { A with
    get := fun i j => match lastIdx g i with
      | some q => R.get (bidx R.r q) (bidx R.c j)
      | none => A.get i j
    ok := A.ok && R.ok && (g.all fun i => decide (i < A.r)) && (R.r == g.length || R.r == 1) && (R.c == A.c || R.c == 1) }

end Arr
end GemVerif.Np
