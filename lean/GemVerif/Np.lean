/-
  An UNTYPED little NumPy: the target language of translator/nets.py (Gen/Nets.lean).

  `Arr α` is a 2-D array whose shape is DATA (`r`, `c`), not a type index, exactly as in NumPy: every operation
  computes the shape of its result from the shapes of its arguments, broadcasts axes of size 1 and records in
  `ok` whether NumPy would have accepted the shapes (`ok = false` stands for the `ValueError` NumPy raises; it is
  sticky).  A `(1, K)` bias is an `Arr` with `r = 1`; a Python scalar stays a scalar (`α`), see `smul` / `muls`.

  Sums are `sumFin` (a `List.sum` over `List.ofFn`, in index order), the very same function the hand models of
  Model/Nets.lean use, so that "generated = hand model" holds by unfolding for every `[RealLike α]`
  (in particular for `Float`), not by commutativity.

  No Mathlib.
-/
import GemVerif.Num
import GemVerif.Model.Nets

namespace GemVerif.Np
open GemVerif RealLike

structure Arr (α : Type) where
  r : Nat
  c : Nat
  get : Nat → Nat → α
  /-- `false` = NumPy would have raised (shape mismatch, index out of range) somewhere on the way -/
  ok : Bool := true

/-- shape of a broadcast axis: equal sizes, or one of them is 1 (`bok` tells whether NumPy accepts the pair) -/
def bdim (a b : Nat) : Nat := if a = b then a else if a = 1 then b else a

def bok (a b : Nat) : Bool := a == b || a == 1 || b == 1

/-- index into an axis of size `r` under broadcasting: an axis of size 1 is read at 0 whatever the index -/
def bidx (r i : Nat) : Nat := if r = 1 then 0 else i

/-- `∑ l < n, f l`, as `sumFin` -/
def sumTo {α : Type} [Zero α] [Add α] (n : Nat) (f : Nat → α) : α := sumFin fun l : Fin n => f l.val

namespace Arr
variable {α : Type} [RealLike α]

/-- the value standing for "NumPy / Python raised" -/
def err : Arr α := { r := 0, c := 0, get := fun _ _ => 0, ok := false }

instance : Inhabited (Arr α) := ⟨err⟩

/-- an `n × k` array from a matrix-as-function (entries outside the shape are never read; they are 0) -/
def ofFn {n k : Nat} (f : Fin n → Fin k → α) : Arr α :=
  { r := n, c := k, get := fun i j => if hi : i < n then (if hj : j < k then f ⟨i, hi⟩ ⟨j, hj⟩ else 0) else 0 }

/-- a `1 × k` array from a vector-as-function (biases are stored as `(1, K)` arrays) -/
def ofRow {k : Nat} (f : Fin k → α) : Arr α :=
  { r := 1, c := k, get := fun _ j => if hj : j < k then f ⟨j, hj⟩ else 0 }

/-- same shape, same entries inside the shape, and no error on either side -/
def Eqv (A B : Arr α) : Prop :=
  A.ok = true ∧ B.ok = true ∧ A.r = B.r ∧ A.c = B.c ∧ ∀ i j, i < A.r → j < A.c → A.get i j = B.get i j

/-- lists of arrays (`return [-W_grad, -b_grad]`): same length, pairwise `Eqv` -/
def ListEqv : List (Arr α) → List (Arr α) → Prop
  | [], [] => True
  | a :: as, b :: bs => Eqv a b ∧ ListEqv as bs
  | _, _ => False

/-- `A @ B`, `np.dot(A, B)` on 2-D arrays -/
def matmul (A B : Arr α) : Arr α :=
  { r := A.r, c := B.c, get := fun i j => sumTo A.c fun l => A.get i l * B.get l j,
    ok := A.ok && B.ok && A.c == B.r }

/-- `A.T` -/
def transpose (A : Arr α) : Arr α := { r := A.c, c := A.r, get := fun i j => A.get j i, ok := A.ok }

/-- elementwise binary operation with NumPy broadcasting -/
def zipWith (f : α → α → α) (A B : Arr α) : Arr α :=
  { r := bdim A.r B.r, c := bdim A.c B.c,
    get := fun i j => f (A.get (bidx A.r i) (bidx A.c j)) (B.get (bidx B.r i) (bidx B.c j)),
    ok := A.ok && B.ok && bok A.r B.r && bok A.c B.c }

/-- `A + B` -/
def add (A B : Arr α) : Arr α := zipWith (· + ·) A B
/-- `A - B` -/
def sub (A B : Arr α) : Arr α := zipWith (· - ·) A B
/-- `A * B` (elementwise) -/
def mul (A B : Arr α) : Arr α := zipWith (· * ·) A B
/-- `A / B` (elementwise) -/
def div (A B : Arr α) : Arr α := zipWith (· / ·) A B

/-- `-A` -/
def neg (A : Arr α) : Arr α := { A with get := fun i j => -(A.get i j) }

/-- `s * A` for a Python scalar `s` -/
def smul (s : α) (A : Arr α) : Arr α := { A with get := fun i j => s * A.get i j }

/-- `A * s` for a Python scalar `s` -/
def muls (A : Arr α) (s : α) : Arr α := { A with get := fun i j => A.get i j * s }

/-- `A.sum(0, keepdims=True)`: shape `(1, c)` -/
def sumAxis0 (A : Arr α) : Arr α :=
  { r := 1, c := A.c, get := fun _ j => sumTo A.r fun l => A.get l j, ok := A.ok }

/-- `A.sum(1, keepdims=True)`: shape `(r, 1)` -/
def sumAxis1 (A : Arr α) : Arr α :=
  { r := A.r, c := 1, get := fun i _ => sumTo A.c fun l => A.get i l, ok := A.ok }

/-- `A > 0` as the 0/1 mask it becomes when a float array is multiplied by it -/
def gt0 (A : Arr α) : Arr α := { A with get := fun i j => ofBool (lt 0 (A.get i j)) }

/-- `np.maximum(A, 0)` -/
def maximum0 (A : Arr α) : Arr α := { A with get := fun i j => max (A.get i j) 0 }

/-- one row of `sklearn.utils.extmath.softmax` on a row of length `K` given as a function on `Nat` -/
def softmaxRowN (K : Nat) (z : Nat → α) (j : Nat) : α :=
  if h : j < K then Model.Nets.softmaxRow (fun k : Fin K => z k.val) ⟨j, h⟩ else 0

/-- `sklearn.utils.extmath.softmax(A)`: row-wise, subtract the row max, exponentiate, divide by the row sum -/
def softmax (A : Arr α) : Arr α := { A with get := fun i j => softmaxRowN A.c (fun k => A.get i k) j }

/-- `L[i]` on a Python list of arrays (`err` stands for IndexError) -/
def nth (L : List (Arr α)) (i : Nat) : Arr α := L.getD i err

/-- `L[i] = A` on a Python list of arrays (an index out of range poisons the list: IndexError) -/
def setNth (L : List (Arr α)) (i : Nat) (A : Arr α) : List (Arr α) :=
  if i < L.length then L.set i A else [err]

end Arr
end GemVerif.Np
