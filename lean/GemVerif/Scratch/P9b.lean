import GemVerif.Lemmas.Np2
import GemVerif.Gen.Geminis
import GemVerif.Model.Gemini
import GemVerif.NumReal

namespace GemVerif.Props.C01Gen
open GemVerif GemVerif.RealLike GemVerif.Np GemVerif.Np.Arr GemVerif.Model

variable {n K : Nat}
set_option linter.unusedSimpArgs false

theorem centering_matmul {n : ℕ} (c : ℝ) (M : Fin n → Fin n → ℝ) (x : Fin n → ℝ) (i : Fin n) :
    ∑ l, (∑ m : Fin n, ((if (i : ℕ) = (m : ℕ) then (1 : ℝ) else 0) - c) * M m l) * x l
      = ∑ j, M i j * x j - c * ∑ m, ∑ j, M m j * x j := by
  have h1 : ∀ l, ∑ m : Fin n, ((if (i : ℕ) = (m : ℕ) then (1 : ℝ) else 0) - c) * M m l = M i l - c * ∑ m, M m l := by
    intro l
    have h2 : ∀ m : Fin n, ((if (i : ℕ) = (m : ℕ) then (1 : ℝ) else 0) - c) * M m l
        = (if i = m then M m l else 0) - c * M m l := by
      intro m
      by_cases h : i = m
      · subst h; simp [sub_mul]
      · have hv : (i : ℕ) ≠ m := fun e => h (Fin.ext e)
        simp [h, hv]
    rw [Finset.sum_congr rfl fun m _ => h2 m, Finset.sum_sub_distrib, Finset.sum_ite_eq, Finset.mul_sum]
    simp
  rw [Finset.sum_congr rfl fun l _ => by rw [h1 l, sub_mul], Finset.sum_sub_distrib]
  congr 1
  have h3 : ∀ l, (c * ∑ m, M m l) * x l = ∑ m, c * (M m l * x l) := by
    intro l; rw [mul_assoc, Finset.sum_mul, Finset.mul_sum]
  rw [Finset.sum_congr rfl fun l _ => h3 l, Finset.sum_comm]
  simp only [Finset.mul_sum]

theorem mmd_ova_grad_snd_eq (ε : ℝ) (P : Fin n → Fin K → ℝ) (κ : Fin n → Fin n → ℝ) :
    Eqv (Gen.Geminis.mmd_ova_grad ε (ofFn P) (ofFn κ)).2 (ofFn (mmdGrad ε false P κ)) := by
  unfold Gen.Geminis.mmd_ova_grad
  extract_lets clip_mask y1 N nk pi alpha gamma omega a b c delta value tau_grad delta_mask g g1 flags
  have hy : IsMat y1 (clipP ε P) := by
    refine ⟨?_, ?_, ?_, ?_⟩ <;> simp [y1, clipP]
  obtain ⟨hy_ok, hy_r, hy_c, hy_get⟩ := hy
  clear_value y1
  have hN : N = n := by simp [N, hy_r]
  clear_value N
  subst hN
  have hpi : IsRow pi (mean0 (clipP ε P)) := by
    refine ⟨?_, ?_, ?_, ?_⟩ <;> simp [pi, mean0, hy_ok, hy_r, hy_c, hy_get]
  obtain ⟨hpi_ok, hpi_r, hpi_c, hpi_get⟩ := hpi
  clear_value pi
  have hal : IsMat alpha (mmdAlpha ε P) := by
    refine ⟨?_, ?_, ?_, ?_⟩ <;> simp [alpha, div, mmdAlpha, hy_ok, hy_r, hy_c, hy_get, hpi_ok, hpi_r, hpi_c, hpi_get]
  obtain ⟨hal_ok, hal_r, hal_c, hal_get⟩ := hal
  clear_value alpha
  have hnk : IsMat nk (fun i j : Fin N => κ i j / ((N : ℝ) * N)) := by
    refine ⟨?_, ?_, ?_, ?_⟩ <;> simp [nk]
  obtain ⟨hnk_ok, hnk_r, hnk_c, hnk_get⟩ := hnk
  clear_value nk
  have hga : IsMat gamma (mmdGamma ε P κ) := by
    refine ⟨?_, ?_, ?_, ?_⟩ <;> simp [gamma, mmdGamma, hnk_ok, hnk_r, hnk_c, hnk_get, hal_ok, hal_r, hal_c, hal_get]
  obtain ⟨hga_ok, hga_r, hga_c, hga_get⟩ := hga
  clear_value gamma
  have hde : IsRow delta (mmdDeltaOva ε P κ) := by
    refine ⟨?_, ?_, ?_, ?_⟩ <;> simp [delta, a, b, c, omega, add, sub, mul, mmdDeltaOva, hnk_ok, hnk_r, hnk_c, hnk_get,
      hal_ok, hal_r, hal_c, hal_get, hga_ok, hga_r, hga_c, hga_get]
  obtain ⟨hde_ok, hde_r, hde_c, hde_get⟩ := hde
  have habc : omega.ok = true ∧ a.ok = true ∧ b.ok = true ∧ c.ok = true := by
    simp [a, b, c, omega, mul, hnk_ok, hal_ok, hal_r, hal_c, hga_ok, hga_r, hga_c]
  clear_value delta a b c omega
  have hval_ok : value.ok = true := by
    simp [value, hpi_ok, hpi_r, hpi_c, hde_ok, hde_r, hde_c]
  clear_value value
  have htau : IsMat tau_grad (fun (i : Fin N) (k : Fin K) =>
      (∑ j, κ i j / ((N : ℝ) * N) * (mmdAlpha ε P j k - 1))
        - (∑ i', ∑ j, κ i' j / ((N : ℝ) * N) * (mmdAlpha ε P j k - 1)) / N) := by
    refine ⟨?_, ?_, ?_, ?_⟩
    · simp [tau_grad, hnk_ok, hnk_r, hnk_c, hal_ok, hal_r, hal_c]
    · simp [tau_grad, hnk_ok, hnk_r, hnk_c, hal_ok, hal_r, hal_c]
    · simp [tau_grad, hnk_ok, hnk_r, hnk_c, hal_ok, hal_r, hal_c]
    · intro i k
      simp [tau_grad, hnk_ok, hnk_r, hnk_c, hnk_get, hal_ok, hal_r, hal_c, hal_get]
      refine (centering_matmul _ _ _ i).trans ?_
      ring
  obtain ⟨htau_ok, htau_r, htau_c, htau_get⟩ := htau
  clear_value tau_grad
  apply eqv_ofFn
  · simp [flags, g1, g, delta_mask, clip_mask, add, sub, mul, div, hy_ok, hnk_ok, hpi_ok, hal_ok, hga_ok, habc, hde_ok, hde_r, hde_c, hval_ok, htau_ok, htau_r, htau_c]
  · simp [flags, g1, g, delta_mask, clip_mask, add, sub, mul, div, hy_ok, hnk_ok, hpi_ok, hal_ok, hga_ok, habc, hde_ok, hde_r, hde_c, hval_ok, htau_ok, htau_r, htau_c]
  · simp [flags, g1, g, delta_mask, clip_mask, add, sub, mul, div, hy_ok, hnk_ok, hpi_ok, hal_ok, hga_ok, habc, hde_ok, hde_r, hde_c, hval_ok, htau_ok, htau_r, htau_c]
  · intro i k
    simp [g1, g, delta_mask, clip_mask, add, sub, mul, div, hde_r, hde_c, hde_get, htau_r, htau_c, htau_get, mmdGrad, clipMask, meanV]
    split_ifs with h <;> simp [h, ofBool]

end GemVerif.Props.C01Gen
