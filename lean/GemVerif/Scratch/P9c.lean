import GemVerif.Lemmas.Np2
import GemVerif.Gen.Geminis
import GemVerif.Model.Gemini
import GemVerif.NumReal

namespace GemVerif.Props.C01Gen
open GemVerif GemVerif.RealLike GemVerif.Np GemVerif.Np.Arr GemVerif.Model

variable {n K : Nat}
set_option linter.unusedSimpArgs false

theorem mmd_ovo_grad_snd_eq (ε : ℝ) (P : Fin n → Fin K → ℝ) (κ : Fin n → Fin n → ℝ) :
    Eqv (Gen.Geminis.mmd_ovo_grad ε (ofFn P) (ofFn κ)).2 (ofFn (mmdGrad ε true P κ)) := by
  unfold Gen.Geminis.mmd_ovo_grad
  extract_lets clip_mask y1 N nk pi alpha gamma omega A delta value Lambda Lambda1 Lambda2 g g1 g2 g3 g4 g5 g6 flags
  have hy : IsMat y1 (clipP ε P) := by
    refine ⟨?_, ?_, ?_, ?_⟩ <;> simp [y1, clipP]
  obtain ⟨hy_ok, hy_r, hy_c, hy_get⟩ := hy
  clear_value y1
  have hN : N = n := by simp [N, hy_r]
  clear_value N
  subst hN
  have hpi : IsRow pi (mean0 (clipP ε P)) := by
    refine ⟨?_, ?_, ?_, ?_⟩ <;> simp [pi, mean0, hy_ok, hy_r, hy_c, hy_get]
  obtain ⟨hpi_ok, hpi_r, hpi_c, hpi_get⟩ := hpi
  clear_value pi
  have hal : IsMat alpha (mmdAlpha ε P) := by
    refine ⟨?_, ?_, ?_, ?_⟩ <;> simp [alpha, div, mmdAlpha, hy_ok, hy_r, hy_c, hy_get, hpi_ok, hpi_r, hpi_c, hpi_get]
  obtain ⟨hal_ok, hal_r, hal_c, hal_get⟩ := hal
  clear_value alpha
  have hga : IsMat gamma (mmdGamma ε P κ) := by
    refine ⟨?_, ?_, ?_, ?_⟩ <;> simp [gamma, nk, mmdGamma, hal_ok, hal_r, hal_c, hal_get]
  obtain ⟨hga_ok, hga_r, hga_c, hga_get⟩ := hga
  have hnk_ok : nk.ok = true := by simp [nk]
  clear_value gamma nk
  have hom : IsMat omega (fun a b : Fin K => ∑ i, mmdAlpha ε P i a * mmdGamma ε P κ i b) := by
    refine ⟨?_, ?_, ?_, ?_⟩ <;> simp [omega, hal_ok, hal_r, hal_c, hal_get, hga_ok, hga_r, hga_c, hga_get]
  obtain ⟨hom_ok, hom_r, hom_c, hom_get⟩ := hom
  clear_value omega
  have hA : IsRow A (fun b : Fin K => ∑ i, mmdAlpha ε P i b * mmdGamma ε P κ i b) := by
    refine ⟨?_, ?_, ?_, ?_⟩ <;> simp [A, hom_ok, hom_r, hom_c, hom_get]
  obtain ⟨hA_ok, hA_r, hA_c, hA_get⟩ := hA
  clear_value A
  have hde : IsMat delta (mmdDeltaOvo ε P κ) := by
    refine ⟨?_, ?_, ?_, ?_⟩ <;> simp [delta, add, mmdDeltaOvo, hom_ok, hom_r, hom_c, hom_get, hA_ok, hA_r, hA_c, hA_get]
  obtain ⟨hde_ok, hde_r, hde_c, hde_get⟩ := hde
  clear_value delta
  have hL : IsMat Lambda2 (fun a b : Fin K => if a = b then 0 else if mmdDeltaOvo ε P κ a b = 0 then 0 else
      mean0 (clipP ε P) a * mean0 (clipP ε P) b / mmdDeltaOvo ε P κ a b) := by
    refine ⟨?_, ?_, ?_, ?_⟩
    · simp [Lambda2, Lambda1, Lambda, add, sub, div, hpi_ok, hpi_r, hpi_c, hde_ok, hde_r, hde_c]
    · simp [Lambda2, Lambda1, Lambda, add, sub, div, hpi_ok, hpi_r, hpi_c, hde_ok, hde_r, hde_c]
    · simp [Lambda2, Lambda1, Lambda, add, sub, div, hpi_ok, hpi_r, hpi_c, hde_ok, hde_r, hde_c]
    · intro a b
      simp [Lambda2, Lambda1, Lambda, add, sub, div, hpi_ok, hpi_r, hpi_c, hpi_get, hde_ok, hde_r, hde_c, hde_get]
      by_cases hab : a = b
      · subst hab; simp
      · have hv : (a : ℕ) ≠ b := fun h => hab (Fin.ext h)
        simp [hab, hv]
  obtain ⟨hL_ok, hL_r, hL_c, hL_get⟩ := hL
  have hLam_ok : Lambda.ok = true ∧ Lambda1.ok = true := by
    constructor <;> simp [Lambda1, Lambda, add, sub, div, hpi_ok, hpi_r, hpi_c, hde_ok, hde_r, hde_c]
  clear_value Lambda2 Lambda1 Lambda
  have hval_ok : value.ok = true := by
    simp [value, hpi_ok, hpi_r, hpi_c, hde_ok, hde_r, hde_c]
  clear_value value
  apply eqv_ofFn
  · simp [flags, g6, g5, g4, g3, g2, g1, g, clip_mask, add, sub, mul, div, hy_ok, hnk_ok, hpi_ok, hpi_r, hpi_c, hal_ok, hal_r, hal_c, hga_ok, hga_r, hga_c,
      hom_ok, hA_ok, hA_r, hA_c, hde_ok, hde_r, hde_c, hL_ok, hL_r, hL_c, hLam_ok, hval_ok]
  · simp [g6, g5, g4, g3, g2, g1, g, clip_mask, add, sub, mul, div, hy_ok, hnk_ok, hpi_ok, hpi_r, hpi_c, hal_ok, hal_r, hal_c, hga_ok, hga_r, hga_c,
      hom_ok, hA_ok, hA_r, hA_c, hde_ok, hde_r, hde_c, hL_ok, hL_r, hL_c, hLam_ok, hval_ok]
  · simp [g6, g5, g4, g3, g2, g1, g, clip_mask, add, sub, mul, div, hy_ok, hnk_ok, hpi_ok, hpi_r, hpi_c, hal_ok, hal_r, hal_c, hga_ok, hga_r, hga_c,
      hom_ok, hA_ok, hA_r, hA_c, hde_ok, hde_r, hde_c, hL_ok, hL_r, hL_c, hLam_ok, hval_ok]
  · intro i k
    simp [g6, g5, g4, g3, g2, g1, g, clip_mask, add, sub, mul, div, hpi_r, hpi_c, hal_r, hal_c, hga_r, hga_c,
      hA_r, hA_c, hde_r, hde_c, hL_r, hL_c, hpi_get, hal_get, hga_get, hA_get, hde_get, hL_get, mmdGrad, clipMask, meanV]
    trace_state
    sorry

end GemVerif.Props.C01Gen
