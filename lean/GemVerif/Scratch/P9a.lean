import GemVerif.Lemmas.Np2
import GemVerif.Gen.Geminis
import GemVerif.Model.Gemini

namespace GemVerif.Props.C01Gen
open GemVerif GemVerif.RealLike GemVerif.Np GemVerif.Np.Arr GemVerif.Model

variable {α : Type} [RealLike α] {n K : Nat}
set_option linter.unusedSimpArgs false

theorem kl_ovo_eq (ε : α) (P : Fin n → Fin K → α) (A : Arr α) :
    Eqv (Gen.Geminis.kl_ovo ε (ofFn P) A) (ofScalar (klScore ε true P)) := by
  apply eqv_ofScalar <;> simp [Gen.Geminis.kl_ovo, sub, mul, klScore, clipP, mean0, meanV]

theorem kl_ovo_grad_snd_eq (ε : α) (P : Fin n → Fin K → α) (A : Arr α) :
    Eqv (Gen.Geminis.kl_ovo_grad ε (ofFn P) A).2 (ofFn (klGrad ε true P)) := by
  apply eqv_ofFn <;> simp [Gen.Geminis.kl_ovo_grad, sub, mul, add, div, klGrad, clipP, clipMask, mean0, meanV]

theorem tv_ova_eq (ε : α) (P : Fin n → Fin K → α) (A : Arr α) :
    Eqv (Gen.Geminis.tv_ova ε (ofFn P) A) (ofScalar (tvScore ε false P)) := by
  apply eqv_ofScalar <;> simp [Gen.Geminis.tv_ova, sub, mul, add, div, tvScore, clipP, clipMask, mean0, meanV]

theorem tv_ova_grad_snd_eq (ε : α) (P : Fin n → Fin K → α) (A : Arr α) :
    Eqv (Gen.Geminis.tv_ova_grad ε (ofFn P) A).2 (ofFn (tvGrad ε false P)) := by
  apply eqv_ofFn <;> simp [Gen.Geminis.tv_ova_grad, sub, mul, add, div, tvGrad, clipP, clipMask, mean0, meanV]

theorem hellinger_ova_eq (ε : α) (P : Fin n → Fin K → α) (A : Arr α) :
    Eqv (Gen.Geminis.hellinger_ova ε (ofFn P) A) (ofScalar (hellingerScore ε false P)) := by
  apply eqv_ofScalar <;> simp [Gen.Geminis.hellinger_ova, sub, mul, add, div, hellingerScore, clipP, clipMask, mean0, meanV]

theorem hellinger_ovo_eq (ε : α) (P : Fin n → Fin K → α) (A : Arr α) :
    Eqv (Gen.Geminis.hellinger_ovo ε (ofFn P) A) (ofScalar (hellingerScore ε true P)) := by
  apply eqv_ofScalar <;> simp [Gen.Geminis.hellinger_ovo, sub, mul, add, div, hellingerScore, clipP, clipMask, mean0, meanV]

theorem hellinger_ova_grad_snd_eq (ε : α) (P : Fin n → Fin K → α) (A : Arr α) :
    Eqv (Gen.Geminis.hellinger_ova_grad ε (ofFn P) A).2 (ofFn (hellingerGrad ε false P)) := by
  apply eqv_ofFn <;> simp [Gen.Geminis.hellinger_ova_grad, sub, mul, add, div, hellingerGrad, clipP, clipMask, mean0, meanV]

theorem hellinger_ovo_grad_snd_eq (ε : α) (P : Fin n → Fin K → α) (A : Arr α) :
    Eqv (Gen.Geminis.hellinger_ovo_grad ε (ofFn P) A).2 (ofFn (hellingerGrad ε true P)) := by
  apply eqv_ofFn <;> simp [Gen.Geminis.hellinger_ovo_grad, sub, mul, add, div, hellingerGrad, clipP, clipMask, mean0, meanV]

theorem chi2_ova_eq (ε : α) (P : Fin n → Fin K → α) (A : Arr α) :
    Eqv (Gen.Geminis.chi2_ova ε (ofFn P) A) (ofScalar (chi2Score ε false P)) := by
  apply eqv_ofScalar <;> simp [Gen.Geminis.chi2_ova, sub, mul, add, div, chi2Score, clipP, clipMask, mean0, meanV]

theorem chi2_ova_grad_snd_eq (ε : α) (P : Fin n → Fin K → α) (A : Arr α) :
    Eqv (Gen.Geminis.chi2_ova_grad ε (ofFn P) A).2 (ofFn (chi2Grad ε false P)) := by
  apply eqv_ofFn <;> simp [Gen.Geminis.chi2_ova_grad, sub, mul, add, div, chi2Grad, clipP, clipMask, mean0, meanV]

theorem chi2_ovo_grad_snd_eq (ε : α) (P : Fin n → Fin K → α) (A : Arr α) :
    Eqv (Gen.Geminis.chi2_ovo_grad ε (ofFn P) A).2 (ofFn (chi2Grad ε true P)) := by
  apply eqv_ofFn <;> simp [Gen.Geminis.chi2_ovo_grad, sub, mul, add, div, chi2Grad, clipP, clipMask, mean0, meanV]

theorem mmd_ova_eq (ε : α) (P : Fin n → Fin K → α) (κ : Fin n → Fin n → α) :
    Eqv (Gen.Geminis.mmd_ova ε (ofFn P) (ofFn κ)) (ofScalar (mmdScore ε false P κ)) := by
  apply eqv_ofScalar <;> simp [Gen.Geminis.mmd_ova, sub, mul, add, div, mmdScore, mmdDeltaOva, mmdGamma, mmdAlpha, clipP, clipMask, mean0, meanV]

theorem mmd_ovo_eq (ε : α) (P : Fin n → Fin K → α) (κ : Fin n → Fin n → α) :
    Eqv (Gen.Geminis.mmd_ovo ε (ofFn P) (ofFn κ)) (ofScalar (mmdScore ε true P κ)) := by
  apply eqv_ofScalar <;> simp [Gen.Geminis.mmd_ovo, sub, mul, add, div, mmdScore, mmdDeltaOvo, mmdGamma, mmdAlpha, clipP, clipMask, mean0, meanV]

end GemVerif.Props.C01Gen
