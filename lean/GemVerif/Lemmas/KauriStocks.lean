/-
  Helper lemmas for `Props/C08Stocks.lean` (C08, "the gain attached to the chosen split equals the actual increase of
  the objective": from stocks to sets).  Everything is over ℝ.

  Part 1: algebra of `stock κ A B = σ(A × B)` on lists (append, permutation, symmetry).
  Part 2: the incremental accumulators of the sorted scan of `find_best_split` (`accAt`, hence the record `candAt`)
          ARE the stocks of the left part / right part of the sorted leaf (`AccIs`, `accAt_is`).
-/
import GemVerif.Lemmas.KauriC08
import GemVerif.Lemmas.KauriSpec
import GemVerif.Props.C08
import Mathlib.Tactic.Ring
import Mathlib.Tactic.Linarith
import Mathlib.Algebra.BigOperators.Group.List.Basic
import Mathlib.Algebra.BigOperators.Group.Finset.Basic
import Mathlib.Tactic.FieldSimp

namespace GemVerif.KauriStocks
open GemVerif RealLike Model.Kauri KauriC08

attribute [local instance low] GemVerif.Model.Kauri.instInhabited_gemVerif

/-! ## Part 1: `stock` on lists -/

theorem sumL_eq_sum (l : List ℝ) : sumL l = l.sum := by
  unfold sumL
  rw [List.sum_eq_foldl]

theorem stock_eq (κ : Nat → Nat → ℝ) (A B : List Nat) :
    stock κ A B = (A.map fun i => (B.map fun j => κ i j).sum).sum := by
  unfold stock
  rw [sumL_eq_sum]
  congr 1
  apply List.map_congr_left
  intro i _
  exact sumL_eq_sum _

section stock
variable (κ : Nat → Nat → ℝ)

@[simp] theorem stock_nil_left (B : List Nat) : stock κ [] B = 0 := by
  rw [stock_eq]; rfl

@[simp] theorem stock_nil_right (A : List Nat) : stock κ A [] = 0 := by
  rw [stock_eq]
  induction A with
  | nil => rfl
  | cons a A ih => simp

theorem stock_cons_left (a : Nat) (A B : List Nat) :
    stock κ (a :: A) B = (B.map fun j => κ a j).sum + stock κ A B := by
  simp only [stock_eq, List.map_cons, List.sum_cons]

theorem stock_singleton_left (a : Nat) (B : List Nat) : stock κ [a] B = (B.map fun j => κ a j).sum := by
  rw [stock_cons_left, stock_nil_left, add_zero]

theorem stock_append_left (A₁ A₂ B : List Nat) : stock κ (A₁ ++ A₂) B = stock κ A₁ B + stock κ A₂ B := by
  simp only [stock_eq, List.map_append, List.sum_append]

theorem stock_append_right (A B₁ B₂ : List Nat) : stock κ A (B₁ ++ B₂) = stock κ A B₁ + stock κ A B₂ := by
  induction A with
  | nil => simp
  | cons a A ih =>
    rw [stock_cons_left, stock_cons_left, stock_cons_left, ih, List.map_append, List.sum_append]
    ring

theorem stock_cons_right (A : List Nat) (b : Nat) (B : List Nat) :
    stock κ A (b :: B) = stock κ A [b] + stock κ A B :=
  stock_append_right κ A [b] B

theorem stock_perm_left {A A' : List Nat} (h : A.Perm A') (B : List Nat) : stock κ A B = stock κ A' B := by
  rw [stock_eq, stock_eq]
  exact (h.map _).sum_eq

theorem stock_perm_right (A : List Nat) {B B' : List Nat} (h : B.Perm B') : stock κ A B = stock κ A B' := by
  rw [stock_eq, stock_eq]
  congr 1
  apply List.map_congr_left
  intro i _
  exact (h.map _).sum_eq

theorem stock_perm {A A' B B' : List Nat} (hA : A.Perm A') (hB : B.Perm B') : stock κ A B = stock κ A' B' :=
  (stock_perm_left κ hA B).trans (stock_perm_right κ A' hB)

theorem stock_singleton_singleton (a b : Nat) : stock κ [a] [b] = κ a b := by
  rw [stock_singleton_left]; simp

theorem stock_singleton_right' (a : Nat) (B : List Nat) :
    stock (fun i j => κ j i) B [a] = (B.map fun j => κ a j).sum := by
  induction B with
  | nil => simp
  | cons b B ihB =>
    rw [List.map_cons, List.sum_cons, stock_cons_left, ihB]
    simp

/-- exchanging the two factors transposes the kernel -/
theorem stock_swap (A B : List Nat) : stock κ A B = stock (fun i j => κ j i) B A := by
  induction A with
  | nil => simp
  | cons a A ih =>
    rw [stock_cons_left, stock_cons_right, ih, stock_singleton_right']

variable {κ}

/-- σ(A × B) = σ(B × A) for a symmetric kernel -/
theorem stock_comm (hsym : ∀ i j, κ i j = κ j i) (A B : List Nat) : stock κ A B = stock κ B A := by
  rw [stock_swap]
  congr 1
  funext i j
  exact hsym j i

/-- σ((A ⊎ B)²) = σ(A²) + 2σ(A × B) + σ(B²) -/
theorem stock_append_sq (hsym : ∀ i j, κ i j = κ j i) (A B : List Nat) :
    stock κ (A ++ B) (A ++ B) = stock κ A A + 2 * stock κ A B + stock κ B B := by
  rw [stock_append_left, stock_append_right, stock_append_right, stock_comm hsym B A]
  ring

/-- adding the set `L` to the cluster `P`: σ((P ⊎ L)²) = σ(P²) + 2σ(L × P) + σ(L²) -/
theorem stock_add (hsym : ∀ i j, κ i j = κ j i) (P L : List Nat) :
    stock κ (P ++ L) (P ++ L) = stock κ P P + 2 * stock κ L P + stock κ L L := by
  rw [stock_append_sq hsym, stock_comm hsym P L]

/-- removing the subset `L` from the cluster `C = L ⊎ Rest`: σ(Rest²) = σ(C²) − 2σ(L × C) + σ(L²) -/
theorem stock_remove (hsym : ∀ i j, κ i j = κ j i) {C L Rest : List Nat} (h : C.Perm (L ++ Rest)) :
    stock κ Rest Rest = stock κ C C - 2 * stock κ L C + stock κ L L := by
  rw [stock_perm κ h h, stock_perm_right κ L h, stock_append_sq hsym, stock_append_right]
  ring

end stock

/-! ## Part 2: the accumulators of the scan are stocks -/

section arrays

theorem getElem!_toArray {β : Type} [Inhabited β] (L : List β) (m : Nat) (hm : m < L.length) :
    L.toArray[m]! = L[m] := by
  simp [hm]

/-- `Σ_{t < m} g(nu[t])` runs over the first `m` elements -/
theorem map_range_take (L : List Nat) (g : Nat → ℝ) (m : Nat) (hm : m ≤ L.length) :
    ((List.range m).map fun t => g (L.toArray[t]!)) = (L.take m).map g := by
  apply List.ext_getElem
  · simp [hm]
  · intro t h1 h2
    simp only [List.length_map, List.length_range] at h1
    simp only [List.getElem_map, List.getElem_range, List.getElem_take]
    rw [getElem!_toArray L t (by omega)]

/-- `Σ_{d < n - s} g(nu[s + d])` runs over the elements from position `s` on -/
theorem map_range_drop (L : List Nat) (g : Nat → ℝ) (s d : Nat) (h : s + d = L.length) :
    ((List.range d).map fun t => g (L.toArray[s + t]!)) = (L.drop s).map g := by
  apply List.ext_getElem
  · simp; omega
  · intro t h1 h2
    simp only [List.length_map, List.length_range] at h1
    simp only [List.getElem_map, List.getElem_range, List.getElem_drop]
    rw [getElem!_toArray L (s + t) (by omega)]

theorem getElem!_ofFn {β : Type} [Inhabited β] {n : Nat} (g : Fin n → β) (c : Nat) (hc : c < n) :
    (Array.ofFn g)[c]! = g ⟨c, hc⟩ := by
  simp [hc]

end arrays

section scan
variable (κ X : Nat → Nat → ℝ) (a : Assign) (nClusters nLeaves : Nat)

/-- the sorted order of the samples of leaf `j` along feature `f`, as a list (`nuOf` is its array) -/
noncomputable abbrev nuL (j f : Nat) : List Nat := KauriSpec.nuList X (a.samplesOfLeaf j) f

theorem nuOf_eq (j f : Nat) : nuOf X a j f = (nuL X a j f).toArray := rfl

theorem nuL_perm (j f : Nat) : (nuL X a j f).Perm (a.samplesOfLeaf j) := KauriSpec.nuList_perm X _ f

theorem nuL_length (j f : Nat) : (nuL X a j f).length = nLeafOf a j := (nuL_perm X a j f).length_eq

theorem mem_nuL_lt {j f i : Nat} (h : i ∈ nuL X a j f) : i < a.n :=
  ((KauriC09.mem_samplesOfLeaf a j i).1 ((nuL_perm X a j f).mem_iff.1 h)).1

/-- the samples of cluster `c` as `find_best_split` sees them -/
abbrev clusterL (c : Nat) : List Nat := a.samplesOfCluster nLeaves c

theorem clusterSamplesOf_get {c : Nat} (hc : c < nClusters) :
    (clusterSamplesOf a nClusters nLeaves)[c]! = clusterL a nLeaves c := by
  unfold clusterSamplesOf
  rw [getElem!_ofFn _ c hc]

/-- `omega[c, i] = σ(C_c × {i})` -/
theorem omegaOf_get {c i : Nat} (hc : c < nClusters) (hi : i < a.n) :
    ((omegaOf κ a nClusters nLeaves)[c]!)[i]! = stock κ (clusterL a nLeaves c) [i] := by
  unfold omegaOf
  have hsz : (clusterSamplesOf a nClusters nLeaves).size = nClusters := by simp [clusterSamplesOf]
  have h1 : ((clusterSamplesOf a nClusters nLeaves).map fun cs =>
      Array.ofFn fun i : Fin a.n => sumL (cs.map fun j => κ j i.val))[c]! =
      Array.ofFn fun i : Fin a.n => sumL (((clusterSamplesOf a nClusters nLeaves)[c]!).map fun j => κ j i.val) := by
    simp [hsz, hc]
  rw [h1, getElem!_ofFn _ i hi, clusterSamplesOf_get a nClusters nLeaves hc, sumL_eq_sum, stock_eq]
  simp

/-- `Σ_{i ∈ A} omega[c, i] = σ(C_c × A)` -/
theorem sum_omegaOf {c : Nat} (hc : c < nClusters) (A : List Nat) (hA : ∀ i ∈ A, i < a.n) :
    sumL (A.map fun i => ((omegaOf κ a nClusters nLeaves)[c]!)[i]!) = stock κ (clusterL a nLeaves c) A := by
  rw [sumL_eq_sum]
  induction A with
  | nil => simp
  | cons i A ih =>
    rw [List.map_cons, List.sum_cons, ih (fun i hi => hA i (List.mem_cons_of_mem _ hi)),
      omegaOf_get κ a nClusters nLeaves hc (hA i List.mem_cons_self)]
    exact (stock_cons_right κ _ i A).symm

/-- `gamma[c, c] = σ(C_c²)` -/
theorem gammaDiagOf_get {c : Nat} (hc : c < nClusters) :
    (gammaDiagOf κ a nClusters nLeaves)[c]! = stock κ (clusterL a nLeaves c) (clusterL a nLeaves c) := by
  unfold gammaDiagOf
  rw [getElem!_ofFn _ c hc]
  dsimp only
  rw [clusterSamplesOf_get a nClusters nLeaves hc]
  refine sum_omegaOf κ a nClusters nLeaves hc _ ?_
  intro i hi
  have := List.mem_filter.1 hi
  exact List.mem_range.1 this.1

/-- `cluster_sizes[c] = |C_c|` -/
theorem sizesOf_get {c : Nat} (hc : c < nClusters) :
    (sizesOf a nClusters nLeaves)[c]! = (clusterL a nLeaves c).length := by
  unfold sizesOf
  have hsz : (clusterSamplesOf a nClusters nLeaves).size = nClusters := by simp [clusterSamplesOf]
  have h1 : ((clusterSamplesOf a nClusters nLeaves).map List.length)[c]! =
      ((clusterSamplesOf a nClusters nLeaves)[c]!).length := by
    simp [hsz, hc]
  rw [h1, clusterSamplesOf_get a nClusters nLeaves hc]

/-- The accumulators `A` are the stocks of the cut of the sorted leaf after `m` samples: left part = first `m` sorted
    samples, right part = the others. -/
structure AccIs (j f m : Nat) (A : Acc ℝ) : Prop where
  sl : A.sl = stock κ ((nuL X a j f).take m) ((nuL X a j f).take m)
  sr : A.sr = stock κ ((nuL X a j f).drop m) ((nuL X a j f).drop m)
  slc_size : A.slc.size = nClusters
  src_size : A.src.size = nClusters
  slc : ∀ c, c < nClusters → A.slc[c]! = stock κ ((nuL X a j f).take m) (clusterL a nLeaves c)
  src : ∀ c, c < nClusters → A.src[c]! = stock κ ((nuL X a j f).drop m) (clusterL a nLeaves c)

variable {κ}

theorem accInit_is (hsym : ∀ i j, κ i j = κ j i) (j f : Nat) :
    AccIs κ X a nClusters nLeaves j f 0 (accInit κ a nClusters nLeaves j) := by
  have hp := nuL_perm X a j f
  refine ⟨?_, ?_, ?_, ?_, ?_, ?_⟩
  · simp [accInit]
  · simp only [accInit, List.drop_zero]
    exact (stock_perm κ hp hp).symm
  · simp [accInit]
  · simp [accInit]
  · intro c hc
    simp [accInit, hc]
  · intro c hc
    simp only [accInit, List.drop_zero]
    rw [getElem!_ofFn _ c hc]
    dsimp only
    rw [sum_omegaOf κ a nClusters nLeaves hc _ (fun i hi => ((KauriC09.mem_samplesOfLeaf a j i).1 hi).1),
      stock_comm hsym, stock_perm_left κ hp]

theorem accStep_is (hsym : ∀ i j, κ i j = κ j i) (j f m : Nat) (hm : m < nLeafOf a j) {A : Acc ℝ}
    (h : AccIs κ X a nClusters nLeaves j f m A) :
    AccIs κ X a nClusters nLeaves j f (m + 1) (accStep κ X a nClusters nLeaves j f A m) := by
  have hlen := nuL_length X a j f
  have hm' : m < (nuL X a j f).length := by omega
  set L := nuL X a j f with hL
  have hi : (nuOf X a j f)[m]! = L[m] := by rw [nuOf_eq, getElem!_toArray _ m hm']
  have hin : L[m] < a.n := mem_nuL_lt X a (List.getElem_mem hm')
  have htake : L.take (m + 1) = L.take m ++ [L[m]] := by rw [List.take_succ_eq_append_getElem hm']
  have hdrop : L.drop m = L[m] :: L.drop (m + 1) := List.drop_eq_getElem_cons hm'
  have halpha : sumL ((List.range m).map fun l' => κ L[m] (nuOf X a j f)[l']!) = stock κ [L[m]] (L.take m) := by
    rw [sumL_eq_sum, nuOf_eq, map_range_take L (fun t => κ L[m] t) m (by omega), stock_singleton_left]
  have hbeta : sumL ((List.range (nLeafOf a j - 1 - m)).map fun d => κ L[m] (nuOf X a j f)[m + 1 + d]!) =
      stock κ [L[m]] (L.drop (m + 1)) := by
    rw [sumL_eq_sum, nuOf_eq, map_range_drop L (fun t => κ L[m] t) (m + 1) _ (by omega), stock_singleton_left]
  refine ⟨?_, ?_, ?_, ?_, ?_, ?_⟩
  · show A.sl + (nat 2 * sumL _ + κ _ _) = _
    rw [hi, halpha, h.sl, htake, stock_append_sq hsym, stock_comm hsym (L.take m) [L[m]], stock_singleton_singleton,
      nat_real]
    push_cast
    ring
  · show A.sr - (nat 2 * sumL _ + κ _ _) = _
    rw [hi, hbeta, h.sr, hdrop, show L[m] :: L.drop (m + 1) = [L[m]] ++ L.drop (m + 1) from rfl,
      stock_append_sq hsym, stock_singleton_singleton, nat_real]
    push_cast
    ring
  · simp [accStep]
  · simp [accStep]
  · intro c hc
    show (Array.ofFn fun c : Fin nClusters => A.slc[c.val]! + _)[c]! = _
    rw [getElem!_ofFn _ c hc]
    dsimp only
    rw [hi, h.slc c hc, omegaOf_get κ a nClusters nLeaves hc hin, htake, stock_append_left,
      stock_comm hsym (clusterL a nLeaves c)]
  · intro c hc
    show (Array.ofFn fun c : Fin nClusters => A.src[c.val]! - _)[c]! = _
    rw [getElem!_ofFn _ c hc]
    dsimp only
    rw [hi, h.src c hc, omegaOf_get κ a nClusters nLeaves hc hin, hdrop, stock_cons_left,
      stock_comm hsym (clusterL a nLeaves c), stock_singleton_left]
    ring

/-- After `m ≤ n_leaf` steps of the scan of leaf `j` along feature `f`, the accumulators are the stocks of the cut of
    the sorted leaf after its first `m` samples. -/
theorem accAt_is (hsym : ∀ i j, κ i j = κ j i) (j f m : Nat) (hm : m ≤ nLeafOf a j) :
    AccIs κ X a nClusters nLeaves j f m (accAt κ X a nClusters nLeaves j f m) := by
  induction m with
  | zero => exact accInit_is X a nClusters nLeaves hsym j f
  | succ m ih =>
    rw [accAt_succ]
    exact accStep_is X a nClusters nLeaves hsym j f m (by omega) (ih (by omega))

end scan

/-! ## Part 3: labellings, their classes and the objective J -/

section labelling
open scoped BigOperators

/-- the samples `i < n` with label `c` -/
def classOf (n : Nat) (lab : Nat → Nat) (c : Nat) : List Nat := (List.range n).filter fun i => lab i == c

theorem mem_classOf {n : Nat} {lab : Nat → Nat} {c i : Nat} : i ∈ classOf n lab c ↔ i < n ∧ lab i = c := by
  simp [classOf]

theorem classOf_nodup (n : Nat) (lab : Nat → Nat) (c : Nat) : (classOf n lab c).Nodup :=
  List.Nodup.filter _ List.nodup_range

/-- the contribution σ(C²)/|C| of one cluster (0 for the empty cluster, with the convention 0/0 = 0 of ℝ) -/
noncomputable def term (κ : Nat → Nat → ℝ) (C : List Nat) : ℝ := stock κ C C / (C.length : ℝ)

@[simp] theorem term_nil (κ : Nat → Nat → ℝ) : term κ [] = 0 := by simp [term]

theorem term_perm (κ : Nat → Nat → ℝ) {C C' : List Nat} (h : C.Perm C') : term κ C = term κ C' := by
  unfold term
  rw [stock_perm κ h h, h.length_eq]

/-- J(lab) = Σ_{c < M} σ(C_c²)/|C_c| over the classes of the labelling `lab` of the samples `0 .. n-1`; `M` is any
    bound on the labels (classes that are empty contribute 0). -/
noncomputable def Jlab (κ : Nat → Nat → ℝ) (n M : Nat) (lab : Nat → Nat) : ℝ :=
  ∑ c ∈ Finset.range M, term κ (classOf n lab c)

theorem nodup_eraseDups : ∀ (l : List Nat), l.eraseDups.Nodup
  | [] => by simp
  | a :: as => by
    rw [List.eraseDups_cons, List.nodup_cons]
    have : (as.filter fun b => !b == a).length < as.length + 1 :=
      Nat.lt_succ_of_le (List.length_filter_le _ as)
    refine ⟨?_, nodup_eraseDups _⟩
    rw [List.mem_eraseDups]
    simp
termination_by l => l.length

/-- `gemini_objective` of the label list `[lab 0, …, lab (n-1)]` is `Jlab` for every bound `M` on the labels. -/
theorem objective_eq_Jlab (κ : Nat → Nat → ℝ) (n M : Nat) (lab : Nat → Nat) (hM : ∀ i, i < n → lab i < M) :
    objective κ ((List.range n).map lab) = Jlab κ n M lab := by
  have hC : ∀ v, ((List.range ((List.range n).map lab).length).filter fun i => ((List.range n).map lab)[i]! == v)
      = classOf n lab v := by
    intro v
    unfold classOf
    rw [List.length_map, List.length_range]
    apply List.filter_congr
    intro i hi
    have hi' : i < n := List.mem_range.1 hi
    simp [hi']
  unfold objective
  simp only [hC, sumL_eq_sum]
  have hT : ∀ v, stock κ (classOf n lab v) (classOf n lab v) / nat (classOf n lab v).length
      = term κ (classOf n lab v) := fun v => rfl
  simp only [hT]
  rw [← List.sum_toFinset _ (nodup_eraseDups _)]
  unfold Jlab
  apply Finset.sum_subset
  · intro c hc
    rw [List.mem_toFinset, List.mem_eraseDups, List.mem_map] at hc
    obtain ⟨i, hi, rfl⟩ := hc
    exact Finset.mem_range.2 (hM i (List.mem_range.1 hi))
  · intro c _ hc
    have : classOf n lab c = [] := by
      rw [List.eq_nil_iff_forall_not_mem]
      intro i hi
      rw [mem_classOf] at hi
      apply hc
      rw [List.mem_toFinset, List.mem_eraseDups, List.mem_map]
      exact ⟨i, List.mem_range.2 hi.1, hi.2⟩
    rw [this, term_nil]

/-- the labelling after the samples of `L` have moved to cluster `lt` and those of `R` to cluster `rt` -/
def relabel (lab : Nat → Nat) (L R : List Nat) (lt rt : Nat) (i : Nat) : Nat :=
  if i ∈ L then lt else if i ∈ R then rt else lab i

/-- `L`, `R` are two disjoint duplicate-free lists of samples `< n` that all carry the label `k` -/
structure Cut (n : Nat) (lab : Nat → Nat) (k : Nat) (L R : List Nat) : Prop where
  nodupL : L.Nodup
  nodupR : R.Nodup
  disj : ∀ i, i ∈ L → i ∉ R
  memL : ∀ i, i ∈ L → i < n ∧ lab i = k
  memR : ∀ i, i ∈ R → i < n ∧ lab i = k

variable {n : Nat} {lab : Nat → Nat} {k : Nat} {L R : List Nat}

theorem Cut.symm (h : Cut n lab k L R) : Cut n lab k R L :=
  ⟨h.nodupR, h.nodupL, fun i hR hL => h.disj i hL hR, h.memR, h.memL⟩

theorem relabel_swap (h : Cut n lab k L R) (lt rt : Nat) : relabel lab L R lt rt = relabel lab R L rt lt := by
  funext i
  unfold relabel
  by_cases h1 : i ∈ L
  · have := h.disj i h1
    simp [h1, this]
  · simp [h1]

/-- a class other than `k` and the two targets is unchanged -/
theorem class_other (h : Cut n lab k L R) {lt rt c : Nat} (hk : c ≠ k) (hl : c ≠ lt) (hr : c ≠ rt) :
    classOf n (relabel lab L R lt rt) c = classOf n lab c := by
  unfold classOf
  apply List.filter_congr
  intro i _
  unfold relabel
  by_cases h1 : i ∈ L
  · have := (h.memL i h1).2
    simp [h1, this, Ne.symm hk, Ne.symm hl]
  · by_cases h2 : i ∈ R
    · have := (h.memR i h2).2
      simp [h1, h2, this, Ne.symm hk, Ne.symm hr]
    · simp [h1, h2]

/-- the left target (different from `k` and from the right target) gains `L` -/
theorem class_gainL (h : Cut n lab k L R) {lt rt : Nat} (hlr : lt ≠ rt) (hlk : lt ≠ k) :
    (classOf n (relabel lab L R lt rt) lt).Perm (classOf n lab lt ++ L) := by
  have hnd : (classOf n lab lt ++ L).Nodup := by
    rw [List.nodup_append]
    refine ⟨classOf_nodup _ _ _, h.nodupL, ?_⟩
    intro i hi j hj e
    subst e
    exact hlk ((mem_classOf.1 hi).2.symm.trans (h.memL i hj).2)
  rw [List.perm_ext_iff_of_nodup (classOf_nodup _ _ _) hnd]
  intro i
  rw [List.mem_append, mem_classOf, mem_classOf]
  unfold relabel
  by_cases h1 : i ∈ L
  · simp [h1, (h.memL i h1).1]
  · by_cases h2 : i ∈ R
    · have := (h.memR i h2).2
      simp [h1, h2, this, Ne.symm hlr, Ne.symm hlk]
    · simp [h1, h2]

/-- the right target (different from `k` and from the left target) gains `R` -/
theorem class_gainR (h : Cut n lab k L R) {lt rt : Nat} (hlr : lt ≠ rt) (hrk : rt ≠ k) :
    (classOf n (relabel lab L R lt rt) rt).Perm (classOf n lab rt ++ R) := by
  rw [relabel_swap h]
  exact class_gainL h.symm (Ne.symm hlr) hrk

/-- when the right part stays in `k`, cluster `k` loses `L` -/
theorem class_loseL (h : Cut n lab k L R) {lt : Nat} (hlk : lt ≠ k) :
    (classOf n lab k).Perm (L ++ classOf n (relabel lab L R lt k) k) := by
  have hnd : (L ++ classOf n (relabel lab L R lt k) k).Nodup := by
    rw [List.nodup_append]
    refine ⟨h.nodupL, classOf_nodup _ _ _, ?_⟩
    intro i hi j hj e
    subst e
    have := (mem_classOf.1 hj).2
    unfold relabel at this
    rw [if_pos hi] at this
    exact hlk this
  rw [List.perm_ext_iff_of_nodup (classOf_nodup _ _ _) hnd]
  intro i
  rw [List.mem_append, mem_classOf, mem_classOf]
  unfold relabel
  by_cases h1 : i ∈ L
  · simp [h1, h.memL i h1]
  · by_cases h2 : i ∈ R
    · simp [h1, h2, h.memR i h2]
    · simp [h1, h2]

/-- when the left part stays in `k`, cluster `k` loses `R` -/
theorem class_loseR (h : Cut n lab k L R) {rt : Nat} (hrk : rt ≠ k) :
    (classOf n lab k).Perm (R ++ classOf n (relabel lab L R k rt) k) := by
  rw [relabel_swap h]
  exact class_loseL h.symm hrk

/-- when both parts leave, cluster `k` loses `L ⊎ R` -/
theorem class_loseLR (h : Cut n lab k L R) {lt rt : Nat} (hlk : lt ≠ k) (hrk : rt ≠ k) :
    (classOf n lab k).Perm ((L ++ R) ++ classOf n (relabel lab L R lt rt) k) := by
  have hnd : ((L ++ R) ++ classOf n (relabel lab L R lt rt) k).Nodup := by
    rw [List.nodup_append, List.nodup_append]
    refine ⟨⟨h.nodupL, h.nodupR, ?_⟩, classOf_nodup _ _ _, ?_⟩
    · intro i hi j hj e
      subst e
      exact h.disj i hi hj
    · intro i hi j hj e
      subst e
      have := (mem_classOf.1 hj).2
      unfold relabel at this
      rcases List.mem_append.1 hi with hi | hi
      · rw [if_pos hi] at this
        exact hlk this
      · rw [if_neg (fun hL => h.disj i hL hi), if_pos hi] at this
        exact hrk this
  rw [List.perm_ext_iff_of_nodup (classOf_nodup _ _ _) hnd]
  intro i
  rw [List.mem_append, List.mem_append, mem_classOf, mem_classOf]
  unfold relabel
  by_cases h1 : i ∈ L
  · simp [h1, h.memL i h1]
  · by_cases h2 : i ∈ R
    · simp [h1, h2, h.memR i h2]
    · simp [h1, h2]

end labelling

/-! ## Part 4: the change of J caused by moving the two parts of a cut -/

section dJ
open scoped BigOperators
variable {κ : Nat → Nat → ℝ} {n : Nat} {lab : Nat → Nat} {k : Nat} {L R : List Nat}

/-- σ(Rest²)/|Rest| when `C = S ⊎ Rest` -/
theorem term_remove (hsym : ∀ i j, κ i j = κ j i) {C S Rest : List Nat} (h : C.Perm (S ++ Rest)) :
    term κ Rest = (stock κ C C - 2 * stock κ S C + stock κ S S) / ((C.length : ℝ) - (S.length : ℝ)) := by
  unfold term
  rw [stock_remove hsym h]
  congr 1
  have := h.length_eq
  rw [List.length_append] at this
  rw [this]
  push_cast
  ring

/-- σ(C'²)/|C'| when `C' = P ⊎ S` -/
theorem term_add (hsym : ∀ i j, κ i j = κ j i) {C' P S : List Nat} (h : C'.Perm (P ++ S)) :
    term κ C' = (stock κ P P + 2 * stock κ S P + stock κ S S) / ((P.length : ℝ) + (S.length : ℝ)) := by
  unfold term
  rw [stock_perm κ h h, stock_add hsym, h.length_eq, List.length_append]
  push_cast
  rfl

/-- `L` moves to another cluster `t`, `R` stays in `k`: only the classes `k` and `t` change -/
theorem dJ_left (hsym : ∀ i j, κ i j = κ j i) (h : Cut n lab k L R) {M t : Nat} (hk : k < M) (ht : t < M)
    (htk : t ≠ k) :
    Jlab κ n M (relabel lab L R t k) - Jlab κ n M lab =
      (stock κ (classOf n lab k) (classOf n lab k) - 2 * stock κ L (classOf n lab k) + stock κ L L)
          / (((classOf n lab k).length : ℝ) - (L.length : ℝ))
        - stock κ (classOf n lab k) (classOf n lab k) / ((classOf n lab k).length : ℝ)
      + ((stock κ (classOf n lab t) (classOf n lab t) + 2 * stock κ L (classOf n lab t) + stock κ L L)
          / (((classOf n lab t).length : ℝ) + (L.length : ℝ))
        - stock κ (classOf n lab t) (classOf n lab t) / ((classOf n lab t).length : ℝ)) := by
  unfold Jlab
  rw [← Finset.sum_sub_distrib]
  have hsub : ({k, t} : Finset ℕ) ⊆ Finset.range M := by
    intro c hc
    rw [Finset.mem_insert, Finset.mem_singleton] at hc
    rcases hc with rfl | rfl <;> exact Finset.mem_range.2 ‹_›
  rw [← Finset.sum_subset hsub, Finset.sum_pair (Ne.symm htk)]
  · rw [← term_remove hsym (class_loseL h htk), ← term_add hsym (class_gainL h htk htk)]
    rfl
  · intro c _ hc
    rw [Finset.mem_insert, Finset.mem_singleton, not_or] at hc
    rw [class_other h hc.1 hc.2 hc.1, sub_self]

/-- `R` moves to another cluster `t`, `L` stays in `k` -/
theorem dJ_right (hsym : ∀ i j, κ i j = κ j i) (h : Cut n lab k L R) {M t : Nat} (hk : k < M) (ht : t < M)
    (htk : t ≠ k) :
    Jlab κ n M (relabel lab L R k t) - Jlab κ n M lab =
      (stock κ (classOf n lab k) (classOf n lab k) - 2 * stock κ R (classOf n lab k) + stock κ R R)
          / (((classOf n lab k).length : ℝ) - (R.length : ℝ))
        - stock κ (classOf n lab k) (classOf n lab k) / ((classOf n lab k).length : ℝ)
      + ((stock κ (classOf n lab t) (classOf n lab t) + 2 * stock κ R (classOf n lab t) + stock κ R R)
          / (((classOf n lab t).length : ℝ) + (R.length : ℝ))
        - stock κ (classOf n lab t) (classOf n lab t) / ((classOf n lab t).length : ℝ)) := by
  rw [relabel_swap h]
  exact dJ_left hsym h.symm hk ht htk

/-- `L` moves to `lt`, `R` moves to `rt`, two different clusters other than `k`: the classes `k`, `lt`, `rt` change -/
theorem dJ_both (hsym : ∀ i j, κ i j = κ j i) (h : Cut n lab k L R) {M lt rt : Nat} (hk : k < M) (hl : lt < M)
    (hr : rt < M) (hlk : lt ≠ k) (hrk : rt ≠ k) (hlr : lt ≠ rt) :
    Jlab κ n M (relabel lab L R lt rt) - Jlab κ n M lab =
      (stock κ (classOf n lab k) (classOf n lab k) - 2 * stock κ (L ++ R) (classOf n lab k)
            + stock κ (L ++ R) (L ++ R))
          / (((classOf n lab k).length : ℝ) - ((L ++ R).length : ℝ))
        - stock κ (classOf n lab k) (classOf n lab k) / ((classOf n lab k).length : ℝ)
      + ((stock κ (classOf n lab lt) (classOf n lab lt) + 2 * stock κ L (classOf n lab lt) + stock κ L L)
          / (((classOf n lab lt).length : ℝ) + (L.length : ℝ))
        - stock κ (classOf n lab lt) (classOf n lab lt) / ((classOf n lab lt).length : ℝ))
      + ((stock κ (classOf n lab rt) (classOf n lab rt) + 2 * stock κ R (classOf n lab rt) + stock κ R R)
          / (((classOf n lab rt).length : ℝ) + (R.length : ℝ))
        - stock κ (classOf n lab rt) (classOf n lab rt) / ((classOf n lab rt).length : ℝ)) := by
  unfold Jlab
  rw [← Finset.sum_sub_distrib]
  have hsub : ({k, lt, rt} : Finset ℕ) ⊆ Finset.range M := by
    intro c hc
    rw [Finset.mem_insert, Finset.mem_insert, Finset.mem_singleton] at hc
    rcases hc with rfl | rfl | rfl <;> exact Finset.mem_range.2 ‹_›
  have hnot : k ∉ ({lt, rt} : Finset ℕ) := by
    rw [Finset.mem_insert, Finset.mem_singleton, not_or]
    exact ⟨Ne.symm hlk, Ne.symm hrk⟩
  rw [← Finset.sum_subset hsub, Finset.sum_insert hnot, Finset.sum_pair hlr]
  · rw [← term_remove hsym (class_loseLR h hlk hrk), ← term_add hsym (class_gainL h hlr hlk),
      ← term_add hsym (class_gainR h hlr hrk)]
    unfold term
    ring
  · intro c _ hc
    rw [Finset.mem_insert, Finset.mem_insert, Finset.mem_singleton, not_or, not_or] at hc
    rw [class_other h hc.1 hc.2.1 hc.2.2, sub_self]

end dJ

/-! ## Part 5: the cut made by the scan, seen as a move of the labelling `clusterOfSample` -/

section bridge
variable (κ X : Nat → Nat → ℝ) (a : Assign) (nClusters K_max nLeaves : Nat)

/-- the left part of the cut at sorted position `l`: the first `l + 1` samples of the sorted leaf -/
noncomputable def leftPart (j f l : Nat) : List Nat := (nuOf X a j f).toList.take (l + 1)

/-- the right part of the cut at sorted position `l`: the remaining samples of the sorted leaf -/
noncomputable def rightPart (j f l : Nat) : List Nat := (nuOf X a j f).toList.drop (l + 1)

theorem leftPart_eq (j f l : Nat) : leftPart X a j f l = (nuL X a j f).take (l + 1) := rfl
theorem rightPart_eq (j f l : Nat) : rightPart X a j f l = (nuL X a j f).drop (l + 1) := rfl

theorem parts_append (j f l : Nat) : leftPart X a j f l ++ rightPart X a j f l = nuL X a j f :=
  List.take_append_drop _ _

theorem parts_perm (j f l : Nat) : (leftPart X a j f l ++ rightPart X a j f l).Perm (a.samplesOfLeaf j) := by
  rw [parts_append]
  exact nuL_perm X a j f

theorem length_leftPart {j f l : Nat} (hl : l < nLeafOf a j) : (leftPart X a j f l).length = l + 1 := by
  rw [leftPart_eq, List.length_take, nuL_length]
  omega

theorem length_rightPart (j f l : Nat) : (rightPart X a j f l).length = nLeafOf a j - (l + 1) := by
  rw [rightPart_eq, List.length_drop, nuL_length]

theorem samplesOfLeaf_nodup (j : Nat) : (a.samplesOfLeaf j).Nodup :=
  List.Nodup.filter _ List.nodup_range

/-- the two parts of a cut of leaf `j` are disjoint sets of samples that carry the label of the leaf -/
theorem cut_of_scan (j f l : Nat) :
    Cut a.n a.clusterOfSample (a.clusterOf[j]!) (leftPart X a j f l) (rightPart X a j f l) := by
  have hnd : (leftPart X a j f l ++ rightPart X a j f l).Nodup :=
    (parts_perm X a j f l).nodup_iff.2 (samplesOfLeaf_nodup a j)
  rw [List.nodup_append] at hnd
  have hmem : ∀ i, i ∈ nuL X a j f → i < a.n ∧ a.clusterOfSample i = a.clusterOf[j]! := by
    intro i hi
    have := (KauriC09.mem_samplesOfLeaf a j i).1 ((nuL_perm X a j f).mem_iff.1 hi)
    refine ⟨this.1, ?_⟩
    unfold Assign.clusterOfSample
    rw [this.2]
  refine ⟨hnd.1, hnd.2.1, fun i hL hR => hnd.2.2 i hL i hR rfl, ?_, ?_⟩
  · intro i hi
    exact hmem i (List.mem_of_mem_take hi)
  · intro i hi
    exact hmem i (List.mem_of_mem_drop hi)

/-- Well-formedness of the tree state `find_best_split` receives: every sample sits in one of the `nLeaves` existing
    leaves, and every sample's cluster is one of the `nClusters` existing clusters. -/
structure WF (a : Assign) (nClusters nLeaves : Nat) : Prop where
  leaf_lt : ∀ i, i < a.n → a.leafOf[i]! < nLeaves
  cluster_lt : ∀ i, i < a.n → a.clusterOfSample i < nClusters

variable {a nClusters nLeaves}

/-- in a well-formed state the sample list of cluster `c` is the class of the label `c` -/
theorem class_eq_cluster (hwf : WF a nClusters nLeaves) (c : Nat) :
    classOf a.n a.clusterOfSample c = a.samplesOfCluster nLeaves c := by
  unfold classOf Assign.samplesOfCluster
  apply List.filter_congr
  intro i hi
  have := hwf.leaf_lt i (List.mem_range.1 hi)
  simp [this]

theorem class_new_empty (hwf : WF a nClusters nLeaves) {c : Nat} (hc : nClusters ≤ c) :
    classOf a.n a.clusterOfSample c = [] := by
  rw [List.eq_nil_iff_forall_not_mem]
  intro i hi
  rw [mem_classOf] at hi
  have := hwf.cluster_lt i hi.1
  omega

theorem Cut.length_le {n : Nat} {lab : Nat → Nat} {k : Nat} {L R : List Nat} (h : Cut n lab k L R) :
    L.length + R.length ≤ (classOf n lab k).length := by
  have := (class_loseLR h (lt := k + 1) (rt := k + 2) (by omega) (by omega)).length_eq
  rw [List.length_append, List.length_append] at this
  omega

/-- the leaf is contained in its cluster -/
theorem nLeaf_le_cluster (hwf : WF a nClusters nLeaves) (j : Nat) :
    nLeafOf a j ≤ (a.samplesOfCluster nLeaves a.clusterOf[j]!).length := by
  have h := (cut_of_scan (fun _ _ => (0 : ℝ)) a j 0 0).length_le
  rw [class_eq_cluster hwf, ← List.length_append, (parts_perm _ a j 0 0).length_eq] at h
  exact h

/-- the cluster of a non-empty leaf is an existing cluster -/
theorem clusterOf_lt (hwf : WF a nClusters nLeaves) {j : Nat} (hj : 0 < nLeafOf a j) :
    a.clusterOf[j]! < nClusters := by
  obtain ⟨i, hi⟩ := List.exists_mem_of_length_pos hj
  have := (KauriC09.mem_samplesOfLeaf a j i).1 hi
  have h2 := hwf.cluster_lt i this.1
  unfold Assign.clusterOfSample at h2
  rw [this.2] at h2
  exact h2

theorem relabel_lt {n M : Nat} {lab : Nat → Nat} (L R : List Nat) {lt rt : Nat} (hl : lt < M) (hr : rt < M)
    (hlab : ∀ i, i < n → lab i < M) : ∀ i, i < n → relabel lab L R lt rt i < M := by
  intro i hi
  unfold relabel
  split_ifs
  · exact hl
  · exact hr
  · exact hlab i hi

variable (a nClusters nLeaves)

/-- The gain formula `F` of `compute_all_splits`, called on the record of the cut `(j, f, l)` with other cluster `p`,
    receives the stocks and sizes of the sets `S_L`, `S_R`, `N`, `C_k`, `C_p`. -/
theorem candAt_app {κ : Nat → Nat → ℝ} (hsym : ∀ i j, κ i j = κ j i) {j f l p : Nat} (hl : l < nLeafOf a j)
    (hk : a.clusterOf[j]! < nClusters) (hp : p < nClusters)
    (F : ℝ → ℝ → ℝ → ℝ → ℝ → ℝ → ℝ → ℝ → ℝ → ℝ → ℝ → ℝ → ℝ → ℝ → ℝ) :
    (candAt κ X a nClusters K_max nLeaves j f l).app F p =
      F (stock κ (leftPart X a j f l) (leftPart X a j f l)) (stock κ (rightPart X a j f l) (rightPart X a j f l))
        (stock κ (a.samplesOfLeaf j) (a.samplesOfLeaf j)) (nLeafOf a j : ℝ) ((l + 1 : ℕ) : ℝ)
        ((a.samplesOfCluster nLeaves a.clusterOf[j]!).length : ℝ) ((a.samplesOfCluster nLeaves p).length : ℝ)
        (stock κ (a.samplesOfCluster nLeaves a.clusterOf[j]!) (a.samplesOfCluster nLeaves a.clusterOf[j]!))
        (stock κ (a.samplesOfCluster nLeaves p) (a.samplesOfCluster nLeaves p))
        (stock κ (leftPart X a j f l) (a.samplesOfCluster nLeaves a.clusterOf[j]!))
        (stock κ (rightPart X a j f l) (a.samplesOfCluster nLeaves a.clusterOf[j]!))
        (stock κ (leftPart X a j f l) (a.samplesOfCluster nLeaves p))
        (stock κ (rightPart X a j f l) (a.samplesOfCluster nLeaves p))
        (candAt κ X a nClusters K_max nLeaves j f l).omega_k_feat := by
  have h := accAt_is X a nClusters nLeaves hsym j f (l + 1) hl
  unfold Cand.app
  simp only [candAt, nat_real]
  rw [h.sl, h.sr, h.slc _ hk, h.src _ hk, h.slc _ hp, h.src _ hp, sizesOf_get a nClusters nLeaves hk,
    sizesOf_get a nClusters nLeaves hp, gammaDiagOf_get κ a nClusters nLeaves hk,
    gammaDiagOf_get κ a nClusters nLeaves hp]
  rfl

end bridge

/-! ## Part 6: each kind of candidate: gain = J(after) − J(before) -/

section kinds
variable {κ : Nat → Nat → ℝ} (X : Nat → Nat → ℝ) (a : Assign) (nClusters K_max nLeaves : Nat)

/-- the labels `[cluster of sample 0, …, cluster of sample n-1]` (`labels_` of the estimator) -/
def labelsBefore : List Nat := (List.range a.n).map a.clusterOfSample

/-- the labels after the left part of the cut `(j, f, l)` has moved to cluster `lt` and its right part to `rt` -/
noncomputable def labelsAfter (j f l lt rt : Nat) : List Nat :=
  (List.range a.n).map (relabel a.clusterOfSample (leftPart X a j f l) (rightPart X a j f l) lt rt)

variable {a nClusters nLeaves}

theorem objective_diff (κ : Nat → Nat → ℝ) (hwf : WF a nClusters nLeaves) (j f l : Nat) {lt rt M : Nat}
    (hM : nClusters ≤ M) (hl : lt < M) (hr : rt < M) :
    objective κ (labelsAfter X a j f l lt rt) - objective κ (labelsBefore a) =
      Jlab κ a.n M (relabel a.clusterOfSample (leftPart X a j f l) (rightPart X a j f l) lt rt)
        - Jlab κ a.n M a.clusterOfSample := by
  have hb : ∀ i, i < a.n → a.clusterOfSample i < M := fun i hi => lt_of_lt_of_le (hwf.cluster_lt i hi) hM
  unfold labelsAfter labelsBefore
  rw [objective_eq_Jlab κ a.n M _ (relabel_lt _ _ hl hr hb), objective_eq_Jlab κ a.n M _ hb]

/-- sizes of the sets involved, as real numbers -/
theorem size_facts (hwf : WF a nClusters nLeaves) {j l : Nat} (f : Nat) (hl : l < nLeafOf a j - 1) :
    ((leftPart X a j f l).length : ℝ) = ((l + 1 : ℕ) : ℝ) ∧
    ((rightPart X a j f l).length : ℝ) = (nLeafOf a j : ℝ) - ((l + 1 : ℕ) : ℝ) ∧
    ((leftPart X a j f l ++ rightPart X a j f l).length : ℝ) = (nLeafOf a j : ℝ) ∧
    ((l + 1 : ℕ) : ℝ) ≠ 0 ∧ (nLeafOf a j : ℝ) - ((l + 1 : ℕ) : ℝ) ≠ 0 ∧ (nLeafOf a j : ℝ) ≠ 0 ∧
    ((a.samplesOfCluster nLeaves a.clusterOf[j]!).length : ℝ) ≠ 0 ∧
    ((a.samplesOfCluster nLeaves a.clusterOf[j]!).length : ℝ) - ((l + 1 : ℕ) : ℝ) ≠ 0 ∧
    ((a.samplesOfCluster nLeaves a.clusterOf[j]!).length : ℝ) - ((nLeafOf a j : ℝ) - ((l + 1 : ℕ) : ℝ)) ≠ 0 ∧
    (nLeafOf a j ≠ (a.samplesOfCluster nLeaves a.clusterOf[j]!).length →
      ((a.samplesOfCluster nLeaves a.clusterOf[j]!).length : ℝ) - (nLeafOf a j : ℝ) ≠ 0) := by
  have hle := nLeaf_le_cluster hwf j
  have hL := length_leftPart X a (j := j) (f := f) (l := l) (by omega)
  have hR := length_rightPart X a j f l
  have h1 : ((l + 1 : ℕ) : ℝ) + 1 ≤ (nLeafOf a j : ℝ) := by exact_mod_cast (by omega : l + 1 + 1 ≤ nLeafOf a j)
  have h2 : (nLeafOf a j : ℝ) ≤ ((a.samplesOfCluster nLeaves a.clusterOf[j]!).length : ℝ) := by exact_mod_cast hle
  have h3 : (0 : ℝ) < ((l + 1 : ℕ) : ℝ) := by exact_mod_cast Nat.succ_pos l
  refine ⟨by rw [hL], ?_, ?_, ?_, ?_, ?_, ?_, ?_, ?_, ?_⟩
  · rw [hR, Nat.cast_sub (by omega)]
  · rw [(parts_perm X a j f l).length_eq]; rfl
  · exact ne_of_gt h3
  · intro h; linarith
  · intro h; linarith
  · intro h; linarith
  · intro h; linarith
  · intro h; linarith
  · intro hne h
    have : nLeafOf a j < (a.samplesOfCluster nLeaves a.clusterOf[j]!).length := lt_of_le_of_ne hle hne
    have : (nLeafOf a j : ℝ) < ((a.samplesOfCluster nLeaves a.clusterOf[j]!).length : ℝ) := by exact_mod_cast this
    linarith

/-- single star, the left part becomes the new cluster `nClusters` -/
theorem leftStar_gain (hsym : ∀ i j, κ i j = κ j i) (hwf : WF a nClusters nLeaves) {j f l : Nat}
    (hl : l < nLeafOf a j - 1) :
    (candAt κ X a nClusters K_max nLeaves j f l).app Gen.Kauri.leftStar a.clusterOf[j]! =
      objective κ (labelsAfter X a j f l nClusters a.clusterOf[j]!) - objective κ (labelsBefore a) := by
  have hk := clusterOf_lt hwf (j := j) (by omega)
  obtain ⟨eL, eR, eN, hs, hr, hn, hc, hcs, hcr, hcn⟩ := size_facts X hwf f hl
  rw [objective_diff X κ hwf j f l (M := nClusters + 2) (by omega) (by omega) (by omega),
    dJ_left hsym (cut_of_scan X a j f l) (by omega) (by omega) (by omega),
    class_new_empty hwf (le_refl nClusters)]
  simp only [class_eq_cluster hwf]
  rw [candAt_app X a nClusters K_max nLeaves hsym (by omega) hk hk, Props.C08.leftStar_eq_dJ _ _ _ _ _ _ _ _ _ _ _ _ _ _
    hs hc hcs, eL]
  simp only [stock_nil_right, List.length_nil, Nat.cast_zero, zero_add, mul_zero, div_zero, sub_zero, add_zero]
  ring

/-- single star, the right part becomes the new cluster `nClusters` -/
theorem rightStar_gain (hsym : ∀ i j, κ i j = κ j i) (hwf : WF a nClusters nLeaves) {j f l : Nat}
    (hl : l < nLeafOf a j - 1) :
    (candAt κ X a nClusters K_max nLeaves j f l).app Gen.Kauri.rightStar a.clusterOf[j]! =
      objective κ (labelsAfter X a j f l a.clusterOf[j]! nClusters) - objective κ (labelsBefore a) := by
  have hk := clusterOf_lt hwf (j := j) (by omega)
  obtain ⟨eL, eR, eN, hs, hr, hn, hc, hcs, hcr, hcn⟩ := size_facts X hwf f hl
  rw [objective_diff X κ hwf j f l (M := nClusters + 2) (by omega) (by omega) (by omega),
    dJ_right hsym (cut_of_scan X a j f l) (by omega) (by omega) (by omega),
    class_new_empty hwf (le_refl nClusters)]
  simp only [class_eq_cluster hwf]
  rw [candAt_app X a nClusters K_max nLeaves hsym (by omega) hk hk,
    Props.C08.rightStar_eq_dJ (hr := hr) (hc := hc) (hcr := hcr), eR]
  simp only [stock_nil_right, List.length_nil, Nat.cast_zero, zero_add, mul_zero, div_zero, sub_zero, add_zero]
  ring

/-- switch, the left part joins the existing non-empty cluster `p ≠ k` -/
theorem leftSwitch_gain (hsym : ∀ i j, κ i j = κ j i) (hwf : WF a nClusters nLeaves) {j f l p : Nat}
    (hl : l < nLeafOf a j - 1) (hp : p < nClusters) (hpk : p ≠ a.clusterOf[j]!)
    (hne : a.samplesOfCluster nLeaves p ≠ []) :
    (candAt κ X a nClusters K_max nLeaves j f l).app Gen.Kauri.leftSwitch p =
      objective κ (labelsAfter X a j f l p a.clusterOf[j]!) - objective κ (labelsBefore a) := by
  have hk := clusterOf_lt hwf (j := j) (by omega)
  obtain ⟨eL, eR, eN, hs, hr, hn, hc, hcs, hcr, hcn⟩ := size_facts X hwf f hl
  have hp0 : (0 : ℝ) < ((a.samplesOfCluster nLeaves p).length : ℝ) := by
    exact_mod_cast List.length_pos_iff.2 hne
  have hs0 : (0 : ℝ) < ((l + 1 : ℕ) : ℝ) := by exact_mod_cast Nat.succ_pos l
  rw [objective_diff X κ hwf j f l (M := nClusters) (le_refl _) hp hk,
    dJ_left hsym (cut_of_scan X a j f l) hk hp hpk]
  simp only [class_eq_cluster hwf]
  rw [candAt_app X a nClusters K_max nLeaves hsym (by omega) hk hp,
    Props.C08.leftSwitch_eq_dJ (hc := hc) (hcs := hcs) (hp := ne_of_gt hp0) (hps := by intro h; linarith), eL]

/-- switch, the right part joins the existing non-empty cluster `p ≠ k` -/
theorem rightSwitch_gain (hsym : ∀ i j, κ i j = κ j i) (hwf : WF a nClusters nLeaves) {j f l p : Nat}
    (hl : l < nLeafOf a j - 1) (hp : p < nClusters) (hpk : p ≠ a.clusterOf[j]!)
    (hne : a.samplesOfCluster nLeaves p ≠ []) :
    (candAt κ X a nClusters K_max nLeaves j f l).app Gen.Kauri.rightSwitch p =
      objective κ (labelsAfter X a j f l a.clusterOf[j]! p) - objective κ (labelsBefore a) := by
  have hk := clusterOf_lt hwf (j := j) (by omega)
  obtain ⟨eL, eR, eN, hs, hr, hn, hc, hcs, hcr, hcn⟩ := size_facts X hwf f hl
  have hp0 : (0 : ℝ) < ((a.samplesOfCluster nLeaves p).length : ℝ) := by
    exact_mod_cast List.length_pos_iff.2 hne
  have hr0 : (0 : ℝ) < (nLeafOf a j : ℝ) - ((l + 1 : ℕ) : ℝ) := by
    have : ((l + 1 : ℕ) : ℝ) + 1 ≤ (nLeafOf a j : ℝ) := by exact_mod_cast (by omega : l + 1 + 1 ≤ nLeafOf a j)
    linarith
  rw [objective_diff X κ hwf j f l (M := nClusters) (le_refl _) hk hp,
    dJ_right hsym (cut_of_scan X a j f l) hk hp hpk]
  simp only [class_eq_cluster hwf]
  rw [candAt_app X a nClusters K_max nLeaves hsym (by omega) hk hp,
    Props.C08.rightSwitch_eq_dJ (hc := hc) (hcs := hcr) (hp := ne_of_gt hp0) (hps := by intro h; linarith), eR]

/-- the stocks of the whole leaf `N = S_L ⊎ S_R` -/
theorem stock_parts (κ : Nat → Nat → ℝ) (j f l : Nat) :
    stock κ (leftPart X a j f l ++ rightPart X a j f l) (leftPart X a j f l ++ rightPart X a j f l)
      = stock κ (a.samplesOfLeaf j) (a.samplesOfLeaf j) :=
  stock_perm κ (parts_perm X a j f l) (parts_perm X a j f l)

/-- double star: the two parts become the new clusters `nClusters` and `nClusters + 1`; cluster `k` keeps a sample -/
theorem doubleStar_gain (hsym : ∀ i j, κ i j = κ j i) (hwf : WF a nClusters nLeaves) {j f l : Nat}
    (hl : l < nLeafOf a j - 1) (hleaf : nLeafOf a j ≠ (a.samplesOfCluster nLeaves a.clusterOf[j]!).length) :
    (candAt κ X a nClusters K_max nLeaves j f l).app Gen.Kauri.doubleStar a.clusterOf[j]! =
      objective κ (labelsAfter X a j f l nClusters (nClusters + 1)) - objective κ (labelsBefore a) := by
  have hk := clusterOf_lt hwf (j := j) (by omega)
  obtain ⟨eL, eR, eN, hs, hr, hn, hc, hcs, hcr, hcn⟩ := size_facts X hwf f hl
  rw [objective_diff X κ hwf j f l (M := nClusters + 2) (by omega) (by omega) (by omega),
    dJ_both hsym (cut_of_scan X a j f l) (by omega) (by omega) (by omega) (by omega) (by omega) (by omega),
    class_new_empty hwf (le_refl nClusters), class_new_empty hwf (Nat.le_succ nClusters)]
  simp only [class_eq_cluster hwf]
  rw [candAt_app X a nClusters K_max nLeaves hsym (by omega) hk hk,
    Props.C08.doubleStar_eq_dJ (hs := hs) (hr := hr) (hn := hn) (hc := hc) (hcn := hcn hleaf), eL, eR, eN,
    stock_append_left, stock_parts X κ j f l]
  simp only [stock_nil_right, List.length_nil, Nat.cast_zero, zero_add, mul_zero, div_zero, sub_zero, add_zero]
  ring

/-- reallocation: the left part joins `pl`, the right part joins `pr`, two different existing non-empty clusters
    other than `k`; cluster `k` keeps a sample -/
theorem realloc_gain (hsym : ∀ i j, κ i j = κ j i) (hwf : WF a nClusters nLeaves) {j f l pl pr : Nat}
    (hl : l < nLeafOf a j - 1) (hleaf : nLeafOf a j ≠ (a.samplesOfCluster nLeaves a.clusterOf[j]!).length)
    (hpl : pl < nClusters) (hpr : pr < nClusters) (hplk : pl ≠ a.clusterOf[j]!) (hprk : pr ≠ a.clusterOf[j]!)
    (hne : pl ≠ pr) (hnel : a.samplesOfCluster nLeaves pl ≠ []) (hner : a.samplesOfCluster nLeaves pr ≠ []) :
    (candAt κ X a nClusters K_max nLeaves j f l).app Gen.Kauri.leftSwitch pl
        + (candAt κ X a nClusters K_max nLeaves j f l).app Gen.Kauri.rightSwitch pr
        + (candAt κ X a nClusters K_max nLeaves j f l).app Gen.Kauri.corrective a.clusterOf[j]! =
      objective κ (labelsAfter X a j f l pl pr) - objective κ (labelsBefore a) := by
  have hk := clusterOf_lt hwf (j := j) (by omega)
  obtain ⟨eL, eR, eN, hs, hr, hn, hc, hcs, hcr, hcn⟩ := size_facts X hwf f hl
  have hl0 : (0 : ℝ) < ((a.samplesOfCluster nLeaves pl).length : ℝ) := by
    exact_mod_cast List.length_pos_iff.2 hnel
  have hr0 : (0 : ℝ) < ((a.samplesOfCluster nLeaves pr).length : ℝ) := by
    exact_mod_cast List.length_pos_iff.2 hner
  have hs0 : (0 : ℝ) < ((l + 1 : ℕ) : ℝ) := by exact_mod_cast Nat.succ_pos l
  have hd0 : (0 : ℝ) < (nLeafOf a j : ℝ) - ((l + 1 : ℕ) : ℝ) := by
    have : ((l + 1 : ℕ) : ℝ) + 1 ≤ (nLeafOf a j : ℝ) := by exact_mod_cast (by omega : l + 1 + 1 ≤ nLeafOf a j)
    linarith
  rw [objective_diff X κ hwf j f l (M := nClusters) (le_refl _) hpl hpr,
    dJ_both hsym (cut_of_scan X a j f l) hk hpl hpr hplk hprk hne]
  simp only [class_eq_cluster hwf]
  rw [candAt_app X a nClusters K_max nLeaves hsym (by omega) hk hpl,
    candAt_app X a nClusters K_max nLeaves hsym (by omega) hk hpr,
    candAt_app X a nClusters K_max nLeaves hsym (by omega) hk hk,
    Props.C08.realloc_eq_dJ (hc := hc) (hcs := hcs) (hcr := hcr) (hcn := hcn hleaf) (hl := ne_of_gt hl0)
      (hls := by intro h; linarith) (hr := ne_of_gt hr0) (hrs := by intro h; linarith), eL, eR, eN,
    stock_append_left, stock_parts X κ j f l]
  ring

/-- Every candidate `compute_all_splits` may evaluate for the cut `(j, f, l)`: its gain is the objective of the
    labelling after the move minus the objective of the current labelling. -/
theorem admissible_gain (hsym : ∀ i j, κ i j = κ j i) (hwf : WF a nClusters nLeaves)
    (hne : ∀ c, c < nClusters → a.samplesOfCluster nLeaves c ≠ []) {j f l : Nat} (hl : l < nLeafOf a j - 1)
    {g : ℝ} {lt rt : Int} (hadm : Admissible (candAt κ X a nClusters K_max nLeaves j f l) g lt rt) :
    g = objective κ (labelsAfter X a j f l lt.toNat rt.toNat) - objective κ (labelsBefore a) := by
  have hk := clusterOf_lt hwf (j := j) (by omega)
  have hsz : (candAt κ X a nClusters K_max nLeaves j f l).cluster_sizes
      (candAt κ X a nClusters K_max nLeaves j f l).k = (a.samplesOfCluster nLeaves a.clusterOf[j]!).length :=
    sizesOf_get a nClusters nLeaves hk
  cases hadm with
  | doubleStar h1 h2 =>
    rw [hsz] at h2
    simp only [Int.toNat_natCast]
    exact doubleStar_gain X K_max hsym hwf hl h2
  | leftStar h1 =>
    simp only [Int.toNat_natCast]
    exact leftStar_gain X K_max hsym hwf hl
  | rightStar h1 =>
    simp only [Int.toNat_natCast]
    exact rightStar_gain X K_max hsym hwf hl
  | leftSwitch p hn hp hpk =>
    simp only [Int.toNat_natCast]
    exact leftSwitch_gain X K_max hsym hwf hl hp hpk (hne p hp)
  | rightSwitch p hn hp hpk =>
    simp only [Int.toNat_natCast]
    exact rightSwitch_gain X K_max hsym hwf hl hp hpk (hne p hp)
  | realloc pl pr h3 h2 hpl hpr hplk hprk hlr =>
    rw [hsz] at h2
    simp only [Int.toNat_natCast]
    exact realloc_gain X K_max hsym hwf hl h2 hpl hpr hplk hprk hlr (hne pl hpl) (hne pr hpr)

end kinds

/-! ## Part 7: link with the fit loop (`applySplit`, `fitStep`, `fit`) -/

section fitloop
open KauriC09 KauriSpec
variable (X : Nat → Nat → ℝ)

/-- at an evaluated position the threshold test `X[i, f] <= X[nu[l], f]` selects exactly the left part -/
theorem filter_parts (a : Assign) {minLeaf j f l : Nat} (hev : Evaluated X a minLeaf j f l) :
    ((nuL X a j f).filter fun i => le (X i f) (X (nuOf X a j f)[l]! f)) = leftPart X a j f l ∧
    ((nuL X a j f).filter fun i => !(le (X i f) (X (nuOf X a j f)[l]! f))) = rightPart X a j f l := by
  have hlen := nuL_length X a j f
  have hl' : l + 1 < (nuL X a j f).length := by have := hev.1; omega
  have g0 : (nuOf X a j f)[l]! = (nuL X a j f)[l] := by rw [nuOf_eq, getElem!_toArray _ l (by omega)]
  have g1 : (nuOf X a j f)[l + 1]! = (nuL X a j f)[l + 1] := by rw [nuOf_eq, getElem!_toArray _ (l + 1) hl']
  have hbeq := hev.2.2.2
  rw [g0, g1] at hbeq
  rw [g0]
  have e := decomp (nuL X a j f) l hl'
  have h := cut_aux orderLaws_real (fun i => X i f) ((nuL X a j f).take l) ((nuL X a j f).drop (l + 2))
    (nuL X a j f)[l] (nuL X a j f)[l + 1] (by rw [← e]; exact nuList_sorted orderLaws_real X _ f) hbeq
  rw [← e] at h
  refine ⟨?_, ?_⟩
  · rw [leftPart_eq, List.take_succ_eq_append_getElem (by omega)]
    exact h.1
  · rw [rightPart_eq, List.drop_eq_getElem_cons hl']
    exact h.2

theorem mem_leftPart_iff (a : Assign) {minLeaf j f l : Nat} (hev : Evaluated X a minLeaf j f l) (i : Nat) :
    i ∈ leftPart X a j f l ↔ i ∈ a.samplesOfLeaf j ∧ le (X i f) (X (nuOf X a j f)[l]! f) = true := by
  rw [← (filter_parts X a hev).1, List.mem_filter, (nuL_perm X a j f).mem_iff]

theorem mem_rightPart_iff (a : Assign) {minLeaf j f l : Nat} (hev : Evaluated X a minLeaf j f l) (i : Nat) :
    i ∈ rightPart X a j f l ↔ i ∈ a.samplesOfLeaf j ∧ le (X i f) (X (nuOf X a j f)[l]! f) = false := by
  rw [← (filter_parts X a hev).2, List.mem_filter, (nuL_perm X a j f).mem_iff]
  simp

variable {X}

/-- Applying a split whose leaf, feature and threshold are those of the evaluated cut `(j, f, l)` relabels the samples
    as `labelsAfter`: the left part of the cut gets `b.left`, the right part `b.right`, the others keep their label. -/
theorem applySplit_labels {p : Params} {s : FitState ℝ} {b : Split ℝ} (c : Ctx X p s b) {j f l : Nat}
    (hev : Evaluated X s.asg p.minLeaf j f l) (hleaf : b.leaf = (j : Int)) (hfeat : b.feature = (f : Int))
    (hthr : b.threshold = X (nuOf X s.asg j f)[l]! f) :
    (applySplit X p s b).labels = labelsAfter X s.asg j f l b.left.toNat b.right.toNat := by
  have hjn : b.leaf.toNat = j := by rw [hleaf]; exact Int.toNat_natCast j
  have hfn : b.feature.toNat = f := by rw [hfeat]; exact Int.toNat_natCast f
  unfold FitState.labels labelsAfter
  rw [applySplit_n]
  apply List.map_congr_left
  intro i hi
  have hi' : i < s.asg.n := List.mem_range.1 hi
  have hlt := c.inv.leafOf_lt i hi'
  have hmR := mem_rightIdx X s b i
  rw [hjn] at hmR
  have hgl : goesLeft X b i = le (X i f) (X (nuOf X s.asg j f)[l]! f) := by
    unfold goesLeft; rw [hfn, hthr]
  have hL := mem_leftPart_iff X s.asg hev i
  have hR := mem_rightPart_iff X s.asg hev i
  rw [mem_samplesOfLeaf] at hL hR
  unfold Assign.clusterOfSample relabel
  rw [c.leafOf_get i hi']
  by_cases h : i ∈ rightIdx X s b
  · rw [if_pos h, c.clusterOf_get _ (le_refl _), if_pos rfl]
    obtain ⟨_, h1, h2⟩ := hmR.1 h
    rw [hgl] at h2
    have hnL : i ∉ leftPart X s.asg j f l := by
      intro hh; have := (hL.1 hh).2; rw [h2] at this; exact absurd this (by decide)
    rw [if_neg hnL, if_pos (hR.2 ⟨⟨hi', h1⟩, h2⟩)]
  · rw [if_neg h, c.clusterOf_get _ (le_of_lt hlt), if_neg (by omega), hjn]
    have hnR : i ∉ rightPart X s.asg j f l := by
      intro hh
      obtain ⟨⟨_, h1⟩, h2⟩ := hR.1 hh
      exact h (hmR.2 ⟨hi', h1, by rw [hgl]; exact h2⟩)
    by_cases h4 : j = s.asg.leafOf[i]!
    · rw [if_pos h4]
      have : le (X i f) (X (nuOf X s.asg j f)[l]! f) = true := by
        cases h5 : le (X i f) (X (nuOf X s.asg j f)[l]! f)
        · exact absurd (hmR.2 ⟨hi', h4.symm, by rw [hgl]; exact h5⟩) h
        · rfl
      rw [if_pos (hL.2 ⟨⟨hi', h4.symm⟩, this⟩)]
    · rw [if_neg h4]
      have hnL : i ∉ leftPart X s.asg j f l := fun hh => h4 (hL.1 hh).1.2.symm
      rw [if_neg hnL, if_neg hnR]

/-- the state the fit loop is in satisfies the well-formedness used by the gain theorems -/
theorem wf_of_inv {p : Params} {s : FitState ℝ} (hI : Inv p s) : WF s.asg s.nClusters s.nLeaves :=
  ⟨hI.leafOf_lt, fun i hi => hI.clusterOf_lt _ (hI.leafOf_lt i hi)⟩

/-- in a reachable state every existing cluster owns a sample -/
theorem clusters_nonempty {p : Params} {s : FitState ℝ} (hI : Inv p s) (hS : InvSamples p s) (c : Nat)
    (hc : c < s.nClusters) : s.asg.samplesOfCluster s.nLeaves c ≠ [] := by
  obtain ⟨l, hl, e⟩ := hI.cluster_owns_leaf c hc
  obtain ⟨i, hi⟩ := exists_mem_of_ne_nil (hS.leaf_nonempty l hl)
  obtain ⟨hi1, hi2⟩ := (mem_samplesOfLeaf _ _ _).1 hi
  intro hnil
  have : i ∈ s.asg.samplesOfCluster s.nLeaves c := by
    unfold Assign.samplesOfCluster Assign.clusterOfSample
    rw [List.mem_filter]
    refine ⟨List.mem_range.2 hi1, ?_⟩
    simp [hi2, hl, e]
  rw [hnil] at this
  exact absurd this List.not_mem_nil

end fitloop

section run
open KauriC09 KauriSpec

/-- the gain recorded by one iteration of the loop of `Kauri.fit`: the gain of the split it applies (the answer of
    `find_best_split`), or 0 when it applies none -/
noncomputable def stepGain (κ X : Nat → Nat → ℝ) (p : Params) (s : FitState ℝ) (features : List Nat) : ℝ :=
  if s.continues p = true ∧
      0 < (findBestSplit κ X s.toExplore s.asg s.nClusters p.maxClusters s.nLeaves p.minLeaf features).gain then
    (findBestSplit κ X s.toExplore s.asg s.nClusters p.maxClusters s.nLeaves p.minLeaf features).gain
  else 0

variable {κ X : Nat → Nat → ℝ}

theorem fitStep_applied {p : Params} {s : FitState ℝ} {features : List Nat} (hc : s.continues p = true)
    (hpos : 0 < (findBestSplit κ X s.toExplore s.asg s.nClusters p.maxClusters s.nLeaves p.minLeaf features).gain) :
    fitStep κ X p s features =
      { applySplit X p { s with lastGainPos := s.lastGainPos, steps := s.steps + 1 }
          (findBestSplit κ X s.toExplore s.asg s.nClusters p.maxClusters s.nLeaves p.minLeaf features)
        with lastGainPos := true } := by
  unfold fitStep
  simp only [hc, Bool.not_true, Bool.false_eq_true, if_false, lt_real, decide_eq_true_eq]
  rw [if_pos hpos]

theorem fitStep_not_applied {p : Params} {s : FitState ℝ} {features : List Nat}
    (h : ¬ (s.continues p = true ∧
      0 < (findBestSplit κ X s.toExplore s.asg s.nClusters p.maxClusters s.nLeaves p.minLeaf features).gain)) :
    (fitStep κ X p s features).labels = s.labels := by
  unfold fitStep
  by_cases hc : s.continues p = true
  · have hpos := fun hp => h ⟨hc, hp⟩
    simp only [hc, Bool.not_true, Bool.false_eq_true, if_false, lt_real, decide_eq_true_eq]
    rw [if_neg hpos]
    rfl
  · simp only [hc, Bool.not_false, if_true]

/-- One iteration of the loop of `Kauri.fit`, from a state satisfying the loop invariants: the gain it records is the
    objective of the labels after the iteration minus the objective of the labels before. -/
theorem fitStep_gain (hsym : ∀ i j, κ i j = κ j i) {p : Params} {s : FitState ℝ} (hF : FullInv X p s)
    (features : List Nat) :
    stepGain κ X p s features = objective κ (fitStep κ X p s features).labels - objective κ s.labels := by
  unfold stepGain
  split_ifs with h
  · obtain ⟨hc, hpos⟩ := h
    rw [fitStep_applied hc hpos]
    have hF' := hF.bookkeeping s.lastGainPos (s.steps + 1)
    have hc' : ({ s with lastGainPos := s.lastGainPos, steps := s.steps + 1 } : FitState ℝ).continues p = true := hc
    have hok := findBestSplitSpec_of_laws orderLaws_real κ X p _ features hF' hc' (by simpa using hpos)
    have hch := findBestSplit_chosen κ X s.asg s.nClusters p.maxClusters s.nLeaves p.minLeaf s.toExplore features
    generalize findBestSplit κ X s.toExplore s.asg s.nClusters p.maxClusters s.nLeaves p.minLeaf features = b
      at hpos hok hch ⊢
    rcases hch with e | ⟨j, f, l, g, lt, rt, hj, hf, hev, hadm, e⟩
    · rw [e] at hpos
      exact absurd hpos (lt_irrefl (0 : ℝ))
    · have hlab := applySplit_labels (X := X) ⟨hF'.inv, hok, continues_lt hc'⟩ (j := j) (f := f) (l := l) hev
        (by rw [e]; rfl) (by rw [e]; rfl) (by rw [e]; rfl)
      have hg := admissible_gain X p.maxClusters hsym (wf_of_inv hF.inv)
        (clusters_nonempty hF.inv hF.samples) hev.1 hadm
      have e1 : b.gain = g := by rw [e]; rfl
      have e2 : b.left = lt := by rw [e]; rfl
      have e3 : b.right = rt := by rw [e]; rfl
      rw [e2, e3] at hlab
      rw [e1, hg]
      congr 1
      exact congrArg (objective κ) hlab.symm
  · rw [fitStep_not_applied h, sub_self]

/-- `fitStep` preserves the loop invariants -/
theorem fitStep_inv {p : Params} {s : FitState ℝ} (hF : FullInv X p s) (features : List Nat) :
    FullInv X p (fitStep κ X p s features) := by
  rw [fitStep_eq_stepWith]
  exact stepWith_preserves hF (findBestSplitSpec_of_laws orderLaws_real κ X p s features hF)

/-- the gains recorded along a run of the loop from state `s` over the feature draws `draws` -/
noncomputable def runGains (κ X : Nat → Nat → ℝ) (p : Params) : FitState ℝ → List (List Nat) → List ℝ
  | _, [] => []
  | s, d :: ds => stepGain κ X p s d :: runGains κ X p (fitStep κ X p s d) ds

/-- Telescoping: along a run from a state satisfying the invariants, the recorded gains sum to the objective of the
    final labels minus the objective of the initial labels. -/
theorem sum_runGains (hsym : ∀ i j, κ i j = κ j i) {p : Params} (draws : List (List Nat)) :
    ∀ s : FitState ℝ, FullInv X p s →
      (runGains κ X p s draws).sum =
        objective κ (draws.foldl (fitStep κ X p) s).labels - objective κ s.labels := by
  induction draws with
  | nil => intro s _; simp [runGains]
  | cons d ds ih =>
    intro s hF
    rw [runGains, List.sum_cons, List.foldl_cons, ih _ (fitStep_inv hF d), fitStep_gain hsym hF d]
    ring

/-- the labels before the first split: every sample in cluster 0 -/
theorem labels_init (n : Nat) (p : Params) : (FitState.init n p : FitState ℝ).labels = (List.range n).map fun _ => 0 := by
  unfold FitState.labels
  apply List.map_congr_left
  intro i _
  show (Array.replicate p.maxLeaves 0)[(Array.replicate n 0)[i]!]! = 0
  rw [get_replicate_zero]

/-- the root score: σ(all²)/n -/
theorem objective_init (κ : Nat → Nat → ℝ) (n : Nat) (p : Params) :
    objective κ (FitState.init n p : FitState ℝ).labels = stock κ (List.range n) (List.range n) / (n : ℝ) := by
  rw [labels_init, objective_eq_Jlab κ n 1 _ (fun _ _ => Nat.zero_lt_one)]
  unfold Jlab
  rw [Finset.sum_range_one]
  have : classOf n (fun _ => 0) 0 = List.range n := by
    unfold classOf
    rw [List.filter_eq_self]
    intro i _
    rfl
  rw [this, term, List.length_range]

/-! ### the array `tree_.gains` -/

theorem sum_set_push_push (a : Array ℝ) (F : Nat) (v : ℝ) (hF : F < a.size) (h0 : a[F]! = 0) :
    (((a.set! F v).push 0).push 0).toList.sum = a.toList.sum + v := by
  have this : a.toList[F]'(by simpa using hF) = 0 := by
    have := h0
    simpa [hF] using this
  simp [List.sum_set', hF, this]

/-- invariant of the loop about `tree_.gains`: the nodes that are still leaves carry gain 0 and the array sums to
    `acc` -/
structure GainsInv (s : FitState ℝ) (acc : ℝ) : Prop where
  leaf_zero : ∀ l, l < s.nLeaves → s.tree.gains[s.leaf2node[l]!]! = 0
  sum : s.tree.gains.toList.sum = acc

theorem gainsInv_init (n : Nat) (p : Params) : GainsInv (FitState.init n p : FitState ℝ) 0 := by
  refine ⟨?_, ?_⟩
  · intro l _
    show (#[(0 : ℝ)])[(Array.replicate p.maxLeaves 0)[l]!]! = 0
    rw [get_replicate_zero]
    rfl
  · show (#[(0 : ℝ)]).toList.sum = 0
    simp

theorem applySplit_gainsInv {p : Params} {s : FitState ℝ} {b : Split ℝ} (c : Ctx X p s b) {acc : ℝ}
    (h : GainsInv s acc) : GainsInv (applySplit X p s b) (acc + b.gain) := by
  have hsz := c.inv.size_gains
  have hF := c.F_lt
  have hg : (applySplit X p s b).tree.gains = ((s.tree.gains.set! (father s b) b.gain).push 0).push 0 := rfl
  refine ⟨?_, ?_⟩
  · intro l hl
    rw [hg]
    rcases c.l2n_cases l hl with ⟨_, e⟩ | ⟨_, e⟩ | ⟨h1, _, e, h4, h5⟩
    · rw [e, ← hsz]; exact get_spp_n1 _ _ _ _ _
    · rw [e, ← hsz]; exact get_spp_n _ _ _ _ _
    · rw [e, get_spp_lt _ _ _ _ _ _ (by omega), if_neg (Ne.symm h5)]
      exact h.leaf_zero l h1
  · rw [hg, sum_set_push_push _ _ _ (by rw [hsz]; exact hF) (h.leaf_zero _ c.leaf_lt), h.sum]

theorem fitStep_gainsInv {p : Params} {s : FitState ℝ} (hF : FullInv X p s) (features : List Nat) {acc : ℝ}
    (h : GainsInv s acc) : GainsInv (fitStep κ X p s features) (acc + stepGain κ X p s features) := by
  unfold stepGain
  split_ifs with hh
  · obtain ⟨hc, hpos⟩ := hh
    rw [fitStep_applied hc hpos]
    have hF' := hF.bookkeeping s.lastGainPos (s.steps + 1)
    have hc' : ({ s with lastGainPos := s.lastGainPos, steps := s.steps + 1 } : FitState ℝ).continues p = true := hc
    have hok := findBestSplitSpec_of_laws orderLaws_real κ X p _ features hF' hc' (by simpa using hpos)
    have h' : GainsInv ({ s with lastGainPos := s.lastGainPos, steps := s.steps + 1 } : FitState ℝ) acc :=
      ⟨h.leaf_zero, h.sum⟩
    have := applySplit_gainsInv (X := X) ⟨hF'.inv, hok, continues_lt hc'⟩ h'
    exact ⟨this.leaf_zero, this.sum⟩
  · rw [add_zero]
    unfold fitStep
    by_cases hc : s.continues p = true
    · have hpos := fun hp => hh ⟨hc, hp⟩
      simp only [hc, Bool.not_true, Bool.false_eq_true, if_false, lt_real, decide_eq_true_eq]
      rw [if_neg hpos]
      exact ⟨h.leaf_zero, h.sum⟩
    · simp only [hc, Bool.not_false, if_true]
      exact h

theorem run_gainsInv {p : Params} (draws : List (List Nat)) :
    ∀ (s : FitState ℝ) (acc : ℝ), FullInv X p s → GainsInv s acc →
      GainsInv (draws.foldl (fitStep κ X p) s) (acc + (runGains κ X p s draws).sum) := by
  induction draws with
  | nil => intro s acc _ h; simpa [runGains] using h
  | cons d ds ih =>
    intro s acc hF h
    rw [runGains, List.sum_cons, List.foldl_cons, ← add_assoc]
    exact ih _ _ (fitStep_inv hF d) (fitStep_gainsInv hF d h)

/-- Over a whole run of `Kauri.fit`: the entries of `tree_.gains` sum to the objective of the final labels minus the
    root score σ(all²)/n. -/
theorem fit_gains_sum (hsym : ∀ i j, κ i j = κ j i) {n : Nat} {p : Params} (hn : 1 ≤ n) (hmin : p.minLeaf ≤ n)
    (draws : List (List Nat)) :
    (fit κ X n p draws).tree.gains.toList.sum =
      objective κ (fit κ X n p draws).labels - stock κ (List.range n) (List.range n) / (n : ℝ) := by
  have hF := fullInv_init X n p hn hmin
  have h := (run_gainsInv (κ := κ) draws _ 0 hF (gainsInv_init n p)).sum
  rw [zero_add, sum_runGains hsym draws _ hF, objective_init] at h
  exact h

/-! ### the chosen split gives the largest increase -/

/-- the objective reached by any admissible alternative is at most the current objective plus the gain returned by
    `find_best_split` -/
theorem alternative_le_best (hsym : ∀ i j, κ i j = κ j i) {p : Params} {s : FitState ℝ} (hF : FullInv X p s)
    (features : List Nat) {j f l : Nat} (hj : j ∈ s.toExplore) (hf : f ∈ features)
    (hev : Evaluated X s.asg p.minLeaf j f l) {g : ℝ} {lt rt : Int}
    (hadm : Admissible (candAt κ X s.asg s.nClusters p.maxClusters s.nLeaves j f l) g lt rt) :
    objective κ (labelsAfter X s.asg j f l lt.toNat rt.toNat) ≤ objective κ s.labels +
      (findBestSplit κ X s.toExplore s.asg s.nClusters p.maxClusters s.nLeaves p.minLeaf features).gain := by
  have hg := admissible_gain X p.maxClusters hsym (wf_of_inv hF.inv) (clusters_nonempty hF.inv hF.samples) hev.1 hadm
  have hmax := findBestSplit_max κ X s.asg s.nClusters p.maxClusters s.nLeaves p.minLeaf s.toExplore features hj hf
    hev hadm
  have : labelsBefore s.asg = s.labels := rfl
  rw [this] at hg
  linarith

/-- when a split is applied, no admissible alternative reaches a larger objective than the labels after the iteration -/
theorem alternative_le_chosen (hsym : ∀ i j, κ i j = κ j i) {p : Params} {s : FitState ℝ} (hF : FullInv X p s)
    (features : List Nat) (hc : s.continues p = true)
    (hpos : 0 < (findBestSplit κ X s.toExplore s.asg s.nClusters p.maxClusters s.nLeaves p.minLeaf features).gain)
    {j f l : Nat} (hj : j ∈ s.toExplore) (hf : f ∈ features)
    (hev : Evaluated X s.asg p.minLeaf j f l) {g : ℝ} {lt rt : Int}
    (hadm : Admissible (candAt κ X s.asg s.nClusters p.maxClusters s.nLeaves j f l) g lt rt) :
    objective κ (labelsAfter X s.asg j f l lt.toNat rt.toNat) ≤ objective κ (fitStep κ X p s features).labels := by
  have h1 := alternative_le_best hsym hF features hj hf hev hadm
  have h2 := fitStep_gain hsym hF features
  unfold stepGain at h2
  rw [if_pos ⟨hc, hpos⟩] at h2
  linarith

/-- when the loop stops on the gain test, no admissible alternative improves the objective -/
theorem alternative_le_current (hsym : ∀ i j, κ i j = κ j i) {p : Params} {s : FitState ℝ} (hF : FullInv X p s)
    (features : List Nat)
    (hstop : ¬ 0 < (findBestSplit κ X s.toExplore s.asg s.nClusters p.maxClusters s.nLeaves p.minLeaf features).gain)
    {j f l : Nat} (hj : j ∈ s.toExplore) (hf : f ∈ features)
    (hev : Evaluated X s.asg p.minLeaf j f l) {g : ℝ} {lt rt : Int}
    (hadm : Admissible (candAt κ X s.asg s.nClusters p.maxClusters s.nLeaves j f l) g lt rt) :
    objective κ (labelsAfter X s.asg j f l lt.toNat rt.toNat) ≤ objective κ s.labels := by
  have h1 := alternative_le_best hsym hF features hj hf hev hadm
  linarith [not_lt.1 hstop]

end run

end GemVerif.KauriStocks
