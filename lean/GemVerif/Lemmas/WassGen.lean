/-
  Loop invariants for Props/C01WassGen.lean: what the state of the Python loops of `WassersteinGEMINI.evaluate`
  (Gen/Wass.lean) is after a given number of iterations, in terms of the solver results `E` the hand model of
  Model/Gemini.lean speaks about.  Generic in `[RealLike α]`; the real-number part (the one-vs-one gradient, which the
  source accumulates pair by pair and the model sums cluster by cluster) is at the end.
-/
import GemVerif.Lemmas.Np4
import GemVerif.NumReal
import Mathlib.Algebra.BigOperators.Ring.Finset

set_option linter.unusedSectionVars false

namespace GemVerif.Lemmas.WassGen
open GemVerif GemVerif.RealLike GemVerif.Np GemVerif.Np.Arr GemVerif.Model

section generic
variable {α : Type} [RealLike α] {n K : Nat}

/-! ### one-vs-all: `for k in range(K): wasserstein_distances[k], dual_variables[k] = ot.emd2(wy[k], 1/N, affinity, log=True)` -/

/-- What the Python list the loop fills may hold for one call: the dictionary `log` itself (`List (EmdR α)`), or its entry
    `log["u"]` (`List (Arr α)`). -/
class LogOf (α : Type) (β : Type) where
  rel : {n : Nat} → β → Emd α n → Prop

instance : LogOf α (EmdR α) := ⟨fun x E => x = EmdR.ofEmd E⟩
instance : LogOf α (Arr α) := ⟨fun x E => x = Arr.ofRow E.u⟩

/-- The state `(ok, wasserstein_distances, dual_variables)` after `k` iterations: no error so far, the first `k` distances
    and list entries are those of the calls `E 0 … E (k-1)`; `len k` is the length of the list at that point (`K` all along
    when the list is pre-allocated with `[None] * K`, `k` when it grows by `append`). -/
structure OvaInv {β : Type} [LogOf α β] (E : Fin K → Emd α n) (len : Nat → Nat) (k : Nat) (st : Bool × Arr α × List β) : Prop where
  ok : st.1 = true
  wd_ok : st.2.1.ok = true
  wd_r : st.2.1.r = 1
  wd_c : st.2.1.c = K
  wd_get : ∀ j : Fin K, j.val < k → st.2.1.get 0 j.val = (E j).value
  len_eq : st.2.2.length = len k
  logs : ∀ j : Fin K, j.val < k → ∃ x, st.2.2[j.val]? = some x ∧ LogOf.rel x (E j)

theorem OvaInv.init_set (E : Fin K → Emd α n) {c : Nat} (hc : c = K) :
    OvaInv E (fun _ => K) 0 (true, zeros 1 c, List.replicate c (EmdR.none : EmdR α)) := by
  subst hc
  exact ⟨rfl, rfl, rfl, rfl, fun j hj => absurd hj (Nat.not_lt_zero _), by simp, fun j hj => absurd hj (Nat.not_lt_zero _)⟩

theorem OvaInv.init_append {β : Type} [LogOf α β] (E : Fin K → Emd α n) {c : Nat} (hc : c = K) :
    OvaInv E id 0 (true, zeros 1 c, ([] : List β)) := by
  subst hc
  exact ⟨rfl, rfl, rfl, rfl, fun j hj => absurd hj (Nat.not_lt_zero _), rfl, fun j hj => absurd hj (Nat.not_lt_zero _)⟩

private theorem wd_step {E : Fin K → Emd α n} {k : Nat} {wd : Arr α} (hk : k < K)
    (h : ∀ j : Fin K, j.val < k → wd.get 0 j.val = (E j).value) (j : Fin K) (hj : j.val < k + 1) :
    (setAt1 wd k (E ⟨k, hk⟩).value).get 0 j.val = (E j).value := by
  by_cases hjk : j.val = k
  · subst hjk; simp
  · simp [hjk, h j (by omega)]

/-- one iteration, the list being pre-allocated: `L[k] = log` -/
theorem OvaInv.step_set {E : Fin K → Emd α n} {k : Nat} {st : Bool × Arr α × List (EmdR α)}
    (h : OvaInv E (fun _ => K) k st) (hk : k < K) {b : Bool} (hb : b = true) :
    OvaInv E (fun _ => K) (k + 1)
      (b, setAt1 st.2.1 k (E ⟨k, hk⟩).value, EmdR.setNth st.2.2 k (EmdR.ofEmd (E ⟨k, hk⟩))) := by
  have hlen : k < st.2.2.length := by rw [h.len_eq]; exact hk
  refine ⟨hb, by simp [h.wd_ok, h.wd_r, h.wd_c, hk], h.wd_r, h.wd_c, wd_step hk h.wd_get, ?_, fun j hj => ?_⟩
  · show (EmdR.setNth st.2.2 k _).length = K
    rw [EmdR.setNth_length _ hlen]; exact h.len_eq
  · show ∃ x, (EmdR.setNth st.2.2 k _)[j.val]? = some x ∧ _
    simp only [EmdR.setNth, hlen, if_true]
    by_cases hjk : j.val = k
    · refine ⟨_, ?_, (rfl : EmdR.ofEmd (E j) = EmdR.ofEmd (E j))⟩
      have : j = ⟨k, hk⟩ := Fin.ext hjk
      subst this
      simp [hlen]
    · have hkj : k ≠ j.val := fun e => hjk e.symm
      rw [List.getElem?_set_ne hkj]
      exact h.logs j (by omega)

/-- one iteration, the list growing: `L.append(x)`, `x` being the log of the call or its entry `"u"` -/
theorem OvaInv.step_append {β : Type} [LogOf α β] {E : Fin K → Emd α n} {k : Nat} {st : Bool × Arr α × List β}
    (h : OvaInv E id k st) (hk : k < K) {b : Bool} (hb : b = true) {x : β} (hx : LogOf.rel x (E ⟨k, hk⟩)) :
    OvaInv E id (k + 1) (b, setAt1 st.2.1 k (E ⟨k, hk⟩).value, st.2.2 ++ [x]) := by
  have hlen : st.2.2.length = k := h.len_eq
  refine ⟨hb, by simp [h.wd_ok, h.wd_r, h.wd_c, hk], h.wd_r, h.wd_c, wd_step hk h.wd_get, ?_, fun j hj => ?_⟩
  · show (st.2.2 ++ [_]).length = k + 1
    simp [hlen]
  · show ∃ y, (st.2.2 ++ [x])[j.val]? = some y ∧ _
    by_cases hjk : j.val = k
    · have : j = ⟨k, hk⟩ := Fin.ext hjk
      subst this
      exact ⟨x, by simp [← hlen], hx⟩
    · have hj' : j.val < st.2.2.length := by omega
      rw [List.getElem?_append_left hj']
      exact h.logs j (by omega)

/-- after the loop: all distances, all list entries -/
theorem OvaInv.final {β : Type} [LogOf α β] {E : Fin K → Emd α n} {len : Nat → Nat} {st : Bool × Arr α × List β}
    (h : OvaInv E len K st) (hlen : len K = K) :
    st.1 = true ∧ IsRow st.2.1 (fun k : Fin K => (E k).value) ∧ st.2.2.length = K ∧
      ∀ j : Fin K, ∃ x, st.2.2[j.val]? = some x ∧ LogOf.rel x (E j) :=
  ⟨h.ok, ⟨h.wd_ok, h.wd_r, h.wd_c, fun j => h.wd_get j j.isLt⟩, h.len_eq.trans hlen, fun j => h.logs j j.isLt⟩

/-! ### one-vs-one: `for k1 in range(K): for k2 in range(k1 + 1, K):` -/

/-- the pair `a < b` has been processed when the loops are about to process `(k1, k2)` (lexicographic order) -/
abbrev pairDone (k1 k2 a b : Nat) : Prop := a < b ∧ (a < k1 ∨ (a = k1 ∧ b < k2))

/-- `wasserstein_distances` when the loops are about to process `(k1, k2)`: symmetric, filled for the processed pairs -/
def InvW (E : Fin K → Fin K → Emd α n) (k1 k2 : Nat) (W : Arr α) : Prop :=
  W.ok = true ∧ W.r = K ∧ W.c = K ∧ ∀ a b : Fin K, W.get a.val b.val =
    if pairDone k1 k2 a.val b.val then (E a b).value else if pairDone k1 k2 b.val a.val then (E b a).value else 0

theorem InvW.init (E : Fin K → Fin K → Emd α n) : InvW E 0 0 (zeros K K) :=
  ⟨rfl, rfl, rfl, fun a b => by simp [pairDone]⟩

theorem InvW.congr {E : Fin K → Fin K → Emd α n} {k1 k2 l1 l2 : Nat} {W : Arr α} (h : InvW E k1 k2 W)
    (hd : ∀ a b : Nat, a < K → b < K → (pairDone k1 k2 a b ↔ pairDone l1 l2 a b)) : InvW E l1 l2 W := by
  obtain ⟨h1, h2, h3, h4⟩ := h
  refine ⟨h1, h2, h3, fun a b => ?_⟩
  rw [h4 a b]
  simp only [hd a.val b.val a.isLt b.isLt, hd b.val a.val b.isLt a.isLt]

/-- entering the inner loop: nothing of row `k1` is done yet -/
theorem InvW.enter {E : Fin K → Fin K → Emd α n} {k1 : Nat} {W : Arr α} (h : InvW E k1 0 W) : InvW E k1 (k1 + 1) W :=
  h.congr fun a b _ _ => by unfold pairDone; omega

/-- leaving the inner loop: row `k1` is done -/
theorem InvW.leave {E : Fin K → Fin K → Emd α n} {k1 : Nat} {W : Arr α} (h : InvW E k1 K W) : InvW E (k1 + 1) 0 W :=
  h.congr fun a b _ _ => by unfold pairDone; omega

/-- one iteration of the inner loop: `W[k1, k2] = emd; W[k2, k1] = emd` -/
theorem InvW.step {E : Fin K → Fin K → Emd α n} {k1 k2 : Nat} {W : Arr α} (h : InvW E k1 k2 W) (h12 : k1 < k2) (hk2 : k2 < K) :
    InvW E k1 (k2 + 1) (setAt2 (setAt2 W k1 k2 (E ⟨k1, by omega⟩ ⟨k2, hk2⟩).value) k2 k1 (E ⟨k1, by omega⟩ ⟨k2, hk2⟩).value) := by
  obtain ⟨h1, h2, h3, h4⟩ := h
  have hk1 : k1 < K := by omega
  refine ⟨by simp [h1, h2, h3, hk2]; omega, h2, h3, fun a b => ?_⟩
  simp only [setAt2_get, h4 a b]
  by_cases hab : a.val = k1 ∧ b.val = k2
  · obtain ⟨ha, hb⟩ := hab
    have ea : a = ⟨k1, hk1⟩ := Fin.ext ha
    have eb : b = ⟨k2, hk2⟩ := Fin.ext hb
    subst ea eb
    have : ¬ (k1 = k2 ∧ k2 = k1) := by omega
    simp [this, pairDone, h12]
  · by_cases hba : a.val = k2 ∧ b.val = k1
    · obtain ⟨ha, hb⟩ := hba
      have ea : a = ⟨k2, hk2⟩ := Fin.ext ha
      have eb : b = ⟨k1, hk1⟩ := Fin.ext hb
      subst ea eb
      have h21 : ¬ k2 < k1 := by omega
      simp [pairDone, h12, h21]
    · have e1 : pairDone k1 (k2 + 1) a.val b.val ↔ pairDone k1 k2 a.val b.val := by unfold pairDone; omega
      have e2 : pairDone k1 (k2 + 1) b.val a.val ↔ pairDone k1 k2 b.val a.val := by unfold pairDone; omega
      simp only [hab, hba, if_false, e1, e2]

/-- after the loops: the matrix `w` of the model -/
theorem InvW.final {E : Fin K → Fin K → Emd α n} {W : Arr α} (h : InvW E K 0 W) :
    IsMat W (fun a b : Fin K => if a.val < b.val then (E a b).value else if b.val < a.val then (E b a).value else 0) := by
  obtain ⟨h1, h2, h3, h4⟩ := h
  refine ⟨h1, h2, h3, fun a b => ?_⟩
  rw [h4 a b]
  have e1 : pairDone K 0 a.val b.val ↔ a.val < b.val := by have := a.isLt; unfold pairDone; omega
  have e2 : pairDone K 0 b.val a.val ↔ b.val < a.val := by have := b.isLt; unfold pairDone; omega
  simp only [e1, e2]

end generic

/-! ### real numbers: the one-vs-one gradient (accumulated pair by pair in the source, summed cluster by cluster in the model) -/

section real
open scoped BigOperators
variable {n K : Nat}

/-- the centred potential column `k` receives from the pair `{k, o}` (as in `wassGradT`) -/
noncomputable def wassPot (E : Fin K → Fin K → Emd ℝ n) (k o : Fin K) (i : Fin n) : ℝ :=
  if k.val < o.val then (E k o).u i - (∑ j, (E k o).u j) / n else (E o k).v i - (∑ j, (E o k).v j) / n

/-- what the pair `{k, o}` adds to `grads[i, k]` -/
noncomputable def wassTerm (E : Fin K → Fin K → Emd ℝ n) (pi : Fin K → ℝ) (y : Fin n → Fin K → ℝ) (k o : Fin K) (i : Fin n) : ℝ :=
  2 * pi o * (wassPot E k o i / n - ∑ j, wassPot E k o j * y j k / (n * n * pi k))

/-- `grads` when the loops are about to process `(k1, k2)`: column `k` holds the terms of the processed pairs containing `k` -/
def GVals (T : Fin K → Fin K → Fin n → ℝ) (k1 k2 : Nat) (G : Arr ℝ) : Prop :=
  ∀ (i : Fin n) (k : Fin K), G.get i.val k.val =
    ∑ o : Fin K, if pairDone k1 k2 k.val o.val ∨ pairDone k1 k2 o.val k.val then T k o i else 0

theorem GVals.init (T : Fin K → Fin K → Fin n → ℝ) (r c : Nat) : GVals T 0 0 (zeros r c) := by
  intro i k
  simp [pairDone]

theorem GVals.congr {T : Fin K → Fin K → Fin n → ℝ} {k1 k2 l1 l2 : Nat} {G : Arr ℝ} (h : GVals T k1 k2 G)
    (hd : ∀ a b : Nat, a < K → b < K → (pairDone k1 k2 a b ↔ pairDone l1 l2 a b)) : GVals T l1 l2 G := by
  intro i k
  rw [h i k]
  refine Finset.sum_congr rfl fun o _ => ?_
  simp only [hd k.val o.val k.isLt o.isLt, hd o.val k.val o.isLt k.isLt]

theorem GVals.enter {T : Fin K → Fin K → Fin n → ℝ} {k1 : Nat} {G : Arr ℝ} (h : GVals T k1 0 G) : GVals T k1 (k1 + 1) G :=
  h.congr fun a b _ _ => by unfold pairDone; omega

theorem GVals.leave {T : Fin K → Fin K → Fin n → ℝ} {k1 : Nat} {G : Arr ℝ} (h : GVals T k1 K G) : GVals T (k1 + 1) 0 G :=
  h.congr fun a b _ _ => by unfold pairDone; omega

/-- one iteration of the inner loop: `grads[:, k1] += T k1 k2`, `grads[:, k2] += T k2 k1` -/
theorem GVals.step {T : Fin K → Fin K → Fin n → ℝ} {k1 k2 : Nat} {G G' : Arr ℝ} (h : GVals T k1 k2 G)
    (h12 : k1 < k2) (hk2 : k2 < K)
    (hG' : ∀ (i : Fin n) (k : Fin K), G'.get i.val k.val =
      if k.val = k2 then G.get i.val k.val + T k ⟨k1, by omega⟩ i
      else if k.val = k1 then G.get i.val k.val + T k ⟨k2, hk2⟩ i else G.get i.val k.val) :
    GVals T k1 (k2 + 1) G' := by
  have hk1 : k1 < K := by omega
  intro i k
  rw [hG' i k, h i k]
  have key : ∀ o : Fin K, (if pairDone k1 (k2 + 1) k.val o.val ∨ pairDone k1 (k2 + 1) o.val k.val then T k o i else 0) =
      (if pairDone k1 k2 k.val o.val ∨ pairDone k1 k2 o.val k.val then T k o i else 0)
        + (if (k.val = k2 ∧ o = ⟨k1, hk1⟩) ∨ (k.val = k1 ∧ o = ⟨k2, hk2⟩) then T k o i else 0) := by
    intro o
    by_cases hnew : (k.val = k2 ∧ o.val = k1) ∨ (k.val = k1 ∧ o.val = k2)
    · have hD : ¬ (pairDone k1 k2 k.val o.val ∨ pairDone k1 k2 o.val k.val) := by unfold pairDone; omega
      have hD' : pairDone k1 (k2 + 1) k.val o.val ∨ pairDone k1 (k2 + 1) o.val k.val := by unfold pairDone; omega
      have hnew' : (k.val = k2 ∧ o = ⟨k1, hk1⟩) ∨ (k.val = k1 ∧ o = ⟨k2, hk2⟩) := by simpa [Fin.ext_iff] using hnew
      rw [if_pos hD', if_neg hD, if_pos hnew', zero_add]
    · have hiff : (pairDone k1 (k2 + 1) k.val o.val ∨ pairDone k1 (k2 + 1) o.val k.val) ↔
          (pairDone k1 k2 k.val o.val ∨ pairDone k1 k2 o.val k.val) := by unfold pairDone; omega
      have hnew' : ¬ ((k.val = k2 ∧ o = ⟨k1, hk1⟩) ∨ (k.val = k1 ∧ o = ⟨k2, hk2⟩)) := by simpa [Fin.ext_iff] using hnew
      rw [if_neg hnew', add_zero]
      simp only [hiff]
  rw [Finset.sum_congr rfl fun o _ => key o, Finset.sum_add_distrib]
  by_cases e2 : k.val = k2
  · have hc : ∀ o : Fin K, ((k.val = k2 ∧ o = ⟨k1, hk1⟩) ∨ (k.val = k1 ∧ o = ⟨k2, hk2⟩)) ↔ o = ⟨k1, hk1⟩ := fun o =>
      ⟨fun h => h.elim (fun h => h.2) (fun h => absurd h.1 (by omega)), fun h => Or.inl ⟨e2, h⟩⟩
    simp only [hc, Finset.sum_ite_eq', Finset.mem_univ, if_true, if_pos e2]
  · by_cases e1 : k.val = k1
    · have hc : ∀ o : Fin K, ((k.val = k2 ∧ o = ⟨k1, hk1⟩) ∨ (k.val = k1 ∧ o = ⟨k2, hk2⟩)) ↔ o = ⟨k2, hk2⟩ := fun o =>
        ⟨fun h => h.elim (fun h => absurd h.1 e2) (fun h => h.2), fun h => Or.inr ⟨e1, h⟩⟩
      simp only [hc, Finset.sum_ite_eq', Finset.mem_univ, if_true, if_neg e2, if_pos e1]
    · have hc : ∀ o : Fin K, ¬ ((k.val = k2 ∧ o = ⟨k1, hk1⟩) ∨ (k.val = k1 ∧ o = ⟨k2, hk2⟩)) := fun o h =>
        h.elim (fun h => e2 h.1) (fun h => e1 h.1)
      simp only [hc, if_false, Finset.sum_const_zero, add_zero, if_neg e2, if_neg e1]

/-- after the loops -/
theorem GVals.final {T : Fin K → Fin K → Fin n → ℝ} {G : Arr ℝ} (h : GVals T K 0 G) (i : Fin n) (k : Fin K) :
    G.get i.val k.val = ∑ o : Fin K, if o = k then 0 else T k o i := by
  rw [h i k]
  refine Finset.sum_congr rfl fun o _ => ?_
  have e : (pairDone K 0 k.val o.val ∨ pairDone K 0 o.val k.val) ↔ ¬ o = k := by
    have := k.isLt; have := o.isLt
    rw [Fin.ext_iff]; unfold pairDone; omega
  simp only [e, ite_not]

/-- the one-vs-one gradient of the model, with its sums written as `∑` -/
theorem wassGradT_ovo_real (pairE : Fin K → Fin K → Emd ℝ n) (unifE : Fin K → Emd ℝ n) (ε : ℝ) (P : Fin n → Fin K → ℝ)
    (i : Fin n) (k : Fin K) :
    wassGradT pairE unifE ε true P i k =
      ((∑ o, if o = k then 0 else wassTerm pairE (mean0 (clipP ε P)) (clipP ε P) k o i)
        + 2 * (∑ b, (if k.val < b.val then (pairE k b).value else if b.val < k.val then (pairE b k).value else 0)
            * mean0 (clipP ε P) b) / n) * clipMask ε P i k := by
  simp only [wassGradT, wassTerm, wassPot, meanV, sumFin_eq_sum, tab_apply, nat_real, if_true]
  congr 2
  refine Finset.sum_congr rfl fun o _ => ?_
  by_cases hok : o = k
  · simp [hok]
  · simp only [hok, if_false]
    by_cases hlt : k.val < o.val
    · simp [hlt]
    · simp [hlt]

end real

end GemVerif.Lemmas.WassGen

set_option hygiene false in
/-- `wass_prefix` (used by the four proofs of Props/C01WassGen.lean, in a context with `ε`, `P : Fin n → Fin K → α`): names
    the NumPy EXPRESSIONS of the common first lines of `WassersteinGEMINI.evaluate` and says what they are — `y1`, the clipped
    predictions (`hy_*`); `pi = y1.mean(0)` (`hpi_*`); `wy = (y1 / (pi.reshape((1, -1)) * N)).T`, the weight vectors of the
    model (`hwy`). -/
macro "wass_prefix" : tactic => `(tactic| (
  dsimp only [GemVerif.Np.Arr.ofFn_r, GemVerif.Np.Arr.ofFn_c]
  have hy : IsMat (Arr.clip (ofFn P) ε (1 - ε)) (clipP ε P) := by
    refine ⟨?_, ?_, ?_, ?_⟩ <;> simp [clipP]
  name_expr y1 := Arr.clip (ofFn P) ε (1 - ε) at hy
  obtain ⟨hy_ok, hy_r, hy_c, hy_get⟩ := hy
  have hpi : IsRow (meanAxis0 y1) (mean0 (clipP ε P)) := by
    refine ⟨?_, ?_, ?_, ?_⟩ <;> simp [mean0, hy_ok, hy_r, hy_c, hy_get]
  name_expr pi := meanAxis0 y1 at hpi
  have hwy : IsMat (transpose (div y1 (muls (reshapeRow pi) (nat n)))) (wassWeights ε P) := by
    obtain ⟨hpi_ok, hpi_r, hpi_c, hpi_get⟩ := hpi
    refine ⟨?_, ?_, ?_, ?_⟩ <;> simp [div, wassWeights, hy_ok, hy_r, hy_c, hy_get, hpi_ok, hpi_r, hpi_c, hpi_get]
  name_expr wy := transpose (div y1 (muls (reshapeRow pi) (nat n))) at hwy
  obtain ⟨hpi_ok, hpi_r, hpi_c, hpi_get⟩ := hpi))
