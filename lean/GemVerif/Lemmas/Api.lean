/-
  Helper lemmas for C04: `np.argmax` (`argmaxRow`) returns an index inside the row, of a maximal entry, the first one;
  soft-max rows are probability vectors.  (The soft-max closed form is re-proved here so that C04 does not depend on
  the C03 lemma files.)
-/
import GemVerif.Model.Api
import GemVerif.NumReal
import Mathlib.Analysis.SpecialFunctions.Exp

namespace GemVerif.ApiLemmas
open scoped BigOperators
open GemVerif Model.Nets

/-! ### `argmaxRow`: the fold and its invariants -/

section Generic
variable {α : Type} [RealLike α]

/-- the fold function of `argmaxRow` (a strictly larger entry replaces the running best) -/
def amStep (best : Option (α × Nat)) (x : α × Nat) : Option (α × Nat) :=
  match best with
  | none => some x
  | some (bv, bi) => if RealLike.lt bv x.1 then some x else some (bv, bi)

theorem argmaxRow_eq_fold {K : Nat} (z : Fin K → α) :
    argmaxRow z = (((List.ofFn z).zipIdx.foldl amStep none).map (·.2)).getD 0 := rfl

/-- index part of the invariant, valid for every number type: the running best index is below the number of entries
    seen so far -/
def IdxInv (m : Nat) (r : Option (α × Nat)) : Prop :=
  match r with
  | none => m = 0
  | some p => p.2 < m

theorem idxInv_step {m : Nat} {r : Option (α × Nat)} (h : IdxInv m r) (v : α) : IdxInv (m + 1) (amStep r (v, m)) := by
  cases r with
  | none => simp [amStep, IdxInv]
  | some p =>
    obtain ⟨bv, bi⟩ := p
    simp only [amStep]
    split
    · simp [IdxInv]
    · simp only [IdxInv] at h ⊢; omega

theorem idxInv_fold (xs : List α) : ∀ (s : Nat) (r : Option (α × Nat)), IdxInv s r →
    IdxInv (s + xs.length) ((xs.zipIdx s).foldl amStep r) := by
  induction xs with
  | nil => intro s r h; simpa using h
  | cons x xs ih =>
    intro s r h
    rw [List.zipIdx_cons, List.foldl_cons]
    have := ih (s + 1) _ (idxInv_step h x)
    simpa [Nat.add_assoc, Nat.add_comm 1] using this

/-- `np.argmax` of a non-empty row is an index of the row — for every number type (IEEE doubles included) -/
theorem argmaxRow_lt {K : Nat} (z : Fin K → α) (hK : 0 < K) : argmaxRow z < K := by
  rw [argmaxRow_eq_fold]
  have h := idxInv_fold (List.ofFn z) 0 none (by simp [IdxInv])
  simp only [List.length_ofFn, Nat.zero_add] at h
  cases hr : (List.ofFn z).zipIdx.foldl amStep none with
  | none => simpa using hK
  | some p => rw [hr] at h; simpa [IdxInv] using h

end Generic

/-! ### over ℝ: a maximal entry, the first one -/

/-- after `m` entries of `g`, the running best is `(g i, i)` with `i` the first index of a maximal entry among them -/
def MaxInv (g : Nat → ℝ) (m : Nat) (r : Option (ℝ × Nat)) : Prop :=
  match r with
  | none => m = 0
  | some p => p.2 < m ∧ p.1 = g p.2 ∧ (∀ j, j < m → g j ≤ g p.2) ∧ (∀ j, j < p.2 → g j < g p.2)

theorem maxInv_step {g : Nat → ℝ} {m : Nat} {r : Option (ℝ × Nat)} (h : MaxInv g m r) :
    MaxInv g (m + 1) (amStep r (g m, m)) := by
  cases r with
  | none =>
    simp only [MaxInv] at h
    subst h
    refine ⟨by simp, rfl, fun j hj => ?_, fun j hj => by simp at hj⟩
    have : j = 0 := by omega
    subst this; exact le_refl _
  | some p =>
    obtain ⟨bv, bi⟩ := p
    obtain ⟨h1, h2, h3, h4⟩ := h
    simp only at h1 h2 h3 h4
    subst h2
    simp only [amStep, RealLike.lt_real]
    by_cases hlt : g bi < g m
    · simp only [hlt, decide_true, if_true]
      refine ⟨by simp, rfl, fun j hj => ?_, fun j hj => ?_⟩
      · rcases Nat.lt_succ_iff_lt_or_eq.mp hj with hj | hj
        · exact le_trans (h3 j hj) hlt.le
        · subst hj; exact le_refl _
      · exact lt_of_le_of_lt (h3 j hj) hlt
    · simp only [hlt, decide_false, Bool.false_eq_true, if_false]
      refine ⟨by simp only; omega, rfl, fun j hj => ?_, h4⟩
      rcases Nat.lt_succ_iff_lt_or_eq.mp hj with hj | hj
      · exact h3 j hj
      · subst hj; exact not_lt.mp hlt

theorem maxInv_fold (g : Nat → ℝ) (xs : List ℝ) : ∀ (s : Nat) (r : Option (ℝ × Nat)),
    (∀ t (ht : t < xs.length), xs[t] = g (s + t)) → MaxInv g s r →
    MaxInv g (s + xs.length) ((xs.zipIdx s).foldl amStep r) := by
  induction xs with
  | nil => intro s r _ h; simpa using h
  | cons x xs ih =>
    intro s r hx h
    rw [List.zipIdx_cons, List.foldl_cons]
    have hx0 : x = g s := by
      have := hx 0 (by simp)
      rw [List.getElem_cons_zero, Nat.add_zero] at this
      exact this
    subst hx0
    have := ih (s + 1) _ (fun t ht => by
      have := hx (t + 1) (by simpa using ht)
      simpa [Nat.add_assoc, Nat.add_comm 1] using this) (maxInv_step h)
    simpa [Nat.add_assoc, Nat.add_comm 1] using this

/-- the row as a function on ℕ -/
noncomputable def ext {K : Nat} (z : Fin K → ℝ) (t : Nat) : ℝ := if h : t < K then z ⟨t, h⟩ else 0

theorem ext_val {K : Nat} (z : Fin K → ℝ) (j : Fin K) : ext z j.val = z j := by simp [ext, j.isLt]

/-- `np.argmax(row)` is an index of a maximal entry, and every earlier entry is strictly smaller (first maximum) -/
theorem argmaxRow_spec {K : Nat} (z : Fin K → ℝ) (hK : 0 < K) :
    ∃ h : argmaxRow z < K, (∀ j : Fin K, z j ≤ z ⟨argmaxRow z, h⟩) ∧
      (∀ j : Fin K, j.val < argmaxRow z → z j < z ⟨argmaxRow z, h⟩) := by
  have hfold := maxInv_fold (ext z) (List.ofFn z) 0 none
    (fun t ht => by
      have ht' : t < K := by simpa using ht
      simp [ext, ht']) (by simp [MaxInv])
  simp only [List.length_ofFn, Nat.zero_add] at hfold
  rw [argmaxRow_eq_fold]
  cases hr : (List.ofFn z).zipIdx.foldl amStep none with
  | none => rw [hr] at hfold; simp only [MaxInv] at hfold; omega
  | some p =>
    rw [hr] at hfold
    obtain ⟨h1, _, h3, h4⟩ := hfold
    simp only [Option.map_some, Option.getD_some]
    refine ⟨h1, fun j => ?_, fun j hj => ?_⟩
    · have := h3 j.val j.isLt
      rwa [ext_val, show ext z p.2 = z ⟨p.2, h1⟩ from ext_val z ⟨p.2, h1⟩] at this
    · have := h4 j.val hj
      rwa [ext_val, show ext z p.2 = z ⟨p.2, h1⟩ from ext_val z ⟨p.2, h1⟩] at this

/-! ### soft-max rows are probability vectors -/

theorem sum_exp_pos {K : Nat} (z : Fin K → ℝ) (k : Fin K) : 0 < ∑ c, Real.exp (z c) :=
  Finset.sum_pos (fun _ _ => Real.exp_pos _) ⟨k, Finset.mem_univ k⟩

/-- the normaliser `np.sum(exp(z - max z))` that `softmax` divides by is strictly positive for a non-empty row -/
theorem softmax_normaliser_pos {K : Nat} (z : Fin K → ℝ) (k : Fin K) :
    0 < sumFin fun c => (tab fun c => RealLike.exp (z c - rowMax z)) c := by
  simp only [tab_apply, sumFin_eq_sum, RealLike.exp_real]
  exact Finset.sum_pos (fun _ _ => Real.exp_pos _) ⟨k, Finset.mem_univ k⟩

/-- over ℝ the max-subtraction of `sklearn.utils.extmath.softmax` cancels -/
theorem softmaxRow_eq {K : Nat} (z : Fin K → ℝ) (k : Fin K) :
    softmaxRow z k = Real.exp (z k) / ∑ c, Real.exp (z c) := by
  have hpos := sum_exp_pos z k
  simp only [softmaxRow, tab_apply, sumFin_eq_sum, RealLike.exp_real]
  generalize rowMax z = m
  simp only [Real.exp_sub, ← Finset.sum_div]
  have := (Real.exp_pos m).ne'
  field_simp

theorem softmaxRow_pos {K : Nat} (z : Fin K → ℝ) (k : Fin K) : 0 < softmaxRow z k := by
  rw [softmaxRow_eq]
  exact div_pos (Real.exp_pos _) (sum_exp_pos z k)

theorem softmaxRow_sum {K : Nat} (z : Fin K → ℝ) (hK : 0 < K) : ∑ k, softmaxRow z k = 1 := by
  simp only [softmaxRow_eq, ← Finset.sum_div]
  exact div_self (sum_exp_pos z ⟨0, hK⟩).ne'

theorem softmaxRow_le_one {K : Nat} (z : Fin K → ℝ) (k : Fin K) : softmaxRow z k ≤ 1 := by
  rw [← softmaxRow_sum z (Nat.lt_of_le_of_lt (Nat.zero_le _) k.isLt)]
  exact Finset.single_le_sum (fun c _ => (softmaxRow_pos z c).le) (Finset.mem_univ k)

/-- soft-max is increasing in the logit: the arg-max of the probabilities is an arg-max of the logits -/
theorem softmaxRow_le_iff {K : Nat} (z : Fin K → ℝ) (a b : Fin K) : softmaxRow z a ≤ softmaxRow z b ↔ z a ≤ z b := by
  rw [softmaxRow_eq, softmaxRow_eq, div_le_div_iff_of_pos_right (sum_exp_pos z a), Real.exp_le_exp]

end GemVerif.ApiLemmas
