/-
  Helper lemmas for C10 (mini-batches partition the data and stay aligned with the affinity matrix):
  facts about the `while j < len(X)` loop `batchLoop`, fancy indexing (`gather`, `block`), slices, and the
  validation loop of `compute_val_score`.
-/
import GemVerif.Model.Batch
import Mathlib.Data.List.Basic
import Mathlib.Data.List.Perm.Basic
import Mathlib.Data.List.Nodup
import Mathlib.Data.List.Range
import Mathlib.Data.Rat.Floor
import Mathlib.Algebra.Order.Floor.Semiring

namespace GemVerif.BatchLemmas
open GemVerif.Model.Batch

/-! ### the loop -/

theorem batchLoop_flatten (all : List Nat) (bs : Nat) (hbs : 0 < bs) (j : Nat) :
    (batchLoop all bs hbs j).flatten = all.drop j := by
  fun_induction batchLoop all bs hbs j with
  | case1 j hj ih =>
    rw [List.flatten_cons, ih, ← List.drop_drop, List.take_append_drop]
  | case2 j hj =>
    simp only [List.flatten_nil]
    exact (List.drop_eq_nil_of_le (by omega)).symm

theorem batchLoop_len (all : List Nat) (bs : Nat) (hbs : 0 < bs) (j : Nat) :
    ∀ b ∈ batchLoop all bs hbs j, b.length ≤ bs ∧ 0 < b.length := by
  fun_induction batchLoop all bs hbs j with
  | case1 j hj ih =>
    intro b hb
    rcases List.mem_cons.1 hb with rfl | hb
    · simp only [List.length_take, List.length_drop]; omega
    · exact ih b hb
  | case2 j hj => intro b hb; cases hb

theorem batchLoop_length (all : List Nat) (bs : Nat) (hbs : 0 < bs) (j : Nat) :
    (batchLoop all bs hbs j).length = (all.length - j + bs - 1) / bs := by
  fun_induction batchLoop all bs hbs j with
  | case1 j hj ih =>
    rw [List.length_cons, ih]
    by_cases h : bs ≤ all.length - j
    · have : all.length - j + bs - 1 = (all.length - (j + bs) + bs - 1) + bs := by omega
      rw [this, Nat.add_div_right _ hbs]
    · have h1 : all.length - (j + bs) + bs - 1 = bs - 1 := by omega
      rw [h1, Nat.div_eq_of_lt (by omega)]
      symm
      rw [Nat.div_eq_iff hbs]
      constructor <;> (simp only [Nat.zero_add, Nat.one_mul]; omega)
  | case2 j hj =>
    simp only [List.length_nil]
    symm
    apply Nat.div_eq_of_lt; omega

theorem batchLoop_getElem? (all : List Nat) (bs : Nat) (hbs : 0 < bs) (k j : Nat) :
    (batchLoop all bs hbs j)[k]? =
      if j + k * bs < all.length then some ((all.drop (j + k * bs)).take bs) else none := by
  induction k generalizing j with
  | zero =>
    rw [batchLoop]
    by_cases h : j < all.length <;> simp [h]
  | succ k ih =>
    rw [batchLoop]
    by_cases h : j < all.length
    · simp only [h, if_true, List.getElem?_cons_succ, ih]
      have : j + bs + k * bs = j + (k + 1) * bs := by rw [Nat.succ_mul]; omega
      rw [this]
    · have : ¬ j + (k + 1) * bs < all.length := by omega
      simp [h, this]

/-- one batch when the batch size reaches the data size -/
theorem batchLoop_single (all : List Nat) (bs : Nat) (hbs : 0 < bs) (hne : all ≠ []) (hle : all.length ≤ bs) :
    batchLoop all bs hbs 0 = [all] := by
  have hpos : 0 < all.length := List.length_pos_iff.2 hne
  rw [batchLoop, if_pos hpos, batchLoop, if_neg (by omega)]
  simp [List.take_of_length_le hle]

/-- `k < ⌈n/bs⌉ ↔ k·bs < n` -/
theorem lt_ceilDiv_iff (n bs k : Nat) (hbs : 0 < bs) : k < (n + bs - 1) / bs ↔ k * bs < n := by
  rw [Nat.lt_div_iff_mul_lt hbs]
  generalize k * bs = m
  omega

/-- `(n + bs - 1) / bs` is the ceiling of `n / bs`. -/
theorem ceilDiv_eq_ceil (n bs : Nat) (hbs : 0 < bs) : (n + bs - 1) / bs = ⌈(n : ℚ) / (bs : ℚ)⌉₊ := by
  apply eq_of_forall_ge_iff
  intro k
  have hq : (0 : ℚ) < (bs : ℚ) := by exact_mod_cast hbs
  rw [Nat.ceil_le, div_le_iff₀ hq]
  have h1 : ((n : ℚ) ≤ (k : ℚ) * (bs : ℚ)) ↔ n ≤ k * bs := by exact_mod_cast Iff.rfl
  rw [h1]
  have := lt_ceilDiv_iff n bs k hbs
  constructor
  · intro h
    by_contra hc
    exact absurd ((lt_ceilDiv_iff n bs k hbs).2 (by omega)) (by omega)
  · intro h
    by_contra hc
    exact absurd ((lt_ceilDiv_iff n bs k hbs).1 (by omega)) (by omega)

/-! ### fancy indexing -/

section gather
variable {β : Type} [Inhabited β]

theorem gather_length (X : List β) (idx : List Nat) : (gather X idx).length = idx.length := by
  simp [gather]

theorem gather_getElem! (X : List β) (idx : List Nat) (a : Nat) (ha : a < idx.length) :
    (gather X idx)[a]! = X[idx[a]!]! := by
  simp [gather, ha]

theorem gather_range (n : Nat) (idx : List Nat) (h : ∀ i ∈ idx, i < n) : gather (List.range n) idx = idx := by
  unfold gather
  conv_rhs => rw [← List.map_id idx]
  apply List.map_congr_left
  intro i hi
  simp [h i hi]

theorem gather_range_self (X : List β) : gather X (List.range X.length) = X := by
  apply List.ext_getElem
  · simp [gather]
  · intro a h1 h2
    simp only [gather, List.length_map, List.length_range] at h1
    simp [gather, h1]

/-- `X[idx]` for the contiguous indices `j, …` is the slice `X[j:j+bs]`. -/
theorem gather_slice (X : List β) (n j bs : Nat) (hn : X.length = n) :
    gather X (((List.range n).drop j).take bs) = slice X j bs := by
  subst hn
  apply List.ext_getElem
  · simp [gather, slice]
  · intro a h1 h2
    simp [gather, slice] at h1 h2 ⊢
    rw [List.getElem?_eq_getElem (by omega)]; rfl

end gather

theorem range_drop_take (n j bs : Nat) : ((List.range n).drop j).take bs = List.range' j (min bs (n - j)) := by
  apply List.ext_getElem
  · simp
  · intro a h1 h2
    simp at h1 h2 ⊢

section block
variable {α : Type} [Inhabited α]

theorem block_length (A : Mat α) (idx : List Nat) : (block A idx).length = idx.length := by
  simp [block, gatherCols, gather]

theorem block_row_length (A : Mat α) (idx : List Nat) : ∀ r ∈ block A idx, r.length = idx.length := by
  intro r hr
  simp only [block, gatherCols, gather, List.map_map, List.mem_map] at hr
  obtain ⟨i, _, rfl⟩ := hr
  simp

theorem block_getElem! (A : Mat α) (idx : List Nat) (a b : Nat) (ha : a < idx.length) (hb : b < idx.length) :
    (block A idx)[a]![b]! = A[idx[a]!]![idx[b]!]! := by
  simp [block, gatherCols, gather, ha, hb]

/-- `y[j:j+bs][:, j:j+bs]` is the block of the contiguous indices. -/
theorem block_slice (y : Mat α) (n j bs : Nat) (hn : y.length = n) (hrow : ∀ r ∈ y, r.length = n) :
    block y (((List.range n).drop j).take bs) = sliceBlock y j bs := by
  unfold block gatherCols sliceBlock
  rw [gather_slice y n j bs hn]
  apply List.map_congr_left
  intro r hr
  have hr' : r ∈ y := List.mem_of_mem_drop (List.mem_of_mem_take hr)
  exact gather_slice r n j bs (hrow r hr')

end block

/-! ### the validation loop -/

theorem valLoop_eq {β α : Type} [Inhabited β] [Inhabited α] (X : List β) (y : Mat α) (bs : Nat) (hbs : 0 < bs)
    (hy : y.length = X.length) (hrow : ∀ r ∈ y, r.length = X.length) (j : Nat) :
    valLoop X y bs hbs j = (batchLoop (List.range X.length) bs hbs j).map (mkBatch X (some y)) := by
  fun_induction valLoop X y bs hbs j with
  | case1 j hj ih =>
    rw [batchLoop, if_pos (by simpa using hj), List.map_cons, ih]
    congr 1
    simp only [mkBatch]
    rw [gather_slice X X.length j bs rfl, block_slice y X.length j bs hy hrow]
  | case2 j hj =>
    rw [batchLoop, if_neg (by simpa using hj)]
    rfl

end GemVerif.BatchLemmas
