/-
  C16 — documented hyperparameter domains (hand-written from the docstrings of /repo, NOT from the code) and the
  helper lemmas for `check_groups`.  No Mathlib.

  Part 1 (`GemVerif.Spec.Constraints`): the documented-domain table.  It lives here (and not in `Props/C16.lean`,
  which states the theorems about it) so that the line-protocol driver can export it to the Python oracle without
  depending on the proofs.
  Part 2 (`GemVerif.Lemmas.Constraints`): lemmas about the Python primitives of `Model/Constraints.lean`.
-/
import GemVerif.Model.Constraints

namespace GemVerif.Spec.Constraints
open GemVerif.Model.Constraints

/-- Is a value inside the documented domain of a parameter?
    `unspecified` = the docstring does not settle it (see the readings below); such values are excluded from both
    directions of the table theorems, and the run-time oracle only demands a clean outcome for them (either a
    completed fit or a ValueError/TypeError-family rejection that leaves no fitted model). -/
inductive Verdict | inDom | outDom | unspecified
  deriving DecidableEq, Repr

/-- A documented domain, in the vocabulary of the docstrings.

    Readings (recorded once, used everywhere):
    * "int" is a Python/numpy integer.  Python `bool` is a subclass of `int`; the docstrings do not say whether
      `True`/`False` count as 1/0 for an "int" or "float" parameter ⇒ `unspecified`.
    * "float" is a finite real number, integers included (numeric tower; every example in the docs passes ints).
      `inf`, `-inf` and `nan` are not hyperparameter values ⇒ outside.
    * "bool" is Python `bool`; whether `numpy.bool_` counts is not stated ⇒ `unspecified`.
    * a "callable" is a function with the signature the parameter needs; an arbitrary object that merely defines
      `__call__` (e.g. a GEMINI instance passed as a kernel) ⇒ `unspecified`.
    * "int" seeds (`random_state`) are numpy seeds: 0 … 2³²−1 (docstrings silent on the range). -/
inductive Dom
  /-- "int" with the documented or obviously intended bounds -/
  | int (lo : Int) (hi : Option Int)
  /-- "float" in `(lo, hi)` / `[lo, hi)`; `strict` says whether `lo` itself is excluded; `hi` is always excluded -/
  | real (lo : Rat) (strict : Bool) (hi : Option Rat)
  /-- one of the listed strings -/
  | oneOf (opts : List String)
  | bool
  | none
  | dict
  | list
  | ndarray
  /-- "array" / "list of arrays" / "ndarray of shape …": a list, tuple or ndarray -/
  | array
  | callable
  /-- an integer seed -/
  | seed
  /-- a `RandomState` instance -/
  | randomState
  /-- a GEMINI instance -/
  | geminiInst
  /-- an instance of one of the listed estimator classes -/
  | instanceOfAny (classes : List String)
  /-- a single value about which the docstring is silent -/
  | silent (v : Value)
  deriving Repr

/-- `lo ≤ n` and `n ≤ hi` when there is an upper bound -/
def inIntRange (lo : Int) (hi : Option Int) (n : Int) : Bool :=
  decide (lo ≤ n) && (match hi with | some h => decide (n ≤ h) | Option.none => true)

/-- `lo < q` (or `lo ≤ q`) and `q < hi` when there is an upper bound -/
def inRealRange (lo : Rat) (strict : Bool) (hi : Option Rat) (q : Rat) : Bool :=
  (if strict then decide (lo < q) else decide (lo ≤ q)) && (match hi with | some h => decide (q < h) | Option.none => true)

def Dom.verdict : Dom → Value → Verdict
  | .int lo hi, .int n => if inIntRange lo hi n then .inDom else .outDom
  | .int _ _, .bool _ => .unspecified
  | .real lo strict hi, .int n => if inRealRange lo strict hi (n : Rat) then .inDom else .outDom
  | .real lo strict hi, .float q => if inRealRange lo strict hi q then .inDom else .outDom
  | .real _ _ _, .bool _ => .unspecified
  | .oneOf opts, .str s => if opts.contains s then .inDom else .outDom
  | .bool, .bool _ => .inDom
  | .bool, .npBool _ => .unspecified
  | .none, .none => .inDom
  | .dict, .dict => .inDom
  | .list, .list => .inDom
  | .ndarray, .ndarray => .inDom
  | .array, .list => .inDom
  | .array, .tuple => .inDom
  | .array, .ndarray => .inDom
  | .callable, .func => .inDom
  | .callable, .gemini _ => .unspecified
  | .seed, .int n => if inIntRange 0 (some 4294967295) n then .inDom else .outDom
  | .seed, .bool _ => .unspecified
  | .randomState, .randomState => .inDom
  | .geminiInst, .gemini _ => .inDom
  | .instanceOfAny cs, .estimator c => if cs.contains c then .inDom else .outDom
  | .silent w, v => if v = w then .unspecified else .outDom
  | _, _ => .outDom

/-- a parameter's documented domain is a union -/
def verdictOf (ds : List Dom) (v : Value) : Verdict :=
  if ds.any (fun d => d.verdict v = .inDom) then .inDom
  else if ds.any (fun d => d.verdict v = .unspecified) then .unspecified
  else .outDom

/-! #### Shared paragraphs of the docstrings -/

/-- `gemclus.gemini.AVAILABLE_GEMINI` as listed in the user guide -/
def geminiNames : List String :=
  ["mmd_ova", "mmd_ovo", "wasserstein_ova", "wasserstein_ovo", "kl_ova", "kl_ovo", "mi", "tv_ova", "tv_ovo",
   "hellinger_ova", "hellinger_ovo", "chi2_ova", "chi2_ovo"]

/-- `kernel: {'additive_chi2', 'chi2', 'cosine','linear','poly','polynomial','rbf','laplacian','sigmoid', 'precomputed'}` -/
def kernelNames : List String :=
  ["additive_chi2", "chi2", "cosine", "linear", "poly", "polynomial", "rbf", "laplacian", "sigmoid", "precomputed"]

/-- KernelRIM `base_kernel`: the same list without 'precomputed' -/
def baseKernelNames : List String :=
  ["additive_chi2", "chi2", "cosine", "linear", "poly", "polynomial", "rbf", "laplacian", "sigmoid"]

/-- `metric: {'cosine', 'euclidean', 'l2','l1','manhattan','cityblock', 'precomputed'}` -/
def metricNames : List String := ["cosine", "euclidean", "l2", "l1", "manhattan", "cityblock", "precomputed"]

/-- "MLP___, Linear___ or Categorical___ — a GemClus model that involves gemini maximisation with gradient descent" -/
def gradientModels : List String :=
  ["LinearModel", "LinearMMD", "LinearWasserstein", "RIM", "KernelRIM", "MLPModel", "MLPMMD", "MLPWasserstein",
   "SparseLinearModel", "SparseLinearMMD", "SparseLinearMI", "SparseMLPModel", "SparseMLPMMD",
   "CategoricalModel", "CategoricalMMD", "CategoricalWasserstein", "Douglas"]

-- "n_clusters : int, default=3 — the maximum number of clusters to form" (silent on the range: at least one cluster)
def dNClusters : List Dom := [.int 1 Option.none]
-- "gemini: str, GEMINI instance or None"
def dGemini : List Dom := [.oneOf geminiNames, .geminiInst, .none]
-- "max_iter: int — maximum number of epochs" (silent: at least one epoch; whether 0 epochs is allowed is not said)
def dMaxIter : List Dom := [.int 1 Option.none, .silent (.int 0)]
-- "learning_rate: float — controls the step-size" (silent: a step size is positive)
def dPositive : List Dom := [.real 0 true Option.none]
-- "solver: {'sgd','adam'}"
def dSolver : List Dom := [.oneOf ["sgd", "adam"]]
-- "batch_size: int, default=None — if set to None, the whole data will be considered" (a batch holds ≥ 1 sample)
def dBatch : List Dom := [.int 1 Option.none, .none]
-- "verbose: bool" / "ovo: bool" / "dynamic: bool"
def dBool : List Dom := [.bool]
-- "random_state: int, RandomState instance, default=None"
def dRandomState : List Dom := [.seed, .randomState, .none]
-- MMD estimators: the docstring lists the ten names only; MMDGEMINI's docstring ("ignored if the kernel is callable")
-- and every `kernel` table show that a callable X ↦ kernel matrix is the obviously intended extension.
def dKernel : List Dom := [.oneOf kernelNames, .callable]
-- "kernel_params: dict, default=None" / "metric_params: dict, default=None"
def dParams : List Dom := [.dict, .none]
-- Wasserstein estimators: the seven names; callables are not documented for the estimators
def dMetric : List Dom := [.oneOf metricNames]
-- "reg: float — regularisation hyperparameter for the ℓ2 weight penalty" (silent: a penalty weight is ≥ 0)
def dNonneg : List Dom := [.real 0 false Option.none]
-- "groups: list of arrays of various shapes, default=None" (the content of the list is `check_groups`' business)
def dGroups : List Dom := [.list, .none]
-- "n_hidden_dim: int — the number of neurons in the hidden layer" (at least one neuron)
def dHidden : List Dom := [.int 1 Option.none]
-- "M: float, default=10 — the hierarchy coefficient" (silent: positive; whether 0 is allowed is not said)
def dM : List Dom := [.real 0 true Option.none, .silent (.int 0), .silent (.float 0)]
-- "alpha: float — the weight of the group-lasso penalty" (a penalty weight is ≥ 0)
def dAlpha : List Dom := [.real 0 false Option.none]

def baseParams : List (String × List Dom) := [
  ("n_clusters", dNClusters), ("max_iter", dMaxIter), ("learning_rate", dPositive), ("solver", dSolver),
  ("batch_size", dBatch), ("verbose", dBool), ("random_state", dRandomState)]

/-- The documented domains, class by class and function by function. -/
def documented : List (String × List (String × List Dom)) := [
  -- gemclus/linear/_linear_geminis.py
  ("LinearModel", baseParams ++ [("gemini", dGemini)]),
  ("LinearMMD", baseParams ++ [("kernel", dKernel), ("ovo", dBool), ("kernel_params", dParams)]),
  ("LinearWasserstein", baseParams ++ [("metric", dMetric), ("ovo", dBool), ("metric_params", dParams)]),
  ("RIM", baseParams ++ [("reg", dNonneg)]),
  -- "base_kernel: {...nine names}, or callable"
  ("KernelRIM", baseParams ++ [("reg", dNonneg), ("base_kernel", [.oneOf baseKernelNames, .callable]),
                               ("base_kernel_params", dParams)]),
  -- gemclus/mlp/_mlp_geminis.py
  ("MLPModel", baseParams ++ [("gemini", dGemini), ("n_hidden_dim", dHidden)]),
  ("MLPMMD", baseParams ++ [("n_hidden_dim", dHidden), ("kernel", dKernel), ("ovo", dBool), ("kernel_params", dParams)]),
  ("MLPWasserstein", baseParams ++ [("n_hidden_dim", dHidden), ("metric", dMetric), ("ovo", dBool),
                                    ("metric_params", dParams)]),
  -- gemclus/sparse/_linear_sparse.py
  ("SparseLinearModel", baseParams ++ [("gemini", dGemini), ("groups", dGroups), ("alpha", dAlpha), ("dynamic", dBool)]),
  ("SparseLinearMMD", baseParams ++ [("groups", dGroups), ("kernel", dKernel), ("ovo", dBool), ("alpha", dAlpha),
                                     ("dynamic", dBool), ("kernel_params", dParams)]),
  ("SparseLinearMI", baseParams ++ [("groups", dGroups), ("alpha", dAlpha)]),
  -- gemclus/sparse/_mlp_sparse.py
  ("SparseMLPModel", baseParams ++ [("gemini", dGemini), ("groups", dGroups), ("n_hidden_dim", dHidden), ("M", dM),
                                    ("alpha", dAlpha), ("dynamic", dBool)]),
  ("SparseMLPMMD", baseParams ++ [("groups", dGroups), ("n_hidden_dim", dHidden), ("kernel", dKernel), ("M", dM),
                                  ("alpha", dAlpha), ("ovo", dBool), ("dynamic", dBool), ("kernel_params", dParams)]),
  -- gemclus/nonparametric/_categorical_models.py  (no batch_size: "does not support batching")
  ("CategoricalModel", [("n_clusters", dNClusters), ("gemini", dGemini), ("max_iter", dMaxIter),
                        ("learning_rate", dPositive), ("solver", dSolver), ("verbose", dBool),
                        ("random_state", dRandomState)]),
  ("CategoricalMMD", [("n_clusters", dNClusters), ("max_iter", dMaxIter), ("learning_rate", dPositive),
                      ("solver", dSolver), ("kernel", dKernel), ("ovo", dBool), ("verbose", dBool),
                      ("random_state", dRandomState), ("kernel_params", dParams)]),
  ("CategoricalWasserstein", [("n_clusters", dNClusters), ("max_iter", dMaxIter), ("learning_rate", dPositive),
                              ("metric", dMetric), ("ovo", dBool), ("solver", dSolver), ("verbose", dBool),
                              ("random_state", dRandomState), ("metric_params", dParams)]),
  -- gemclus/tree/douglas.py
  --   "n_cuts: int, default=1 — the number of cuts to consider per feature" (at least one cut; None is NOT documented)
  --   "feature_mask: array of boolean [shape d], default None"  (its length is the mask-length test's business)
  --   "temperature: float" (a softmax temperature is positive)
  ("Douglas", baseParams ++ [("gemini", dGemini), ("n_cuts", [.int 1 Option.none]),
                             ("feature_mask", [.ndarray, .none]), ("temperature", dPositive)]),
  -- gemclus/tree/kauri.py
  --   "max_clusters: int", "max_depth: int, default=None", "min_samples_split: int, default=2" (a split needs two
  --   samples), "min_samples_leaf: int, default=1", "max_features: int, default=None", "max_leaves: int,
  --   default=None" (silent: a clustering tree has at least two leaves; whether 1 is allowed is not said),
  --   "kernel: {ten names}" (+ callable, as for the MMD estimators), "random_state: int, RandomState instance"
  ("Kauri", [("max_clusters", [.int 1 Option.none]), ("max_depth", [.int 1 Option.none, .none]),
             ("min_samples_split", [.int 2 Option.none]), ("min_samples_leaf", [.int 1 Option.none]),
             ("max_features", [.int 1 Option.none, .none]),
             ("max_leaves", [.int 2 Option.none, .none, .silent (.int 1)]),
             ("kernel", dKernel), ("verbose", dBool), ("random_state", dRandomState)]),
  -- gemclus/gemini/_fdivergences.py: "ovo: bool", "epsilon: float — the precision for clipping the prediction
  -- values" (clipping to [ε, 1−ε] needs 0 < ε < 1; ε ≥ 1/2 would be absurd but nothing says so)
  ("KLGEMINI", [("ovo", dBool), ("epsilon", [.real 0 true (some 1)])]),
  ("MI", [("epsilon", [.real 0 true (some 1)])]),
  ("TVGEMINI", [("ovo", dBool), ("epsilon", [.real 0 true (some 1)])]),
  ("HellingerGEMINI", [("ovo", dBool), ("epsilon", [.real 0 true (some 1)])]),
  ("ChiSquareGEMINI", [("ovo", dBool), ("epsilon", [.real 0 true (some 1)])]),
  -- gemclus/gemini/_geomdistances.py
  --   MMDGEMINI "kernel: {ten names}", "kernel_params: … ignored if the kernel is callable or precomputed"
  ("MMDGEMINI", [("ovo", dBool), ("kernel", dKernel), ("kernel_params", dParams), ("epsilon", [.real 0 true (some 1)])]),
  --   WassersteinGEMINI "metric: {seven names}" (its docstring mentions callable metrics in passing, its
  --   constructor has never accepted them: the list of names is taken as the domain)
  ("WassersteinGEMINI", [("ovo", dBool), ("metric", dMetric), ("metric_params", dParams),
                         ("epsilon", [.real 0 true (some 1)])]),
  -- gemclus/mlcl.py: "gemini_model: MLP___, Linear___ or Categorical___", "must_link: ndarray of shape
  -- (n_constraints, 2) or None … described by a list of pairs", "factor: float — a weighting hyperparameter" (positive)
  ("add_mlcl_constraint", [("gemini_model", [.instanceOfAny gradientModels]), ("must_link", [.array, .none]),
                           ("cannot_link", [.array, .none]), ("factor", dPositive)]),
  -- gemclus/tree/kauri.py: "kauri_tree: Kauri — a Kauri instance that was trained",
  -- "feature_names: array of shape (n_features,) or None"
  ("print_kauri_tree", [("kauri_tree", [.instanceOfAny ["Kauri"]]), ("feature_names", [.array, .none])]),
  -- gemclus/data/synthetic_data.py
  --   draw_gmm "n: int — the number of samples", "loc: list of K ndarray", "scale: list of K ndarray",
  --   "pvals: ndarray of shape (K,)", "random_state: int, RandomState instance or None"
  ("draw_gmm", [("n", [.int 1 Option.none]), ("loc", [.array]), ("scale", [.array]), ("pvals", [.array]),
                ("random_state", dRandomState)]),
  --   multivariate_student_t "df: int, default=10 — degrees of freedom": gstm documents the same quantity as
  --   "df: float, default=1" and forwards it here, so the intended domain is a positive real (doc slip, reported)
  ("multivariate_student_t", [("n", [.int 1 Option.none]), ("loc", [.array]), ("scale", [.array]),
                              ("df", dPositive), ("random_state", dRandomState)]),
  --   gstm "n: int, default=500" (four components: at least one sample each; smaller positive n not settled),
  --   "alpha: float — how close the means are" (a positive scale), "df: float"
  ("gstm", [("n", [.int 4 Option.none, .silent (.int 1), .silent (.int 2), .silent (.int 3)]), ("alpha", dPositive),
            ("df", dPositive), ("random_state", dRandomState)]),
  --   celeux_one "n: int", "p: int — the number of excessive noisy variables" (whether p = 0 is allowed is not
  --   said), "mu: float — controls how the means are close to each other by scaling" (a positive scale)
  ("celeux_one", [("n", [.int 1 Option.none]), ("p", [.int 1 Option.none, .silent (.int 0)]), ("mu", dPositive),
                  ("random_state", dRandomState)]),
  ("celeux_two", [("n", [.int 1 Option.none]), ("random_state", dRandomState)])]

/-- verdict of the documentation on `owner(param = v)`; `none` when the parameter is not documented at all -/
def docVerdict (owner param : String) (v : Value) : Option Verdict :=
  ((documented.lookup owner).bind fun rows => rows.lookup param).map fun ds => verdictOf ds v

/-- every (owner, parameter) the documentation describes -/
def documentedKeys : List (String × String) :=
  documented.flatMap fun (o, rows) => rows.map fun (p, _) => (o, p)

/-! #### The representative values the table theorems range over -/

def tiny : Rat := 1 / 1099511627776          -- 2⁻⁴⁰ (a float)

/-- hand-written part: every type, every documented option, boundary neighbours of every documented bound -/
def baseUniverse : List Value :=
  [.int (-1), .int 0, .int 1, .int 2, .int 3, .int 4, .int 5, .int 4294967295, .int 4294967296,
   .float (-1), .float (-tiny), .float 0, .float tiny, .float (1 / 2), .float (1 - tiny), .float 1, .float (1 + tiny),
   .float (5 / 2), .float 2, .posInf, .negInf, .nan,
   .bool true, .bool false, .npBool true, .npBool false,
   .none, .func, .dict, .list, .tuple, .ndarray, .randomState,
   .gemini "MMDGEMINI", .gemini "WassersteinGEMINI", .gemini "MI",
   .estimator "LinearModel", .estimator "SparseMLPMMD", .estimator "Douglas", .estimator "Kauri", .object,
   .str "", .str "bogus", .str "ADAM", .str "Linear", .str "mmd", .str "none", .str "None"]
  ++ (geminiNames ++ kernelNames ++ metricNames ++ ["sgd", "adam"]).map Value.str

/-- boundary neighbours of a bound that occurs in an extracted interval -/
def boundValues : Bound → List Value
  | .fin q =>
    (if q.den = 1 then [Value.int (q.num - 1), .int q.num, .int (q.num + 1)] else []) ++
    [.float (q - tiny), .float q, .float (q + tiny)]
  | _ => []

/-- values that an extracted constraint makes interesting: its bounds and its options -/
def constraintValues (env : Env) : Constraint → List Value
  | .interval _ lo hi _ => boundValues lo ++ boundValues hi
  | .strOptions sets lits => (sets.flatMap env.members ++ lits).map Value.str
  | _ => []

def tableValues (env : Env) (table : List (String × List (String × Option (List Constraint)))) : List Value :=
  table.flatMap fun (_, rows) => rows.flatMap fun (_, row) => (row.getD []).flatMap (constraintValues env)

/-- all representative values: the hand-written ones and those the extracted tables make interesting -/
def repValues (env : Env) (table : List (String × List (String × Option (List Constraint)))) : List Value :=
  (baseUniverse ++ tableValues env table).eraseDups

/-! #### Explicit exception lists of the table theorems (each entry is re-confirmed on the real code by every run) -/

def wassersteinEstimators : List String := ["LinearWasserstein", "MLPWasserstein", "CategoricalWasserstein"]

/-- Values that pass the table although they are outside the documented domain, and are rejected later inside
    `fit` / the call by a ValueError/TypeError-family error. -/
def lateRejected : List (String × String × Value) :=
  -- `Douglas(n_cuts=None)` passes `[Interval(Integral, 1, None), None]`; `normal(size=(None,))` raises TypeError
  [("Douglas", "n_cuts", Value.none)]
  -- the *Wasserstein estimators take `PAIRWISE_DISTANCE_FUNCTIONS + precomputed | callable`; the WassersteinGEMINI
  -- constructor called by `get_gemini()` inside `fit` only takes `PAIRED_DISTANCES + precomputed`
  ++ (wassersteinEstimators.flatMap fun o =>
        [Value.str "haversine", .str "nan_euclidean", .func, .gemini "MMDGEMINI", .gemini "WassersteinGEMINI", .gemini "MI"].map
          fun v => (o, "metric", v))
  -- `Interval(Integral, 0, None)` has no upper end; `check_random_state(2**32)` raises ValueError
  ++ (gradientModels.map fun o => (o, "random_state", Value.int 4294967296))

/-- Documented values that the table rejects (DESIGN §8 row 12), to be removed when /repo is fixed:
    `random_state=RandomState(…)` is documented ("int, RandomState instance") for every DiscriminativeModel subclass
    and rejected by `[Interval(Integral, 0, None, closed="left"), None]`. -/
def knownDeviations : List (String × String × Value) :=
  gradientModels.map fun o => (o, "random_state", Value.randomState)

/-- Parameters the tables do not validate at all (no entry, or an entry under a key that names no parameter):
    every out-of-domain value reaches the body of `fit` / the function. -/
def unvalidated : List (String × String) :=
  [("SparseMLPModel", "groups"), ("SparseMLPMMD", "groups"),
   ("add_mlcl_constraint", "must_link"), ("add_mlcl_constraint", "cannot_link")]

end GemVerif.Spec.Constraints

namespace GemVerif.Lemmas.Constraints
open GemVerif.Model.Constraints

end GemVerif.Lemmas.Constraints
