/-
  C16 — documented hyperparameter domains (hand-written from the docstrings of /repo, NOT from the code) and the
  helper lemmas for `check_groups`.  No Mathlib.

  Part 1 (`GemVerif.Spec.Constraints`): the documented-domain table.  It lives here (and not in `Props/C16.lean`,
  which states the theorems about it) so that the line-protocol driver can export it to the Python oracle without
  depending on the proofs.
  Part 2 (`GemVerif.Lemmas.Constraints`): lemmas about the Python primitives of `Model/Constraints.lean`.
-/
import GemVerif.Model.Constraints

namespace GemVerif.Spec.Constraints
open GemVerif.Model.Constraints

/-- Is a value inside the documented domain of a parameter?
    `unspecified` = the docstring does not settle it (see the readings below); such values are excluded from both
    directions of the table theorems, and the run-time oracle only demands a clean outcome for them (either a
    completed fit or a ValueError/TypeError-family rejection that leaves no fitted model). -/
inductive Verdict | inDom | outDom | unspecified
  deriving DecidableEq, Repr

/-- A documented domain, in the vocabulary of the docstrings.

    Readings (recorded once, used everywhere):
    * "int" is a Python/numpy integer.  Python `bool` is a subclass of `int`; the docstrings do not say whether
      `True`/`False` count as 1/0 for an "int" or "float" parameter ⇒ `unspecified`.
    * "float" is a finite real number, integers included (numeric tower; every example in the docs passes ints).
      `inf`, `-inf` and `nan` are not hyperparameter values ⇒ outside.
    * "bool" is Python `bool`; whether `numpy.bool_` counts is not stated ⇒ `unspecified`.
    * a "callable" is a function with the signature the parameter needs; an arbitrary object that merely defines
      `__call__` (e.g. a GEMINI instance passed as a kernel) ⇒ `unspecified`.
    * "int" seeds (`random_state`) are numpy seeds: 0 … 2³²−1 (docstrings silent on the range). -/
inductive Dom
  /-- "int" with the documented or obviously intended bounds -/
  | int (lo : Int) (hi : Option Int)
  /-- "float" in `(lo, hi)` / `[lo, hi)`; `strict` says whether `lo` itself is excluded; `hi` is always excluded -/
  | real (lo : Rat) (strict : Bool) (hi : Option Rat)
  /-- one of the listed strings -/
  | oneOf (opts : List String)
  | bool
  | none
  | dict
  | list
  | ndarray
  /-- "array" / "list of arrays" / "ndarray of shape …": a list, tuple or ndarray -/
  | array
  | callable
  /-- an integer seed -/
  | seed
  /-- a `RandomState` instance -/
  | randomState
  /-- a GEMINI instance -/
  | geminiInst
  /-- an instance of one of the listed estimator classes -/
  | instanceOfAny (classes : List String)
  /-- a single value about which the docstring is silent -/
  | silent (v : Value)
  deriving Repr

/-- `lo ≤ n` and `n ≤ hi` when there is an upper bound -/
def inIntRange (lo : Int) (hi : Option Int) (n : Int) : Bool :=
  decide (lo ≤ n) && (match hi with | some h => decide (n ≤ h) | Option.none => true)

/-- `lo < q` (or `lo ≤ q`) and `q < hi` when there is an upper bound -/
def inRealRange (lo : Rat) (strict : Bool) (hi : Option Rat) (q : Rat) : Bool :=
  (if strict then decide (lo < q) else decide (lo ≤ q)) && (match hi with | some h => decide (q < h) | Option.none => true)

def Dom.verdict : Dom → Value → Verdict
  | .int lo hi, .int n => if inIntRange lo hi n then .inDom else .outDom
  | .int _ _, .bool _ => .unspecified
  | .real lo strict hi, .int n => if inRealRange lo strict hi (n : Rat) then .inDom else .outDom
  | .real lo strict hi, .float q => if inRealRange lo strict hi q then .inDom else .outDom
  | .real _ _ _, .bool _ => .unspecified
  | .oneOf opts, .str s => if opts.contains s then .inDom else .outDom
  | .bool, .bool _ => .inDom
  | .bool, .npBool _ => .unspecified
  | .none, .none => .inDom
  | .dict, .dict => .inDom
  | .list, .list => .inDom
  | .ndarray, .ndarray => .inDom
  | .array, .list => .inDom
  | .array, .tuple => .inDom
  | .array, .ndarray => .inDom
  | .callable, .func => .inDom
  | .callable, .gemini _ => .unspecified
  | .seed, .int n => if inIntRange 0 (some 4294967295) n then .inDom else .outDom
  | .seed, .bool _ => .unspecified
  | .randomState, .randomState => .inDom
  | .geminiInst, .gemini _ => .inDom
  | .instanceOfAny cs, .estimator c => if cs.contains c then .inDom else .outDom
  | .silent w, v => if v = w then .unspecified else .outDom
  | _, _ => .outDom

/-- a parameter's documented domain is a union -/
def verdictOf (ds : List Dom) (v : Value) : Verdict :=
  if ds.any (fun d => d.verdict v = .inDom) then .inDom
  else if ds.any (fun d => d.verdict v = .unspecified) then .unspecified
  else .outDom

/-! #### Shared paragraphs of the docstrings -/

/-- `gemclus.gemini.AVAILABLE_GEMINI` as listed in the user guide -/
def geminiNames : List String :=
  ["mmd_ova", "mmd_ovo", "wasserstein_ova", "wasserstein_ovo", "kl_ova", "kl_ovo", "mi", "tv_ova", "tv_ovo",
   "hellinger_ova", "hellinger_ovo", "chi2_ova", "chi2_ovo"]

/-- `kernel: {'additive_chi2', 'chi2', 'cosine','linear','poly','polynomial','rbf','laplacian','sigmoid', 'precomputed'}` -/
def kernelNames : List String :=
  ["additive_chi2", "chi2", "cosine", "linear", "poly", "polynomial", "rbf", "laplacian", "sigmoid", "precomputed"]

/-- KernelRIM `base_kernel`: the same list without 'precomputed' -/
def baseKernelNames : List String :=
  ["additive_chi2", "chi2", "cosine", "linear", "poly", "polynomial", "rbf", "laplacian", "sigmoid"]

/-- `metric: {'cosine', 'euclidean', 'l2','l1','manhattan','cityblock', 'precomputed'}` -/
def metricNames : List String := ["cosine", "euclidean", "l2", "l1", "manhattan", "cityblock", "precomputed"]

/-- "MLP___, Linear___ or Categorical___ — a GemClus model that involves gemini maximisation with gradient descent" -/
def gradientModels : List String :=
  ["LinearModel", "LinearMMD", "LinearWasserstein", "RIM", "KernelRIM", "MLPModel", "MLPMMD", "MLPWasserstein",
   "SparseLinearModel", "SparseLinearMMD", "SparseLinearMI", "SparseMLPModel", "SparseMLPMMD",
   "CategoricalModel", "CategoricalMMD", "CategoricalWasserstein", "Douglas"]

-- "n_clusters : int, default=3 — the maximum number of clusters to form" (silent on the range: at least one cluster)
def dNClusters : List Dom := [.int 1 Option.none]
-- "gemini: str, GEMINI instance or None"
def dGemini : List Dom := [.oneOf geminiNames, .geminiInst, .none]
-- "max_iter: int — maximum number of epochs" (silent: at least one epoch; whether 0 epochs is allowed is not said)
def dMaxIter : List Dom := [.int 1 Option.none, .silent (.int 0)]
-- "learning_rate: float — controls the step-size" (silent: a step size is positive)
def dPositive : List Dom := [.real 0 true Option.none]
-- "solver: {'sgd','adam'}"
def dSolver : List Dom := [.oneOf ["sgd", "adam"]]
-- "batch_size: int, default=None — if set to None, the whole data will be considered" (a batch holds ≥ 1 sample)
def dBatch : List Dom := [.int 1 Option.none, .none]
-- "verbose: bool" / "ovo: bool" / "dynamic: bool"
def dBool : List Dom := [.bool]
-- "random_state: int, RandomState instance, default=None"
def dRandomState : List Dom := [.seed, .randomState, .none]
-- MMD estimators: the docstring lists the ten names only; MMDGEMINI's docstring ("ignored if the kernel is callable")
-- and every `kernel` table show that a callable X ↦ kernel matrix is the obviously intended extension.
def dKernel : List Dom := [.oneOf kernelNames, .callable]
-- "kernel_params: dict, default=None" / "metric_params: dict, default=None"
def dParams : List Dom := [.dict, .none]
-- Wasserstein estimators: the seven names; callables are not documented for the estimators
def dMetric : List Dom := [.oneOf metricNames]
-- "reg: float — regularisation hyperparameter for the ℓ2 weight penalty" (silent: a penalty weight is ≥ 0)
def dNonneg : List Dom := [.real 0 false Option.none]
-- "groups: list of arrays of various shapes, default=None" (the content of the list is `check_groups`' business)
def dGroups : List Dom := [.list, .none]
-- "n_hidden_dim: int — the number of neurons in the hidden layer" (at least one neuron)
def dHidden : List Dom := [.int 1 Option.none]
-- "M: float, default=10 — the hierarchy coefficient" (silent: positive; whether 0 is allowed is not said)
def dM : List Dom := [.real 0 true Option.none, .silent (.int 0), .silent (.float 0)]
-- "alpha: float — the weight of the group-lasso penalty" (a penalty weight is ≥ 0)
def dAlpha : List Dom := [.real 0 false Option.none]

def baseParams : List (String × List Dom) := [
  ("n_clusters", dNClusters), ("max_iter", dMaxIter), ("learning_rate", dPositive), ("solver", dSolver),
  ("batch_size", dBatch), ("verbose", dBool), ("random_state", dRandomState)]

/-- The documented domains, class by class and function by function. -/
def documented : List (String × List (String × List Dom)) := [
  -- gemclus/linear/_linear_geminis.py
  ("LinearModel", baseParams ++ [("gemini", dGemini)]),
  ("LinearMMD", baseParams ++ [("kernel", dKernel), ("ovo", dBool), ("kernel_params", dParams)]),
  ("LinearWasserstein", baseParams ++ [("metric", dMetric), ("ovo", dBool), ("metric_params", dParams)]),
  ("RIM", baseParams ++ [("reg", dNonneg)]),
  -- "base_kernel: {...nine names}, or callable"
  ("KernelRIM", baseParams ++ [("reg", dNonneg), ("base_kernel", [.oneOf baseKernelNames, .callable]),
                               ("base_kernel_params", dParams)]),
  -- gemclus/mlp/_mlp_geminis.py
  ("MLPModel", baseParams ++ [("gemini", dGemini), ("n_hidden_dim", dHidden)]),
  ("MLPMMD", baseParams ++ [("n_hidden_dim", dHidden), ("kernel", dKernel), ("ovo", dBool), ("kernel_params", dParams)]),
  ("MLPWasserstein", baseParams ++ [("n_hidden_dim", dHidden), ("metric", dMetric), ("ovo", dBool),
                                    ("metric_params", dParams)]),
  -- gemclus/sparse/_linear_sparse.py
  ("SparseLinearModel", baseParams ++ [("gemini", dGemini), ("groups", dGroups), ("alpha", dAlpha), ("dynamic", dBool)]),
  ("SparseLinearMMD", baseParams ++ [("groups", dGroups), ("kernel", dKernel), ("ovo", dBool), ("alpha", dAlpha),
                                     ("dynamic", dBool), ("kernel_params", dParams)]),
  ("SparseLinearMI", baseParams ++ [("groups", dGroups), ("alpha", dAlpha)]),
  -- gemclus/sparse/_mlp_sparse.py
  ("SparseMLPModel", baseParams ++ [("gemini", dGemini), ("groups", dGroups), ("n_hidden_dim", dHidden), ("M", dM),
                                    ("alpha", dAlpha), ("dynamic", dBool)]),
  ("SparseMLPMMD", baseParams ++ [("groups", dGroups), ("n_hidden_dim", dHidden), ("kernel", dKernel), ("M", dM),
                                  ("alpha", dAlpha), ("ovo", dBool), ("dynamic", dBool), ("kernel_params", dParams)]),
  -- gemclus/nonparametric/_categorical_models.py  (no batch_size: "does not support batching")
  ("CategoricalModel", [("n_clusters", dNClusters), ("gemini", dGemini), ("max_iter", dMaxIter),
                        ("learning_rate", dPositive), ("solver", dSolver), ("verbose", dBool),
                        ("random_state", dRandomState)]),
  ("CategoricalMMD", [("n_clusters", dNClusters), ("max_iter", dMaxIter), ("learning_rate", dPositive),
                      ("solver", dSolver), ("kernel", dKernel), ("ovo", dBool), ("verbose", dBool),
                      ("random_state", dRandomState), ("kernel_params", dParams)]),
  ("CategoricalWasserstein", [("n_clusters", dNClusters), ("max_iter", dMaxIter), ("learning_rate", dPositive),
                              ("metric", dMetric), ("ovo", dBool), ("solver", dSolver), ("verbose", dBool),
                              ("random_state", dRandomState), ("metric_params", dParams)]),
  -- gemclus/tree/douglas.py
  --   "n_cuts: int, default=1 — the number of cuts to consider per feature" (at least one cut; None is NOT documented)
  --   "feature_mask: array of boolean [shape d], default None"  (its length is the mask-length test's business)
  --   "temperature: float" (a softmax temperature is positive)
  ("Douglas", baseParams ++ [("gemini", dGemini), ("n_cuts", [.int 1 Option.none]),
                             ("feature_mask", [.ndarray, .none]), ("temperature", dPositive)]),
  -- gemclus/tree/kauri.py
  --   "max_clusters: int", "max_depth: int, default=None", "min_samples_split: int, default=2" (a split needs two
  --   samples), "min_samples_leaf: int, default=1", "max_features: int, default=None", "max_leaves: int,
  --   default=None" (silent: a clustering tree has at least two leaves; whether 1 is allowed is not said),
  --   "kernel: {ten names}" (+ callable, as for the MMD estimators), "random_state: int, RandomState instance"
  ("Kauri", [("max_clusters", [.int 1 Option.none]), ("max_depth", [.int 1 Option.none, .none]),
             ("min_samples_split", [.int 2 Option.none]), ("min_samples_leaf", [.int 1 Option.none]),
             ("max_features", [.int 1 Option.none, .none]),
             ("max_leaves", [.int 2 Option.none, .none, .silent (.int 1)]),
             ("kernel", dKernel), ("verbose", dBool), ("random_state", dRandomState)]),
  -- gemclus/gemini/_fdivergences.py: "ovo: bool", "epsilon: float — the precision for clipping the prediction
  -- values" (clipping to [ε, 1−ε] needs 0 < ε < 1; ε ≥ 1/2 would be absurd but nothing says so)
  ("KLGEMINI", [("ovo", dBool), ("epsilon", [.real 0 true (some 1)])]),
  ("MI", [("epsilon", [.real 0 true (some 1)])]),
  ("TVGEMINI", [("ovo", dBool), ("epsilon", [.real 0 true (some 1)])]),
  ("HellingerGEMINI", [("ovo", dBool), ("epsilon", [.real 0 true (some 1)])]),
  ("ChiSquareGEMINI", [("ovo", dBool), ("epsilon", [.real 0 true (some 1)])]),
  -- gemclus/gemini/_geomdistances.py
  --   MMDGEMINI "kernel: {ten names}", "kernel_params: … ignored if the kernel is callable or precomputed"
  ("MMDGEMINI", [("ovo", dBool), ("kernel", dKernel), ("kernel_params", dParams), ("epsilon", [.real 0 true (some 1)])]),
  --   WassersteinGEMINI "metric: {seven names}" (its docstring mentions callable metrics in passing, its
  --   constructor has never accepted them: the list of names is taken as the domain)
  ("WassersteinGEMINI", [("ovo", dBool), ("metric", dMetric), ("metric_params", dParams),
                         ("epsilon", [.real 0 true (some 1)])]),
  -- gemclus/mlcl.py: "gemini_model: MLP___, Linear___ or Categorical___", "must_link: ndarray of shape
  -- (n_constraints, 2) or None … described by a list of pairs", "factor: float — a weighting hyperparameter" (positive)
  ("add_mlcl_constraint", [("gemini_model", [.instanceOfAny gradientModels]), ("must_link", [.array, .none]),
                           ("cannot_link", [.array, .none]), ("factor", dPositive)]),
  -- gemclus/tree/kauri.py: "kauri_tree: Kauri — a Kauri instance that was trained",
  -- "feature_names: array of shape (n_features,) or None"
  ("print_kauri_tree", [("kauri_tree", [.instanceOfAny ["Kauri"]]), ("feature_names", [.array, .none])]),
  -- gemclus/data/synthetic_data.py
  --   draw_gmm "n: int — the number of samples", "loc: list of K ndarray", "scale: list of K ndarray",
  --   "pvals: ndarray of shape (K,)", "random_state: int, RandomState instance or None"
  ("draw_gmm", [("n", [.int 1 Option.none]), ("loc", [.array]), ("scale", [.array]), ("pvals", [.array]),
                ("random_state", dRandomState)]),
  --   multivariate_student_t "df: int, default=10 — degrees of freedom": gstm documents the same quantity as
  --   "df: float, default=1" and forwards it here, so the intended domain is a positive real (doc slip, reported)
  ("multivariate_student_t", [("n", [.int 1 Option.none]), ("loc", [.array]), ("scale", [.array]),
                              ("df", dPositive), ("random_state", dRandomState)]),
  --   gstm "n: int, default=500" (four components: at least one sample each; smaller positive n not settled),
  --   "alpha: float — how close the means are" (a positive scale), "df: float"
  ("gstm", [("n", [.int 4 Option.none, .silent (.int 1), .silent (.int 2), .silent (.int 3)]), ("alpha", dPositive),
            ("df", dPositive), ("random_state", dRandomState)]),
  --   celeux_one "n: int", "p: int — the number of excessive noisy variables" (whether p = 0 is allowed is not
  --   said), "mu: float — controls how the means are close to each other by scaling" (a positive scale)
  ("celeux_one", [("n", [.int 1 Option.none]), ("p", [.int 1 Option.none, .silent (.int 0)]), ("mu", dPositive),
                  ("random_state", dRandomState)]),
  ("celeux_two", [("n", [.int 1 Option.none]), ("random_state", dRandomState)])]

/-- verdict of the documentation on `owner(param = v)`; `none` when the parameter is not documented at all -/
def docVerdict (owner param : String) (v : Value) : Option Verdict :=
  ((documented.lookup owner).bind fun rows => rows.lookup param).map fun ds => verdictOf ds v

/-- every (owner, parameter) the documentation describes -/
def documentedKeys : List (String × String) :=
  documented.flatMap fun (o, rows) => rows.map fun (p, _) => (o, p)

/-! #### The representative values the table theorems range over -/

def tiny : Rat := 1 / 1099511627776          -- 2⁻⁴⁰ (a float)

/-- hand-written part: every type, every documented option, boundary neighbours of every documented bound -/
def baseUniverse : List Value :=
  [.int (-1), .int 0, .int 1, .int 2, .int 3, .int 4, .int 5, .int 4294967295, .int 4294967296,
   .float (-1), .float (-tiny), .float 0, .float tiny, .float (1 / 2), .float (1 - tiny), .float 1, .float (1 + tiny),
   .float (5 / 2), .float 2, .posInf, .negInf, .nan,
   .bool true, .bool false, .npBool true, .npBool false,
   .none, .func, .dict, .list, .tuple, .ndarray, .randomState,
   .gemini "MMDGEMINI", .gemini "WassersteinGEMINI", .gemini "MI",
   .estimator "LinearModel", .estimator "SparseMLPMMD", .estimator "Douglas", .estimator "Kauri", .object,
   .str "", .str "bogus", .str "ADAM", .str "Linear", .str "mmd", .str "none", .str "None"]
  ++ (geminiNames ++ kernelNames ++ metricNames ++ ["sgd", "adam"]).map Value.str

/-- boundary neighbours of a bound that occurs in an extracted interval -/
def boundValues : Bound → List Value
  | .fin q =>
    (if q.den = 1 then [Value.int (q.num - 1), .int q.num, .int (q.num + 1)] else []) ++
    [.float (q - tiny), .float q, .float (q + tiny)]
  | _ => []

/-- every interval bound that occurs in a translated table (each once) -/
def tableBounds (table : List (String × List (String × Option (List Constraint)))) : List Bound :=
  (table.flatMap fun (_, rows) => rows.flatMap fun (_, row) => (row.getD []).flatMap fun c =>
    match c with
    | .interval _ lo hi _ => [lo, hi]
    | _ => []).eraseDups

/-- every option string that occurs in a translated table (each once) -/
def tableStrings (env : Env) (table : List (String × List (String × Option (List Constraint)))) : List String :=
  (table.flatMap fun (_, rows) => rows.flatMap fun (_, row) => (row.getD []).flatMap fun c =>
    match c with
    | .strOptions sets lits => sets.flatMap env.members ++ lits
    | _ => []).eraseDups

/-- all representative values: the hand-written ones, the neighbours of every extracted bound, every extracted option -/
def repValues (env : Env) (table : List (String × List (String × Option (List Constraint)))) : List Value :=
  (baseUniverse ++ (tableBounds table).flatMap boundValues ++ (tableStrings env table).map Value.str).eraseDups

/-! #### Explicit exception lists of the table theorems (each entry is re-confirmed on the real code by every run) -/

/-- Values that pass the table although they are outside the documented domain, and are rejected later inside
    `fit` / the call by a ValueError/TypeError-family error.
    (Until /repo commits a3b5130, 42cc36b and 121f1b6 the list also held `Douglas(n_cuts=None)`, the seeds ≥ 2³² of the
    DiscriminativeModel subclasses and the extra metric names / callables of the three *Wasserstein estimators.) -/
def lateRejected : List (String × String × Value) :=
  -- scikit-learn's "array-like" test (`_is_arraylike_not_scalar`) lets a dict through (it has `__len__`);
  -- `check_array` / the body then rejects it
  [("draw_gmm", "loc", Value.dict), ("draw_gmm", "scale", .dict), ("draw_gmm", "pvals", .dict),
   ("multivariate_student_t", "loc", .dict), ("multivariate_student_t", "scale", .dict),
   ("add_mlcl_constraint", "must_link", .dict), ("add_mlcl_constraint", "cannot_link", .dict),
   ("print_kauri_tree", "feature_names", .dict)]

/-- Documented values that the extracted table rejects.  Empty since /repo commit 42cc36b
    (`"random_state": ["random_state"]` on DiscriminativeModel; before it, `random_state=RandomState(…)` — documented
    "int, RandomState instance" — was rejected by every DiscriminativeModel subclass, DESIGN §8 row 12). -/
def knownDeviations : List (String × String × Value) := []

/-- Parameters the tables do not validate at all (no entry, or an entry under a key that names no parameter): every
    out-of-domain value would reach the body of `fit` / the function.  Empty since /repo commits 12ea5d8
    (`"groups": [list, None]` added to SparseMLPModel) and 37cb7b8 (`must-link`/`cannot-link` keys of
    add_mlcl_constraint renamed to the parameter names). -/
def unvalidated : List (String × String) := []

end GemVerif.Spec.Constraints

namespace GemVerif.Lemmas.Constraints
open GemVerif.Model.Constraints

/-! ### lists -/

theorem foldl_append_flatten (gs : List (List Int)) (acc : List Int) :
    gs.foldl (fun acc g => acc ++ g) acc = acc ++ gs.flatten := by
  induction gs generalizing acc with
  | nil => simp
  | cons g gs ih => simp [List.foldl_cons, ih, List.append_assoc]

/-- pigeonhole, first half: a duplicate-free list inside `m` is not longer than `m` -/
theorem length_le_of_nodup_subset : ∀ (l m : List Int), l.Nodup → (∀ x ∈ l, x ∈ m) → l.length ≤ m.length := by
  intro l
  induction l with
  | nil => intro m _ _; simp
  | cons a l ih =>
    intro m hn hs
    have ⟨hal, hl⟩ := List.nodup_cons.mp hn
    have ham : a ∈ m := hs a (List.mem_cons_self)
    have h1 : ∀ x ∈ l, x ∈ m.erase a := by
      intro x hx
      have hxa : x ≠ a := fun h => hal (h ▸ hx)
      exact (List.mem_erase_of_ne hxa).mpr (hs x (List.mem_cons_of_mem _ hx))
    have h2 := ih (m.erase a) hl h1
    have h3 := List.length_erase_of_mem ham
    have h4 : 0 < m.length := List.length_pos_of_mem ham
    simp only [List.length_cons]
    omega

/-- pigeonhole, second half: if moreover `m` is not longer than `l`, every element of `m` occurs in `l` -/
theorem subset_of_nodup_subset_length : ∀ (l m : List Int), l.Nodup → (∀ x ∈ l, x ∈ m) → m.length ≤ l.length →
    ∀ y ∈ m, y ∈ l := by
  intro l
  induction l with
  | nil =>
    intro m _ _ hlen y hy
    have : 0 < m.length := List.length_pos_of_mem hy
    simp only [List.length_nil] at hlen; omega
  | cons a l ih =>
    intro m hn hs hlen y hy
    have ⟨hal, hl⟩ := List.nodup_cons.mp hn
    have ham : a ∈ m := hs a (List.mem_cons_self)
    have h1 : ∀ x ∈ l, x ∈ m.erase a := by
      intro x hx
      have hxa : x ≠ a := fun h => hal (h ▸ hx)
      exact (List.mem_erase_of_ne hxa).mpr (hs x (List.mem_cons_of_mem _ hx))
    have h3 := List.length_erase_of_mem ham
    have h4 : 0 < m.length := List.length_pos_of_mem ham
    have h5 : (m.erase a).length ≤ l.length := by simp only [List.length_cons] at hlen; omega
    by_cases hya : y = a
    · exact hya ▸ List.mem_cons_self
    · exact List.mem_cons_of_mem _ (ih (m.erase a) hl h1 h5 y ((List.mem_erase_of_ne hya).mpr hy))

/-! ### `pyDistinct` -/

theorem mem_pyDistinct (xs : List Int) (x : Int) : x ∈ pyDistinct xs ↔ x ∈ xs := by
  induction xs with
  | nil => simp [pyDistinct]
  | cons a xs ih =>
    unfold pyDistinct
    by_cases h : xs.contains a = true
    · simp only [h, if_true, ih, List.mem_cons]
      constructor
      · exact Or.inr
      · rintro (rfl | h')
        · exact List.contains_iff_mem.mp h
        · exact h'
    · have h' : xs.contains a = false := by simpa using h
      simp only [h', List.mem_cons]; simp [ih]

theorem nodup_pyDistinct (xs : List Int) : (pyDistinct xs).Nodup := by
  induction xs with
  | nil => simp [pyDistinct]
  | cons a xs ih =>
    unfold pyDistinct
    by_cases h : xs.contains a = true
    · simp only [h, if_true]; exact ih
    · simp only [h]
      refine List.nodup_cons.mpr ⟨?_, ih⟩
      rw [mem_pyDistinct]
      intro hm; exact h (List.contains_iff_mem.mpr hm)

theorem length_pyDistinct_le (xs : List Int) : (pyDistinct xs).length ≤ xs.length := by
  induction xs with
  | nil => simp [pyDistinct]
  | cons a xs ih =>
    unfold pyDistinct
    by_cases h : xs.contains a = true
    · simp only [h, if_true, List.length_cons]; omega
    · simp only [h, List.length_cons]; simp; omega

theorem length_pyDistinct_eq_iff (xs : List Int) : (pyDistinct xs).length = xs.length ↔ xs.Nodup := by
  induction xs with
  | nil => simp [pyDistinct]
  | cons a xs ih =>
    unfold pyDistinct
    have hle := length_pyDistinct_le xs
    by_cases h : xs.contains a = true
    · simp only [h, if_true, List.length_cons]
      have hm : a ∈ xs := List.contains_iff_mem.mp h
      constructor
      · intro he; omega
      · intro hn; exact absurd hm (List.nodup_cons.mp hn).1
    · have hm : ¬ a ∈ xs := fun hm => h (List.contains_iff_mem.mpr hm)
      simp only [h, List.length_cons, List.nodup_cons]
      constructor
      · intro he; exact ⟨hm, ih.mp (by simpa using he)⟩
      · intro hn; simp [ih.mpr hn.2]

/-! ### python primitives -/

theorem mem_pyRange (d : Nat) (i : Int) : i ∈ pyRange d ↔ 0 ≤ i ∧ i < d := by
  unfold pyRange
  simp only [List.mem_map, List.mem_range]
  constructor
  · rintro ⟨n, hn, rfl⟩
    exact ⟨Int.natCast_nonneg n, by show (n : Int) < d; omega⟩
  · rintro ⟨h0, h1⟩
    refine ⟨i.toNat, ?_, ?_⟩
    · omega
    · simp [Int.toNat_of_nonneg h0]

theorem nodup_pyRange (d : Nat) : (pyRange d).Nodup := by
  unfold pyRange
  exact List.Pairwise.map _ (fun a b h => by intro h'; exact h (Int.ofNat.inj h')) List.nodup_range

theorem length_pyRange (d : Nat) : (pyRange d).length = d := by simp [pyRange]

theorem foldl_min_lt (t : List Int) (x : Int) : t.foldl min x < 0 ↔ x < 0 ∨ ∃ y ∈ t, y < 0 := by
  induction t generalizing x with
  | nil => simp
  | cons a t ih =>
    simp only [List.foldl_cons, ih, List.mem_cons]
    constructor
    · rintro (h | ⟨y, hy, h⟩)
      · rcases (show x < 0 ∨ a < 0 by omega) with h | h
        · exact Or.inl h
        · exact Or.inr ⟨a, Or.inl rfl, h⟩
      · exact Or.inr ⟨y, Or.inr hy, h⟩
    · rintro (h | ⟨y, rfl | hy, h⟩)
      · exact Or.inl (by omega)
      · exact Or.inl (by omega)
      · exact Or.inr ⟨y, hy, h⟩

theorem foldl_max_ge (t : List Int) (x d : Int) : t.foldl max x ≥ d ↔ x ≥ d ∨ ∃ y ∈ t, y ≥ d := by
  induction t generalizing x with
  | nil => simp
  | cons a t ih =>
    simp only [List.foldl_cons, ih, List.mem_cons]
    constructor
    · rintro (h | ⟨y, hy, h⟩)
      · rcases (show x ≥ d ∨ a ≥ d by omega) with h | h
        · exact Or.inl h
        · exact Or.inr ⟨a, Or.inl rfl, h⟩
      · exact Or.inr ⟨y, Or.inr hy, h⟩
    · rintro (h | ⟨y, rfl | hy, h⟩)
      · exact Or.inl (by omega)
      · exact Or.inl (by omega)
      · exact Or.inr ⟨y, hy, h⟩

/-- every index lies in `0 … d-1` -/
def InRange (d : Nat) (xs : List Int) : Prop := ∀ i ∈ xs, 0 ≤ i ∧ i < d

instance (d : Nat) (xs : List Int) : Decidable (InRange d xs) := by unfold InRange; infer_instance

/-- the first guard of `check_groups`: `len(all) > 0 and (min(all) < 0 or max(all) >= d)` never raises and is true
    exactly when some index is out of range -/
theorem rangeGuard_eq (d : Nat) (xs : List Int) :
    (pyAnd (pyCmp .gt (pure (pyLen xs)) (pure (0 : Int))) fun _ =>
      (pyOr (pyCmp .lt (pyMin xs) (pure (0 : Int))) fun _ => (pyCmp .ge (pyMax xs) (pure (d : Int)))))
      = .ok (decide (¬ InRange d xs)) := by
  cases xs with
  | nil => simp [pyAnd, pyCmp, pyLen, Cmp.eval, InRange, bind, Except.bind, pure, Except.pure]
  | cons x t =>
    have hlen : decide ((pyLen (x :: t)) > 0) = true := by simp [pyLen]
    simp only [pyAnd, pyOr, pyCmp, pyMin, pyMax, Cmp.eval, bind, Except.bind, pure, Except.pure, hlen, if_true]
    by_cases hmin : t.foldl min x < 0
    · have : ¬ InRange d (x :: t) := by
        intro hr
        rcases (foldl_min_lt t x).mp hmin with h | ⟨y, hy, h⟩
        · have := (hr x List.mem_cons_self).1; omega
        · have := (hr y (List.mem_cons_of_mem _ hy)).1; omega
      simp [hmin, this]
    · by_cases hmax : t.foldl max x ≥ (d : Int)
      · have : ¬ InRange d (x :: t) := by
          intro hr
          rcases (foldl_max_ge t x d).mp hmax with h | ⟨y, hy, h⟩
          · have := (hr x List.mem_cons_self).2; omega
          · have := (hr y (List.mem_cons_of_mem _ hy)).2; omega
        simp [hmin, hmax, this]
      · have : InRange d (x :: t) := by
          intro i hi
          have h1 : ¬ (x < 0 ∨ ∃ y ∈ t, y < 0) := fun h => hmin ((foldl_min_lt t x).mpr h)
          have h2 : ¬ (x ≥ (d : Int) ∨ ∃ y ∈ t, y ≥ (d : Int)) := fun h => hmax ((foldl_max_ge t x d).mpr h)
          rcases List.mem_cons.mp hi with rfl | hi
          · constructor
            · have : ¬ i < 0 := fun h => h1 (Or.inl h)
              omega
            · have : ¬ i ≥ (d : Int) := fun h => h2 (Or.inl h)
              omega
          · constructor
            · have : ¬ i < 0 := fun h => h1 (Or.inr ⟨i, hi, h⟩)
              omega
            · have : ¬ i ≥ (d : Int) := fun h => h2 (Or.inr ⟨i, hi, h⟩)
              omega
        have hmax' : ¬ (d : Int) ≤ t.foldl max x := hmax
        simp [hmin, hmax', this]

/-! ### `check_groups` -/

/-- `all_indices`: the concatenation of the user's groups -/
def flat (groups : Groups) : List Int := groups.foldl (fun acc g => acc ++ g) []

theorem flat_eq_flatten (groups : Groups) : flat groups = groups.flatten := by
  simp [flat, foldl_append_flatten]

/-- the user's groups followed by one singleton per feature they do not mention, in increasing order -/
def completion (groups : Groups) (d : Nat) : Groups :=
  groups ++ (((pyRange d).filter fun i => !(pyIn i (flat groups))).map fun i => [i])

/-- the documented precondition: every index is a feature index and no index occurs twice -/
def Legal (groups : Groups) (d : Nat) : Prop := InRange d (flat groups) ∧ (flat groups).Nodup

instance (groups : Groups) (d : Nat) : Decidable (Legal groups d) := by unfold Legal; infer_instance

theorem pySetEq_range_iff (xs : List Int) (d : Nat) :
    pySetEq xs (pyRange d) = true ↔ InRange d xs ∧ ∀ y ∈ pyRange d, y ∈ xs := by
  simp only [pySetEq, Bool.and_eq_true, List.all_eq_true, List.contains_iff_mem, InRange, mem_pyRange]

theorem pyIf_ok {α : Type} (b : Bool) (t e : Unit → Except String α) :
    pyIf (.ok b) t e = if b then t () else e () := by
  simp [pyIf, bind, Except.bind]

theorem pyIf_pure {α : Type} (b : Bool) (t e : Unit → Except String α) :
    pyIf (pure b) t e = if b then t () else e () := pyIf_ok b t e

theorem pyCmp_pure (op : Cmp) (a b : Int) : pyCmp op (pure a) (pure b) = .ok (op.eval a b) := by
  simp [pyCmp, bind, Except.bind, pure, Except.pure]

/-- full cover: a duplicate-free list of `d` feature indices mentions every feature -/
theorem covers_of_legal_length (xs : List Int) (d : Nat) (hr : InRange d xs) (hn : xs.Nodup) (hl : xs.length = d) :
    ∀ y ∈ pyRange d, y ∈ xs :=
  subset_of_nodup_subset_length xs (pyRange d) hn (fun x hx => (mem_pyRange d x).mpr (hr x hx))
    (by rw [length_pyRange]; omega)

/-- conversely `d` indices that mention every feature are duplicate-free -/
theorem nodup_of_covers_length (xs : List Int) (d : Nat) (hc : ∀ y ∈ pyRange d, y ∈ xs) (hl : xs.length = d) :
    xs.Nodup := by
  have h1 : (pyRange d).length ≤ (pyDistinct xs).length :=
    length_le_of_nodup_subset _ _ (nodup_pyRange d) (fun y hy => (mem_pyDistinct xs y).mpr (hc y hy))
  have h2 := length_pyDistinct_le xs
  rw [length_pyRange] at h1
  exact (length_pyDistinct_eq_iff xs).mp (by omega)

theorem checkGroups_unfold (groups : Groups) (d : Nat) :
    checkGroups (some groups) d =
      if decide (¬ InRange d (flat groups)) then .error "ValueError:Indices passed to"
      else if decide (pyLen (flat groups) = (d : Int)) then
        (if !(pySetEq (flat groups) (pyRange d)) then .error "ValueError:Groups must form" else .ok (some groups))
      else if decide (pySetLen (flat groups) ≠ pyLen (flat groups)) then .error "ValueError:There cannot be"
      else .ok (some (completion groups d)) := by
  simp only [checkGroups]
  rw [rangeGuard_eq]
  simp only [pyIf_ok, pyIf_pure, pyCmp_pure, Cmp.eval, flat, completion]
  rfl

/-- legal groups are accepted and completed by singletons -/
theorem checkGroups_legal (groups : Groups) (d : Nat) (h : Legal groups d) :
    checkGroups (some groups) d = .ok (some (completion groups d)) := by
  obtain ⟨hr, hn⟩ := h
  rw [checkGroups_unfold]
  have h1 : decide (¬ InRange d (flat groups)) = false := by simp [hr]
  simp only [h1, Bool.false_eq_true, if_false]
  by_cases hl : pyLen (flat groups) = (d : Int)
  · have hl' : (flat groups).length = d := by simp [pyLen] at hl; omega
    have hc := covers_of_legal_length _ d hr hn hl'
    have hs : pySetEq (flat groups) (pyRange d) = true := (pySetEq_range_iff _ d).mpr ⟨hr, hc⟩
    have hf : ((pyRange d).filter fun i => !(pyIn i (flat groups))) = [] := by
      rw [List.filter_eq_nil_iff]
      intro a ha
      simp [pyIn, hc a ha]
    simp [hl, hs, completion, hf]
  · have hd : pySetLen (flat groups) = pyLen (flat groups) := by
      simp only [pySetLen, pyLen]
      exact_mod_cast (length_pyDistinct_eq_iff _).mpr hn
    simp [hl, hd]

/-- anything else is rejected -/
theorem checkGroups_illegal (groups : Groups) (d : Nat) (h : ¬ Legal groups d) :
    ∃ e, checkGroups (some groups) d = .error e := by
  rw [checkGroups_unfold]
  by_cases hr : InRange d (flat groups)
  · have hn : ¬ (flat groups).Nodup := fun hn => h ⟨hr, hn⟩
    have h1 : decide (¬ InRange d (flat groups)) = false := by simp [hr]
    simp only [h1, Bool.false_eq_true, if_false]
    by_cases hl : pyLen (flat groups) = (d : Int)
    · have hl' : (flat groups).length = d := by simp [pyLen] at hl; omega
      have hs : pySetEq (flat groups) (pyRange d) = false := by
        cases hq : pySetEq (flat groups) (pyRange d) with
        | false => rfl
        | true => exact absurd (nodup_of_covers_length _ d ((pySetEq_range_iff _ d).mp hq).2 hl') hn
      exact ⟨"ValueError:Groups must form", by simp [hl, hs]⟩
    · have hd : pySetLen (flat groups) ≠ pyLen (flat groups) := by
        intro he
        simp only [pySetLen, pyLen] at he
        exact hn ((length_pyDistinct_eq_iff _).mp (by exact_mod_cast he))
      exact ⟨"ValueError:There cannot be", by simp [hl, hd]⟩
  · exact ⟨"ValueError:Indices passed to", by simp [hr]⟩

theorem flatten_map_singleton (xs : List Int) : (xs.map fun i => [i]).flatten = xs := by
  induction xs with
  | nil => rfl
  | cons a xs ih => simp [ih]

/-- the completed list is a partition of the features: every feature index occurs exactly once -/
theorem completion_partition (groups : Groups) (d : Nat) (h : Legal groups d) :
    (completion groups d).flatten.Perm (pyRange d) := by
  obtain ⟨hr, hn⟩ := h
  rw [completion, List.flatten_append, flatten_map_singleton, ← flat_eq_flatten]
  have hperm := List.filter_append_perm (fun i => pyIn i (flat groups)) (pyRange d)
  refine List.Perm.trans (List.Perm.append_right _ ?_) hperm
  -- the mentioned indices, in the user's order, are a permutation of the mentioned features in increasing order
  rw [List.perm_iff_count]
  intro a
  have hn2 : ((pyRange d).filter fun i => pyIn i (flat groups)).Nodup :=
    List.Nodup.sublist List.filter_sublist (nodup_pyRange d)
  rw [hn.count, hn2.count]
  have : a ∈ (pyRange d).filter (fun i => pyIn i (flat groups)) ↔ a ∈ flat groups := by
    simp only [List.mem_filter, pyIn, List.contains_iff_mem, mem_pyRange]
    exact ⟨fun h => h.2, fun h => ⟨hr a h, h⟩⟩
  simp [this]

end GemVerif.Lemmas.Constraints
