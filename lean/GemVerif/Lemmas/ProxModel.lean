/-
  C05 — the model of `_prox_grad.py` instantiated at ℝ: norms, the group-lasso row formula,
  flattening of groups, the scatter of group results.
-/
import GemVerif.NumReal
import GemVerif.Model.Prox
import GemVerif.Lemmas.ProxSpec
import Mathlib.Analysis.InnerProductSpace.PiL2
import Mathlib.Logic.Equiv.Fin.Basic

namespace GemVerif
open scoped BigOperators
open Model.Prox Spec.Prox

/-- a row of weights as a point of Euclidean space (norm = the 2-norm) -/
noncomputable abbrev toE {n : ℕ} (v : Fin n → ℝ) : EuclideanSpace ℝ (Fin n) := WithLp.toLp 2 v

theorem toE_norm {n : ℕ} (v : Fin n → ℝ) : ‖toE v‖ = Real.sqrt (∑ k, v k ^ 2) := by
  rw [EuclideanSpace.norm_eq]
  simp

theorem sumL_eq (l : List ℝ) : sumL l = l.sum := by
  unfold sumL
  rw [List.sum_eq_foldl]

theorem norm2_eq_sqrt {n : ℕ} (v : Fin n → ℝ) : norm2 v = Real.sqrt (∑ k, v k ^ 2) := by
  unfold norm2
  rw [sumL_eq, List.sum_ofFn]
  simp [pow_two]

theorem norm2_eq {n : ℕ} (v : Fin n → ℝ) : norm2 v = ‖toE v‖ := by
  rw [norm2_eq_sqrt, toE_norm]

theorem norm2_nonneg {n : ℕ} (v : Fin n → ℝ) : 0 ≤ norm2 v := by
  rw [norm2_eq]; exact norm_nonneg _

theorem norm2_eq_zero {n : ℕ} {v : Fin n → ℝ} : norm2 v = 0 ↔ v = 0 := by
  rw [norm2_eq, norm_eq_zero]
  constructor
  · intro h; funext k; simpa using congrFun (congrArg WithLp.ofLp h) k
  · intro h; rw [h]; rfl

/-- `soft_threshold(0, ·)` is the identity on non-negative numbers -/
theorem softThreshold_zero_of_nonneg {x : ℝ} (hx : 0 ≤ x) : softThreshold (0 : ℝ) x = x := by
  unfold softThreshold RealLike.sign
  rcases hx.lt_or_eq with h | h
  · simp [h, abs_of_pos h, h.le]
  · subst h; simp

theorem signPM_real (x : ℝ) : signPM x = if 0 ≤ x then 1 else -1 := by
  unfold signPM; simp

/-! ### group lasso -/

/-- The row formula of `linear_prox_grad`, with its `W_norms == 0 ↦ 1` guard, is the group
    soft-threshold `glProx` of the row (for every `α`, every row, zero rows included). -/
theorem linearProxRow_eq {h : ℕ} (w : Fin h → ℝ) (α : ℝ) :
    toE (linearProxRow w α) = glProx (toE w) α := by
  have hn := norm2_eq w
  ext j
  have hL : linearProxRow w α j
      = max (‖toE w‖ - α) 0 * w j / (if ‖toE w‖ = 0 then 1 else ‖toE w‖) := by
    unfold linearProxRow
    simp only [RealLike.max_real, RealLike.beq_real, decide_eq_true_eq, hn]
  show linearProxRow w α j = (glProx (toE w) α) j
  rw [hL]
  unfold glProx
  by_cases h1 : ‖toE w‖ = 0
  · have hw : w = 0 := norm2_eq_zero.mp (hn.trans h1)
    have hwj : w j = 0 := by rw [hw]; rfl
    rw [hwj]
    split_ifs <;> simp [hw]
  · have hpos : 0 < ‖toE w‖ := lt_of_le_of_ne (norm_nonneg _) (Ne.symm h1)
    rw [if_neg h1]
    by_cases h2 : ‖toE w‖ ≤ α
    · rw [if_pos h2, max_eq_right (by linarith)]; simp
    · rw [if_neg h2, max_eq_left (by linarith [not_le.mp h2])]
      simp only [PiLp.smul_apply, smul_eq_mul]
      show _ = (1 - α / ‖toE w‖) * w j
      field_simp

/-! ### flattening a group of rows -/

theorem unflat_eq {m h : ℕ} (p : Fin (m * h)) : unflat p = finProdFinEquiv.symm p :=
  Prod.ext (Fin.ext rfl) (Fin.ext rfl)

theorem flatIdx_eq {m h : ℕ} (q : Fin m) (j : Fin h) : flatIdx q j = finProdFinEquiv (q, j) := by
  apply Fin.ext
  simp [flatIdx, finProdFinEquiv, Nat.mul_comm, Nat.add_comm]

theorem unflat_flatIdx {m h : ℕ} (q : Fin m) (j : Fin h) : unflat (flatIdx q j) = (q, j) := by
  rw [unflat_eq, flatIdx_eq, Equiv.symm_apply_apply]

theorem flatIdx_unflat {m h : ℕ} (p : Fin (m * h)) : flatIdx (unflat p).1 (unflat p).2 = p := by
  rw [flatIdx_eq, unflat_eq]; exact Equiv.apply_symm_apply _ _

/-- sums over a flattened `m × h` block are double sums over (row of the group, column) -/
theorem sum_flat {m h : ℕ} (F : Fin m → Fin h → ℝ) :
    ∑ p : Fin (m * h), F (unflat p).1 (unflat p).2 = ∑ q, ∑ j, F q j := by
  rw [← Fintype.sum_prod_type']
  refine Fintype.sum_equiv finProdFinEquiv.symm _ _ fun p => ?_
  rw [unflat_eq]

theorem flatGroup_flatIdx {d h : ℕ} (W : Fin d → Fin h → ℝ) (g : List (Fin d)) (q : Fin g.length)
    (j : Fin h) : flatGroup W g (flatIdx q j) = W (g.get q) j := by
  unfold flatGroup; rw [unflat_flatIdx]

/-! ### scatter of group results -/

/-- one step of the sequential `for g in groups:` loop, as seen from row `i` -/
def locStep {d : ℕ} (i : Fin d) (acc : Option ((g : List (Fin d)) × Fin g.length)) (g : List (Fin d)) :
    Option ((g : List (Fin d)) × Fin g.length) :=
  match g.finIdxOf? i with
  | some q => some ⟨g, q⟩
  | none => acc

theorem locate_eq_foldl {d : ℕ} (groups : List (List (Fin d))) (i : Fin d) :
    locate groups i = groups.foldl (locStep i) none := rfl

theorem locStep_none {d : ℕ} {i : Fin d} {acc} {g : List (Fin d)} (h : locStep i acc g = none) :
    acc = none ∧ i ∉ g := by
  unfold locStep at h
  split at h
  · exact absurd h (by simp)
  · rename_i hn
    exact ⟨h, List.finIdxOf?_eq_none_iff.mp hn⟩

theorem locStep_some {d : ℕ} {i : Fin d} {acc} {g : List (Fin d)} {r}
    (h : locStep i acc g = some r) : (r.1 = g ∧ r.1.get r.2 = i) ∨ acc = some r := by
  unfold locStep at h
  split at h
  · rename_i q hq
    left
    have hr : r = ⟨g, q⟩ := (Option.some.inj h).symm
    subst hr
    exact ⟨rfl, (List.finIdxOf?_eq_some_iff.mp hq).1⟩
  · right; exact h

theorem locate_aux {d : ℕ} (i : Fin d) (groups : List (List (Fin d))) :
    ∀ acc, (groups.foldl (locStep i) acc = none → acc = none ∧ ∀ g ∈ groups, i ∉ g) ∧
      (∀ r, groups.foldl (locStep i) acc = some r → (r.1 ∈ groups ∧ r.1.get r.2 = i) ∨ acc = some r) := by
  induction groups with
  | nil => intro acc; simp
  | cons g0 rest ih =>
    intro acc
    rw [List.foldl_cons]
    obtain ⟨ih1, ih2⟩ := ih (locStep i acc g0)
    refine ⟨fun hn => ?_, fun r hr => ?_⟩
    · obtain ⟨ha, hrest⟩ := ih1 hn
      obtain ⟨hacc, hg0⟩ := locStep_none ha
      refine ⟨hacc, fun g hg => ?_⟩
      rcases List.mem_cons.mp hg with rfl | hg
      · exact hg0
      · exact hrest g hg
    · rcases ih2 r hr with ⟨hm, hget⟩ | hstep
      · exact Or.inl ⟨List.mem_cons_of_mem _ hm, hget⟩
      · rcases locStep_some hstep with ⟨h1, h2⟩ | h
        · exact Or.inl ⟨by rw [h1]; exact List.mem_cons_self, h2⟩
        · exact Or.inr h

/-- what `locate` returns: a group of the list containing `i` at the returned position, or
    `none` exactly when no group contains `i` -/
theorem locate_none {d : ℕ} {groups : List (List (Fin d))} {i : Fin d} (h : locate groups i = none) :
    ∀ g ∈ groups, i ∉ g := ((locate_aux i groups none).1 h).2

theorem locate_some {d : ℕ} {groups : List (List (Fin d))} {i : Fin d} {r}
    (h : locate groups i = some r) : r.1 ∈ groups ∧ r.1.get r.2 = i := by
  rcases (locate_aux i groups none).2 r h with h | h
  · exact h
  · exact absurd h (by simp)

/-- a partition of (part of) the features into groups, as produced by `check_groups`:
    no feature twice in a group, no feature in two groups -/
structure IsPartition {d : ℕ} (groups : List (List (Fin d))) : Prop where
  nodup : ∀ g ∈ groups, g.Nodup
  disjoint : groups.Pairwise List.Disjoint

theorem IsPartition.eq_of_mem {d : ℕ} {groups : List (List (Fin d))} (hp : IsPartition groups)
    {g g' : List (Fin d)} (hg : g ∈ groups) (hg' : g' ∈ groups) {i : Fin d} (hi : i ∈ g) (hi' : i ∈ g') :
    g = g' := by
  obtain ⟨a, ha, rfl⟩ := List.getElem_of_mem hg
  obtain ⟨b, hb, rfl⟩ := List.getElem_of_mem hg'
  have hpw := List.pairwise_iff_getElem.mp hp.disjoint
  rcases lt_trichotomy a b with hab | hab | hab
  · exact absurd hi' (fun h' => hpw a b ha hb hab hi h')
  · subst hab; rfl
  · exact absurd hi (fun h' => hpw b a hb ha hab hi' h')

/-- For a partition, `locate` finds for the `q`-th member of group `g` exactly `(g, q)`. -/
theorem locate_partition {d : ℕ} {groups : List (List (Fin d))} (hp : IsPartition groups)
    {g : List (Fin d)} (hg : g ∈ groups) (q : Fin g.length) :
    locate groups (g.get q) = some ⟨g, q⟩ := by
  cases hloc : locate groups (g.get q) with
  | none => exact absurd (List.get_mem g q) (locate_none hloc g hg)
  | some r =>
    obtain ⟨g', q'⟩ := r
    obtain ⟨hm, hget⟩ := locate_some hloc
    simp only at hm hget
    have hgg : g' = g := hp.eq_of_mem hm hg (by rw [← hget]; exact List.get_mem _ _) (List.get_mem g q)
    subst hgg
    have : q' = q := (hp.nodup g' hg).get_inj_iff.mp hget
    rw [this]

theorem scatter_partition {d h : ℕ} {groups : List (List (Fin d))} (hp : IsPartition groups)
    (res : (g : List (Fin d)) → Fin (g.length * h) → ℝ) {g : List (Fin d)} (hg : g ∈ groups)
    (q : Fin g.length) : scatter groups res (g.get q) = some fun j => res g (flatIdx q j) := by
  unfold scatter
  rw [locate_partition hp hg q]

theorem scatter_isSome {d h : ℕ} {groups : List (List (Fin d))}
    (res : (g : List (Fin d)) → Fin (g.length * h) → ℝ) {i : Fin d} (hc : ∃ g ∈ groups, i ∈ g) :
    ∃ z, scatter groups res i = some z := by
  unfold scatter
  cases hloc : locate groups i with
  | none => obtain ⟨g, hg, hi⟩ := hc; exact absurd hi (locate_none hloc g hg)
  | some r => exact ⟨_, rfl⟩

/-! ### objectives in coordinates -/

theorem toE_sub_sq {n : ℕ} (a b : Fin n → ℝ) : ‖toE a - toE b‖ ^ 2 = ∑ j, (a j - b j) ^ 2 := by
  rw [EuclideanSpace.real_norm_sq_eq]
  rfl

theorem toE_norm_rowNorm {n : ℕ} (z : Fin n → ℝ) : ‖toE z‖ = rowNorm z := toE_norm z

theorem glObj_toE {n : ℕ} (w z : Fin n → ℝ) (α : ℝ) :
    glObj (toE w) α (toE z) = 1 / 2 * ∑ j, (z j - w j) ^ 2 + α * rowNorm z := by
  unfold glObj; rw [toE_sub_sq, toE_norm_rowNorm]

theorem hObj_toE {n m : ℕ} (v β : Fin n → ℝ) (u θ : Fin m → ℝ) (α : ℝ) :
    hObj (toE v) u α (toE β) θ
      = 1 / 2 * ∑ c, (β c - v c) ^ 2 + 1 / 2 * ∑ j, (θ j - u j) ^ 2 + α * rowNorm β := by
  unfold hObj; rw [toE_sub_sq, toE_norm_rowNorm]

/-- **Flattening preserves the norm**: the 2-norm of the flattened group is the norm of the
    stacked rows. -/
theorem rowNorm_flatGroup {d h : ℕ} (Z : Fin d → Fin h → ℝ) (g : List (Fin d)) :
    rowNorm (flatGroup Z g) = blockNorm Z g := by
  unfold rowNorm blockNorm flatGroup
  rw [sum_flat (fun q j => Z (g.get q) j ^ 2)]

theorem dist_flatGroup {d h : ℕ} (Z W : Fin d → Fin h → ℝ) (g : List (Fin d)) :
    ∑ p, (flatGroup Z g p - flatGroup W g p) ^ 2 = blockDist Z W g := by
  unfold blockDist flatGroup
  rw [sum_flat (fun q j => (Z (g.get q) j - W (g.get q) j) ^ 2)]

theorem glGroupObj_eq {d h : ℕ} (W Z : Fin d → Fin h → ℝ) (α : ℝ) (g : List (Fin d)) :
    glGroupObj W α Z g = glObj (toE (flatGroup W g)) α (toE (flatGroup Z g)) := by
  rw [glObj_toE, dist_flatGroup, rowNorm_flatGroup]; rfl

theorem hGroupObj_eq {d k h : ℕ} (Ws B : Fin d → Fin k → ℝ) (W1 T : Fin d → Fin h → ℝ) (α : ℝ)
    (g : List (Fin d)) :
    hGroupObj Ws W1 α B T g
      = hObj (toE (flatGroup Ws g)) (flatGroup W1 g) α (toE (flatGroup B g)) (flatGroup T g) := by
  rw [hObj_toE, dist_flatGroup, dist_flatGroup, rowNorm_flatGroup]; rfl

theorem groupFeasible_iff {d k h : ℕ} (M : ℝ) (B : Fin d → Fin k → ℝ) (T : Fin d → Fin h → ℝ)
    (g : List (Fin d)) :
    GroupFeasible M B T g ↔ Feasible M (toE (flatGroup B g)) (flatGroup T g) := by
  unfold GroupFeasible Feasible
  rw [toE_norm_rowNorm, rowNorm_flatGroup]
  constructor
  · intro hf p; exact hf (unflat p).1 (unflat p).2
  · intro hf q j
    have := hf (flatIdx q j)
    rwa [flatGroup_flatIdx] at this

end GemVerif
