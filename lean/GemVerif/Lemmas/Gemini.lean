/- Helper lemmas for the GEMINI theorems (C01, C02, C13). -/
import GemVerif.Model.Gemini
import GemVerif.Spec.Gemini

namespace GemVerif
open scoped BigOperators
open Model Spec

variable {n K : ℕ}

theorem clipP_of_interior {ε : ℝ} {P : Fin n → Fin K → ℝ} (h : Interior ε P) :
    clipP ε P = P := by
  funext i k
  exact RealLike.clip_of_mem (h i k).1.le (h i k).2.le

theorem clipMask_of_interior {ε : ℝ} {P : Fin n → Fin K → ℝ} (h : Interior ε P) (i : Fin n) (k : Fin K) :
    clipMask ε P i k = 1 := by
  simp [clipMask, RealLike.ofBool, (h i k).1, (h i k).2]

theorem mean0_eq_pi (P : Fin n → Fin K → ℝ) : mean0 P = Spec.pi P := by
  funext k; simp [mean0, Spec.pi]

theorem meanV_eq (v : Fin n → ℝ) : meanV v = (∑ i, v i) / n := by simp [meanV]

theorem P_pos {ε : ℝ} (hε : 0 < ε) {P : Fin n → Fin K → ℝ} (h : Interior ε P) (i : Fin n) (k : Fin K) :
    0 < P i k := lt_trans hε (h i k).1

theorem pi_pos {ε : ℝ} (hε : 0 < ε) (hn : 0 < n) {P : Fin n → Fin K → ℝ} (h : Interior ε P) (k : Fin K) :
    0 < Spec.pi P k := by
  have : Nonempty (Fin n) := ⟨⟨0, hn⟩⟩
  have hs : 0 < ∑ i, P i k := Finset.sum_pos (fun i _ => P_pos hε h i k) Finset.univ_nonempty
  exact div_pos hs (by exact_mod_cast hn)

end GemVerif
