/-
  Frames → history independence (property C12).  No Mathlib.

  An estimator object is modelled as a store `String → Val` (attribute name ↦ value; absent attributes hold some fixed
  value of `Val`).  A public method `m` is a state transformer `step m : Store → Arg → Store` (`Arg` = the caller's data,
  affinity and keyword arguments; the result is the object's state when the call is over, whether it returned or
  raised) together with a predicate `returns m σ a` ("the call returns normally").  What is ASSUMED about the real
  code — and nothing else — is `Sound`: each method respects its translated frame (`Respects`).  That assumption is the
  soundness of the dataflow extraction of `translator/frames.py` plus determinism of the numeric libraries for an
  integer `random_state`; it is TRUSTED here and validated dynamically by `harness/props/c12.py` (attribute spies,
  state fingerprints, bit-for-bit history differential).

  What is PROVED: from the Boolean table facts (`noStaleRead`, `netViolations = …`, `allViolations = …`) it follows that
  the configuration of an object after ANY admissible call history — calls that raise included — is what the
  `set_params` calls of that history alone produce (`config_preserved`), and that a fitting method called after any
  admissible history yields — on everything it definitely writes — the same values as the same call on ANY object
  holding the same configuration, e.g. a fresh object or a clone (`frame_determinism`).
-/
import GemVerif.Model.Frames

namespace GemVerif.Lemmas.Frames
open GemVerif.Model.Frames

/-! ### Boolean list helpers, specified -/

theorem subset_spec {a b : List String} (h : subset a b = true) : ∀ x ∈ a, x ∈ b := by
  intro x hx
  have := (List.all_eq_true.mp h) x hx
  exact List.contains_iff_mem.mp this

theorem disjoint_spec {a b : List String} (h : disjoint a b = true) : ∀ x ∈ a, x ∉ b := by
  intro x hx hb
  have := (List.all_eq_true.mp h) x hx
  rw [List.contains_iff_mem.mpr hb] at this
  exact absurd this (by decide)

/-- the first frame of `(c, m)` in the table -/
def frameOf (T : Tables) (c m : String) : Option Frame :=
  T.frames.find? fun f => f.cls == c && f.method == m

theorem frameOf_spec {T : Tables} {c m : String} {f : Frame} (h : frameOf T c m = some f) :
    f ∈ T.frames ∧ f.cls = c ∧ f.method = m := by
  unfold frameOf at h
  have hm := List.mem_of_find?_eq_some h
  have hp := List.find?_some h
  simp only [Bool.and_eq_true, beq_iff_eq] at hp
  exact ⟨hm, hp.1, hp.2⟩

section
variable {Val Arg : Type}

/-- state of one estimator object -/
abbrev Store (Val : Type) := String → Val

/-- two objects hold the same values in the attributes of `S` -/
def AgreeOn (S : List String) (σ τ : Store Val) : Prop := ∀ x ∈ S, σ x = τ x

theorem AgreeOn.refl (S : List String) (σ : Store Val) : AgreeOn S σ σ := fun _ _ => rfl

/-- the behaviour of the public methods of one class: state after the call, and whether the call returned normally -/
structure Sem (Val Arg : Type) where
  step : String → Store Val → Arg → Store Val
  returns : String → Store Val → Arg → Prop

/-- method `m` respects frame `f` -/
structure Respects (S : Sem Val Arg) (m : String) (f : Frame) : Prop where
  /-- an attribute outside `net` keeps its entry value when the call returns; outside `net ∪ netExc` also when it raises -/
  keeps : ∀ σ a x, x ∉ f.net → (S.returns m σ a ∨ x ∉ f.netExc) → S.step m σ a x = σ x
  /-- whether the call returns, and what it definitely writes, depend only on the argument and on the attributes read
      before written -/
  dep : ∀ σ τ a, AgreeOn f.reads σ τ → S.returns m σ a →
    S.returns m τ a ∧ AgreeOn f.must (S.step m σ a) (S.step m τ a)

/-- TRUSTED link to the code: `S` describes the public methods of class `c` and respects every translated frame of `c` -/
def Sound (T : Tables) (c : String) (S : Sem Val Arg) : Prop :=
  ∀ m f, frameOf T c m = some f → Respects S m f

/-- a public call: a method with its arguments, or `set_params(p = v)` -/
inductive Call (Val Arg : Type) where
  | meth (m : String) (a : Arg)
  | setParam (p : String) (v : Val)

def setAttr (σ : Store Val) (p : String) (v : Val) : Store Val := fun x => if x = p then v else σ x

def runCall (S : Sem Val Arg) (σ : Store Val) : Call Val Arg → Store Val
  | .meth m a => S.step m σ a
  | .setParam p v => setAttr σ p v

/-- the object after a call history -/
def run (S : Sem Val Arg) (σ : Store Val) (h : List (Call Val Arg)) : Store Val := h.foldl (runCall S) σ

def isSetParam : Call Val Arg → Bool
  | .setParam _ _ => true
  | .meth _ _ => false

/-- only the `set_params` calls of a history, in order -/
def paramsOnly (h : List (Call Val Arg)) : List (Call Val Arg) := h.filter isSetParam

/-- A history is admissible from state `σ` when every method call in it is a public method of the class with a frame,
    other than the constructor, and either the (class, method) pair has no listed deviation at all (`devsAll`), or the
    call returned normally and the pair has no listed normal-exit deviation (`devsRet`).  `set_params` calls are
    unrestricted; calls that raise are allowed. -/
def Admissible (T : Tables) (c : String) (devsRet devsAll : List (String × String × String)) (S : Sem Val Arg) :
    Store Val → List (Call Val Arg) → Prop
  | _, [] => True
  | σ, .setParam p v :: h => Admissible T c devsRet devsAll S (setAttr σ p v) h
  | σ, .meth m a :: h =>
      m ≠ "__init__" ∧ (∃ f, frameOf T c m = some f) ∧
      ((∀ x, (c, m, x) ∉ devsAll) ∨ (S.returns m σ a ∧ ∀ x, (c, m, x) ∉ devsRet)) ∧
      Admissible T c devsRet devsAll S (S.step m σ a) h

/-- table fact → semantic fact: outside the listed deviations the selected attributes avoid the configuration -/
theorem sel_avoids_config {T : Tables} {sel : Frame → List String} {devs : List (String × String × String)}
    (hv : violationsOf sel T = devs)
    {f : Frame} (hf : f ∈ T.frames) (hinit : f.method ≠ "__init__") (hdev : ∀ a, (f.cls, f.method, a) ∉ devs) :
    ∀ x ∈ sel f, x ∉ config T f.cls := by
  intro x hx hC
  apply hdev x
  rw [← hv]
  unfold violationsOf
  rw [List.mem_flatMap]
  refine ⟨f, hf, ?_⟩
  have : (f.method == "__init__") = false := beq_eq_false_iff_ne.mpr hinit
  simp only [this, Bool.false_eq_true, if_false, List.mem_map, List.mem_filter]
  exact ⟨x, ⟨hx, List.contains_iff_mem.mpr hC⟩, rfl⟩

theorem agreeOn_setAttr {S : List String} {σ τ : Store Val} (h : AgreeOn S σ τ) (p : String) (v : Val) :
    AgreeOn S (setAttr σ p v) (setAttr τ p v) := by
  intro x hx
  unfold setAttr
  by_cases hxp : x = p
  · simp [hxp]
  · simp [hxp, h x hx]

theorem run_cons (S : Sem Val Arg) (σ : Store Val) (call : Call Val Arg)
    (h : List (Call Val Arg)) : run S σ (call :: h) = run S (runCall S σ call) h := rfl

/-- generalised form of `config_preserved` (two start states that agree on the configuration) -/
theorem config_preserved_gen {T : Tables} {c : String} {devsRet devsAll : List (String × String × String)}
    {S : Sem Val Arg}
    (hret : netViolations T = devsRet) (hall : allViolations T = devsAll) (hs : Sound T c S) :
    ∀ (h : List (Call Val Arg)) (σ τ : Store Val), Admissible T c devsRet devsAll S σ h →
      AgreeOn (config T c) σ τ → AgreeOn (config T c) (run S σ h) (run S τ (paramsOnly h)) := by
  intro h
  induction h with
  | nil => intro σ τ _ hag; exact hag
  | cons call h ih =>
    intro σ τ hadm hag
    cases call with
    | meth m a =>
      obtain ⟨hinit, ⟨f, hfo⟩, hcase, hrest⟩ := hadm
      obtain ⟨hf, hcls, hmeth⟩ := frameOf_spec hfo
      have hpo : paramsOnly (Call.meth m a :: h) = paramsOnly h := by
        simp [paramsOnly, isSetParam]
      rw [run_cons, hpo]
      apply ih _ _ hrest
      intro x hx
      have hxC : x ∈ config T f.cls := by rw [hcls]; exact hx
      have hinit' : f.method ≠ "__init__" := by rw [hmeth]; exact hinit
      show S.step m σ a x = τ x
      have hkeep : S.step m σ a x = σ x := by
        rcases hcase with hnone | ⟨hreturned, hnoret⟩
        · have hav := sel_avoids_config (sel := fun f => f.net ++ f.netExc) hall hf hinit'
            (by rw [hcls, hmeth]; exact hnone)
          have hnot : x ∉ f.net ++ f.netExc := fun hmem => hav x hmem hxC
          rw [List.mem_append, not_or] at hnot
          exact (hs m f hfo).keeps σ a x hnot.1 (Or.inr hnot.2)
        · have hav := sel_avoids_config (sel := fun f => f.net) hret hf hinit'
            (by rw [hcls, hmeth]; exact hnoret)
          exact (hs m f hfo).keeps σ a x (fun hmem => hav x hmem hxC) (Or.inl hreturned)
      rw [hkeep]
      exact hag x hx
    | setParam p v =>
      have hpo : paramsOnly (Call.setParam p v :: h) = Call.setParam p v :: paramsOnly h := by
        simp [paramsOnly, List.filter_cons, isSetParam]
      rw [run_cons, hpo, run_cons]
      exact ih _ _ hadm (agreeOn_setAttr hag p v)

/-- The configuration (hyperparameters and constructor literals) of an object after ANY admissible history of public
    calls is exactly what replaying only the `set_params` calls of that history gives: no `fit`, `predict`, `score`, …
    leaves a trace in it, whether it returned or raised. -/
theorem config_preserved {T : Tables} {c : String} {devsRet devsAll : List (String × String × String)}
    {S : Sem Val Arg}
    (hret : netViolations T = devsRet) (hall : allViolations T = devsAll) (hs : Sound T c S)
    (h : List (Call Val Arg)) (σ : Store Val) (hadm : Admissible T c devsRet devsAll S σ h) :
    AgreeOn (config T c) (run S σ h) (run S σ (paramsOnly h)) :=
  config_preserved_gen hret hall hs h σ σ hadm (AgreeOn.refl _ _)

/-- **History independence from frames.**  Let `m` be a method whose reads-before-write are all configuration
    attributes (`noStaleRead T m`).  After any admissible history `h` on an object that started in state `σ`, if calling
    `m` with argument `a` returns, then it also returns on ANY object `τ` whose configuration equals the one obtained
    from `σ` by the `set_params` calls of `h` alone — a fresh object built with those hyperparameters, a clone, or the
    same object before the history — and the two results agree on every attribute `m` definitely writes. -/
theorem frame_determinism {T : Tables} {c : String} {devsRet devsAll : List (String × String × String)}
    {S : Sem Val Arg}
    (hret : netViolations T = devsRet) (hall : allViolations T = devsAll) (hs : Sound T c S)
    {m : String} {f : Frame} (hf : frameOf T c m = some f) (hstale : noStaleRead T m = true)
    (h : List (Call Val Arg)) (σ τ : Store Val) (hadm : Admissible T c devsRet devsAll S σ h)
    (hτ : AgreeOn (config T c) (run S σ (paramsOnly h)) τ) (a : Arg)
    (hreturns : S.returns m (run S σ h) a) :
    S.returns m τ a ∧ AgreeOn f.must (S.step m (run S σ h) a) (S.step m τ a) := by
  obtain ⟨hfm, hcls, hmeth⟩ := frameOf_spec hf
  apply (hs m f hf).dep _ _ _ _ hreturns
  intro x hx
  have hall' := (List.all_eq_true.mp hstale) f hfm
  have hsub : subset f.reads (config T f.cls) = true := by
    simpa [hmeth] using hall'
  have hxC : x ∈ config T c := by rw [← hcls]; exact subset_spec hsub x hx
  rw [config_preserved hret hall hs h σ hadm x hxC]
  exact hτ x hxC

/-! ### the hypotheses are satisfiable (a concrete semantics that respects every frame of a table) -/

/-- a toy semantics: every call returns, and resets to `0` what its frame says it definitely writes and may change -/
def toySem (T : Tables) (c : String) : Sem Nat Arg where
  step := fun m σ _ x =>
    match frameOf T c m with
    | some f => if x ∈ f.must ∧ x ∈ f.net then 0 else σ x
    | none => σ x
  returns := fun _ _ _ => True

/-- table fact used by the toy semantics: an attribute definitely written but unchanged at exit (saved and restored)
    was read first -/
def restoredAreRead (T : Tables) : Bool :=
  T.frames.all fun f => subset (f.must.filter fun x => !f.net.contains x) f.reads

theorem toySem_sound (T : Tables) (c : String) (hr : restoredAreRead T = true) :
    Sound (Val := Nat) (Arg := Arg) T c (toySem T c) := by
  intro m f hf
  have hfm := (frameOf_spec hf).1
  constructor
  · intro σ a x hx _
    simp [toySem, hf, hx]
  · intro σ τ a hag _
    refine ⟨trivial, ?_⟩
    intro x hx
    simp only [toySem, hf]
    by_cases hn : x ∈ f.net
    · simp [hx, hn]
    · have hsub := (List.all_eq_true.mp hr) f hfm
      have hxr : x ∈ f.reads := subset_spec hsub x (by
        rw [List.mem_filter]
        refine ⟨hx, ?_⟩
        cases hc : f.net.contains x with
        | false => rfl
        | true => exact absurd (List.contains_iff_mem.mp hc) hn)
      simp [hn, hag x hxr]

end

/-! ### listed deviations of the pinned source tree -/

/-- (class, method, configuration attribute) triples for which the CURRENT source may leave a configuration attribute
    modified when a public call RETURNS NORMALLY.  Empty.
    (Until the repair of `_base_sparse._path` it held `(<sparse class>, "path", "alpha")` five times: `_path` executed
    `clf.set_params(alpha=0)` / `clf.alpha = alpha` and never restored the constructor's `alpha`; DESIGN §8 row 8.) -/
def knownDeviationsOnReturn : List (String × String × String) := []

/-- The same for ANY exit, normal or exceptional.  Empty.
    (After the first repair `_path` restored `alpha` just before its `return` but not inside a `finally`: when it RAISED
    — `dynamic=True` and the proximal step removing all remaining features at once — the object kept the `alpha` of the
    interrupted step; the table then had `(<sparse class>, "path", "alpha")` five times here.  /repo commits c87cbdb
    and 742cea9 repaired both; found and reproduced on the real code by `harness/props/c12.py`, keys
    `path:alpha-mutated`, `path:history`, `fit-after-path:history`.)
    `Props.C12.config_untouched_on_return` / `config_untouched_except_known` state that the translated table has
    EXACTLY the listed violations, so a regression of the source makes a theorem fail. -/
def knownDeviations : List (String × String × String) := []

end GemVerif.Lemmas.Frames
