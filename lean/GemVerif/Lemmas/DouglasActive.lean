/-
  Helper lemmas for the Douglas theorems (C15), part 4: `find_active_points`.
-/
import GemVerif.NumReal
import GemVerif.Model.Douglas
import Mathlib.Order.Lattice
import Mathlib.Data.List.OfFn
import Mathlib.Data.Finset.Lattice.Fold

namespace GemVerif.Douglas
open GemVerif Model.Douglas

/-- the property's words: some cut point lies strictly inside the range taken by feature `f` in the
    data, i.e. strictly above one observed value and strictly below another -/
def ActiveSpec {n d : ℕ} (X : Fin n → Fin d → ℝ) (f : ℕ) (cuts : List ℝ) : Prop :=
  ∃ c ∈ cuts, (∃ i, xget (X i) f < c) ∧ (∃ i, c < xget (X i) f)

theorem foldl_min_lt (l : List ℝ) (a c : ℝ) :
    l.foldl RealLike.min a < c ↔ a < c ∨ ∃ v ∈ l, v < c := by
  induction l generalizing a with
  | nil => simp
  | cons b l ih =>
    rw [List.foldl_cons, ih, RealLike.min_real, min_lt_iff]
    simp only [List.mem_cons, exists_eq_or_imp]
    tauto

theorem lt_foldl_max (l : List ℝ) (a c : ℝ) :
    c < l.foldl RealLike.max a ↔ c < a ∨ ∃ v ∈ l, c < v := by
  induction l generalizing a with
  | nil => simp
  | cons b l ih =>
    rw [List.foldl_cons, ih, RealLike.max_real, lt_max_iff]
    simp only [List.mem_cons, exists_eq_or_imp]
    tauto

theorem minL?_lt {l : List ℝ} {lo : ℝ} (h : minL? l = some lo) (c : ℝ) : lo < c ↔ ∃ v ∈ l, v < c := by
  cases l with
  | nil => simp [minL?] at h
  | cons a l =>
    simp only [minL?, Option.some.injEq] at h
    subst h
    rw [foldl_min_lt]; simp

theorem lt_maxL? {l : List ℝ} {hi : ℝ} (h : maxL? l = some hi) (c : ℝ) : c < hi ↔ ∃ v ∈ l, c < v := by
  cases l with
  | nil => simp [maxL?] at h
  | cons a l =>
    simp only [maxL?, Option.some.injEq] at h
    subst h
    rw [lt_foldl_max]; simp

theorem minL?_isSome {l : List ℝ} (h : l ≠ []) : ∃ lo, minL? l = some lo := by
  cases l with
  | nil => exact absurd rfl h
  | cons a l => exact ⟨_, rfl⟩

theorem maxL?_isSome {l : List ℝ} (h : l ≠ []) : ∃ hi, maxL? l = some hi := by
  cases l with
  | nil => exact absurd rfl h
  | cons a l => exact ⟨_, rfl⟩

/-- the repaired test decides "some cut point strictly between two observed values" -/
theorem testFixed_spec {n : ℕ} (hn : 0 < n) (col : Fin n → ℝ) (cuts : List ℝ) :
    ∃ b, testFixed col cuts = some b ∧ (b = true ↔ ∃ c ∈ cuts, (∃ i, col i < c) ∧ (∃ i, c < col i)) := by
  have hne : List.ofFn col ≠ [] := by
    intro h
    have := congrArg List.length h
    simp at this
    omega
  obtain ⟨lo, hlo⟩ := minL?_isSome hne
  obtain ⟨hi, hhi⟩ := maxL?_isSome hne
  refine ⟨cuts.any fun c => RealLike.lt lo c && RealLike.lt c hi, by simp [testFixed, hlo, hhi], ?_⟩
  simp only [List.any_eq_true, Bool.and_eq_true, RealLike.lt_real, decide_eq_true_eq]
  constructor
  · rintro ⟨c, hc, h1, h2⟩
    refine ⟨c, hc, ?_, ?_⟩
    · obtain ⟨v, hv, hvc⟩ := (minL?_lt hlo c).mp h1
      obtain ⟨i, rfl⟩ := (List.mem_ofFn' col v).mp hv
      exact ⟨i, hvc⟩
    · obtain ⟨v, hv, hvc⟩ := (lt_maxL? hhi c).mp h2
      obtain ⟨i, rfl⟩ := (List.mem_ofFn' col v).mp hv
      exact ⟨i, hvc⟩
  · rintro ⟨c, hc, ⟨i, hi1⟩, ⟨j, hj⟩⟩
    exact ⟨c, hc, (minL?_lt hlo c).mpr ⟨col i, (List.mem_ofFn' col _).mpr ⟨i, rfl⟩, hi1⟩,
      (lt_maxL? hhi c).mpr ⟨col j, (List.mem_ofFn' col _).mpr ⟨j, rfl⟩, hj⟩⟩

/-- the loop with the repaired test: succeeds when the feature indices address the data, keeps exactly
    the entries that satisfy the specification, in the order of `cut_points_list_` -/
theorem activeLoop_fixed {n d : ℕ} (hn : 0 < n) (X : Fin n → Fin d → ℝ) :
    ∀ cl : List (ℕ × List ℝ), (∀ z ∈ cl, z.1 < d) →
      ∃ r, activeLoop testFixed X cl = some r ∧ r.Sublist (cl.map Prod.fst) ∧
        ∀ f, f ∈ r ↔ ∃ z ∈ cl, z.1 = f ∧ ActiveSpec X z.1 z.2
  | [], _ => ⟨[], rfl, by simp, by simp⟩
  | z :: cl, h => by
    have hz : z.1 < d := h z List.mem_cons_self
    obtain ⟨r, hr, hsub, hmem⟩ := activeLoop_fixed hn X cl fun w hw => h w (List.mem_cons_of_mem _ hw)
    obtain ⟨b, hb, hbspec⟩ := testFixed_spec hn (fun i => X i ⟨z.1, hz⟩) z.2
    have hspec : b = true ↔ ActiveSpec X z.1 z.2 := by
      rw [hbspec]
      unfold ActiveSpec xget
      simp only [hz, dite_true]
    refine ⟨if b then z.1 :: r else r, by simp [activeLoop, hz, hb, hr], ?_, ?_⟩
    · cases b with
      | true => simpa using hsub.cons_cons z.1
      | false => simpa using hsub.cons z.1
    · intro f
      cases b with
      | true =>
        have hs : ActiveSpec X z.1 z.2 := hspec.mp rfl
        simp only [if_true, List.mem_cons, hmem, exists_eq_or_imp]
        constructor
        · rintro (rfl | h')
          · exact Or.inl ⟨rfl, hs⟩
          · exact Or.inr h'
        · rintro (⟨rfl, _⟩ | h')
          · exact Or.inl rfl
          · exact Or.inr h'
      | false =>
        have hs : ¬ ActiveSpec X z.1 z.2 := fun hs => by simpa using hspec.mpr hs
        simp only [Bool.false_eq_true, if_false, List.mem_cons, hmem, exists_eq_or_imp]
        constructor
        · exact fun h' => Or.inr h'
        · rintro (⟨_, hs'⟩ | h')
          · exact absurd hs' hs
          · exact h'

/-- a feature index outside the data makes the loop fail (the source raises `IndexError`) -/
theorem activeLoop_none {n d : ℕ} (test : (Fin n → ℝ) → List ℝ → Option Bool) (X : Fin n → Fin d → ℝ) :
    ∀ cl : List (ℕ × List ℝ), (∃ z ∈ cl, d ≤ z.1) → activeLoop test X cl = none
  | [], h => by simp at h
  | z :: cl, h => by
    unfold activeLoop
    by_cases hz : z.1 < d
    · have : ∃ w ∈ cl, d ≤ w.1 := by
        obtain ⟨w, hw, hd⟩ := h
        rcases List.mem_cons.mp hw with rfl | hw
        · omega
        · exact ⟨w, hw, hd⟩
      rw [dif_pos hz, activeLoop_none test X cl this]
      cases test (fun i => X i ⟨z.1, hz⟩) z.2 <;> rfl
    · rw [dif_neg hz]

end GemVerif.Douglas
