/-
  Specification and helper lemmas for C14 (must-link / cannot-link constraints).

  * `SpecOK`: the documented meaning of "the constraint set is acceptable".
  * `bfsReach_spec`: the executable reachability primitive of the model is the connected component.
  * `exploreLoop_iff`, `structural_iff`: what `_check_structural_constraint` decides, for any
    `nodeKey` (hence both for the source as it stands and for the intended acceptor).
  * `structural_fixed_iff`: with sample indices compared with sample indices, this is
    "no cannot-link pair inside a must-link component".
  * `inject_apply` (closed form of `intercept_grads`), `contrib_perm` (batch permutations),
    `hasDerivAt_penalty` (the injected term is the gradient of the pairwise penalty).
-/
import GemVerif.Model.Mlcl
import Mathlib.Logic.Relation
import Mathlib.Data.List.Basic
import GemVerif.NumReal
import Mathlib.Analysis.Calculus.Deriv.Pow
import Mathlib.Analysis.Calculus.Deriv.Add
import Mathlib.Analysis.Calculus.Deriv.Mul

namespace GemVerif.Spec.Mlcl
open GemVerif.Model.Mlcl

/-- `i` and `j` are tied by a must-link constraint -/
def Linked (ML : List Pair) (a b : Int) : Prop := (a, b) ∈ ML

/-- the documented acceptance condition: nobody is paired with itself, and no cannot-link pair lies
    inside one connected component of the must-link graph -/
def SpecOK (ML CL : List Pair) : Prop :=
  (∀ p ∈ ML ++ CL, p.1 ≠ p.2) ∧ ∀ p ∈ CL, ¬ Relation.EqvGen (Linked ML) p.1 p.2

end GemVerif.Spec.Mlcl

namespace GemVerif.MlclLemmas
open GemVerif.Model.Mlcl GemVerif.Spec.Mlcl Relation

/-! ### equivalence closures -/

theorem eqvGen_of_le {β : Type} {r s : β → β → Prop} (h : ∀ a b, r a b → EqvGen s a b) {a b : β}
    (hab : EqvGen r a b) : EqvGen s a b := by
  induction hab with
  | rel x y hxy => exact h x y hxy
  | refl x => exact EqvGen.refl x
  | symm x y _ ih => exact EqvGen.symm _ _ ih
  | trans x y z _ _ ih1 ih2 => exact EqvGen.trans _ _ _ ih1 ih2

theorem eqvGen_congr {β : Type} {r s : β → β → Prop} (h1 : ∀ a b, r a b → EqvGen s a b)
    (h2 : ∀ a b, s a b → EqvGen r a b) (a b : β) : EqvGen r a b ↔ EqvGen s a b :=
  ⟨eqvGen_of_le h1, eqvGen_of_le h2⟩

/-- a function constant on `r`-related elements is constant on `EqvGen r` classes -/
theorem eq_of_eqvGen {β γ : Type} {r : β → β → Prop} (f : β → γ) (h : ∀ a b, r a b → f a = f b)
    {a b : β} (hab : EqvGen r a b) : f a = f b := by
  induction hab with
  | rel x y hxy => exact h x y hxy
  | refl x => rfl
  | symm x y _ ih => exact ih.symm
  | trans x y z _ _ ih1 ih2 => exact ih1.trans ih2

/-! ### the label-merging reachability primitive -/

theorem mergeStep_apply (lab : Labels) (e : Nat × Nat) (v : Nat) :
    (mergeStep lab e).get v = if lab.get v = lab.get e.1 then lab.get e.2 else lab.get v := by
  simp [mergeStep]

/-- after merging along `es`, two nodes carry the same label iff they are connected through
    label-equal nodes and the edges `es` -/
theorem foldl_mergeStep_iff (es : List (Nat × Nat)) (lab : Labels) (u v : Nat) :
    (es.foldl mergeStep lab).get u = (es.foldl mergeStep lab).get v ↔
      EqvGen (fun a b => lab.get a = lab.get b ∨ (a, b) ∈ es) u v := by
  induction es generalizing lab u v with
  | nil =>
    simp only [List.foldl_nil, List.not_mem_nil, or_false]
    constructor
    · intro h; exact EqvGen.rel _ _ h
    · intro h; exact eq_of_eqvGen lab.get (fun _ _ h => h) h
  | cons e es ih =>
    rw [List.foldl_cons, ih]
    apply eqvGen_congr
    · rintro a b (h | h)
      · -- labels equal after the merge: connected before or through the new edge
        rw [mergeStep_apply, mergeStep_apply] at h
        have hx : ∀ w, lab.get w = lab.get e.1 →
            EqvGen (fun a b => lab.get a = lab.get b ∨ (a, b) ∈ e :: es) w e.2 := fun w hw =>
          EqvGen.trans _ _ _ (EqvGen.rel _ _ (Or.inl hw))
            (EqvGen.rel _ _ (Or.inr (by simp)))
        by_cases ha : lab.get a = lab.get e.1 <;> by_cases hb : lab.get b = lab.get e.1
        · exact EqvGen.trans _ _ _ (hx a ha) (EqvGen.symm _ _ (hx b hb))
        · simp only [ha, hb, if_true, if_false] at h
          exact EqvGen.trans _ _ _ (hx a ha) (EqvGen.rel _ _ (Or.inl h))
        · simp only [ha, hb, if_true, if_false] at h
          exact EqvGen.trans _ _ _ (EqvGen.rel _ _ (Or.inl h)) (EqvGen.symm _ _ (hx b hb))
        · simp only [ha, hb, if_false] at h
          exact EqvGen.rel _ _ (Or.inl h)
      · exact EqvGen.rel _ _ (Or.inr (List.mem_cons_of_mem _ h))
    · rintro a b (h | h)
      · refine EqvGen.rel _ _ (Or.inl ?_)
        rw [mergeStep_apply, mergeStep_apply, h]
      · rcases List.mem_cons.1 h with h | h
        · refine EqvGen.rel _ _ (Or.inl ?_)
          have h1 : a = e.1 := by rw [← h]
          have h2 : b = e.2 := by rw [← h]
          subst h1 h2
          rw [mergeStep_apply, mergeStep_apply]
          simp
        · exact EqvGen.rel _ _ (Or.inr h)

theorem mem_edgesOf (n : Nat) (M : Nat → Nat → Bool) (a b : Nat) :
    (a, b) ∈ edgesOf n M ↔ a < n ∧ b < n ∧ M a b = true := by
  simp only [edgesOf, List.mem_flatMap, List.mem_range, List.mem_map, List.mem_filter, Prod.mk.injEq]
  constructor
  · rintro ⟨i, hi, j, ⟨hj, hM⟩, rfl, rfl⟩
    exact ⟨hi, hj, hM⟩
  · rintro ⟨ha, hb, hM⟩
    exact ⟨a, ha, b, ⟨hb, hM⟩, rfl, rfl⟩

/-- adjacency in the graph that `breadth_first_order(M, ·, directed=False)` explores -/
def Adj (n : Nat) (M : Nat → Nat → Bool) (a b : Nat) : Prop := a < n ∧ b < n ∧ M a b = true

/-- same connected component -/
def Conn (n : Nat) (M : Nat → Nat → Bool) : Nat → Nat → Prop := EqvGen (Adj n M)

theorem compLabels_eq_iff (n : Nat) (M : Nat → Nat → Bool) (u v : Nat) :
    (compLabels n M).get u = (compLabels n M).get v ↔ Conn n M u v := by
  unfold compLabels Conn
  rw [foldl_mergeStep_iff]
  apply eqvGen_congr
  · rintro a b (h | h)
    · have : a = b := h
      subst this; exact EqvGen.refl _
    · exact EqvGen.rel _ _ ((mem_edgesOf n M a b).1 h)
  · intro a b h
    exact EqvGen.rel _ _ (Or.inr ((mem_edgesOf n M a b).2 h))

/-- **the reachability primitive is the connected component** -/
theorem bfsReach_spec (n : Nat) (M : Nat → Nat → Bool) (s v : Nat) :
    v ∈ bfsReach n M s ↔ v < n ∧ Conn n M s v := by
  simp only [bfsReach, List.mem_filter, List.mem_range, beq_iff_eq]
  rw [compLabels_eq_iff]
  exact and_congr_right fun _ => ⟨fun h => EqvGen.symm _ _ h, fun h => EqvGen.symm _ _ h⟩

theorem bfsReach_nodup (n : Nat) (M : Nat → Nat → Bool) (s : Nat) : (bfsReach n M s).Nodup := by
  unfold bfsReach
  exact List.Nodup.sublist List.filter_sublist List.nodup_range

theorem self_mem_bfsReach {n : Nat} (M : Nat → Nat → Bool) {s : Nat} (h : s < n) :
    s ∈ bfsReach n M s := (bfsReach_spec n M s s).2 ⟨h, EqvGen.refl _⟩

/-- connected start nodes give the same component -/
theorem mem_bfsReach_congr {n : Nat} {M : Nat → Nat → Bool} {s t : Nat} (h : Conn n M s t) (v : Nat) :
    v ∈ bfsReach n M s ↔ v ∈ bfsReach n M t := by
  rw [bfsReach_spec, bfsReach_spec]
  exact and_congr_right fun _ =>
    ⟨fun h' => EqvGen.trans _ _ _ (EqvGen.symm _ _ h) h', fun h' => EqvGen.trans _ _ _ h h'⟩

/-! ### `itertools.combinations(·, 2)` -/

theorem mem_pairs_mem {β : Type} {l : List β} {a b : β} (h : (a, b) ∈ pairs l) : a ∈ l ∧ b ∈ l := by
  induction l with
  | nil => simp [pairs] at h
  | cons x xs ih =>
    simp only [pairs, List.mem_append, List.mem_map, Prod.mk.injEq] at h
    rcases h with ⟨y, hy, rfl, rfl⟩ | h
    · exact ⟨List.mem_cons_self, List.mem_cons_of_mem _ hy⟩
    · exact ⟨List.mem_cons_of_mem _ (ih h).1, List.mem_cons_of_mem _ (ih h).2⟩

theorem mem_pairs_ne {β : Type} {l : List β} (hl : l.Nodup) {a b : β} (h : (a, b) ∈ pairs l) : a ≠ b := by
  induction l with
  | nil => simp [pairs] at h
  | cons x xs ih =>
    simp only [pairs, List.mem_append, List.mem_map, Prod.mk.injEq] at h
    rcases h with ⟨y, hy, rfl, rfl⟩ | h
    · intro hxy; subst hxy; exact (List.nodup_cons.1 hl).1 hy
    · exact ih (List.nodup_cons.1 hl).2 h

theorem mem_pairs_of_ne {β : Type} {l : List β} {a b : β} (ha : a ∈ l) (hb : b ∈ l) (hab : a ≠ b) :
    (a, b) ∈ pairs l ∨ (b, a) ∈ pairs l := by
  induction l with
  | nil => simp at ha
  | cons x xs ih =>
    simp only [pairs, List.mem_append, List.mem_map, Prod.mk.injEq]
    rcases List.mem_cons.1 ha with rfl | ha' <;> rcases List.mem_cons.1 hb with rfl | hb'
    · exact absurd rfl hab
    · exact Or.inl (Or.inl ⟨b, hb', rfl, rfl⟩)
    · exact Or.inr (Or.inl ⟨a, ha', rfl, rfl⟩)
    · rcases ih ha' hb' with h | h
      · exact Or.inl (Or.inr h)
      · exact Or.inr (Or.inr h)

/-! ### the exploration loop -/

theorem clash_symm (key : Nat → Int) (i j : Nat) (p : Pair) : clash key i j p = clash key j i p := by
  simp only [clash]
  cases (key i == p.1) <;> cases (key j == p.2) <;> cases (key i == p.2) <;> cases (key j == p.1) <;> rfl

theorem clash_iff (key : Nat → Int) (i j : Nat) (p : Pair) :
    clash key i j p = true ↔ (key i = p.1 ∧ key j = p.2) ∨ (key i = p.2 ∧ key j = p.1) := by
  simp [clash]

/-- no cannot-link pair is matched by two distinct nodes of the component of `t` -/
def NoClash (key : Nat → Int) (n : Nat) (M : Nat → Nat → Bool) (CL : List Pair) (t : Nat) : Prop :=
  ∀ i j, i ≠ j → i ∈ bfsReach n M t → j ∈ bfsReach n M t → ∀ p ∈ CL, clash key i j p = false

theorem any_clash_iff (key : Nat → Int) (n : Nat) (M : Nat → Nat → Bool) (CL : List Pair) (t : Nat) :
    ((pairs (bfsReach n M t)).any (fun ij => CL.any fun p => clash key ij.1 ij.2 p)) = false ↔
      NoClash key n M CL t := by
  rw [Bool.eq_false_iff]
  simp only [ne_eq, List.any_eq_true, not_exists, not_and, Bool.not_eq_true]
  constructor
  · intro h i j hij hi hj p hp
    rcases mem_pairs_of_ne hi hj hij with h' | h'
    · exact h (i, j) h' p hp
    · rw [clash_symm]; exact h (j, i) h' p hp
  · rintro h ⟨i, j⟩ hij p hp
    exact h i j (mem_pairs_ne (bfsReach_nodup n M t) hij) (mem_pairs_mem hij).1 (mem_pairs_mem hij).2 p hp

theorem noClash_congr {key : Nat → Int} {n : Nat} {M : Nat → Nat → Bool} {CL : List Pair} {s t : Nat}
    (h : Conn n M s t) : NoClash key n M CL s ↔ NoClash key n M CL t := by
  unfold NoClash
  constructor
  · intro H i j hij hi hj
    exact H i j hij ((mem_bfsReach_congr h i).2 hi) ((mem_bfsReach_congr h j).2 hj)
  · intro H i j hij hi hj
    exact H i j hij ((mem_bfsReach_congr h i).1 hi) ((mem_bfsReach_congr h j).1 hj)

theorem foldl_erase_subset (c l : List Nat) : ∀ v, v ∈ c.foldl (fun l node => l.erase node) l → v ∈ l := by
  induction c generalizing l with
  | nil => intro v h; exact h
  | cons x xs ih => intro v h; exact List.mem_of_mem_erase (ih _ v h)

theorem mem_foldl_erase (c l : List Nat) (v : Nat) (hv : v ∈ l) (hc : v ∉ c) :
    v ∈ c.foldl (fun l node => l.erase node) l := by
  induction c generalizing l with
  | nil => exact hv
  | cons x xs ih =>
    simp only [List.mem_cons, not_or] at hc
    exact ih _ ((List.mem_erase_of_ne hc.1).2 hv) hc.2

theorem length_foldl_erase_le (c l : List Nat) :
    (c.foldl (fun l node => l.erase node) l).length ≤ l.length := by
  induction c generalizing l with
  | nil => exact Nat.le_refl _
  | cons x xs ih => exact Nat.le_trans (ih _) List.length_erase_le

theorem length_foldl_erase_lt (c l : List Nat) (a : Nat) (hc : a ∈ c) (hl : a ∈ l) :
    (c.foldl (fun l node => l.erase node) l).length < l.length := by
  induction c generalizing l with
  | nil => simp at hc
  | cons x xs ih =>
    simp only [List.foldl_cons]
    by_cases hax : a = x
    · subst hax
      have h1 := length_foldl_erase_le xs (l.erase a)
      have h2 : (l.erase a).length = l.length - 1 := List.length_erase_of_mem hl
      have h3 : 0 < l.length := List.length_pos_of_mem hl
      omega
    · have hc' : a ∈ xs := by
        rcases List.mem_cons.1 hc with h | h
        · exact absurd h hax
        · exact h
      have := ih (l.erase x) hc' ((List.mem_erase_of_ne hax).2 hl)
      have h2 : (l.erase x).length ≤ l.length := List.length_erase_le
      omega

/-- **what the `while` loop decides**: it returns (does not raise) iff no component met from the
    nodes still to explore contains a clash -/
theorem exploreLoop_iff (key : Nat → Int) (n : Nat) (M : Nat → Nat → Bool) (CL : List Pair) :
    ∀ (fuel : Nat) (T : List Nat), T.length ≤ fuel → (∀ t ∈ T, t < n) →
      (exploreLoop key n M CL fuel T = true ↔ ∀ t ∈ T, NoClash key n M CL t) := by
  intro fuel
  induction fuel with
  | zero =>
    intro T hT _
    have : T = [] := List.eq_nil_of_length_eq_zero (Nat.le_zero.1 hT)
    subst this
    simp [exploreLoop]
  | succ fuel ih =>
    intro T hT hlt
    cases T with
    | nil => simp [exploreLoop]
    | cons s rest =>
      have hs : s < n := hlt s List.mem_cons_self
      have hself := self_mem_bfsReach M hs
      simp only [exploreLoop]
      have hlt' := length_foldl_erase_lt (bfsReach n M s) (s :: rest) s hself List.mem_cons_self
      generalize hT' : (bfsReach n M s).foldl (fun l node => l.erase node) (s :: rest) = T' at hlt'
      have hlen : T'.length ≤ fuel := by
        simp only [List.length_cons] at hlt' hT
        omega
      have hsub : ∀ v, v ∈ T' → v ∈ s :: rest := by
        intro v hv; rw [← hT'] at hv; exact foldl_erase_subset _ _ v hv
      have ih' := ih T' hlen (fun t ht => hlt t (hsub t ht))
      by_cases hc : ((pairs (bfsReach n M s)).any (fun ij => CL.any fun p => clash key ij.1 ij.2 p)) = true
      · simp only [hc, if_true, Bool.false_eq_true, false_iff]
        intro H
        have := (any_clash_iff key n M CL s).2 (H s List.mem_cons_self)
        rw [hc] at this
        exact absurd this (by decide)
      · have hc' := Bool.eq_false_iff.2 hc
        simp only [hc', Bool.false_eq_true, if_false]
        rw [ih']
        have hs0 := (any_clash_iff key n M CL s).1 hc'
        constructor
        · intro H t ht
          by_cases htc : t ∈ bfsReach n M s
          · exact (noClash_congr ((bfsReach_spec n M s t).1 htc).2).1 hs0
          · exact H t (by rw [← hT']; exact mem_foldl_erase _ _ t ht htc)
        · intro H t ht
          exact H t (hsub t ht)

/-- `_check_structural_constraint` returns iff no two distinct connected positions match a
    cannot-link pair through `nodeKey` -/
theorem structural_iff (fixed : Bool) (uniq : List Int) (ML CL : List Pair) :
    structural fixed uniq ML CL = true ↔
      ∀ t, t < uniq.length →
        NoClash (nodeKey fixed uniq) uniq.length (connMatrix uniq ML) CL t := by
  unfold structural
  simp only
  rw [exploreLoop_iff _ _ _ _ _ _ (by simp) (by simp)]
  simp

/-! ### from positions back to sample indices (the intended acceptor) -/

theorem eqvGen_map {β γ : Type} {r : β → β → Prop} {s : γ → γ → Prop} (f : β → γ)
    (h : ∀ a b, r a b → EqvGen s (f a) (f b)) {a b : β} (hab : EqvGen r a b) : EqvGen s (f a) (f b) := by
  induction hab with
  | rel x y hxy => exact h x y hxy
  | refl x => exact EqvGen.refl _
  | symm x y _ ih => exact EqvGen.symm _ _ ih
  | trans x y z _ _ ih1 ih2 => exact EqvGen.trans _ _ _ ih1 ih2

theorem connMatrix_iff (uniq : List Int) (ML : List Pair) (i j : Nat) :
    connMatrix uniq ML i j = true ↔
      ∃ q ∈ ML, (uniq.idxOf q.1 = i ∧ uniq.idxOf q.2 = j) ∨ (uniq.idxOf q.2 = i ∧ uniq.idxOf q.1 = j) := by
  simp [connMatrix]

theorem getD_idxOf {uniq : List Int} {a : Int} (h : a ∈ uniq) : uniq.getD (uniq.idxOf a) 0 = a := by
  rw [List.getD_eq_getElem?_getD, List.getElem?_idxOf h]; rfl

/-- connected positions carry must-link-connected sample indices -/
theorem linked_of_conn (uniq : List Int) (ML : List Pair) (hU : ∀ q ∈ ML, q.1 ∈ uniq ∧ q.2 ∈ uniq)
    {i j : Nat} (h : Conn uniq.length (connMatrix uniq ML) i j) :
    EqvGen (Linked ML) (uniq.getD i 0) (uniq.getD j 0) := by
  refine eqvGen_map (fun i => uniq.getD i 0) ?_ h
  rintro a b ⟨_, _, hM⟩
  obtain ⟨q, hq, h' | h'⟩ := (connMatrix_iff uniq ML a b).1 hM
  · obtain ⟨rfl, rfl⟩ := h'
    simp only [getD_idxOf (hU q hq).1, getD_idxOf (hU q hq).2]
    exact EqvGen.rel _ _ hq
  · obtain ⟨rfl, rfl⟩ := h'
    simp only [getD_idxOf (hU q hq).1, getD_idxOf (hU q hq).2]
    exact EqvGen.symm _ _ (EqvGen.rel _ _ hq)

/-- must-link-connected sample indices are equal or sit at connected positions -/
theorem conn_of_linked (uniq : List Int) (ML : List Pair) (hU : ∀ q ∈ ML, q.1 ∈ uniq ∧ q.2 ∈ uniq)
    {a b : Int} (h : EqvGen (Linked ML) a b) :
    a = b ∨ (a ∈ uniq ∧ b ∈ uniq ∧
      Conn uniq.length (connMatrix uniq ML) (uniq.idxOf a) (uniq.idxOf b)) := by
  induction h with
  | rel x y hxy =>
    have hx := (hU (x, y) hxy).1
    have hy := (hU (x, y) hxy).2
    refine Or.inr ⟨hx, hy, EqvGen.rel _ _ ⟨List.idxOf_lt_length_of_mem hx, List.idxOf_lt_length_of_mem hy, ?_⟩⟩
    exact (connMatrix_iff uniq ML _ _).2 ⟨(x, y), hxy, Or.inl ⟨rfl, rfl⟩⟩
  | refl x => exact Or.inl rfl
  | symm x y _ ih =>
    rcases ih with rfl | ⟨hx, hy, hc⟩
    · exact Or.inl rfl
    · exact Or.inr ⟨hy, hx, EqvGen.symm _ _ hc⟩
  | trans x y z _ _ ih1 ih2 =>
    rcases ih1 with rfl | ⟨hx, hy, hc⟩
    · exact ih2
    · rcases ih2 with rfl | ⟨_, hz, hc'⟩
      · exact Or.inr ⟨hx, hy, hc⟩
      · exact Or.inr ⟨hx, hz, EqvGen.trans _ _ _ hc hc'⟩

/-- **the structural check with sample indices compared with sample indices** returns iff no
    cannot-link pair lies inside a must-link component.  `uniq` may be any list containing the
    must-link end points (order and repetitions are irrelevant). -/
theorem structural_fixed_iff (uniq : List Int) (ML CL : List Pair)
    (hU : ∀ q ∈ ML, q.1 ∈ uniq ∧ q.2 ∈ uniq) (hCL : ∀ p ∈ CL, p.1 ≠ p.2) :
    structural true uniq ML CL = true ↔ ∀ p ∈ CL, ¬ EqvGen (Linked ML) p.1 p.2 := by
  rw [structural_iff]
  constructor
  · intro H p hp hlink
    rcases conn_of_linked uniq ML hU hlink with h | ⟨h1, h2, hc⟩
    · exact hCL p hp h
    · have hi := List.idxOf_lt_length_of_mem h1
      have hj := List.idxOf_lt_length_of_mem h2
      have hne : uniq.idxOf p.1 ≠ uniq.idxOf p.2 := by
        intro he
        have := getD_idxOf h1
        rw [he, getD_idxOf h2] at this
        exact hCL p hp this.symm
      have := H _ hi _ _ hne (self_mem_bfsReach _ hi) ((bfsReach_spec _ _ _ _).2 ⟨hj, hc⟩) p hp
      rw [Bool.eq_false_iff] at this
      apply this
      rw [clash_iff]
      left
      simp only [nodeKey, if_true]
      exact ⟨getD_idxOf h1, getD_idxOf h2⟩
  · intro H t _ i j _ hi hj p hp
    rw [Bool.eq_false_iff, ne_eq, clash_iff]
    have hci := ((bfsReach_spec _ _ _ _).1 hi).2
    have hcj := ((bfsReach_spec _ _ _ _).1 hj).2
    have hij : Conn uniq.length (connMatrix uniq ML) i j := EqvGen.trans _ _ _ (EqvGen.symm _ _ hci) hcj
    have hl := linked_of_conn uniq ML hU hij
    simp only [nodeKey, if_true]
    rintro (⟨h1, h2⟩ | ⟨h1, h2⟩)
    · rw [h1, h2] at hl; exact H p hp hl
    · rw [h1, h2] at hl; exact H p hp (EqvGen.symm _ _ hl)

theorem mem_dedup (l : List Int) (x : Int) : x ∈ dedup l ↔ x ∈ l := by
  induction l with
  | nil => simp [dedup]
  | cons y ys ih =>
    simp only [dedup, List.mem_cons, List.mem_filter, ih, bne_iff_ne, ne_eq]
    constructor
    · rintro (h | ⟨h, _⟩)
      · exact Or.inl h
      · exact Or.inr h
    · rintro (h | h)
      · exact Or.inl h
      · by_cases hxy : x = y
        · exact Or.inl hxy
        · exact Or.inr ⟨h, hxy⟩

theorem dedup_nodup (l : List Int) : (dedup l).Nodup := by
  induction l with
  | nil => simp [dedup]
  | cons y ys ih =>
    simp only [dedup, List.nodup_cons, List.mem_filter, bne_self_eq_false, Bool.false_eq_true, and_false,
      not_false_eq_true, true_and]
    exact List.Nodup.sublist List.filter_sublist ih

theorem endpoints_cover (ML : List Pair) : ∀ q ∈ ML, q.1 ∈ endpoints ML ∧ q.2 ∈ endpoints ML := by
  intro q hq
  simp only [endpoints, List.mem_append, List.mem_map]
  exact ⟨Or.inl ⟨q, hq, rfl⟩, Or.inr ⟨q, hq, rfl⟩⟩

/-- with no must-link constraint, "connected" means "equal" -/
theorem eqvGen_linked_nil {a b : Int} (h : EqvGen (Linked []) a b) : a = b := by
  induction h with
  | rel x y hxy => simp [Linked] at hxy
  | refl x => rfl
  | symm x y _ ih => exact ih.symm
  | trans x y z _ _ ih1 ih2 => exact ih1.trans ih2

/-- **the intended acceptor is exact**, for every enumeration `uniq` of the must-link end points -/
theorem acceptsWith_fixed_iff (uniq : List Int) (ML CL : List Pair)
    (hU : ∀ q ∈ ML, q.1 ∈ uniq ∧ q.2 ∈ uniq) :
    acceptsWith true uniq ML CL = true ↔ SpecOK ML CL := by
  unfold acceptsWith checkLinking SpecOK
  by_cases hml : (ML.any fun p => p.1 == p.2) = true
  · simp only [hml, if_true]
    constructor
    · intro h; exact absurd h (by decide)
    · rintro ⟨h, _⟩
      obtain ⟨p, hp, he⟩ := List.any_eq_true.1 hml
      exact absurd (by simpa using he) (h p (List.mem_append_left _ hp))
  have hml' : ∀ p ∈ ML, p.1 ≠ p.2 := by
    intro p hp he
    exact hml (List.any_eq_true.2 ⟨p, hp, by simpa using he⟩)
  by_cases hcl : (CL.any fun p => p.1 == p.2) = true
  · simp only [hml, hcl, if_true, Bool.false_eq_true, if_false]
    constructor
    · intro h; exact absurd h (by decide)
    · rintro ⟨h, _⟩
      obtain ⟨p, hp, he⟩ := List.any_eq_true.1 hcl
      exact absurd (by simpa using he) (h p (List.mem_append_right _ hp))
  have hcl' : ∀ p ∈ CL, p.1 ≠ p.2 := by
    intro p hp he
    exact hcl (List.any_eq_true.2 ⟨p, hp, by simpa using he⟩)
  have hself : ∀ p ∈ ML ++ CL, p.1 ≠ p.2 := by
    intro p hp
    rcases List.mem_append.1 hp with h | h
    · exact hml' p h
    · exact hcl' p h
  simp only [hml, hcl, Bool.false_eq_true, if_false]
  by_cases hne : (decide (ML.length > 0) && decide (CL.length > 0)) = true
  · simp only [hne, if_true]
    have hs := structural_fixed_iff uniq ML CL hU hcl'
    by_cases hst : structural true uniq ML CL = true
    · simp only [hst, if_true]
      exact ⟨fun _ => ⟨hself, hs.1 hst⟩, fun _ => by decide⟩
    · simp only [hst, Bool.false_eq_true, if_false]
      constructor
      · intro h; exact absurd h (by decide)
      · rintro ⟨_, h⟩; exact absurd (hs.2 h) hst
  · simp only [hne, Bool.false_eq_true, if_false]
    refine ⟨fun _ => ⟨hself, ?_⟩, fun _ => by decide⟩
    simp only [Bool.and_eq_true, decide_eq_true_eq, not_and_or, Nat.not_lt, Nat.le_zero,
      List.length_eq_zero_iff] at hne
    rcases hne with rfl | rfl
    · intro p hp h; exact hcl' p hp (eqvGen_linked_nil h)
    · intro p hp; simp at hp

/-! ### gradient injection (`intercept_grads`) over the reals -/

section Inject
open GemVerif
variable {K : ℕ}

/-- what one constraint `p` adds (cannot-link) or removes (must-link) at entry `(r, k)` -/
noncomputable def contrib (last : List Int) (f : ℝ) (y : Rows ℝ K) (p : Pair) (r : ℕ) (k : Fin K) : ℝ :=
  if p.1 ∈ last ∧ p.2 ∈ last then
    (if r = last.idxOf p.1 then f * (y (last.idxOf p.1) k - y (last.idxOf p.2) k) else 0) +
    (if r = last.idxOf p.2 then f * (y (last.idxOf p.2) k - y (last.idxOf p.1) k) else 0)
  else 0

theorem injectPair_apply (sub : Bool) (last : List Int) (f : ℝ) (y g : Rows ℝ K) (p : Pair) (r : ℕ)
    (k : Fin K) :
    injectPair sub last f y g p r k =
      if sub then g r k - contrib last f y p r k else g r k + contrib last f y p r k := by
  unfold injectPair contrib bumpRow
  by_cases h1 : p.1 ∈ last <;> by_cases h2 : p.2 ∈ last
  · by_cases h3 : r = last.idxOf p.1 <;> by_cases h4 : r = last.idxOf p.2
    · have e : last.idxOf p.2 = last.idxOf p.1 := h4.symm.trans h3
      cases sub <;> simp [h1, h2, h3, e]
    · have e : ¬ last.idxOf p.1 = last.idxOf p.2 := fun e => h4 (h3.trans e)
      cases sub <;> simp [h1, h2, h3, e]
    · have e : ¬ last.idxOf p.2 = last.idxOf p.1 := fun e => h3 (h4.trans e)
      cases sub <;> simp [h1, h2, h4, e]
    · cases sub <;> simp [h1, h2, h3, h4]
  all_goals cases sub <;> simp [h1, h2]

theorem foldl_injectPair_apply (sub : Bool) (last : List Int) (f : ℝ) (y : Rows ℝ K) (ps : List Pair)
    (g : Rows ℝ K) (r : ℕ) (k : Fin K) :
    (ps.foldl (injectPair sub last f y) g) r k =
      if sub then g r k - (ps.map fun p => contrib last f y p r k).sum
      else g r k + (ps.map fun p => contrib last f y p r k).sum := by
  induction ps generalizing g with
  | nil => cases sub <;> simp
  | cons p ps ih =>
    rw [List.foldl_cons, ih, injectPair_apply]
    cases sub <;> simp <;> ring

/-- **closed form of the injected gradient**: entry `(r, k)` receives `+contrib` for every
    cannot-link pair and `-contrib` for every must-link pair -/
theorem inject_apply (last : List Int) (CL ML : List Pair) (f : ℝ) (y g : Rows ℝ K) (r : ℕ) (k : Fin K) :
    inject last CL ML f y g r k =
      g r k + (CL.map fun p => contrib last f y p r k).sum - (ML.map fun p => contrib last f y p r k).sum := by
  unfold inject
  simp only [foldl_injectPair_apply, if_true, Bool.false_eq_true, if_false]

theorem contrib_eq_zero {last : List Int} {f : ℝ} {y : Rows ℝ K} {p : Pair} {r : ℕ} {k : Fin K}
    (h : p.1 ∈ last → p.2 ∈ last → r ≠ last.idxOf p.1 ∧ r ≠ last.idxOf p.2) : contrib last f y p r k = 0 := by
  unfold contrib
  by_cases hm : p.1 ∈ last ∧ p.2 ∈ last
  · obtain ⟨h1, h2⟩ := h hm.1 hm.2
    simp [hm, h1, h2]
  · simp [hm]

/-- position bookkeeping under a permutation of the batch -/
theorem idxOf_perm {last last' : List Int} {σ : ℕ → ℕ} (hnd : last.Nodup) (hperm : last'.Perm last)
    (hσ : ∀ r, r < last'.length → last'[r]? = last[σ r]?) {a : Int} (ha : a ∈ last) :
    σ (last'.idxOf a) = last.idxOf a ∧
      ∀ r, r < last'.length → (r = last'.idxOf a ↔ σ r = last.idxOf a) := by
  have ha' : a ∈ last' := hperm.mem_iff.2 ha
  have hnd' : last'.Nodup := hperm.nodup_iff.2 hnd
  have key : ∀ r, r < last'.length → (last'[r]? = some a ↔ last[σ r]? = some a) := by
    intro r hr; rw [hσ r hr]
  have pos : ∀ (l : List Int), l.Nodup → ∀ i, l[i]? = some a → l.idxOf a = i := by
    intro l hl i hi
    obtain ⟨hlt, he⟩ := List.getElem?_eq_some_iff.1 hi
    rw [← he]; exact hl.idxOf_getElem i hlt
  have h0 : σ (last'.idxOf a) = last.idxOf a :=
    (pos last hnd _ ((key _ (List.idxOf_lt_length_of_mem ha')).1 (List.getElem?_idxOf ha'))).symm
  refine ⟨h0, fun r hr => ⟨fun h => h ▸ h0, fun h => ?_⟩⟩
  have : last[σ r]? = some a := by rw [h]; exact List.getElem?_idxOf ha
  exact (pos last' hnd' r ((key r hr).2 this)).symm

theorem contrib_perm {last last' : List Int} {σ : ℕ → ℕ} (hnd : last.Nodup) (hperm : last'.Perm last)
    (hσ : ∀ r, r < last'.length → last'[r]? = last[σ r]?) (f : ℝ) (y : Rows ℝ K) (p : Pair) (r : ℕ)
    (hr : r < last'.length) (k : Fin K) :
    contrib last' f (fun r => y (σ r)) p r k = contrib last f y p (σ r) k := by
  unfold contrib
  by_cases hm : p.1 ∈ last ∧ p.2 ∈ last
  · have hm' : p.1 ∈ last' ∧ p.2 ∈ last' := ⟨hperm.mem_iff.2 hm.1, hperm.mem_iff.2 hm.2⟩
    obtain ⟨e1, i1⟩ := idxOf_perm hnd hperm hσ hm.1
    obtain ⟨e2, i2⟩ := idxOf_perm hnd hperm hσ hm.2
    simp only [hm, hm', and_self, if_true, e1, e2, i1 r hr, i2 r hr]
  · have hm' : ¬ (p.1 ∈ last' ∧ p.2 ∈ last') := by
      rw [hperm.mem_iff, hperm.mem_iff]; exact hm
    simp [hm, hm']

/-! ### the injected term is the gradient of the pairwise penalty -/
open scoped BigOperators

/-- `y` with entry `(r, k)` replaced by `t` -/
def setEntry (y : Rows ℝ K) (r : ℕ) (k : Fin K) (t : ℝ) : Rows ℝ K :=
  fun r' k' => if r' = r ∧ k' = k then t else y r' k'

/-- `‖p_i - p_j‖²` for a pair with both ends in the batch, `0` for any other pair -/
noncomputable def pairSq (last : List Int) (y : Rows ℝ K) (p : Pair) : ℝ :=
  if p.1 ∈ last ∧ p.2 ∈ last then ∑ k, (y (last.idxOf p.1) k - y (last.idxOf p.2) k) ^ 2 else 0

/-- `½·factor·(Σ_CL ‖p_i-p_j‖² - Σ_ML ‖p_i-p_j‖²)` restricted to the pairs inside the batch -/
noncomputable def penalty (last : List Int) (CL ML : List Pair) (f : ℝ) (y : Rows ℝ K) : ℝ :=
  (CL.map fun p => 1 / 2 * f * pairSq last y p).sum - (ML.map fun p => 1 / 2 * f * pairSq last y p).sum

theorem setEntry_self (y : Rows ℝ K) (r : ℕ) (k : Fin K) : setEntry y r k (y r k) = y := by
  funext r' k'
  unfold setEntry
  split_ifs with h
  · obtain ⟨rfl, rfl⟩ := h; rfl
  · rfl

theorem hasDerivAt_entry (y : Rows ℝ K) (r : ℕ) (k : Fin K) (a : ℕ) (k' : Fin K) (t : ℝ) :
    HasDerivAt (fun t => setEntry y r k t a k') (if a = r ∧ k' = k then 1 else 0) t := by
  unfold setEntry
  split_ifs with h
  · exact hasDerivAt_id _
  · exact hasDerivAt_const _ _

theorem hasDerivAt_halfSq (f : ℝ) (y : Rows ℝ K) (a b r : ℕ) (k : Fin K) :
    HasDerivAt (fun t => 1 / 2 * f * ∑ k', (setEntry y r k t a k' - setEntry y r k t b k') ^ 2)
      ((if r = a then f * (y a k - y b k) else 0) + (if r = b then f * (y b k - y a k) else 0)) (y r k) := by
  have h1 : ∀ k' : Fin K, HasDerivAt (fun t => (setEntry y r k t a k' - setEntry y r k t b k') ^ 2)
      (2 * (y a k' - y b k') *
        ((if a = r ∧ k' = k then 1 else 0) - (if b = r ∧ k' = k then 1 else 0))) (y r k) := by
    intro k'
    have := ((hasDerivAt_entry y r k a k' (y r k)).fun_sub (hasDerivAt_entry y r k b k' (y r k))).fun_pow 2
    refine this.congr_deriv ?_
    simp only [setEntry_self, Nat.add_one_sub_one, pow_one, Nat.cast_ofNat]
  have h2 := (HasDerivAt.fun_sum (u := Finset.univ) (fun k' _ => h1 k')).const_mul (1 / 2 * f)
  refine h2.congr_deriv ?_
  by_cases ha : r = a <;> by_cases hb : r = b
  · subst ha; subst hb; simp
  · subst ha
    have hb' : ¬ b = r := fun e => hb e.symm
    simp [hb, hb', mul_sub]; ring
  · subst hb
    have ha' : ¬ a = r := fun e => ha e.symm
    simp [ha, ha', mul_sub]; ring
  · have ha' : ¬ a = r := fun e => ha e.symm
    have hb' : ¬ b = r := fun e => hb e.symm
    simp [ha, hb, ha', hb']

/-- one pair: `∂/∂y[r,k] (½·f·‖p_i-p_j‖²) = contrib` -/
theorem hasDerivAt_pairSq (last : List Int) (f : ℝ) (y : Rows ℝ K) (p : Pair) (r : ℕ) (k : Fin K) :
    HasDerivAt (fun t => 1 / 2 * f * pairSq last (setEntry y r k t) p) (contrib last f y p r k) (y r k) := by
  unfold pairSq contrib
  by_cases hm : p.1 ∈ last ∧ p.2 ∈ last
  · simp only [hm, and_self, if_true]
    exact hasDerivAt_halfSq f y _ _ r k
  · simp only [hm, if_false, mul_zero]
    exact hasDerivAt_const _ _

theorem hasDerivAt_list_sum {β : Type} (l : List β) (F : β → ℝ → ℝ) (F' : β → ℝ) (x : ℝ)
    (h : ∀ b ∈ l, HasDerivAt (F b) (F' b) x) :
    HasDerivAt (fun t => (l.map fun b => F b t).sum) (l.map F').sum x := by
  induction l with
  | nil => simpa using hasDerivAt_const x (0 : ℝ)
  | cons b bs ih =>
    simp only [List.map_cons, List.sum_cons]
    exact (h b List.mem_cons_self).add (ih fun c hc => h c (List.mem_cons_of_mem _ hc))

/-- **the injected term is the partial derivative of the pairwise penalty** with respect to the
    prediction entry `(r, k)` -/
theorem hasDerivAt_penalty (last : List Int) (CL ML : List Pair) (f : ℝ) (y g : Rows ℝ K) (r : ℕ) (k : Fin K) :
    HasDerivAt (fun t => penalty last CL ML f (setEntry y r k t))
      (inject last CL ML f y g r k - g r k) (y r k) := by
  unfold penalty
  have hC := hasDerivAt_list_sum CL (fun p t => 1 / 2 * f * pairSq last (setEntry y r k t) p)
    (fun p => contrib last f y p r k) (y r k) (fun p _ => hasDerivAt_pairSq last f y p r k)
  have hM := hasDerivAt_list_sum ML (fun p t => 1 / 2 * f * pairSq last (setEntry y r k t) p)
    (fun p => contrib last f y p r k) (y r k) (fun p _ => hasDerivAt_pairSq last f y p r k)
  refine (hC.sub hM).congr_deriv ?_
  rw [inject_apply]; ring

end Inject

end GemVerif.MlclLemmas
