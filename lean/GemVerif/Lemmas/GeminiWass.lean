/-
  Helper definitions and lemmas for C02, Wasserstein GEMINI: the returned gradient is the exact
  derivative of the returned score, given the sensitivity (envelope) property of the transport LP
  solved by POT's `ot.emd2`.
-/
import GemVerif.Lemmas.GeminiC02

namespace GemVerif
open scoped BigOperators Topology
open Model Spec Filter

variable {n K : ℕ}

set_option linter.unusedSimpArgs false

/-! ### the assumption on `ot.emd2` -/

/-- the open probability simplex: all weights strictly positive, total mass 1 -/
def OpenSimplex (a : Fin n → ℝ) : Prop := (∀ i, 0 < a i) ∧ ∑ i, a i = 1

/-- **Envelope / sensitivity property of the transport LP at one pair of marginals `(a₀, b₀)`.**
    Along every pair of curves of marginals through `(a₀, b₀)` that stay (for `t` near 0) in the open
    probability simplex and are entrywise differentiable at 0, the optimal value returned by
    `ot.emd2` is differentiable at 0 and its derivative is the pairing of the dual potentials
    returned at `(a₀, b₀)` with the velocities of the marginals.

    For the true LP value `W(a,b) = max {⟨u,a⟩ + ⟨v,b⟩ : u_i + v_j ≤ M_ij}` this holds exactly at the
    pairs where the optimal dual solution is unique up to the additive constant
    `(u + c, v - c)`, i.e. inside one optimal-transport basis region (`W` is convex and piecewise
    linear on the product of simplices); it fails on the boundaries between such regions, where the
    score itself is not differentiable.  Because only curves of total mass 1 are considered, the
    velocities sum to 0 and the property does not depend on which additive constants the solver
    puts in `u` and `v` (`EmdEnvelopeAt.shift`). -/
def EmdEnvelopeAt (emd2 : (Fin n → ℝ) → (Fin n → ℝ) → Emd ℝ n) (a₀ b₀ : Fin n → ℝ) : Prop :=
  ∀ (a b : ℝ → Fin n → ℝ) (a' b' : Fin n → ℝ), a 0 = a₀ → b 0 = b₀ →
    (∀ᶠ t in 𝓝 (0 : ℝ), OpenSimplex (a t) ∧ OpenSimplex (b t)) →
    (∀ i, HasDerivAt (fun t => a t i) (a' i) 0) → (∀ i, HasDerivAt (fun t => b t i) (b' i) 0) →
    HasDerivAt (fun t => (emd2 (a t) (b t)).value)
      (∑ i, (emd2 a₀ b₀).u i * a' i + ∑ i, (emd2 a₀ b₀).v i * b' i) 0

/-- The envelope property at every pair of marginals of the open simplex (only smooth surrogates of
    the transport cost satisfy this global form; the LP itself satisfies the pointwise form
    `EmdEnvelopeAt` at generic pairs). -/
def EmdEnvelope (emd2 : (Fin n → ℝ) → (Fin n → ℝ) → Emd ℝ n) : Prop :=
  ∀ a₀ b₀, OpenSimplex a₀ → OpenSimplex b₀ → EmdEnvelopeAt emd2 a₀ b₀

/-- velocities of a curve that stays on `Σ = 1` sum to zero -/
theorem sum_deriv_eq_zero {a : ℝ → Fin n → ℝ} {a' : Fin n → ℝ}
    (hs : ∀ᶠ t in 𝓝 (0 : ℝ), ∑ i, a t i = 1) (ha : ∀ i, HasDerivAt (fun t => a t i) (a' i) 0) :
    ∑ i, a' i = 0 := by
  have h1 : HasDerivAt (fun t => ∑ i, a t i) (∑ i, a' i) 0 := HasDerivAt.fun_sum fun i _ => ha i
  have h2 : HasDerivAt (fun t => ∑ i, a t i) 0 0 :=
    (hasDerivAt_const (0 : ℝ) (1 : ℝ)).congr_of_eventuallyEq hs
  exact h1.unique h2

/-- a solver that returns the same values but shifts the potentials by arbitrary constants
    (which may depend on the marginals) -/
def shiftEmd (emd2 : (Fin n → ℝ) → (Fin n → ℝ) → Emd ℝ n) (c d : (Fin n → ℝ) → (Fin n → ℝ) → ℝ) :
    (Fin n → ℝ) → (Fin n → ℝ) → Emd ℝ n :=
  fun a b => ⟨(emd2 a b).value, fun i => (emd2 a b).u i + c a b, fun i => (emd2 a b).v i + d a b⟩

theorem EmdEnvelopeAt.shift {emd2 : (Fin n → ℝ) → (Fin n → ℝ) → Emd ℝ n} {a₀ b₀ : Fin n → ℝ}
    (h : EmdEnvelopeAt emd2 a₀ b₀) (c d : (Fin n → ℝ) → (Fin n → ℝ) → ℝ) :
    EmdEnvelopeAt (shiftEmd emd2 c d) a₀ b₀ := by
  intro a b a' b' ha0 hb0 hS ha hb
  have hsa := sum_deriv_eq_zero (hS.mono fun t ht => ht.1.2) ha
  have hsb := sum_deriv_eq_zero (hS.mono fun t ht => ht.2.2) hb
  refine (h a b a' b' ha0 hb0 hS ha hb).congr_deriv ?_
  simp only [shiftEmd, add_mul, Finset.sum_add_distrib, ← Finset.mul_sum, hsa, hsb, mul_zero, add_zero]

/-! ### the importance weights `wy[k]` -/

/-- `wy[k][i] = P[i,k] / (π_k N)` -/
noncomputable def wyR (P : Fin n → Fin K → ℝ) (k : Fin K) (i : Fin n) : ℝ := P i k / (Spec.pi P k * n)

theorem wassWeights_interior {ε : ℝ} {P : Fin n → Fin K → ℝ} (hI : Interior ε P) :
    wassWeights ε P = wyR P := by
  funext k i
  simp only [wassWeights, clipP_of_interior hI, tab_apply, mean0_eq_pi, RealLike.nat_real, wyR]

theorem sum_col_eq (hn : 0 < n) (P : Fin n → Fin K → ℝ) (k : Fin K) :
    ∑ i, P i k = n * Spec.pi P k := by
  have : (n : ℝ) ≠ 0 := by exact_mod_cast hn.ne'
  unfold Spec.pi; field_simp

theorem wyR_openSimplex (hn : 0 < n) {ε : ℝ} (hε : 0 < ε) {P : Fin n → Fin K → ℝ} (hI : Interior ε P)
    (k : Fin K) : OpenSimplex (wyR P k) := by
  have hπ := pi_pos hε hn hI k
  have hn' : (0 : ℝ) < n := by exact_mod_cast hn
  refine ⟨fun i => div_pos (P_pos hε hI i k) (mul_pos hπ hn'), ?_⟩
  unfold wyR
  rw [← Finset.sum_div, sum_col_eq hn]
  field_simp

theorem unif_openSimplex (hn : 0 < n) : OpenSimplex (fun _ : Fin n => 1 / (n : ℝ)) := by
  have hn' : (0 : ℝ) < n := by exact_mod_cast hn
  refine ⟨fun _ => by positivity, ?_⟩
  simp only [Finset.sum_const, Finset.card_univ, Fintype.card_fin, nsmul_eq_mul]
  field_simp

/-- velocity of `wy[k][i]` along the line `P + t V` -/
noncomputable def wyD (P V : Fin n → Fin K → ℝ) (k : Fin K) (i : Fin n) : ℝ :=
  (V i k * (Spec.pi P k * n) - P i k * (Spec.pi V k * n)) / (Spec.pi P k * n) ^ 2

theorem hasDerivAt_wyR_line (hn : 0 < n) (P V : Fin n → Fin K → ℝ) (k : Fin K) (hπ : Spec.pi P k ≠ 0)
    (i : Fin n) : HasDerivAt (fun t : ℝ => wyR (line P V t) k i) (wyD P V k i) 0 := by
  have hn' : (n : ℝ) ≠ 0 := by exact_mod_cast hn.ne'
  unfold wyR wyD
  simpa using (hasDerivAt_line P V i k).fun_div ((hasDerivAt_pi_line P V k).mul_const (n : ℝ))
    (by simpa using mul_ne_zero hπ hn')

/-- along the line, the weights stay in the open simplex near `t = 0` -/
theorem wyR_line_eventually (hn : 0 < n) {ε : ℝ} (hε : 0 < ε) {P : Fin n → Fin K → ℝ} (hI : Interior ε P)
    (V : Fin n → Fin K → ℝ) :
    ∀ᶠ t in 𝓝 (0 : ℝ), ∀ k, OpenSimplex (wyR (line P V t) k) :=
  (interior_eventually hI V).mono fun _ ht k => wyR_openSimplex hn hε ht k

/-- **The chain rule through `wy[k] = P[:,k] / (π_k N)`, and the centring is harmless.**
    For any vector `p` of potentials and ANY constant `c` subtracted from it, `π_k · ⟨p, d wy_k⟩`
    is the pairing of `V[:,k]` with the code's expression
    `(p - c)/N - Σ_j (p_j - c) P_jk / (N² π_k)`. -/
theorem wass_chain (hn : 0 < n) (P V : Fin n → Fin K → ℝ) (k : Fin K) (hπ : Spec.pi P k ≠ 0)
    (p : Fin n → ℝ) (c : ℝ) :
    Spec.pi P k * ∑ i, p i * wyD P V k i
      = ∑ i, ((p i - c) / n - (∑ j, (p j - c) * P j k) / (n * n * Spec.pi P k)) * V i k := by
  have hn' : (n : ℝ) ≠ 0 := by exact_mod_cast hn.ne'
  have hP := sum_col_eq hn P k
  have hV := sum_col_eq hn V k
  have e1 : ∑ i, p i * wyD P V k i
      = (∑ i, p i * V i k) / (Spec.pi P k * n)
        - (∑ i, p i * P i k) * (Spec.pi V k * n) / (Spec.pi P k * n) ^ 2 := by
    unfold wyD
    rw [Finset.sum_div, Finset.sum_mul, Finset.sum_div, ← Finset.sum_sub_distrib]
    refine Finset.sum_congr rfl fun i _ => ?_
    field_simp
  have e2 : ∑ j, (p j - c) * P j k = (∑ i, p i * P i k) - c * (n * Spec.pi P k) := by
    simp only [sub_mul, Finset.sum_sub_distrib, ← Finset.mul_sum, hP]
  have e3 : ∑ i, ((p i - c) / n - (∑ j, (p j - c) * P j k) / (n * n * Spec.pi P k)) * V i k
      = ((∑ i, p i * V i k) - c * (n * Spec.pi V k)) / n
        - (∑ j, (p j - c) * P j k) / (n * n * Spec.pi P k) * (n * Spec.pi V k) := by
    simp only [sub_mul, Finset.sum_sub_distrib, ← Finset.mul_sum, hV, div_mul_eq_mul_div,
      ← Finset.sum_div]
  rw [e1, e3, e2]
  generalize (∑ i, p i * V i k) = S1
  generalize (∑ i, p i * P i k) = S2
  generalize Spec.pi P k = π at *
  generalize Spec.pi V k = w
  field_simp
  ring

/-! ### one-vs-all -/

theorem wassScore_ova_interior {ε : ℝ} {P : Fin n → Fin K → ℝ} (hI : Interior ε P)
    (emd2 : (Fin n → ℝ) → (Fin n → ℝ) → Emd ℝ n) :
    wassScore emd2 ε false P
      = ∑ k, Spec.pi P k * (emd2 (wyR P k) (fun _ => 1 / (n : ℝ))).value := by
  simp only [wassScore, wassScoreT, wassWeights_interior hI, clipP_of_interior hI, tab_apply, mean0_eq_pi,
    sumFin_eq_sum, RealLike.nat_real, Bool.false_eq_true, if_false]

theorem wassGrad_ova_interior {ε : ℝ} {P : Fin n → Fin K → ℝ} (hI : Interior ε P)
    (emd2 : (Fin n → ℝ) → (Fin n → ℝ) → Emd ℝ n) (i : Fin n) (k : Fin K) :
    wassGrad emd2 ε false P i k
      = ((emd2 (wyR P k) (fun _ => 1 / (n : ℝ))).u i - (∑ j, (emd2 (wyR P k) (fun _ => 1 / (n : ℝ))).u j) / n) / n
        + (emd2 (wyR P k) (fun _ => 1 / (n : ℝ))).value / n
        - (∑ j, P j k * ((emd2 (wyR P k) (fun _ => 1 / (n : ℝ))).u j
            - (∑ l, (emd2 (wyR P k) (fun _ => 1 / (n : ℝ))).u l) / n)) / (n * n * Spec.pi P k) := by
  simp only [wassGrad, wassGradT, wassWeights_interior hI, clipP_of_interior hI, tab_apply, mean0_eq_pi,
    sumFin_eq_sum, meanV_eq, RealLike.nat_real, Bool.false_eq_true, if_false, clipMask_of_interior hI,
    mul_one]

/-! ### one-vs-one -/

/-- `wasserstein_distances[a,b]`: filled from the pairs `k1 < k2`, mirrored, zero diagonal -/
noncomputable def wPair (emd2 : (Fin n → ℝ) → (Fin n → ℝ) → Emd ℝ n) (wy : Fin K → Fin n → ℝ)
    (a b : Fin K) : ℝ :=
  if a.val < b.val then (emd2 (wy a) (wy b)).value
  else if b.val < a.val then (emd2 (wy b) (wy a)).value else 0

theorem wPair_symm (emd2 : (Fin n → ℝ) → (Fin n → ℝ) → Emd ℝ n) (wy : Fin K → Fin n → ℝ) (a b : Fin K) :
    wPair emd2 wy a b = wPair emd2 wy b a := by
  unfold wPair
  rcases lt_trichotomy a.val b.val with h | h | h
  · simp [h, not_lt.mpr h.le]
  · simp [h]
  · simp [h, not_lt.mpr h.le]

/-- the (uncentred) potential that column `k` receives from the pair `{k, o}`: `log["u"]` of the
    call `(k, o)` if `k < o`, `log["v"]` of the call `(o, k)` otherwise -/
def potR (emd2 : (Fin n → ℝ) → (Fin n → ℝ) → Emd ℝ n) (wy : Fin K → Fin n → ℝ) (k o : Fin K) : Fin n → ℝ :=
  if k.val < o.val then (emd2 (wy k) (wy o)).u else (emd2 (wy o) (wy k)).v

theorem wassScore_ovo_interior {ε : ℝ} {P : Fin n → Fin K → ℝ} (hI : Interior ε P)
    (emd2 : (Fin n → ℝ) → (Fin n → ℝ) → Emd ℝ n) :
    wassScore emd2 ε true P = ∑ a, Spec.pi P a * ∑ b, wPair emd2 (wyR P) a b * Spec.pi P b := by
  simp only [wassScore, wassScoreT, wassWeights_interior hI, clipP_of_interior hI, tab_apply, mean0_eq_pi,
    sumFin_eq_sum, if_true, wPair]

theorem wassGrad_ovo_interior {ε : ℝ} {P : Fin n → Fin K → ℝ} (hI : Interior ε P)
    (emd2 : (Fin n → ℝ) → (Fin n → ℝ) → Emd ℝ n) (i : Fin n) (k : Fin K) :
    wassGrad emd2 ε true P i k
      = (∑ o, if o = k then 0 else 2 * Spec.pi P o *
          ((potR emd2 (wyR P) k o i - (∑ l, potR emd2 (wyR P) k o l) / n) / n
            - (∑ j, (potR emd2 (wyR P) k o j - (∑ l, potR emd2 (wyR P) k o l) / n) * P j k)
                / (n * n * Spec.pi P k)))
        + 2 * (∑ b, wPair emd2 (wyR P) k b * Spec.pi P b) / n := by
  have hpot : ∀ (o : Fin K) (j : Fin n),
      (if k.val < o.val then fun i => (emd2 (wyR P k) (wyR P o)).u i - (∑ l, (emd2 (wyR P k) (wyR P o)).u l) / n
        else fun i => (emd2 (wyR P o) (wyR P k)).v i - (∑ l, (emd2 (wyR P o) (wyR P k)).v l) / n) j
      = potR emd2 (wyR P) k o j - (∑ l, potR emd2 (wyR P) k o l) / n := fun o j => by
    unfold potR; split_ifs <;> rfl
  simp only [wassGrad, wassGradT, wassWeights_interior hI, clipP_of_interior hI, tab_apply, mean0_eq_pi,
    sumFin_eq_sum, meanV_eq, RealLike.nat_real, if_true, clipMask_of_interior hI, mul_one, hpot,
    Nat.cast_ofNat, ← Finset.sum_div, wPair]

/-- derivative of one entry of the mirrored distance matrix along the line `P + t V` -/
theorem hasDerivAt_wPair (hn : 0 < n) {ε : ℝ} (hε : 0 < ε) {P : Fin n → Fin K → ℝ} (hI : Interior ε P)
    (emd2 : (Fin n → ℝ) → (Fin n → ℝ) → Emd ℝ n)
    (hE : ∀ a b : Fin K, a.val < b.val → EmdEnvelopeAt emd2 (wyR P a) (wyR P b))
    (V : Fin n → Fin K → ℝ) (a b : Fin K) :
    HasDerivAt (fun t : ℝ => wPair emd2 (wyR (line P V t)) a b)
      (if a = b then 0 else
        ∑ i, potR emd2 (wyR P) a b i * wyD P V a i + ∑ i, potR emd2 (wyR P) b a i * wyD P V b i) 0 := by
  have hπ : ∀ k, Spec.pi P k ≠ 0 := fun k => (pi_pos hε hn hI k).ne'
  have hS : ∀ c d : Fin K, ∀ᶠ t in 𝓝 (0 : ℝ), OpenSimplex (wyR (line P V t) c)
      ∧ OpenSimplex (wyR (line P V t) d) := fun c d =>
    (wyR_line_eventually hn hε hI V).mono fun t ht => ⟨ht c, ht d⟩
  have key : ∀ c d : Fin K, c.val < d.val →
      HasDerivAt (fun t : ℝ => (emd2 (wyR (line P V t) c) (wyR (line P V t) d)).value)
        (∑ i, (emd2 (wyR P c) (wyR P d)).u i * wyD P V c i
          + ∑ i, (emd2 (wyR P c) (wyR P d)).v i * wyD P V d i) 0 := fun c d hcd =>
    hE c d hcd (fun t => wyR (line P V t) c) (fun t => wyR (line P V t) d) (wyD P V c) (wyD P V d)
      (by simp) (by simp) (hS c d) (hasDerivAt_wyR_line hn P V c (hπ c)) (hasDerivAt_wyR_line hn P V d (hπ d))
  rcases lt_trichotomy a.val b.val with h | h | h
  · have hab : a ≠ b := fun e => by rw [e] at h; exact lt_irrefl _ h
    simp only [wPair, potR, h, if_true, if_neg hab, not_lt.mpr h.le, if_false]
    exact key a b h
  · have hab : a = b := Fin.ext h
    subst hab
    simp only [wPair, lt_irrefl, if_false, if_true]
    exact hasDerivAt_const _ _
  · have hab : a ≠ b := fun e => by rw [e] at h; exact lt_irrefl _ h
    simp only [wPair, potR, h, if_true, if_neg hab, not_lt.mpr h.le, if_false]
    rw [add_comm]
    exact key b a h

/-- bookkeeping of the one-vs-one derivative: `d(πᵀ W π)` with `W` symmetric with zero diagonal and
    `dW[a,b] = X[a,b] + X[b,a]` regroups column by column -/
theorem wass_ovo_algebra (π ω : Fin K → ℝ) (w X : Fin K → Fin K → ℝ) (hw : ∀ a b, w a b = w b a) :
    ∑ a, (ω a * ∑ b, w a b * π b
        + π a * ∑ b, ((if a = b then 0 else X a b + X b a) * π b + w a b * ω b))
      = ∑ k, ((∑ o, if o = k then 0 else 2 * π o * (π k * X k o)) + 2 * (∑ b, w k b * π b) * ω k) := by
  obtain ⟨f, hf⟩ : ∃ f : Fin K → Fin K → ℝ, ∀ a b, f a b = if a = b then 0 else π a * π b * X a b :=
    ⟨_, fun _ _ => rfl⟩
  have h3 : ∀ a b, π a * ((if a = b then 0 else X a b + X b a) * π b) = f a b + f b a := fun a b => by
    rw [hf, hf]
    by_cases h : a = b
    · subst h; simp
    · simp only [if_neg h, if_neg (Ne.symm h)]; ring
  have hsw : ∑ a, ∑ b, f b a = ∑ a, ∑ b, f a b := Finset.sum_comm
  have h2 : ∑ a, ∑ b, π a * (w a b * ω b) = ∑ k, (∑ b, w k b * π b) * ω k := by
    rw [Finset.sum_comm]
    refine Finset.sum_congr rfl fun k _ => ?_
    rw [Finset.sum_mul]
    exact Finset.sum_congr rfl fun a _ => by rw [hw a k]; ring
  have hR : ∀ k, (∑ o, if o = k then 0 else 2 * π o * (π k * X k o)) = 2 * ∑ o, f k o := fun k => by
    rw [Finset.mul_sum]
    refine Finset.sum_congr rfl fun o _ => ?_
    rw [hf]
    by_cases h : o = k
    · subst h; simp
    · rw [if_neg h, if_neg (Ne.symm h)]; ring
  simp only [mul_add, Finset.mul_sum, Finset.sum_add_distrib, h3, hR]
  simp only [← Finset.mul_sum]
  rw [hsw]
  have h2' : ∑ a, π a * ∑ b, w a b * ω b = ∑ k, (∑ b, w k b * π b) * ω k := by
    rw [← h2]; simp only [Finset.mul_sum]
  rw [h2']
  have h1 : ∑ a, ω a * ∑ b, w a b * π b = ∑ k, (∑ b, w k b * π b) * ω k :=
    Finset.sum_congr rfl fun k _ => by ring
  rw [h1]
  have h4 : ∑ k, 2 * (∑ b, w k b * π b) * ω k = 2 * ∑ k, (∑ b, w k b * π b) * ω k := by
    rw [Finset.mul_sum]; exact Finset.sum_congr rfl fun k _ => by ring
  rw [h4]
  ring

/-! ### the centring of the potentials is harmless -/

theorem meanV_shift (u : Fin n → ℝ) (c : ℝ) (i : Fin n) :
    (u i + c) - meanV (fun j => u j + c) = u i - meanV u := by
  have hn : (n : ℝ) ≠ 0 := by exact_mod_cast (Fin.pos i).ne'
  simp only [meanV_eq, Finset.sum_add_distrib, Finset.sum_const, Finset.card_univ, Fintype.card_fin,
    nsmul_eq_mul]
  field_simp
  ring

/-- the gradient code only ever uses `u - mean u` and `v - mean v`: it cannot see the additive
    constants of the potentials (table form) -/
theorem wassGradT_shift (pairE : Fin K → Fin K → Emd ℝ n) (unifE : Fin K → Emd ℝ n)
    (c d : Fin K → Fin K → ℝ) (c' d' : Fin K → ℝ) (ε : ℝ) (ovo : Bool) (P : Fin n → Fin K → ℝ) :
    wassGradT (fun a b => ⟨(pairE a b).value, fun i => (pairE a b).u i + c a b, fun i => (pairE a b).v i + d a b⟩)
        (fun k => ⟨(unifE k).value, fun i => (unifE k).u i + c' k, fun i => (unifE k).v i + d' k⟩) ε ovo P
      = wassGradT pairE unifE ε ovo P := by
  funext i k
  cases ovo
  · simp only [wassGradT, Bool.false_eq_true, if_false, meanV_shift]
  · simp only [wassGradT, if_true, meanV_shift]

/-! ### witnesses: the envelope hypothesis is satisfiable -/

/-- a "solver" whose value is linear in the marginals, `⟨c,a⟩ + ⟨d,b⟩`, with potentials `c`, `d` -/
def linEmd (c d : Fin n → ℝ) : (Fin n → ℝ) → (Fin n → ℝ) → Emd ℝ n :=
  fun a b => ⟨∑ i, c i * a i + ∑ i, d i * b i, c, d⟩

theorem linEmd_envelope (c d : Fin n → ℝ) : EmdEnvelope (linEmd c d) := by
  intro a₀ b₀ _ _ a b a' b' _ _ _ ha hb
  exact (HasDerivAt.fun_sum fun i _ => (ha i).const_mul (c i)).fun_add
    (HasDerivAt.fun_sum fun i _ => (hb i).const_mul (d i))

/-- a non-linear one: the squared Euclidean distance between the marginals,
    `Σ (a_i - b_i)²`, with potentials `u = 2(a - b)`, `v = -2(a - b)` -/
def sqEmd : (Fin n → ℝ) → (Fin n → ℝ) → Emd ℝ n :=
  fun a b => ⟨∑ i, (a i - b i) ^ 2, fun i => 2 * (a i - b i), fun i => -(2 * (a i - b i))⟩

theorem sqEmd_envelope : EmdEnvelope (sqEmd (n := n)) := by
  intro a₀ b₀ _ _ a b a' b' ha0 hb0 _ ha hb
  subst ha0 hb0
  refine (HasDerivAt.fun_sum (u := Finset.univ) fun i _ => ((ha i).fun_sub (hb i)).fun_pow 2).congr_deriv ?_
  simp only [sqEmd, ← Finset.sum_add_distrib]
  refine Finset.sum_congr rfl fun i _ => ?_
  simp only [Nat.cast_ofNat, Nat.add_one_sub_one, pow_one]
  ring

/-- the genuine transport cost on two points at distance 1: on the simplex `W(a,b) = |a₀ - b₀|`,
    with optimal potentials `u = (s, 0)`, `v = (-s, 0)`, `s = sign (a₀ - b₀)` -/
noncomputable def absEmd : (Fin 2 → ℝ) → (Fin 2 → ℝ) → Emd ℝ 2 :=
  fun a b => ⟨|a 0 - b 0|, fun i => if i = 0 then RealLike.sign (a 0 - b 0) else 0,
    fun i => if i = 0 then -RealLike.sign (a 0 - b 0) else 0⟩

/-- it has the envelope property exactly away from its kink -/
theorem absEmd_envelopeAt {a₀ b₀ : Fin 2 → ℝ} (h : a₀ 0 ≠ b₀ 0) : EmdEnvelopeAt absEmd a₀ b₀ := by
  intro a b a' b' ha0 hb0 _ ha hb
  subst ha0 hb0
  refine (hasDerivAt_abs_sign ((ha 0).fun_sub (hb 0)) (sub_ne_zero.mpr h)).congr_deriv ?_
  simp [absEmd, Fin.sum_univ_two]
  ring

theorem exP_wass_ova : ∀ k, wyR exP k 0 ≠ 1 / ((2 : ℕ) : ℝ) := by
  intro k; fin_cases k <;> simp [wyR, exP, Spec.pi, Fin.sum_univ_two] <;> norm_num

theorem exP_wass_ovo : ∀ a b : Fin 2, a.val < b.val → wyR exP a 0 ≠ wyR exP b 0 := by
  intro a b h
  fin_cases a <;> fin_cases b <;>
    first
    | (exfalso; simp at h; done)
    | (simp [wyR, exP, Spec.pi, Fin.sum_univ_two]; norm_num)

end GemVerif
