/-
  C05 — list lemmas for the model of `mlp_prox_grad` over ℝ: the insertion sort is the
  non-increasing rearrangement, cumulative sums are prefix sums, the breakpoint count of a
  downward-closed predicate is its first failure.
-/
import GemVerif.Lemmas.ProxModel
import Mathlib.Data.List.Sort
import Mathlib.Data.List.GetD
import Mathlib.Algebra.BigOperators.Intervals
import Mathlib.Algebra.Order.BigOperators.Group.List

namespace GemVerif
open scoped BigOperators
open Model.Prox

/-! ### sorting -/

theorem insertDesc_eq (x : ℝ) (l : List ℝ) : insertDesc x l = l.orderedInsert (· ≥ ·) x := by
  induction l with
  | nil => rfl
  | cons y ys ih =>
    unfold insertDesc
    rw [List.orderedInsert]
    simp only [RealLike.le_real, decide_eq_true_eq, ge_iff_le]
    by_cases hyx : y ≤ x
    · rw [if_pos hyx, if_pos hyx]
    · rw [if_neg hyx, if_neg hyx, ih]

/-- The model's sort is Mathlib's insertion sort for `≥`. -/
theorem sortDesc_eq (l : List ℝ) : sortDesc l = l.insertionSort (· ≥ ·) := by
  induction l with
  | nil => rfl
  | cons x xs ih =>
    show insertDesc x (sortDesc xs) = _
    rw [insertDesc_eq, ih]; rfl

theorem sortDesc_perm (l : List ℝ) : (sortDesc l).Perm l := by
  rw [sortDesc_eq]; exact List.perm_insertionSort _ l

theorem sortDesc_pairwise (l : List ℝ) : (sortDesc l).Pairwise (· ≥ ·) := by
  rw [sortDesc_eq]; exact List.pairwise_insertionSort _ l

theorem sortDesc_length (l : List ℝ) : (sortDesc l).length = l.length := (sortDesc_perm l).length_eq

/-- values of a list extended by zeros -/
noncomputable def seqOf (L : List ℝ) (i : ℕ) : ℝ := L.getD i 0

theorem seqOf_of_lt {L : List ℝ} {i : ℕ} (hi : i < L.length) : seqOf L i = L[i] := by
  unfold seqOf; rw [List.getD_eq_getElem _ _ hi]

theorem seqOf_of_ge {L : List ℝ} {i : ℕ} (hi : L.length ≤ i) : seqOf L i = 0 := by
  unfold seqOf; exact List.getD_eq_default _ _ hi

theorem seqOf_nonneg {L : List ℝ} (hnn : ∀ x ∈ L, 0 ≤ x) (i : ℕ) : 0 ≤ seqOf L i := by
  rcases lt_or_ge i L.length with hi | hi
  · rw [seqOf_of_lt hi]; exact hnn _ (List.getElem_mem hi)
  · rw [seqOf_of_ge hi]

theorem seqOf_antitone {L : List ℝ} (hs : L.Pairwise (· ≥ ·)) (hnn : ∀ x ∈ L, 0 ≤ x) :
    Antitone (seqOf L) := by
  intro i j hij
  rcases lt_or_ge j L.length with hj | hj
  · have hi : i < L.length := lt_of_le_of_lt hij hj
    rw [seqOf_of_lt hi, seqOf_of_lt hj]
    rcases hij.lt_or_eq with h | h
    · exact List.pairwise_iff_getElem.mp hs i j hi hj h
    · subst h; exact le_refl _
  · rw [seqOf_of_ge hj]; exact seqOf_nonneg hnn i

theorem sum_map_eq_range (L : List ℝ) (f : ℝ → ℝ) :
    (L.map f).sum = ∑ i ∈ Finset.range L.length, f (seqOf L i) := by
  induction L with
  | nil => simp
  | cons x xs ih =>
    rw [List.map_cons, List.sum_cons, List.length_cons, Finset.sum_range_succ', ih]
    simp [seqOf, add_comm]

/-! ### cumulative sums -/

theorem cumsumFrom_getD (L : List ℝ) : ∀ (acc : ℝ) (i : ℕ), i < L.length →
    (cumsumFrom acc L).getD i 0 = acc + ∑ t ∈ Finset.range (i + 1), seqOf L t := by
  induction L with
  | nil => intro acc i hi; exact absurd hi (by simp)
  | cons x xs ih =>
    intro acc i hi
    cases i with
    | zero => simp [cumsumFrom, seqOf]
    | succ i =>
      have hi' : i < xs.length := by simpa using hi
      rw [cumsumFrom, List.getD_cons_succ, ih _ _ hi', Finset.sum_range_succ' _ (i + 1)]
      simp only [seqOf, List.getD_cons_succ, List.getD_cons_zero]
      ring

/-- `np.concatenate([zeros, np.cumsum(L)])[s]` is the sum of the first `s` entries -/
theorem prefix_getD (L : List ℝ) (s : ℕ) (hs : s ≤ L.length) :
    (0 :: cumsum L).getD s 0 = ∑ t ∈ Finset.range s, seqOf L t := by
  cases s with
  | zero => simp
  | succ s =>
    rw [List.getD_cons_succ]
    cases L with
    | nil => exact absurd hs (by simp)
    | cons x xs =>
      cases s with
      | zero => simp [cumsum, seqOf]
      | succ s =>
        have hs' : s < xs.length := by simp at hs; omega
        rw [cumsum, List.getD_cons_succ, cumsumFrom_getD xs x s hs', Finset.sum_range_succ' _ (s + 1)]
        simp only [seqOf, List.getD_cons_succ, List.getD_cons_zero]
        ring

/-- `lower` of the model is the sorted list extended by zeros (its entries are absolute values) -/
theorem lowerS_eq {L : List ℝ} (hnn : ∀ x ∈ L, 0 ≤ x) (s : ℕ) : lowerS L s = seqOf L s := by
  unfold lowerS
  rcases lt_trichotomy s L.length with hs | hs | hs
  · rw [List.getD_append _ _ _ _ (by simpa using hs), seqOf_of_lt hs,
      List.getD_eq_getElem _ _ (by simpa using hs), List.getElem_map]
    exact softThreshold_zero_of_nonneg (hnn _ (List.getElem_mem hs))
  · rw [List.getD_append_right _ _ _ _ (by simp [hs]), seqOf_of_ge hs.ge]
    simp [hs]
  · rw [seqOf_of_ge hs.le, List.getD_eq_default]
    simp; omega

/-! ### counting a downward-closed predicate -/

theorem down_closed {p : ℕ → Bool} {n : ℕ} (hdown : ∀ s, s + 1 < n + 1 → p (s + 1) = true → p s = true)
    (hn : p n = true) : ∀ s, s ≤ n → p s = true := by
  intro s hs
  induction n with
  | zero => have : s = 0 := by omega
            rw [this]; exact hn
  | succ m ih =>
    rcases hs.lt_or_eq with h | h
    · exact ih (fun t ht => hdown t (by omega)) (hdown m (by omega) hn) (by omega)
    · rw [h]; exact hn

/-- `np.sum(mask)` of a mask that is a prefix: the count is the first index where the mask fails -/
theorem prefix_count (p : ℕ → Bool) : ∀ n, (∀ s, s + 1 < n → p (s + 1) = true → p s = true) →
    (∀ s, s < ((List.range n).filter p).length → p s = true) ∧
    (((List.range n).filter p).length < n → p ((List.range n).filter p).length = false) ∧
    ((List.range n).filter p).length ≤ n := by
  intro n
  induction n with
  | zero => intro _; simp
  | succ n ih =>
    intro hdown
    obtain ⟨ih1, ih2, ih3⟩ := ih (fun s hs => hdown s (by omega))
    rw [List.range_succ, List.filter_append, List.length_append]
    cases hpn : p n with
    | true =>
      have hall := down_closed (n := n) (fun s hs => hdown s hs) hpn
      have hk : ((List.range n).filter p).length = n := by
        by_contra hne
        have hlt : ((List.range n).filter p).length < n := lt_of_le_of_ne ih3 hne
        have := ih2 hlt
        rw [hall _ hlt.le] at this
        exact absurd this (by simp)
      simp only [List.filter_cons, hpn, if_true, List.filter_nil, List.length_cons, List.length_nil, hk]
      refine ⟨fun s hs => hall s (by omega), fun h => absurd h (by omega), by omega⟩
    | false =>
      simp only [List.filter_cons, hpn, Bool.false_eq_true, if_false, List.filter_nil, List.length_nil, add_zero]
      refine ⟨ih1, fun h => ?_, by omega⟩
      rcases (Nat.lt_succ_iff.mp h).lt_or_eq with h' | h'
      · exact ih2 h'
      · rw [h']; exact hpn

end GemVerif
