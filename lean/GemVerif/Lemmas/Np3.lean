/-
  Reading rules of GemVerif/Np3.lean (shape, error flag and entries of every operation, all by unfolding), and the list
  facts that connect its primitives (`cumsumTo`, `sortAsc`, `countTo`, `lastIdx`) with the list functions of the hand
  model Model/Prox.lean (`cumsum`, `sortDesc`, the `filter … length` of `hierIdx`, `List.finIdxOf?`).
  Everything is generic in `[RealLike α]`; the sort needs the order laws `OrderLaws α` (which ℝ has: Props/C05Gen.lean).
-/
import GemVerif.Lemmas.Np2
import GemVerif.Np3
import GemVerif.Model.Prox
import Mathlib.Data.List.Sort
import Mathlib.Data.List.GetD

set_option linter.unusedSectionVars false

namespace GemVerif.Np
open GemVerif RealLike

theorem bidx_of_lt {n i : Nat} (h : i < n) : bidx n i = i := by
  unfold bidx; split
  · omega
  · rfl

namespace Arr
variable {α : Type} [RealLike α]

/-! ### construction -/

@[simp] theorem zeros_r (r c : Nat) : (zeros r c : Arr α).r = r := rfl
@[simp] theorem zeros_c (r c : Nat) : (zeros r c : Arr α).c = c := rfl
@[simp] theorem zeros_ok (r c : Nat) : (zeros r c : Arr α).ok = true := rfl
@[simp] theorem zeros_get (r c i j : Nat) : (zeros r c : Arr α).get i j = 0 := rfl

@[simp] theorem full_r (r c : Nat) (s : α) : (full r c s).r = r := rfl
@[simp] theorem full_c (r c : Nat) (s : α) : (full r c s).c = c := rfl
@[simp] theorem full_ok (r c : Nat) (s : α) : (full r c s).ok = true := rfl
@[simp] theorem full_get (r c : Nat) (s : α) (i j : Nat) : (full r c s).get i j = s := rfl

@[simp] theorem empty_r (junk : Nat → Nat → α) (r c : Nat) : (empty junk r c).r = r := rfl
@[simp] theorem empty_c (junk : Nat → Nat → α) (r c : Nat) : (empty junk r c).c = c := rfl
@[simp] theorem empty_ok (junk : Nat → Nat → α) (r c : Nat) : (empty junk r c).ok = true := rfl
@[simp] theorem empty_get (junk : Nat → Nat → α) (r c i j : Nat) : (empty junk r c).get i j = junk i j := rfl

@[simp] theorem arange_r (n : Nat) : (arange n : Arr α).r = 1 := rfl
@[simp] theorem arange_c (n : Nat) : (arange n : Arr α).c = n := rfl
@[simp] theorem arange_ok (n : Nat) : (arange n : Arr α).ok = true := rfl
@[simp] theorem arange_get (n i j : Nat) : (arange n : Arr α).get i j = nat j := rfl

/-! ### elementwise -/

@[simp] theorem geS_r (A : Arr α) (s : α) : (geS A s).r = A.r := rfl
@[simp] theorem geS_c (A : Arr α) (s : α) : (geS A s).c = A.c := rfl
@[simp] theorem geS_ok (A : Arr α) (s : α) : (geS A s).ok = A.ok := rfl
@[simp] theorem geS_get (A : Arr α) (s : α) (i j : Nat) : (geS A s).get i j = RealLike.le s (A.get i j) := rfl

@[simp] theorem gtA_r (A B : Arr α) : (gtA A B).r = bdim A.r B.r := rfl
@[simp] theorem gtA_c (A B : Arr α) : (gtA A B).c = bdim A.c B.c := rfl
@[simp] theorem gtA_ok (A B : Arr α) : (gtA A B).ok = (A.ok && B.ok && bok A.r B.r && bok A.c B.c) := rfl
@[simp] theorem gtA_get (A B : Arr α) (i j : Nat) :
    (gtA A B).get i j = RealLike.lt (B.get (bidx B.r i) (bidx B.c j)) (A.get (bidx A.r i) (bidx A.c j)) := rfl

@[simp] theorem whereSA_r (M : Arr Bool) (s : α) (A : Arr α) : (whereSA M s A).r = bdim M.r A.r := rfl
@[simp] theorem whereSA_c (M : Arr Bool) (s : α) (A : Arr α) : (whereSA M s A).c = bdim M.c A.c := rfl
@[simp] theorem whereSA_ok (M : Arr Bool) (s : α) (A : Arr α) :
    (whereSA M s A).ok = (M.ok && A.ok && bok M.r A.r && bok M.c A.c) := rfl
@[simp] theorem whereSA_get (M : Arr Bool) (s : α) (A : Arr α) (i j : Nat) :
    (whereSA M s A).get i j = if M.get (bidx M.r i) (bidx M.c j) then s else A.get (bidx A.r i) (bidx A.c j) := rfl

@[simp] theorem whereSS_r (M : Arr Bool) (s t : α) : (whereSS M s t).r = M.r := rfl
@[simp] theorem whereSS_c (M : Arr Bool) (s t : α) : (whereSS M s t).c = M.c := rfl
@[simp] theorem whereSS_ok (M : Arr Bool) (s t : α) : (whereSS M s t).ok = M.ok := rfl
@[simp] theorem whereSS_get (M : Arr Bool) (s t : α) (i j : Nat) :
    (whereSS M s t).get i j = if M.get i j then s else t := rfl

/-! ### along axis 1 -/

@[simp] theorem normAxis1_r (A : Arr α) : (normAxis1 A).r = A.r := rfl
@[simp] theorem normAxis1_c (A : Arr α) : (normAxis1 A).c = 1 := rfl
@[simp] theorem normAxis1_ok (A : Arr α) : (normAxis1 A).ok = A.ok := rfl
@[simp] theorem normAxis1_get (A : Arr α) (i j : Nat) :
    (normAxis1 A).get i j = RealLike.sqrt (sumLTo A.c fun l => A.get i l * A.get i l) := rfl

@[simp] theorem sortAxis1_r (A : Arr α) : (sortAxis1 A).r = A.r := rfl
@[simp] theorem sortAxis1_c (A : Arr α) : (sortAxis1 A).c = A.c := rfl
@[simp] theorem sortAxis1_ok (A : Arr α) : (sortAxis1 A).ok = A.ok := rfl
@[simp] theorem sortAxis1_get (A : Arr α) (i j : Nat) :
    (sortAxis1 A).get i j = (sortAsc (List.ofFn fun l : Fin A.c => A.get i l.val)).getD j 0 := rfl

@[simp] theorem flipCols_r (A : Arr α) : (flipCols A).r = A.r := rfl
@[simp] theorem flipCols_c (A : Arr α) : (flipCols A).c = A.c := rfl
@[simp] theorem flipCols_ok (A : Arr α) : (flipCols A).ok = A.ok := rfl
@[simp] theorem flipCols_get (A : Arr α) (i j : Nat) : (flipCols A).get i j = A.get i (A.c - 1 - j) := rfl

@[simp] theorem cumsumAxis1_r (A : Arr α) : (cumsumAxis1 A).r = A.r := rfl
@[simp] theorem cumsumAxis1_c (A : Arr α) : (cumsumAxis1 A).c = A.c := rfl
@[simp] theorem cumsumAxis1_ok (A : Arr α) : (cumsumAxis1 A).ok = A.ok := rfl
@[simp] theorem cumsumAxis1_get (A : Arr α) (i j : Nat) :
    (cumsumAxis1 A).get i j = cumsumTo (fun l => A.get i l) j := rfl

@[simp] theorem concat1_r (A B : Arr α) : (concat1 A B).r = A.r := rfl
@[simp] theorem concat1_c (A B : Arr α) : (concat1 A B).c = A.c + B.c := rfl
@[simp] theorem concat1_ok (A B : Arr α) : (concat1 A B).ok = (A.ok && B.ok && A.r == B.r) := rfl
@[simp] theorem concat1_get (A B : Arr α) (i j : Nat) :
    (concat1 A B).get i j = if j < A.c then A.get i j else B.get i (j - A.c) := rfl

@[simp] theorem countAxis1_r (M : Arr Bool) : (countAxis1 M).r = M.r := rfl
@[simp] theorem countAxis1_c (M : Arr Bool) : (countAxis1 M).c = 1 := rfl
@[simp] theorem countAxis1_ok (M : Arr Bool) : (countAxis1 M).ok = M.ok := rfl
@[simp] theorem countAxis1_get (M : Arr Bool) (i j : Nat) :
    (countAxis1 M).get i j = countTo M.c fun l => M.get i l := rfl

@[simp] theorem takeAlong1_r (A : Arr α) (I : Arr Nat) : (takeAlong1 A I).r = bdim A.r I.r := rfl
@[simp] theorem takeAlong1_c (A : Arr α) (I : Arr Nat) : (takeAlong1 A I).c = I.c := rfl
theorem takeAlong1_ok (A : Arr α) (I : Arr Nat) :
    (takeAlong1 A I).ok = (A.ok && I.ok && bok A.r I.r &&
      (List.range (bdim A.r I.r)).all fun i => (List.range I.c).all fun j => decide (I.get (bidx I.r i) j < A.c)) := rfl
@[simp] theorem takeAlong1_get (A : Arr α) (I : Arr Nat) (i j : Nat) :
    (takeAlong1 A I).get i j = A.get (bidx A.r i) (I.get (bidx I.r i) j) := rfl

/-- no IndexError in `np.take_along_axis(A, I, axis=1)` for an `(r, 1)` index array over `r` rows exactly when every
    index is a column of `A` -/
theorem takeAlong1_ok_col {A : Arr α} {I : Arr Nat} (hA : A.ok = true) (hI : I.ok = true) (hr : I.r = A.r) (hc : I.c = 1) :
    (takeAlong1 A I).ok = true ↔ ∀ i, i < A.r → I.get i 0 < A.c := by
  rw [takeAlong1_ok, hA, hI, hr, hc]
  simp only [bok_self, Bool.and_self, Bool.true_and, bdim_self, List.all_eq_true, List.mem_range, decide_eq_true_eq]
  constructor
  · intro h i hi
    have := h i hi 0 Nat.one_pos
    rwa [bidx_of_lt hi] at this
  · intro h i hi j hj
    have hj0 : j = 0 := by omega
    subst hj0
    rw [bidx_of_lt hi]; exact h i hi

/-! ### shapes -/

@[simp] theorem reshape2_r (A : Arr α) (r c : Nat) : (reshape2 A r c).r = r := rfl
@[simp] theorem reshape2_c (A : Arr α) (r c : Nat) : (reshape2 A r c).c = c := rfl
@[simp] theorem reshape2_ok (A : Arr α) (r c : Nat) : (reshape2 A r c).ok = (A.ok && A.r * A.c == r * c) := rfl
@[simp] theorem reshape2_get (A : Arr α) (r c i j : Nat) :
    (reshape2 A r c).get i j = A.get ((i * c + j) / A.c) ((i * c + j) % A.c) := rfl

@[simp] theorem flattenRow_r (A : Arr α) : (flattenRow A).r = 1 := rfl
@[simp] theorem flattenRow_c (A : Arr α) : (flattenRow A).c = A.r * A.c := rfl
@[simp] theorem flattenRow_ok (A : Arr α) : (flattenRow A).ok = A.ok := rfl
@[simp] theorem flattenRow_get (A : Arr α) (i p : Nat) : (flattenRow A).get i p = A.get (p / A.c) (p % A.c) := rfl

/-! ### rows selected by a list -/

@[simp] theorem takeRows_r (A : Arr α) (g : List Nat) : (takeRows A g).r = g.length := rfl
@[simp] theorem takeRows_c (A : Arr α) (g : List Nat) : (takeRows A g).c = A.c := rfl
@[simp] theorem takeRows_ok (A : Arr α) (g : List Nat) :
    (takeRows A g).ok = (A.ok && g.all fun i => decide (i < A.r)) := rfl
@[simp] theorem takeRows_get (A : Arr α) (g : List Nat) (q j : Nat) : (takeRows A g).get q j = A.get (g.getD q 0) j := rfl

@[simp] theorem setRows_r (A : Arr α) (g : List Nat) (R : Arr α) : (setRows A g R).r = A.r := rfl
@[simp] theorem setRows_c (A : Arr α) (g : List Nat) (R : Arr α) : (setRows A g R).c = A.c := rfl
@[simp] theorem setRows_ok (A : Arr α) (g : List Nat) (R : Arr α) :
    (setRows A g R).ok = (A.ok && R.ok && (g.all fun i => decide (i < A.r)) && (R.r == g.length || R.r == 1)
      && (R.c == A.c || R.c == 1)) := rfl
theorem setRows_get (A : Arr α) (g : List Nat) (R : Arr α) (i j : Nat) :
    (setRows A g R).get i j = match lastIdx g i with
      | some q => R.get (bidx R.r q) (bidx R.c j)
      | none => A.get i j := rfl

theorem isMat_ofFn {n k : Nat} (f : Fin n → Fin k → α) : IsMat (ofFn f) f :=
  ⟨rfl, rfl, rfl, fun i j => ofFn_get f i j⟩

end Arr

/-! ### left-to-right sums and cumulative sums -/

section lists
variable {α : Type} [RealLike α]
open Model.Prox

/-- the norm the DSL computes on a row is the model's `norm2` of that row -/
theorem sqrt_sumLTo_eq_norm2 {n : Nat} (f : Nat → α) :
    RealLike.sqrt (sumLTo n fun l => f l * f l) = norm2 (fun l : Fin n => f l.val) := rfl

/-- `acc + f 0`, `(acc + f 0) + f 1`, … -/
def accTo (acc : α) (f : Nat → α) : Nat → α
  | 0 => acc + f 0
  | j + 1 => accTo acc f j + f (j + 1)

theorem accTo_shift (acc : α) (f : Nat → α) (j : Nat) :
    accTo (acc + f 0) (fun l => f (l + 1)) j = accTo acc f (j + 1) := by
  induction j with
  | zero => rfl
  | succ j ih => show accTo _ _ j + f (j + 1 + 1) = _; rw [ih]; rfl

theorem cumsumTo_succ_eq_accTo (f : Nat → α) (j : Nat) :
    cumsumTo f (j + 1) = accTo (f 0) (fun l => f (l + 1)) j := by
  induction j with
  | zero => rfl
  | succ j ih => show cumsumTo f (j + 1) + f (j + 1 + 1) = _; rw [ih]; rfl

theorem cumsumFrom_getD (L : List α) : ∀ (acc : α) (j : Nat), j < L.length →
    (cumsumFrom acc L).getD j 0 = accTo acc (fun l => L.getD l 0) j := by
  induction L with
  | nil => intro acc j hj; exact absurd hj (by simp)
  | cons x xs ih =>
    intro acc j hj
    cases j with
    | zero => simp [cumsumFrom, accTo]
    | succ j =>
      have hj' : j < xs.length := by simpa using hj
      rw [cumsumFrom, List.getD_cons_succ, ih _ _ hj']
      have := accTo_shift acc (fun l => (x :: xs).getD l 0) j
      simpa using this

/-- `np.cumsum` of the DSL (`cumsumTo`) and of the model (`cumsum`) perform the same additions -/
theorem cumsum_getD (L : List α) (j : Nat) (hj : j < L.length) :
    (cumsum L).getD j 0 = cumsumTo (fun l => L.getD l 0) j := by
  cases L with
  | nil => exact absurd hj (by simp)
  | cons x xs =>
    cases j with
    | zero => simp [cumsum, cumsumTo]
    | succ j =>
      have hj' : j < xs.length := by simpa using hj
      rw [cumsum, List.getD_cons_succ, cumsumFrom_getD xs x j hj', cumsumTo_succ_eq_accTo]
      simp

/-- `np.concatenate([zeros, np.cumsum(L)])`, entry `s ≤ len(L)` -/
theorem zero_cumsum_getD (L : List α) (s : Nat) (hs : s ≤ L.length) :
    (0 :: cumsum L).getD s 0 = if s < 1 then 0 else cumsumTo (fun l => L.getD l 0) (s - 1) := by
  cases s with
  | zero => simp
  | succ s =>
    have h1 : ¬ (s + 1 < 1) := by omega
    rw [List.getD_cons_succ, if_neg h1, cumsum_getD L s (by omega)]
    simp

/-- `np.concatenate([f(L), zeros])`, any entry -/
theorem map_append_zero_getD (L : List α) (f : α → α) (s : Nat) :
    ((L.map f) ++ [0]).getD s 0 = if s < L.length then f (L.getD s 0) else 0 := by
  by_cases hs : s < L.length
  · rw [if_pos hs, List.getD_append _ _ _ _ (by simpa using hs), List.getD_eq_getElem _ _ (by simpa using hs),
      List.getD_eq_getElem _ _ hs, List.getElem_map]
  · rw [if_neg hs, List.getD_append_right _ _ _ _ (by simpa using hs)]
    cases h : s - (L.map f).length with
    | zero => simp
    | succ m => simp

/-! ### sorting -/

/-- what the sort needs from the Boolean comparison `RealLike.le`: a total order on the values -/
structure OrderLaws (α : Type) [RealLike α] : Prop where
  total : ∀ a b : α, RealLike.le a b = true ∨ RealLike.le b a = true
  trans : ∀ a b c : α, RealLike.le a b = true → RealLike.le b c = true → RealLike.le a c = true
  antisymm : ∀ a b : α, RealLike.le a b = true → RealLike.le b a = true → a = b

theorem insertAsc_eq (x : α) (l : List α) :
    insertAsc x l = l.orderedInsert (fun a b => RealLike.le a b = true) x := by
  induction l with
  | nil => rfl
  | cons y ys ih =>
    unfold insertAsc
    rw [List.orderedInsert]
    by_cases h : RealLike.le x y = true
    · rw [if_pos h, if_pos h]
    · rw [if_neg h, if_neg h, ih]

theorem sortAsc_eq (l : List α) : sortAsc l = l.insertionSort (fun a b => RealLike.le a b = true) := by
  induction l with
  | nil => rfl
  | cons x xs ih =>
    show insertAsc x (sortAsc xs) = _
    rw [insertAsc_eq, ih]; rfl

theorem insertDesc_eq_ordered (x : α) (l : List α) :
    insertDesc x l = l.orderedInsert (fun a b => RealLike.le b a = true) x := by
  induction l with
  | nil => rfl
  | cons y ys ih =>
    unfold insertDesc
    rw [List.orderedInsert]
    by_cases h : RealLike.le y x = true
    · rw [if_pos h, if_pos h]
    · rw [if_neg h, if_neg h, ih]

theorem sortDesc_eq_insertionSort (l : List α) :
    sortDesc l = l.insertionSort (fun a b => RealLike.le b a = true) := by
  induction l with
  | nil => rfl
  | cons x xs ih =>
    show insertDesc x (sortDesc xs) = _
    rw [insertDesc_eq_ordered, ih]; rfl

theorem sortAsc_perm (l : List α) : (sortAsc l).Perm l := by
  rw [sortAsc_eq]; exact List.perm_insertionSort _ l

theorem sortAsc_length (l : List α) : (sortAsc l).length = l.length := (sortAsc_perm l).length_eq

theorem sortDesc_perm' (l : List α) : (sortDesc l).Perm l := by
  rw [sortDesc_eq_insertionSort]; exact List.perm_insertionSort _ l

theorem sortDesc_length' (l : List α) : (sortDesc l).length = l.length := (sortDesc_perm' l).length_eq

/-- Under the order laws, the ascending sort of the DSL read backwards (`np.sort(·)[::-1]`) is the model's
    `sortDesc`: both are THE non-increasing rearrangement of the values. -/
theorem reverse_sortAsc (H : OrderLaws α) (l : List α) : (sortAsc l).reverse = sortDesc l := by
  have : Std.Total (fun a b : α => RealLike.le a b = true) := ⟨H.total⟩
  have : IsTrans α (fun a b : α => RealLike.le a b = true) := ⟨H.trans⟩
  have : Std.Total (fun a b : α => RealLike.le b a = true) := ⟨fun a b => H.total b a⟩
  have : IsTrans α (fun a b : α => RealLike.le b a = true) := ⟨fun a b c h1 h2 => H.trans c b a h2 h1⟩
  have h1 : (sortAsc l).reverse.Pairwise (fun a b => RealLike.le b a = true) := by
    rw [List.pairwise_reverse, sortAsc_eq]
    exact List.pairwise_insertionSort _ l
  have h2 : (sortDesc l).Pairwise (fun a b => RealLike.le b a = true) := by
    rw [sortDesc_eq_insertionSort]
    exact List.pairwise_insertionSort _ l
  have hp : (sortAsc l).reverse.Perm (sortDesc l) :=
    ((List.reverse_perm _).trans (sortAsc_perm l)).trans (sortDesc_perm' l).symm
  exact hp.eq_of_pairwise (fun a b _ _ hab hba => H.antisymm a b hba hab) h1 h2

/-- entry `j` of `np.sort(row)[::-1]`, as the DSL computes it, is entry `j` of the model's `sortDesc row` -/
theorem sortAsc_getD_flip (H : OrderLaws α) (l : List α) (j : Nat) (hj : j < l.length) :
    (sortAsc l).getD (l.length - 1 - j) 0 = (sortDesc l).getD j 0 := by
  rw [← reverse_sortAsc H l, List.getD_reverse _ (by rw [sortAsc_length]; exact hj), sortAsc_length]

/-! ### counting -/

theorem countTo_congr {n : Nat} {p q : Nat → Bool} (h : ∀ s, s < n → p s = q s) : countTo n p = countTo n q := by
  unfold countTo
  rw [List.filter_congr (fun s hs => h s (List.mem_range.mp hs))]

theorem countTo_le (n : Nat) (p : Nat → Bool) : countTo n p ≤ n := by
  unfold countTo
  exact (List.length_filter_le _ _).trans (by simp)

/-- a count over `n + 1` positions whose last position is not counted is at most `n` -/
theorem countTo_succ_le {n : Nat} {p : Nat → Bool} (h : p n = false) : countTo (n + 1) p ≤ n := by
  unfold countTo
  rw [List.range_succ, List.filter_append]
  simp only [List.filter_cons, h, List.filter_nil, List.length_append]
  have := countTo_le n p
  unfold countTo at this
  simpa using this

/-- … and a count that reaches `n + 1` counts every position -/
theorem countTo_succ_full {n : Nat} {p : Nat → Bool} (h : countTo (n + 1) p = n + 1) : p n = true := by
  by_contra hp
  have hp' : p n = false := by simpa using hp
  have := countTo_succ_le hp'
  omega

/-! ### `W[g] = …` -/

theorem lastIdxAux_nodup (i : Nat) : ∀ (xs : List Nat) (q : Nat) (acc : Option Nat), xs.Nodup →
    lastIdxAux i xs q acc = if i ∈ xs then some (q + xs.idxOf i) else acc := by
  intro xs
  induction xs with
  | nil => intro q acc _; simp [lastIdxAux]
  | cons x xs ih =>
    intro q acc hnd
    obtain ⟨hx, hnd'⟩ := List.nodup_cons.mp hnd
    rw [lastIdxAux, ih _ _ hnd']
    by_cases hxi : x = i
    · subst hxi
      simp [hx]
    · have hne : i ≠ x := fun h => hxi h.symm
      by_cases hmem : i ∈ xs
      · simp [hmem, List.idxOf_cons_ne _ hxi]; omega
      · simp [hmem, hxi, hne]

/-- in a list without repetition, the last occurrence is the occurrence -/
theorem lastIdx_of_nodup {g : List Nat} (hnd : g.Nodup) {q : Nat} (hq : q < g.length) :
    lastIdx g (g.getD q 0) = some q := by
  unfold lastIdx
  rw [lastIdxAux_nodup _ _ _ _ hnd, List.getD_eq_getElem _ _ hq, if_pos (List.getElem_mem hq), Nat.zero_add,
    hnd.idxOf_getElem]

theorem lastIdxAux_of_not_mem {i : Nat} : ∀ (xs : List Nat) (q : Nat) (acc : Option Nat), i ∉ xs →
    lastIdxAux i xs q acc = acc := by
  intro xs
  induction xs with
  | nil => intro q acc _; rfl
  | cons x xs ih =>
    intro q acc h
    have hx : x ≠ i := fun e => h (by simp [e])
    have hxs : i ∉ xs := fun e => h (by simp [e])
    rw [lastIdxAux, if_neg hx]
    exact ih _ _ hxs

theorem lastIdx_of_not_mem {g : List Nat} {i : Nat} (h : i ∉ g) : lastIdx g i = none :=
  lastIdxAux_of_not_mem g 0 none h

theorem lastIdxAux_of_mem {i : Nat} : ∀ (xs : List Nat) (q : Nat) (acc : Option Nat), i ∈ xs →
    ∃ r, lastIdxAux i xs q acc = some (q + r) ∧ xs[r]? = some i := by
  intro xs
  induction xs with
  | nil => intro q acc h; exact absurd h (by simp)
  | cons x xs ih =>
    intro q acc h
    rw [lastIdxAux]
    by_cases hxs : i ∈ xs
    · obtain ⟨r, hr, hget⟩ := ih (q + 1) (if x = i then some q else acc) hxs
      exact ⟨r + 1, by rw [hr]; congr 1; omega, by simpa using hget⟩
    · have hx : x = i := by
        rcases List.mem_cons.mp h with e | e
        · exact e.symm
        · exact absurd e hxs
      rw [lastIdxAux_of_not_mem _ _ _ hxs, if_pos hx]
      exact ⟨0, rfl, by simp [hx]⟩

/-- when `i` occurs in `g`, `lastIdx g i` is a position of `i` in `g` -/
theorem lastIdx_of_mem {g : List Nat} {i : Nat} (h : i ∈ g) : ∃ r, lastIdx g i = some r ∧ g[r]? = some i := by
  obtain ⟨r, hr, hget⟩ := lastIdxAux_of_mem g 0 none h
  exact ⟨r, by rw [lastIdx, hr, Nat.zero_add], hget⟩

/-! ### `IsMat` forms of the operations whose definition mentions the row as a list -/

namespace Arr

/-- entries of a described array at natural-number indices inside the shape -/
theorem IsMat.get_nat {n k : Nat} {A : Arr α} {f : Fin n → Fin k → α} (hA : IsMat A f) {i j : Nat} (hi : i < n)
    (hj : j < k) : A.get i j = f ⟨i, hi⟩ ⟨j, hj⟩ := hA.2.2.2 ⟨i, hi⟩ ⟨j, hj⟩

/-- `np.linalg.norm(A, axis=1, keepdims=True)` of the matrix `f` is the `(n, 1)` column of the model's `norm2` of the rows -/
theorem IsMat.normAxis1 {n k : Nat} {A : Arr α} {f : Fin n → Fin k → α} (hA : IsMat A f) :
    IsMat (normAxis1 A) (fun i (_ : Fin 1) => norm2 (f i)) := by
  obtain ⟨hok, hr, hc, hget⟩ := hA
  subst hr hc
  refine ⟨hok, rfl, rfl, fun i j => ?_⟩
  simp only [normAxis1_get, sumLTo, hget]
  rfl

/-- under the order laws, `np.sort(A, axis=1)[:, ::-1]` of the matrix `f` has the model's `sortDesc` of each row as rows -/
theorem IsMat.sortFlip (H : OrderLaws α) {n k : Nat} {A : Arr α} {f : Fin n → Fin k → α} (hA : IsMat A f) :
    IsMat (flipCols (sortAxis1 A)) (fun i (j : Fin k) => (sortDesc (List.ofFn (f i))).getD j.val 0) := by
  obtain ⟨hok, hr, hc, hget⟩ := hA
  subst hr hc
  refine ⟨hok, rfl, rfl, fun i j => ?_⟩
  simp only [flipCols_get, sortAxis1_get, sortAxis1_c, hget]
  have := sortAsc_getD_flip H (List.ofFn (f i)) j.val (by simp)
  simpa using this

end Arr

theorem cumsumTo_congr {f g : Nat → α} {j : Nat} (h : ∀ l, l ≤ j → f l = g l) : cumsumTo f j = cumsumTo g j := by
  induction j with
  | zero => exact h 0 (Nat.le_refl _)
  | succ j ih =>
    show cumsumTo f j + f (j + 1) = cumsumTo g j + g (j + 1)
    rw [ih (fun l hl => h l (by omega)), h (j + 1) (Nat.le_refl _)]

theorem uAbsSorted_length' {h : Nat} (u : Fin h → α) : (uAbsSorted u).length = h := by
  unfold uAbsSorted; rw [sortDesc_length', List.length_ofFn]

end lists
end GemVerif.Np
