/-
  Reading rules of GemVerif/Np5.lean (shape, error flag, entries of every operation, all by unfolding) and the
  number-type-generic facts about its list algorithms: the stable position sort `argsortBy` is a permutation of the
  positions, depends only on the comparisons between positions inside the range, and IS the `argsort` / `argsortNat` of
  Model/Douglas.lean (insertion sort of (value, position) pairs); `cumsumTo` performs the additions of the model's `cumsum`.
-/
import GemVerif.Lemmas.Np4
import GemVerif.Np5
import GemVerif.Model.Douglas

set_option linter.unusedSectionVars false
set_option linter.unusedVariables false

namespace GemVerif.Np
open GemVerif RealLike

/-! ### integer arrays -/

@[simp] theorem errN_ok : errN.ok = false := rfl
@[simp] theorem checkedN_r (f : Bool) (I : Arr Nat) : (checkedN f I).r = I.r := rfl
@[simp] theorem checkedN_c (f : Bool) (I : Arr Nat) : (checkedN f I).c = I.c := rfl
@[simp] theorem checkedN_ok (f : Bool) (I : Arr Nat) : (checkedN f I).ok = (I.ok && f) := rfl
@[simp] theorem checkedN_get (f : Bool) (I : Arr Nat) (i j : Nat) : (checkedN f I).get i j = I.get i j := rfl

@[simp] theorem argsortN_r (I : Arr Nat) : (argsortN I).r = 1 := rfl
@[simp] theorem argsortN_c (I : Arr Nat) : (argsortN I).c = I.c := rfl
@[simp] theorem argsortN_ok (I : Arr Nat) : (argsortN I).ok = (I.ok && I.r == 1) := rfl
@[simp] theorem argsortN_get (I : Arr Nat) (i j : Nat) :
    (argsortN I).get i j = (argsortBy (fun a b => decide (I.get 0 a ≤ I.get 0 b)) I.c).getD j 0 := rfl

@[simp] theorem emptyLikeN_r (I : Arr Nat) : (emptyLikeN I).r = I.r := rfl
@[simp] theorem emptyLikeN_c (I : Arr Nat) : (emptyLikeN I).c = I.c := rfl
@[simp] theorem emptyLikeN_ok (I : Arr Nat) : (emptyLikeN I).ok = I.ok := rfl

@[simp] theorem arangeN_r (n : Nat) : (arangeN n).r = 1 := rfl
@[simp] theorem arangeN_c (n : Nat) : (arangeN n).c = n := rfl
@[simp] theorem arangeN_ok (n : Nat) : (arangeN n).ok = true := rfl
@[simp] theorem arangeN_get (n i j : Nat) : (arangeN n).get i j = j := rfl

@[simp] theorem Arr.setAt_r {β : Type} (g : Arr β) (I : Arr Nat) (v : Arr β) : (Arr.setAt g I v).r = 1 := rfl
@[simp] theorem Arr.setAt_c {β : Type} (g : Arr β) (I : Arr Nat) (v : Arr β) : (Arr.setAt g I v).c = g.c := rfl
theorem Arr.setAt_ok {β : Type} (g : Arr β) (I : Arr Nat) (v : Arr β) :
    (Arr.setAt g I v).ok = (g.ok && I.ok && v.ok && g.r == 1 && I.r == 1 && v.r == 1 && v.c == I.c &&
      (List.range I.c).all fun k => decide (I.get 0 k < g.c)) := rfl
theorem Arr.setAt_get {β : Type} (g : Arr β) (I : Arr Nat) (v : Arr β) (i j : Nat) :
    (Arr.setAt g I v).get i j = scatterGet (I.get 0) (v.get 0) (g.get 0 j) j I.c := rfl

/-- a scatter through indices that are pairwise distinct on `0 … m-1`: the position `I k` receives `v k`, whatever it held -/
theorem scatterGet_of_injOn {β : Type} (I : Nat → Nat) (v : Nat → β) (old : β) :
    ∀ (m : Nat), (∀ a b, a < m → b < m → I a = I b → a = b) → ∀ k, k < m → scatterGet I v old (I k) m = v k := by
  intro m
  induction m with
  | zero => intro _ k hk; exact absurd hk (Nat.not_lt_zero k)
  | succ m ih =>
    intro hinj k hk
    unfold scatterGet
    by_cases h : I m = I k
    · rw [if_pos h, hinj m k (Nat.lt_succ_self m) hk h]
    · rw [if_neg h]
      have hkm : k ≠ m := fun e => h (by rw [e])
      exact ih (fun a b ha hb => hinj a b (Nat.lt_succ_of_lt ha) (Nat.lt_succ_of_lt hb)) k
        (Nat.lt_of_le_of_ne (Nat.le_of_lt_succ hk) hkm)

@[simp] theorem nthN_cons_zero (A : Arr Nat) (L : List (Arr Nat)) : nthN (A :: L) 0 = A := rfl
@[simp] theorem nthN_cons_succ (A : Arr Nat) (L : List (Arr Nat)) (i : Nat) : nthN (A :: L) (i + 1) = nthN L i := rfl

namespace Arr
variable {α : Type} [RealLike α]

@[simp] theorem ofList_r (l : List α) : (ofList l).r = 1 := rfl
@[simp] theorem ofList_c (l : List α) : (ofList l).c = l.length := rfl
@[simp] theorem ofList_ok (l : List α) : (ofList l).ok = true := rfl
@[simp] theorem ofList_get (l : List α) (i j : Nat) : (ofList l).get i j = l.getD j 0 := rfl

@[simp] theorem linspace_r (a b : α) (num : Nat) : (linspace a b num).r = 1 := rfl
@[simp] theorem linspace_c (a b : α) (num : Nat) : (linspace a b num).c = num := rfl
@[simp] theorem linspace_ok (a b : α) (num : Nat) : (linspace a b num).ok = true := rfl
theorem linspace_get (a b : α) (num i j : Nat) :
    (linspace a b num).get i j =
      if num = 1 then nat j * (b - a) + a else if j + 1 = num then b else nat j * ((b - a) / nat (num - 1)) + a := rfl

@[simp] theorem arangeFrom_r (a b : Nat) : (arangeFrom a b : Arr α).r = 1 := rfl
@[simp] theorem arangeFrom_c (a b : Nat) : (arangeFrom a b : Arr α).c = b - a := rfl
@[simp] theorem arangeFrom_ok (a b : Nat) : (arangeFrom a b : Arr α).ok = true := rfl
theorem arangeFrom_get (a b i j : Nat) :
    (arangeFrom a b : Arr α).get i j =
      if j = 0 then nat a else if j = 1 then nat (a + 1) else nat a + nat j * (nat (a + 1) - nat a) := rfl

@[simp] theorem emptyLike_r (v : Arr α) : (emptyLike v).r = v.r := rfl
@[simp] theorem emptyLike_c (v : Arr α) : (emptyLike v).c = v.c := rfl
@[simp] theorem emptyLike_ok (v : Arr α) : (emptyLike v).ok = v.ok := rfl

@[simp] theorem argsort1_r (v : Arr α) : (argsort1 v).r = 1 := rfl
@[simp] theorem argsort1_c (v : Arr α) : (argsort1 v).c = v.c := rfl
@[simp] theorem argsort1_ok (v : Arr α) : (argsort1 v).ok = (v.ok && v.r == 1) := rfl
@[simp] theorem argsort1_get (v : Arr α) (i j : Nat) :
    (argsort1 v).get i j = (argsortBy (fun a b => le (v.get 0 a) (v.get 0 b)) v.c).getD j 0 := rfl

@[simp] theorem take1_r (v : Arr α) (I : Arr Nat) : (take1 v I).r = 1 := rfl
@[simp] theorem take1_c (v : Arr α) (I : Arr Nat) : (take1 v I).c = I.c := rfl
theorem take1_ok (v : Arr α) (I : Arr Nat) :
    (take1 v I).ok = (v.ok && I.ok && v.r == 1 && I.r == 1 && (List.range I.c).all fun j => decide (I.get 0 j < v.c)) := rfl
@[simp] theorem take1_get (v : Arr α) (I : Arr Nat) (i j : Nat) : (take1 v I).get i j = v.get 0 (I.get 0 j) := rfl

@[simp] theorem drop1_r (v : Arr α) (k : Nat) : (drop1 v k).r = 1 := rfl
@[simp] theorem drop1_c (v : Arr α) (k : Nat) : (drop1 v k).c = v.c - k := rfl
@[simp] theorem drop1_ok (v : Arr α) (k : Nat) : (drop1 v k).ok = (v.ok && v.r == 1) := rfl
@[simp] theorem drop1_get (v : Arr α) (k i j : Nat) : (drop1 v k).get i j = v.get 0 (j + k) := rfl

@[simp] theorem dropLast1_r (v : Arr α) (k : Nat) : (dropLast1 v k).r = 1 := rfl
@[simp] theorem dropLast1_c (v : Arr α) (k : Nat) : (dropLast1 v k).c = v.c - k := rfl
@[simp] theorem dropLast1_ok (v : Arr α) (k : Nat) : (dropLast1 v k).ok = (v.ok && v.r == 1) := rfl
@[simp] theorem dropLast1_get (v : Arr α) (k i j : Nat) : (dropLast1 v k).get i j = v.get 0 j := rfl

@[simp] theorem colSlice_r (A : Arr α) (a b : Nat) : (colSlice A a b).r = A.r := rfl
@[simp] theorem colSlice_c (A : Arr α) (a b : Nat) : (colSlice A a b).c = Nat.min b A.c - Nat.min a A.c := rfl
@[simp] theorem colSlice_ok (A : Arr α) (a b : Nat) : (colSlice A a b).ok = A.ok := rfl
@[simp] theorem colSlice_get (A : Arr α) (a b i j : Nat) : (colSlice A a b).get i j = A.get i (a + j) := rfl

@[simp] theorem reduce1_nil (f : Arr α → Arr α → Arr α) : reduce1 f [] = err := rfl
@[simp] theorem reduce1_cons (f : Arr α → Arr α → Arr α) (a : Arr α) (l : List (Arr α)) :
    reduce1 f (a :: l) = l.foldl f a := rfl

end Arr

namespace Arr3
variable {α : Type} [RealLike α]

@[simp] theorem einsumIjIk_d0 (A B : Arr α) : (einsumIjIk A B).d0 = bdim A.r B.r := rfl
@[simp] theorem einsumIjIk_d1 (A B : Arr α) : (einsumIjIk A B).d1 = A.c := rfl
@[simp] theorem einsumIjIk_d2 (A B : Arr α) : (einsumIjIk A B).d2 = B.c := rfl
@[simp] theorem einsumIjIk_ok (A B : Arr α) : (einsumIjIk A B).ok = (A.ok && B.ok && bok A.r B.r) := rfl
@[simp] theorem einsumIjIk_get (A B : Arr α) (i j k : Nat) :
    (einsumIjIk A B).get i j k = A.get (bidx A.r i) j * B.get (bidx B.r i) k := rfl

@[simp] theorem flattenTail_r (T : Arr3 α) : (flattenTail T).r = T.d0 := rfl
@[simp] theorem flattenTail_c (T : Arr3 α) : (flattenTail T).c = T.d1 * T.d2 := rfl
@[simp] theorem flattenTail_ok (T : Arr3 α) : (flattenTail T).ok = (T.ok && T.d1 * T.d2 != 0) := rfl
@[simp] theorem flattenTail_get (T : Arr3 α) (i p : Nat) : (flattenTail T).get i p = T.get i (p / T.d2) (p % T.d2) := rfl

end Arr3

namespace ArrN
variable {α : Type} [RealLike α]

@[simp] theorem reshapeOf_flat (A : Arr α) (axes : List Nat) : (reshapeOf A axes).flat = A := rfl
@[simp] theorem reshapeOf_axes (A : Arr α) (axes : List Nat) : (reshapeOf A axes).axes = axes := rfl
@[simp] theorem reshapeOf_ok (A : Arr α) (axes : List Nat) :
    (reshapeOf A axes).ok = (A.ok && axes.prod == A.c && A.c != 0) := rfl

@[simp] theorem mul_flat_r (S T : ArrN α) : (mul S T).flat.r = S.flat.r := rfl
@[simp] theorem mul_flat_c (S T : ArrN α) : (mul S T).flat.c = S.flat.c := rfl
@[simp] theorem mul_flat_get (S T : ArrN α) (i l : Nat) : (mul S T).flat.get i l = S.flat.get i l * T.flat.get i l := rfl
@[simp] theorem mul_axes (S T : ArrN α) : (mul S T).axes = S.axes := rfl
@[simp] theorem mul_ok (S T : ArrN α) :
    (mul S T).ok = (S.ok && T.ok && S.axes == T.axes && S.flat.r == T.flat.r && S.flat.c == T.flat.c) := rfl

@[simp] theorem sumExcept_r (T : ArrN α) (i : Nat) : (sumExcept T i).r = T.flat.r := rfl
@[simp] theorem sumExcept_c (T : ArrN α) (i : Nat) : (sumExcept T i).c = T.axes.getD i 0 := rfl
@[simp] theorem sumExcept_ok (T : ArrN α) (i : Nat) : (sumExcept T i).ok = (T.ok && decide (i < T.axes.length)) := rfl
@[simp] theorem sumExcept_get (T : ArrN α) (i r j : Nat) :
    (sumExcept T i).get r j = sumTo T.flat.c fun l => if digitN T.axes i l = j then T.flat.get r l else 0 := rfl

end ArrN

/-! ### descriptions of 1-D arrays and of arrays given row by row (used by Props/C15Gen.lean) -/

/-- `I` is, without error, the 1-D integer array of the entries of the list `l` -/
def IsVecN (I : Arr Nat) (l : List Nat) : Prop :=
  I.ok = true ∧ I.r = 1 ∧ I.c = l.length ∧ ∀ j, j < l.length → I.get 0 j = l.getD j 0

namespace Arr
variable {α : Type} [RealLike α]

/-- `v` is, without error, the 1-D array of the entries of the list `l` -/
def IsVec (v : Arr α) (l : List α) : Prop :=
  v.ok = true ∧ v.r = 1 ∧ v.c = l.length ∧ ∀ j, j < l.length → v.get 0 j = l.getD j 0

/-- `A` is, without error, the `(n, len)` array whose `i`-th row is the list `rows i` (of length `len`) -/
def IsRows {n : Nat} (A : Arr α) (rows : Fin n → List α) (len : Nat) : Prop :=
  A.ok = true ∧ A.r = n ∧ A.c = len ∧ (∀ i, (rows i).length = len) ∧
    ∀ (i : Fin n) (j : Nat), j < len → A.get i.val j = (rows i).getD j 0

theorem isVec_ofList (l : List α) : IsVec (ofList l) l := ⟨rfl, rfl, rfl, fun _ _ => rfl⟩

theorem IsRows.isMat {n len : Nat} {A : Arr α} {rows : Fin n → List α} (h : IsRows A rows len) :
    IsMat A (fun i (j : Fin len) => (rows i).getD j.val 0) :=
  ⟨h.1, h.2.1, h.2.2.1, fun i j => h.2.2.2.2 i j.val j.isLt⟩

theorem IsMat.isRows {n len : Nat} {A : Arr α} {f : Fin n → Fin len → α} (h : IsMat A f) :
    IsRows A (fun i => List.ofFn (f i)) len := by
  refine ⟨h.1, h.2.1, h.2.2.1, fun i => by simp, fun i j hj => ?_⟩
  rw [h.2.2.2 i ⟨j, hj⟩, List.getD_eq_getElem _ _ (by simpa using hj)]
  simp

end Arr

/-! ### the stable position sort -/

theorem insertIdxBy_perm (le : Nat → Nat → Bool) (i : Nat) (l : List Nat) : (insertIdxBy le i l).Perm (i :: l) := by
  induction l with
  | nil => exact List.Perm.refl _
  | cons j js ih =>
    unfold insertIdxBy
    by_cases h : le i j = true
    · rw [if_pos h]
    · rw [if_neg h]
      exact (List.Perm.cons j ih).trans (List.Perm.swap i j js)

theorem argsortBy_perm (le : Nat → Nat → Bool) (n : Nat) : (argsortBy le n).Perm (List.range n) := by
  unfold argsortBy
  induction (List.range n) with
  | nil => exact List.Perm.refl _
  | cons a l ih => exact (insertIdxBy_perm le a _).trans (List.Perm.cons a ih)

theorem argsortBy_length (le : Nat → Nat → Bool) (n : Nat) : (argsortBy le n).length = n := by
  rw [(argsortBy_perm le n).length_eq, List.length_range]

theorem argsortBy_mem_lt (le : Nat → Nat → Bool) (n : Nat) {p : Nat} (hp : p ∈ argsortBy le n) : p < n :=
  List.mem_range.mp ((argsortBy_perm le n).mem_iff.mp hp)

theorem argsortBy_getD_lt (le : Nat → Nat → Bool) {n j : Nat} (hj : j < n) : (argsortBy le n).getD j 0 < n := by
  have hj' : j < (argsortBy le n).length := by rw [argsortBy_length]; exact hj
  rw [List.getD_eq_getElem _ _ hj']
  exact argsortBy_mem_lt le n (List.getElem_mem hj')

theorem insertIdxBy_congr {le le' : Nat → Nat → Bool} {i : Nat} {l : List Nat}
    (h : ∀ j ∈ l, le i j = le' i j) : insertIdxBy le i l = insertIdxBy le' i l := by
  induction l with
  | nil => rfl
  | cons j js ih =>
    unfold insertIdxBy
    rw [h j (List.mem_cons_self), ih fun k hk => h k (List.mem_cons_of_mem _ hk)]

/-- the position sort reads the comparison only between positions of the range -/
theorem argsortBy_congr {le le' : Nat → Nat → Bool} {n : Nat} (h : ∀ a b, a < n → b < n → le a b = le' a b) :
    argsortBy le n = argsortBy le' n := by
  unfold argsortBy
  have key : ∀ l : List Nat, (∀ a ∈ l, a < n) →
      l.foldr (insertIdxBy le) [] = l.foldr (insertIdxBy le') [] ∧ ∀ b ∈ l.foldr (insertIdxBy le) [], b < n := by
    intro l
    induction l with
    | nil => intro _; exact ⟨rfl, fun b hb => absurd hb (by simp)⟩
    | cons a l ih =>
      intro hl
      obtain ⟨e, hm⟩ := ih fun x hx => hl x (List.mem_cons_of_mem _ hx)
      have ha : a < n := hl a List.mem_cons_self
      refine ⟨?_, ?_⟩
      · show insertIdxBy le a (l.foldr (insertIdxBy le) []) = insertIdxBy le' a (l.foldr (insertIdxBy le') [])
        rw [← e]
        exact insertIdxBy_congr fun j hj => h a j ha (hm j hj)
      · intro b hb
        have : b ∈ a :: l.foldr (insertIdxBy le) [] := (insertIdxBy_perm le a _).mem_iff.mp hb
        rcases List.mem_cons.mp this with rfl | hb'
        · exact ha
        · exact hm b hb'
  exact (key (List.range n) fun a ha => List.mem_range.mp ha).1

/-! ### … is the insertion sort of (value, position) pairs of Model/Douglas.lean -/

section pairs
open Model.Douglas
variable {β : Type}

theorem mem_insertBy {γ : Type} (le : γ → γ → Bool) (a : γ) (l : List γ) {x : γ} (hx : x ∈ insertBy le a l) :
    x = a ∨ x ∈ l := by
  induction l with
  | nil => simp [insertBy] at hx; exact Or.inl hx
  | cons b l ih =>
    unfold insertBy at hx
    by_cases h : le a b = true
    · rw [if_pos h] at hx
      rcases List.mem_cons.mp hx with rfl | hx'
      · exact Or.inl rfl
      · exact Or.inr hx'
    · rw [if_neg h] at hx
      rcases List.mem_cons.mp hx with rfl | hx'
      · exact Or.inr List.mem_cons_self
      · rcases ih hx' with rfl | h'
        · exact Or.inl rfl
        · exact Or.inr (List.mem_cons_of_mem _ h')

theorem mem_isort {γ : Type} (le : γ → γ → Bool) (l : List γ) {x : γ} (hx : x ∈ isort le l) : x ∈ l := by
  induction l with
  | nil => simp [isort] at hx
  | cons a l ih =>
    rcases mem_insertBy le a _ hx with rfl | h
    · exact List.mem_cons_self
    · exact List.mem_cons_of_mem _ (ih h)

theorem insertBy_map_snd (cmp : β → β → Bool) (key : Nat → β) (p : β × Nat) (qs : List (β × Nat))
    (hp : p.1 = key p.2) (hq : ∀ q ∈ qs, q.1 = key q.2) :
    (insertBy (fun a b : β × Nat => cmp a.1 b.1) p qs).map Prod.snd =
      insertIdxBy (fun a b => cmp (key a) (key b)) p.2 (qs.map Prod.snd) := by
  induction qs with
  | nil => rfl
  | cons q qs ih =>
    have hq0 := hq q List.mem_cons_self
    simp only [insertBy, List.map_cons, insertIdxBy]
    rw [← hp, ← hq0]
    by_cases h : cmp p.1 q.1 = true
    · rw [if_pos h, if_pos h]; rfl
    · rw [if_neg h, if_neg h, List.map_cons, ih fun x hx => hq x (List.mem_cons_of_mem _ hx)]

theorem isort_map_snd (cmp : β → β → Bool) (key : Nat → β) (ps : List (β × Nat)) (hps : ∀ p ∈ ps, p.1 = key p.2) :
    (isort (fun a b : β × Nat => cmp a.1 b.1) ps).map Prod.snd =
      (ps.map Prod.snd).foldr (insertIdxBy fun a b => cmp (key a) (key b)) [] := by
  induction ps with
  | nil => rfl
  | cons p ps ih =>
    have hps' : ∀ q ∈ ps, q.1 = key q.2 := fun q hq => hps q (List.mem_cons_of_mem _ hq)
    show (insertBy _ p (isort _ ps)).map Prod.snd = _
    rw [insertBy_map_snd cmp key p _ (hps p List.mem_cons_self) fun q hq => hps' q (mem_isort _ _ hq), ih hps']
    rfl

theorem zipIdx_fst_eq_getD (d : β) (l : List β) {p : β × Nat} (hp : p ∈ l.zipIdx) : p.1 = l.getD p.2 d := by
  obtain ⟨x, i⟩ := p
  have h := List.mem_zipIdx' hp
  simp only at h ⊢
  rw [List.getD_eq_getElem _ _ h.1]; exact h.2

/-- the positions sorted (stably) by the values of `l` are the second components of the insertion-sorted (value, position) pairs -/
theorem isort_zipIdx_snd (cmp : β → β → Bool) (d : β) (l : List β) :
    (isort (fun a b : β × Nat => cmp a.1 b.1) l.zipIdx).map Prod.snd =
      argsortBy (fun a b => cmp (l.getD a d) (l.getD b d)) l.length := by
  rw [isort_map_snd cmp (fun i => l.getD i d) _ fun p hp => zipIdx_fst_eq_getD d l hp]
  unfold argsortBy
  congr 1
  simp [List.range_eq_range']

end pairs

section douglas
open Model.Douglas
variable {α : Type} [RealLike α]

/-- the DSL's `np.argsort` of the values of `cuts` is the model's `argsort cuts` (every number type) -/
theorem argsortBy_eq_argsort (cuts : List α) :
    argsortBy (fun a b => le (cuts.getD a 0) (cuts.getD b 0)) cuts.length = argsort cuts :=
  (isort_zipIdx_snd (fun a b : α => le a b) 0 cuts).symm

/-- the DSL's `np.argsort` of an integer vector is the model's `argsortNat` -/
theorem argsortBy_eq_argsortNat (σ : List Nat) :
    argsortBy (fun a b => decide (σ.getD a 0 ≤ σ.getD b 0)) σ.length = argsortNat σ :=
  (isort_zipIdx_snd (fun a b : Nat => decide (a ≤ b)) 0 σ).symm

theorem cumsumAux_getD (L : List α) : ∀ (acc : α) (j : Nat), j < L.length →
    (cumsumAux acc L).getD j 0 = accTo acc (fun l => L.getD l 0) j := by
  induction L with
  | nil => intro acc j hj; exact absurd hj (by simp)
  | cons x xs ih =>
    intro acc j hj
    cases j with
    | zero => simp [cumsumAux, accTo]
    | succ j =>
      have hj' : j < xs.length := by simpa using hj
      rw [cumsumAux, List.getD_cons_succ, ih _ _ hj']
      have := accTo_shift acc (fun l => (x :: xs).getD l 0) j
      simpa using this

/-- `np.cumsum` of the DSL (`cumsumTo`) and of the Douglas model (`cumsum`) perform the same additions -/
theorem douglas_cumsum_getD (L : List α) (j : Nat) (hj : j < L.length) :
    (Model.Douglas.cumsum L).getD j 0 = cumsumTo (fun l => L.getD l 0) j := by
  cases L with
  | nil => exact absurd hj (by simp)
  | cons x xs =>
    cases j with
    | zero => simp [Model.Douglas.cumsum, cumsumTo]
    | succ j =>
      have hj' : j < xs.length := by simpa using hj
      rw [Model.Douglas.cumsum, List.getD_cons_succ, cumsumAux_getD xs x j hj', cumsumTo_succ_eq_accTo]
      simp

theorem douglas_cumsum_length (L : List α) : (Model.Douglas.cumsum L).length = L.length := by
  have aux : ∀ (l : List α) (acc : α), (cumsumAux acc l).length = l.length := by
    intro l
    induction l with
    | nil => intro _; rfl
    | cons a l ih => intro acc; simp [cumsumAux, ih]
  cases L with
  | nil => rfl
  | cons a l => simp [Model.Douglas.cumsum, aux]

end douglas
end GemVerif.Np
