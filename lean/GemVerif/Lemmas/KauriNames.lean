/-
  Helper lemmas for C19Names (validation of `feature_names` in `print_kauri_tree`).  No Mathlib.

  * `pyMax_lt_iff`            the maximum of a non-empty list is below a bound iff every entry is;
  * `mem_usedFeatures`        the entries of `usedFeatures` are the non-`None` entries of `tree_.features`;
  * `validate_ok_iff`         the validation accepts iff `ndim = 1` and every used feature is below the length;
  * `LeavesNoFeature`, closed under `Tree.init` / `Tree.addChild`;
  * `printNodeNamed_eq`       with covering names the partial printer is `Tree.printNode` and raises nothing;
  * `Line.mapName`, `printLines_mapName`  relabelling the rule lines.
-/
import GemVerif.Model.KauriNames
import GemVerif.Lemmas.KauriC19

namespace GemVerif.KauriNames
open GemVerif RealLike Model.Kauri KauriC19

variable {α : Type} [RealLike α]
set_option linter.unusedSectionVars false

/-! ### `max` -/

theorem foldl_max_lt (xs : List Int) (x m : Int) :
    xs.foldl Max.max x < m ↔ x < m ∧ ∀ y ∈ xs, y < m := by
  induction xs generalizing x with
  | nil => simp
  | cons y ys ih =>
    simp only [List.foldl_cons, ih, List.mem_cons, forall_eq_or_imp]
    constructor
    · rintro ⟨h1, h2⟩
      exact ⟨by omega, by omega, h2⟩
    · rintro ⟨h1, h2, h3⟩
      exact ⟨by omega, h3⟩

theorem pyMax_lt_iff {l : List Int} (hl : l ≠ []) (m : Int) : pyMax l < m ↔ ∀ x ∈ l, x < m := by
  cases l with
  | nil => exact absurd rfl hl
  | cons x xs => simp [pyMax, foldl_max_lt]

/-! ### the used features -/

theorem mem_usedFeatures {t : Tree α} {f : Int} :
    f ∈ usedFeatures t ↔ ∃ n, n < t.feat.size ∧ t.feat[n]! = some f := by
  simp only [usedFeatures, List.mem_filterMap, id]
  constructor
  · rintro ⟨o, ho, rfl⟩
    obtain ⟨n, hn, h⟩ := List.mem_iff_getElem.mp ho
    have hn' : n < t.feat.size := by simpa using hn
    exact ⟨n, hn', by rw [getElem!_pos t.feat n hn']; simpa using h⟩
  · rintro ⟨n, hn, h⟩
    refine ⟨some f, ?_, rfl⟩
    rw [getElem!_pos t.feat n hn] at h
    rw [← h]
    exact List.mem_iff_getElem.mpr ⟨n, by simpa using hn, by simp⟩

/-- the validation accepts a non-`None` argument iff it is one-dimensional and longer than every used feature index -/
theorem validate_ok_iff (t : Tree α) (a : NamesArg) :
    validateNames t (some a) = .ok () ↔ a.ndim = 1 ∧ ∀ f ∈ usedFeatures t, f < (a.items.size : Int) := by
  unfold validateNames
  by_cases hd : a.ndim = 1
  · by_cases hu : usedFeatures t = []
    · simp [hd, hu]
    · have hpos : 0 < (usedFeatures t).length := List.length_pos_iff.mpr hu
      have hm := pyMax_lt_iff hu (a.items.size : Int)
      by_cases hle : (a.items.size : Int) ≤ pyMax (usedFeatures t)
      · have : ¬ ∀ f ∈ usedFeatures t, f < (a.items.size : Int) := fun h => by have := hm.mpr h; omega
        simp [hd, hpos, hle, this]
      · have : ∀ f ∈ usedFeatures t, f < (a.items.size : Int) := hm.mp (by omega)
        simp only [hd, hle, bne_self_eq_false, Bool.false_eq_true, if_false, decide_false, Bool.and_false, true_and]
        exact ⟨fun _ => this, fun _ => True.intro⟩
  · simp [hd]

/-- which exception: not one-dimensional -/
theorem validate_notOneDim_iff (t : Tree α) (a : NamesArg) :
    validateNames t (some a) = .error .notOneDim ↔ a.ndim ≠ 1 := by
  unfold validateNames
  by_cases hd : a.ndim = 1
  · simp only [hd, bne_self_eq_false, Bool.false_eq_true, if_false, ne_eq, not_true_eq_false, iff_false]
    split <;> simp
  · simp [hd]

/-- which exception: too few names -/
theorem validate_tooFew_iff (t : Tree α) (a : NamesArg) :
    validateNames t (some a) = .error .tooFew ↔ a.ndim = 1 ∧ ∃ f ∈ usedFeatures t, (a.items.size : Int) ≤ f := by
  have hok := validate_ok_iff t a
  have hnd := validate_notOneDim_iff t a
  by_cases hd : a.ndim = 1
  · by_cases hall : ∀ f ∈ usedFeatures t, f < (a.items.size : Int)
    · have h1 := hok.mpr ⟨hd, hall⟩
      rw [h1]
      simp only [reduceCtorEq, false_iff, not_and, not_exists]
      intro _ f hf
      have := hall f hf
      omega
    · have hex : ∃ f ∈ usedFeatures t, (a.items.size : Int) ≤ f := by
        apply Classical.byContradiction
        intro hne
        apply hall
        intro f hf
        apply Classical.byContradiction
        intro hlt
        exact hne ⟨f, hf, by omega⟩
      have hno : validateNames t (some a) ≠ .ok () := fun h => hall (hok.mp h).2
      have hno2 : validateNames t (some a) ≠ .error .notOneDim := fun h => (hnd.mp h) hd
      refine ⟨fun _ => ⟨hd, hex⟩, fun _ => ?_⟩
      unfold validateNames at hno hno2 ⊢
      simp only [hd, bne_self_eq_false, Bool.false_eq_true, if_false] at hno hno2 ⊢
      split
      · rfl
      · rename_i h; simp [h] at hno
  · have h1 := hnd.mpr hd
    rw [h1]
    simp [hd]

/-! ### leaves carry no feature -/

/-- every leaf has `features[node] = None` (`Tree.__init__` and `_add_child` write `None` for the new nodes) -/
def LeavesNoFeature (t : Tree α) : Prop := ∀ n, n < t.nNodes → t.left[n]! = -1 → t.feat[n]! = none

theorem leavesNoFeature_init : LeavesNoFeature (Tree.init : Tree α) := by
  intro n hn _
  have : n = 0 := by simp [Tree.init] at hn; omega
  subst this
  rfl

theorem leavesNoFeature_addChild {t : Tree α} (ht : WellFormed t) (hl : LeavesNoFeature t) {father : Nat}
    (s : Split α) : LeavesNoFeature (t.addChild father s) := by
  intro n hn hleaf
  have hsl := ht.size_left
  have hsf := ht.size_feat
  simp only [Tree.addChild] at hn hleaf ⊢
  simp only [get_push2, get_set, size_set, hsl, hsf] at hleaf ⊢
  by_cases h1 : n < t.nNodes
  · by_cases h2 : father = n
    · subst h2
      simp only [h1, and_self, if_true] at hleaf
      omega
    · simp only [h1, h2, if_true, false_and, if_false] at hleaf ⊢
      exact hl n h1 hleaf
  · have : n = t.nNodes ∨ n = t.nNodes + 1 := by omega
    rcases this with h | h <;> subst h <;> simp <;> omega

/-- the names cover the tree: every internal node's feature index is a valid position of a list of `m` names -/
def Covers (t : Tree α) (m : Nat) : Prop :=
  ∀ n, n < t.nNodes → t.left[n]! ≠ -1 → 0 ≤ featAt t n ∧ (featAt t n).toNat < m

theorem featAt_mem_used {t : Tree α} (ht : WellFormed t) {n : Nat} (hn : n < t.nNodes) (hleaf : t.left[n]! ≠ -1) :
    0 ≤ featAt t n ∧ featAt t n ∈ usedFeatures t ∧ t.feat[n]! = some (featAt t n) := by
  obtain ⟨f, hf, h0⟩ := (ht.internal n hn hleaf).feat_some
  have e : featAt t n = f := by simp [featAt, hf]
  rw [e]
  exact ⟨h0, mem_usedFeatures.mpr ⟨n, by rw [ht.size_feat]; exact hn, hf⟩, hf⟩

theorem covers_of_ok {t : Tree α} (ht : WellFormed t) {a : NamesArg} (h : validateNames t (some a) = .ok ()) :
    Covers t a.items.size := by
  intro n hn hleaf
  obtain ⟨h0, hmem, _⟩ := featAt_mem_used ht hn hleaf
  have := ((validate_ok_iff t a).mp h).2 _ hmem
  omega

theorem ok_of_covers {t : Tree α} (ht : WellFormed t) (hl : LeavesNoFeature t) {a : NamesArg} (hd : a.ndim = 1)
    (hc : Covers t a.items.size) : validateNames t (some a) = .ok () := by
  refine (validate_ok_iff t a).mpr ⟨hd, ?_⟩
  intro f hf
  obtain ⟨n, hn, hfn⟩ := mem_usedFeatures.mp hf
  rw [ht.size_feat] at hn
  have hleaf : t.left[n]! ≠ -1 := by
    intro h
    rw [hl n hn h] at hfn
    exact absurd hfn (by simp)
  have := hc n hn hleaf
  have e : featAt t n = f := by simp [featAt, hfn]
  rw [e] at this
  omega

/-! ### the partial printer -/

theorem pyIndex_of_lt (a : Array String) {i : Int} (h0 : 0 ≤ i) (h1 : i.toNat < a.size) :
    pyIndex a i = some a[i.toNat]! := by
  simp [pyIndex, h0, h1]

/-- with names that cover the tree, `print_node` never raises and prints what the total printer prints with
    `name f = feature_names[f]` -/
theorem printNodeNamed_eq {t : Tree α} (ht : WellFormed t) (sh : α → String) {a : NamesArg}
    (hc : Covers t a.items.size) :
    ∀ (k node : Nat), node < t.nNodes → t.nNodes ≤ k + node →
      t.printNodeNamed sh (some a) k node = ⟨t.printNode sh (fun f => a.items[f.toNat]!) k node, none⟩ := by
  intro k
  induction k with
  | zero => intro node h1 h2; omega
  | succ k ih =>
    intro node hn hk
    by_cases hleaf : t.left[node]! = -1
    · simp [Tree.printNodeNamed, Tree.printNode, hleaf]
    · have hi := ht.internal node hn hleaf
      have hL := hi.left_toNat
      have hR := hi.right_toNat
      obtain ⟨h0, _, hfe⟩ := featAt_mem_used ht hn hleaf
      have hcn := hc node hn hleaf
      have hname : nameAt (some a) (t.feat[node]!) = some a.items[(featAt t node).toNat]! := by
        rw [hfe]; exact pyIndex_of_lt _ h0 hcn.2
      have hf : (t.feat[node]!).getD 0 = featAt t node := rfl
      simp only [Tree.printNodeNamed, Tree.printNode, beq_iff_eq, hleaf, if_false, hname,
        ih _ hL.2 (by omega), ih _ hR.2 (by omega), hf]
      cases t.thr[node]! <;> rfl

/-- without names (`feature_names=None`) `print_node` never raises and prints what the total printer prints with
    the default labels -/
theorem printNodeNamed_none_eq {t : Tree α} (ht : WellFormed t) (sh : α → String) :
    ∀ (k node : Nat), node < t.nNodes → t.nNodes ≤ k + node →
      t.printNodeNamed sh none k node = ⟨t.printNode sh (fun f => s!"X[:, {f}]") k node, none⟩ := by
  intro k
  induction k with
  | zero => intro node h1 h2; omega
  | succ k ih =>
    intro node hn hk
    by_cases hleaf : t.left[node]! = -1
    · simp [Tree.printNodeNamed, Tree.printNode, hleaf]
    · have hi := ht.internal node hn hleaf
      have hL := hi.left_toNat
      have hR := hi.right_toNat
      obtain ⟨_, _, hfe⟩ := featAt_mem_used ht hn hleaf
      have hname : nameAt none (t.feat[node]!) = some s!"X[:, {featAt t node}]" := by
        rw [hfe]; rfl
      have hf : (t.feat[node]!).getD 0 = featAt t node := rfl
      simp only [Tree.printNodeNamed, Tree.printNode, beq_iff_eq, hleaf, if_false, hname,
        ih _ hL.2 (by omega), ih _ hR.2 (by omega), hf]
      cases t.thr[node]! <;> rfl

/-! ### relabelling -/

/-- replace the feature label of a rule line -/
def Line.mapName (g : String → String) : Line → Line
  | .le d n th => .le d (g n) th
  | .gt d n th => .gt d (g n) th
  | l => l

/-- two label functions that correspond through `g` on the features of the internal nodes give the same lines up to
    relabelling with `g` -/
theorem printLines_mapName {t : Tree α} (ht : WellFormed t) (sh : α → String) (nm nm' : Int → String)
    (g : String → String)
    (hg : ∀ n, n < t.nNodes → t.left[n]! ≠ -1 → nm' (featAt t n) = g (nm (featAt t n))) :
    ∀ (k node : Nat), node < t.nNodes →
      printLines t sh nm' k node = (printLines t sh nm k node).map (Line.mapName g) := by
  intro k
  induction k with
  | zero => intro node _; simp [printLines]
  | succ k ih =>
    intro node hn
    by_cases hleaf : t.left[node]! = -1
    · simp [printLines, hleaf, Line.mapName]
    · have hi := ht.internal node hn hleaf
      simp only [printLines, beq_iff_eq, hleaf, if_false, List.map_append, List.map_cons, List.map_nil,
        Line.mapName, ih _ hi.left_toNat.2, ih _ hi.right_toNat.2, hg node hn hleaf]

/-- the label reader derived from the tree reads the label of every used feature back to its column, when the labels
    of used features are pairwise distinct -/
theorem colOfTree_name {t : Tree α} {nm : Int → String} (hn : NamesDistinct t nm) {n : Nat} (hlt : n < t.nNodes)
    (hne : t.left[n]! ≠ -1) : colOfTree t nm (nm (featAt t n)) = (featAt t n).toNat := by
  unfold colOfTree
  split
  · rename_i m hm
    have hp := List.find?_some hm
    have hmem := mem_internalNodes.mp (List.mem_of_find?_eq_some hm)
    rw [hn m n hmem.1 hlt hmem.2 hne (by simpa using hp)]
  · rename_i hnone
    have := List.find?_eq_none.mp hnone n (mem_internalNodes.mpr ⟨hlt, hne⟩)
    simp at this

/-- the validation answers with one of three outcomes -/
theorem validate_cases (t : Tree α) (names : Option NamesArg) :
    validateNames t names = .ok () ∨ validateNames t names = .error .notOneDim ∨
      validateNames t names = .error .tooFew := by
  unfold validateNames
  split
  · exact Or.inl rfl
  · split
    · exact Or.inr (Or.inl rfl)
    · simp only []
      split
      · exact Or.inr (Or.inr rfl)
      · exact Or.inl rfl

/-! ### facts about the example tree `KauriC19.Example.tree` used by the non-vacuity examples of Props/C19Names.lean -/

namespace Example
open KauriC19.Example

theorem right_eq : tree.right = #[2, -1, -1] := by simp [tree, Tree.addChild, Tree.init]
theorem depths_eq : tree.depths = #[0, 1, 1] := by simp [tree, Tree.addChild, Tree.init]
theorem target_eq : tree.target = #[0, 0, 1] := by simp [tree, Tree.addChild, Tree.init]

theorem ok_abc : validateNames tree (some ⟨1, #["a", "b", "c"]⟩) = .ok () := by
  refine (validate_ok_iff _ _).mpr ⟨rfl, ?_⟩
  simp [usedFeatures, feat_eq]

theorem thrDistinct : ThrDistinct tree sh := by
  intro n m hn hm hln hlm _
  rw [internal_zero hn hln, internal_zero hm hlm]

end Example

end GemVerif.KauriNames
