/-
  Helpers for Props/C05Gen.lean that do not mention the generated file:
    * the group loop: `W[g]`, `.reshape((1, -1))`, `.reshape(group.shape)`, `W_star[g] = …` in `IsMat` form, the loop
      invariant `RowsAre` (what the rows of the array being filled hold after some of the groups: the result of the
      LAST group containing the row — the model's `locate` —, or the uninitialised memory), and the fold rule;
    * ℝ satisfies the order laws the sort needs, and over ℝ with `M ≥ 0` the breakpoint count of `mlp_prox_grad` never
      reaches the last column (no IndexError in `np.take_along_axis`).
-/
import GemVerif.Lemmas.Np3
import GemVerif.Lemmas.ProxHier

set_option linter.unusedSectionVars false

namespace GemVerif.Np
open GemVerif RealLike Model.Prox

section generic
variable {α : Type} [RealLike α] {d n : Nat}

theorem flatGroup_flatIdx' (W : Fin d → Fin n → α) (g : List (Fin d)) (q : Fin g.length) (j : Fin n) :
    flatGroup W g (flatIdx q j) = W (g.get q) j := by
  unfold flatGroup; rw [unflat_flatIdx]

namespace Arr

/-- `W[g]` for a list of valid row indices: the `(len(g), n)` array of those rows, no IndexError -/
theorem IsMat.takeRows {A : Arr α} {f : Fin d → Fin n → α} (hA : IsMat A f) (g : List (Fin d)) :
    IsMat (takeRows A (g.map Fin.val)) (fun (q : Fin g.length) j => f (g.get q) j) := by
  obtain ⟨hok, hr, hc, hget⟩ := hA
  refine ⟨?_, by simp, hc, fun q j => ?_⟩
  · simp only [takeRows_ok, hok, Bool.true_and, List.all_eq_true, List.mem_map, decide_eq_true_eq]
    rintro _ ⟨i, _, rfl⟩
    rw [hr]; exact i.isLt
  · have hq : q.val < (g.map Fin.val).length := by simp
    rw [takeRows_get, List.getD_eq_getElem _ _ hq, List.getElem_map]
    exact hget _ j

/-- `A.reshape((1, -1))`: the model's row-major flattening (`unflat`) -/
theorem IsMat.flattenRow {m : Nat} {A : Arr α} {f : Fin m → Fin n → α} (hA : IsMat A f) :
    IsMat (flattenRow A) (fun (_ : Fin 1) (p : Fin (m * n)) => f (unflat p).1 (unflat p).2) := by
  obtain ⟨hok, hr, hc, hget⟩ := hA
  subst hr hc
  refine ⟨hok, rfl, rfl, fun _ p => ?_⟩
  exact hget (unflat p).1 (unflat p).2

/-- `R.reshape((m, n))` of a `(1, m·n)` row: entry `(q, j)` is entry `q·n + j` of the row (the model's `flatIdx`) -/
theorem IsMat.unflattenRow {m : Nat} {R : Arr α} {r : Fin (m * n) → α} (hR : IsMat R (fun (_ : Fin 1) p => r p)) :
    IsMat (reshape2 R m n) (fun q j => r (flatIdx q j)) := by
  obtain ⟨hok, hr, hc, hget⟩ := hR
  refine ⟨by simp [hok, hr, hc], rfl, rfl, fun q j => ?_⟩
  have hlt : q.val * n + j.val < m * n := (flatIdx q j).isLt
  rw [reshape2_get, hc, Nat.div_eq_of_lt hlt, Nat.mod_eq_of_lt hlt]
  exact hget ⟨0, Nat.one_pos⟩ (flatIdx q j)

/-- The rows of the array a `for g in groups:` loop fills: row `i` holds the slice of `res g` of the group recorded in
    `loc i` (at the position of `i` in it), or the uninitialised memory `junk` when no group has written it yet. -/
def RowsAre (junk : Nat → Nat → α) (res : (g : List (Fin d)) → Fin (g.length * n) → α) (A : Arr α)
    (loc : Fin d → Option ((g : List (Fin d)) × Fin g.length)) : Prop :=
  A.ok = true ∧ A.r = d ∧ A.c = n ∧ ∀ (i : Fin d) (j : Fin n),
    A.get i.val j.val = match loc i with
      | some r => res r.1 (flatIdx r.2 j)
      | none => junk i.val j.val

theorem RowsAre.empty (junk : Nat → Nat → α) (res : (g : List (Fin d)) → Fin (g.length * n) → α) :
    RowsAre junk res (Arr.empty junk d n) (fun _ => none) :=
  ⟨rfl, rfl, rfl, fun _ _ => rfl⟩

theorem RowsAre.checked {junk : Nat → Nat → α} {res : (g : List (Fin d)) → Fin (g.length * n) → α} {A : Arr α} {loc}
    (h : RowsAre junk res A loc) {b : Bool} (hb : b = true) : RowsAre junk res (checked b A) loc := by
  subst hb
  exact ⟨by simp [h.1], h.2.1, h.2.2.1, h.2.2.2⟩

/-- one `W_star[g] = R`: the rows of `g` now hold the slices of `R`, the others are unchanged.  `g` may repeat an index
    provided the slices written to the same row coincide (`hres`): then the order in which NumPy performs the writes —
    which it does not specify — is irrelevant (the DSL takes the last write, the model `List.finIdxOf?` the first). -/
theorem RowsAre.setRows {junk : Nat → Nat → α} {res : (g : List (Fin d)) → Fin (g.length * n) → α} {A : Arr α} {loc}
    (hA : RowsAre junk res A loc) {g : List (Fin d)}
    (hres : ∀ (q q' : Fin g.length) (j : Fin n), g.get q = g.get q' → res g (flatIdx q j) = res g (flatIdx q' j))
    {R : Arr α} (hR : IsMat R (fun (q : Fin g.length) (j : Fin n) => res g (flatIdx q j))) :
    RowsAre junk res (setRows A (g.map Fin.val) R) (fun i => locStep i (loc i) g) := by
  obtain ⟨hok, hr, hc, hget⟩ := hA
  obtain ⟨hRok, hRr, hRc, hRget⟩ := hR
  refine ⟨?_, hr, hc, fun i j => ?_⟩
  · simp only [setRows_ok, hok, hRok, hRr, hRc, hc, List.length_map, beq_self_eq_true, Bool.true_or, Bool.and_true,
      Bool.true_and, List.all_eq_true, List.mem_map, decide_eq_true_eq]
    rintro _ ⟨i, _, rfl⟩
    rw [hr]; exact i.isLt
  · rw [setRows_get]
    show _ = match locStep i (loc i) g with
      | some r => res r.1 (flatIdx r.2 j)
      | none => junk i.val j.val
    unfold locStep
    cases hq : g.finIdxOf? i with
    | none =>
      have hni : i ∉ g := List.finIdxOf?_eq_none_iff.mp hq
      have hni' : i.val ∉ g.map Fin.val := by
        rintro hmem
        obtain ⟨i', hi', he⟩ := List.mem_map.mp hmem
        exact hni (Fin.ext he ▸ hi')
      rw [lastIdx_of_not_mem hni']
      simp only []
      exact hget i j
    | some q =>
      have hgq : g[q.val] = i := (List.finIdxOf?_eq_some_iff.mp hq).1
      have hmem : i.val ∈ g.map Fin.val := List.mem_map.mpr ⟨i, by rw [← hgq]; exact List.getElem_mem _, rfl⟩
      obtain ⟨r, hr1, hr2⟩ := lastIdx_of_mem hmem
      have hrlt : r < g.length := by
        have := (List.getElem?_eq_some_iff.mp hr2).1
        simpa using this
      have hgr : g[r] = i := by
        have := (List.getElem?_eq_some_iff.mp hr2).2
        rw [List.getElem_map] at this
        exact Fin.ext this
      rw [hr1]
      simp only []
      rw [hRr, hRc, bidx_of_lt hrlt, bidx_val]
      refine (hRget ⟨r, hrlt⟩ j).trans (hres ⟨r, hrlt⟩ q j ?_)
      show g[r] = g[q.val]
      rw [hgr, hgq]

/-- the fold rule of the group loop: an invariant of the state, relative to what `locate` has recorded so far, is
    carried through `for g in groups:` -/
theorem foldl_groups {σ : Type} (P : σ → (Fin d → Option ((g : List (Fin d)) × Fin g.length)) → Prop)
    (body : σ → List Nat → σ) :
    ∀ (groups : List (List (Fin d))),
      (∀ st loc g, g ∈ groups → P st loc → P (body st (g.map Fin.val)) (fun i => locStep i (loc i) g)) →
      ∀ st loc, P st loc →
        P ((groups.map (List.map Fin.val)).foldl body st) (fun i => groups.foldl (locStep i) (loc i)) := by
  intro groups
  induction groups with
  | nil => intro _ st loc h; exact h
  | cons g gs ih =>
    intro hstep st loc h
    simp only [List.map_cons, List.foldl_cons]
    exact ih (fun st loc g' hg' hP => hstep st loc g' (List.mem_cons_of_mem _ hg') hP) _ _
      (hstep st loc g List.mem_cons_self h)

/-- reading the filled array against the model's `scatter`: covered rows hold the model's value, the others the
    uninitialised memory -/
theorem RowsAre.scatter {junk : Nat → Nat → α} {res : (g : List (Fin d)) → Fin (g.length * n) → α} {A : Arr α}
    {groups : List (List (Fin d))} (h : RowsAre junk res A (fun i => groups.foldl (locStep i) none)) (i : Fin d) :
    match Model.Prox.scatter groups res i with
    | some f => ∀ j : Fin n, A.get i.val j.val = f j
    | none => ∀ j : Fin n, A.get i.val j.val = junk i.val j.val := by
  have hg : ∀ j : Fin n, A.get i.val j.val = match groups.foldl (locStep i) none with
      | some r => res r.1 (flatIdx r.2 j)
      | none => junk i.val j.val := h.2.2.2 i
  unfold Model.Prox.scatter
  rw [locate_eq_foldl]
  cases hl : groups.foldl (locStep i) none with
  | none => intro j; have := hg j; rw [hl] at this; exact this
  | some r => intro j; have := hg j; rw [hl] at this; exact this

/-- `R` is without error a `d × n` array whose row `i` is `rows i` when the model says `some f`, and is still the
    uninitialised memory `junk` when the model says `none` (a row no group covers) -/
def IsPartialMat (junk : Nat → Nat → α) (R : Arr α) (rows : Fin d → Option (Fin n → α)) : Prop :=
  R.ok = true ∧ R.r = d ∧ R.c = n ∧ ∀ i : Fin d,
    match rows i with
    | some f => ∀ j : Fin n, R.get i.val j.val = f j
    | none => ∀ j : Fin n, R.get i.val j.val = junk i.val j.val

theorem RowsAre.isPartialMat {junk : Nat → Nat → α} {res : (g : List (Fin d)) → Fin (g.length * n) → α} {A : Arr α}
    {groups : List (List (Fin d))} (h : RowsAre junk res A (fun i => groups.foldl (locStep i) none)) :
    IsPartialMat junk A (Model.Prox.scatter groups res) :=
  ⟨h.1, h.2.1, h.2.2.1, fun i => h.scatter i⟩

theorem IsPartialMat.checked {junk : Nat → Nat → α} {R : Arr α} {rows : Fin d → Option (Fin n → α)}
    (h : IsPartialMat junk R rows) {b : Bool} (hb : b = true) : IsPartialMat junk (checked b R) rows := by
  subst hb
  exact ⟨by simp [h.1], h.2.1, h.2.2.1, h.2.2.2⟩

end Arr
end generic

/-! ### real numbers -/

theorem orderLaws_real : OrderLaws ℝ :=
  ⟨fun a b => by simpa using le_total a b, fun a b c h1 h2 => by simp at *; exact h1.trans h2,
   fun a b h1 h2 => by simp at *; exact le_antisymm h1 h2⟩

/-- Over ℝ with `M ≥ 0`, `idx = np.sum(lower > w)` never counts the last of the `h + 1` columns (`lower = 0 ≤ w` there):
    `idx ≤ h`, a valid column for `np.take_along_axis`. -/
theorem hierIdx_le_real (L : List ℝ) (al : ℝ) {M : ℝ} (hM : 0 ≤ M) {Nv : ℝ} (hN : 0 ≤ Nv) :
    hierIdx L al M Nv ≤ L.length := by
  unfold hierIdx
  refine countTo_succ_le ?_
  have hl : lowerS L L.length = 0 := by
    unfold lowerS; rw [map_append_zero_getD]; simp
  have hw : 0 ≤ wS L al M Nv L.length := by
    unfold wS
    exact mul_nonneg (mul_nonneg hM (xS_nonneg _ _ _ _ _)) hN
  simp [hl, not_lt.mpr hw]

end GemVerif.Np
