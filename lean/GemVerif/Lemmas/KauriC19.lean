/-
  Helper definitions and lemmas for C19 (the printed KAURI tree is a faithful description of the tree).
  No Mathlib.

  Layers
  * `Line` / `Line.render` / `printLines`: a structured twin of `Tree.printNode`
    (`printNode_eq_map_render`: the model's printed strings are exactly the rendered lines).
  * `Rules` / `parseAt` / `parse`: recursive-descent reader of the lines (written after the harness reader
    `harness/props/c19.py::parse_rules`: depth-directed, checks that both branches name the same feature and threshold).
  * `rulesOf`: the rule tree a well-formed tree denotes; `parseAt_printLines`: the reader recovers it.
  * `evalRules`; `evalRules_rulesOf`: applying the rules to a point is `Tree.route`.
-/
import GemVerif.Model.Kauri

namespace GemVerif.KauriC19
open GemVerif RealLike Model.Kauri

variable {α : Type} [RealLike α]
set_option linter.unusedSectionVars false

/-! ### lines -/

/-- the four kinds of lines `print_node` emits; `depth` is the number of leading `"| "` -/
inductive Line where
  | node (depth id : Nat)
  | cluster (depth : Nat) (c : Int)
  | le (depth : Nat) (name thr : String)
  | gt (depth : Nat) (name thr : String)
  deriving DecidableEq, Repr

/-- the text of a line, exactly as `print` composes it -/
def Line.render : Line → String
  | .node d id => rep "| " d ++ s!"Node {id}"
  | .cluster d c => rep "| " d ++ " " ++ s!"Cluster: {c}"
  | .le d n th => rep "| " d ++ "|=" ++ s!"{n} <= {th}"
  | .gt d n th => rep "| " d ++ "|=" ++ s!"{n} > {th}"

/-- the threshold text printed at `node` (`None` for a node without threshold, as Python prints it) -/
def thrStr (t : Tree α) (showThr : α → String) (node : Nat) : String :=
  match t.thr[node]! with
  | some x => showThr x
  | none => "None"

/-- the feature index `print_node` looks up in `feature_names` at `node` -/
def featAt (t : Tree α) (node : Nat) : Int := (t.feat[node]!).getD 0

/-- structured twin of `Tree.printNode` -/
def printLines (t : Tree α) (showThr : α → String) (name : Int → String) : Nat → Nat → List Line
  | 0, _ => []
  | fuel + 1, node =>
    let d := t.depths[node]!
    if t.left[node]! == -1 then
      [.node d node, .cluster d (t.target[node]!)]
    else
      [.node d node, .le d (name (featAt t node)) (thrStr t showThr node)]
        ++ printLines t showThr name fuel (t.left[node]!).toNat
        ++ [.gt d (name (featAt t node)) (thrStr t showThr node)]
        ++ printLines t showThr name fuel (t.right[node]!).toNat

/-- the strings of the printer model are the rendered structured lines -/
theorem printNode_eq_map_render (t : Tree α) (showThr : α → String) (name : Int → String) (fuel node : Nat) :
    t.printNode showThr name fuel node = (printLines t showThr name fuel node).map Line.render := by
  induction fuel generalizing node with
  | zero => simp [Tree.printNode, printLines]
  | succ k ih =>
    simp only [Tree.printNode, printLines]
    split
    · simp [Line.render]
    · simp [Line.render, ih, thrStr, featAt]
      cases t.thr[node]! <;> rfl

/-! ### rules, reader -/

/-- nested threshold rules with cluster labels at the leaves -/
inductive Rules where
  | leaf (c : Int)
  | split (name thr : String) (l r : Rules)
  deriving DecidableEq, Repr

/-- read one node at depth `d` from the front of `ls`; returns the rules and the unread lines.
    `fuel` bounds the nesting (any value ≥ number of lines is enough, see `parse`). -/
def parseAt : Nat → Nat → List Line → Option (Rules × List Line)
  | 0, _, _ => none
  | fuel + 1, d, ls =>
    match ls with
    | .node d₁ _ :: .cluster d₂ c :: rest =>
      if d₁ = d ∧ d₂ = d then some (.leaf c, rest) else none
    | .node d₁ _ :: .le d₂ n th :: rest =>
      if d₁ = d ∧ d₂ = d then
        match parseAt fuel (d + 1) rest with
        | some (l, .gt d₃ n' th' :: rest') =>
          if d₃ = d ∧ n' = n ∧ th' = th then
            match parseAt fuel (d + 1) rest' with
            | some (r, rest'') => some (.split n th l r, rest'')
            | none => none
          else none
        | _ => none
      else none
    | _ => none

/-- read a whole printed tree: one node at depth 0 and nothing after it -/
def parse (ls : List Line) : Option Rules :=
  match parseAt ls.length 0 ls with
  | some (r, []) => some r
  | _ => none

/-- apply rules to a point: `colOf` turns a printed feature label back into a column, `readThr` reads a
    printed threshold -/
def evalRules (colOf : String → Nat) (readThr : String → α) (x : Nat → α) : Rules → Int
  | .leaf c => c
  | .split n th l r =>
    if le (x (colOf n)) (readThr th) then evalRules colOf readThr x l else evalRules colOf readThr x r

/-- the rules a tree denotes (same recursion as the printer) -/
def rulesOf (t : Tree α) (showThr : α → String) (name : Int → String) : Nat → Nat → Rules
  | 0, node => .leaf (t.target[node]!)
  | fuel + 1, node =>
    if t.left[node]! == -1 then .leaf (t.target[node]!)
    else .split (name (featAt t node)) (thrStr t showThr node)
      (rulesOf t showThr name fuel (t.left[node]!).toNat)
      (rulesOf t showThr name fuel (t.right[node]!).toNat)

/-! ### well-formed trees -/

/-- what the arrays say about an internal node `n` -/
structure InternalOK (t : Tree α) (n : Nat) : Prop where
  left_gt : (n : Int) < t.left[n]!
  left_lt : t.left[n]! < (t.nNodes : Int)
  right_gt : (n : Int) < t.right[n]!
  right_lt : t.right[n]! < (t.nNodes : Int)
  depth_left : t.depths[(t.left[n]!).toNat]! = t.depths[n]! + 1
  depth_right : t.depths[(t.right[n]!).toNat]! = t.depths[n]! + 1
  thr_some : (t.thr[n]!).isSome = true
  feat_some : ∃ f : Int, t.feat[n]! = some f ∧ 0 ≤ f

/-- the structural part of the C09 invariant that printing and routing rely on: every array has one entry per
    node, the root has depth 0, children are numbered after their parent and are one level deeper, every internal
    node carries a feature and a threshold -/
structure WellFormed (t : Tree α) : Prop where
  pos : 0 < t.nNodes
  size_left : t.left.size = t.nNodes
  size_right : t.right.size = t.nNodes
  size_target : t.target.size = t.nNodes
  size_thr : t.thr.size = t.nNodes
  size_feat : t.feat.size = t.nNodes
  size_depths : t.depths.size = t.nNodes
  root_depth : t.depths[0]! = 0
  internal : ∀ n, n < t.nNodes → t.left[n]! ≠ -1 → InternalOK t n

theorem InternalOK.left_toNat {t : Tree α} {n : Nat} (h : InternalOK t n) :
    n < (t.left[n]!).toNat ∧ (t.left[n]!).toNat < t.nNodes := by
  have := h.left_gt; have := h.left_lt; omega

theorem InternalOK.right_toNat {t : Tree α} {n : Nat} (h : InternalOK t n) :
    n < (t.right[n]!).toNat ∧ (t.right[n]!).toNat < t.nNodes := by
  have := h.right_gt; have := h.right_lt; omega

/-! ### the reader recovers the rules -/

theorem printLines_length_pos (t : Tree α) (sh : α → String) (nm : Int → String) (k node : Nat) :
    2 ≤ (printLines t sh nm (k + 1) node).length := by
  simp only [printLines]
  split <;> simp <;> omega

/-- reading the printed lines of the subtree of `node` (followed by anything) returns the rules of that subtree
    and leaves the rest untouched -/
theorem parseAt_printLines {t : Tree α} (ht : WellFormed t) (sh : α → String) (nm : Int → String) :
    ∀ (k node f : Nat) (rest : List Line), node < t.nNodes → t.nNodes ≤ k + node →
      (printLines t sh nm k node).length ≤ f →
      parseAt f (t.depths[node]!) (printLines t sh nm k node ++ rest) = some (rulesOf t sh nm k node, rest) := by
  intro k
  induction k with
  | zero => intro node f rest h1 h2; omega
  | succ k ih =>
    intro node f rest hn hk hf
    have h2 := printLines_length_pos t sh nm k node
    obtain ⟨f, rfl⟩ : ∃ f', f = f' + 1 := ⟨f - 1, by omega⟩
    by_cases hl : t.left[node]! = -1
    · simp [printLines, rulesOf, parseAt, hl]
    · have hi := ht.internal node hn hl
      have hL := hi.left_toNat
      have hR := hi.right_toNat
      simp only [printLines, rulesOf, beq_iff_eq, hl, if_false] at hf ⊢
      simp only [List.length_append, List.length_cons, List.length_nil] at hf
      have ihL := ih (t.left[node]!).toNat f
        (Line.gt (t.depths[node]!) (nm (featAt t node)) (thrStr t sh node)
          :: (printLines t sh nm k (t.right[node]!).toNat ++ rest)) hL.2 (by omega) (by omega)
      have ihR := ih (t.right[node]!).toNat f rest hR.2 (by omega) (by omega)
      rw [hi.depth_left] at ihL
      rw [hi.depth_right] at ihR
      simp only [List.cons_append, List.nil_append, List.append_assoc, parseAt, and_self, if_true]
      rw [ihL]
      simp only [and_self, if_true]
      rw [ihR]

/-! ### applying the rules is routing -/

/-- how printed labels are read back, for the nodes of `t` -/
structure ReadBack (t : Tree α) (showThr : α → String) (name : Int → String)
    (colOf : String → Nat) (readThr : String → α) : Prop where
  thr : ∀ n, n < t.nNodes → t.left[n]! ≠ -1 → ∀ v, t.thr[n]! = some v → readThr (showThr v) = v
  col : ∀ n, n < t.nNodes → t.left[n]! ≠ -1 → colOf (name (featAt t n)) = (featAt t n).toNat

theorem evalRules_rulesOf {t : Tree α} (ht : WellFormed t) {sh : α → String} {nm : Int → String}
    {colOf : String → Nat} {readThr : String → α} (hrb : ReadBack t sh nm colOf readThr) (x : Nat → α) :
    ∀ (k node : Nat), node < t.nNodes → t.nNodes ≤ k + node →
      evalRules colOf readThr x (rulesOf t sh nm k node) = t.route x k node := by
  intro k
  induction k with
  | zero => intro node h1 h2; omega
  | succ k ih =>
    intro node hn hk
    by_cases hl : t.left[node]! = -1
    · simp [rulesOf, Tree.route, evalRules, hl]
    · have hi := ht.internal node hn hl
      have hL := hi.left_toNat
      have hR := hi.right_toNat
      obtain ⟨v, hv⟩ := Option.isSome_iff_exists.mp hi.thr_some
      have h1 := hrb.thr node hn hl v hv
      have h2 := hrb.col node hn hl
      simp only [rulesOf, Tree.route, evalRules, beq_iff_eq, hl, if_false, hv, thrStr, h1, h2]
      rw [ih _ hL.2 (by omega), ih _ hR.2 (by omega)]
      rfl

end GemVerif.KauriC19
