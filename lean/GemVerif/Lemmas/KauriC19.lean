/-
  Helper definitions and lemmas for C19 (the printed KAURI tree is a faithful description of the tree).
  No Mathlib.

  Layers
  * `Line` / `Line.render` / `printLines`: a structured twin of `Tree.printNode`
    (`printNode_eq_map_render`: the model's printed strings are exactly the rendered lines).
  * `Rules` / `parseAt` / `parse`: recursive-descent reader of the lines (written after the harness reader
    `harness/props/c19.py::parse_rules`: depth-directed, checks that both branches name the same feature and threshold).
  * `rulesOf`: the rule tree a well-formed tree denotes; `parseAt_printLines`: the reader recovers it.
  * `evalRules`; `evalRules_rulesOf`: applying the rules to a point is `Tree.route`.
  * `Line.read` / `read_render`: a printed string determines its line (text level); `readLines`, `parseText`.
  * `splitLines` / `textOf` / `splitLines_textOf`: one text ↔ its lines; `parseString`.
  * `colOfTree`, `readThrTree`, `readBack_of_distinct`: label readers derived from distinctness.
  * `wellFormed_init`, `wellFormed_addChild`: `WellFormed` holds for every tree `fit` builds.
  * `Example`: a concrete 3-node tree over `Rat` satisfying every hypothesis.
-/
import GemVerif.Model.Kauri
import Std.Data.String.ToInt

namespace GemVerif.KauriC19
open GemVerif RealLike Model.Kauri

variable {α : Type} [RealLike α]
set_option linter.unusedSectionVars false

/-! ### lines -/

/-- the four kinds of lines `print_node` emits; `depth` is the number of leading `"| "` -/
inductive Line where
  | node (depth id : Nat)
  | cluster (depth : Nat) (c : Int)
  | le (depth : Nat) (name thr : String)
  | gt (depth : Nat) (name thr : String)
  deriving DecidableEq, Repr

/-- the text of a line, exactly as `print` composes it -/
def Line.render : Line → String
  | .node d id => rep "| " d ++ s!"Node {id}"
  | .cluster d c => rep "| " d ++ " " ++ s!"Cluster: {c}"
  | .le d n th => rep "| " d ++ "|=" ++ s!"{n} <= {th}"
  | .gt d n th => rep "| " d ++ "|=" ++ s!"{n} > {th}"

/-- the threshold text printed at `node` (`None` for a node without threshold, as Python prints it) -/
def thrStr (t : Tree α) (showThr : α → String) (node : Nat) : String :=
  match t.thr[node]! with
  | some x => showThr x
  | none => "None"

/-- the feature index `print_node` looks up in `feature_names` at `node` -/
def featAt (t : Tree α) (node : Nat) : Int := (t.feat[node]!).getD 0

/-- structured twin of `Tree.printNode` -/
def printLines (t : Tree α) (showThr : α → String) (name : Int → String) : Nat → Nat → List Line
  | 0, _ => []
  | fuel + 1, node =>
    let d := t.depths[node]!
    if t.left[node]! == -1 then
      [.node d node, .cluster d (t.target[node]!)]
    else
      [.node d node, .le d (name (featAt t node)) (thrStr t showThr node)]
        ++ printLines t showThr name fuel (t.left[node]!).toNat
        ++ [.gt d (name (featAt t node)) (thrStr t showThr node)]
        ++ printLines t showThr name fuel (t.right[node]!).toNat

/-- the strings of the printer model are the rendered structured lines -/
theorem printNode_eq_map_render (t : Tree α) (showThr : α → String) (name : Int → String) (fuel node : Nat) :
    t.printNode showThr name fuel node = (printLines t showThr name fuel node).map Line.render := by
  induction fuel generalizing node with
  | zero => simp [Tree.printNode, printLines]
  | succ k ih =>
    simp only [Tree.printNode, printLines]
    split
    · simp [Line.render]
    · simp [Line.render, ih, thrStr, featAt]
      cases t.thr[node]! <;> rfl

/-! ### rules, reader -/

/-- nested threshold rules with cluster labels at the leaves -/
inductive Rules where
  | leaf (c : Int)
  | split (name thr : String) (l r : Rules)
  deriving DecidableEq, Repr

/-- read one node at depth `d` from the front of `ls`; returns the rules and the unread lines.
    `fuel` bounds the nesting (any value ≥ number of lines is enough, see `parse`). -/
def parseAt : Nat → Nat → List Line → Option (Rules × List Line)
  | 0, _, _ => none
  | fuel + 1, d, ls =>
    match ls with
    | .node d₁ _ :: .cluster d₂ c :: rest =>
      if d₁ = d ∧ d₂ = d then some (.leaf c, rest) else none
    | .node d₁ _ :: .le d₂ n th :: rest =>
      if d₁ = d ∧ d₂ = d then
        match parseAt fuel (d + 1) rest with
        | some (l, .gt d₃ n' th' :: rest') =>
          if d₃ = d ∧ n' = n ∧ th' = th then
            match parseAt fuel (d + 1) rest' with
            | some (r, rest'') => some (.split n th l r, rest'')
            | none => none
          else none
        | _ => none
      else none
    | _ => none

/-- read a whole printed tree: one node at depth 0 and nothing after it -/
def parse (ls : List Line) : Option Rules :=
  match parseAt ls.length 0 ls with
  | some (r, []) => some r
  | _ => none

/-- apply rules to a point: `colOf` turns a printed feature label back into a column, `readThr` reads a
    printed threshold -/
def evalRules (colOf : String → Nat) (readThr : String → α) (x : Nat → α) : Rules → Int
  | .leaf c => c
  | .split n th l r =>
    if le (x (colOf n)) (readThr th) then evalRules colOf readThr x l else evalRules colOf readThr x r

/-- the rules a tree denotes (same recursion as the printer) -/
def rulesOf (t : Tree α) (showThr : α → String) (name : Int → String) : Nat → Nat → Rules
  | 0, node => .leaf (t.target[node]!)
  | fuel + 1, node =>
    if t.left[node]! == -1 then .leaf (t.target[node]!)
    else .split (name (featAt t node)) (thrStr t showThr node)
      (rulesOf t showThr name fuel (t.left[node]!).toNat)
      (rulesOf t showThr name fuel (t.right[node]!).toNat)

/-! ### well-formed trees -/

/-- what the arrays say about an internal node `n` -/
structure InternalOK (t : Tree α) (n : Nat) : Prop where
  left_gt : (n : Int) < t.left[n]!
  left_lt : t.left[n]! < (t.nNodes : Int)
  right_gt : (n : Int) < t.right[n]!
  right_lt : t.right[n]! < (t.nNodes : Int)
  depth_left : t.depths[(t.left[n]!).toNat]! = t.depths[n]! + 1
  depth_right : t.depths[(t.right[n]!).toNat]! = t.depths[n]! + 1
  thr_some : (t.thr[n]!).isSome = true
  feat_some : ∃ f : Int, t.feat[n]! = some f ∧ 0 ≤ f

/-- the structural part of the C09 invariant that printing and routing rely on: every array has one entry per
    node, the root has depth 0, children are numbered after their parent and are one level deeper, every internal
    node carries a feature and a threshold -/
structure WellFormed (t : Tree α) : Prop where
  pos : 0 < t.nNodes
  size_left : t.left.size = t.nNodes
  size_right : t.right.size = t.nNodes
  size_target : t.target.size = t.nNodes
  size_thr : t.thr.size = t.nNodes
  size_feat : t.feat.size = t.nNodes
  size_depths : t.depths.size = t.nNodes
  root_depth : t.depths[0]! = 0
  internal : ∀ n, n < t.nNodes → t.left[n]! ≠ -1 → InternalOK t n

theorem InternalOK.left_toNat {t : Tree α} {n : Nat} (h : InternalOK t n) :
    n < (t.left[n]!).toNat ∧ (t.left[n]!).toNat < t.nNodes := by
  have := h.left_gt; have := h.left_lt; omega

theorem InternalOK.right_toNat {t : Tree α} {n : Nat} (h : InternalOK t n) :
    n < (t.right[n]!).toNat ∧ (t.right[n]!).toNat < t.nNodes := by
  have := h.right_gt; have := h.right_lt; omega

/-! ### the reader recovers the rules -/

theorem printLines_length_pos (t : Tree α) (sh : α → String) (nm : Int → String) (k node : Nat) :
    2 ≤ (printLines t sh nm (k + 1) node).length := by
  simp only [printLines]
  split <;> simp <;> omega

/-- reading the printed lines of the subtree of `node` (followed by anything) returns the rules of that subtree
    and leaves the rest untouched -/
theorem parseAt_printLines {t : Tree α} (ht : WellFormed t) (sh : α → String) (nm : Int → String) :
    ∀ (k node f : Nat) (rest : List Line), node < t.nNodes → t.nNodes ≤ k + node →
      (printLines t sh nm k node).length ≤ f →
      parseAt f (t.depths[node]!) (printLines t sh nm k node ++ rest) = some (rulesOf t sh nm k node, rest) := by
  intro k
  induction k with
  | zero => intro node f rest h1 h2; omega
  | succ k ih =>
    intro node f rest hn hk hf
    have h2 := printLines_length_pos t sh nm k node
    obtain ⟨f, rfl⟩ : ∃ f', f = f' + 1 := ⟨f - 1, by omega⟩
    by_cases hl : t.left[node]! = -1
    · simp [printLines, rulesOf, parseAt, hl]
    · have hi := ht.internal node hn hl
      have hL := hi.left_toNat
      have hR := hi.right_toNat
      simp only [printLines, rulesOf, beq_iff_eq, hl, if_false] at hf ⊢
      simp only [List.length_append, List.length_cons, List.length_nil] at hf
      have ihL := ih (t.left[node]!).toNat f
        (Line.gt (t.depths[node]!) (nm (featAt t node)) (thrStr t sh node)
          :: (printLines t sh nm k (t.right[node]!).toNat ++ rest)) hL.2 (by omega) (by omega)
      have ihR := ih (t.right[node]!).toNat f rest hR.2 (by omega) (by omega)
      rw [hi.depth_left] at ihL
      rw [hi.depth_right] at ihR
      simp only [List.cons_append, List.nil_append, List.append_assoc, parseAt, and_self, if_true]
      rw [ihL]
      simp only [and_self, if_true]
      rw [ihR]

/-! ### applying the rules is routing -/

/-- how printed labels are read back, for the nodes of `t` -/
structure ReadBack (t : Tree α) (showThr : α → String) (name : Int → String)
    (colOf : String → Nat) (readThr : String → α) : Prop where
  thr : ∀ n, n < t.nNodes → t.left[n]! ≠ -1 → ∀ v, t.thr[n]! = some v → readThr (showThr v) = v
  col : ∀ n, n < t.nNodes → t.left[n]! ≠ -1 → colOf (name (featAt t n)) = (featAt t n).toNat

theorem evalRules_rulesOf {t : Tree α} (ht : WellFormed t) {sh : α → String} {nm : Int → String}
    {colOf : String → Nat} {readThr : String → α} (hrb : ReadBack t sh nm colOf readThr) (x : Nat → α) :
    ∀ (k node : Nat), node < t.nNodes → t.nNodes ≤ k + node →
      evalRules colOf readThr x (rulesOf t sh nm k node) = t.route x k node := by
  intro k
  induction k with
  | zero => intro node h1 h2; omega
  | succ k ih =>
    intro node hn hk
    by_cases hl : t.left[node]! = -1
    · simp [rulesOf, Tree.route, evalRules, hl]
    · have hi := ht.internal node hn hl
      have hL := hi.left_toNat
      have hR := hi.right_toNat
      obtain ⟨v, hv⟩ := Option.isSome_iff_exists.mp hi.thr_some
      have h1 := hrb.thr node hn hl v hv
      have h2 := hrb.col node hn hl
      simp only [rulesOf, Tree.route, evalRules, beq_iff_eq, hl, if_false, hv, thrStr, h1, h2]
      rw [ih _ hL.2 (by omega), ih _ hR.2 (by omega)]
      rfl

/-! ### the text level: every printed line determines its structured line -/

/-- count and remove the leading `"| "` -/
def stripBars : List Char → Nat × List Char
  | '|' :: ' ' :: cs => ((stripBars cs).1 + 1, (stripBars cs).2)
  | cs => (0, cs)

def readBody (d : Nat) (body : List Char) : Option Line :=
  let rb := body.reverse
  let thr := (rb.takeWhile (· != ' ')).reverse
  match rb.dropWhile (· != ' ') with
  | ' ' :: '=' :: '<' :: ' ' :: nameRev => some (.le d (String.ofList nameRev.reverse) (String.ofList thr))
  | ' ' :: '>' :: ' ' :: nameRev => some (.gt d (String.ofList nameRev.reverse) (String.ofList thr))
  | _ => none

def readChars (cs : List Char) : Option Line :=
  match stripBars cs with
  | (d, 'N' :: 'o' :: 'd' :: 'e' :: ' ' :: ds) => (String.ofList ds).toNat?.map (Line.node d)
  | (d, ' ' :: 'C' :: 'l' :: 'u' :: 's' :: 't' :: 'e' :: 'r' :: ':' :: ' ' :: ds) =>
    (String.ofList ds).toInt?.map (Line.cluster d)
  | (d, '|' :: '=' :: body) => readBody d body
  | _ => none

def Line.read (s : String) : Option Line := readChars s.toList


theorem toList_rep (d : Nat) : (rep "| " d).toList = (List.replicate d ['|', ' ']).flatten := by
  induction d with
  | zero => simp [rep]
  | succ k ih => simp [rep, List.replicate_succ, String.toList_join] at ih ⊢; exact ih

theorem stripBars_rep (d : Nat) (r : List Char) (h : ∀ cs, r ≠ '|' :: ' ' :: cs) :
    stripBars ((List.replicate d ['|', ' ']).flatten ++ r) = (d, r) := by
  induction d with
  | zero =>
    simp
    unfold stripBars
    split
    · exact absurd rfl (h _)
    · rfl
  | succ k ih => simp [List.replicate_succ, stripBars, ih]


theorem toString_str (s : String) : toString s = s := rfl

theorem toList_render_le (d : Nat) (n th : String) : (Line.render (.le d n th)).toList =
    (List.replicate d ['|', ' ']).flatten ++ ('|' :: '=' :: (n.toList ++ ' ' :: '<' :: '=' :: ' ' :: th.toList)) := by
  simp [Line.render, toList_rep, toString_str]
theorem toList_render_gt (d : Nat) (n th : String) : (Line.render (.gt d n th)).toList =
    (List.replicate d ['|', ' ']).flatten ++ ('|' :: '=' :: (n.toList ++ ' ' :: '>' :: ' ' :: th.toList)) := by
  simp [Line.render, toList_rep, toString_str]
theorem toList_render_node (d : Nat) (n : Nat) : (Line.render (.node d n)).toList =
    (List.replicate d ['|', ' ']).flatten ++ ('N' :: 'o' :: 'd' :: 'e' :: ' ' :: (Nat.repr n).toList) := by
  simp [Line.render, toList_rep, toString_str]
theorem toList_render_cluster (d : Nat) (n : Int) : (Line.render (.cluster d n)).toList =
    (List.replicate d ['|', ' ']).flatten ++ (' ' :: 'C' :: 'l' :: 'u' :: 's' :: 't' :: 'e' :: 'r' :: ':' :: ' ' :: (Int.repr n).toList) := by
  simp [Line.render, toList_rep, toString_str]

theorem readBody_le (d : Nat) (n th : List Char) (h : ∀ c ∈ th, c ≠ ' ') :
    readBody d (n ++ ' ' :: '<' :: '=' :: ' ' :: th) = some (.le d (String.ofList n) (String.ofList th)) := by
  have e : (n ++ ' ' :: '<' :: '=' :: ' ' :: th).reverse = th.reverse ++ (' ' :: '=' :: '<' :: ' ' :: n.reverse) := by
    simp
  have hp : ∀ c ∈ th.reverse, (c != ' ') = true := by
    intro c hc; simpa using h c (List.mem_reverse.mp hc)
  simp only [readBody, e, List.takeWhile_append_of_pos hp, List.dropWhile_append_of_pos hp]
  simp

theorem readBody_gt (d : Nat) (n th : List Char) (h : ∀ c ∈ th, c ≠ ' ') :
    readBody d (n ++ ' ' :: '>' :: ' ' :: th) = some (.gt d (String.ofList n) (String.ofList th)) := by
  have e : (n ++ ' ' :: '>' :: ' ' :: th).reverse = th.reverse ++ (' ' :: '>' :: ' ' :: n.reverse) := by
    simp
  have hp : ∀ c ∈ th.reverse, (c != ' ') = true := by
    intro c hc; simpa using h c (List.mem_reverse.mp hc)
  simp only [readBody, e, List.takeWhile_append_of_pos hp, List.dropWhile_append_of_pos hp]
  simp

/-- a line whose threshold text contains no blank -/
def Line.ThrNoBlank : Line → Prop
  | .le _ _ th => ∀ c ∈ th.toList, c ≠ ' '
  | .gt _ _ th => ∀ c ∈ th.toList, c ≠ ' '
  | _ => True

theorem read_render (l : Line) (h : l.ThrNoBlank) : Line.read (Line.render l) = some l := by
  cases l with
  | node d id =>
    rw [Line.read, toList_render_node, readChars, stripBars_rep _ _ (by simp)]
    simp [← Nat.repr_eq_ofList_toDigits]
  | cluster d c =>
    rw [Line.read, toList_render_cluster, readChars, stripBars_rep _ _ (by simp)]
    simp
  | le d n th =>
    rw [Line.read, toList_render_le, readChars, stripBars_rep _ _ (by simp)]
    simp [readBody_le d n.toList th.toList h]
  | gt d n th =>
    rw [Line.read, toList_render_gt, readChars, stripBars_rep _ _ (by simp)]
    simp [readBody_gt d n.toList th.toList h]

/-- read every line -/
def readLines : List String → Option (List Line)
  | [] => some []
  | s :: ss =>
    match Line.read s, readLines ss with
    | some l, some ls => some (l :: ls)
    | _, _ => none

theorem readLines_map_render (ls : List Line) (h : ∀ l ∈ ls, l.ThrNoBlank) :
    readLines (ls.map Line.render) = some ls := by
  induction ls with
  | nil => rfl
  | cons l ls ih =>
    simp only [List.map_cons, readLines, read_render l (h l (List.mem_cons_self ..)),
      ih (fun l' hl' => h l' (List.mem_cons_of_mem _ hl'))]

/-- read the printed lines back into rules -/
def parseText (ss : List String) : Option Rules := (readLines ss).bind parse

/-- no printed threshold of the tree contains a blank (Python's `repr(float)` never does) -/
def ThrNoBlank (t : Tree α) (showThr : α → String) : Prop :=
  ∀ n, n < t.nNodes → t.left[n]! ≠ -1 → ∀ v, t.thr[n]! = some v → ∀ c ∈ (showThr v).toList, c ≠ ' '

/-- a property of lines that holds for every node line, every cluster line and the two rule lines of every internal
    node holds for every printed line -/
theorem printLines_forall {t : Tree α} (ht : WellFormed t) (sh : α → String) (nm : Int → String) (P : Line → Prop)
    (hnode : ∀ d i, P (.node d i)) (hcl : ∀ d c, P (.cluster d c))
    (hrule : ∀ n, n < t.nNodes → t.left[n]! ≠ -1 → ∀ d,
      P (.le d (nm (featAt t n)) (thrStr t sh n)) ∧ P (.gt d (nm (featAt t n)) (thrStr t sh n))) :
    ∀ (k node : Nat), node < t.nNodes → ∀ l ∈ printLines t sh nm k node, P l := by
  intro k
  induction k with
  | zero => intro node _ l hl; simp [printLines] at hl
  | succ k ih =>
    intro node hn l hl
    by_cases hleaf : t.left[node]! = -1
    · simp only [printLines, hleaf, beq_self_eq_true, if_true, List.mem_cons, List.not_mem_nil, or_false] at hl
      rcases hl with rfl | rfl
      · exact hnode _ _
      · exact hcl _ _
    · have hi := ht.internal node hn hleaf
      have hr := hrule node hn hleaf (t.depths[node]!)
      simp only [printLines, beq_iff_eq, hleaf, if_false, List.mem_append, List.mem_cons, List.not_mem_nil,
        or_false] at hl
      rcases hl with ((((rfl | rfl) | hl) | rfl) | hl)
      · exact hnode _ _
      · exact hr.1
      · exact ih _ hi.left_toNat.2 l hl
      · exact hr.2
      · exact ih _ hi.right_toNat.2 l hl

theorem thrStr_of_some {t : Tree α} {sh : α → String} {n : Nat} {v : α} (hv : t.thr[n]! = some v) :
    thrStr t sh n = sh v := by
  simp [thrStr, hv]

theorem printLines_thrNoBlank {t : Tree α} (ht : WellFormed t) {sh : α → String} (hnb : ThrNoBlank t sh)
    (nm : Int → String) :
    ∀ (k node : Nat), node < t.nNodes → ∀ l ∈ printLines t sh nm k node, l.ThrNoBlank := by
  refine printLines_forall ht sh nm Line.ThrNoBlank (fun _ _ => True.intro) (fun _ _ => True.intro) ?_
  intro n hn hleaf d
  obtain ⟨v, hv⟩ := Option.isSome_iff_exists.mp (ht.internal n hn hleaf).thr_some
  have hth : ∀ c ∈ (thrStr t sh n).toList, c ≠ ' ' := by
    rw [thrStr_of_some hv]; exact hnb n hn hleaf v hv
  exact ⟨hth, hth⟩

/-! ### from one text to lines -/

/-- cut at newlines; `acc` holds the current line, reversed.  A final newline does not start a new line. -/
def splitNL : List Char → List Char → List (List Char)
  | acc, [] => if acc.isEmpty then [] else [acc.reverse]
  | acc, c :: cs => if c = '\n' then acc.reverse :: splitNL [] cs else splitNL (c :: acc) cs

/-- the lines of a text -/
def splitLines (s : String) : List String := (splitNL [] s.toList).map String.ofList

/-- what `print` writes for a list of lines: each followed by a newline -/
def textOf (lines : List String) : String := String.join (lines.map (· ++ "\n"))

theorem splitNL_line (l : List Char) (h : ∀ c ∈ l, c ≠ '\n') (acc rest : List Char) :
    splitNL acc (l ++ '\n' :: rest) = (acc.reverse ++ l) :: splitNL [] rest := by
  induction l generalizing acc with
  | nil => simp [splitNL]
  | cons c cs ih =>
    have hc : c ≠ '\n' := h c (List.mem_cons_self ..)
    simp [splitNL, hc, ih (fun c' hc' => h c' (List.mem_cons_of_mem _ hc'))]

theorem splitLines_textOf (ls : List String) (h : ∀ s ∈ ls, ∀ c ∈ s.toList, c ≠ '\n') :
    splitLines (textOf ls) = ls := by
  have key : ∀ ls : List String, (∀ s ∈ ls, ∀ c ∈ s.toList, c ≠ '\n') →
      (splitNL [] ((ls.map (· ++ "\n")).flatMap String.toList)).map String.ofList = ls := by
    intro ls
    induction ls with
    | nil => intro _; simp [splitNL]
    | cons s ss ih =>
      intro h
      have h1 := h s (List.mem_cons_self ..)
      have h2 := ih (fun s' hs' => h s' (List.mem_cons_of_mem _ hs'))
      simp only [List.map_cons, List.flatMap_cons, String.toList_append]
      have : ("\n" : String).toList = ['\n'] := by simp
      rw [this, List.append_assoc, List.singleton_append, splitNL_line _ h1]
      simp [h2]
  simp only [splitLines, textOf, String.toList_join]
  exact key ls h

theorem newline_not_mem_toDigits (n : Nat) : '\n' ∉ Nat.toDigits 10 n := by
  intro h
  have := Nat.isDigit_of_mem_toDigits (by decide) (by decide) h
  exact absurd this (by decide)

theorem newline_not_mem_intRepr (a : Int) : '\n' ∉ (Int.repr a).toList := by
  cases a with
  | ofNat m => simpa [Int.repr] using newline_not_mem_toDigits m
  | negSucc m => simpa [Int.repr] using newline_not_mem_toDigits (m + 1)

/-- a line whose labels contain no newline -/
def Line.NoNewline : Line → Prop
  | .le _ n th => (∀ c ∈ n.toList, c ≠ '\n') ∧ (∀ c ∈ th.toList, c ≠ '\n')
  | .gt _ n th => (∀ c ∈ n.toList, c ≠ '\n') ∧ (∀ c ∈ th.toList, c ≠ '\n')
  | _ => True

theorem newline_not_mem_bars (d : Nat) : '\n' ∉ (List.replicate d ['|', ' ']).flatten := by
  induction d with
  | zero => simp
  | succ k _ => simp [List.replicate_succ]

theorem render_noNewline (l : Line) (h : l.NoNewline) : ∀ c ∈ l.render.toList, c ≠ '\n' := by
  intro c hc heq
  subst heq
  cases l with
  | node d id =>
    rw [toList_render_node, List.mem_append] at hc
    rcases hc with hc | hc
    · exact newline_not_mem_bars d hc
    · simp at hc
      exact newline_not_mem_toDigits id hc
  | cluster d a =>
    rw [toList_render_cluster, List.mem_append] at hc
    rcases hc with hc | hc
    · exact newline_not_mem_bars d hc
    · simp at hc
      exact newline_not_mem_intRepr a hc
  | le d n th =>
    rw [toList_render_le, List.mem_append] at hc
    rcases hc with hc | hc
    · exact newline_not_mem_bars d hc
    · simp at hc
      rcases hc with hc | hc
      · exact h.1 _ hc rfl
      · exact h.2 _ hc rfl
  | gt d n th =>
    rw [toList_render_gt, List.mem_append] at hc
    rcases hc with hc | hc
    · exact newline_not_mem_bars d hc
    · simp at hc
      rcases hc with hc | hc
      · exact h.1 _ hc rfl
      · exact h.2 _ hc rfl

/-- no printed label of the tree (feature label, threshold) contains a newline -/
def NoNewline (t : Tree α) (showThr : α → String) (name : Int → String) : Prop :=
  ∀ n, n < t.nNodes → t.left[n]! ≠ -1 →
    (∀ c ∈ (name (featAt t n)).toList, c ≠ '\n') ∧ ∀ v, t.thr[n]! = some v → ∀ c ∈ (showThr v).toList, c ≠ '\n'

theorem printLines_noNewline {t : Tree α} (ht : WellFormed t) {sh : α → String} {nm : Int → String}
    (hnl : NoNewline t sh nm) :
    ∀ (k node : Nat), node < t.nNodes → ∀ l ∈ printLines t sh nm k node, l.NoNewline := by
  refine printLines_forall ht sh nm Line.NoNewline (fun _ _ => True.intro) (fun _ _ => True.intro) ?_
  intro n hn hleaf d
  obtain ⟨v, hv⟩ := Option.isSome_iff_exists.mp (ht.internal n hn hleaf).thr_some
  have h := hnl n hn hleaf
  have hth : ∀ c ∈ (thrStr t sh n).toList, c ≠ '\n' := by
    rw [thrStr_of_some hv]; exact h.2 v hv
  exact ⟨⟨h.1, hth⟩, ⟨h.1, hth⟩⟩

/-- read a whole printed text back into rules -/
def parseString (s : String) : Option Rules := parseText (splitLines s)

/-! ### reading labels back when they are pairwise distinct -/

/-- nodes that carry a rule -/
def internalNodes (t : Tree α) : List Nat := (List.range t.nNodes).filter fun n => t.left[n]! != -1

theorem mem_internalNodes {t : Tree α} {n : Nat} : n ∈ internalNodes t ↔ n < t.nNodes ∧ t.left[n]! ≠ -1 := by
  simp [internalNodes]

/-- column of a printed feature label: the feature of the first node printed with that label -/
def colOfTree (t : Tree α) (name : Int → String) (s : String) : Nat :=
  match (internalNodes t).find? (fun n => name (featAt t n) == s) with
  | some n => (featAt t n).toNat
  | none => 0

/-- value of a printed threshold: the threshold of the first node printed with that text -/
def readThrTree (t : Tree α) (showThr : α → String) (s : String) : α :=
  match (internalNodes t).find? (fun n => thrStr t showThr n == s) with
  | some n => (t.thr[n]!).getD 0
  | none => 0

/-- the labels of the features the tree uses are pairwise distinct -/
def NamesDistinct (t : Tree α) (name : Int → String) : Prop :=
  ∀ n m, n < t.nNodes → m < t.nNodes → t.left[n]! ≠ -1 → t.left[m]! ≠ -1 →
    name (featAt t n) = name (featAt t m) → featAt t n = featAt t m

/-- different thresholds of the tree print differently -/
def ThrDistinct (t : Tree α) (showThr : α → String) : Prop :=
  ∀ n m, n < t.nNodes → m < t.nNodes → t.left[n]! ≠ -1 → t.left[m]! ≠ -1 →
    thrStr t showThr n = thrStr t showThr m → t.thr[n]! = t.thr[m]!

theorem readBack_of_distinct {t : Tree α} {sh : α → String} {nm : Int → String}
    (hn : NamesDistinct t nm) (hth : ThrDistinct t sh) :
    ReadBack t sh nm (colOfTree t nm) (readThrTree t sh) := by
  constructor
  · intro n hlt hne v hv
    have hs : thrStr t sh n = sh v := by simp [thrStr, hv]
    unfold readThrTree
    split
    · rename_i m hm
      have hp := List.find?_some hm
      have hmem := mem_internalNodes.mp (List.mem_of_find?_eq_some hm)
      have := hth m n hmem.1 hlt hmem.2 hne (by simpa [hs] using hp)
      rw [this, hv]; rfl
    · rename_i hnone
      have := List.find?_eq_none.mp hnone n (mem_internalNodes.mpr ⟨hlt, hne⟩)
      simp [hs] at this
  · intro n hlt hne
    unfold colOfTree
    split
    · rename_i m hm
      have hp := List.find?_some hm
      have hmem := mem_internalNodes.mp (List.mem_of_find?_eq_some hm)
      rw [hn m n hmem.1 hlt hmem.2 hne (by simpa using hp)]
    · rename_i hnone
      have := List.find?_eq_none.mp hnone n (mem_internalNodes.mpr ⟨hlt, hne⟩)
      simp at this

/-- the default labels `X[:, f]` are pairwise distinct -/
theorem defaultName_injective {f g : Int} (h : (s!"X[:, {f}]" : String) = s!"X[:, {g}]") : f = g := by
  simpa [toString_str, Int.repr_inj] using h

/-- entries of a list without repetition are pairwise distinct -/
theorem userName_injective (names : Array String) (hnd : names.toList.Nodup) {i j : Nat}
    (hi : i < names.size) (hj : j < names.size) (h : names[i]! = names[j]!) : i = j := by
  rw [getElem!_pos names i hi, getElem!_pos names j hj] at h
  have h' : names.toList[i]'(by simpa using hi) = names.toList[j]'(by simpa using hj) := by simpa using h
  exact (List.getElem_inj hnd).mp h'

/-! ### every tree `fit` can build is well formed: `Tree.init`, closed under `Tree.addChild` -/

section arr
variable {β : Type} [Inhabited β]

theorem get_set (a : Array β) (i j : Nat) (v : β) :
    (a.set! i v)[j]! = if i = j ∧ j < a.size then v else a[j]! := by
  by_cases h : j < a.size
  · by_cases h2 : i = j <;> simp [h, h2]
  · simp [h]

theorem get_push2 (a : Array β) (x y : β) (j : Nat) :
    ((a.push x).push y)[j]! =
      if j < a.size then a[j]! else if j = a.size then x else if j = a.size + 1 then y else default := by
  by_cases h1 : j < a.size
  · simp [h1, Array.getElem_push, Nat.lt_succ_of_lt h1, Nat.lt_succ_of_lt (Nat.lt_succ_of_lt h1)]
  · by_cases h2 : j = a.size
    · subst h2
      rw [getElem!_pos _ _ (by simp; omega), Array.getElem_push_lt (by simp)]
      simp
    · by_cases h3 : j = a.size + 1
      · subst h3
        rw [getElem!_pos _ _ (by simp)]
        simp [Array.getElem_push]
        omega
      · have : ¬ j < a.size + 1 + 1 := by omega
        simp [h1, h2, h3, this]
omit [Inhabited β] in
theorem size_set (a : Array β) (i : Nat) (v : β) : (a.set! i v).size = a.size := by simp
end arr

theorem wellFormed_init : WellFormed (Tree.init : Tree α) := by
  refine ⟨Nat.one_pos, rfl, rfl, rfl, rfl, rfl, rfl, rfl, ?_⟩
  intro n hn h
  have : n = 0 := by simp [Tree.init] at hn; omega
  subst this
  exact absurd rfl h

theorem wellFormed_addChild {t : Tree α} (ht : WellFormed t) {father : Nat} (hf : father < t.nNodes)
    (s : Split α) (hfeat : 0 ≤ s.feature) :
    WellFormed (t.addChild father s) := by
  have hl := ht.size_left; have hr := ht.size_right; have htg := ht.size_target
  have hth := ht.size_thr; have hft := ht.size_feat; have hd := ht.size_depths
  have hpos := ht.pos
  refine ⟨by simp [Tree.addChild], by simp [Tree.addChild, hl], by simp [Tree.addChild, hr],
    by simp [Tree.addChild, htg], by simp [Tree.addChild, hth], by simp [Tree.addChild, hft],
    by simp [Tree.addChild, hd], ?_, ?_⟩
  · simp only [Tree.addChild, get_push2, hd, hpos, if_true]
    exact ht.root_depth
  · intro n hn hne
    simp only [Tree.addChild] at hn hne
    simp only [get_push2, get_set, size_set, hl] at hne
    by_cases h1 : n < t.nNodes
    · by_cases h2 : father = n
      · subst h2
        have e1 : ((t.nNodes : Nat) : Int).toNat = t.nNodes := by omega
        have e2 : (((t.nNodes : Nat) : Int) + 1).toNat = t.nNodes + 1 := by omega
        have e3 : ¬ (t.nNodes + 1 < t.nNodes) := by omega
        have e4 : ¬ (t.nNodes + 1 = t.nNodes) := by omega
        constructor <;>
          simp only [Tree.addChild, get_push2, get_set, size_set, hl, hr, hth, hft, hd, h1, and_self, if_true,
            e1, e2, e3, e4, Nat.lt_irrefl, if_false]
        · omega
        · omega
        · omega
        · omega
        · rfl
        · exact ⟨_, rfl, hfeat⟩
      · simp only [h1, h2, if_true, false_and, if_false] at hne
        have hi := ht.internal n h1 hne
        have hL := hi.left_toNat
        have hR := hi.right_toNat
        constructor <;>
          simp only [Tree.addChild, get_push2, get_set, size_set, hl, hr, hth, hft, hd, h1, h2, hL.2, hR.2, if_true,
            false_and, if_false]
        · exact hi.left_gt
        · have := hi.left_lt; omega
        · exact hi.right_gt
        · have := hi.right_lt; omega
        · exact hi.depth_left
        · exact hi.depth_right
        · exact hi.thr_some
        · exact hi.feat_some
    · exfalso
      have : n = t.nNodes ∨ n = t.nNodes + 1 := by omega
      rcases this with h | h <;> subst h <;> simp at hne
      omega

/-! ### a concrete tree on which every hypothesis of the C19 theorems holds -/

namespace Example

/-- root split on feature 2 at 1/2, left leaf → cluster 0, right leaf → cluster 1 -/
def tree : Tree Rat :=
  Tree.init.addChild 0 { gain := 1, leaf := 0, left := 0, right := 1, feature := 2, threshold := 1/2 }
def sh (q : Rat) : String := if q = 1/2 then "0.5" else "?"
def nm (f : Int) : String := s!"X[:, {f}]"
def colOf (s : String) : Nat := if s = "X[:, 2]" then 2 else 0
def readThr (s : String) : Rat := if s = "0.5" then 1/2 else 0

theorem wf : WellFormed tree := wellFormed_addChild wellFormed_init (by decide) _ (by decide)

theorem left_eq : tree.left = #[1, -1, -1] := by simp [tree, Tree.addChild, Tree.init]
theorem thr_eq : tree.thr = #[some (1/2), none, none] := by simp [tree, Tree.addChild, Tree.init]
theorem feat_eq : tree.feat = #[some 2, none, none] := by simp [tree, Tree.addChild, Tree.init]

/-- only node 0 carries a rule -/
theorem internal_zero {n : Nat} (hn : n < tree.nNodes) (h : tree.left[n]! ≠ -1) : n = 0 := by
  have h3 : tree.nNodes = 3 := rfl
  rw [left_eq] at h
  match n, hn, h with
  | 0, _, _ => rfl
  | 1, _, h => exact absurd rfl h
  | 2, _, h => exact absurd rfl h
  | n + 3, hn, _ => omega

theorem readBack : ReadBack tree sh nm colOf readThr := by
  constructor
  · intro n hn hne v hv
    obtain rfl := internal_zero hn hne
    rw [thr_eq] at hv
    have hv' : v = 1/2 := by simpa using hv.symm
    subst hv'
    simp [sh, readThr]
  · intro n hn hne
    obtain rfl := internal_zero hn hne
    have : featAt tree 0 = 2 := by simp [featAt, feat_eq]
    rw [this]
    decide

theorem noBlank : ThrNoBlank tree sh := by
  intro n hn hne v hv
  obtain rfl := internal_zero hn hne
  rw [thr_eq] at hv
  have hv' : v = 1/2 := by simpa using hv.symm
  subst hv'
  simp [sh]

theorem noNewline : NoNewline tree sh nm := by
  intro n hn hne
  obtain rfl := internal_zero hn hne
  have hf : featAt tree 0 = 2 := by simp [featAt, feat_eq]
  refine ⟨by rw [hf]; decide, ?_⟩
  intro v hv
  rw [thr_eq] at hv
  have hv' : v = 1/2 := by simpa using hv.symm
  subst hv'
  simp [sh]

end Example

end GemVerif.KauriC19
