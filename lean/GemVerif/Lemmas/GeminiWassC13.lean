/-
  Helper definitions and lemmas for C13, Wasserstein GEMINI: invariances, bounds and degenerate
  cases of `wassScore` / `wassGrad`, modulo explicit hypotheses on POT's `ot.emd2` (the parameter
  `emd2`).  The property theorems are in `GemVerif/Props/C13Wass.lean`.
-/
import GemVerif.Lemmas.GeminiC13
import GemVerif.Lemmas.GeminiWass

set_option linter.unusedSimpArgs false
set_option linter.unusedVariables false

namespace GemVerif.WassC13
open scoped BigOperators
open GemVerif Model Spec GemVerif.C13

variable {n K : ℕ}

/-! ### The assumptions on `ot.emd2` -/

/-- The pairs of marginals `(a, b)` on which `WassersteinGEMINI.evaluate` calls `ot.emd2(a, b, M)`:
    one-vs-all `(wy[k], ones(N)/N)` for every cluster `k`; one-vs-one `(wy[k1], wy[k2])` for `k1 < k2`. -/
def WassCalls (ε : ℝ) (ovo : Bool) (P : Fin n → Fin K → ℝ) (a b : Fin n → ℝ) : Prop :=
  if ovo then ∃ k1 k2 : Fin K, k1.val < k2.val ∧ a = wassWeights ε P k1 ∧ b = wassWeights ε P k2
  else ∃ k : Fin K, a = wassWeights ε P k ∧ b = fun _ => 1 / (n : ℝ)

/-- two vectors of dual potentials that differ by an additive constant -/
def EqUpToConst (p q : Fin n → ℝ) : Prop := ∃ c : ℝ, ∀ i, p i = q i + c

/-- `emd2'` (the solver for the cost matrix with rows and columns permuted by `σ`) returns, on the
    permuted marginals, the value `emd2` returns on `(a, b)`. -/
def EmdPermValueAt (emd2 emd2' : (Fin n → ℝ) → (Fin n → ℝ) → Emd ℝ n) (σ : Equiv.Perm (Fin n))
    (a b : Fin n → ℝ) : Prop :=
  (emd2' (fun i => a (σ i)) (fun i => b (σ i))).value = (emd2 a b).value

/-- ... and it returns the permuted dual potentials, up to additive constants. -/
def EmdPermPotAt (emd2 emd2' : (Fin n → ℝ) → (Fin n → ℝ) → Emd ℝ n) (σ : Equiv.Perm (Fin n))
    (a b : Fin n → ℝ) : Prop :=
  EqUpToConst (emd2' (fun i => a (σ i)) (fun i => b (σ i))).u (fun i => (emd2 a b).u (σ i)) ∧
  EqUpToConst (emd2' (fun i => a (σ i)) (fun i => b (σ i))).v (fun i => (emd2 a b).v (σ i))

/-- Symmetry of the solver at `(a, b)`: swapping the marginals does not change the value -/
def EmdSymmValueAt (emd2 : (Fin n → ℝ) → (Fin n → ℝ) → Emd ℝ n) (a b : Fin n → ℝ) : Prop :=
  (emd2 b a).value = (emd2 a b).value

/-- ... and the potential `v` returned for `(a, b)` is the potential `u` returned for `(b, a)`, up to
    an additive constant. -/
def EmdSymmPotAt (emd2 : (Fin n → ℝ) → (Fin n → ℝ) → Emd ℝ n) (a b : Fin n → ℝ) : Prop :=
  EqUpToConst (emd2 a b).v (emd2 b a).u

/-- Global forms: the same, at every pair of marginals of the open probability simplex (the only
    marginals the code ever passes when `0 < ε < 1`, see `wassCalls_openSimplex`). -/
def EmdPermValue (emd2 emd2' : (Fin n → ℝ) → (Fin n → ℝ) → Emd ℝ n) (σ : Equiv.Perm (Fin n)) : Prop :=
  ∀ a b, OpenSimplex a → OpenSimplex b → EmdPermValueAt emd2 emd2' σ a b

def EmdPermPot (emd2 emd2' : (Fin n → ℝ) → (Fin n → ℝ) → Emd ℝ n) (σ : Equiv.Perm (Fin n)) : Prop :=
  ∀ a b, OpenSimplex a → OpenSimplex b → EmdPermPotAt emd2 emd2' σ a b

def EmdSymmValue (emd2 : (Fin n → ℝ) → (Fin n → ℝ) → Emd ℝ n) : Prop :=
  ∀ a b, OpenSimplex a → OpenSimplex b → EmdSymmValueAt emd2 a b

def EmdSymmPot (emd2 : (Fin n → ℝ) → (Fin n → ℝ) → Emd ℝ n) : Prop :=
  ∀ a b, OpenSimplex a → OpenSimplex b → EmdSymmPotAt emd2 a b

/-- the transport cost is non-negative (true for every cost matrix `M ≥ 0`) -/
def EmdNonneg (emd2 : (Fin n → ℝ) → (Fin n → ℝ) → Emd ℝ n) : Prop :=
  ∀ a b, OpenSimplex a → OpenSimplex b → 0 ≤ (emd2 a b).value

/-- transporting the uniform distribution onto itself costs nothing (true as soon as the cost
    matrix has a zero diagonal and non-negative entries) -/
def EmdUnifZero (emd2 : (Fin n → ℝ) → (Fin n → ℝ) → Emd ℝ n) : Prop :=
  (emd2 (fun _ => 1 / (n : ℝ)) (fun _ => 1 / (n : ℝ))).value = 0

theorem EqUpToConst.symm {p q : Fin n → ℝ} (h : EqUpToConst p q) : EqUpToConst q p := by
  obtain ⟨c, hc⟩ := h
  exact ⟨-c, fun i => by rw [hc i]; ring⟩

/-! ### Normal forms of the table-level model -/

/-- `wasserstein_distances[a,b]` in table form -/
noncomputable def wPairT (pairE : Fin K → Fin K → Emd ℝ n) (a b : Fin K) : ℝ :=
  if a.val < b.val then (pairE a b).value
  else if b.val < a.val then (pairE b a).value else 0

/-- `u - u.mean()` -/
noncomputable def ctr (u : Fin n → ℝ) : Fin n → ℝ := fun i => u i - meanV u

/-- the centred potential that column `k` receives from the pair `{k, o}` -/
noncomputable def potT (pairE : Fin K → Fin K → Emd ℝ n) (k o : Fin K) : Fin n → ℝ :=
  if k.val < o.val then ctr (pairE k o).u else ctr (pairE o k).v

theorem wassScoreT_ova (pairE : Fin K → Fin K → Emd ℝ n) (unifE : Fin K → Emd ℝ n) (ε : ℝ)
    (P : Fin n → Fin K → ℝ) :
    wassScoreT pairE unifE ε false P = ∑ k, mean0 (clipP ε P) k * (unifE k).value := by
  simp only [wassScoreT, tab_apply, sumFin_eq_sum, Bool.false_eq_true, if_false]

theorem wassScoreT_ovo (pairE : Fin K → Fin K → Emd ℝ n) (unifE : Fin K → Emd ℝ n) (ε : ℝ)
    (P : Fin n → Fin K → ℝ) :
    wassScoreT pairE unifE ε true P
      = ∑ a, mean0 (clipP ε P) a * ∑ b, wPairT pairE a b * mean0 (clipP ε P) b := by
  simp only [wassScoreT, tab_apply, sumFin_eq_sum, if_true, wPairT]

theorem wassGradT_ova (pairE : Fin K → Fin K → Emd ℝ n) (unifE : Fin K → Emd ℝ n) (ε : ℝ)
    (P : Fin n → Fin K → ℝ) (i : Fin n) (k : Fin K) :
    wassGradT pairE unifE ε false P i k
      = (ctr (unifE k).u i / n + (unifE k).value / n
          - (∑ j, clipP ε P j k * ctr (unifE k).u j) / (n * n * mean0 (clipP ε P) k))
        * clipMask ε P i k := by
  simp only [wassGradT, tab_apply, sumFin_eq_sum, Bool.false_eq_true, if_false, RealLike.nat_real, ctr]

theorem wassGradT_ovo (pairE : Fin K → Fin K → Emd ℝ n) (unifE : Fin K → Emd ℝ n) (ε : ℝ)
    (P : Fin n → Fin K → ℝ) (i : Fin n) (k : Fin K) :
    wassGradT pairE unifE ε true P i k
      = ((∑ o, if o = k then 0 else
            2 * mean0 (clipP ε P) o * (potT pairE k o i / n
              - ∑ j, potT pairE k o j * clipP ε P j k / (n * n * mean0 (clipP ε P) k)))
          + 2 * (∑ b, wPairT pairE k b * mean0 (clipP ε P) b) / n) * clipMask ε P i k := by
  have hpot : ∀ (o : Fin K) (j : Fin n),
      (if k.val < o.val then fun i => (pairE k o).u i - meanV (pairE k o).u
        else fun i => (pairE o k).v i - meanV (pairE o k).v) j = potT pairE k o j := fun o j => by
    unfold potT ctr; split_ifs <;> rfl
  simp only [wassGradT, tab_apply, sumFin_eq_sum, if_true, RealLike.nat_real, hpot, Nat.cast_ofNat,
    wPairT]

theorem wassScore_eq (emd2 : (Fin n → ℝ) → (Fin n → ℝ) → Emd ℝ n) (ε : ℝ) (ovo : Bool)
    (P : Fin n → Fin K → ℝ) :
    wassScore emd2 ε ovo P
      = wassScoreT (fun a b => emd2 (wassWeights ε P a) (wassWeights ε P b))
          (fun k => emd2 (wassWeights ε P k) (fun _ => 1 / (n : ℝ))) ε ovo P := rfl

theorem wassGrad_eq (emd2 : (Fin n → ℝ) → (Fin n → ℝ) → Emd ℝ n) (ε : ℝ) (ovo : Bool)
    (P : Fin n → Fin K → ℝ) :
    wassGrad emd2 ε ovo P
      = wassGradT (fun a b => emd2 (wassWeights ε P a) (wassWeights ε P b))
          (fun k => emd2 (wassWeights ε P k) (fun _ => 1 / (n : ℝ))) ε ovo P := rfl

theorem wassWeights_eq (ε : ℝ) (P : Fin n → Fin K → ℝ) (k : Fin K) (i : Fin n) :
    wassWeights ε P k i = clipP ε P i k / (mean0 (clipP ε P) k * n) := by
  simp only [wassWeights, tab_apply, RealLike.nat_real]

theorem wassCalls_ova (ε : ℝ) (P : Fin n → Fin K → ℝ) (k : Fin K) :
    WassCalls ε false P (wassWeights ε P k) (fun _ => 1 / (n : ℝ)) := by
  rw [WassCalls, if_neg Bool.false_ne_true]; exact ⟨k, rfl, rfl⟩

theorem wassCalls_ovo (ε : ℝ) (P : Fin n → Fin K → ℝ) {a b : Fin K} (h : a.val < b.val) :
    WassCalls ε true P (wassWeights ε P a) (wassWeights ε P b) := by
  rw [WassCalls, if_pos rfl]; exact ⟨a, b, h, rfl, rfl⟩

/-! ### Sample permutations -/

theorem wassWeights_sperm (ε : ℝ) (P : Fin n → Fin K → ℝ) (σ : Equiv.Perm (Fin n)) (k : Fin K) :
    wassWeights ε (fun i k => P (σ i) k) k = fun i => wassWeights ε P k (σ i) := by
  funext i
  simp only [wassWeights_eq, clipP_sperm, mean0_sperm _ σ]

theorem ctr_perm_shift {u' u : Fin n → ℝ} (σ : Equiv.Perm (Fin n))
    (h : EqUpToConst u' (fun i => u (σ i))) (i : Fin n) : ctr u' i = ctr u (σ i) := by
  obtain ⟨c, hc⟩ := h
  have e : u' = fun j => u (σ j) + c := funext hc
  subst e
  have h1 := meanV_shift (fun j => u (σ j)) c i
  have h2 := meanV_sperm u σ
  simp only [ctr]
  rw [← h2]
  exact h1

theorem wPairT_congr {pairE' pairE : Fin K → Fin K → Emd ℝ n}
    (hv : ∀ a b : Fin K, a.val < b.val → (pairE' a b).value = (pairE a b).value) (a b : Fin K) :
    wPairT pairE' a b = wPairT pairE a b := by
  unfold wPairT
  split_ifs with h1 h2
  · exact hv a b h1
  · exact hv b a h2
  · rfl

theorem potT_sperm {pairE' pairE : Fin K → Fin K → Emd ℝ n} (σ : Equiv.Perm (Fin n))
    (hu : ∀ a b : Fin K, a.val < b.val → EqUpToConst (pairE' a b).u (fun i => (pairE a b).u (σ i)))
    (hv : ∀ a b : Fin K, a.val < b.val → EqUpToConst (pairE' a b).v (fun i => (pairE a b).v (σ i)))
    (k o : Fin K) (hko : o ≠ k) (i : Fin n) : potT pairE' k o i = potT pairE k o (σ i) := by
  unfold potT
  split_ifs with h
  · exact ctr_perm_shift σ (hu k o h) i
  · have h' : o.val < k.val := lt_of_le_of_ne (not_lt.mp h) (fun e => hko (Fin.ext e))
    exact ctr_perm_shift σ (hv o k h') i

theorem wassScoreT_ova_sperm (pairE' pairE : Fin K → Fin K → Emd ℝ n) (unifE' unifE : Fin K → Emd ℝ n)
    (ε : ℝ) (P : Fin n → Fin K → ℝ) (σ : Equiv.Perm (Fin n))
    (hval : ∀ k, (unifE' k).value = (unifE k).value) :
    wassScoreT pairE' unifE' ε false (fun i k => P (σ i) k) = wassScoreT pairE unifE ε false P := by
  simp only [wassScoreT_ova, clipP_sperm, mean0_sperm _ σ, hval]

theorem wassScoreT_ovo_sperm (pairE' pairE : Fin K → Fin K → Emd ℝ n) (unifE' unifE : Fin K → Emd ℝ n)
    (ε : ℝ) (P : Fin n → Fin K → ℝ) (σ : Equiv.Perm (Fin n))
    (hval : ∀ a b : Fin K, a.val < b.val → (pairE' a b).value = (pairE a b).value) :
    wassScoreT pairE' unifE' ε true (fun i k => P (σ i) k) = wassScoreT pairE unifE ε true P := by
  simp only [wassScoreT_ovo, clipP_sperm, mean0_sperm _ σ, wPairT_congr hval]

theorem wassGradT_ova_sperm (pairE' pairE : Fin K → Fin K → Emd ℝ n) (unifE' unifE : Fin K → Emd ℝ n)
    (ε : ℝ) (P : Fin n → Fin K → ℝ) (σ : Equiv.Perm (Fin n))
    (hval : ∀ k, (unifE' k).value = (unifE k).value)
    (hu : ∀ k, EqUpToConst (unifE' k).u (fun i => (unifE k).u (σ i))) (i : Fin n) (k : Fin K) :
    wassGradT pairE' unifE' ε false (fun i k => P (σ i) k) i k
      = wassGradT pairE unifE ε false P (σ i) k := by
  simp only [wassGradT_ova, clipP_sperm, clipMask_sperm, mean0_sperm _ σ, hval,
    ctr_perm_shift σ (hu k)]
  rw [Equiv.sum_comp σ (fun j => clipP ε P j k * ctr (unifE k).u j)]

theorem wassGradT_ovo_sperm (pairE' pairE : Fin K → Fin K → Emd ℝ n) (unifE' unifE : Fin K → Emd ℝ n)
    (ε : ℝ) (P : Fin n → Fin K → ℝ) (σ : Equiv.Perm (Fin n))
    (hval : ∀ a b : Fin K, a.val < b.val → (pairE' a b).value = (pairE a b).value)
    (hu : ∀ a b : Fin K, a.val < b.val → EqUpToConst (pairE' a b).u (fun i => (pairE a b).u (σ i)))
    (hv : ∀ a b : Fin K, a.val < b.val → EqUpToConst (pairE' a b).v (fun i => (pairE a b).v (σ i)))
    (i : Fin n) (k : Fin K) :
    wassGradT pairE' unifE' ε true (fun i k => P (σ i) k) i k
      = wassGradT pairE unifE ε true P (σ i) k := by
  simp only [wassGradT_ovo, clipP_sperm, clipMask_sperm, mean0_sperm _ σ, wPairT_congr hval]
  congr 2
  refine Finset.sum_congr rfl fun o _ => ?_
  by_cases h : o = k
  · simp only [if_pos h]
  · simp only [if_neg h, potT_sperm σ hu hv k o h]
    rw [Equiv.sum_comp σ
      (fun j => potT pairE k o j * clipP ε P j k / (n * n * mean0 (clipP ε P) k))]

theorem wassScore_sperm_at (emd2 emd2' : (Fin n → ℝ) → (Fin n → ℝ) → Emd ℝ n) (ε : ℝ) (ovo : Bool)
    (P : Fin n → Fin K → ℝ) (σ : Equiv.Perm (Fin n))
    (h : ∀ a b, WassCalls ε ovo P a b → EmdPermValueAt emd2 emd2' σ a b) :
    wassScore emd2' ε ovo (fun i k => P (σ i) k) = wassScore emd2 ε ovo P := by
  rw [wassScore_eq, wassScore_eq]
  simp only [wassWeights_sperm]
  cases ovo
  · exact wassScoreT_ova_sperm _ _ _ _ ε P σ fun k => h _ _ (wassCalls_ova ε P k)
  · exact wassScoreT_ovo_sperm _ _ _ _ ε P σ fun a b hab => h _ _ (wassCalls_ovo ε P hab)

theorem wassGrad_sperm_at (emd2 emd2' : (Fin n → ℝ) → (Fin n → ℝ) → Emd ℝ n) (ε : ℝ) (ovo : Bool)
    (P : Fin n → Fin K → ℝ) (σ : Equiv.Perm (Fin n))
    (h : ∀ a b, WassCalls ε ovo P a b → EmdPermValueAt emd2 emd2' σ a b)
    (hp : ∀ a b, WassCalls ε ovo P a b → EmdPermPotAt emd2 emd2' σ a b) (i : Fin n) (k : Fin K) :
    wassGrad emd2' ε ovo (fun i k => P (σ i) k) i k = wassGrad emd2 ε ovo P (σ i) k := by
  rw [wassGrad_eq, wassGrad_eq]
  simp only [wassWeights_sperm]
  cases ovo
  · exact wassGradT_ova_sperm _ _ _ _ ε P σ (fun k => h _ _ (wassCalls_ova ε P k))
      (fun k => (hp _ _ (wassCalls_ova ε P k)).1) i k
  · exact wassGradT_ovo_sperm _ _ _ _ ε P σ (fun a b hab => h _ _ (wassCalls_ovo ε P hab))
      (fun a b hab => (hp _ _ (wassCalls_ovo ε P hab)).1)
      (fun a b hab => (hp _ _ (wassCalls_ovo ε P hab)).2) i k

/-! ### Cluster permutations -/

theorem wassWeights_cperm (ε : ℝ) (P : Fin n → Fin K → ℝ) (τ : Equiv.Perm (Fin K)) (k : Fin K) :
    wassWeights ε (fun i k => P i (τ k)) k = wassWeights ε P (τ k) := by
  funext i
  simp only [wassWeights_eq, clipP_cperm, mean0_cperm _ τ]

theorem wassScoreT_ova_cperm (pairE' pairE : Fin K → Fin K → Emd ℝ n) (unifE : Fin K → Emd ℝ n)
    (ε : ℝ) (P : Fin n → Fin K → ℝ) (τ : Equiv.Perm (Fin K)) :
    wassScoreT pairE' (fun k => unifE (τ k)) ε false (fun i k => P i (τ k))
      = wassScoreT pairE unifE ε false P := by
  simp only [wassScoreT_ova, clipP_cperm, mean0_cperm _ τ]
  exact Equiv.sum_comp τ (fun k => mean0 (clipP ε P) k * (unifE k).value)

theorem wassGradT_ova_cperm (pairE' pairE : Fin K → Fin K → Emd ℝ n) (unifE : Fin K → Emd ℝ n)
    (ε : ℝ) (P : Fin n → Fin K → ℝ) (τ : Equiv.Perm (Fin K)) (i : Fin n) (k : Fin K) :
    wassGradT pairE' (fun k => unifE (τ k)) ε false (fun i k => P i (τ k)) i k
      = wassGradT pairE unifE ε false P i (τ k) := by
  simp only [wassGradT_ova, clipP_cperm, clipMask_cperm, mean0_cperm _ τ]

theorem wPairT_of_symm {pairE : Fin K → Fin K → Emd ℝ n}
    (hs : ∀ a b : Fin K, a ≠ b → (pairE b a).value = (pairE a b).value) (a b : Fin K) :
    wPairT pairE a b = if a = b then 0 else (pairE a b).value := by
  unfold wPairT
  rcases lt_trichotomy a.val b.val with h | h | h
  · have hab : a ≠ b := fun e => by rw [e] at h; exact lt_irrefl _ h
    rw [if_pos h, if_neg hab]
  · have hab : a = b := Fin.ext h
    subst hab
    simp
  · have hab : a ≠ b := fun e => by rw [e] at h; exact lt_irrefl _ h
    rw [if_neg (not_lt.mpr h.le), if_pos h, if_neg hab]
    exact hs a b hab

theorem ctr_shift {p q : Fin n → ℝ} (h : EqUpToConst p q) : ctr p = ctr q := by
  funext i
  exact ctr_perm_shift (Equiv.refl _) h i

theorem potT_of_symm {pairE : Fin K → Fin K → Emd ℝ n}
    (hs : ∀ a b : Fin K, a ≠ b → EqUpToConst (pairE a b).v (pairE b a).u) (k o : Fin K) (hko : o ≠ k) :
    potT pairE k o = ctr (pairE k o).u := by
  unfold potT
  split_ifs with h
  · rfl
  · exact ctr_shift (hs o k hko)

theorem wassScoreT_ovo_cperm (pairE : Fin K → Fin K → Emd ℝ n) (unifE' unifE : Fin K → Emd ℝ n)
    (ε : ℝ) (P : Fin n → Fin K → ℝ) (τ : Equiv.Perm (Fin K))
    (hs : ∀ a b : Fin K, a ≠ b → (pairE b a).value = (pairE a b).value) :
    wassScoreT (fun a b => pairE (τ a) (τ b)) unifE' ε true (fun i k => P i (τ k))
      = wassScoreT pairE unifE ε true P := by
  have hs' : ∀ a b : Fin K, a ≠ b → (pairE (τ b) (τ a)).value = (pairE (τ a) (τ b)).value :=
    fun a b hab => hs _ _ fun e => hab (τ.injective e)
  have hw : ∀ a b, wPairT (fun a b => pairE (τ a) (τ b)) a b = wPairT pairE (τ a) (τ b) := fun a b => by
    rw [wPairT_of_symm hs' a b, wPairT_of_symm hs (τ a) (τ b)]
    simp only [EmbeddingLike.apply_eq_iff_eq]
  simp only [wassScoreT_ovo, clipP_cperm, mean0_cperm _ τ, hw]
  rw [← Equiv.sum_comp τ
    (fun a => mean0 (clipP ε P) a * ∑ b, wPairT pairE a b * mean0 (clipP ε P) b)]
  refine Finset.sum_congr rfl fun a _ => ?_
  rw [← Equiv.sum_comp τ (fun b => wPairT pairE (τ a) b * mean0 (clipP ε P) b)]

theorem wassGradT_ovo_cperm (pairE : Fin K → Fin K → Emd ℝ n) (unifE' unifE : Fin K → Emd ℝ n)
    (ε : ℝ) (P : Fin n → Fin K → ℝ) (τ : Equiv.Perm (Fin K))
    (hs : ∀ a b : Fin K, a ≠ b → (pairE b a).value = (pairE a b).value)
    (hp : ∀ a b : Fin K, a ≠ b → EqUpToConst (pairE a b).v (pairE b a).u) (i : Fin n) (k : Fin K) :
    wassGradT (fun a b => pairE (τ a) (τ b)) unifE' ε true (fun i k => P i (τ k)) i k
      = wassGradT pairE unifE ε true P i (τ k) := by
  have hs' : ∀ a b : Fin K, a ≠ b → (pairE (τ b) (τ a)).value = (pairE (τ a) (τ b)).value :=
    fun a b hab => hs _ _ fun e => hab (τ.injective e)
  have hp' : ∀ a b : Fin K, a ≠ b → EqUpToConst (pairE (τ a) (τ b)).v (pairE (τ b) (τ a)).u :=
    fun a b hab => hp _ _ fun e => hab (τ.injective e)
  have hw : ∀ a b, wPairT (fun a b => pairE (τ a) (τ b)) a b = wPairT pairE (τ a) (τ b) := fun a b => by
    rw [wPairT_of_symm hs' a b, wPairT_of_symm hs (τ a) (τ b)]
    simp only [EmbeddingLike.apply_eq_iff_eq]
  simp only [wassGradT_ovo, clipP_cperm, clipMask_cperm, mean0_cperm _ τ, hw]
  congr 2
  · rw [← Equiv.sum_comp τ (fun o => if o = τ k then 0 else
        2 * mean0 (clipP ε P) o * (potT pairE (τ k) o i / n
          - ∑ j, potT pairE (τ k) o j * clipP ε P j (τ k) / (n * n * mean0 (clipP ε P) (τ k))))]
    refine Finset.sum_congr rfl fun o _ => ?_
    by_cases h : o = k
    · simp only [h, if_true]
    · have h' : τ o ≠ τ k := fun e => h (τ.injective e)
      simp only [if_neg h, if_neg h']
      rw [potT_of_symm (pairE := fun a b => pairE (τ a) (τ b)) hp' k o h,
        potT_of_symm hp (τ k) (τ o) h']
  · rw [← Equiv.sum_comp τ (fun b => wPairT pairE (τ k) b * mean0 (clipP ε P) b)]

theorem EmdSymmValueAt.symm {emd2 : (Fin n → ℝ) → (Fin n → ℝ) → Emd ℝ n} {a b : Fin n → ℝ}
    (h : EmdSymmValueAt emd2 a b) : EmdSymmValueAt emd2 b a := Eq.symm h

theorem wassScore_cperm_ova (emd2 : (Fin n → ℝ) → (Fin n → ℝ) → Emd ℝ n) (ε : ℝ)
    (P : Fin n → Fin K → ℝ) (τ : Equiv.Perm (Fin K)) :
    wassScore emd2 ε false (fun i k => P i (τ k)) = wassScore emd2 ε false P := by
  rw [wassScore_eq, wassScore_eq]
  simp only [wassWeights_cperm]
  exact wassScoreT_ova_cperm _ _ (fun k => emd2 (wassWeights ε P k) (fun _ => 1 / (n : ℝ))) ε P τ

theorem wassGrad_cperm_ova (emd2 : (Fin n → ℝ) → (Fin n → ℝ) → Emd ℝ n) (ε : ℝ)
    (P : Fin n → Fin K → ℝ) (τ : Equiv.Perm (Fin K)) (i : Fin n) (k : Fin K) :
    wassGrad emd2 ε false (fun i k => P i (τ k)) i k = wassGrad emd2 ε false P i (τ k) := by
  rw [wassGrad_eq, wassGrad_eq]
  simp only [wassWeights_cperm]
  exact wassGradT_ova_cperm _ _ (fun k => emd2 (wassWeights ε P k) (fun _ => 1 / (n : ℝ))) ε P τ i k

theorem symm_value_of_lt {emd2 : (Fin n → ℝ) → (Fin n → ℝ) → Emd ℝ n} {wy : Fin K → Fin n → ℝ}
    (hs : ∀ x y : Fin K, x.val < y.val → EmdSymmValueAt emd2 (wy x) (wy y)) (a b : Fin K) (hab : a ≠ b) :
    (emd2 (wy b) (wy a)).value = (emd2 (wy a) (wy b)).value := by
  rcases lt_or_gt_of_ne (fun e => hab (Fin.ext e) : a.val ≠ b.val) with h | h
  · exact hs a b h
  · exact (hs b a h).symm

theorem wassScore_cperm_ovo (emd2 : (Fin n → ℝ) → (Fin n → ℝ) → Emd ℝ n) (ε : ℝ)
    (P : Fin n → Fin K → ℝ) (τ : Equiv.Perm (Fin K))
    (hs : ∀ x y : Fin K, x.val < y.val →
      EmdSymmValueAt emd2 (wassWeights ε P x) (wassWeights ε P y)) :
    wassScore emd2 ε true (fun i k => P i (τ k)) = wassScore emd2 ε true P := by
  rw [wassScore_eq, wassScore_eq]
  simp only [wassWeights_cperm]
  exact wassScoreT_ovo_cperm (fun a b => emd2 (wassWeights ε P a) (wassWeights ε P b)) _ _ ε P τ
    (symm_value_of_lt hs)

theorem wassGrad_cperm_ovo (emd2 : (Fin n → ℝ) → (Fin n → ℝ) → Emd ℝ n) (ε : ℝ)
    (P : Fin n → Fin K → ℝ) (τ : Equiv.Perm (Fin K))
    (hs : ∀ x y : Fin K, x.val < y.val →
      EmdSymmValueAt emd2 (wassWeights ε P x) (wassWeights ε P y))
    (hp : ∀ x y : Fin K, x ≠ y → EmdSymmPotAt emd2 (wassWeights ε P x) (wassWeights ε P y))
    (i : Fin n) (k : Fin K) :
    wassGrad emd2 ε true (fun i k => P i (τ k)) i k = wassGrad emd2 ε true P i (τ k) := by
  rw [wassGrad_eq, wassGrad_eq]
  simp only [wassWeights_cperm]
  exact wassGradT_ovo_cperm (fun a b => emd2 (wassWeights ε P a) (wassWeights ε P b)) _ _ ε P τ
    (symm_value_of_lt hs) hp i k

/-! ### The marginals handed to `ot.emd2` are probability vectors with positive entries -/

theorem clipP_nonneg {ε : ℝ} (h0 : 0 ≤ ε) (h1 : ε ≤ 1) (P : Fin n → Fin K → ℝ) (i : Fin n) (k : Fin K) :
    0 ≤ clipP ε P i k := by
  simp only [clipP, RealLike.clip_real]
  exact le_min (le_trans h0 (le_max_right _ _)) (by linarith)

theorem clipP_pos {ε : ℝ} (h0 : 0 < ε) (h1 : ε < 1) (P : Fin n → Fin K → ℝ) (i : Fin n) (k : Fin K) :
    0 < clipP ε P i k := by
  simp only [clipP, RealLike.clip_real]
  exact lt_min (lt_of_lt_of_le h0 (le_max_right _ _)) (by linarith)

theorem mean0_nonneg {p : Fin n → Fin K → ℝ} (hp : ∀ i k, 0 ≤ p i k) (k : Fin K) : 0 ≤ mean0 p k := by
  simp only [mean0, sumFin_eq_sum, RealLike.nat_real]
  exact div_nonneg (Finset.sum_nonneg fun i _ => hp i k) (Nat.cast_nonneg n)

theorem mean0_pos (hn : 0 < n) {p : Fin n → Fin K → ℝ} (hp : ∀ i k, 0 < p i k) (k : Fin K) :
    0 < mean0 p k := by
  have : Nonempty (Fin n) := ⟨⟨0, hn⟩⟩
  simp only [mean0, sumFin_eq_sum, RealLike.nat_real]
  exact div_pos (Finset.sum_pos (fun i _ => hp i k) Finset.univ_nonempty) (by exact_mod_cast hn)

theorem sum_col_mean0 (hn : 0 < n) (p : Fin n → Fin K → ℝ) (k : Fin K) :
    ∑ i, p i k = mean0 p k * n := by
  have hnR : (n : ℝ) ≠ 0 := by exact_mod_cast hn.ne'
  simp only [mean0, sumFin_eq_sum, RealLike.nat_real]
  field_simp

theorem wassWeights_openSimplex (hn : 0 < n) {ε : ℝ} (h0 : 0 < ε) (h1 : ε < 1) (P : Fin n → Fin K → ℝ)
    (k : Fin K) : OpenSimplex (wassWeights ε P k) := by
  have hnR : (0 : ℝ) < n := by exact_mod_cast hn
  have hπ := mean0_pos hn (clipP_pos h0 h1 P) k
  refine ⟨fun i => ?_, ?_⟩
  · rw [wassWeights_eq]
    exact div_pos (clipP_pos h0 h1 P i k) (mul_pos hπ hnR)
  · simp only [wassWeights_eq]
    rw [← Finset.sum_div, sum_col_mean0 hn]
    exact div_self (mul_pos hπ hnR).ne'

theorem wassCalls_openSimplex (hn : 0 < n) {ε : ℝ} (h0 : 0 < ε) (h1 : ε < 1) {ovo : Bool}
    {P : Fin n → Fin K → ℝ} {a b : Fin n → ℝ} (h : WassCalls ε ovo P a b) :
    OpenSimplex a ∧ OpenSimplex b := by
  cases ovo
  · rw [WassCalls, if_neg Bool.false_ne_true] at h
    obtain ⟨k, rfl, rfl⟩ := h
    exact ⟨wassWeights_openSimplex hn h0 h1 P k, unif_openSimplex hn⟩
  · rw [WassCalls, if_pos rfl] at h
    obtain ⟨k1, k2, _, rfl, rfl⟩ := h
    exact ⟨wassWeights_openSimplex hn h0 h1 P k1, wassWeights_openSimplex hn h0 h1 P k2⟩

/-! ### no sample at all -/

theorem mean0_n0 (p : Fin 0 → Fin K → ℝ) (k : Fin K) : mean0 p k = 0 := by simp [mean0]

theorem wassScore_n0 (emd2 : (Fin 0 → ℝ) → (Fin 0 → ℝ) → Emd ℝ 0) (ε : ℝ) (ovo : Bool)
    (P : Fin 0 → Fin K → ℝ) : wassScore emd2 ε ovo P = 0 := by
  rw [wassScore_eq]
  cases ovo
  · simp [wassScoreT_ova, mean0_n0]
  · simp [wassScoreT_ovo, mean0_n0]

/-! ### Bounds -/

theorem wassScore_nonneg_at (emd2 : (Fin n → ℝ) → (Fin n → ℝ) → Emd ℝ n) {ε : ℝ} (h0 : 0 ≤ ε)
    (h1 : ε ≤ 1) (ovo : Bool) (P : Fin n → Fin K → ℝ)
    (h : ∀ a b, WassCalls ε ovo P a b → 0 ≤ (emd2 a b).value) : 0 ≤ wassScore emd2 ε ovo P := by
  have hπ := mean0_nonneg (clipP_nonneg h0 h1 P)
  rw [wassScore_eq]
  cases ovo
  · rw [wassScoreT_ova]
    exact Finset.sum_nonneg fun k _ => mul_nonneg (hπ k) (h _ _ (wassCalls_ova ε P k))
  · rw [wassScoreT_ovo]
    refine Finset.sum_nonneg fun a _ => mul_nonneg (hπ a) (Finset.sum_nonneg fun b _ =>
      mul_nonneg ?_ (hπ b))
    unfold wPairT
    split_ifs with h1 h2
    · exact h _ _ (wassCalls_ovo ε P h1)
    · exact h _ _ (wassCalls_ovo ε P h2)
    · exact le_rfl

/-! ### Predictions that do not depend on the sample -/

theorem wassWeights_indep (hn : 0 < n) {ε : ℝ} {P : Fin n → Fin K → ℝ} (h : ∀ i j k, P i k = P j k)
    (k : Fin K) (hk : mean0 (clipP ε P) k ≠ 0) : wassWeights ε P k = fun _ => 1 / (n : ℝ) := by
  have hnR : (n : ℝ) ≠ 0 := by exact_mod_cast hn.ne'
  have hy : ∀ i, mean0 (clipP ε P) k = clipP ε P i k := fun i => by
    simp only [mean0, sumFin_eq_sum, RealLike.nat_real]
    rw [Finset.sum_congr rfl fun j _ => clipP_indep h j i k]
    simp [hnR]
  funext i
  rw [wassWeights_eq, ← hy i]
  field_simp

theorem wassScore_indep (emd2 : (Fin n → ℝ) → (Fin n → ℝ) → Emd ℝ n) (hz : EmdUnifZero emd2) (ε : ℝ)
    (ovo : Bool) {P : Fin n → Fin K → ℝ} (h : ∀ i j k, P i k = P j k) : wassScore emd2 ε ovo P = 0 := by
  rcases Nat.eq_zero_or_pos n with rfl | hn
  · exact wassScore_n0 emd2 ε ovo P
  · rw [wassScore_eq]
    cases ovo
    · rw [wassScoreT_ova]
      refine Finset.sum_eq_zero fun k _ => ?_
      by_cases hk : mean0 (clipP ε P) k = 0
      · rw [hk, zero_mul]
      · simp only [wassWeights_indep hn h k hk]
        rw [hz, mul_zero]
    · rw [wassScoreT_ovo]
      refine Finset.sum_eq_zero fun a _ => ?_
      by_cases ha : mean0 (clipP ε P) a = 0
      · rw [ha, zero_mul]
      · rw [Finset.sum_eq_zero, mul_zero]
        intro b _
        by_cases hb : mean0 (clipP ε P) b = 0
        · rw [hb, mul_zero]
        · unfold wPairT
          simp only [wassWeights_indep hn h a ha, wassWeights_indep hn h b hb]
          have hz' : (emd2 (fun _ => 1 / (n : ℝ)) (fun _ => 1 / (n : ℝ))).value = 0 := hz
          simp only [hz', ite_self, zero_mul]

/-! ### Appending an empty cluster -/

theorem wassWeights_addEmpty_castSucc (ε : ℝ) (P : Fin n → Fin K → ℝ) (k : Fin K) :
    wassWeights ε (addEmpty P) k.castSucc = wassWeights ε P k := by
  funext i
  simp only [wassWeights_eq, clipP_addEmpty_castSucc, mean0_addEmpty_castSucc]

theorem wassWeights_addEmpty_last (hn : 0 < n) {ε : ℝ} (P : Fin n → Fin K → ℝ)
    (he : RealLike.clip (0 : ℝ) ε (1 - ε) ≠ 0) :
    wassWeights ε (addEmpty P) (Fin.last K) = fun _ => 1 / (n : ℝ) := by
  have hnR : (n : ℝ) ≠ 0 := by exact_mod_cast hn.ne'
  funext i
  rw [wassWeights_eq, clipP_addEmpty_last, mean0_addEmpty_last hn]
  field_simp

theorem clipMask_addEmpty_castSucc (ε : ℝ) (P : Fin n → Fin K → ℝ) (i : Fin n) (k : Fin K) :
    clipMask ε (addEmpty P) i k.castSucc = clipMask ε P i k := by simp [clipMask]

theorem wassScore_ova_addEmpty (emd2 : (Fin n → ℝ) → (Fin n → ℝ) → Emd ℝ n) (hz : EmdUnifZero emd2)
    (ε : ℝ) (P : Fin n → Fin K → ℝ) :
    wassScore emd2 ε false (addEmpty P) = wassScore emd2 ε false P := by
  rcases Nat.eq_zero_or_pos n with rfl | hn
  · rw [wassScore_n0, wassScore_n0]
  · rw [wassScore_eq, wassScore_eq, wassScoreT_ova, wassScoreT_ova, Fin.sum_univ_castSucc]
    simp only [wassWeights_addEmpty_castSucc, mean0_addEmpty_castSucc, mean0_addEmpty_last hn]
    rw [add_eq_left]
    by_cases he : RealLike.clip (0 : ℝ) ε (1 - ε) = 0
    · rw [he, zero_mul]
    · rw [wassWeights_addEmpty_last hn P he, hz, mul_zero]

theorem wPairT_castSucc_last (pairE : Fin (K + 1) → Fin (K + 1) → Emd ℝ n) (a : Fin K) :
    wPairT pairE a.castSucc (Fin.last K) = (pairE a.castSucc (Fin.last K)).value := by
  have h : (a.castSucc).val < (Fin.last K).val := by simp
  unfold wPairT
  rw [if_pos h]

theorem wPairT_last_castSucc (pairE : Fin (K + 1) → Fin (K + 1) → Emd ℝ n) (a : Fin K) :
    wPairT pairE (Fin.last K) a.castSucc = (pairE a.castSucc (Fin.last K)).value := by
  have h : (a.castSucc).val < (Fin.last K).val := by simp
  unfold wPairT
  rw [if_neg (not_lt.mpr h.le), if_pos h]

theorem wPairT_last_last (pairE : Fin (K + 1) → Fin (K + 1) → Emd ℝ n) :
    wPairT pairE (Fin.last K) (Fin.last K) = 0 := by
  unfold wPairT
  simp

theorem wPairT_addEmpty (emd2 : (Fin n → ℝ) → (Fin n → ℝ) → Emd ℝ n) (ε : ℝ) (P : Fin n → Fin K → ℝ)
    (a b : Fin K) :
    wPairT (fun a b => emd2 (wassWeights ε (addEmpty P) a) (wassWeights ε (addEmpty P) b))
        a.castSucc b.castSucc
      = wPairT (fun a b => emd2 (wassWeights ε P a) (wassWeights ε P b)) a b := by
  unfold wPairT
  simp only [Fin.val_castSucc, wassWeights_addEmpty_castSucc]

theorem ovo_addEmpty_algebra (π U : Fin K → ℝ) (X : Fin K → ℝ) (e : ℝ) :
    ∑ a, π a * (X a + U a * e) + e * (∑ b, U b * π b + 0 * e)
      = ∑ a, π a * X a + 2 * e * ∑ a, π a * U a := by
  have e1 : ∑ a, π a * (X a + U a * e) = (∑ a, π a * X a) + e * ∑ a, π a * U a := by
    rw [Finset.mul_sum, ← Finset.sum_add_distrib]
    exact Finset.sum_congr rfl fun a _ => by ring
  have e2 : ∑ b, U b * π b = ∑ a, π a * U a := Finset.sum_congr rfl fun a _ => mul_comm _ _
  rw [e1, e2]
  ring

theorem wassScore_ovo_addEmpty (emd2 : (Fin n → ℝ) → (Fin n → ℝ) → Emd ℝ n) (ε : ℝ)
    (P : Fin n → Fin K → ℝ) :
    wassScore emd2 ε true (addEmpty P)
      = wassScore emd2 ε true P + 2 * RealLike.clip (0 : ℝ) ε (1 - ε) * wassScore emd2 ε false P := by
  rcases Nat.eq_zero_or_pos n with rfl | hn
  · simp only [wassScore_n0, mul_zero, add_zero]
  · rw [wassScore_eq, wassScore_eq, wassScore_eq, wassScoreT_ovo, wassScoreT_ovo, wassScoreT_ova]
    simp only [Fin.sum_univ_castSucc, wPairT_castSucc_last, wPairT_last_castSucc, wPairT_last_last,
      wPairT_addEmpty,
      wassWeights_addEmpty_castSucc, mean0_addEmpty_castSucc, mean0_addEmpty_last hn]
    by_cases he : RealLike.clip (0 : ℝ) ε (1 - ε) = 0
    · simp only [he, mul_zero, zero_mul, add_zero]
    · rw [wassWeights_addEmpty_last hn P he]
      exact ovo_addEmpty_algebra _ _ _ _

theorem wassGrad_addEmpty_last (emd2 : (Fin n → ℝ) → (Fin n → ℝ) → Emd ℝ n) {ε : ℝ} (hε : 0 ≤ ε)
    (ovo : Bool) (P : Fin n → Fin K → ℝ) (i : Fin n) :
    wassGrad emd2 ε ovo (addEmpty P) i (Fin.last K) = 0 := by
  rw [wassGrad_eq]
  cases ovo
  · rw [wassGradT_ova, clipMask_addEmpty_last hε, mul_zero]
  · rw [wassGradT_ovo, clipMask_addEmpty_last hε, mul_zero]

theorem wassGrad_ova_addEmpty_castSucc (emd2 : (Fin n → ℝ) → (Fin n → ℝ) → Emd ℝ n) (ε : ℝ)
    (P : Fin n → Fin K → ℝ) (i : Fin n) (k : Fin K) :
    wassGrad emd2 ε false (addEmpty P) i k.castSucc = wassGrad emd2 ε false P i k := by
  rw [wassGrad_eq, wassGrad_eq, wassGradT_ova, wassGradT_ova]
  simp only [wassWeights_addEmpty_castSucc, clipP_addEmpty_castSucc, mean0_addEmpty_castSucc,
    clipMask_addEmpty_castSucc]

/-! ### Witnesses: the hypotheses on the solver are satisfiable

  (a) for every size: a weighted squared distance between the marginals, whose "cost" `c` is NOT
      permutation invariant, so that the solver `emd2'` for the permuted problem differs from `emd2`;
  (b) the genuine transport cost on two points (`absEmd`, `W(a,b) = |a₀ - b₀|` on the simplex): there
      the permuted potentials are recovered only up to a non-zero additive constant, and the value
      only on the probability simplex. -/

/-- `Σ c_i (a_i - b_i)²`, potentials `u = 2 c (a - b)`, `v = -u` -/
def wsqEmd (c : Fin n → ℝ) : (Fin n → ℝ) → (Fin n → ℝ) → Emd ℝ n :=
  fun a b => ⟨∑ i, c i * (a i - b i) ^ 2, fun i => 2 * c i * (a i - b i),
    fun i => -(2 * c i * (a i - b i))⟩

theorem wsqEmd_permValue (c : Fin n → ℝ) (σ : Equiv.Perm (Fin n)) :
    EmdPermValue (wsqEmd c) (wsqEmd fun i => c (σ i)) σ := fun a b _ _ =>
  Equiv.sum_comp σ (fun i => c i * (a i - b i) ^ 2)

theorem wsqEmd_permPot (c : Fin n → ℝ) (σ : Equiv.Perm (Fin n)) :
    EmdPermPot (wsqEmd c) (wsqEmd fun i => c (σ i)) σ := fun a b _ _ =>
  ⟨⟨0, fun i => by simp [wsqEmd]⟩, ⟨0, fun i => by simp [wsqEmd]⟩⟩

theorem wsqEmd_symmValue (c : Fin n → ℝ) : EmdSymmValue (wsqEmd c) := fun a b _ _ => by
  simp only [EmdSymmValueAt, wsqEmd]
  exact Finset.sum_congr rfl fun i _ => by ring

theorem wsqEmd_symmPot (c : Fin n → ℝ) : EmdSymmPot (wsqEmd c) := fun a b _ _ =>
  ⟨0, fun i => by simp only [wsqEmd]; ring⟩

theorem wsqEmd_nonneg {c : Fin n → ℝ} (hc : ∀ i, 0 ≤ c i) : EmdNonneg (wsqEmd c) := fun a b _ _ => by
  simp only [wsqEmd]
  exact Finset.sum_nonneg fun i _ => mul_nonneg (hc i) (sq_nonneg _)

theorem wsqEmd_unifZero (c : Fin n → ℝ) : EmdUnifZero (wsqEmd c) := by
  simp [EmdUnifZero, wsqEmd]

theorem sign_real_neg (x : ℝ) : RealLike.sign (-x) = -RealLike.sign x := by
  rcases lt_trichotomy x 0 with h | h | h
  · rw [sign_real_of_neg h, sign_real_of_pos (neg_pos.mpr h), neg_neg]
  · subst h; simp [RealLike.sign]
  · rw [sign_real_of_pos h, sign_real_of_neg (neg_neg_of_pos h)]

theorem absEmd_symmValue : EmdSymmValue absEmd := fun a b _ _ => abs_sub_comm _ _

theorem absEmd_symmPot : EmdSymmPot absEmd := fun a b _ _ =>
  ⟨0, fun i => by
    simp only [absEmd, add_zero]
    rw [← sign_real_neg, neg_sub]⟩

theorem absEmd_nonneg : EmdNonneg absEmd := fun a b _ _ => abs_nonneg _

theorem absEmd_unifZero : EmdUnifZero absEmd := by simp [EmdUnifZero, absEmd]

theorem simplex_two {a : Fin 2 → ℝ} (ha : OpenSimplex a) : a 1 = 1 - a 0 := by
  have := ha.2
  rw [Fin.sum_univ_two] at this
  linarith

theorem absEmd_permValue : EmdPermValue absEmd absEmd (Equiv.swap 0 1) := fun a b ha hb => by
  simp only [EmdPermValueAt, absEmd, Equiv.swap_apply_left, simplex_two ha, simplex_two hb]
  rw [← abs_neg]
  congr 1
  ring

theorem absEmd_permPot : EmdPermPot absEmd absEmd (Equiv.swap 0 1) := fun a b ha hb => by
  have hs : RealLike.sign (a 1 - b 1) = -RealLike.sign (a 0 - b 0) := by
    rw [← sign_real_neg, simplex_two ha, simplex_two hb]
    congr 1
    ring
  refine ⟨⟨-RealLike.sign (a 0 - b 0), fun i => ?_⟩, ⟨RealLike.sign (a 0 - b 0), fun i => ?_⟩⟩
  · fin_cases i <;> simp [absEmd, hs]
  · fin_cases i <;> simp [absEmd, hs]

/-! ### The symmetry hypotheses of the one-vs-one clauses cannot be dropped -/

/-- a solver whose value is not symmetric (as for a non-symmetric `precomputed` cost matrix);
    its potentials are trivially swapped -/
noncomputable def asymEmd : (Fin 2 → ℝ) → (Fin 2 → ℝ) → Emd ℝ 2 :=
  fun a _ => ⟨a 0, fun _ => 0, fun _ => 0⟩

noncomputable def exQ : Fin 2 → Fin 2 → ℝ := fun i k => if i = k then 3 / 4 else 1 / 4

theorem asymEmd_score_not_invariant :
    wassScore asymEmd (1 / 10) true exQ = 3 / 8 ∧
    wassScore asymEmd (1 / 10) true (fun i k => exQ i (Equiv.swap 0 1 k)) = 1 / 8 := by
  constructor
  · simp [wassScore, wassScoreT, wassWeights, clipP, mean0, Fin.sum_univ_two, RealLike.clip_real,
      asymEmd, exQ]
    norm_num
  · simp [wassScore, wassScoreT, wassWeights, clipP, mean0, Fin.sum_univ_two, RealLike.clip_real,
      asymEmd, exQ]
    norm_num

/-- a solver with symmetric value (0) that does not swap its potentials with the marginals -/
noncomputable def asymPot : (Fin 2 → ℝ) → (Fin 2 → ℝ) → Emd ℝ 2 :=
  fun _ _ => ⟨0, fun i => if i = 0 then 1 else 0, fun _ => 0⟩

noncomputable def exH : Fin 2 → Fin 2 → ℝ := fun _ _ => 1 / 2

theorem asymPot_grad_not_equivariant :
    wassGrad asymPot (1 / 4) true exH 0 (Equiv.swap 0 1 0) = 0 ∧
    wassGrad asymPot (1 / 4) true (fun i k => exH i (Equiv.swap 0 1 k)) 0 0 = 1 / 4 := by
  constructor
  · simp [wassGrad, wassGradT, clipP, clipMask, mean0, meanV, Fin.sum_univ_two,
      RealLike.clip_real, asymPot, RealLike.ofBool, exH]
  · simp [wassGrad, wassGradT, clipP, clipMask, mean0, meanV, Fin.sum_univ_two,
      RealLike.clip_real, asymPot, RealLike.ofBool, exH]
    norm_num

end GemVerif.WassC13
