/-
  Helper lemmas for C03 on the Douglas differentiable tree: `_compute_grads` is minus the exact
  gradient of `⟨g, _infer⟩` w.r.t. `leaf_scores_` and every cut vector.

  Plan.  (1) list plumbing: the merged leaf in closed form (`leaf[l] = ∏ᵢ Bᵢ[digit i l]`), the
  reversed cumulative sum, `argsort` of a permutation is its inverse, flat row-major indexing;
  (2) the sorted cut vector of a perturbed cut vector with pairwise distinct entries is, near 0, the
  perturbation read through the unperturbed `argsort`; (3) calculus: memberships, leaf, predictions;
  (4) the entries of `computeGrads` in closed form and the final identification.
-/
import GemVerif.Lemmas.DouglasTree
import GemVerif.Lemmas.NetsC03
import Mathlib.Analysis.Calculus.Deriv.Mul

namespace GemVerif.Douglas
open scoped BigOperators Topology
open GemVerif Model.Douglas Filter

set_option linter.unusedSimpArgs false

/-! ### the list soft-max of the model, read entrywise, is the `Fin`-indexed soft-max of the nets -/

theorem sum_ofFn_exp {K : ℕ} (f : Fin K → ℝ) : ((List.ofFn f).map Real.exp).sum = ∑ c, Real.exp (f c) := by
  rw [List.map_ofFn, List.sum_ofFn]; rfl

theorem softmaxRow_ofFn_getD {K : ℕ} (f : Fin K → ℝ) (k : Fin K) :
    (softmaxRow (List.ofFn f)).getD k.val 0 = Model.Nets.softmaxRow f k := by
  rw [Douglas.softmaxRow_eq, GemVerif.softmaxRow_eq, smx, sum_ofFn_exp, List.map_ofFn,
    List.getD_eq_getElem?_getD, List.getElem?_ofFn]
  simp

/-! ### Kronecker products: the digits of a flat index -/

theorem kron_getD_divmod (a c : List ℝ) {l : ℕ} (hl : l < a.length * c.length) :
    (kron a c).getD l 0 = a.getD (l / c.length) 0 * c.getD (l % c.length) 0 := by
  have hc : 0 < c.length := by
    rcases Nat.eq_zero_or_pos c.length with h | h
    · rw [h] at hl; simp at hl
    · exact h
  have h1 : l / c.length < a.length := Nat.div_lt_of_lt_mul (by rwa [Nat.mul_comm])
  have h2 : l % c.length < c.length := Nat.mod_lt _ hc
  have := kron_getD a c h1 h2
  rwa [Nat.div_add_mod'] at this

theorem digit_snoc_lt (rs : List ℕ) (c i l : ℕ) (hi : i < rs.length) :
    digit (rs ++ [c]) i l = digit rs i (l / c) := by
  unfold digit
  have h1 : (rs ++ [c]).drop (i + 1) = rs.drop (i + 1) ++ [c] := by
    rw [List.drop_append_of_le_length (by omega)]
  have h2 : (rs ++ [c]).getD i 1 = rs.getD i 1 := by
    simp [List.getD_eq_getElem?_getD, List.getElem?_append_left hi]
  rw [h1, h2, List.prod_append, List.prod_singleton, Nat.mul_comm, Nat.div_div_eq_div_mul]

theorem digit_snoc_last (rs : List ℕ) (c l : ℕ) : digit (rs ++ [c]) rs.length l = l % c := by
  unfold digit
  have h1 : (rs ++ [c]).drop (rs.length + 1) = [] := by
    rw [List.drop_eq_nil_iff]; simp
  have h2 : (rs ++ [c]).getD rs.length 1 = c := by
    simp [List.getD_eq_getElem?_getD]
  rw [h1, h2]; simp

/-- entry `l` of the merged leaf is the product over the features of the membership of the `i`-th digit of
    `l` (C-order reshape to the per-feature bin counts) -/
theorem foldl_kron_getD_digit (b : List ℝ) : ∀ (bs : List (List ℝ)) (l : ℕ),
    l < ((b :: bs).map List.length).prod →
    (bs.foldl kron b).getD l 0
      = ∏ i ∈ Finset.range (bs.length + 1),
          ((b :: bs).getD i []).getD (digit ((b :: bs).map List.length) i l) 0 := by
  intro bs
  induction bs using List.reverseRecOn with
  | nil =>
    intro l hl
    simp only [List.map_cons, List.map_nil, List.prod_cons, List.prod_nil, mul_one] at hl
    simp [digit, Nat.mod_eq_of_lt hl]
  | append_singleton bs c ih =>
    intro l hl
    have hlen : ((b :: (bs ++ [c])).map List.length) = ((b :: bs).map List.length) ++ [c.length] := by simp
    rw [hlen, List.prod_append, List.prod_singleton] at hl
    rw [List.foldl_append, List.foldl_cons, List.foldl_nil]
    have hfl : (bs.foldl kron b).length = ((b :: bs).map List.length).prod := by
      rw [foldl_kron_length]; simp
    rw [kron_getD_divmod _ _ (by rw [hfl]; exact hl)]
    have hc : 0 < c.length := by
      rcases Nat.eq_zero_or_pos c.length with h | h
      · rw [h] at hl; simp at hl
      · exact h
    rw [ih (l / c.length) (Nat.div_lt_of_lt_mul (by rwa [Nat.mul_comm]))]
    rw [List.length_append, List.length_singleton, Finset.prod_range_succ _ (bs.length + 1), hlen]
    congr 1
    · refine Finset.prod_congr rfl fun i hi => ?_
      have hi' : i < bs.length + 1 := Finset.mem_range.mp hi
      rw [digit_snoc_lt _ _ _ _ (by simpa using hi')]
      congr 1
      rw [← List.cons_append, List.getD_eq_getElem?_getD, List.getD_eq_getElem?_getD,
        List.getElem?_append_left (by simpa using hi')]
    · have h1 : ((b :: bs).map List.length).length = bs.length + 1 := by simp
      rw [← h1, digit_snoc_last, h1]
      congr 1
      rw [← List.cons_append, List.getD_eq_getElem?_getD,
        List.getElem?_append_right (by simp)]
      simp

/-! ### `mapM` in `Option` -/

theorem mapM_option_eq_some {β γ : Type} (f : β → Option γ) : ∀ (l : List β) (ys : List γ),
    l.mapM f = some ys → l.map f = ys.map some
  | [], ys, h => by
    simp only [List.mapM_nil] at h
    cases h; rfl
  | a :: l, ys, h => by
    rw [List.mapM_cons] at h
    cases hfa : f a with
    | none => rw [hfa] at h; simp at h
    | some b =>
      cases hl : l.mapM f with
      | none => rw [hfa, hl] at h; simp at h
      | some bs =>
        rw [hfa, hl] at h
        simp only [Option.bind_eq_bind, Option.bind_some, Option.pure_def, Option.some.injEq] at h
        subst h
        simp [hfa, mapM_option_eq_some f l bs hl]

theorem mapM_finRange_some {n : ℕ} {γ : Type} (f : Fin n → Option γ) (ys : List γ) (d : γ)
    (h : (List.finRange n).mapM f = some ys) (r : Fin n) : f r = some (ys.getD r.val d) := by
  have h1 := mapM_option_eq_some f _ ys h
  have h2 := congrArg (fun l => l[r.val]?) h1
  have hfr : (List.finRange n)[r.val]? = some r := by
    rw [List.getElem?_eq_getElem (by simp)]; simp
  simp only [List.getElem?_map, hfr, Option.map_some] at h2
  simp only [List.getD_eq_getElem?_getD]
  cases hy : ys[r.val]? with
  | none => simp [hy] at h2
  | some y => simpa [hy] using h2

theorem mapM_finRange_isSome {n : ℕ} {γ : Type} (f : Fin n → Option γ) (h : ∀ r, (f r).isSome) :
    ∃ ys, (List.finRange n).mapM f = some ys := by
  suffices H : ∀ l : List (Fin n), ∃ ys, l.mapM f = some ys from H _
  intro l
  induction l with
  | nil => exact ⟨[], rfl⟩
  | cons a l ih =>
    obtain ⟨ys, hys⟩ := ih
    obtain ⟨b, hb⟩ := Option.isSome_iff_exists.mp (h a)
    exact ⟨b :: ys, by rw [List.mapM_cons, hb, hys]; rfl⟩

/-! ### the merged leaf of the model in closed form -/

/-- feature index of slot `i` of `cut_points_list_` -/
def feat (cl : List (ℕ × List ℝ)) (i : ℕ) : ℕ := (cl.getD i (0, [])).1
/-- cut vector of slot `i` of `cut_points_list_` -/
def cutsAt (cl : List (ℕ × List ℝ)) (i : ℕ) : List ℝ := (cl.getD i (0, [])).2

theorem radices_eq_map_length {d : ℕ} (T : ℝ) (x : Fin d → ℝ) (cl : List (ℕ × List ℝ)) :
    (binnings T x cl).map List.length = radices cl := by
  simp [binnings, radices, binning_length, Function.comp_def]

theorem binnings_getD {d : ℕ} (T : ℝ) (x : Fin d → ℝ) (cl : List (ℕ × List ℝ)) {i : ℕ} (hi : i < cl.length) :
    (binnings T x cl).getD i [] = binning T (xget x (feat cl i)) (cutsAt cl i) := by
  simp [binnings, feat, cutsAt, List.getD_eq_getElem?_getD, List.getElem?_eq_getElem hi]

theorem radices_getD (cl : List (ℕ × List ℝ)) {i : ℕ} (hi : i < cl.length) :
    (radices cl).getD i 1 = (cutsAt cl i).length + 1 := by
  simp [radices, cutsAt, List.getD_eq_getElem?_getD, List.getElem?_eq_getElem hi]

theorem digit_lt (cl : List (ℕ × List ℝ)) {i : ℕ} (hi : i < cl.length) (l : ℕ) :
    digit (radices cl) i l < (cutsAt cl i).length + 1 := by
  unfold digit
  rw [radices_getD cl hi]
  exact Nat.mod_lt _ (Nat.succ_pos _)

/-- the merged leaf: `leaf[l] = ∏ᵢ membershipᵢ[digit i l]` -/
theorem leafRow_getD_digit {d : ℕ} {T : ℝ} {x : Fin d → ℝ} {cl : List (ℕ × List ℝ)} {leaf : List ℝ}
    (h : leafRow T x cl = some leaf) {l : ℕ} (hl : l < leaf.length) :
    leaf.getD l 0 = ∏ i ∈ Finset.range cl.length,
      memb T (xget x (feat cl i)) (cutsAt cl i) (digit (radices cl) i l) := by
  have hlen := leafRow_length h
  obtain ⟨b, rest, hb, rfl⟩ := mergeAll_eq_some (leafRow_eq_some h).2
  have hN : rest.length + 1 = cl.length := by
    have := congrArg List.length hb
    simpa [binnings] using this.symm
  have hrad : (b :: rest).map List.length = radices cl := by rw [← hb, radices_eq_map_length]
  rw [foldl_kron_getD_digit b rest l (by rw [hrad]; rw [hlen] at hl; exact hl), hN, hrad, ← hb]
  refine Finset.prod_congr rfl fun i hi => ?_
  rw [binnings_getD T x cl (Finset.mem_range.mp hi)]
  rfl

/-! ### `_infer` and `_compute_grads` in closed form -/

section closed
variable {n d L K : ℕ}

/-- `self._leaf` as a matrix (0 where `_infer` raises) -/
noncomputable def leafM (T : ℝ) (X : Fin n → Fin d → ℝ) (cl : List (ℕ × List ℝ)) (L : ℕ) : Fin n → Fin L → ℝ :=
  fun r l => ((leafRow T (X r) cl).getD []).getD l.val 0

/-- the model's prediction matrix, read entrywise (0 where `_infer` raises) -/
noncomputable def inferM (T : ℝ) (X : Fin n → Fin d → ℝ) (cl : List (ℕ × List ℝ)) (S : Fin L → Fin K → ℝ) :
    Fin n → Fin K → ℝ :=
  fun r k => ((infer T X cl S r).getD []).getD k.val 0

theorem inferM_eq (T : ℝ) (X : Fin n → Fin d → ℝ) (cl : List (ℕ × List ℝ)) (S : Fin L → Fin K → ℝ) (r : Fin n)
    {leaf : List ℝ} (h : leafRow T (X r) cl = some leaf) (hL : leaf.length = L) :
    inferM T X cl S r = Model.Nets.softmaxRow fun k => ∑ l : Fin L, leafM T X cl L r l * S l k := by
  funext k
  simp only [inferM, infer, inferRow, h, hL, if_true, Option.getD_some, scoreRow, leafM, sumFin_eq_sum]
  exact softmaxRow_ofFn_getD _ k

/-- `binning_backprop` after the multiplication by `self._leaf` -/
noncomputable def bbM (T : ℝ) (X : Fin n → Fin d → ℝ) (cl : List (ℕ × List ℝ)) (S : Fin L → Fin K → ℝ)
    (yPred grad : Fin n → Fin K → ℝ) : Fin n → Fin L → ℝ :=
  fun r l => (∑ k, Model.Nets.tauHat yPred grad r k * S l k) * leafM T X cl L r l

/-- first entry of `updates` -/
noncomputable def lsbSpec (T : ℝ) (X : Fin n → Fin d → ℝ) (cl : List (ℕ × List ℝ)) (L : ℕ)
    (yPred grad : Fin n → Fin K → ℝ) : List ℝ :=
  (List.finRange L).flatMap fun l => (List.finRange K).map fun k =>
    -(∑ r, leafM T X cl L r l * Model.Nets.tauHat yPred grad r k)

/-- `weighted_grad` of slot `i` with `m` cut points -/
noncomputable def wgM (cl : List (ℕ × List ℝ)) (bb : Fin n → Fin L → ℝ) (i m : ℕ) : Fin n → Fin (m + 1) → ℝ :=
  fun r j => ∑ l : Fin L, if digit (radices cl) i l.val = j.val then bb r l else 0

/-- `bin_grad.sum(0)` of slot `i` (all `m + 1` entries) -/
noncomputable def biasGradFull (T : ℝ) (X : Fin n → Fin d → ℝ) (cl : List (ℕ × List ℝ))
    (bb : Fin n → Fin L → ℝ) (zi : (ℕ × List ℝ) × ℕ) : Fin (zi.1.2.length + 1) → ℝ :=
  fun j => ∑ r, (wgM cl bb zi.2 zi.1.2.length r j
      - (binning T (xget (X r) zi.1.1) zi.1.2).getD j.val 0 * ∑ j', wgM cl bb zi.2 zi.1.2.length r j') / T

/-- entry `i + 1` of `updates` -/
noncomputable def cutGradSpec (T : ℝ) (X : Fin n → Fin d → ℝ) (cl : List (ℕ × List ℝ))
    (bb : Fin n → Fin L → ℝ) (zi : (ℕ × List ℝ) × ℕ) : List ℝ :=
  (argsortNat (argsort zi.1.2)).map fun p =>
    -(((cumsum (((List.finRange (zi.1.2.length + 1)).tail.map (biasGradFull T X cl bb zi)).reverse)).reverse.map
        fun v => -v).getD p 0)

theorem tauHat_eq (y g : Fin n → Fin K → ℝ) (r : Fin n) (k : Fin K) :
    Model.Nets.tauHat y g r k = y r k * (g r k - ∑ c, y r c * g r c) := tauHat_apply y g r k

theorem computeGrads_some (T : ℝ) (X : Fin n → Fin d → ℝ) (cl : List (ℕ × List ℝ)) (S : Fin L → Fin K → ℝ)
    (yPred grad : Fin n → Fin K → ℝ) {G : List (List ℝ)} (h : computeGrads T X cl S yPred grad = some G) :
    (∀ r, ∃ leaf, leafRow T (X r) cl = some leaf ∧ leaf.length = L) ∧
    G = lsbSpec T X cl L yPred grad :: cl.zipIdx.map (cutGradSpec T X cl (bbM T X cl S yPred grad)) := by
  unfold computeGrads at h
  split at h
  · exact absurd h (by simp)
  · rename_i leaves hleaves
    have hlf : ∀ r : Fin n, leafRow T (X r) cl = some (leaves.getD r.val []) :=
      fun r => mapM_finRange_some _ leaves [] hleaves r
    split at h
    · rename_i hall
      have hlen : ∀ r : Fin n, (leaves.getD r.val []).length = L := by
        intro r
        have h1 := mapM_option_eq_some _ _ _ hleaves
        have h2 : leaves.length = n := by simpa using (congrArg List.length h1).symm
        have hr : r.val < leaves.length := by rw [h2]; exact r.isLt
        rw [List.getD_eq_getElem?_getD, List.getElem?_eq_getElem hr, Option.getD_some]
        have := List.all_eq_true.mp hall _ (List.getElem_mem hr)
        simpa using this
      refine ⟨fun r => ⟨_, hlf r, hlen r⟩, ?_⟩
      have hleaf : ∀ (r : Fin n) (l : Fin L), (leaves.getD r.val []).getD l.val 0 = leafM T X cl L r l := by
        intro r l
        simp only [leafM, hlf r, Option.getD_some]
      simp only [tab2_coe, sumFin_eq_sum, hleaf, Option.some.injEq] at h
      rw [← h]
      refine congrArg₂ _ ?_ (List.map_congr_left fun zi _ => ?_)
      · simp only [lsbSpec, tauHat_eq]
      · simp only [cutGradSpec]
        delta biasGradFull
        simp only [wgM, bbM, tauHat_eq]
    · exact absurd h (by simp)

end closed

/-! ### row-major flat indexing -/

theorem flatMap_map_getD {β γ : Type} (f : β → γ → ℝ) (bs : List γ) : ∀ (as : List β) (i j : ℕ)
    (hi : i < as.length) (hj : j < bs.length),
    (as.flatMap fun a => bs.map (f a)).getD (i * bs.length + j) 0 = f as[i] bs[j]
  | [], i, j, hi, _ => by simp at hi
  | a :: as, 0, j, _, hj => by
    simp only [List.flatMap_cons, zero_mul, zero_add, List.getD_eq_getElem?_getD]
    rw [List.getElem?_append_left (by simpa using hj)]
    simp [List.getElem?_eq_getElem hj]
  | a :: as, i + 1, j, hi, hj => by
    have hi' : i < as.length := by simpa using hi
    have he : (i + 1) * bs.length + j = (bs.map (f a)).length + (i * bs.length + j) := by
      rw [List.length_map]; ring
    rw [List.flatMap_cons, he, List.getD_eq_getElem?_getD, List.getElem?_append_right (Nat.le_add_right _ _),
      Nat.add_sub_cancel_left, ← List.getD_eq_getElem?_getD, flatMap_map_getD f bs as i j hi' hj]
    simp

theorem lsbSpec_getD {n d K : ℕ} (T : ℝ) (X : Fin n → Fin d → ℝ) (cl : List (ℕ × List ℝ)) (L : ℕ)
    (yPred grad : Fin n → Fin K → ℝ) (l : Fin L) (k : Fin K) :
    (lsbSpec T X cl L yPred grad).getD (l.val * K + k.val) 0
      = -(∑ r, leafM T X cl L r l * Model.Nets.tauHat yPred grad r k) := by
  have := flatMap_map_getD (fun (l : Fin L) (k : Fin K) => -(∑ r, leafM T X cl L r l * Model.Nets.tauHat yPred grad r k))
    (List.finRange K) (List.finRange L) l.val k.val (by simp) (by simp)
  simpa [lsbSpec] using this

/-! ### calculus: the output layer of the tree along curves of the leaf matrix and of the leaf scores -/

theorem hasDerivAt_tree_output {n L K : ℕ} {leafc : ℝ → Fin n → Fin L → ℝ} {leaf' : Fin n → Fin L → ℝ}
    {Sc : ℝ → Fin L → Fin K → ℝ} {E : Fin L → Fin K → ℝ} {t₀ : ℝ}
    (hleaf : ∀ r l, HasDerivAt (fun t => leafc t r l) (leaf' r l) t₀)
    (hS : ∀ l k, HasDerivAt (fun t => Sc t l k) (E l k) t₀) (g y : Fin n → Fin K → ℝ)
    (hy : ∀ r, y r = Model.Nets.softmaxRow fun k => ∑ l, leafc t₀ r l * Sc t₀ l k) :
    HasDerivAt (fun t => ∑ r, ∑ k, g r k * Model.Nets.softmaxRow (fun k => ∑ l, leafc t r l * Sc t l k) k)
      (∑ r, ∑ l, (∑ k, Model.Nets.tauHat y g r k * Sc t₀ l k) * leaf' r l
        + ∑ l, ∑ k, (∑ r, leafc t₀ r l * Model.Nets.tauHat y g r k) * E l k) t₀ := by
  have hZ : ∀ r k, HasDerivAt (fun t => ∑ l, leafc t r l * Sc t l k)
      (∑ l, (leaf' r l * Sc t₀ l k + leafc t₀ r l * E l k)) t₀ := fun r k =>
    HasDerivAt.fun_sum fun l _ => (hleaf r l).fun_mul (hS l k)
  have hy' : y = fun r => Model.Nets.softmaxRow fun k => ∑ l, leafc t₀ r l * Sc t₀ l k := funext hy
  refine (hasDerivAt_softmax_rows (Z := fun t r k => ∑ l, leafc t r l * Sc t l k) hZ g).congr_deriv ?_
  simp only [← hy']
  simp only [Finset.sum_add_distrib, mul_add]
  rw [pull_H (Model.Nets.tauHat y g) leaf' (Sc t₀), pull_W (Model.Nets.tauHat y g) (leafc t₀) E]

/-- (a) `leaf_scores_`: along every curve of leaf scores, with the cut points fixed -/
theorem leafScores_hasDerivAt_curve {n d L K : ℕ} (T : ℝ) (X : Fin n → Fin d → ℝ) (cl : List (ℕ × List ℝ))
    {Sc : ℝ → Fin L → Fin K → ℝ} {E : Fin L → Fin K → ℝ} {t₀ : ℝ}
    (hS : ∀ l k, HasDerivAt (fun t => Sc t l k) (E l k) t₀) (g : Fin n → Fin K → ℝ) {G : List (List ℝ)}
    (hG : computeGrads T X cl (Sc t₀) (inferM T X cl (Sc t₀)) g = some G) :
    HasDerivAt (fun t => ∑ r, ∑ k, g r k * inferM T X cl (Sc t) r k)
      (∑ l : Fin L, ∑ k : Fin K, -((G.getD 0 []).getD (l.val * K + k.val) 0) * E l k) t₀ := by
  obtain ⟨hleaf, rfl⟩ := computeGrads_some T X cl (Sc t₀) _ g hG
  have hinf : ∀ t r, inferM T X cl (Sc t) r
      = Model.Nets.softmaxRow fun k => ∑ l : Fin L, leafM T X cl L r l * Sc t l k := fun t r => by
    obtain ⟨leaf, h1, h2⟩ := hleaf r
    exact inferM_eq T X cl (Sc t) r h1 h2
  simp only [hinf]
  have h := hasDerivAt_tree_output (leafc := fun _ => leafM T X cl L) (leaf' := fun _ _ => 0)
    (fun r l => hasDerivAt_const t₀ _) hS g (inferM T X cl (Sc t₀)) (fun r => hinf t₀ r)
  refine h.congr_deriv ?_
  simp only [mul_zero, Finset.sum_const_zero, zero_add, List.getD_cons_zero, lsbSpec_getD, neg_neg]

/-- `_compute_grads` returns whenever `_infer` does: non-empty `cut_points_list_`, feature indices inside the
    data, one row of `leaf_scores_` per leaf -/
theorem computeGrads_isSome {n d L K : ℕ} (T : ℝ) (X : Fin n → Fin d → ℝ) {cl : List (ℕ × List ℝ)}
    (hne : cl ≠ []) (hr : ∀ z ∈ cl, z.1 < d) (hL : L = (radices cl).prod) (S : Fin L → Fin K → ℝ)
    (yPred grad : Fin n → Fin K → ℝ) : ∃ G, computeGrads T X cl S yPred grad = some G := by
  obtain ⟨leaves, hleaves⟩ := mapM_finRange_isSome (fun r : Fin n => leafRow T (X r) cl) fun r => by
    obtain ⟨leaf, h⟩ := leafRow_isSome T (X r) hne hr
    simp [h]
  have hall : (leaves.all fun lf => lf.length == L) = true := by
    rw [List.all_eq_true]
    intro lf hlf
    have h1 := mapM_option_eq_some _ _ _ hleaves
    have h2 : some lf ∈ leaves.map some := List.mem_map_of_mem hlf
    rw [← h1] at h2
    obtain ⟨r, _, hr'⟩ := List.mem_map.mp h2
    have := leafRow_length hr'
    simp only [beq_iff_eq, this, hL, radices]
  unfold computeGrads
  simp only [hleaves, hall, if_true]
  exact ⟨_, rfl⟩

/-! ### list sums as `Finset.range` sums; the reversed cumulative sum -/

theorem sum_map_eq_sum_range {β : Type} (dflt : β) (h : β → ℝ) : ∀ l : List β,
    (l.map h).sum = ∑ i ∈ Finset.range l.length, h (l.getD i dflt)
  | [] => by simp
  | a :: l => by
    rw [List.map_cons, List.sum_cons, List.length_cons, Finset.sum_range_succ', sum_map_eq_sum_range dflt h l]
    simp [add_comm]

theorem sum_eq_sum_range (l : List ℝ) : l.sum = ∑ i ∈ Finset.range l.length, l.getD i 0 := by
  have := sum_map_eq_sum_range (0 : ℝ) id l
  simpa using this

theorem cumsum_length (l : List ℝ) : (cumsum l).length = l.length := by
  cases l with
  | nil => rfl
  | cons a l => simp [cumsum, cumsumAux_length]

theorem cumsum_getElem (l : List ℝ) (j : ℕ) (h : j < (cumsum l).length) :
    (cumsum l)[j] = (l.take (j + 1)).sum := by
  cases l with
  | nil => simp [cumsum] at h
  | cons a l =>
    cases j with
    | zero => simp [cumsum]
    | succ j =>
      simp only [cumsum, List.getElem_cons_succ, List.take_succ_cons, List.sum_cons]
      rw [cumsumAux_getElem]

/-- `np.cumsum(v[::-1])[::-1]` : entry `q` is the sum of the entries of `v` from `q` on -/
theorem cumsum_reverse_getD (l : List ℝ) {q : ℕ} (hq : q < l.length) :
    ((cumsum l.reverse).reverse).getD q 0 = (l.drop q).sum := by
  have hlen : (cumsum l.reverse).length = l.length := by rw [cumsum_length, List.length_reverse]
  have hq' : q < (cumsum l.reverse).reverse.length := by rw [List.length_reverse, hlen]; exact hq
  rw [List.getD_eq_getElem?_getD, List.getElem?_eq_getElem hq', Option.getD_some, List.getElem_reverse,
    cumsum_getElem, hlen]
  have h1 : l.length - 1 - q + 1 = l.length - q := by omega
  rw [h1, List.take_reverse, List.sum_reverse]
  congr 2
  omega

/-! ### `argsort` of a permutation of `0 … m-1` is the inverse permutation -/

theorem isort_nat_perm (σ : List ℕ) :
    (isort (fun p q : ℕ × ℕ => decide (p.1 ≤ q.1)) σ.zipIdx).Perm σ.zipIdx := by
  rw [isort_eq]; exact List.perm_insertionSort _ _

theorem isort_nat_sorted (σ : List ℕ) :
    (isort (fun p q : ℕ × ℕ => decide (p.1 ≤ q.1)) σ.zipIdx).Pairwise (fun p q => p.1 ≤ q.1) := by
  rw [isort_eq]
  have : IsTrans (ℕ × ℕ) (fun p q => decide (p.1 ≤ q.1) = true) :=
    ⟨fun p q r h1 h2 => by simp only [decide_eq_true_eq] at *; exact le_trans h1 h2⟩
  have : Std.Total (fun p q : ℕ × ℕ => decide (p.1 ≤ q.1) = true) :=
    ⟨fun p q => by simp only [decide_eq_true_eq]; exact le_total _ _⟩
  exact (List.pairwise_insertionSort (fun p q : ℕ × ℕ => decide (p.1 ≤ q.1) = true) _).imp
    fun h => by simpa using h

/-- re-indexing a sum through `argsort(order)`: `∑ₚ f(argsort(order)[p]) · e(p) = ∑_q f(q) · e(order[q])` -/
theorem sum_argsortNat {σ : List ℕ} {m : ℕ} (hσ : σ.Perm (List.range m)) (f e : ℕ → ℝ) :
    ∑ p ∈ Finset.range m, f ((argsortNat σ).getD p 0) * e p
      = ∑ q ∈ Finset.range m, f q * e (σ.getD q 0) := by
  set P := isort (fun p q : ℕ × ℕ => decide (p.1 ≤ q.1)) σ.zipIdx with hP
  have hperm : P.Perm σ.zipIdx := isort_nat_perm σ
  have hsorted : (P.map Prod.fst).Pairwise (· ≤ ·) := by
    rw [List.pairwise_map]; exact isort_nat_sorted σ
  have hfst : P.map Prod.fst = List.range m := by
    refine List.Perm.eq_of_pairwise' (r := (· ≤ ·)) hsorted ?_ ?_
    · exact List.pairwise_le_range
    · have := hperm.map Prod.fst
      rw [List.zipIdx_map_fst] at this
      exact this.trans hσ
  have hlenP : P.length = m := by
    have := congrArg List.length hfst
    simpa using this
  have hlenσ : σ.length = m := by simpa using hσ.length_eq
  -- left side as a list sum over P
  have hL : ∑ p ∈ Finset.range m, f ((argsortNat σ).getD p 0) * e p = (P.map fun pr => f pr.2 * e pr.1).sum := by
    rw [sum_map_eq_sum_range ((0 : ℕ), (0 : ℕ)), hlenP]
    refine Finset.sum_congr rfl fun p hp => ?_
    have hp' : p < P.length := by rw [hlenP]; exact Finset.mem_range.mp hp
    have h1 : (P.getD p (0, 0)).1 = p := by
      have := congrArg (fun l => l.getD p 0) hfst
      simp only [List.getD_eq_getElem?_getD, List.getElem?_map, List.getElem?_eq_getElem hp',
        List.getElem?_range (Finset.mem_range.mp hp)] at this ⊢
      simpa using this
    have h2 : (argsortNat σ).getD p 0 = (P.getD p (0, 0)).2 := by
      simp only [argsortNat, ← hP, List.getD_eq_getElem?_getD, List.getElem?_map, List.getElem?_eq_getElem hp']
      simp
    rw [h1, h2]
  have hR : ∑ q ∈ Finset.range m, f q * e (σ.getD q 0) = (σ.zipIdx.map fun pr => f pr.2 * e pr.1).sum := by
    rw [sum_map_eq_sum_range ((0 : ℕ), (0 : ℕ)), List.length_zipIdx, hlenσ]
    refine Finset.sum_congr rfl fun q hq => ?_
    have hq' : q < σ.length := by rw [hlenσ]; exact Finset.mem_range.mp hq
    simp [List.getD_eq_getElem?_getD, List.getElem?_eq_getElem hq', hq']
  rw [hL, hR]
  exact (hperm.map _).sum_eq

/-! ### perturbing a cut vector -/

/-- the cut vector `c + t·e` (`e p` is the direction of entry `p`) -/
def perturb (c : List ℝ) (e : ℕ → ℝ) (t : ℝ) : List ℝ := c.zipIdx.map fun vp => vp.1 + t * e vp.2

@[simp] theorem perturb_length (c : List ℝ) (e : ℕ → ℝ) (t : ℝ) : (perturb c e t).length = c.length := by
  simp [perturb]

theorem perturb_getElem? (c : List ℝ) (e : ℕ → ℝ) (t : ℝ) (p : ℕ) :
    (perturb c e t)[p]? = (c[p]?).map fun v => v + t * e p := by
  simp only [perturb, List.getElem?_map, List.getElem?_zipIdx, zero_add]
  cases c[p]? <;> simp

@[simp] theorem perturb_zero (c : List ℝ) (e : ℕ → ℝ) : perturb c e 0 = c := by
  apply List.ext_getElem?
  intro p
  rw [perturb_getElem?]
  cases c[p]? <;> simp

theorem perturb_of_zero (c : List ℝ) {e : ℕ → ℝ} (he : ∀ p < c.length, e p = 0) (t : ℝ) : perturb c e t = c := by
  apply List.ext_getElem?
  intro p
  rw [perturb_getElem?]
  by_cases hp : p < c.length
  · simp [List.getElem?_eq_getElem hp, he p hp]
  · simp [List.getElem?_eq_none (not_lt.mp hp)]

theorem perturb_eq_map_range (c : List ℝ) (e : ℕ → ℝ) (t : ℝ) :
    perturb c e t = (List.range c.length).map fun p => c.getD p 0 + t * e p := by
  apply List.ext_getElem?
  intro p
  rw [perturb_getElem?]
  by_cases hp : p < c.length
  · simp [List.getElem?_eq_getElem hp, List.getElem?_range hp, List.getD_eq_getElem?_getD]
  · simp [List.getElem?_eq_none (not_lt.mp hp)]
    omega

theorem argsort_mem_lt (c : List ℝ) {p : ℕ} (hp : p ∈ argsort c) : p < c.length :=
  List.mem_range.mp ((argsort_perm c).mem_iff.mp hp)

theorem argsort_length (c : List ℝ) : (argsort c).length = c.length := by
  simpa using (argsort_perm c).length_eq

theorem argsort_nodup (c : List ℝ) : (argsort c).Nodup :=
  (argsort_perm c).nodup_iff.mpr List.nodup_range

theorem argsort_sorted (c : List ℝ) : (argsort c).Pairwise fun p p' => c.getD p 0 ≤ c.getD p' 0 := by
  have := sortedCuts_sorted c
  rwa [sortedCuts, takeIdx, List.pairwise_map] at this

/-- In a neighbourhood of a cut vector with pairwise distinct entries the sort order does not change: the sorted
    perturbed vector is the perturbed vector read through the unperturbed `argsort`. -/
theorem sortedCuts_perturb_eventually {c : List ℝ} (hc : c.Nodup) (e : ℕ → ℝ) :
    ∀ᶠ t in 𝓝 (0 : ℝ), sortedCuts (perturb c e t) = (argsort c).map fun p => c.getD p 0 + t * e p := by
  have hev : ∀ᶠ t in 𝓝 (0 : ℝ), ∀ p ∈ Finset.range c.length, ∀ p' ∈ Finset.range c.length,
      c.getD p 0 < c.getD p' 0 → c.getD p 0 + t * e p < c.getD p' 0 + t * e p' := by
    rw [Filter.eventually_all_finset]
    intro p _
    rw [Filter.eventually_all_finset]
    intro p' _
    by_cases hlt : c.getD p 0 < c.getD p' 0
    · have hcont : ContinuousAt (fun t : ℝ => (c.getD p' 0 + t * e p') - (c.getD p 0 + t * e p)) 0 := by
        fun_prop
      have h0 : (0 : ℝ) < (c.getD p' 0 + 0 * e p') - (c.getD p 0 + 0 * e p) := by simpa using hlt
      filter_upwards [hcont.eventually (lt_mem_nhds h0)] with t ht _
      linarith
    · exact Filter.Eventually.of_forall fun t h => absurd h hlt
  filter_upwards [hev] with t ht
  symm
  refine List.Perm.eq_of_pairwise' (r := (· ≤ ·)) ?_ (sortedCuts_sorted _) ?_
  · rw [List.pairwise_map]
    have h1 : (argsort c).Pairwise fun p p' => c.getD p 0 ≤ c.getD p' 0 ∧ p ≠ p' :=
      (argsort_sorted c).and (argsort_nodup c)
    refine h1.imp_of_mem ?_
    intro p p' hp hp' ⟨hle, hne⟩
    have hpl := argsort_mem_lt c hp
    have hpl' := argsort_mem_lt c hp'
    have hne' : c.getD p 0 ≠ c.getD p' 0 := by
      intro heq
      apply hne
      simp only [List.getD_eq_getElem?_getD, List.getElem?_eq_getElem hpl, List.getElem?_eq_getElem hpl',
        Option.getD_some] at heq
      exact (List.Nodup.getElem_inj_iff hc).mp heq
    exact (ht p (Finset.mem_range.mpr hpl) p' (Finset.mem_range.mpr hpl') (lt_of_le_of_ne hle hne')).le
  · rw [perturb_eq_map_range]
    exact ((argsort_perm c).map _).trans (sortedCuts_perm _).symm

theorem argsort_getD_lt (c : List ℝ) {q : ℕ} (hq : q < c.length) : (argsort c).getD q 0 < c.length := by
  have hq' : q < (argsort c).length := by rw [argsort_length]; exact hq
  rw [List.getD_eq_getElem?_getD, List.getElem?_eq_getElem hq', Option.getD_some]
  exact argsort_mem_lt c (List.getElem_mem hq')

/-- entry `q` of the sorted perturbed cut vector moves with the speed of the entry that `argsort` puts there -/
theorem hasDerivAt_sortedCuts_perturb {c : List ℝ} {e : ℕ → ℝ} (h : c.Nodup ∨ ∀ p < c.length, e p = 0)
    {q : ℕ} (hq : q < c.length) :
    HasDerivAt (fun t => (sortedCuts (perturb c e t)).getD q 0) (e ((argsort c).getD q 0)) 0 := by
  rcases h with hc | he
  · have hq' : q < (argsort c).length := by rw [argsort_length]; exact hq
    have hlin : HasDerivAt (fun t : ℝ => c.getD ((argsort c).getD q 0) 0 + t * e ((argsort c).getD q 0))
        (e ((argsort c).getD q 0)) 0 := hasDerivAt_lin _ _
    refine hlin.congr_of_eventuallyEq ?_
    filter_upwards [sortedCuts_perturb_eventually hc e] with t ht
    rw [ht]
    simp [List.getD_eq_getElem?_getD, List.getElem?_eq_getElem hq']
  · rw [he _ (argsort_getD_lt c hq)]
    simp only [perturb_of_zero c he]
    exact hasDerivAt_const _ _

/-! ### calculus: one membership row along a curve of cut vectors -/

theorem take_sum_eq_sum_range (s : List ℝ) {j : ℕ} (hj : j ≤ s.length) :
    (s.take j).sum = ∑ q ∈ Finset.range j, s.getD q 0 := by
  rw [sum_eq_sum_range, List.length_take, min_eq_left hj]
  refine Finset.sum_congr rfl fun q hq => ?_
  have := Finset.mem_range.mp hq
  simp [List.getD_eq_getElem?_getD, List.getElem?_take, this]

/-- the membership row of the model is the `Fin`-indexed soft-max of the closed-form logits over the temperature -/
theorem memb_eq_softmaxRow (T x : ℝ) (c : List ℝ) {m : ℕ} (hm : c.length = m) (j : Fin (m + 1)) :
    memb T x c j.val = Model.Nets.softmaxRow (fun j' : Fin (m + 1) => lg x (sortedCuts c) j'.val / T) j := by
  rw [memb_eq T x c (by have := j.isLt; omega), GemVerif.softmaxRow_eq, Z, sortedCuts_length, hm,
    Finset.sum_range]

theorem hasDerivAt_lg {sc : ℝ → List ℝ} {m : ℕ} {ε : ℕ → ℝ} {t₀ : ℝ} (hlen : ∀ t, (sc t).length = m)
    (hs : ∀ q < m, HasDerivAt (fun t => (sc t).getD q 0) (ε q) t₀) (T x : ℝ) {j : ℕ} (hj : j ≤ m) :
    HasDerivAt (fun t => lg x (sc t) j / T) (-(∑ q ∈ Finset.range j, ε q) / T) t₀ := by
  have h1 : (fun t => lg x (sc t) j / T)
      = fun t => (x * ((j : ℝ) + 1) - ∑ q ∈ Finset.range j, (sc t).getD q 0) / T := by
    funext t
    rw [lg, take_sum_eq_sum_range _ (by rw [hlen t]; exact hj)]
  rw [h1]
  have h2 : HasDerivAt (fun t => ∑ q ∈ Finset.range j, (sc t).getD q 0) (∑ q ∈ Finset.range j, ε q) t₀ :=
    HasDerivAt.fun_sum fun q hq => hs q (lt_of_lt_of_le (Finset.mem_range.mp hq) hj)
  have h3 := ((hasDerivAt_const t₀ (x * ((j : ℝ) + 1))).fun_sub h2).div_const T
  simpa using h3

/-- one soft-max entry along a curve of logits -/
theorem hasDerivAt_softmaxRow_entry {M : ℕ} {u : ℝ → Fin M → ℝ} {v : Fin M → ℝ} {t₀ : ℝ}
    (hu : ∀ k, HasDerivAt (fun t => u t k) (v k) t₀) (j : Fin M) :
    HasDerivAt (fun t => Model.Nets.softmaxRow (u t) j)
      (Model.Nets.softmaxRow (u t₀) j * (v j - ∑ k, Model.Nets.softmaxRow (u t₀) k * v k)) t₀ := by
  have h := hasDerivAt_softmaxRow_pairing hu (fun k => if k = j then (1 : ℝ) else 0)
  simp only [ite_mul, one_mul, zero_mul, mul_ite, mul_one, mul_zero, Finset.sum_ite_eq', Finset.mem_univ,
    if_true] at h
  refine h.congr_deriv ?_
  generalize Model.Nets.softmaxRow (u t₀) = y
  have : ∀ l, y l * ((if l = j then (1 : ℝ) else 0) - y j) * v l
      = (if l = j then y l * v l else 0) - y j * (y l * v l) := fun l => by
    split <;> ring
  simp only [this, Finset.sum_sub_distrib, Finset.sum_ite_eq', Finset.mem_univ, if_true, ← Finset.mul_sum]
  ring

/-- speed of logit `j` over the temperature when sorted cut `q` moves with speed `ε q` -/
noncomputable def vlog (T : ℝ) (ε : ℕ → ℝ) (j : ℕ) : ℝ := -(∑ q ∈ Finset.range j, ε q) / T

/-- membership `j` of a feature value `x` along a curve `cc` of cut vectors of constant length `m` whose sorted
    entries move with speeds `ε` -/
theorem hasDerivAt_memb {cc : ℝ → List ℝ} {m : ℕ} {ε : ℕ → ℝ} {t₀ : ℝ} (hlen : ∀ t, (cc t).length = m)
    (hs : ∀ q < m, HasDerivAt (fun t => (sortedCuts (cc t)).getD q 0) (ε q) t₀) (T x : ℝ) (j : Fin (m + 1)) :
    HasDerivAt (fun t => memb T x (cc t) j.val)
      (memb T x (cc t₀) j.val * (vlog T ε j.val - ∑ j' : Fin (m + 1), memb T x (cc t₀) j'.val * vlog T ε j'.val))
      t₀ := by
  simp only [fun t => memb_eq_softmaxRow T x (cc t) (hlen t)]
  exact hasDerivAt_softmaxRow_entry (u := fun t (j' : Fin (m + 1)) => lg x (sortedCuts (cc t)) j'.val / T)
    (fun k => hasDerivAt_lg (fun t => by rw [sortedCuts_length, hlen t]) hs T x (by have := k.isLt; omega)) j

/-! ### the adjoint of "sort, negate, cumulative sum" as the code computes it -/

theorem argsortNat_length (σ : List ℕ) : (argsortNat σ).length = σ.length := by
  simp only [argsortNat, List.length_map]
  simpa using (isort_nat_perm σ).length_eq

theorem biasGrad_drop_sum {m : ℕ} (bGF : Fin (m + 1) → ℝ) {q : ℕ} (hq : q < m) :
    ((((List.finRange (m + 1)).tail.map bGF)).drop q).sum = ∑ j : Fin (m + 1), if q < j.val then bGF j else 0 := by
  have hl : ((List.finRange (m + 1)).tail.map bGF) = List.ofFn fun j' : Fin m => bGF j'.succ := by
    rw [List.finRange_succ, List.tail_cons, List.map_map, List.ofFn_eq_map]
    rfl
  rw [hl, sum_eq_sum_range, List.length_drop, List.length_ofFn]
  have hβ : ∀ i ∈ Finset.range (m - q), ((List.ofFn fun j' : Fin m => bGF j'.succ).drop q).getD i 0
      = (fun j : ℕ => if h : j < m + 1 then bGF ⟨j, h⟩ else 0) (q + 1 + i) := by
    intro i hi
    have hi' : q + i < m := by have := Finset.mem_range.mp hi; omega
    have h2 : q + 1 + i < m + 1 := by omega
    simp only [List.getD_eq_getElem?_getD, List.getElem?_drop, List.getElem?_ofFn, hi', dif_pos, h2,
      Option.getD_some]
    congr 1
    ext; simp; omega
  set β : ℕ → ℝ := fun j : ℕ => if h : j < m + 1 then bGF ⟨j, h⟩ else 0 with hβdef
  calc ∑ i ∈ Finset.range (m - q), ((List.ofFn fun j' : Fin m => bGF j'.succ).drop q).getD i 0
      = ∑ i ∈ Finset.range (m + 1 - (q + 1)), β (q + 1 + i) := by
        rw [show m + 1 - (q + 1) = m - q by omega]; exact Finset.sum_congr rfl hβ
    _ = ∑ j ∈ Finset.Ico (q + 1) (m + 1), β j := (Finset.sum_Ico_eq_sum_range β (q + 1) (m + 1)).symm
    _ = ∑ j ∈ Finset.range (m + 1), if q < j then β j else 0 := by
        rw [Finset.sum_ite, Finset.sum_const_zero, add_zero]
        refine Finset.sum_congr ?_ fun _ _ => rfl
        ext j
        simp only [Finset.mem_filter, Finset.mem_range, Finset.mem_Ico]
        omega
    _ = ∑ j : Fin (m + 1), if q < j.val then β j.val else 0 :=
        (Fin.sum_univ_eq_sum_range (fun j => if q < j then β j else 0) (m + 1)).symm
    _ = _ := by
        refine Finset.sum_congr rfl fun j _ => ?_
        have hj : j.val < m + 1 := j.isLt
        simp only [hβdef, dif_pos hj]

theorem cut_adjoint {m : ℕ} (bGF : Fin (m + 1) → ℝ) {σ : List ℕ} (hσ : σ.Perm (List.range m)) (e : ℕ → ℝ) :
    ∑ p ∈ Finset.range m,
        -(((argsortNat σ).map fun p =>
            -(((cumsum (((List.finRange (m + 1)).tail.map bGF).reverse)).reverse.map fun v => -v).getD p 0)).getD p 0)
          * e p
      = -(∑ j : Fin (m + 1), bGF j * ∑ q ∈ Finset.range j.val, e (σ.getD q 0)) := by
  set bgL := (List.finRange (m + 1)).tail.map bGF with hbgL
  have hbgLlen : bgL.length = m := by simp [hbgL]
  set f : ℕ → ℝ := fun q => ((cumsum bgL.reverse).reverse.map fun v => -v).getD q 0 with hf
  have hσlen : σ.length = m := by simpa using hσ.length_eq
  have h1 : ∀ p ∈ Finset.range m,
      -(((argsortNat σ).map fun p => -(f p)).getD p 0) * e p = f ((argsortNat σ).getD p 0) * e p := by
    intro p hp
    have hp' : p < (argsortNat σ).length := by rw [argsortNat_length, hσlen]; exact Finset.mem_range.mp hp
    simp [List.getD_eq_getElem?_getD, List.getElem?_eq_getElem hp']
  rw [Finset.sum_congr rfl h1, sum_argsortNat hσ f e]
  have h2 : ∀ q ∈ Finset.range m, f q = -(∑ j : Fin (m + 1), if q < j.val then bGF j else 0) := by
    intro q hq
    have hq' : q < bgL.length := by rw [hbgLlen]; exact Finset.mem_range.mp hq
    have hq'' : q < (cumsum bgL.reverse).reverse.length := by
      rw [List.length_reverse, cumsum_length, List.length_reverse]; exact hq'
    have h3 := cumsum_reverse_getD bgL hq'
    rw [List.getD_eq_getElem?_getD, List.getElem?_eq_getElem hq'', Option.getD_some] at h3
    simp only [hf, List.getD_eq_getElem?_getD, List.getElem?_map, List.getElem?_eq_getElem hq'', Option.map_some,
      Option.getD_some, h3]
    rw [hbgL, biasGrad_drop_sum bGF (Finset.mem_range.mp hq)]
  rw [Finset.sum_congr rfl fun q hq => by rw [h2 q hq]]
  simp only [neg_mul, Finset.sum_neg_distrib, neg_inj, Finset.sum_mul, Finset.mul_sum]
  rw [Finset.sum_comm]
  refine Finset.sum_congr rfl fun j _ => ?_
  simp only [ite_mul, zero_mul]
  rw [Finset.sum_ite, Finset.sum_const_zero, add_zero]
  refine Finset.sum_congr ?_ fun _ _ => rfl
  ext q
  simp only [Finset.mem_filter, Finset.mem_range]
  have := j.isLt
  omega

/-! ### perturbing every cut vector of `cut_points_list_` at once -/

/-- `cut_points_list_` with slot `i` moved to `cᵢ + t · Ecut i` -/
def pert (cl : List (ℕ × List ℝ)) (Ecut : ℕ → ℕ → ℝ) (t : ℝ) : List (ℕ × List ℝ) :=
  cl.zipIdx.map fun zi => (zi.1.1, perturb zi.1.2 (Ecut zi.2) t)

@[simp] theorem pert_length (cl : List (ℕ × List ℝ)) (Ecut : ℕ → ℕ → ℝ) (t : ℝ) :
    (pert cl Ecut t).length = cl.length := by simp [pert]

theorem pert_getElem? (cl : List (ℕ × List ℝ)) (Ecut : ℕ → ℕ → ℝ) (t : ℝ) (i : ℕ) :
    (pert cl Ecut t)[i]? = (cl[i]?).map fun z => (z.1, perturb z.2 (Ecut i) t) := by
  simp only [pert, List.getElem?_map, List.getElem?_zipIdx, zero_add]
  cases cl[i]? <;> simp

@[simp] theorem pert_zero (cl : List (ℕ × List ℝ)) (Ecut : ℕ → ℕ → ℝ) : pert cl Ecut 0 = cl := by
  apply List.ext_getElem?
  intro i
  rw [pert_getElem?]
  cases cl[i]? <;> simp

theorem feat_pert (cl : List (ℕ × List ℝ)) (Ecut : ℕ → ℕ → ℝ) (t : ℝ) {i : ℕ} (hi : i < cl.length) :
    feat (pert cl Ecut t) i = feat cl i := by
  simp [feat, List.getD_eq_getElem?_getD, pert_getElem?, List.getElem?_eq_getElem hi]

theorem cutsAt_pert (cl : List (ℕ × List ℝ)) (Ecut : ℕ → ℕ → ℝ) (t : ℝ) {i : ℕ} (hi : i < cl.length) :
    cutsAt (pert cl Ecut t) i = perturb (cutsAt cl i) (Ecut i) t := by
  simp [cutsAt, List.getD_eq_getElem?_getD, pert_getElem?, List.getElem?_eq_getElem hi]

theorem zipIdx_map_of_fst {β γ : Type} (l : List β) (g : β → γ) : (l.zipIdx.map fun x => g x.1) = l.map g := by
  have : (fun x : β × ℕ => g x.1) = g ∘ Prod.fst := rfl
  rw [this, ← List.map_map, List.zipIdx_map_fst]

@[simp] theorem radices_pert (cl : List (ℕ × List ℝ)) (Ecut : ℕ → ℕ → ℝ) (t : ℝ) :
    radices (pert cl Ecut t) = radices cl := by
  simp only [radices, pert, List.map_map, Function.comp_def, perturb_length]
  exact zipIdx_map_of_fst cl fun z => z.2.length + 1

theorem pert_map_fst (cl : List (ℕ × List ℝ)) (Ecut : ℕ → ℕ → ℝ) (t : ℝ) :
    (pert cl Ecut t).map Prod.fst = cl.map Prod.fst := by
  simp only [pert, List.map_map, Function.comp_def]
  exact zipIdx_map_of_fst cl Prod.fst

/-- a perturbed `cut_points_list_` passes `_infer` exactly when the unperturbed one does, with the same leaf count -/
theorem leafRow_pert {d L : ℕ} {T : ℝ} (x x' : Fin d → ℝ) {cl : List (ℕ × List ℝ)} {leaf : List ℝ}
    (h : leafRow T x cl = some leaf) (hL : leaf.length = L) (Ecut : ℕ → ℕ → ℝ) (t : ℝ) :
    ∃ leaf', leafRow T x' (pert cl Ecut t) = some leaf' ∧ leaf'.length = L := by
  have hin := (leafRow_eq_some h).1
  have hne : cl ≠ [] := by
    rintro rfl
    have := (leafRow_eq_some h).2
    simp [binnings, mergeAll] at this
  have hr : ∀ z ∈ cl, z.1 < d := by simpa [inRange] using hin
  have hr' : ∀ z ∈ pert cl Ecut t, z.1 < d := by
    intro z hz
    have : z.1 ∈ (pert cl Ecut t).map Prod.fst := List.mem_map_of_mem hz
    rw [pert_map_fst] at this
    obtain ⟨w, hw, hw'⟩ := List.mem_map.mp this
    rw [← hw']; exact hr w hw
  have hne' : pert cl Ecut t ≠ [] := by
    intro h0
    have := congrArg List.length h0
    rw [pert_length] at this
    exact hne (List.length_eq_zero_iff.mp this)
  obtain ⟨leaf', hl'⟩ := leafRow_isSome T x' hne' hr'
  refine ⟨leaf', hl', ?_⟩
  have h1 := leafRow_length hl'
  have h2 := leafRow_length h
  have h3 : ∀ cl' : List (ℕ × List ℝ), (cl'.map fun z => z.2.length + 1) = radices cl' := fun _ => rfl
  rw [h3, radices_pert] at h1
  rw [h3] at h2
  rw [h1, ← h2, hL]

/-! ### calculus: the merged leaf along a perturbation of all cut vectors -/

/-- speed of the `q`-th sorted cut of slot `i`: the direction of the entry that `argsort` puts at place `q` -/
noncomputable def epsAt (cl : List (ℕ × List ℝ)) (Ecut : ℕ → ℕ → ℝ) (i q : ℕ) : ℝ := Ecut i ((argsort (cutsAt cl i)).getD q 0)

/-- logarithmic derivative of membership `j` of slot `i` for sample `r` -/
noncomputable def wM {n d : ℕ} (T : ℝ) (X : Fin n → Fin d → ℝ) (cl : List (ℕ × List ℝ)) (Ecut : ℕ → ℕ → ℝ)
    (r : Fin n) (i j : ℕ) : ℝ :=
  vlog T (epsAt cl Ecut i) j - ∑ j' : Fin ((cutsAt cl i).length + 1),
    memb T (xget (X r) (feat cl i)) (cutsAt cl i) j'.val * vlog T (epsAt cl Ecut i) j'.val

/-- the condition under which the tree is differentiable along `Ecut`: a cut vector that moves has pairwise
    distinct entries -/
def CutsOK (cl : List (ℕ × List ℝ)) (Ecut : ℕ → ℕ → ℝ) : Prop :=
  ∀ i < cl.length, (cutsAt cl i).Nodup ∨ ∀ p < (cutsAt cl i).length, Ecut i p = 0

theorem hasDerivAt_memb_pert {n d : ℕ} (T : ℝ) (X : Fin n → Fin d → ℝ) {cl : List (ℕ × List ℝ)}
    {Ecut : ℕ → ℕ → ℝ} (hc : CutsOK cl Ecut) (r : Fin n) {i : ℕ} (hi : i < cl.length) {j : ℕ}
    (hj : j < (cutsAt cl i).length + 1) :
    HasDerivAt (fun t => memb T (xget (X r) (feat cl i)) (perturb (cutsAt cl i) (Ecut i) t) j)
      (memb T (xget (X r) (feat cl i)) (cutsAt cl i) j * wM T X cl Ecut r i j) 0 := by
  have h := hasDerivAt_memb (cc := fun t => perturb (cutsAt cl i) (Ecut i) t) (m := (cutsAt cl i).length)
    (ε := epsAt cl Ecut i) (t₀ := 0) (fun t => perturb_length _ _ _)
    (fun q hq => hasDerivAt_sortedCuts_perturb (hc i hi) hq) T (xget (X r) (feat cl i)) ⟨j, hj⟩
  simpa only [perturb_zero, wM] using h

theorem leafM_pert_eq {n d L : ℕ} (T : ℝ) (X : Fin n → Fin d → ℝ) {cl : List (ℕ × List ℝ)} (Ecut : ℕ → ℕ → ℝ)
    (r : Fin n) (l : Fin L) {leaf : List ℝ} (h : leafRow T (X r) cl = some leaf) (hL : leaf.length = L) (t : ℝ) :
    leafM T X (pert cl Ecut t) L r l = ∏ i ∈ Finset.range cl.length,
      memb T (xget (X r) (feat cl i)) (perturb (cutsAt cl i) (Ecut i) t) (digit (radices cl) i l.val) := by
  obtain ⟨leaf', h1, h2⟩ := leafRow_pert (X r) (X r) h hL Ecut t
  simp only [leafM, h1, Option.getD_some]
  rw [leafRow_getD_digit h1 (by rw [h2]; exact l.isLt), pert_length, radices_pert]
  refine Finset.prod_congr rfl fun i hi => ?_
  rw [feat_pert cl Ecut t (Finset.mem_range.mp hi), cutsAt_pert cl Ecut t (Finset.mem_range.mp hi)]

theorem hasDerivAt_leafM {n d L : ℕ} (T : ℝ) (X : Fin n → Fin d → ℝ) {cl : List (ℕ × List ℝ)}
    {Ecut : ℕ → ℕ → ℝ} (hc : CutsOK cl Ecut) (r : Fin n) (l : Fin L) {leaf : List ℝ}
    (h : leafRow T (X r) cl = some leaf) (hL : leaf.length = L) :
    HasDerivAt (fun t => leafM T X (pert cl Ecut t) L r l)
      (leafM T X cl L r l * ∑ i ∈ Finset.range cl.length, wM T X cl Ecut r i (digit (radices cl) i l.val)) 0 := by
  simp only [fun t => leafM_pert_eq T X Ecut r l h hL t]
  have h0 := leafM_pert_eq T X Ecut r l h hL 0
  rw [pert_zero] at h0
  simp only [perturb_zero] at h0
  have hd := HasDerivAt.fun_finsetProd (u := Finset.range cl.length) (x := (0 : ℝ))
    (f := fun i t => memb T (xget (X r) (feat cl i)) (perturb (cutsAt cl i) (Ecut i) t) (digit (radices cl) i l.val))
    (f' := fun i => memb T (xget (X r) (feat cl i)) (cutsAt cl i) (digit (radices cl) i l.val)
      * wM T X cl Ecut r i (digit (radices cl) i l.val))
    fun i hi => hasDerivAt_memb_pert T X hc r (Finset.mem_range.mp hi) (digit_lt cl (Finset.mem_range.mp hi) _)
  refine hd.congr_deriv ?_
  rw [h0, Finset.mul_sum]
  refine Finset.sum_congr rfl fun i hi => ?_
  simp only [perturb_zero, smul_eq_mul]
  rw [← mul_assoc, Finset.prod_erase_mul _ _ hi]

/-! ### algebra: the pulled-back sums are the entries of `_compute_grads` -/

theorem sum_digit_reindex {L m : ℕ} (rs : List ℕ) (i : ℕ) (hd : ∀ l, digit rs i l < m + 1) (b : Fin L → ℝ)
    (φ : ℕ → ℝ) :
    ∑ l : Fin L, b l * φ (digit rs i l.val)
      = ∑ j : Fin (m + 1), (∑ l : Fin L, if digit rs i l.val = j.val then b l else 0) * φ j.val := by
  simp only [Finset.sum_mul]
  rw [Finset.sum_comm]
  refine Finset.sum_congr rfl fun l _ => ?_
  rw [Finset.sum_eq_single (⟨digit rs i l.val, hd l.val⟩ : Fin (m + 1))]
  · simp
  · intro j _ hj
    have : digit rs i l.val ≠ j.val := fun h => hj (Fin.ext h.symm)
    simp [this]
  · intro h; exact absurd (Finset.mem_univ _) h

theorem slot_algebra_aux {n m : ℕ} (T : ℝ) (wg B : Fin n → Fin (m + 1) → ℝ) (D : ℕ → ℝ) :
    ∑ r, ∑ j : Fin (m + 1), wg r j * (-(D j.val) / T - ∑ j' : Fin (m + 1), B r j' * (-(D j'.val) / T))
      = -(∑ j : Fin (m + 1), (∑ r, (wg r j - B r j * ∑ j', wg r j') / T) * D j.val) := by
  have hsw : ∑ j : Fin (m + 1), (∑ r, (wg r j - B r j * ∑ j', wg r j') / T) * D j.val
      = ∑ r, ∑ j : Fin (m + 1), (wg r j - B r j * ∑ j', wg r j') / T * D j.val := by
    simp only [Finset.sum_mul]; exact Finset.sum_comm
  rw [hsw, ← Finset.sum_neg_distrib]
  refine Finset.sum_congr rfl fun r _ => ?_
  have h1 : ∑ j : Fin (m + 1), wg r j * (-(D j.val) / T - ∑ j' : Fin (m + 1), B r j' * (-(D j'.val) / T))
      = ∑ j : Fin (m + 1), wg r j * (-(D j.val) / T)
        - (∑ j, wg r j) * ∑ j' : Fin (m + 1), B r j' * (-(D j'.val) / T) := by
    simp only [mul_sub, Finset.sum_sub_distrib, Finset.sum_mul]
  rw [h1, Finset.mul_sum, ← Finset.sum_sub_distrib, ← Finset.sum_neg_distrib]
  refine Finset.sum_congr rfl fun j _ => ?_
  generalize (∑ j, wg r j) = W
  simp only [div_eq_mul_inv]
  ring

theorem slot_algebra {n d L : ℕ} (T : ℝ) (X : Fin n → Fin d → ℝ) (cl : List (ℕ × List ℝ))
    (bb : Fin n → Fin L → ℝ) (Ecut : ℕ → ℕ → ℝ) {i : ℕ} (hi : i < cl.length) :
    ∑ r, ∑ l : Fin L, bb r l * wM T X cl Ecut r i (digit (radices cl) i l.val)
      = ∑ p ∈ Finset.range (cutsAt cl i).length,
          -((cutGradSpec T X cl bb (cl.getD i (0, []), i)).getD p 0) * Ecut i p := by
  have hadj := cut_adjoint (biasGradFull T X cl bb (cl.getD i (0, []), i)) (σ := argsort (cutsAt cl i))
    (argsort_perm (cutsAt cl i)) (Ecut i)
  have hR : ∑ p ∈ Finset.range (cutsAt cl i).length,
      -((cutGradSpec T X cl bb (cl.getD i (0, []), i)).getD p 0) * Ecut i p
      = -(∑ j : Fin ((cutsAt cl i).length + 1), biasGradFull T X cl bb (cl.getD i (0, []), i) j
          * ∑ q ∈ Finset.range j.val, epsAt cl Ecut i q) := hadj
  rw [hR]
  have hL : ∀ r, ∑ l : Fin L, bb r l * wM T X cl Ecut r i (digit (radices cl) i l.val)
      = ∑ j : Fin ((cutsAt cl i).length + 1), wgM cl bb i (cutsAt cl i).length r j * wM T X cl Ecut r i j.val :=
    fun r => sum_digit_reindex (radices cl) i (digit_lt cl hi) (bb r) (wM T X cl Ecut r i)
  simp only [hL]
  exact slot_algebra_aux T (wgM cl bb i (cutsAt cl i).length)
    (fun r j => memb T (xget (X r) (feat cl i)) (cutsAt cl i) j.val)
    (fun j => ∑ q ∈ Finset.range j, epsAt cl Ecut i q)

theorem zipIdx_map_getD {β : Type} (cl : List β) (dflt : β) (f : β × ℕ → List ℝ) {i : ℕ} (hi : i < cl.length) :
    (cl.zipIdx.map f).getD i [] = f (cl.getD i dflt, i) := by
  simp [List.getD_eq_getElem?_getD, List.getElem?_eq_getElem hi, hi]

/-- (c) all parameters at once: `leaf_scores_` along any differentiable curve, every cut vector along a line; the
    cut vectors that move have pairwise distinct entries. -/
theorem douglas_hasDerivAt {n d L K : ℕ} (T : ℝ) (X : Fin n → Fin d → ℝ) (cl : List (ℕ × List ℝ))
    {Sc : ℝ → Fin L → Fin K → ℝ} {E : Fin L → Fin K → ℝ}
    (hS : ∀ l k, HasDerivAt (fun t => Sc t l k) (E l k) 0) {Ecut : ℕ → ℕ → ℝ} (hc : CutsOK cl Ecut)
    (g : Fin n → Fin K → ℝ) {G : List (List ℝ)}
    (hG : computeGrads T X cl (Sc 0) (inferM T X cl (Sc 0)) g = some G) :
    HasDerivAt (fun t => ∑ r, ∑ k, g r k * inferM T X (pert cl Ecut t) (Sc t) r k)
      (∑ l : Fin L, ∑ k : Fin K, -((G.getD 0 []).getD (l.val * K + k.val) 0) * E l k
        + ∑ i ∈ Finset.range cl.length, ∑ p ∈ Finset.range (cutsAt cl i).length,
            -((G.getD (i + 1) []).getD p 0) * Ecut i p) 0 := by
  obtain ⟨hleaf, rfl⟩ := computeGrads_some T X cl (Sc 0) _ g hG
  have hinf : ∀ t r, inferM T X (pert cl Ecut t) (Sc t) r
      = Model.Nets.softmaxRow fun k => ∑ l : Fin L, leafM T X (pert cl Ecut t) L r l * Sc t l k := fun t r => by
    obtain ⟨leaf, h1, h2⟩ := hleaf r
    obtain ⟨leaf', h1', h2'⟩ := leafRow_pert (X r) (X r) h1 h2 Ecut t
    exact inferM_eq T X _ (Sc t) r h1' h2'
  simp only [hinf]
  have hlf : ∀ r l, HasDerivAt (fun t => leafM T X (pert cl Ecut t) L r l)
      (leafM T X cl L r l * ∑ i ∈ Finset.range cl.length, wM T X cl Ecut r i (digit (radices cl) i l.val)) 0 :=
    fun r l => by
      obtain ⟨leaf, h1, h2⟩ := hleaf r
      exact hasDerivAt_leafM T X hc r l h1 h2
  have h := hasDerivAt_tree_output (leafc := fun t => leafM T X (pert cl Ecut t) L) hlf hS g
    (inferM T X cl (Sc 0)) (fun r => by simpa only [pert_zero] using hinf 0 r)
  refine h.congr_deriv ?_
  simp only [pert_zero]
  rw [add_comm]
  congr 1
  · simp only [List.getD_cons_zero, lsbSpec_getD, neg_neg]
  · have h1 : ∀ r (l : Fin L), (∑ k, Model.Nets.tauHat (inferM T X cl (Sc 0)) g r k * Sc 0 l k)
        * (leafM T X cl L r l * ∑ i ∈ Finset.range cl.length, wM T X cl Ecut r i (digit (radices cl) i l.val))
        = ∑ i ∈ Finset.range cl.length, bbM T X cl (Sc 0) (inferM T X cl (Sc 0)) g r l
            * wM T X cl Ecut r i (digit (radices cl) i l.val) := fun r l => by
      rw [← mul_assoc, Finset.mul_sum]; rfl
    simp only [h1]
    have h2 : ∑ r, ∑ l : Fin L, ∑ i ∈ Finset.range cl.length, bbM T X cl (Sc 0) (inferM T X cl (Sc 0)) g r l
            * wM T X cl Ecut r i (digit (radices cl) i l.val)
        = ∑ i ∈ Finset.range cl.length, ∑ r, ∑ l : Fin L, bbM T X cl (Sc 0) (inferM T X cl (Sc 0)) g r l
            * wM T X cl Ecut r i (digit (radices cl) i l.val) := by
      rw [Finset.sum_comm' (s := Finset.range cl.length) (t := fun _ => Finset.univ) (t' := Finset.univ)
        (s' := fun _ => Finset.range cl.length) (by simp)]
      exact Finset.sum_congr rfl fun r _ => Finset.sum_comm
    rw [h2]
    refine Finset.sum_congr rfl fun i hi => ?_
    have hi' := Finset.mem_range.mp hi
    rw [slot_algebra T X cl _ Ecut hi', List.getD_cons_succ, zipIdx_map_getD cl (0, []) _ hi']

/-! ### moving a single cut vector -/

theorem cutsAt_eq_getElem (cl : List (ℕ × List ℝ)) {i : ℕ} (hi : i < cl.length) : cutsAt cl i = cl[i].2 := by
  simp [cutsAt, List.getD_eq_getElem?_getD, List.getElem?_eq_getElem hi]

theorem feat_eq_getElem (cl : List (ℕ × List ℝ)) {i : ℕ} (hi : i < cl.length) : feat cl i = cl[i].1 := by
  simp [feat, List.getD_eq_getElem?_getD, List.getElem?_eq_getElem hi]

theorem pert_single (cl : List (ℕ × List ℝ)) {i : ℕ} (hi : i < cl.length) (e : ℕ → ℝ) (t : ℝ) :
    pert cl (fun i' p => if i' = i then e p else 0) t = cl.set i (cl[i].1, perturb cl[i].2 e t) := by
  apply List.ext_getElem?
  intro j
  rw [pert_getElem?, List.getElem?_set]
  by_cases hij : i = j
  · subst hij
    simp [List.getElem?_eq_getElem hi, hi]
  · have hji : ¬ j = i := fun h => hij h.symm
    simp only [hij, hji, if_false]
    cases hj : cl[j]? with
    | none => rfl
    | some z =>
      simp only [Option.map_some, Option.some.injEq]
      rw [perturb_of_zero z.2 (fun _ _ => rfl)]

/-! ### ties between cut points are genuinely excluded: a tree with two equal cut points -/

theorem not_differentiableAt_of_sides {f A B : ℝ → ℝ} {a b : ℝ} (hA : HasDerivAt A a 0) (hB : HasDerivAt B b 0)
    (hr : ∀ t, 0 ≤ t → f t = A t) (hl : ∀ t, t ≤ 0 → f t = B t) (hab : a ≠ b) : ¬ DifferentiableAt ℝ f 0 := by
  intro hd
  have hD := hd.hasDerivAt
  have h1 : HasDerivWithinAt f a (Set.Ici 0) 0 :=
    hA.hasDerivWithinAt.congr (fun t ht => hr t (Set.mem_Ici.mp ht)) (hr 0 le_rfl)
  have h2 : HasDerivWithinAt f b (Set.Iic 0) 0 :=
    hB.hasDerivWithinAt.congr (fun t ht => hl t (Set.mem_Iic.mp ht)) (hl 0 le_rfl)
  have e1 := (uniqueDiffWithinAt_Ici (0 : ℝ)).eq_deriv _ hD.hasDerivWithinAt h1
  have e2 := (uniqueDiffWithinAt_Iic (0 : ℝ)).eq_deriv _ hD.hasDerivWithinAt h2
  exact hab (e1 ▸ e2)

theorem sortedCuts_pair (t : ℝ) : sortedCuts [t, 0] = [min t 0, max t 0] := by
  symm
  refine List.Perm.eq_of_pairwise' (r := (· ≤ ·)) (by simp) (sortedCuts_sorted _) ?_
  refine List.Perm.trans ?_ (sortedCuts_perm _).symm
  rcases le_total t 0 with h | h
  · rw [min_eq_left h, max_eq_right h]
  · rw [min_eq_right h, max_eq_left h]; exact List.Perm.swap _ _ _

/-- the membership of the middle bin of the feature value `0` for the cut points `[t, 0]`, temperature 1 -/
theorem memb_pair_mid (t : ℝ) :
    memb 1 0 [t, 0] 1 = Real.exp (-(min t 0)) / (1 + Real.exp (-(min t 0)) + Real.exp (-t)) := by
  rw [memb_eq 1 0 [t, 0] (by simp), Z, sortedCuts_pair]
  have h2 : min t 0 + max t 0 = t := by rw [min_add_max]; simp
  simp [lg, Finset.sum_range_succ, h2]

/-- the tree with one feature, the two cut points `[t, 0]`, temperature 1, a sample at 0, leaf scores that read the
    middle leaf only: `⟨g, _infer⟩` is a strictly increasing function of the middle membership -/
theorem tie_example_eq (t : ℝ) :
    (∑ r : Fin 1, ∑ k : Fin 2, (if k = 0 then (1 : ℝ) else 0) *
      inferM 1 (fun (_ : Fin 1) (_ : Fin 1) => (0 : ℝ)) [(0, [t, 0])]
        (fun (l : Fin 3) (k : Fin 2) => if l = 1 ∧ k = 0 then (1 : ℝ) else 0) r k)
    = Real.exp (memb 1 0 [t, 0] 1) / (Real.exp (memb 1 0 [t, 0] 1) + 1) := by
  have hleaf : leafRow 1 ((fun (_ : Fin 1) (_ : Fin 1) => (0 : ℝ)) 0) [(0, [t, 0])]
      = some (binning 1 0 [t, 0]) := by
    simp only [leafRow, inRange, binnings, mergeAll, List.all_cons, List.all_nil, List.map_cons, List.map_nil,
      List.foldl_nil, xget]
    simp
  have hlen : (binning (1 : ℝ) 0 [t, 0]).length = 3 := by rw [binning_length]; rfl
  have hinf := inferM_eq (L := 3) (K := 2) 1 (fun (_ : Fin 1) (_ : Fin 1) => (0 : ℝ)) [(0, [t, 0])]
    (fun (l : Fin 3) (k : Fin 2) => if l = 1 ∧ k = 0 then (1 : ℝ) else 0) (0 : Fin 1) hleaf hlen
  rw [Fin.sum_univ_one, hinf]
  have hlm : ∀ l : Fin 3, leafM 1 (fun (_ : Fin 1) (_ : Fin 1) => (0 : ℝ)) [(0, [t, 0])] 3 0 l
      = memb 1 0 [t, 0] l.val := fun l => by
    simp only [leafM, hleaf, Option.getD_some]; rfl
  simp only [hlm]
  simp [GemVerif.softmaxRow_eq, Fin.sum_univ_two, Fin.sum_univ_three]

theorem tie_example_not_differentiable :
    ¬ DifferentiableAt ℝ (fun t : ℝ => Real.exp (memb 1 0 [t, 0] 1) / (Real.exp (memb 1 0 [t, 0] 1) + 1)) 0 := by
  -- right of 0 the middle membership is 1 / (2 + e^{-t}), left of 0 it is e^{-t} / (1 + 2 e^{-t})
  have hα : HasDerivAt (fun t : ℝ => 1 / (2 + Real.exp (-t))) (1 / 9) 0 := by
    have h1 : HasDerivAt (fun t : ℝ => Real.exp (-t)) (-1) 0 := by
      simpa using (hasDerivAt_neg (0 : ℝ)).exp
    have h2 := (hasDerivAt_const (0 : ℝ) (1 : ℝ)).fun_div (h1.const_add 2) (by simp; positivity)
    refine h2.congr_deriv ?_
    simp; norm_num
  have hβ : HasDerivAt (fun t : ℝ => Real.exp (-t) / (1 + 2 * Real.exp (-t))) (-(1 / 9)) 0 := by
    have h1 : HasDerivAt (fun t : ℝ => Real.exp (-t)) (-1) 0 := by
      simpa using (hasDerivAt_neg (0 : ℝ)).exp
    have h2 := h1.fun_div ((h1.const_mul 2).const_add 1) (by simp; positivity)
    refine h2.congr_deriv ?_
    simp; norm_num
  have hψ : ∀ u : ℝ, HasDerivAt (fun s : ℝ => Real.exp s / (Real.exp s + 1))
      (Real.exp u / (Real.exp u + 1) ^ 2) u := fun u => by
    have h := (Real.hasDerivAt_exp u).fun_div ((Real.hasDerivAt_exp u).add_const 1) (by positivity)
    refine h.congr_deriv ?_
    congr 1
    ring
  have hα0 : (fun t : ℝ => 1 / (2 + Real.exp (-t))) 0 = 1 / 3 := by simp; norm_num
  have hβ0 : (fun t : ℝ => Real.exp (-t) / (1 + 2 * Real.exp (-t))) 0 = 1 / 3 := by simp; norm_num
  have hA := (hψ ((fun t : ℝ => 1 / (2 + Real.exp (-t))) 0)).comp (0 : ℝ) hα
  have hB := (hψ ((fun t : ℝ => Real.exp (-t) / (1 + 2 * Real.exp (-t))) 0)).comp (0 : ℝ) hβ
  rw [hα0] at hA
  rw [hβ0] at hB
  refine not_differentiableAt_of_sides hA hB ?_ ?_ ?_
  · intro t ht
    simp only [Function.comp, memb_pair_mid, min_eq_right ht, neg_zero, Real.exp_zero]
    rw [show (1 : ℝ) + 1 = 2 by norm_num]
  · intro t ht
    simp only [Function.comp, memb_pair_mid, min_eq_left ht]
    rw [show 1 + Real.exp (-t) + Real.exp (-t) = 1 + 2 * Real.exp (-t) by ring]
  · have hpos : 0 < Real.exp (1 / 3) / (Real.exp (1 / 3) + 1) ^ 2 := by positivity
    intro h
    linarith

end GemVerif.Douglas
