/-
  Helper lemmas for C17: real-arithmetic DEFINEDNESS of the divisions, logarithms and square roots of the numeric code
  under the code's own guards (`np.clip(·, ε, 1-ε)`, `np.maximum(·, 0)`, `delta + mask`, `np.where(W_norms == 0, 1, ·)`,
  the loop guards of `compute_all_splits`).  Over ℝ Mathlib totalises `x/0 = 0`, `log 0 = 0`, `√(-1) = 0`; the facts
  below say that none of these totalised values is ever used.
-/
import GemVerif.Lemmas.GeminiC13
import GemVerif.Model.Nets
import GemVerif.Model.Prox
import GemVerif.Gen.KauriGains

namespace GemVerif.Defined
open scoped BigOperators
open GemVerif Model

variable {n K : ℕ}

/-! ### the clipping window -/

/-- `ε ≤ np.clip(y_pred, ε, 1-ε) ≤ 1-ε` and `ε ≤ p.mean(0) ≤ 1-ε` -/
theorem window (hn : 0 < n) {ε : ℝ} (h1 : ε ≤ 1 / 2) (P : Fin n → Fin K → ℝ) (i : Fin n) (k : Fin K) :
    (ε ≤ clipP ε P i k ∧ clipP ε P i k ≤ 1 - ε) ∧ (ε ≤ mean0 (clipP ε P) k ∧ mean0 (clipP ε P) k ≤ 1 - ε) :=
  ⟨C13.clipP_mem h1 P i k, C13.mean0_mem hn (C13.clipP_mem h1 P) k⟩

theorem cp_pos {ε : ℝ} (h0 : 0 < ε) (h1 : ε ≤ 1 / 2) (P : Fin n → Fin K → ℝ) (i : Fin n) (k : Fin K) :
    0 < clipP ε P i k := lt_of_lt_of_le h0 (C13.clipP_mem h1 P i k).1

theorem cpi_pos (hn : 0 < n) {ε : ℝ} (h0 : 0 < ε) (h1 : ε ≤ 1 / 2) (P : Fin n → Fin K → ℝ) (k : Fin K) :
    0 < mean0 (clipP ε P) k := lt_of_lt_of_le h0 (C13.mean0_mem hn (C13.clipP_mem h1 P) k).1

theorem natn_pos (hn : 0 < n) : (0 : ℝ) < RealLike.nat n := by
  simp only [RealLike.nat_real]; exact_mod_cast hn

/-- the column sums of the clipped predictions: `Σ_i p[i,k] = n · π_k` -/
theorem sum_col_eq (hn : 0 < n) (p : Fin n → Fin K → ℝ) (k : Fin K) : ∑ i, p i k = (n : ℝ) * mean0 p k := by
  have hnR : (n : ℝ) ≠ 0 := by exact_mod_cast hn.ne'
  simp only [mean0, sumFin_eq_sum, RealLike.nat_real]
  field_simp

/-! ### `linear_prox_grad` -/

/-- the radicand of `np.linalg.norm(W, axis=1)` is a sum of squares -/
theorem sumL_sq_nonneg : ∀ (l : List ℝ) (acc : ℝ), 0 ≤ acc → 0 ≤ (l.map fun x => x * x).foldl (· + ·) acc
  | [], acc, h => by simpa using h
  | x :: l, acc, h => by
    simp only [List.map_cons, List.foldl_cons]
    exact sumL_sq_nonneg l _ (add_nonneg h (mul_self_nonneg x))

theorem norm2_radicand_nonneg {h : ℕ} (w : Fin h → ℝ) : 0 ≤ Prox.sumL (List.ofFn fun k => w k * w k) := by
  have : (List.ofFn fun k => w k * w k) = (List.ofFn w).map fun x => x * x := by
    simp [List.map_ofFn, Function.comp_def]
  rw [Prox.sumL, this]
  exact sumL_sq_nonneg _ 0 le_rfl

/-! ### KAURI gain formulas -/

/-- the guards of `compute_all_splits`, as real numbers: a leaf of `n_leaf ≥ 2` samples inside a cluster of `cs_k`
    samples is cut after `split ∈ [1, n_leaf)` sorted samples; the other cluster holds `cs_p ≥ 1` samples -/
structure SplitGuards (n_leaf split cs_k cs_p : ℝ) : Prop where
  leaf : 2 ≤ n_leaf
  split_lo : 1 ≤ split
  split_hi : split + 1 ≤ n_leaf
  inside : n_leaf ≤ cs_k
  other : 1 ≤ cs_p

end GemVerif.Defined
