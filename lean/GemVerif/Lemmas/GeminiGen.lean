/-
  Real-number helper for Props/C01Gen.lean (the one place where the NumPy source and the hand model of
  Model/Gemini.lean associate a computation differently): centring by a matrix product.
-/
import GemVerif.NumReal

namespace GemVerif.Lemmas.GeminiGen
open scoped BigOperators

/-- `((I - c) @ M) @ x`, entry `i`, is `(M @ x)[i] - c * Σ_m (M @ x)[m]`: multiplying on the left by the identity
    minus a constant subtracts `c` times the column sums.  (`I` is read as NumPy's `np.eye` is: by comparing the
    two indices as natural numbers.) -/
theorem centering_matmul {n : ℕ} (c : ℝ) (M : Fin n → Fin n → ℝ) (x : Fin n → ℝ) (i : Fin n) :
    ∑ l, (∑ m : Fin n, ((if (i : ℕ) = (m : ℕ) then (1 : ℝ) else 0) - c) * M m l) * x l
      = ∑ j, M i j * x j - c * ∑ m, ∑ j, M m j * x j := by
  have h1 : ∀ l, ∑ m : Fin n, ((if (i : ℕ) = (m : ℕ) then (1 : ℝ) else 0) - c) * M m l = M i l - c * ∑ m, M m l := by
    intro l
    have h2 : ∀ m : Fin n, ((if (i : ℕ) = (m : ℕ) then (1 : ℝ) else 0) - c) * M m l
        = (if i = m then M m l else 0) - c * M m l := by
      intro m
      by_cases h : i = m
      · subst h; simp [sub_mul]
      · have hv : (i : ℕ) ≠ m := fun e => h (Fin.ext e)
        simp [h, hv]
    rw [Finset.sum_congr rfl fun m _ => h2 m, Finset.sum_sub_distrib, Finset.sum_ite_eq, Finset.mul_sum]
    simp
  rw [Finset.sum_congr rfl fun l _ => by rw [h1 l, sub_mul], Finset.sum_sub_distrib]
  congr 1
  have h3 : ∀ l, (c * ∑ m, M m l) * x l = ∑ m, c * (M m l * x l) := by
    intro l; rw [mul_assoc, Finset.sum_mul, Finset.mul_sum]
  rw [Finset.sum_congr rfl fun l _ => h3 l, Finset.sum_comm]
  simp only [Finset.mul_sum]

end GemVerif.Lemmas.GeminiGen
