/-
  Helper lemmas for the Douglas theorems (C15), part 1: argsort / sorted cuts, closed form of the
  logits, scikit-learn's soft-max over ℝ, closed form of the soft binning.
-/
import GemVerif.NumReal
import GemVerif.Model.Douglas
import Mathlib.Data.List.Sort
import Mathlib.Analysis.SpecialFunctions.Exp
import Mathlib.Algebra.BigOperators.Intervals

namespace GemVerif.Douglas
open scoped BigOperators
open GemVerif Model.Douglas

/-! ### insertion sort = Mathlib's -/

theorem insertBy_eq {β : Type} (le : β → β → Bool) (a : β) (l : List β) :
    insertBy le a l = List.orderedInsert (fun p q => le p q = true) a l := by
  induction l with
  | nil => rfl
  | cons b l ih => simp only [insertBy, List.orderedInsert_cons, ih]

theorem isort_eq {β : Type} (le : β → β → Bool) (l : List β) :
    isort le l = List.insertionSort (fun p q => le p q = true) l := by
  induction l with
  | nil => rfl
  | cons a l ih => simp only [isort, List.insertionSort_cons, ih, insertBy_eq]

/-- the relation the argsort compares with, over ℝ -/
def pairRel (p q : ℝ × ℕ) : Prop := pairLe p q = true

theorem pairRel_iff (p q : ℝ × ℕ) : pairRel p q ↔ p.1 ≤ q.1 := by
  simp [pairRel, pairLe]

noncomputable instance : DecidableRel pairRel := fun p q => inferInstanceAs (Decidable (pairLe p q = true))

instance : Std.Total pairRel := ⟨fun p q => by simp only [pairRel_iff]; exact le_total _ _⟩
instance : IsTrans (ℝ × ℕ) pairRel := ⟨fun p q r => by simp only [pairRel_iff]; exact le_trans⟩

theorem isort_pairs_perm (cuts : List ℝ) : (isort pairLe cuts.zipIdx).Perm cuts.zipIdx := by
  rw [isort_eq]; exact List.perm_insertionSort _ _

theorem isort_pairs_sorted (cuts : List ℝ) : (isort pairLe cuts.zipIdx).Pairwise pairRel := by
  rw [isort_eq]; exact List.pairwise_insertionSort pairRel _

/-- `cut_points[argsort(cut_points)]` is the list of first components of the sorted pairs -/
theorem sortedCuts_eq_map_fst (cuts : List ℝ) :
    sortedCuts cuts = (isort pairLe cuts.zipIdx).map Prod.fst := by
  simp only [sortedCuts, takeIdx, argsort, List.map_map]
  refine List.map_congr_left fun p hp => ?_
  have hp' : p ∈ cuts.zipIdx := (isort_pairs_perm cuts).mem_iff.mp hp
  have := List.mem_zipIdx_iff_getElem?.mp hp'
  simp [List.getD_eq_getElem?_getD, this]

theorem sortedCuts_perm (cuts : List ℝ) : (sortedCuts cuts).Perm cuts := by
  rw [sortedCuts_eq_map_fst]
  have h := (isort_pairs_perm cuts).map Prod.fst
  rwa [List.zipIdx_map_fst] at h

theorem sortedCuts_sorted (cuts : List ℝ) : (sortedCuts cuts).Pairwise (· ≤ ·) := by
  rw [sortedCuts_eq_map_fst, List.pairwise_map]
  exact (isort_pairs_sorted cuts).imp fun {p q} h => (pairRel_iff p q).mp h

theorem sortedCuts_length (cuts : List ℝ) : (sortedCuts cuts).length = cuts.length :=
  (sortedCuts_perm cuts).length_eq

/-- the sorted cut vector depends on the multiset of cut points only -/
theorem sortedCuts_congr {c₁ c₂ : List ℝ} (h : c₁.Perm c₂) : sortedCuts c₁ = sortedCuts c₂ :=
  List.Perm.eq_of_pairwise' (r := (· ≤ ·)) (sortedCuts_sorted c₁) (sortedCuts_sorted c₂)
    ((sortedCuts_perm c₁).trans (h.trans (sortedCuts_perm c₂).symm))

/-- the order returned by `_leaf_binning` is a permutation of `0 … n-1` -/
theorem argsort_perm (cuts : List ℝ) : (argsort cuts).Perm (List.range cuts.length) := by
  have h := (isort_pairs_perm cuts).map Prod.snd
  simp only [argsort]
  refine h.trans ?_
  rw [List.zipIdx_map_snd]
  simp [List.range_eq_range']

/-! ### in a sorted list the elements below `x` come first -/

theorem sorted_split (x : ℝ) : ∀ (s : List ℝ), s.Pairwise (· ≤ ·) → ∀ (i : ℕ) (h : i < s.length),
    (i < s.countP (fun c => decide (c < x)) → s[i] < x) ∧ (s.countP (fun c => decide (c < x)) ≤ i → x ≤ s[i])
  | [], _, i, h => by simp at h
  | a :: t, hs, i, h => by
    have ht := (List.pairwise_cons.mp hs).2
    have ha := (List.pairwise_cons.mp hs).1
    by_cases hax : a < x
    · have hc : (a :: t).countP (fun c => decide (c < x)) = t.countP (fun c => decide (c < x)) + 1 := by
        simp [hax]
      rw [hc]
      cases i with
      | zero => exact ⟨fun _ => by simpa using hax, fun h0 => by omega⟩
      | succ i =>
        have hi : i < t.length := by simpa using h
        have := sorted_split x t ht i hi
        exact ⟨fun h1 => by simpa using this.1 (by omega), fun h1 => by simpa using this.2 (by omega)⟩
    · have hxa : x ≤ a := not_lt.mp hax
      have hall : ∀ c ∈ t, x ≤ c := fun c hc => le_trans hxa (ha c hc)
      have hc0 : t.countP (fun c => decide (c < x)) = 0 := by
        rw [List.countP_eq_zero]
        intro c hc
        simpa using hall c hc
      have hc : (a :: t).countP (fun c => decide (c < x)) = 0 := by
        simp [hax, hc0]
      rw [hc]
      refine ⟨fun h0 => by omega, fun _ => ?_⟩
      cases i with
      | zero => simpa using hxa
      | succ i =>
        have hi : i < t.length := by simpa using h
        simpa using hall _ (List.getElem_mem hi)

/-! ### `np.cumsum`, the bias and the logits in closed form -/

theorem cumsumAux_length (acc : ℝ) (l : List ℝ) : (cumsumAux acc l).length = l.length := by
  induction l generalizing acc with
  | nil => rfl
  | cons a l ih => simp [cumsumAux, ih]

theorem cumsumAux_getElem (acc : ℝ) (l : List ℝ) (j : ℕ) (h : j < (cumsumAux acc l).length) :
    (cumsumAux acc l)[j] = acc + (l.take (j + 1)).sum := by
  induction l generalizing acc j with
  | nil => simp [cumsumAux] at h
  | cons a l ih =>
    cases j with
    | zero => simp [cumsumAux]
    | succ j =>
      simp only [cumsumAux, List.getElem_cons_succ, List.take_succ_cons, List.sum_cons]
      rw [ih]; ring

theorem bias_length (cuts : List ℝ) : (bias cuts).length = cuts.length + 1 := by
  simp [bias, cumsum, cumsumAux_length, sortedCuts_length]

theorem bias_getElem (cuts : List ℝ) (j : ℕ) (h : j < (bias cuts).length) :
    (bias cuts)[j] = -((sortedCuts cuts).take j).sum := by
  cases j with
  | zero => simp [bias, cumsum]
  | succ j =>
    simp only [bias, cumsum, List.getElem_cons_succ]
    rw [cumsumAux_getElem, ← List.map_take, List.sum_map_neg]
    ring
  where
    List.sum_map_neg : ∀ (l : List ℝ), (l.map fun c => -c).sum = -l.sum := by
      intro l; induction l with
      | nil => simp
      | cons a l ih => simp [ih]; ring

/-- closed form of logit `j` for sorted cuts `s`: `x·(j+1) − (s₀ + … + s_{j-1})` -/
noncomputable def lg (x : ℝ) (s : List ℝ) (j : ℕ) : ℝ := x * ((j : ℝ) + 1) - (s.take j).sum

theorem logits_length (x : ℝ) (cuts : List ℝ) : (logits x cuts).length = cuts.length + 1 := by
  simp [logits, linspaceW, bias_length]

theorem logits_getElem (x : ℝ) (cuts : List ℝ) (j : ℕ) (h : j < (logits x cuts).length) :
    (logits x cuts)[j] = lg x (sortedCuts cuts) j := by
  simp only [logits, List.getElem_zipWith, linspaceW, List.getElem_map, List.getElem_range, bias_getElem, lg,
    RealLike.nat_real]
  push_cast
  ring

theorem logits_eq (x : ℝ) (cuts : List ℝ) :
    logits x cuts = (List.range (cuts.length + 1)).map (lg x (sortedCuts cuts)) := by
  apply List.ext_getElem
  · simp [logits_length]
  · intro j h1 h2
    rw [logits_getElem]; simp

/-- consecutive logits differ by `x − s_j` -/
theorem lg_succ_sub (x : ℝ) (s : List ℝ) (j : ℕ) (h : j < s.length) :
    lg x s (j + 1) - lg x s j = x - s[j] := by
  simp only [lg, List.sum_take_succ _ _ h]
  push_cast
  ring

/-! ### scikit-learn's soft-max over ℝ -/

theorem sumL_eq (l : List ℝ) : sumL l = l.sum := by
  simp only [sumL]
  rw [List.sum_eq_foldl]

/-- the mathematical soft-max of a row -/
noncomputable def smx (z : List ℝ) : List ℝ := z.map fun v => Real.exp v / (z.map Real.exp).sum

theorem sum_map_exp_sub (z : List ℝ) (m : ℝ) :
    (z.map fun v => Real.exp (v - m)).sum = (z.map Real.exp).sum / Real.exp m := by
  induction z with
  | nil => simp
  | cons a z ih => rw [List.map_cons, List.sum_cons, ih, List.map_cons, List.sum_cons, Real.exp_sub]; ring

/-- subtracting the row maximum (or anything else) does not change the soft-max -/
theorem softmaxRow_eq (z : List ℝ) : softmaxRow z = smx z := by
  simp only [softmaxRow, smx, sumL_eq, List.map_map, RealLike.exp_real]
  refine List.map_congr_left fun v _ => ?_
  simp only [Function.comp]
  rw [sum_map_exp_sub, Real.exp_sub, div_div_div_cancel_right₀ (Real.exp_pos _).ne']

theorem sum_map_exp_pos {z : List ℝ} (hz : z ≠ []) : 0 < (z.map Real.exp).sum := by
  cases z with
  | nil => exact absurd rfl hz
  | cons a z =>
    simp only [List.map_cons, List.sum_cons]
    have : 0 ≤ (z.map Real.exp).sum := List.sum_nonneg (by simp; intro a _; exact (Real.exp_pos a).le)
    have := Real.exp_pos a
    linarith

theorem smx_pos {z : List ℝ} (hz : z ≠ []) : ∀ p ∈ smx z, 0 < p := by
  intro p hp
  simp only [smx, List.mem_map] at hp
  obtain ⟨v, _, rfl⟩ := hp
  exact div_pos (Real.exp_pos v) (sum_map_exp_pos hz)

theorem smx_sum {z : List ℝ} (hz : z ≠ []) : (smx z).sum = 1 := by
  have hS := sum_map_exp_pos hz
  have : smx z = (z.map Real.exp).map fun e => e / (z.map Real.exp).sum := by simp [smx, Function.comp]
  rw [this, List.sum_map_div_right' , div_self hS.ne']
  where
    List.sum_map_div_right' : ∀ {l : List ℝ} {c : ℝ}, (l.map fun e => e / c).sum = l.sum / c := by
      intro l c; induction l with
      | nil => simp
      | cons a l ih => simp [ih]; ring

theorem smx_length (z : List ℝ) : (smx z).length = z.length := by simp [smx]

/-! ### closed form of the soft binning -/

/-- normalising constant of the binning of `x` -/
noncomputable def Z (T x : ℝ) (s : List ℝ) : ℝ := ∑ i ∈ Finset.range (s.length + 1), Real.exp (lg x s i / T)

theorem Z_pos (T x : ℝ) (s : List ℝ) : 0 < Z T x s :=
  Finset.sum_pos (fun _ _ => Real.exp_pos _) ⟨0, by simp⟩

theorem binning_eq (T x : ℝ) (cuts : List ℝ) :
    binning T x cuts = (List.range (cuts.length + 1)).map fun j =>
      Real.exp (lg x (sortedCuts cuts) j / T) / Z T x (sortedCuts cuts) := by
  simp only [binning, softmaxRow_eq, smx, logits_eq, List.map_map, Z, sortedCuts_length]
  refine List.map_congr_left fun j _ => ?_
  simp only [Function.comp]
  rw [List.sum_range_eq_finset_sum]
  rfl
  where
    List.sum_range_eq_finset_sum : ∀ {f : ℕ → ℝ} {m : ℕ}, ∑ i ∈ Finset.range m, f i = ((List.range m).map f).sum := by
      intro f m
      induction m with
      | zero => simp
      | succ m ih => rw [Finset.sum_range_succ, ih, List.range_succ, List.map_append, List.sum_append]; simp

theorem binning_length (T x : ℝ) (cuts : List ℝ) : (binning T x cuts).length = cuts.length + 1 := by
  simp [binning_eq]

theorem binning_ne_nil (T x : ℝ) (cuts : List ℝ) : binning T x cuts ≠ [] := by
  intro h
  have := binning_length T x cuts
  rw [h] at this
  simp at this

theorem binning_getD (T x : ℝ) (cuts : List ℝ) (j : ℕ) (hj : j ≤ cuts.length) :
    (binning T x cuts).getD j 0 = Real.exp (lg x (sortedCuts cuts) j / T) / Z T x (sortedCuts cuts) := by
  have h : j < (binning T x cuts).length := by rw [binning_length]; omega
  rw [List.getD_eq_getElem?_getD, List.getElem?_eq_getElem h]
  simp [binning_eq]

theorem binning_pos (T x : ℝ) (cuts : List ℝ) : ∀ p ∈ binning T x cuts, 0 < p := by
  unfold binning
  rw [softmaxRow_eq]
  refine smx_pos ?_
  have := logits_length x cuts
  intro h
  rw [List.map_eq_nil_iff] at h
  rw [h] at this
  simp at this

theorem binning_sum (T x : ℝ) (cuts : List ℝ) : (binning T x cuts).sum = 1 := by
  unfold binning
  rw [softmaxRow_eq]
  refine smx_sum ?_
  have := logits_length x cuts
  intro h
  rw [List.map_eq_nil_iff] at h
  rw [h] at this
  simp at this

end GemVerif.Douglas
