/- Helper lemmas for the C01 theorems (score = documented distance). -/
import GemVerif.Lemmas.Gemini

namespace GemVerif
open scoped BigOperators
open Model Spec

variable {n K : ℕ}

theorem sum_P_eq (hn : 0 < n) (P : Fin n → Fin K → ℝ) (k : Fin K) :
    ∑ i, P i k = n * Spec.pi P k := by
  have hnR : (0 : ℝ) < n := by exact_mod_cast hn
  unfold Spec.pi; field_simp

/-- with unit row sums the cluster proportions sum to one -/
theorem sum_pi_eq_one (hn : 0 < n) {P : Fin n → Fin K → ℝ} (hrow : ∀ i, ∑ k, P i k = 1) :
    ∑ k, Spec.pi P k = 1 := by
  have hnR : (0 : ℝ) < n := by exact_mod_cast hn
  unfold Spec.pi
  rw [← Finset.sum_div, Finset.sum_comm]
  simp only [hrow, Finset.sum_const, Finset.card_univ, Fintype.card_fin, nsmul_eq_mul, mul_one]
  field_simp

theorem sum_sum_pi_eq_one (hn : 0 < n) {P : Fin n → Fin K → ℝ} (hrow : ∀ i, ∑ k, P i k = 1) :
    ∑ a, ∑ b, Spec.pi P a * Spec.pi P b = 1 := by
  simp_rw [← Finset.mul_sum, sum_pi_eq_one hn hrow, mul_one, sum_pi_eq_one hn hrow]

theorem sum_sum_pi (P : Fin n → Fin K → ℝ) :
    ∑ a, ∑ b, Spec.pi P a * Spec.pi P b = (∑ k, Spec.pi P k) ^ 2 := by
  rw [pow_two, Finset.sum_mul_sum]

theorem cond_nonneg {ε : ℝ} (hε : 0 < ε) (hn : 0 < n) {P : Fin n → Fin K → ℝ} (hI : Interior ε P)
    (k : Fin K) (i : Fin n) : 0 ≤ Spec.cond P k i := by
  have hnR : (0 : ℝ) < n := by exact_mod_cast hn
  exact div_nonneg (P_pos hε hI i k).le (mul_pos hnR (pi_pos hε hn hI k)).le

theorem cond_pos {ε : ℝ} (hε : 0 < ε) (hn : 0 < n) {P : Fin n → Fin K → ℝ} (hI : Interior ε P)
    (k : Fin K) (i : Fin n) : 0 < Spec.cond P k i := by
  have hnR : (0 : ℝ) < n := by exact_mod_cast hn
  exact div_pos (P_pos hε hI i k) (mul_pos hnR (pi_pos hε hn hI k))

theorem cond_sum {ε : ℝ} (hε : 0 < ε) (hn : 0 < n) {P : Fin n → Fin K → ℝ} (hI : Interior ε P)
    (k : Fin K) : ∑ i, Spec.cond P k i = 1 := by
  have hnR : (0 : ℝ) < n := by exact_mod_cast hn
  have hπ := pi_pos hε hn hI k
  unfold Spec.cond
  rw [← Finset.sum_div, sum_P_eq hn]
  field_simp

/-- `np.sqrt(np.maximum(x, 0))` is `Real.sqrt x` (the real square root of a negative number is 0) -/
theorem sqrt_max_zero (x : ℝ) : Real.sqrt (max x 0) = Real.sqrt x := by
  rcases le_total 0 x with h | h
  · rw [max_eq_left h]
  · rw [max_eq_right h, Real.sqrt_zero, Real.sqrt_eq_zero_of_nonpos h]

/-- the bilinear form of the affinity matrix -/
noncomputable def Q (κ : Fin n → Fin n → ℝ) (a b : Fin n → ℝ) : ℝ := ∑ i, ∑ j, a i * κ i j * b j

theorem Q_comm {κ : Fin n → Fin n → ℝ} (hκ : ∀ i j, κ i j = κ j i) (a b : Fin n → ℝ) :
    Q κ a b = Q κ b a := by
  unfold Q
  rw [Finset.sum_comm]
  refine Finset.sum_congr rfl fun i _ => Finset.sum_congr rfl fun j _ => ?_
  rw [hκ j i]; ring

theorem quad_sub {κ : Fin n → Fin n → ℝ} (hκ : ∀ i j, κ i j = κ j i) (a b : Fin n → ℝ) :
    ∑ i, ∑ j, (a i - b i) * κ i j * (a j - b j) = Q κ a a - 2 * Q κ a b + Q κ b b := by
  have h : Q κ a a - 2 * Q κ a b + Q κ b b = Q κ a a - Q κ a b - Q κ b a + Q κ b b := by
    rw [Q_comm hκ b a]; ring
  rw [h]
  unfold Q
  simp only [← Finset.sum_sub_distrib, ← Finset.sum_add_distrib]
  refine Finset.sum_congr rfl fun i _ => Finset.sum_congr rfl fun j _ => ?_
  ring

/-! ### MMD -/

theorem mmdAlpha_eq {ε : ℝ} {P : Fin n → Fin K → ℝ} (hI : Interior ε P) (i : Fin n) (k : Fin K) :
    mmdAlpha ε P i k = P i k / Spec.pi P k := by
  simp only [mmdAlpha, clipP_of_interior hI, tab_apply, mean0_eq_pi]

theorem mmdGamma_eq {ε : ℝ} {P : Fin n → Fin K → ℝ} (hI : Interior ε P) (κ : Fin n → Fin n → ℝ)
    (i : Fin n) (k : Fin K) :
    mmdGamma ε P κ i k = ∑ j, κ i j / (↑n * ↑n) * (P j k / Spec.pi P k) := by
  simp only [mmdGamma, tab2_apply, mmdAlpha_eq hI, sumFin_eq_sum, RealLike.nat_real]

/-- `omega[a,b] = Σ_i alpha[i,a] * gamma[i,b]` is the bilinear form of the two conditionals -/
theorem omega_eq (P : Fin n → Fin K → ℝ) (κ : Fin n → Fin n → ℝ) (a b : Fin K) :
    ∑ i, P i a / Spec.pi P a * ∑ j, κ i j / (↑n * ↑n) * (P j b / Spec.pi P b)
      = Q κ (Spec.cond P a) (Spec.cond P b) := by
  unfold Q Spec.cond
  refine Finset.sum_congr rfl fun i _ => ?_
  rw [Finset.mul_sum]
  refine Finset.sum_congr rfl fun j _ => ?_
  ring

theorem gammaSum_eq (P : Fin n → Fin K → ℝ) (κ : Fin n → Fin n → ℝ) (k : Fin K) :
    ∑ i, ∑ j, κ i j / (↑n * ↑n) * (P j k / Spec.pi P k) = Q κ (Spec.unif n) (Spec.cond P k) := by
  unfold Q Spec.cond Spec.unif
  refine Finset.sum_congr rfl fun i _ => Finset.sum_congr rfl fun j _ => ?_
  ring

theorem kappaSum_eq (κ : Fin n → Fin n → ℝ) :
    ∑ i, ∑ j, κ i j / ((n : ℝ) * ↑n) = Q κ (Spec.unif n) (Spec.unif n) := by
  unfold Q Spec.unif
  refine Finset.sum_congr rfl fun i _ => Finset.sum_congr rfl fun j _ => ?_
  ring

theorem mmdDeltaOvo_eq {ε : ℝ} {P : Fin n → Fin K → ℝ} (hI : Interior ε P) {κ : Fin n → Fin n → ℝ}
    (hκ : ∀ i j, κ i j = κ j i) (a b : Fin K) :
    mmdDeltaOvo ε P κ a b = Spec.MMD κ (Spec.cond P a) (Spec.cond P b) := by
  simp only [mmdDeltaOvo, tab2_apply, mmdAlpha_eq hI, mmdGamma_eq hI, sumFin_eq_sum, omega_eq,
    RealLike.nat_real, RealLike.sqrt_real, RealLike.max_real, sqrt_max_zero, Spec.MMD, quad_sub hκ]
  congr 1
  push_cast
  ring

theorem mmdDeltaOva_eq {ε : ℝ} {P : Fin n → Fin K → ℝ} (hI : Interior ε P) {κ : Fin n → Fin n → ℝ}
    (hκ : ∀ i j, κ i j = κ j i) (k : Fin K) :
    mmdDeltaOva ε P κ k = Spec.MMD κ (Spec.cond P k) (Spec.unif n) := by
  simp only [mmdDeltaOva, tab2_apply, mmdAlpha_eq hI, mmdGamma_eq hI, sumFin_eq_sum, omega_eq,
    gammaSum_eq, kappaSum_eq, RealLike.nat_real, RealLike.sqrt_real, RealLike.max_real,
    sqrt_max_zero, Spec.MMD, quad_sub hκ]
  congr 1
  rw [Q_comm hκ (Spec.cond P k) (Spec.unif n)]
  push_cast
  ring

/-! ### Wasserstein -/

/-- the weight vector handed to `ot.emd2` for cluster `k` *is* the empirical conditional `p(x|k)` -/
theorem wassWeights_eq {ε : ℝ} {P : Fin n → Fin K → ℝ} (hI : Interior ε P) (k : Fin K) :
    wassWeights ε P k = Spec.cond P k := by
  funext i
  simp only [wassWeights, clipP_of_interior hI, tab_apply, mean0_eq_pi, RealLike.nat_real, Spec.cond]
  rw [mul_comm]

end GemVerif
