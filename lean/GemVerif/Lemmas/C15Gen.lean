/-
  Steps of the proofs of Props/C15Gen.lean: every NumPy expression of `_leaf_binning`, `_merge_leaf`, `_infer`
  described by the corresponding list of Model/Douglas.lean.  Over ℝ.
-/
import GemVerif.Lemmas.Np5
import GemVerif.Lemmas.DouglasGrad

set_option linter.unusedSectionVars false
set_option linter.unusedVariables false
set_option linter.unusedSimpArgs false

namespace GemVerif.Np
open GemVerif RealLike Model.Douglas GemVerif.Douglas
open scoped BigOperators

namespace Arr

/-! ### `_leaf_binning`, expression by expression -/

section generic
variable {α : Type} [RealLike α]

/-! number-type generic: the order, the sorted cut points and the bias are the model's for every `RealLike` -/

theorem argsort_length' (cuts : List α) : (argsort cuts).length = cuts.length := by
  rw [← argsortBy_eq_argsort, argsortBy_length]

theorem argsort_getD_lt' (cuts : List α) {j : ℕ} (hj : j < cuts.length) : (argsort cuts).getD j 0 < cuts.length := by
  rw [← argsortBy_eq_argsort]; exact argsortBy_getD_lt _ hj

/-- `np.argsort(cut_points)` -/
theorem IsVec.argsort1 {ca : Arr α} {cuts : List α} (hc : IsVec ca cuts) : IsVecN (argsort1 ca) (argsort cuts) := by
  obtain ⟨hok, hr, hcc, hget⟩ := hc
  refine ⟨by simp [hok, hr], rfl, by rw [argsort_length']; exact hcc, fun j _ => ?_⟩
  rw [argsort1_get, hcc, ← argsortBy_eq_argsort]
  congr 1
  exact argsortBy_congr fun a b ha hb => by rw [hget a ha, hget b hb]

/-- `cut_points[order]` -/
theorem IsVec.take1_argsort {ca : Arr α} {I : Arr ℕ} {cuts : List α} (hc : IsVec ca cuts) (hI : IsVecN I (argsort cuts)) :
    IsVec (take1 ca I) (sortedCuts cuts) := by
  obtain ⟨hok, hr, hcc, hget⟩ := hc
  obtain ⟨hIok, hIr, hIc, hIget⟩ := hI
  rw [argsort_length'] at hIc hIget
  have hlen : (sortedCuts cuts).length = cuts.length := by simp [sortedCuts, takeIdx, argsort_length']
  refine ⟨?_, rfl, by rw [hlen]; exact hIc, fun j hj => ?_⟩
  · rw [take1_ok]
    simp only [hok, hIok, hr, hIr, beq_self_eq_true, Bool.and_true, Bool.true_and, List.all_eq_true, List.mem_range,
      decide_eq_true_eq]
    intro j hj
    rw [hIc] at hj
    rw [hIget j hj, hcc]
    exact argsort_getD_lt' cuts hj
  · rw [hlen] at hj
    rw [take1_get, hIget j hj, hget _ (argsort_getD_lt' cuts hj)]
    simp only [sortedCuts, takeIdx]
    have hj2 : j < (argsort cuts).length := by rw [argsort_length']; exact hj
    have e1 : (List.map (fun i => cuts.getD i 0) (argsort cuts)).getD j 0 = cuts.getD ((argsort cuts)[j]) 0 := by
      rw [List.getD_eq_getElem _ _ (by simpa using hj2), List.getElem_map]
    rw [e1, List.getD_eq_getElem (argsort cuts) 0 hj2]

/-- `np.cumsum(np.concatenate([np.zeros(1), -sorted_cut_points])).reshape((1, -1))` -/
theorem IsVec.bias {sa : Arr α} {cuts : List α} (hs : IsVec sa (sortedCuts cuts)) :
    IsVec (reshapeRow (cumsumAxis1 (concat1 (zeros 1 1) (neg sa)))) (Model.Douglas.bias cuts) := by
  obtain ⟨hok, hr, hcc, hget⟩ := hs
  have hlen : (Model.Douglas.bias cuts).length = (sortedCuts cuts).length + 1 := by
    simp [Model.Douglas.bias, douglas_cumsum_length]
  refine ⟨by simp [hok, hr], by simp, by rw [hlen]; simp [hcc]; omega, fun j hj => ?_⟩
  rw [hlen] at hj
  simp only [reshapeRow_get, cumsumAxis1_get, Model.Douglas.bias]
  rw [douglas_cumsum_getD _ j (by simpa using hj)]
  refine cumsumTo_congr fun l hl => ?_
  cases l with
  | zero => simp
  | succ l =>
    have hl' : l < (sortedCuts cuts).length := by omega
    have h1 : ¬ (l + 1 < 1) := by omega
    simp [h1, hget l hl', List.getElem?_eq_getElem hl']

theorem bias_length_g (cuts : List α) : (Model.Douglas.bias cuts).length = cuts.length + 1 := by
  simp [Model.Douglas.bias, douglas_cumsum_length, sortedCuts, takeIdx, argsort_length']

end generic

/-- entry `j` of `np.linspace(1, n + 1, n + 1)` is `j + 1` -/
theorem linspace_one_get (m i j : ℕ) (hj : j < m + 1) :
    (linspace (1 : ℝ) ((nat m : ℝ) + 1) (m + 1)).get i j = (j : ℝ) + 1 := by
  rw [linspace_get]
  simp only [nat_real, Nat.add_sub_cancel]
  by_cases hm : m = 0
  · subst hm
    have : j = 0 := by omega
    subst this
    simp
  · rw [if_neg (by omega)]
    by_cases hjm : j + 1 = m + 1
    · rw [if_pos hjm]
      have : j = m := by omega
      rw [this]
    · rw [if_neg hjm]
      have hm' : (m : ℝ) ≠ 0 := by exact_mod_cast hm
      field_simp
      ring

theorem logits_getD' (x : ℝ) (cuts : List ℝ) {j : ℕ} (hj : j < cuts.length + 1) :
    (logits x cuts).getD j 0 = x * ((j : ℝ) + 1) + (Model.Douglas.bias cuts).getD j 0 := by
  have hb : (Model.Douglas.bias cuts).length = cuts.length + 1 := bias_length cuts
  have h1 : j < (logits x cuts).length := by rw [logits_length]; exact hj
  rw [List.getD_eq_getElem _ _ h1, List.getD_eq_getElem _ _ (by rw [hb]; exact hj)]
  simp only [logits, List.getElem_zipWith, linspaceW, List.getElem_map, List.getElem_range, nat_real]
  push_cast
  ring

/-- `Wa` is, without error, the `(1, m + 1)` row of the bin weights `1, 2, …, m + 1` -/
def IsWeights (Wa : Arr ℝ) (m : ℕ) : Prop :=
  Wa.ok = true ∧ Wa.r = 1 ∧ Wa.c = m + 1 ∧ ∀ j, j < m + 1 → Wa.get 0 j = (j : ℝ) + 1

/-- `np.expand_dims(np.linspace(1, n + 1, n + 1), axis=0)` is the row of the weights -/
theorem isWeights_linspace (m : ℕ) : IsWeights (reshapeRow (linspace (1 : ℝ) ((nat m : ℝ) + 1) (m + 1))) m :=
  ⟨by simp, by simp, by simp, fun j hj => by rw [reshapeRow_get]; exact linspace_one_get m 0 j hj⟩

/-- entry `j` of `np.arange(1, n + 2, dtype=np.float64)` is `j + 1` -/
theorem arangeFrom_one_get (b i j : ℕ) : (arangeFrom 1 b : Arr ℝ).get i j = (j : ℝ) + 1 := by
  rw [arangeFrom_get]
  simp only [nat_real]
  split
  · next h => subst h; simp
  · split
    · next h => subst h; norm_num
    · push_cast; ring

/-- `np.arange(1, n + 2, dtype=np.float64).reshape((1, -1))` is the row of the weights -/
theorem isWeights_arangeFrom (m : ℕ) : IsWeights (reshapeRow (arangeFrom 1 (m + 2) : Arr ℝ)) m :=
  ⟨by simp, by simp, by simp, fun j hj => by rw [reshapeRow_get]; exact arangeFrom_one_get _ 0 j⟩

/-- `softmax((X @ W + b) / self.temperature)`, row `i`, for any spelling of the row `W` of the weights `1, …, n + 1` -/
theorem softmax_logits_get_of_weights (T : ℝ) {n : ℕ} {Xa Wa ba : Arr ℝ} {x : Fin n → ℝ} {cuts : List ℝ}
    (hW : IsWeights Wa cuts.length) (hX : IsMat Xa (fun i (_ : Fin 1) => x i)) (hb : IsVec ba (Model.Douglas.bias cuts))
    (i : Fin n) {j : ℕ} (hj : j < cuts.length + 1) :
    (softmax (divs (add (matmul Xa Wa) ba) T)).get i.val j = (binning T (x i) cuts).getD j 0 := by
  obtain ⟨hWok, hWr, hWc, hWget⟩ := hW
  obtain ⟨hXok, hXr, hXc, hXget⟩ := hX
  obtain ⟨hbok, hbr, hbc, hbget⟩ := hb
  rw [bias_length] at hbc hbget
  have hrow : ∀ k : Fin (cuts.length + 1),
      (divs (add (matmul Xa Wa) ba) T).get i.val k.val = (logits (x i) cuts).getD k.val 0 / T := by
    intro k
    have hx0 : Xa.get i.val 0 = x i := hXget i ⟨0, Nat.one_pos⟩
    simp only [divs_get, add, zipWith_get, matmul_get, matmul_r, matmul_c, hWc,
      hXr, hXc, hbr, hbc, bidx_val, bidx_one, sumTo_def, sumFin_eq_sum, Fin.sum_univ_one, Fin.val_zero, hx0]
    rw [hWget k.val k.isLt, hbget k.val k.isLt, logits_getD' _ _ k.isLt]
  simp only [add] at hrow ⊢
  simp only [softmax_get, divs_c, zipWith_c, matmul_c, hWc, hbc, bdim_self]
  rw [softmaxRowN_val (K := cuts.length + 1) _ ⟨j, hj⟩, ← softmaxRow_ofFn_getD]
  simp only [binning]
  congr 2
  apply List.ext_getElem
  · simp [logits_length]
  · intro k h1 h2
    have hk : k < cuts.length + 1 := by simpa using h1
    simp only [List.getElem_ofFn, List.getElem_map]
    rw [hrow ⟨k, hk⟩, List.getD_eq_getElem _ _ (by rw [logits_length]; exact hk)]

/-- `softmax((X @ W + b) / self.temperature)`, row `i`, with `W` spelled `np.linspace` -/
theorem softmax_logits_get (T : ℝ) {n : ℕ} {Xa ba : Arr ℝ} {x : Fin n → ℝ} {cuts : List ℝ}
    (hX : IsMat Xa (fun i (_ : Fin 1) => x i)) (hb : IsVec ba (Model.Douglas.bias cuts)) (i : Fin n) {j : ℕ}
    (hj : j < cuts.length + 1) :
    (softmax (divs (add (matmul Xa (reshapeRow (linspace 1 ((nat cuts.length : ℝ) + 1) (cuts.length + 1)))) ba) T)).get i.val j
      = (binning T (x i) cuts).getD j 0 :=
  softmax_logits_get_of_weights T (isWeights_linspace cuts.length) hX hb i hj

/-! ### `_merge_leaf` and the `reduce` -/

/-- what Props/C15Gen.lean proves about the generated `_leaf_binning` (with the temperature applied) -/
def LeafBinningSpec (T : ℝ) (lb : Arr ℝ → Arr ℝ → Arr ℝ × Arr ℕ) : Prop :=
  ∀ {n : ℕ} {Xa ca : Arr ℝ} {x : Fin n → ℝ} {cuts : List ℝ}, IsMat Xa (fun i (_ : Fin 1) => x i) → IsVec ca cuts →
    IsRows (lb Xa ca).1 (fun i => binning T (x i) cuts) (cuts.length + 1) ∧ IsVecN (lb Xa ca).2 (argsort cuts)

/-- what Props/C15Gen.lean proves about the generated `_merge_leaf` -/
def MergeLeafSpec (ml : Arr ℝ → Arr ℝ → Arr ℝ) : Prop :=
  ∀ {n la lb : ℕ} {A B : Arr ℝ} {ra rb : Fin n → List ℝ}, IsRows A ra la → IsRows B rb lb → la * lb ≠ 0 →
    IsRows (ml A B) (fun i => kron (ra i) (rb i)) (la * lb)

theorem foldl_mul_prod (l : List ℕ) (a : ℕ) : l.foldl (fun acc q => acc * q) a = a * l.prod := by
  induction l generalizing a with
  | nil => simp
  | cons x l ih => rw [List.foldl_cons, ih, List.prod_cons, Nat.mul_assoc]

/-- `reduce(self._merge_leaf, …)` after its first element: a left fold of `kron` on every row -/
theorem foldl_merge_leaf_spec {ml : Arr ℝ → Arr ℝ → Arr ℝ} (hml : MergeLeafSpec ml) {n : ℕ} {Bs : List (Arr ℝ)}
    {qs : List ((Fin n → List ℝ) × ℕ)}
    (h : List.Forall₂ (fun (B : Arr ℝ) (q : (Fin n → List ℝ) × ℕ) => IsRows B q.1 (q.2 + 1)) Bs qs) :
    ∀ {A : Arr ℝ} {ra : Fin n → List ℝ} {la : ℕ}, IsRows A ra la → la ≠ 0 →
      IsRows (Bs.foldl ml A) (fun i => (qs.map fun q => q.1 i).foldl kron (ra i))
        (la * (qs.map fun q => q.2 + 1).prod) := by
  induction h with
  | nil => intro A ra la hA _; simpa using hA
  | @cons B q Bs qs hB _ ih =>
    intro A ra la hA hla
    have h0 : la * (q.2 + 1) ≠ 0 := Nat.mul_ne_zero hla (Nat.succ_ne_zero _)
    have := ih (hml hA hB h0) h0
    simpa [List.foldl_cons, List.map_cons, List.prod_cons, Nat.mul_assoc] using this

/-! ### `_infer` -/

/-- the arrays of `cut_points_list_` hold the feature indices and the cut-point lists of the model's `cl` -/
def CplIs (clA : List (ℕ × Arr ℝ)) (cl : List (ℕ × List ℝ)) : Prop :=
  List.Forall₂ (fun (a : ℕ × Arr ℝ) (z : ℕ × List ℝ) => a.1 = z.1 ∧ IsVec a.2 z.2) clA cl

/-- the `cut_points_list_` built from the model's list -/
noncomputable def cplOf (cl : List (ℕ × List ℝ)) : List (ℕ × Arr ℝ) := cl.map fun z => (z.1, ofList z.2)

theorem cplIs_cplOf (cl : List (ℕ × List ℝ)) : CplIs (cplOf cl) cl := by
  unfold CplIs cplOf
  rw [List.forall₂_map_left_iff]
  exact List.forall₂_same.mpr fun z _ => ⟨rfl, isVec_ofList z.2⟩

/-- `X[:, f:f + 1]` for a column `f` of the data -/
theorem IsMat.colSlice {n d : ℕ} {Xa : Arr ℝ} {X : Fin n → Fin d → ℝ} (hX : IsMat Xa X) {f : ℕ} (hf : f < d) :
    IsMat (colSlice Xa f (f + 1)) (fun i (_ : Fin 1) => xget (X i) f) := by
  obtain ⟨hok, hr, hc, hget⟩ := hX
  refine ⟨hok, hr, ?_, fun i j => ?_⟩
  · rw [colSlice_c, hc]
    have h1 : Nat.min (f + 1) d = f + 1 := Nat.min_eq_left (Nat.succ_le_of_lt hf)
    have h2 : Nat.min f d = f := Nat.min_eq_left (Nat.le_of_lt hf)
    rw [h1, h2]; omega
  · have hj : j.val = 0 := by omega
    simp only [colSlice_get, hj, Nat.add_zero, xget, dif_pos hf]
    exact hget i ⟨f, hf⟩

/-- the list `all_binnings_results` of `_infer`: one `_leaf_binning` per entry of `cut_points_list_` -/
theorem binnings_results_spec {T : ℝ} {lb : Arr ℝ → Arr ℝ → Arr ℝ × Arr ℕ} (hlb : LeafBinningSpec T lb) {n d : ℕ} {Xa : Arr ℝ} {X : Fin n → Fin d → ℝ} (hX : IsMat Xa X)
    {clA : List (ℕ × Arr ℝ)} {cl : List (ℕ × List ℝ)} (hcl : CplIs clA cl) (hin : ∀ z ∈ cl, z.1 < d) :
    List.Forall₂ (fun (P : Arr ℝ × Arr ℕ) (z : ℕ × List ℝ) =>
        IsRows P.1 (fun i => binning T (xget (X i) z.1) z.2) (z.2.length + 1) ∧ IsVecN P.2 (argsort z.2))
      (clA.map fun a => lb (Arr.colSlice Xa a.1 (a.1 + 1)) a.2) cl := by
  unfold CplIs at hcl
  induction hcl with
  | nil => exact List.Forall₂.nil
  | @cons a z as zs haz _ ih =>
    rw [List.map_cons]
    refine List.Forall₂.cons ?_ (ih fun z hz => hin z (List.mem_cons_of_mem _ hz))
    have hf : z.1 < d := hin z List.mem_cons_self
    rw [haz.1]
    exact hlb (hX.colSlice hf) haz.2

/-- `reduce(self._merge_leaf, all_binnings)`: row `i` is the model's `leafRow` of sample `i` -/
theorem leaf_spec {T : ℝ} {lb : Arr ℝ → Arr ℝ → Arr ℝ × Arr ℕ} (hlb : LeafBinningSpec T lb) {ml : Arr ℝ → Arr ℝ → Arr ℝ}
    (hml : MergeLeafSpec ml) {n d L : ℕ} {Xa : Arr ℝ} {X : Fin n → Fin d → ℝ} (hX : IsMat Xa X)
    {clA : List (ℕ × Arr ℝ)} {cl : List (ℕ × List ℝ)} (hcl : CplIs clA cl) (hne : cl ≠ []) (hin : ∀ z ∈ cl, z.1 < d)
    (hL : (radices cl).prod = L) :
    IsRows (reduce1 ml
        ((clA.map fun a => lb (Arr.colSlice Xa a.1 (a.1 + 1)) a.2).map fun x => x.1))
      (fun i => (leafRow T (X i) cl).getD []) L := by
  have hres := binnings_results_spec hlb hX hcl hin
  have hinR : inRange d cl = true := by simpa [inRange] using hin
  cases cl with
  | nil => exact absurd rfl hne
  | cons z0 rest =>
    cases clA with
    | nil => cases hcl
    | cons a0 restA =>
      rw [List.map_cons] at hres
      obtain ⟨h0, hrest⟩ := List.forall₂_cons.mp hres
      rw [List.map_cons, List.map_cons, reduce1_cons]
      have hF : List.Forall₂ (fun (B : Arr ℝ) (q : (Fin n → List ℝ) × ℕ) => IsRows B q.1 (q.2 + 1))
          ((restA.map fun a => lb (Arr.colSlice Xa a.1 (a.1 + 1)) a.2).map fun x => x.1)
          (rest.map fun z => ((fun i => binning T (xget (X i) z.1) z.2), z.2.length)) := by
        rw [List.forall₂_map_left_iff, List.forall₂_map_right_iff]
        exact hrest.imp fun P z h => h.1
      have := foldl_merge_leaf_spec hml hF h0.1 (Nat.succ_ne_zero _)
      have hlen : (z0.2.length + 1) * ((rest.map fun z => ((fun i => binning T (xget (X i) z.1) z.2), z.2.length)).map
          fun q => q.2 + 1).prod = L := by
        rw [← hL]; simp [radices, Function.comp_def]
      rw [hlen] at this
      have hrow : ∀ i : Fin n, (leafRow T (X i) (z0 :: rest)).getD [] =
          ((rest.map fun z => ((fun i => binning T (xget (X i) z.1) z.2), z.2.length)).map fun q => q.1 i).foldl kron
            (binning T (xget (X i) z0.1) z0.2) := by
        intro i
        simp [leafRow, hinR, binnings, mergeAll, Function.comp_def]
      simpa only [hrow] using this

theorem forall₂_getD {β γ : Type} {R : β → γ → Prop} {l1 : List β} {l2 : List γ} (h : List.Forall₂ R l1 l2) (d1 : β) (d2 : γ) :
    ∀ {i : ℕ}, i < l2.length → R (l1.getD i d1) (l2.getD i d2) := by
  induction h with
  | nil => intro i hi; exact absurd hi (by simp)
  | cons hab _ ih =>
    intro i hi
    cases i with
    | zero => simpa using hab
    | succ i => simpa using ih (by simpa using hi)

theorem IsRows.checked_true {n len : ℕ} {A : Arr ℝ} {rows : Fin n → List ℝ} (h : IsRows A rows len) :
    IsRows (checked true A) rows len := by
  obtain ⟨hok, hr, hc, hlen, hget⟩ := h
  exact ⟨by simp [hok], hr, hc, hlen, hget⟩

theorem isVecN_checkedN_true {I : Arr ℕ} {l : List ℕ} (h : IsVecN I l) : IsVecN (checkedN true I) l := by
  obtain ⟨hok, hr, hc, hget⟩ := h
  exact ⟨by simp [hok], hr, hc, hget⟩

/-- an error in any argument of a fold of an error-propagating binary operation is an error of the result -/
theorem foldl_ok_false {ml : Arr ℝ → Arr ℝ → Arr ℝ} (hl : ∀ A B, A.ok = false → (ml A B).ok = false)
    (hr : ∀ A B, B.ok = false → (ml A B).ok = false) :
    ∀ (Bs : List (Arr ℝ)) (A : Arr ℝ), (A.ok = false ∨ ∃ B ∈ Bs, B.ok = false) → (Bs.foldl ml A).ok = false
  | [], A, h => by
    rcases h with h | ⟨B, hB, _⟩
    · exact h
    · exact absurd hB (by simp)
  | B :: Bs, A, h => by
    rw [List.foldl_cons]
    refine foldl_ok_false hl hr Bs (ml A B) ?_
    rcases h with h | ⟨B', hB', hok⟩
    · exact Or.inl (hl A B h)
    · rcases List.mem_cons.mp hB' with rfl | hmem
      · exact Or.inl (hr A B' hok)
      · exact Or.inr ⟨B', hmem, hok⟩

/-- `reduce` of an error-propagating binary operation over a list holding an error is an error -/
theorem reduce1_ok_false {ml : Arr ℝ → Arr ℝ → Arr ℝ} (hl : ∀ A B, A.ok = false → (ml A B).ok = false)
    (hr : ∀ A B, B.ok = false → (ml A B).ok = false) {Bs : List (Arr ℝ)} (h : ∃ B ∈ Bs, B.ok = false) :
    (reduce1 ml Bs).ok = false := by
  cases Bs with
  | nil => rfl
  | cons A Bs =>
    rw [reduce1_cons]
    obtain ⟨B, hB, hok⟩ := h
    refine foldl_ok_false hl hr Bs A ?_
    rcases List.mem_cons.mp hB with rfl | hmem
    · exact Or.inl hok
    · exact Or.inr ⟨B, hmem, hok⟩

/-- `X[:, f:f + 1]` for a column index outside the data is an empty slice -/
theorem colSlice_c_of_le {Xa : Arr ℝ} {d f : ℕ} (hc : Xa.c = d) (hf : d ≤ f) : (colSlice Xa f (f + 1)).c = 0 := by
  rw [colSlice_c, hc]
  have h1 : Nat.min (f + 1) d = d := Nat.min_eq_right (by omega)
  have h2 : Nat.min f d = d := Nat.min_eq_right hf
  rw [h1, h2]; omega

end Arr
end GemVerif.Np
