/- Helper lemmas for property C13 (invariances and bounds of the GEMINI scores). -/
import GemVerif.Lemmas.Gemini
import Mathlib.Algebra.BigOperators.Group.Finset.Basic
import Mathlib.Logic.Equiv.Fintype

-- the proof scripts below are uniform across the `ovo` cases; some simp arguments are unused in some cases
set_option linter.unusedSimpArgs false
set_option linter.unnecessarySeqFocus false
set_option linter.unreachableTactic false
set_option linter.unusedTactic false

namespace GemVerif
open scoped BigOperators
open Model Spec

variable {n K : ℕ}

/-- `perm_tac σ` closes a goal `lhs = rhs` whose two sides differ only by the reindexing of
    finite sums along the permutation `σ` (it descends by congruence and reindexes each sum over
    the domain of `σ` with `Fintype.sum_equiv`). -/
syntax "perm_tac " term : tactic
macro_rules
  | `(tactic| perm_tac $σ) => `(tactic|
      first
      | with_reducible rfl
      | (refine Fintype.sum_equiv $σ _ _ (fun _ => ?_); beta_reduce; perm_tac $σ)
      | (refine Finset.sum_congr rfl (fun _ _ => ?_); perm_tac $σ)
      | (simp only [EmbeddingLike.apply_eq_iff_eq]; first | done | perm_tac $σ)
      | (congr 1 <;> perm_tac $σ)
      | (funext _; perm_tac $σ))

/-! ### Sample permutations -/

theorem clipP_sperm (ε : ℝ) (P : Fin n → Fin K → ℝ) (σ : Equiv.Perm (Fin n)) :
    clipP ε (fun i k => P (σ i) k) = fun i k => clipP ε P (σ i) k := rfl

theorem clipMask_sperm (ε : ℝ) (P : Fin n → Fin K → ℝ) (σ : Equiv.Perm (Fin n)) :
    clipMask ε (fun i k => P (σ i) k) = fun i k => clipMask ε P (σ i) k := rfl

theorem mean0_sperm (p : Fin n → Fin K → ℝ) (σ : Equiv.Perm (Fin n)) :
    mean0 (fun i k => p (σ i) k) = mean0 p := by
  funext k
  simp only [mean0, sumFin_eq_sum]
  perm_tac σ

theorem klScore_sperm (ε : ℝ) (ovo : Bool) (P : Fin n → Fin K → ℝ) (σ : Equiv.Perm (Fin n)) :
    klScore ε ovo (fun i k => P (σ i) k) = klScore ε ovo P := by
  cases ovo <;>
  · simp only [klScore, clipP_sperm, mean0_sperm _ σ, tab_apply, meanV_eq, sumFin_eq_sum]
    generalize clipP ε P = p
    perm_tac σ

theorem meanV_sperm (v : Fin n → ℝ) (σ : Equiv.Perm (Fin n)) :
    meanV (fun i => v (σ i)) = meanV v := by
  simp only [meanV, sumFin_eq_sum]
  perm_tac σ

theorem tvScore_sperm (ε : ℝ) (ovo : Bool) (P : Fin n → Fin K → ℝ) (σ : Equiv.Perm (Fin n)) :
    tvScore ε ovo (fun i k => P (σ i) k) = tvScore ε ovo P := by
  cases ovo <;>
  · simp only [tvScore, clipP_sperm, mean0_sperm _ σ, tab_apply, meanV_eq, sumFin_eq_sum]
    generalize clipP ε P = p
    perm_tac σ

theorem hellingerScore_sperm (ε : ℝ) (ovo : Bool) (P : Fin n → Fin K → ℝ) (σ : Equiv.Perm (Fin n)) :
    hellingerScore ε ovo (fun i k => P (σ i) k) = hellingerScore ε ovo P := by
  cases ovo <;>
  · simp only [hellingerScore, clipP_sperm, mean0_sperm _ σ, tab_apply, meanV_eq, sumFin_eq_sum]
    generalize clipP ε P = p
    perm_tac σ

theorem chi2Score_sperm (ε : ℝ) (ovo : Bool) (P : Fin n → Fin K → ℝ) (σ : Equiv.Perm (Fin n)) :
    chi2Score ε ovo (fun i k => P (σ i) k) = chi2Score ε ovo P := by
  cases ovo <;>
  · simp only [chi2Score, clipP_sperm, mean0_sperm _ σ, tab_apply, meanV_eq, sumFin_eq_sum]
    generalize clipP ε P = p
    perm_tac σ

theorem klGrad_sperm (ε : ℝ) (ovo : Bool) (P : Fin n → Fin K → ℝ) (σ : Equiv.Perm (Fin n))
    (i : Fin n) (k : Fin K) :
    klGrad ε ovo (fun i k => P (σ i) k) i k = klGrad ε ovo P (σ i) k := by
  cases ovo <;>
  · simp only [klGrad, clipP_sperm, clipMask_sperm, mean0_sperm _ σ, tab_apply, meanV_eq]
    generalize clipP ε P = p
    perm_tac σ

theorem tvGrad_sperm (ε : ℝ) (ovo : Bool) (P : Fin n → Fin K → ℝ) (σ : Equiv.Perm (Fin n))
    (i : Fin n) (k : Fin K) :
    tvGrad ε ovo (fun i k => P (σ i) k) i k = tvGrad ε ovo P (σ i) k := by
  cases ovo <;>
  · simp only [tvGrad, clipP_sperm, clipMask_sperm, mean0_sperm _ σ, tab_apply, tab2_apply, meanV_eq,
      sumFin_eq_sum, Bool.false_eq_true, if_false, if_true]
    generalize clipP ε P = p
    perm_tac σ

theorem hellingerGrad_sperm (ε : ℝ) (ovo : Bool) (P : Fin n → Fin K → ℝ) (σ : Equiv.Perm (Fin n))
    (i : Fin n) (k : Fin K) :
    hellingerGrad ε ovo (fun i k => P (σ i) k) i k = hellingerGrad ε ovo P (σ i) k := by
  cases ovo <;>
  · simp only [hellingerGrad, clipP_sperm, clipMask_sperm, mean0_sperm _ σ, tab_apply, tab2_apply, meanV_eq,
      sumFin_eq_sum, Bool.false_eq_true, if_false, if_true]
    generalize clipP ε P = p
    perm_tac σ

theorem chi2Grad_sperm (ε : ℝ) (ovo : Bool) (P : Fin n → Fin K → ℝ) (σ : Equiv.Perm (Fin n))
    (i : Fin n) (k : Fin K) :
    chi2Grad ε ovo (fun i k => P (σ i) k) i k = chi2Grad ε ovo P (σ i) k := by
  cases ovo <;>
  · simp only [chi2Grad, clipP_sperm, clipMask_sperm, mean0_sperm _ σ, tab_apply, tab2_apply, meanV_eq,
      sumFin_eq_sum, Bool.false_eq_true, if_false, if_true]
    generalize clipP ε P = p
    perm_tac σ

theorem mmdAlpha_sperm (ε : ℝ) (P : Fin n → Fin K → ℝ) (σ : Equiv.Perm (Fin n)) :
    mmdAlpha ε (fun i k => P (σ i) k) = fun i k => mmdAlpha ε P (σ i) k := by
  funext i k
  simp only [mmdAlpha, clipP_sperm, mean0_sperm _ σ, tab_apply]

theorem mmdGamma_sperm (ε : ℝ) (P : Fin n → Fin K → ℝ) (κ : Fin n → Fin n → ℝ) (σ : Equiv.Perm (Fin n)) :
    mmdGamma ε (fun i k => P (σ i) k) (fun i j => κ (σ i) (σ j)) = fun i k => mmdGamma ε P κ (σ i) k := by
  funext i k
  simp only [mmdGamma, mmdAlpha_sperm, tab2_apply, sumFin_eq_sum]
  perm_tac σ

theorem mmdDeltaOvo_sperm (ε : ℝ) (P : Fin n → Fin K → ℝ) (κ : Fin n → Fin n → ℝ) (σ : Equiv.Perm (Fin n)) :
    mmdDeltaOvo ε (fun i k => P (σ i) k) (fun i j => κ (σ i) (σ j)) = mmdDeltaOvo ε P κ := by
  funext a b
  simp only [mmdDeltaOvo, mmdAlpha_sperm, mmdGamma_sperm, tab2_apply, sumFin_eq_sum]
  perm_tac σ

theorem mmdDeltaOva_sperm (ε : ℝ) (P : Fin n → Fin K → ℝ) (κ : Fin n → Fin n → ℝ) (σ : Equiv.Perm (Fin n)) :
    mmdDeltaOva ε (fun i k => P (σ i) k) (fun i j => κ (σ i) (σ j)) = mmdDeltaOva ε P κ := by
  funext a
  simp only [mmdDeltaOva, mmdAlpha_sperm, mmdGamma_sperm, tab2_apply, sumFin_eq_sum]
  perm_tac σ

theorem mmdScore_sperm (ε : ℝ) (ovo : Bool) (P : Fin n → Fin K → ℝ) (κ : Fin n → Fin n → ℝ)
    (σ : Equiv.Perm (Fin n)) :
    mmdScore ε ovo (fun i k => P (σ i) k) (fun i j => κ (σ i) (σ j)) = mmdScore ε ovo P κ := by
  cases ovo <;>
  simp only [mmdScore, mmdDeltaOvo_sperm, mmdDeltaOva_sperm, clipP_sperm, mean0_sperm _ σ]

theorem mmdGrad_sperm (ε : ℝ) (ovo : Bool) (P : Fin n → Fin K → ℝ) (κ : Fin n → Fin n → ℝ)
    (σ : Equiv.Perm (Fin n)) (i : Fin n) (k : Fin K) :
    mmdGrad ε ovo (fun i k => P (σ i) k) (fun i j => κ (σ i) (σ j)) i k = mmdGrad ε ovo P κ (σ i) k := by
  cases ovo <;>
  simp only [mmdGrad, mmdDeltaOvo_sperm, mmdDeltaOva_sperm, mmdGamma_sperm, mmdAlpha_sperm, clipP_sperm,
      clipMask_sperm, mean0_sperm _ σ, tab_apply, tab2_apply, meanV_eq,
      sumFin_eq_sum, Bool.false_eq_true, if_false, if_true] <;>
  (generalize clipP ε P = p; perm_tac σ)

/-! ### Cluster permutations -/

theorem clipP_cperm (ε : ℝ) (P : Fin n → Fin K → ℝ) (τ : Equiv.Perm (Fin K)) :
    clipP ε (fun i k => P i (τ k)) = fun i k => clipP ε P i (τ k) := rfl

theorem clipMask_cperm (ε : ℝ) (P : Fin n → Fin K → ℝ) (τ : Equiv.Perm (Fin K)) :
    clipMask ε (fun i k => P i (τ k)) = fun i k => clipMask ε P i (τ k) := rfl

theorem mean0_cperm (p : Fin n → Fin K → ℝ) (τ : Equiv.Perm (Fin K)) :
    mean0 (fun i k => p i (τ k)) = fun k => mean0 p (τ k) := rfl

theorem klScore_cperm (ε : ℝ) (ovo : Bool) (P : Fin n → Fin K → ℝ) (τ : Equiv.Perm (Fin K)) :
    klScore ε ovo (fun i k => P i (τ k)) = klScore ε ovo P := by
  cases ovo <;>
  · simp only [klScore, clipP_cperm, mean0_cperm _ τ, tab_apply, meanV_eq, sumFin_eq_sum,
      Bool.false_eq_true, if_false, if_true] <;>
    (generalize clipP ε P = p; perm_tac τ)

theorem tvScore_cperm (ε : ℝ) (ovo : Bool) (P : Fin n → Fin K → ℝ) (τ : Equiv.Perm (Fin K)) :
    tvScore ε ovo (fun i k => P i (τ k)) = tvScore ε ovo P := by
  cases ovo <;>
  · simp only [tvScore, clipP_cperm, mean0_cperm _ τ, tab_apply, meanV_eq, sumFin_eq_sum,
      Bool.false_eq_true, if_false, if_true] <;>
    (generalize clipP ε P = p; perm_tac τ)

theorem hellingerScore_cperm (ε : ℝ) (ovo : Bool) (P : Fin n → Fin K → ℝ) (τ : Equiv.Perm (Fin K)) :
    hellingerScore ε ovo (fun i k => P i (τ k)) = hellingerScore ε ovo P := by
  cases ovo <;>
  · simp only [hellingerScore, clipP_cperm, mean0_cperm _ τ, tab_apply, meanV_eq, sumFin_eq_sum,
      Bool.false_eq_true, if_false, if_true] <;>
    (generalize clipP ε P = p; perm_tac τ)

theorem chi2Score_cperm (ε : ℝ) (ovo : Bool) (P : Fin n → Fin K → ℝ) (τ : Equiv.Perm (Fin K)) :
    chi2Score ε ovo (fun i k => P i (τ k)) = chi2Score ε ovo P := by
  cases ovo <;>
  · simp only [chi2Score, clipP_cperm, mean0_cperm _ τ, tab_apply, meanV_eq, sumFin_eq_sum,
      Bool.false_eq_true, if_false, if_true] <;>
    (generalize clipP ε P = p; perm_tac τ)

theorem klGrad_cperm (ε : ℝ) (ovo : Bool) (P : Fin n → Fin K → ℝ) (τ : Equiv.Perm (Fin K))
    (i : Fin n) (k : Fin K) :
    klGrad ε ovo (fun i k => P i (τ k)) i k = klGrad ε ovo P i (τ k) := by
  cases ovo <;>
  · simp only [klGrad, clipP_cperm, clipMask_cperm, mean0_cperm _ τ, tab_apply, tab2_apply, meanV_eq,
      sumFin_eq_sum, Bool.false_eq_true, if_false, if_true] <;>
    (generalize clipP ε P = p; perm_tac τ)

theorem tvGrad_cperm (ε : ℝ) (ovo : Bool) (P : Fin n → Fin K → ℝ) (τ : Equiv.Perm (Fin K))
    (i : Fin n) (k : Fin K) :
    tvGrad ε ovo (fun i k => P i (τ k)) i k = tvGrad ε ovo P i (τ k) := by
  cases ovo <;>
  · simp only [tvGrad, clipP_cperm, clipMask_cperm, mean0_cperm _ τ, tab_apply, tab2_apply, meanV_eq,
      sumFin_eq_sum, Bool.false_eq_true, if_false, if_true] <;>
    (generalize clipP ε P = p; perm_tac τ)

theorem hellingerGrad_cperm (ε : ℝ) (ovo : Bool) (P : Fin n → Fin K → ℝ) (τ : Equiv.Perm (Fin K))
    (i : Fin n) (k : Fin K) :
    hellingerGrad ε ovo (fun i k => P i (τ k)) i k = hellingerGrad ε ovo P i (τ k) := by
  cases ovo <;>
  · simp only [hellingerGrad, clipP_cperm, clipMask_cperm, mean0_cperm _ τ, tab_apply, tab2_apply, meanV_eq,
      sumFin_eq_sum, Bool.false_eq_true, if_false, if_true] <;>
    (generalize clipP ε P = p; perm_tac τ)

theorem chi2Grad_cperm (ε : ℝ) (ovo : Bool) (P : Fin n → Fin K → ℝ) (τ : Equiv.Perm (Fin K))
    (i : Fin n) (k : Fin K) :
    chi2Grad ε ovo (fun i k => P i (τ k)) i k = chi2Grad ε ovo P i (τ k) := by
  cases ovo <;>
  · simp only [chi2Grad, clipP_cperm, clipMask_cperm, mean0_cperm _ τ, tab_apply, tab2_apply, meanV_eq,
      sumFin_eq_sum, Bool.false_eq_true, if_false, if_true] <;>
    (generalize clipP ε P = p; perm_tac τ)

theorem mmdAlpha_cperm (ε : ℝ) (P : Fin n → Fin K → ℝ) (τ : Equiv.Perm (Fin K)) :
    mmdAlpha ε (fun i k => P i (τ k)) = fun i k => mmdAlpha ε P i (τ k) := by
  funext i k
  simp only [mmdAlpha, clipP_cperm, mean0_cperm _ τ, tab_apply]

theorem mmdGamma_cperm (ε : ℝ) (P : Fin n → Fin K → ℝ) (κ : Fin n → Fin n → ℝ) (τ : Equiv.Perm (Fin K)) :
    mmdGamma ε (fun i k => P i (τ k)) κ = fun i k => mmdGamma ε P κ i (τ k) := by
  funext i k
  simp only [mmdGamma, mmdAlpha_cperm, tab2_apply]

theorem mmdDeltaOvo_cperm (ε : ℝ) (P : Fin n → Fin K → ℝ) (κ : Fin n → Fin n → ℝ) (τ : Equiv.Perm (Fin K)) :
    mmdDeltaOvo ε (fun i k => P i (τ k)) κ = fun a b => mmdDeltaOvo ε P κ (τ a) (τ b) := by
  funext a b
  simp only [mmdDeltaOvo, mmdAlpha_cperm, mmdGamma_cperm, tab2_apply]

theorem mmdDeltaOva_cperm (ε : ℝ) (P : Fin n → Fin K → ℝ) (κ : Fin n → Fin n → ℝ) (τ : Equiv.Perm (Fin K)) :
    mmdDeltaOva ε (fun i k => P i (τ k)) κ = fun a => mmdDeltaOva ε P κ (τ a) := by
  funext a
  simp only [mmdDeltaOva, mmdAlpha_cperm, mmdGamma_cperm, tab2_apply]

theorem mmdScore_cperm (ε : ℝ) (ovo : Bool) (P : Fin n → Fin K → ℝ) (κ : Fin n → Fin n → ℝ)
    (τ : Equiv.Perm (Fin K)) :
    mmdScore ε ovo (fun i k => P i (τ k)) κ = mmdScore ε ovo P κ := by
  cases ovo <;>
  simp only [mmdScore, mmdDeltaOvo_cperm, mmdDeltaOva_cperm, clipP_cperm, mean0_cperm _ τ,
      tab_apply, tab2_apply, sumFin_eq_sum, Bool.false_eq_true, if_false, if_true] <;>
  (generalize clipP ε P = p; perm_tac τ)

theorem mmdGrad_cperm (ε : ℝ) (ovo : Bool) (P : Fin n → Fin K → ℝ) (κ : Fin n → Fin n → ℝ)
    (τ : Equiv.Perm (Fin K)) (i : Fin n) (k : Fin K) :
    mmdGrad ε ovo (fun i k => P i (τ k)) κ i k = mmdGrad ε ovo P κ i (τ k) := by
  cases ovo <;>
  simp only [mmdGrad, mmdDeltaOvo_cperm, mmdDeltaOva_cperm, mmdGamma_cperm, mmdAlpha_cperm, clipP_cperm,
      clipMask_cperm, mean0_cperm _ τ, tab_apply, tab2_apply, meanV_eq,
      sumFin_eq_sum, Bool.false_eq_true, if_false, if_true] <;>
  (generalize clipP ε P = p; perm_tac τ)

end GemVerif
