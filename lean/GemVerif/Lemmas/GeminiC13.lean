/- Helper lemmas for property C13 (invariances and bounds of the GEMINI scores). -/
import GemVerif.Lemmas.Gemini
import Mathlib.Algebra.BigOperators.Group.Finset.Basic
import Mathlib.Logic.Equiv.Fintype
import Mathlib.Analysis.SpecialFunctions.Log.Basic
import Mathlib.Analysis.SpecialFunctions.Sqrt
import Mathlib.Tactic.Ring
import Mathlib.Tactic.FieldSimp
import Mathlib.Tactic.Linarith
import Mathlib.Tactic.Positivity

-- the proof scripts below are uniform across the `ovo` cases; some simp arguments are unused in some cases
set_option linter.unusedSimpArgs false
set_option linter.unnecessarySeqFocus false
set_option linter.unreachableTactic false
set_option linter.unusedTactic false

namespace GemVerif.C13
open scoped BigOperators
open GemVerif Model Spec

variable {n K : ℕ}

/-- `perm_tac σ` closes a goal `lhs = rhs` whose two sides differ only by the reindexing of
    finite sums along the permutation `σ` (it descends by congruence and reindexes each sum over
    the domain of `σ` with `Fintype.sum_equiv`). -/
syntax "perm_tac " term : tactic
macro_rules
  | `(tactic| perm_tac $σ) => `(tactic|
      first
      | with_reducible rfl
      | (refine Fintype.sum_equiv $σ _ _ (fun _ => ?_); beta_reduce; perm_tac $σ)
      | (refine Finset.sum_congr rfl (fun _ _ => ?_); perm_tac $σ)
      | (simp only [EmbeddingLike.apply_eq_iff_eq]; first | done | perm_tac $σ)
      | (congr 1 <;> perm_tac $σ)
      | (funext _; perm_tac $σ))

/-! ### Sample permutations -/

theorem clipP_sperm (ε : ℝ) (P : Fin n → Fin K → ℝ) (σ : Equiv.Perm (Fin n)) :
    clipP ε (fun i k => P (σ i) k) = fun i k => clipP ε P (σ i) k := rfl

theorem clipMask_sperm (ε : ℝ) (P : Fin n → Fin K → ℝ) (σ : Equiv.Perm (Fin n)) :
    clipMask ε (fun i k => P (σ i) k) = fun i k => clipMask ε P (σ i) k := rfl

theorem mean0_sperm (p : Fin n → Fin K → ℝ) (σ : Equiv.Perm (Fin n)) :
    mean0 (fun i k => p (σ i) k) = mean0 p := by
  funext k
  simp only [mean0, sumFin_eq_sum]
  perm_tac σ

theorem klScore_sperm (ε : ℝ) (ovo : Bool) (P : Fin n → Fin K → ℝ) (σ : Equiv.Perm (Fin n)) :
    klScore ε ovo (fun i k => P (σ i) k) = klScore ε ovo P := by
  cases ovo <;>
  · simp only [klScore, clipP_sperm, mean0_sperm _ σ, tab_apply, meanV_eq, sumFin_eq_sum]
    generalize clipP ε P = p
    perm_tac σ

theorem meanV_sperm (v : Fin n → ℝ) (σ : Equiv.Perm (Fin n)) :
    meanV (fun i => v (σ i)) = meanV v := by
  simp only [meanV, sumFin_eq_sum]
  perm_tac σ

theorem tvScore_sperm (ε : ℝ) (ovo : Bool) (P : Fin n → Fin K → ℝ) (σ : Equiv.Perm (Fin n)) :
    tvScore ε ovo (fun i k => P (σ i) k) = tvScore ε ovo P := by
  cases ovo <;>
  · simp only [tvScore, clipP_sperm, mean0_sperm _ σ, tab_apply, meanV_eq, sumFin_eq_sum]
    generalize clipP ε P = p
    perm_tac σ

theorem hellingerScore_sperm (ε : ℝ) (ovo : Bool) (P : Fin n → Fin K → ℝ) (σ : Equiv.Perm (Fin n)) :
    hellingerScore ε ovo (fun i k => P (σ i) k) = hellingerScore ε ovo P := by
  cases ovo <;>
  · simp only [hellingerScore, clipP_sperm, mean0_sperm _ σ, tab_apply, meanV_eq, sumFin_eq_sum]
    generalize clipP ε P = p
    perm_tac σ

theorem chi2Score_sperm (ε : ℝ) (ovo : Bool) (P : Fin n → Fin K → ℝ) (σ : Equiv.Perm (Fin n)) :
    chi2Score ε ovo (fun i k => P (σ i) k) = chi2Score ε ovo P := by
  cases ovo <;>
  · simp only [chi2Score, clipP_sperm, mean0_sperm _ σ, tab_apply, meanV_eq, sumFin_eq_sum]
    generalize clipP ε P = p
    perm_tac σ

theorem klGrad_sperm (ε : ℝ) (ovo : Bool) (P : Fin n → Fin K → ℝ) (σ : Equiv.Perm (Fin n))
    (i : Fin n) (k : Fin K) :
    klGrad ε ovo (fun i k => P (σ i) k) i k = klGrad ε ovo P (σ i) k := by
  cases ovo <;>
  · simp only [klGrad, clipP_sperm, clipMask_sperm, mean0_sperm _ σ, tab_apply, meanV_eq]
    generalize clipP ε P = p
    perm_tac σ

theorem tvGrad_sperm (ε : ℝ) (ovo : Bool) (P : Fin n → Fin K → ℝ) (σ : Equiv.Perm (Fin n))
    (i : Fin n) (k : Fin K) :
    tvGrad ε ovo (fun i k => P (σ i) k) i k = tvGrad ε ovo P (σ i) k := by
  cases ovo <;>
  · simp only [tvGrad, clipP_sperm, clipMask_sperm, mean0_sperm _ σ, tab_apply, tab2_apply, meanV_eq,
      sumFin_eq_sum, Bool.false_eq_true, if_false, if_true]
    generalize clipP ε P = p
    perm_tac σ

theorem hellingerGrad_sperm (ε : ℝ) (ovo : Bool) (P : Fin n → Fin K → ℝ) (σ : Equiv.Perm (Fin n))
    (i : Fin n) (k : Fin K) :
    hellingerGrad ε ovo (fun i k => P (σ i) k) i k = hellingerGrad ε ovo P (σ i) k := by
  cases ovo <;>
  · simp only [hellingerGrad, clipP_sperm, clipMask_sperm, mean0_sperm _ σ, tab_apply, tab2_apply, meanV_eq,
      sumFin_eq_sum, Bool.false_eq_true, if_false, if_true]
    generalize clipP ε P = p
    perm_tac σ

theorem chi2Grad_sperm (ε : ℝ) (ovo : Bool) (P : Fin n → Fin K → ℝ) (σ : Equiv.Perm (Fin n))
    (i : Fin n) (k : Fin K) :
    chi2Grad ε ovo (fun i k => P (σ i) k) i k = chi2Grad ε ovo P (σ i) k := by
  cases ovo <;>
  · simp only [chi2Grad, clipP_sperm, clipMask_sperm, mean0_sperm _ σ, tab_apply, tab2_apply, meanV_eq,
      sumFin_eq_sum, Bool.false_eq_true, if_false, if_true]
    generalize clipP ε P = p
    perm_tac σ

theorem mmdAlpha_sperm (ε : ℝ) (P : Fin n → Fin K → ℝ) (σ : Equiv.Perm (Fin n)) :
    mmdAlpha ε (fun i k => P (σ i) k) = fun i k => mmdAlpha ε P (σ i) k := by
  funext i k
  simp only [mmdAlpha, clipP_sperm, mean0_sperm _ σ, tab_apply]

theorem mmdGamma_sperm (ε : ℝ) (P : Fin n → Fin K → ℝ) (κ : Fin n → Fin n → ℝ) (σ : Equiv.Perm (Fin n)) :
    mmdGamma ε (fun i k => P (σ i) k) (fun i j => κ (σ i) (σ j)) = fun i k => mmdGamma ε P κ (σ i) k := by
  funext i k
  simp only [mmdGamma, mmdAlpha_sperm, tab2_apply, sumFin_eq_sum]
  perm_tac σ

theorem mmdDeltaOvo_sperm (ε : ℝ) (P : Fin n → Fin K → ℝ) (κ : Fin n → Fin n → ℝ) (σ : Equiv.Perm (Fin n)) :
    mmdDeltaOvo ε (fun i k => P (σ i) k) (fun i j => κ (σ i) (σ j)) = mmdDeltaOvo ε P κ := by
  funext a b
  simp only [mmdDeltaOvo, mmdAlpha_sperm, mmdGamma_sperm, tab2_apply, sumFin_eq_sum]
  perm_tac σ

theorem mmdDeltaOva_sperm (ε : ℝ) (P : Fin n → Fin K → ℝ) (κ : Fin n → Fin n → ℝ) (σ : Equiv.Perm (Fin n)) :
    mmdDeltaOva ε (fun i k => P (σ i) k) (fun i j => κ (σ i) (σ j)) = mmdDeltaOva ε P κ := by
  funext a
  simp only [mmdDeltaOva, mmdAlpha_sperm, mmdGamma_sperm, tab2_apply, sumFin_eq_sum]
  perm_tac σ

theorem mmdScore_sperm (ε : ℝ) (ovo : Bool) (P : Fin n → Fin K → ℝ) (κ : Fin n → Fin n → ℝ)
    (σ : Equiv.Perm (Fin n)) :
    mmdScore ε ovo (fun i k => P (σ i) k) (fun i j => κ (σ i) (σ j)) = mmdScore ε ovo P κ := by
  cases ovo <;>
  simp only [mmdScore, mmdDeltaOvo_sperm, mmdDeltaOva_sperm, clipP_sperm, mean0_sperm _ σ]

theorem mmdGrad_sperm (ε : ℝ) (ovo : Bool) (P : Fin n → Fin K → ℝ) (κ : Fin n → Fin n → ℝ)
    (σ : Equiv.Perm (Fin n)) (i : Fin n) (k : Fin K) :
    mmdGrad ε ovo (fun i k => P (σ i) k) (fun i j => κ (σ i) (σ j)) i k = mmdGrad ε ovo P κ (σ i) k := by
  cases ovo <;>
  simp only [mmdGrad, mmdDeltaOvo_sperm, mmdDeltaOva_sperm, mmdGamma_sperm, mmdAlpha_sperm, clipP_sperm,
      clipMask_sperm, mean0_sperm _ σ, tab_apply, tab2_apply, meanV_eq,
      sumFin_eq_sum, Bool.false_eq_true, if_false, if_true] <;>
  (generalize clipP ε P = p; perm_tac σ)

/-! ### Cluster permutations -/

theorem clipP_cperm (ε : ℝ) (P : Fin n → Fin K → ℝ) (τ : Equiv.Perm (Fin K)) :
    clipP ε (fun i k => P i (τ k)) = fun i k => clipP ε P i (τ k) := rfl

theorem clipMask_cperm (ε : ℝ) (P : Fin n → Fin K → ℝ) (τ : Equiv.Perm (Fin K)) :
    clipMask ε (fun i k => P i (τ k)) = fun i k => clipMask ε P i (τ k) := rfl

theorem mean0_cperm (p : Fin n → Fin K → ℝ) (τ : Equiv.Perm (Fin K)) :
    mean0 (fun i k => p i (τ k)) = fun k => mean0 p (τ k) := rfl

theorem klScore_cperm (ε : ℝ) (ovo : Bool) (P : Fin n → Fin K → ℝ) (τ : Equiv.Perm (Fin K)) :
    klScore ε ovo (fun i k => P i (τ k)) = klScore ε ovo P := by
  cases ovo <;>
  · simp only [klScore, clipP_cperm, mean0_cperm _ τ, tab_apply, meanV_eq, sumFin_eq_sum,
      Bool.false_eq_true, if_false, if_true] <;>
    (generalize clipP ε P = p; perm_tac τ)

theorem tvScore_cperm (ε : ℝ) (ovo : Bool) (P : Fin n → Fin K → ℝ) (τ : Equiv.Perm (Fin K)) :
    tvScore ε ovo (fun i k => P i (τ k)) = tvScore ε ovo P := by
  cases ovo <;>
  · simp only [tvScore, clipP_cperm, mean0_cperm _ τ, tab_apply, meanV_eq, sumFin_eq_sum,
      Bool.false_eq_true, if_false, if_true] <;>
    (generalize clipP ε P = p; perm_tac τ)

theorem hellingerScore_cperm (ε : ℝ) (ovo : Bool) (P : Fin n → Fin K → ℝ) (τ : Equiv.Perm (Fin K)) :
    hellingerScore ε ovo (fun i k => P i (τ k)) = hellingerScore ε ovo P := by
  cases ovo <;>
  · simp only [hellingerScore, clipP_cperm, mean0_cperm _ τ, tab_apply, meanV_eq, sumFin_eq_sum,
      Bool.false_eq_true, if_false, if_true] <;>
    (generalize clipP ε P = p; perm_tac τ)

theorem chi2Score_cperm (ε : ℝ) (ovo : Bool) (P : Fin n → Fin K → ℝ) (τ : Equiv.Perm (Fin K)) :
    chi2Score ε ovo (fun i k => P i (τ k)) = chi2Score ε ovo P := by
  cases ovo <;>
  · simp only [chi2Score, clipP_cperm, mean0_cperm _ τ, tab_apply, meanV_eq, sumFin_eq_sum,
      Bool.false_eq_true, if_false, if_true] <;>
    (generalize clipP ε P = p; perm_tac τ)

theorem klGrad_cperm (ε : ℝ) (ovo : Bool) (P : Fin n → Fin K → ℝ) (τ : Equiv.Perm (Fin K))
    (i : Fin n) (k : Fin K) :
    klGrad ε ovo (fun i k => P i (τ k)) i k = klGrad ε ovo P i (τ k) := by
  cases ovo <;>
  · simp only [klGrad, clipP_cperm, clipMask_cperm, mean0_cperm _ τ, tab_apply, tab2_apply, meanV_eq,
      sumFin_eq_sum, Bool.false_eq_true, if_false, if_true] <;>
    (generalize clipP ε P = p; perm_tac τ)

theorem tvGrad_cperm (ε : ℝ) (ovo : Bool) (P : Fin n → Fin K → ℝ) (τ : Equiv.Perm (Fin K))
    (i : Fin n) (k : Fin K) :
    tvGrad ε ovo (fun i k => P i (τ k)) i k = tvGrad ε ovo P i (τ k) := by
  cases ovo <;>
  · simp only [tvGrad, clipP_cperm, clipMask_cperm, mean0_cperm _ τ, tab_apply, tab2_apply, meanV_eq,
      sumFin_eq_sum, Bool.false_eq_true, if_false, if_true] <;>
    (generalize clipP ε P = p; perm_tac τ)

theorem hellingerGrad_cperm (ε : ℝ) (ovo : Bool) (P : Fin n → Fin K → ℝ) (τ : Equiv.Perm (Fin K))
    (i : Fin n) (k : Fin K) :
    hellingerGrad ε ovo (fun i k => P i (τ k)) i k = hellingerGrad ε ovo P i (τ k) := by
  cases ovo <;>
  · simp only [hellingerGrad, clipP_cperm, clipMask_cperm, mean0_cperm _ τ, tab_apply, tab2_apply, meanV_eq,
      sumFin_eq_sum, Bool.false_eq_true, if_false, if_true] <;>
    (generalize clipP ε P = p; perm_tac τ)

theorem chi2Grad_cperm (ε : ℝ) (ovo : Bool) (P : Fin n → Fin K → ℝ) (τ : Equiv.Perm (Fin K))
    (i : Fin n) (k : Fin K) :
    chi2Grad ε ovo (fun i k => P i (τ k)) i k = chi2Grad ε ovo P i (τ k) := by
  cases ovo <;>
  · simp only [chi2Grad, clipP_cperm, clipMask_cperm, mean0_cperm _ τ, tab_apply, tab2_apply, meanV_eq,
      sumFin_eq_sum, Bool.false_eq_true, if_false, if_true] <;>
    (generalize clipP ε P = p; perm_tac τ)

theorem mmdAlpha_cperm (ε : ℝ) (P : Fin n → Fin K → ℝ) (τ : Equiv.Perm (Fin K)) :
    mmdAlpha ε (fun i k => P i (τ k)) = fun i k => mmdAlpha ε P i (τ k) := by
  funext i k
  simp only [mmdAlpha, clipP_cperm, mean0_cperm _ τ, tab_apply]

theorem mmdGamma_cperm (ε : ℝ) (P : Fin n → Fin K → ℝ) (κ : Fin n → Fin n → ℝ) (τ : Equiv.Perm (Fin K)) :
    mmdGamma ε (fun i k => P i (τ k)) κ = fun i k => mmdGamma ε P κ i (τ k) := by
  funext i k
  simp only [mmdGamma, mmdAlpha_cperm, tab2_apply]

theorem mmdDeltaOvo_cperm (ε : ℝ) (P : Fin n → Fin K → ℝ) (κ : Fin n → Fin n → ℝ) (τ : Equiv.Perm (Fin K)) :
    mmdDeltaOvo ε (fun i k => P i (τ k)) κ = fun a b => mmdDeltaOvo ε P κ (τ a) (τ b) := by
  funext a b
  simp only [mmdDeltaOvo, mmdAlpha_cperm, mmdGamma_cperm, tab2_apply]

theorem mmdDeltaOva_cperm (ε : ℝ) (P : Fin n → Fin K → ℝ) (κ : Fin n → Fin n → ℝ) (τ : Equiv.Perm (Fin K)) :
    mmdDeltaOva ε (fun i k => P i (τ k)) κ = fun a => mmdDeltaOva ε P κ (τ a) := by
  funext a
  simp only [mmdDeltaOva, mmdAlpha_cperm, mmdGamma_cperm, tab2_apply]

theorem mmdScore_cperm (ε : ℝ) (ovo : Bool) (P : Fin n → Fin K → ℝ) (κ : Fin n → Fin n → ℝ)
    (τ : Equiv.Perm (Fin K)) :
    mmdScore ε ovo (fun i k => P i (τ k)) κ = mmdScore ε ovo P κ := by
  cases ovo <;>
  simp only [mmdScore, mmdDeltaOvo_cperm, mmdDeltaOva_cperm, clipP_cperm, mean0_cperm _ τ,
      tab_apply, tab2_apply, sumFin_eq_sum, Bool.false_eq_true, if_false, if_true] <;>
  (generalize clipP ε P = p; perm_tac τ)

theorem mmdGrad_cperm (ε : ℝ) (ovo : Bool) (P : Fin n → Fin K → ℝ) (κ : Fin n → Fin n → ℝ)
    (τ : Equiv.Perm (Fin K)) (i : Fin n) (k : Fin K) :
    mmdGrad ε ovo (fun i k => P i (τ k)) κ i k = mmdGrad ε ovo P κ i (τ k) := by
  cases ovo <;>
  simp only [mmdGrad, mmdDeltaOvo_cperm, mmdDeltaOva_cperm, mmdGamma_cperm, mmdAlpha_cperm, clipP_cperm,
      clipMask_cperm, mean0_cperm _ τ, tab_apply, tab2_apply, meanV_eq,
      sumFin_eq_sum, Bool.false_eq_true, if_false, if_true] <;>
  (generalize clipP ε P = p; perm_tac τ)

/-! ### Spec-level bounds -/

theorem KL_nonneg {p q : Fin n → ℝ} (hp : ∀ i, 0 ≤ p i) (hp1 : ∑ i, p i = 1)
    (hq : ∀ i, 0 < q i) (hq1 : ∑ i, q i = 1) : 0 ≤ Spec.KL p q := by
  have key : ∀ i, p i - q i ≤ p i * Real.log (p i / q i) := by
    intro i
    rcases (hp i).eq_or_lt with h | h
    · rw [← h]; simp [(hq i).le]
    · have hx : 0 < q i / p i := div_pos (hq i) h
      have h1 := Real.log_le_sub_one_of_pos hx
      have h2 : Real.log (q i / p i) = - Real.log (p i / q i) := by
        rw [← Real.log_inv, inv_div]
      rw [h2] at h1
      have h3 : p i * (-(Real.log (p i / q i))) ≤ p i * (q i / p i - 1) :=
        mul_le_mul_of_nonneg_left h1 h.le
      have h4 : p i * (q i / p i - 1) = q i - p i := by field_simp
      linarith
  have : ∑ i, (p i - q i) ≤ ∑ i, p i * Real.log (p i / q i) :=
    Finset.sum_le_sum fun i _ => key i
  rw [Finset.sum_sub_distrib, hp1, hq1] at this
  simpa [Spec.KL] using this

theorem TV_nonneg (p q : Fin n → ℝ) : 0 ≤ Spec.TV p q := by
  unfold Spec.TV
  have : 0 ≤ ∑ i, |p i - q i| := Finset.sum_nonneg fun i _ => abs_nonneg _
  linarith

theorem TV_le_one {p q : Fin n → ℝ} (hp : ∀ i, 0 ≤ p i) (hp1 : ∑ i, p i = 1)
    (hq : ∀ i, 0 ≤ q i) (hq1 : ∑ i, q i = 1) : Spec.TV p q ≤ 1 := by
  unfold Spec.TV
  have : ∑ i, |p i - q i| ≤ ∑ i, (p i + q i) :=
    Finset.sum_le_sum fun i _ => by
      rw [abs_le]; constructor <;> linarith [hp i, hq i]
  rw [Finset.sum_add_distrib, hp1, hq1] at this
  linarith

theorem sum_sqrt_mul_le_one {p q : Fin n → ℝ} (hp : ∀ i, 0 ≤ p i) (hp1 : ∑ i, p i = 1)
    (hq : ∀ i, 0 ≤ q i) (hq1 : ∑ i, q i = 1) : ∑ i, Real.sqrt (p i * q i) ≤ 1 := by
  have : ∑ i, Real.sqrt (p i * q i) ≤ ∑ i, (p i + q i) / 2 :=
    Finset.sum_le_sum fun i _ => by
      rw [Real.sqrt_le_left (by linarith [hp i, hq i])]
      nlinarith [sq_nonneg (p i - q i)]
  rw [← Finset.sum_div, Finset.sum_add_distrib, hp1, hq1] at this
  linarith

theorem H2_nonneg {p q : Fin n → ℝ} (hp : ∀ i, 0 ≤ p i) (hp1 : ∑ i, p i = 1)
    (hq : ∀ i, 0 ≤ q i) (hq1 : ∑ i, q i = 1) : 0 ≤ Spec.H2 p q := by
  unfold Spec.H2
  linarith [sum_sqrt_mul_le_one hp hp1 hq hq1]

theorem H2_le_one (p q : Fin n → ℝ) : Spec.H2 p q ≤ 1 := by
  unfold Spec.H2
  have : 0 ≤ ∑ i, Real.sqrt (p i * q i) := Finset.sum_nonneg fun i _ => Real.sqrt_nonneg _
  linarith

theorem chi2_nonneg {p q : Fin n → ℝ} (hq : ∀ i, 0 ≤ q i) : 0 ≤ Spec.chi2 p q :=
  Finset.sum_nonneg fun i _ => div_nonneg (sq_nonneg _) (hq i)

theorem MMD_nonneg (κ : Fin n → Fin n → ℝ) (p q : Fin n → ℝ) : 0 ≤ Spec.MMD κ p q :=
  Real.sqrt_nonneg _

theorem pi_nonneg {P : Fin n → Fin K → ℝ} (hP : ∀ i k, 0 ≤ P i k) (k : Fin K) : 0 ≤ Spec.pi P k :=
  div_nonneg (Finset.sum_nonneg fun i _ => hP i k) (Nat.cast_nonneg n)

theorem pi_pos' (hn : 0 < n) {P : Fin n → Fin K → ℝ} (hP : ∀ i k, 0 < P i k) (k : Fin K) :
    0 < Spec.pi P k := by
  have : Nonempty (Fin n) := ⟨⟨0, hn⟩⟩
  exact div_pos (Finset.sum_pos (fun i _ => hP i k) Finset.univ_nonempty) (by exact_mod_cast hn)

theorem pi_zero_of_n (P : Fin 0 → Fin K → ℝ) (k : Fin K) : Spec.pi P k = 0 := by
  simp [Spec.pi]

theorem cond_pos' (hn : 0 < n) {P : Fin n → Fin K → ℝ} (hP : ∀ i k, 0 < P i k) (k : Fin K) (i : Fin n) :
    0 < Spec.cond P k i :=
  div_pos (hP i k) (mul_pos (by exact_mod_cast hn) (pi_pos' hn hP k))

theorem cond_sum' (hn : 0 < n) {P : Fin n → Fin K → ℝ} (hP : ∀ i k, 0 < P i k) (k : Fin K) :
    ∑ i, Spec.cond P k i = 1 := by
  have hnR : (0 : ℝ) < n := by exact_mod_cast hn
  have hπ := pi_pos' hn hP k
  simp only [Spec.cond]
  rw [← Finset.sum_div]
  have : ∑ i, P i k = n * Spec.pi P k := by unfold Spec.pi; field_simp
  rw [this]
  exact div_self (mul_pos hnR hπ).ne'

theorem unif_pos' (hn : 0 < n) (i : Fin n) : 0 < Spec.unif n i := by
  have hnR : (0 : ℝ) < n := by exact_mod_cast hn
  simp only [Spec.unif]; positivity

theorem unif_sum' (hn : 0 < n) : ∑ i, Spec.unif n i = 1 := by
  have hnR : (0 : ℝ) < n := by exact_mod_cast hn
  simp [Spec.unif, hnR.ne']

theorem sum_pi' (hn : 0 < n) {P : Fin n → Fin K → ℝ} (hrow : ∀ i, ∑ k, P i k = 1) :
    ∑ k, Spec.pi P k = 1 := by
  have hnR : (0 : ℝ) < n := by exact_mod_cast hn
  simp only [Spec.pi]
  rw [← Finset.sum_div, Finset.sum_comm]
  simp [hrow, hnR.ne']

/-- The hypotheses under which the bounds on a distance `D` are stated: first argument a
    probability vector, second argument a positive probability vector. -/
def BoundedBelow (D : (Fin n → ℝ) → (Fin n → ℝ) → ℝ) : Prop :=
  ∀ p q : Fin n → ℝ, (∀ i, 0 < p i) → ∑ i, p i = 1 → (∀ i, 0 < q i) → ∑ i, q i = 1 → 0 ≤ D p q

def BoundedAbove (D : (Fin n → ℝ) → (Fin n → ℝ) → ℝ) : Prop :=
  ∀ p q : Fin n → ℝ, (∀ i, 0 < p i) → ∑ i, p i = 1 → (∀ i, 0 < q i) → ∑ i, q i = 1 → D p q ≤ 1

theorem ova_nonneg_of {D : (Fin n → ℝ) → (Fin n → ℝ) → ℝ} (hD : BoundedBelow D)
    {P : Fin n → Fin K → ℝ} (hP : ∀ i k, 0 < P i k) : 0 ≤ Spec.ova D P := by
  rcases Nat.eq_zero_or_pos n with rfl | hn
  · simp [Spec.ova, pi_zero_of_n]
  · exact Finset.sum_nonneg fun k _ => mul_nonneg (pi_pos' hn hP k).le
      (hD _ _ (cond_pos' hn hP k) (cond_sum' hn hP k) (unif_pos' hn) (unif_sum' hn))

theorem ovo_nonneg_of {D : (Fin n → ℝ) → (Fin n → ℝ) → ℝ} (hD : BoundedBelow D)
    {P : Fin n → Fin K → ℝ} (hP : ∀ i k, 0 < P i k) : 0 ≤ Spec.ovo D P := by
  rcases Nat.eq_zero_or_pos n with rfl | hn
  · simp [Spec.ovo, pi_zero_of_n]
  · exact Finset.sum_nonneg fun a _ => Finset.sum_nonneg fun b _ =>
      mul_nonneg (mul_nonneg (pi_pos' hn hP a).le (pi_pos' hn hP b).le)
      (hD _ _ (cond_pos' hn hP a) (cond_sum' hn hP a) (cond_pos' hn hP b) (cond_sum' hn hP b))

theorem ova_le_one_of {D : (Fin n → ℝ) → (Fin n → ℝ) → ℝ} (hD : BoundedAbove D)
    {P : Fin n → Fin K → ℝ} (hP : ∀ i k, 0 < P i k) (hrow : ∀ i, ∑ k, P i k = 1) :
    Spec.ova D P ≤ 1 := by
  rcases Nat.eq_zero_or_pos n with rfl | hn
  · simp [Spec.ova, pi_zero_of_n]
  · calc Spec.ova D P ≤ ∑ k, Spec.pi P k * 1 :=
          Finset.sum_le_sum fun k _ => mul_le_mul_of_nonneg_left
            (hD _ _ (cond_pos' hn hP k) (cond_sum' hn hP k) (unif_pos' hn) (unif_sum' hn))
            (pi_pos' hn hP k).le
      _ = 1 := by simp [sum_pi' hn hrow]

theorem ovo_le_one_of {D : (Fin n → ℝ) → (Fin n → ℝ) → ℝ} (hD : BoundedAbove D)
    {P : Fin n → Fin K → ℝ} (hP : ∀ i k, 0 < P i k) (hrow : ∀ i, ∑ k, P i k = 1) :
    Spec.ovo D P ≤ 1 := by
  rcases Nat.eq_zero_or_pos n with rfl | hn
  · simp [Spec.ovo, pi_zero_of_n]
  · calc Spec.ovo D P ≤ ∑ a, ∑ b, Spec.pi P a * Spec.pi P b * 1 :=
          Finset.sum_le_sum fun a _ => Finset.sum_le_sum fun b _ => mul_le_mul_of_nonneg_left
            (hD _ _ (cond_pos' hn hP a) (cond_sum' hn hP a) (cond_pos' hn hP b) (cond_sum' hn hP b))
            (mul_nonneg (pi_pos' hn hP a).le (pi_pos' hn hP b).le)
      _ = (∑ a, Spec.pi P a) * ∑ b, Spec.pi P b := by
          simp only [mul_one]; rw [Finset.sum_mul_sum]
      _ = 1 := by simp [sum_pi' hn hrow]

/-! ### Predictions that do not depend on the sample -/

theorem clipP_indep {ε : ℝ} {P : Fin n → Fin K → ℝ} (h : ∀ i j k, P i k = P j k) :
    ∀ i j k, clipP ε P i k = clipP ε P j k := by
  intro i j k; simp only [clipP]; rw [h i j k]

theorem indep_eq_const (hn : 0 < n) {p : Fin n → Fin K → ℝ} (h : ∀ i j k, p i k = p j k) :
    p = fun _ k => p ⟨0, hn⟩ k := by
  funext i k; exact h i _ k

theorem mean0_const (hn : 0 < n) (c : Fin K → ℝ) : mean0 (fun (_ : Fin n) k => c k) = c := by
  have hnR : (n : ℝ) ≠ 0 := by exact_mod_cast hn.ne'
  funext k; simp [mean0, hnR]

theorem meanV_const (hn : 0 < n) (x : ℝ) : meanV (fun _ : Fin n => x) = x := by
  have hnR : (n : ℝ) ≠ 0 := by exact_mod_cast hn.ne'
  simp [meanV, hnR]

theorem klScore_indep (ε : ℝ) (ovo : Bool) {P : Fin n → Fin K → ℝ} (h : ∀ i j k, P i k = P j k) :
    klScore ε ovo P = 0 := by
  rcases Nat.eq_zero_or_pos n with rfl | hn
  · cases ovo <;> simp [klScore, mean0, meanV]
  · cases ovo <;>
    · simp only [klScore]
      rw [indep_eq_const hn (clipP_indep (ε := ε) h)]
      generalize clipP ε P ⟨0, hn⟩ = c
      simp [mean0_const hn, meanV_const hn]

theorem tvScore_indep (ε : ℝ) (ovo : Bool) {P : Fin n → Fin K → ℝ} (h : ∀ i j k, P i k = P j k) :
    tvScore ε ovo P = 0 := by
  rcases Nat.eq_zero_or_pos n with rfl | hn
  · cases ovo <;> simp [tvScore, mean0, meanV]
  · cases ovo <;>
    · simp only [tvScore]
      rw [indep_eq_const hn (clipP_indep (ε := ε) h)]
      generalize clipP ε P ⟨0, hn⟩ = c
      have hc : ∀ a b, c a * c b - c b * c a = 0 := fun a b => by ring
      simp [mean0_const hn, meanV_const hn, hc]

theorem hellingerScore_indep (hn : 0 < n) {ε : ℝ} (hε : 0 ≤ ε) (ovo : Bool) {P : Fin n → Fin K → ℝ}
    (hI : Interior ε P) (hrow : ∀ i, ∑ k, P i k = 1) (h : ∀ i j k, P i k = P j k) :
    hellingerScore ε ovo P = 0 := by
  have hc0 : ∀ k, 0 ≤ P ⟨0, hn⟩ k := fun k => le_trans hε (hI _ k).1.le
  have hs : ∑ k, P ⟨0, hn⟩ k = 1 := hrow _
  cases ovo <;>
  · simp only [hellingerScore, clipP_of_interior hI]
    rw [indep_eq_const hn h]
    generalize P ⟨0, hn⟩ = c at hc0 hs
    simp [mean0_const hn, meanV_const hn, Real.sqrt_mul_self (hc0 _), hs, RealLike.sq]

theorem chi2Score_indep (hn : 0 < n) {ε : ℝ} (hε : 0 ≤ ε) (ovo : Bool) {P : Fin n → Fin K → ℝ}
    (hI : Interior ε P) (hrow : ∀ i, ∑ k, P i k = 1) (h : ∀ i j k, P i k = P j k) :
    chi2Score ε ovo P = 1 / 2 := by
  have hc0 : ∀ k, P ⟨0, hn⟩ k ≠ 0 := fun k => (lt_of_le_of_lt hε (hI _ k).1).ne'
  have hs : ∑ k, P ⟨0, hn⟩ k = 1 := hrow _
  cases ovo <;>
  · simp only [chi2Score, clipP_of_interior hI]
    rw [indep_eq_const hn h]
    generalize P ⟨0, hn⟩ = c at hc0 hs
    simp [mean0_const hn, meanV_const hn, hc0, hs]

theorem mmdScore_indep (ε : ℝ) (ovo : Bool) {P : Fin n → Fin K → ℝ} (κ : Fin n → Fin n → ℝ)
    (h : ∀ i j k, P i k = P j k) :
    mmdScore ε ovo P κ = 0 := by
  rcases Nat.eq_zero_or_pos n with rfl | hn
  · cases ovo <;> simp [mmdScore, mean0]
  · cases ovo
    · simp only [mmdScore, mmdDeltaOva, mmdGamma, mmdAlpha]
      rw [indep_eq_const hn (clipP_indep (ε := ε) h)]
      generalize clipP ε P ⟨0, hn⟩ = c
      simp only [mean0_const hn, tab_apply, tab2_apply, sumFin_eq_sum, Bool.false_eq_true, if_false]
      refine Finset.sum_eq_zero fun k _ => ?_
      by_cases hk : c k = 0
      · simp [hk]
      · have : c k / c k = 1 := div_self hk
        simp only [this, mul_one, one_mul]
        rw [show ∀ x : ℝ, x + x - RealLike.nat 2 * x = 0 from fun x => by simp; ring]
        simp
    · simp only [mmdScore, mmdDeltaOvo, mmdGamma, mmdAlpha]
      rw [indep_eq_const hn (clipP_indep (ε := ε) h)]
      generalize clipP ε P ⟨0, hn⟩ = c
      simp only [mean0_const hn, tab_apply, tab2_apply, sumFin_eq_sum, if_true]
      refine Finset.sum_eq_zero fun b _ => ?_
      by_cases hb : c b = 0
      · simp [hb]
      · have h1 : c b / c b = 1 := div_self hb
        rw [Finset.sum_eq_zero, zero_mul]
        intro a _
        by_cases ha : c a = 0
        · simp [ha]
        · have h2 : c a / c a = 1 := div_self ha
          simp only [h1, h2, mul_one, one_mul]
          rw [show ∀ x : ℝ, -RealLike.nat 2 * x + x + x = 0 from fun x => by simp; ring]
          simp

/-! ### Balanced hard partition -/

theorem mi_balanced (hn : 0 < n) (hK : 0 < K) (hdvd : K ∣ n) (lab : Fin n → Fin K)
    (hbal : ∀ k, (Finset.univ.filter (fun i => lab i = k)).card = n / K) :
    Spec.ova Spec.KL (fun i k => if lab i = k then (1:ℝ) else 0) = Real.log K := by
  obtain ⟨m, rfl⟩ := hdvd
  have hm : 0 < m := Nat.pos_of_mul_pos_left hn
  have hdiv : K * m / K = m := Nat.mul_div_cancel_left m hK
  simp only [hdiv] at hbal
  have hKR : (0 : ℝ) < K := by exact_mod_cast hK
  have hmR : (0 : ℝ) < m := by exact_mod_cast hm
  have hsum : ∀ k, ∑ i, (if lab i = k then (1:ℝ) else 0) = m := by
    intro k; rw [Finset.sum_boole, hbal k]
  have hpi : ∀ k, Spec.pi (fun i k => if lab i = k then (1:ℝ) else 0) k = 1 / K := by
    intro k; simp only [Spec.pi, hsum]; push_cast; field_simp
  simp only [Spec.ova, hpi, Spec.KL, Spec.cond, Spec.unif]
  have hterm : ∀ k, ∑ i, (if lab i = k then (1:ℝ) else 0) / (↑(K*m) * (1/(K:ℝ))) *
      Real.log ((if lab i = k then (1:ℝ) else 0) / (↑(K*m) * (1/(K:ℝ))) / (1 / ↑(K*m))) = Real.log K := by
    intro k
    have h1 : ∀ i, (if lab i = k then (1:ℝ) else 0) / (↑(K*m) * (1/(K:ℝ))) *
      Real.log ((if lab i = k then (1:ℝ) else 0) / (↑(K*m) * (1/(K:ℝ))) / (1 / ↑(K*m)))
        = (if lab i = k then (1:ℝ) else 0) * (Real.log K / m) := by
      intro i
      split_ifs
      · have : (1:ℝ) / (↑(K*m) * (1/(K:ℝ))) / (1 / ↑(K*m)) = K := by push_cast; field_simp
        rw [this]; push_cast; field_simp
      · simp
    simp_rw [h1]
    rw [← Finset.sum_mul, hsum]; field_simp
  simp_rw [hterm]
  simp; field_simp

/-! ### Appending an empty cluster -/

/-- `P` with an extra last column of zeros (an empty cluster). -/
def addEmpty (P : Fin n → Fin K → ℝ) : Fin n → Fin (K + 1) → ℝ := fun i => Fin.snoc (P i) 0

@[simp] theorem addEmpty_castSucc (P : Fin n → Fin K → ℝ) (i : Fin n) (k : Fin K) :
    addEmpty P i k.castSucc = P i k := by simp [addEmpty]

@[simp] theorem addEmpty_last (P : Fin n → Fin K → ℝ) (i : Fin n) :
    addEmpty P i (Fin.last K) = 0 := by simp [addEmpty]

theorem clipP_addEmpty_castSucc (ε : ℝ) (P : Fin n → Fin K → ℝ) (i : Fin n) (k : Fin K) :
    clipP ε (addEmpty P) i k.castSucc = clipP ε P i k := by simp [clipP]

theorem clipP_addEmpty_last (ε : ℝ) (P : Fin n → Fin K → ℝ) (i : Fin n) :
    clipP ε (addEmpty P) i (Fin.last K) = RealLike.clip 0 ε (1 - ε) := by simp [clipP]

theorem mean0_addEmpty_castSucc (ε : ℝ) (P : Fin n → Fin K → ℝ) (k : Fin K) :
    mean0 (clipP ε (addEmpty P)) k.castSucc = mean0 (clipP ε P) k := by
  simp [mean0, clipP_addEmpty_castSucc]

theorem mean0_addEmpty_last (hn : 0 < n) (ε : ℝ) (P : Fin n → Fin K → ℝ) :
    mean0 (clipP ε (addEmpty P)) (Fin.last K) = RealLike.clip 0 ε (1 - ε) := by
  have hnR : (n : ℝ) ≠ 0 := by exact_mod_cast hn.ne'
  simp [mean0, clipP_addEmpty_last, hnR]

theorem clipMask_addEmpty_last {ε : ℝ} (hε : 0 ≤ ε) (P : Fin n → Fin K → ℝ) (i : Fin n) :
    clipMask ε (addEmpty P) i (Fin.last K) = 0 := by
  simp [clipMask, RealLike.ofBool, not_lt.mpr hε]

theorem klScore_addEmpty (ε : ℝ) (ovo : Bool) (P : Fin n → Fin K → ℝ) :
    klScore ε ovo (addEmpty P) = klScore ε ovo P := by
  rcases Nat.eq_zero_or_pos n with rfl | hn
  · cases ovo <;> simp [klScore, mean0, meanV]
  · cases ovo <;>
    simp [klScore, Fin.sum_univ_castSucc, clipP_addEmpty_castSucc, clipP_addEmpty_last,
      mean0_addEmpty_castSucc, mean0_addEmpty_last hn, meanV_const hn]

theorem tvScore_ova_addEmpty (ε : ℝ) (P : Fin n → Fin K → ℝ) :
    tvScore ε false (addEmpty P) = tvScore ε false P := by
  rcases Nat.eq_zero_or_pos n with rfl | hn
  · simp [tvScore, mean0, meanV]
  · simp [tvScore, Fin.sum_univ_castSucc, clipP_addEmpty_castSucc, clipP_addEmpty_last,
      mean0_addEmpty_castSucc, mean0_addEmpty_last hn, meanV_const hn]

theorem clip_zero {ε : ℝ} (h0 : 0 ≤ ε) (h1 : ε ≤ 1 / 2) : RealLike.clip 0 ε (1 - ε) = ε := by
  rw [RealLike.clip_real, max_eq_right h0, min_eq_left (by linarith)]

theorem hellingerScore_ova_addEmpty (hn : 0 < n) {ε : ℝ} (h0 : 0 ≤ ε) (h1 : ε ≤ 1 / 2)
    (P : Fin n → Fin K → ℝ) :
    hellingerScore ε false (addEmpty P) = hellingerScore ε false P - ε := by
  have hnR : (n : ℝ) ≠ 0 := by exact_mod_cast hn.ne'
  simp only [hellingerScore, Fin.sum_univ_castSucc, clipP_addEmpty_castSucc, clipP_addEmpty_last,
      mean0_addEmpty_castSucc, mean0_addEmpty_last hn, clip_zero h0 h1, tab_apply, meanV_eq,
      sumFin_eq_sum, Bool.false_eq_true, if_false, RealLike.sqrt_real, Real.sqrt_mul_self h0,
      Finset.sum_add_distrib, Finset.sum_const, Finset.card_univ, Fintype.card_fin, nsmul_eq_mul]
  field_simp
  ring

theorem chi2Score_ova_addEmpty (hn : 0 < n) {ε : ℝ} (h0 : 0 < ε) (h1 : ε ≤ 1 / 2)
    (P : Fin n → Fin K → ℝ) :
    chi2Score ε false (addEmpty P) = chi2Score ε false P + ε / 2 := by
  have hnR : (n : ℝ) ≠ 0 := by exact_mod_cast hn.ne'
  simp only [chi2Score, Fin.sum_univ_castSucc, clipP_addEmpty_castSucc, clipP_addEmpty_last,
      mean0_addEmpty_castSucc, mean0_addEmpty_last hn, clip_zero h0.le h1, tab_apply, meanV_eq,
      sumFin_eq_sum, Bool.false_eq_true, if_false, div_self h0.ne', mul_one, RealLike.half_real,
      Finset.sum_add_distrib, Finset.sum_const, Finset.card_univ, Fintype.card_fin, nsmul_eq_mul]
  field_simp

theorem tvScore_ovo_addEmpty {ε : ℝ} (h0 : 0 ≤ ε) (h1 : ε ≤ 1 / 2) (P : Fin n → Fin K → ℝ) :
    tvScore ε true (addEmpty P) = tvScore ε true P + 2 * ε * tvScore ε false P := by
  rcases Nat.eq_zero_or_pos n with rfl | hn
  · simp [tvScore, mean0, meanV]
  · have hnR : (n : ℝ) ≠ 0 := by exact_mod_cast hn.ne'
    have e1 : ∀ x y : ℝ, |x * ε - ε * y| = ε * |y - x| := fun x y => by
      rw [show x * ε - ε * y = ε * (x - y) by ring, abs_mul, abs_of_nonneg h0, abs_sub_comm]
    have e2 : ∀ x y : ℝ, |ε * y - x * ε| = ε * |y - x| := fun x y => by
      rw [show ε * y - x * ε = ε * (y - x) by ring, abs_mul, abs_of_nonneg h0]
    simp only [tvScore, Fin.sum_univ_castSucc, clipP_addEmpty_castSucc, clipP_addEmpty_last,
      mean0_addEmpty_castSucc, mean0_addEmpty_last hn, clip_zero h0 h1, tab_apply, meanV_eq,
      sumFin_eq_sum, Bool.false_eq_true, if_false, if_true, RealLike.abs_real, RealLike.half_real,
      e1, e2, sub_self, abs_zero, Finset.sum_const_zero, zero_div, add_zero,
      Finset.sum_add_distrib, ← Finset.mul_sum, ← Finset.sum_div, mul_div_assoc]
    ring

theorem mmdScore_ova_addEmpty (ε : ℝ) (P : Fin n → Fin K → ℝ) (κ : Fin n → Fin n → ℝ) :
    mmdScore ε false (addEmpty P) κ = mmdScore ε false P κ := by
  rcases Nat.eq_zero_or_pos n with rfl | hn
  · simp [mmdScore, mean0]
  · simp only [mmdScore, mmdDeltaOva, mmdGamma, mmdAlpha, tab_apply, tab2_apply, sumFin_eq_sum,
      Bool.false_eq_true, if_false, Fin.sum_univ_castSucc, clipP_addEmpty_castSucc,
      clipP_addEmpty_last, mean0_addEmpty_castSucc, mean0_addEmpty_last hn]
    generalize RealLike.clip 0 ε (1 - ε) = e
    rw [add_eq_left]
    by_cases he : e = 0
    · simp [he]
    · simp only [div_self he, mul_one, one_mul]
      rw [show ∀ x : ℝ, x + x - RealLike.nat 2 * x = 0 from fun x => by simp; ring]
      simp

theorem hellingerScore_ovo_addEmpty (hn : 0 < n) {ε : ℝ} (h0 : 0 ≤ ε) (h1 : ε ≤ 1 / 2)
    (P : Fin n → Fin K → ℝ) :
    hellingerScore ε true (addEmpty P)
      = hellingerScore ε true P - 2 * ε * (1 - hellingerScore ε false P) - ε ^ 2 := by
  have hnR : (n : ℝ) ≠ 0 := by exact_mod_cast hn.ne'
  simp only [hellingerScore, Fin.sum_univ_castSucc, clipP_addEmpty_castSucc, clipP_addEmpty_last,
      mean0_addEmpty_castSucc, mean0_addEmpty_last hn, clip_zero h0 h1, tab_apply, meanV_eq,
      sumFin_eq_sum, Bool.false_eq_true, if_false, if_true, RealLike.sqrt_real, Real.sqrt_mul_self h0,
      RealLike.sq_real, add_sq, Finset.sum_add_distrib, Finset.sum_const, Finset.card_univ,
      Fintype.card_fin, nsmul_eq_mul, ← Finset.sum_mul, ← Finset.mul_sum]
  field_simp
  ring

theorem chi2Score_ovo_addEmpty (hn : 0 < n) {ε : ℝ} (h0 : 0 < ε) (h1 : ε ≤ 1 / 2)
    (P : Fin n → Fin K → ℝ) :
    chi2Score ε true (addEmpty P)
      = chi2Score ε true P + ε * chi2Score ε false P
        + ε / 2 * meanV (fun i => sumFin fun k =>
            mean0 (clipP ε P) k / (clipP ε P i k / mean0 (clipP ε P) k))
        + ε ^ 2 / 2 := by
  have hnR : (n : ℝ) ≠ 0 := by exact_mod_cast hn.ne'
  simp only [chi2Score, Fin.sum_univ_castSucc, clipP_addEmpty_castSucc, clipP_addEmpty_last,
      mean0_addEmpty_castSucc, mean0_addEmpty_last hn, clip_zero h0.le h1, tab_apply, meanV_eq,
      sumFin_eq_sum, Bool.false_eq_true, if_false, if_true, div_self h0.ne', mul_one, div_one,
      RealLike.half_real, add_mul, mul_add, Finset.sum_add_distrib, Finset.sum_const, Finset.card_univ,
      Fintype.card_fin, nsmul_eq_mul, ← Finset.sum_mul, ← Finset.mul_sum]
  field_simp
  ring

theorem mmdScore_ovo_addEmpty {ε : ℝ} (h0 : 0 ≤ ε) (h1 : ε ≤ 1 / 2)
    (P : Fin n → Fin K → ℝ) (κ : Fin n → Fin n → ℝ) (hκ : ∀ i j, κ i j = κ j i) :
    mmdScore ε true (addEmpty P) κ = mmdScore ε true P κ + 2 * ε * mmdScore ε false P κ := by
  rcases Nat.eq_zero_or_pos n with rfl | hn
  · simp [mmdScore, mean0]
  · simp only [mmdScore, mmdDeltaOvo, mmdDeltaOva, mmdGamma, mmdAlpha, tab_apply, tab2_apply, sumFin_eq_sum,
      Bool.false_eq_true, if_false, if_true, Fin.sum_univ_castSucc, clipP_addEmpty_castSucc,
      clipP_addEmpty_last, mean0_addEmpty_castSucc, mean0_addEmpty_last hn, clip_zero h0 h1]
    rcases h0.eq_or_lt with rfl | hpos
    · simp
    · simp only [div_self hpos.ne', mul_one, one_mul]
      generalize clipP ε P = p
      generalize mean0 p = py
      have h6 : ∀ s : ℝ, -RealLike.nat 2 * s + s + s = 0 := fun s => by simp; ring
      have h2 : ∀ f : Fin n → ℝ, ∑ i, f i * ∑ j, κ i j / (RealLike.nat n * RealLike.nat n)
          = ∑ i, ∑ j, κ i j / (RealLike.nat n * RealLike.nat n) * f j := fun f => by
        simp only [Finset.mul_sum]
        rw [Finset.sum_comm]
        refine Finset.sum_congr rfl fun i _ => Finset.sum_congr rfl fun j _ => ?_
        rw [hκ j i]; ring
      have h4 : ∀ a b c : ℝ, a + b - RealLike.nat 2 * c = -RealLike.nat 2 * c + a + b :=
        fun a b c => by ring
      simp only [h6, h2, h4, max_self, RealLike.max_real, RealLike.sqrt_real, Real.sqrt_zero, mul_zero, add_zero]
      generalize (∑ x, ∑ x_1, κ x x_1 / (RealLike.nat n * RealLike.nat n)) = S
      have h5 : ∀ t o : ℝ, -RealLike.nat 2 * t + S + o = -RealLike.nat 2 * t + o + S :=
        fun t o => by ring
      simp only [h5]
      rw [Finset.mul_sum, Finset.sum_mul, ← Finset.sum_add_distrib, ← Finset.sum_add_distrib]
      refine Finset.sum_congr rfl fun x _ => ?_
      ring

/-- The gradient column of an appended empty cluster is zero (its mask is zero). -/
theorem klGrad_addEmpty_last {ε : ℝ} (hε : 0 ≤ ε) (ovo : Bool) (P : Fin n → Fin K → ℝ) (i : Fin n) :
    klGrad ε ovo (addEmpty P) i (Fin.last K) = 0 := by
  simp only [klGrad, clipMask_addEmpty_last hε, mul_zero]

theorem tvGrad_addEmpty_last {ε : ℝ} (hε : 0 ≤ ε) (ovo : Bool) (P : Fin n → Fin K → ℝ) (i : Fin n) :
    tvGrad ε ovo (addEmpty P) i (Fin.last K) = 0 := by
  cases ovo <;> simp only [tvGrad, clipMask_addEmpty_last hε, mul_zero, Bool.false_eq_true, if_false, if_true]

theorem hellingerGrad_addEmpty_last {ε : ℝ} (hε : 0 ≤ ε) (ovo : Bool) (P : Fin n → Fin K → ℝ) (i : Fin n) :
    hellingerGrad ε ovo (addEmpty P) i (Fin.last K) = 0 := by
  cases ovo <;>
  simp only [hellingerGrad, clipMask_addEmpty_last hε, mul_zero, Bool.false_eq_true, if_false, if_true]

theorem chi2Grad_addEmpty_last {ε : ℝ} (hε : 0 ≤ ε) (ovo : Bool) (P : Fin n → Fin K → ℝ) (i : Fin n) :
    chi2Grad ε ovo (addEmpty P) i (Fin.last K) = 0 := by
  cases ovo <;>
  simp only [chi2Grad, clipMask_addEmpty_last hε, mul_zero, Bool.false_eq_true, if_false, if_true]

theorem mmdGrad_addEmpty_last {ε : ℝ} (hε : 0 ≤ ε) (ovo : Bool) (P : Fin n → Fin K → ℝ)
    (κ : Fin n → Fin n → ℝ) (i : Fin n) :
    mmdGrad ε ovo (addEmpty P) κ i (Fin.last K) = 0 := by
  cases ovo <;>
  simp only [mmdGrad, clipMask_addEmpty_last hε, mul_zero, Bool.false_eq_true, if_false, if_true]

/-! ### Guards on the closed simplex -/

theorem clipP_mem {ε : ℝ} (h1 : ε ≤ 1 / 2) (P : Fin n → Fin K → ℝ) (i : Fin n) (k : Fin K) :
    ε ≤ clipP ε P i k ∧ clipP ε P i k ≤ 1 - ε := by
  simp only [clipP, RealLike.clip_real]
  refine ⟨le_min (le_max_right _ _) (by linarith), min_le_right _ _⟩

theorem mean0_mem (hn : 0 < n) {ε : ℝ} {p : Fin n → Fin K → ℝ}
    (hp : ∀ i k, ε ≤ p i k ∧ p i k ≤ 1 - ε) (k : Fin K) :
    ε ≤ mean0 p k ∧ mean0 p k ≤ 1 - ε := by
  have hnR : (0 : ℝ) < n := by exact_mod_cast hn
  simp only [mean0, sumFin_eq_sum, RealLike.nat_real]
  have hlo : (n : ℝ) * ε ≤ ∑ i, p i k := by
    have := Finset.sum_le_sum (s := Finset.univ) fun i _ => (hp i k).1
    simpa using this
  have hhi : ∑ i, p i k ≤ (n : ℝ) * (1 - ε) := by
    have := Finset.sum_le_sum (s := Finset.univ) fun i _ => (hp i k).2
    simpa [mul_sub] using this
  constructor
  · rw [le_div_iff₀ hnR]; linarith
  · rw [div_le_iff₀ hnR]; linarith

end GemVerif.C13
