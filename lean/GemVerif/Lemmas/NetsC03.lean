/-
  Helper lemmas for C03 (the hand-written back-propagation is the exact parameter gradient).
  Everything is proved along arbitrary differentiable parameter CURVES `t ↦ θ t` (entrywise `HasDerivAt` at `t₀`);
  the property theorems in `Props/C03.lean` specialise to lines `θ + t·E` at `t₀ = 0`.
-/
import GemVerif.Model.Nets
import GemVerif.NumReal
import GemVerif.Lemmas.GeminiC02
import Mathlib.Analysis.SpecialFunctions.ExpDeriv

namespace GemVerif
open scoped BigOperators Topology
open Model.Nets Filter

variable {n m d h K : ℕ}

set_option linter.unusedSimpArgs false

/-! ### soft-max: closed form and basic facts -/

/-- Over ℝ the max-subtraction of `sklearn.utils.extmath.softmax` cancels. -/
theorem softmaxRow_eq (z : Fin K → ℝ) (k : Fin K) :
    softmaxRow z k = Real.exp (z k) / ∑ c, Real.exp (z c) := by
  have hpos : 0 < ∑ c, Real.exp (z c) :=
    Finset.sum_pos (fun _ _ => Real.exp_pos _) ⟨k, Finset.mem_univ k⟩
  simp only [softmaxRow, tab_apply, sumFin_eq_sum, RealLike.exp_real]
  generalize rowMax z = m
  simp only [Real.exp_sub, ← Finset.sum_div]
  have := (Real.exp_pos m).ne'
  field_simp

theorem sum_exp_pos (z : Fin K → ℝ) (k : Fin K) : 0 < ∑ c, Real.exp (z c) :=
  Finset.sum_pos (fun _ _ => Real.exp_pos _) ⟨k, Finset.mem_univ k⟩

theorem softmaxRow_pos (z : Fin K → ℝ) (k : Fin K) : 0 < softmaxRow z k := by
  rw [softmaxRow_eq]
  exact div_pos (Real.exp_pos _) (sum_exp_pos z k)

theorem softmaxRow_sum (z : Fin K → ℝ) (hK : 0 < K) : ∑ k, softmaxRow z k = 1 := by
  simp only [softmaxRow_eq, ← Finset.sum_div]
  exact div_self (sum_exp_pos z ⟨0, hK⟩).ne'

theorem softmaxRow_lt_one (z : Fin K → ℝ) (k : Fin K) (hK : 1 < K) : softmaxRow z k < 1 := by
  rw [← softmaxRow_sum z (by omega)]
  obtain ⟨c, hc⟩ : ∃ c : Fin K, c ≠ k := by
    by_cases hk : k.val = 0
    · exact ⟨⟨1, hK⟩, fun h => by have := congrArg Fin.val h; simp at this; omega⟩
    · exact ⟨⟨0, by omega⟩, fun h => by have := congrArg Fin.val h; simp at this; omega⟩
  rw [← Finset.add_sum_erase _ _ (Finset.mem_univ k)]
  have : 0 < ∑ x ∈ Finset.univ.erase k, softmaxRow z x :=
    Finset.sum_pos (fun x _ => softmaxRow_pos z x) ⟨c, by simp [hc]⟩
  linarith

/-! ### the soft-max Jacobian, paired with an arbitrary `g`, along an arbitrary curve of logits -/

/-- `tauHat` for one row -/
theorem tauHat_apply (y g : Fin n → Fin K → ℝ) (i : Fin n) (k : Fin K) :
    tauHat y g i k = y i k * (g i k - ∑ c, y i c * g i c) := by
  simp [tauHat]

/-- Chain rule through one soft-max row: if every logit `u · k` is differentiable at `t₀` with derivative `v k`, then
    `t ↦ ∑ k, g k * softmax(u t) k` has derivative `∑ l, y l * (g l - ∑ k, y k * g k) * v l`, `y = softmax(u t₀)`. -/
theorem hasDerivAt_softmaxRow_pairing {u : ℝ → Fin K → ℝ} {v : Fin K → ℝ} {t₀ : ℝ}
    (hu : ∀ k, HasDerivAt (fun t => u t k) (v k) t₀) (g : Fin K → ℝ) :
    HasDerivAt (fun t => ∑ k, g k * softmaxRow (u t) k)
      (∑ l, softmaxRow (u t₀) l * (g l - ∑ k, softmaxRow (u t₀) k * g k) * v l) t₀ := by
  rcases Nat.eq_zero_or_pos K with rfl | hK
  · simpa using hasDerivAt_const t₀ (0 : ℝ)
  have hD : ∀ t, 0 < ∑ c, Real.exp (u t c) := fun t => sum_exp_pos (u t) ⟨0, hK⟩
  have hfun : (fun t => ∑ k, g k * softmaxRow (u t) k)
      = fun t => (∑ k, g k * Real.exp (u t k)) / ∑ c, Real.exp (u t c) := by
    funext t; simp only [softmaxRow_eq, Finset.sum_div, mul_div_assoc]
  rw [hfun]
  have hN : HasDerivAt (fun t => ∑ k, g k * Real.exp (u t k))
      (∑ k, g k * (Real.exp (u t₀ k) * v k)) t₀ :=
    HasDerivAt.fun_sum fun k _ => ((hu k).exp).const_mul (g k)
  have hDn : HasDerivAt (fun t => ∑ c, Real.exp (u t c)) (∑ c, Real.exp (u t₀ c) * v c) t₀ :=
    HasDerivAt.fun_sum fun c _ => (hu c).exp
  refine (hN.fun_div hDn (hD t₀).ne').congr_deriv ?_
  simp only [softmaxRow_eq]
  have hD0 := (hD t₀).ne'
  obtain ⟨e, he⟩ : ∃ e : Fin K → ℝ, ∀ k, e k = Real.exp (u t₀ k) := ⟨_, fun _ => rfl⟩
  simp only [← he] at hD0 ⊢
  have e1 : ∑ k, e k / (∑ c, e c) * g k = (∑ k, g k * e k) / ∑ c, e c := by
    rw [Finset.sum_div]; exact Finset.sum_congr rfl fun k _ => by ring
  rw [e1]
  have e2 : ∀ N D : ℝ, ∑ l, e l / D * (g l - N / D) * v l
      = (∑ l, g l * (e l * v l)) / D - N / D * ((∑ c, e c * v c) / D) := fun N D => by
    rw [Finset.sum_div, Finset.sum_div, Finset.mul_sum, ← Finset.sum_sub_distrib]
    exact Finset.sum_congr rfl fun l _ => by ring
  rw [e2]
  generalize (∑ c, e c) = D at *
  field_simp

/-- `softmax_jacobian`, coordinate form: `∑ k, g k * ∂ softmax(z) k / ∂ z l = y l * (g l - ∑ k, y k * g k)`. -/
theorem softmax_jacobian (z g : Fin K → ℝ) (l : Fin K) :
    HasDerivAt (fun t => ∑ k, g k * softmaxRow (Function.update z l t) k)
      (softmaxRow z l * (g l - ∑ k, softmaxRow z k * g k)) (z l) := by
  have hu : ∀ k, HasDerivAt (fun t => Function.update z l t k) (if k = l then 1 else 0) (z l) := fun k => by
    by_cases hk : k = l
    · subst hk; simpa using hasDerivAt_id' (z k)
    · simpa [Function.update_of_ne hk, hk] using hasDerivAt_const (z l) (z k)
  have := hasDerivAt_softmaxRow_pairing hu g
  simpa using this

/-- Chain rule through a whole prediction matrix: rows of logits `Z t i`, pulled back by `tauHat`. -/
theorem hasDerivAt_softmax_rows {Z : ℝ → Fin n → Fin K → ℝ} {Z' : Fin n → Fin K → ℝ} {t₀ : ℝ}
    (hZ : ∀ i k, HasDerivAt (fun t => Z t i k) (Z' i k) t₀) (g : Fin n → Fin K → ℝ) :
    HasDerivAt (fun t => ∑ i, ∑ k, g i k * softmaxRow (Z t i) k)
      (∑ i, ∑ k, tauHat (fun i => softmaxRow (Z t₀ i)) g i k * Z' i k) t₀ := by
  simp only [tauHat_apply]
  exact HasDerivAt.fun_sum fun i _ => hasDerivAt_softmaxRow_pairing (hZ i) (g i)

/-! ### layers over ℝ -/

theorem affine_apply (X : Fin n → Fin d → ℝ) (W : Fin d → Fin K → ℝ) (b : Fin K → ℝ) (i : Fin n) (k : Fin K) :
    affine X W b i k = ∑ j, X i j * W j k + b k := by
  simp [affine]

theorem hidden_apply (X : Fin n → Fin d → ℝ) (W1 : Fin d → Fin h → ℝ) (b1 : Fin h → ℝ) (i : Fin n) (j : Fin h) :
    hidden X W1 b1 i j = max (affine X W1 b1 i j) 0 := rfl

theorem linearInfer_row (X : Fin n → Fin d → ℝ) (W : Fin d → Fin K → ℝ) (b : Fin K → ℝ) (i : Fin n) :
    linearInfer X W b i = softmaxRow (affine X W b i) := rfl

theorem sparseMlpInfer_row (X : Fin n → Fin d → ℝ) (W1 : Fin d → Fin h → ℝ) (b1 : Fin h → ℝ)
    (W2 : Fin h → Fin K → ℝ) (b2 : Fin K → ℝ) (Ws : Fin d → Fin K → ℝ) (i : Fin n) :
    sparseMlpInfer X W1 b1 W2 b2 Ws i
      = softmaxRow fun k => affine (hidden X W1 b1) W2 b2 i k + ∑ a, X i a * Ws a k := by
  simp only [sparseMlpInfer, tab2_coe, sumFin_eq_sum]

/-- the MLP is the sparse MLP with a zero skip connection -/
theorem mlpInfer_eq_sparse (X : Fin n → Fin d → ℝ) (W1 : Fin d → Fin h → ℝ) (b1 : Fin h → ℝ)
    (W2 : Fin h → Fin K → ℝ) (b2 : Fin K → ℝ) :
    mlpInfer X W1 b1 W2 b2 = sparseMlpInfer X W1 b1 W2 b2 (fun _ _ => 0) := by
  funext i
  rw [sparseMlpInfer_row]
  simp [mlpInfer, tab2_coe]

theorem linearGradW_apply (X : Fin n → Fin d → ℝ) (y g : Fin n → Fin K → ℝ) (j : Fin d) (k : Fin K) :
    linearGradW X y g j k = -(∑ i, X i j * tauHat y g i k) := by
  simp [linearGradW]

theorem linearGradB_apply (y g : Fin n → Fin K → ℝ) (k : Fin K) :
    linearGradB y g k = -(∑ i, tauHat y g i k) := by
  simp [linearGradB]

/-- back-propagated signal `(tau @ W2.T) * (H > 0)` -/
noncomputable def bpSignal (H : Fin n → Fin h → ℝ) (W2 : Fin h → Fin K → ℝ) (τ : Fin n → Fin K → ℝ) :
    Fin n → Fin h → ℝ :=
  fun i j => (∑ k, τ i k * W2 j k) * RealLike.ofBool (RealLike.lt 0 (H i j))

theorem mlpGrads_W1 (X : Fin n → Fin d → ℝ) (H : Fin n → Fin h → ℝ) (W2 : Fin h → Fin K → ℝ)
    (y g : Fin n → Fin K → ℝ) (a : Fin d) (j : Fin h) :
    (mlpGrads X H W2 y g).W1 a j = -(∑ i, X i a * bpSignal H W2 (tauHat y g) i j) := by
  simp [mlpGrads, bpSignal]

theorem mlpGrads_b1 (X : Fin n → Fin d → ℝ) (H : Fin n → Fin h → ℝ) (W2 : Fin h → Fin K → ℝ)
    (y g : Fin n → Fin K → ℝ) (j : Fin h) :
    (mlpGrads X H W2 y g).b1 j = -(∑ i, bpSignal H W2 (tauHat y g) i j) := by
  simp [mlpGrads, bpSignal]

theorem mlpGrads_W2 (X : Fin n → Fin d → ℝ) (H : Fin n → Fin h → ℝ) (W2 : Fin h → Fin K → ℝ)
    (y g : Fin n → Fin K → ℝ) (j : Fin h) (k : Fin K) :
    (mlpGrads X H W2 y g).W2 j k = -(∑ i, H i j * tauHat y g i k) := by
  simp [mlpGrads]

theorem mlpGrads_b2 (X : Fin n → Fin d → ℝ) (H : Fin n → Fin h → ℝ) (W2 : Fin h → Fin K → ℝ)
    (y g : Fin n → Fin K → ℝ) (k : Fin K) :
    (mlpGrads X H W2 y g).b2 k = -(∑ i, tauHat y g i k) := by
  simp [mlpGrads]

theorem mlpGrads_Ws (X : Fin n → Fin d → ℝ) (H : Fin n → Fin h → ℝ) (W2 : Fin h → Fin K → ℝ)
    (y g : Fin n → Fin K → ℝ) (a : Fin d) (k : Fin K) :
    (mlpGrads X H W2 y g).Ws a k = -(∑ i, X i a * tauHat y g i k) := by
  simp [mlpGrads]

/-! ### derivatives of the layers along curves -/

/-- an affine layer whose input, weights and bias all move -/
theorem hasDerivAt_affine {Xc : ℝ → Fin n → Fin d → ℝ} {X' : Fin n → Fin d → ℝ}
    {Wc : ℝ → Fin d → Fin K → ℝ} {W' : Fin d → Fin K → ℝ} {bc : ℝ → Fin K → ℝ} {b' : Fin K → ℝ} {t₀ : ℝ}
    (hX : ∀ i j, HasDerivAt (fun t => Xc t i j) (X' i j) t₀)
    (hW : ∀ j k, HasDerivAt (fun t => Wc t j k) (W' j k) t₀)
    (hb : ∀ k, HasDerivAt (fun t => bc t k) (b' k) t₀) (i : Fin n) (k : Fin K) :
    HasDerivAt (fun t => affine (Xc t) (Wc t) (bc t) i k)
      (∑ j, (X' i j * Wc t₀ j k + Xc t₀ i j * W' j k) + b' k) t₀ := by
  simp only [affine_apply]
  exact (HasDerivAt.fun_sum fun j _ => (hX i j).fun_mul (hW j k)).fun_add (hb k)

/-- an affine layer with a fixed input -/
theorem hasDerivAt_affine_const (X : Fin n → Fin d → ℝ)
    {Wc : ℝ → Fin d → Fin K → ℝ} {W' : Fin d → Fin K → ℝ} {bc : ℝ → Fin K → ℝ} {b' : Fin K → ℝ} {t₀ : ℝ}
    (hW : ∀ j k, HasDerivAt (fun t => Wc t j k) (W' j k) t₀)
    (hb : ∀ k, HasDerivAt (fun t => bc t k) (b' k) t₀) (i : Fin n) (k : Fin K) :
    HasDerivAt (fun t => affine X (Wc t) (bc t) i k) (∑ j, X i j * W' j k + b' k) t₀ := by
  simpa using hasDerivAt_affine (Xc := fun _ => X) (X' := fun _ _ => 0)
    (fun i j => hasDerivAt_const t₀ (X i j)) hW hb i k

/-- `max(·, 0)` away from the kink, with the mask written as the code writes it (`H > 0`) -/
theorem hasDerivAt_relu {f : ℝ → ℝ} {f' x : ℝ} (hf : HasDerivAt f f' x) (h : f x ≠ 0) :
    HasDerivAt (fun y => max (f y) 0) (RealLike.ofBool (RealLike.lt 0 (max (f x) 0)) * f') x := by
  rcases lt_or_gt_of_ne h with hneg | hpos
  · have hm : max (f x) 0 = 0 := max_eq_right hneg.le
    have : HasDerivAt (fun _ : ℝ => (0 : ℝ)) (RealLike.ofBool (RealLike.lt 0 (max (f x) 0)) * f') x := by
      simpa [hm, RealLike.ofBool] using hasDerivAt_const x (0 : ℝ)
    exact this.congr_of_eventuallyEq
      ((hf.continuousAt.eventually (gt_mem_nhds hneg)).mono fun _ hy => max_eq_right (le_of_lt hy))
  · have hm : max (f x) 0 = f x := max_eq_left hpos.le
    simpa [hm, RealLike.ofBool, hpos] using hasDerivAt_max_zero hf hpos

/-- the hidden layer, at a point where no pre-activation vanishes -/
theorem hasDerivAt_hidden (X : Fin n → Fin d → ℝ)
    {W1c : ℝ → Fin d → Fin h → ℝ} {E1 : Fin d → Fin h → ℝ} {b1c : ℝ → Fin h → ℝ} {e1 : Fin h → ℝ} {t₀ : ℝ}
    (hW1 : ∀ a j, HasDerivAt (fun t => W1c t a j) (E1 a j) t₀)
    (hb1 : ∀ j, HasDerivAt (fun t => b1c t j) (e1 j) t₀)
    (hact : ∀ i j, affine X (W1c t₀) (b1c t₀) i j ≠ 0) (i : Fin n) (j : Fin h) :
    HasDerivAt (fun t => hidden X (W1c t) (b1c t) i j)
      (RealLike.ofBool (RealLike.lt 0 (hidden X (W1c t₀) (b1c t₀) i j)) * (∑ a, X i a * E1 a j + e1 j)) t₀ :=
  hasDerivAt_relu (hasDerivAt_affine_const X hW1 hb1 i j) (hact i j)

/-! ### re-indexing the pulled-back sums -/

theorem pull_W (τ : Fin n → Fin K → ℝ) (X : Fin n → Fin d → ℝ) (E : Fin d → Fin K → ℝ) :
    ∑ i, ∑ k, τ i k * ∑ j, X i j * E j k = ∑ j, ∑ k, (∑ i, X i j * τ i k) * E j k := by
  simp only [Finset.mul_sum, Finset.sum_mul]
  calc ∑ i, ∑ k, ∑ j, τ i k * (X i j * E j k)
      = ∑ i, ∑ j, ∑ k, τ i k * (X i j * E j k) := Finset.sum_congr rfl fun i _ => Finset.sum_comm
    _ = ∑ j, ∑ i, ∑ k, τ i k * (X i j * E j k) := Finset.sum_comm
    _ = ∑ j, ∑ k, ∑ i, τ i k * (X i j * E j k) := Finset.sum_congr rfl fun j _ => Finset.sum_comm
    _ = _ := Finset.sum_congr rfl fun j _ => Finset.sum_congr rfl fun k _ =>
        Finset.sum_congr rfl fun i _ => by ring

theorem pull_b (τ : Fin n → Fin K → ℝ) (e : Fin K → ℝ) :
    ∑ i, ∑ k, τ i k * e k = ∑ k, (∑ i, τ i k) * e k := by
  rw [Finset.sum_comm]
  exact Finset.sum_congr rfl fun k _ => by rw [Finset.sum_mul]

theorem pull_H (τ : Fin n → Fin K → ℝ) (M : Fin n → Fin h → ℝ) (W2 : Fin h → Fin K → ℝ) :
    ∑ i, ∑ k, τ i k * ∑ j, M i j * W2 j k = ∑ i, ∑ j, (∑ k, τ i k * W2 j k) * M i j := by
  refine Finset.sum_congr rfl fun i _ => ?_
  simp only [Finset.mul_sum, Finset.sum_mul]
  rw [Finset.sum_comm]
  exact Finset.sum_congr rfl fun j _ => Finset.sum_congr rfl fun k _ => by ring

/-! ### linear family along curves -/

/-- LinearModel: `[-X.T @ tau, -tau.sum(0)]` is minus the gradient of `⟨g, infer⟩`, along any curve of `(W, b)`. -/
theorem linear_hasDerivAt_curve (X : Fin n → Fin d → ℝ)
    {Wc : ℝ → Fin d → Fin K → ℝ} {E : Fin d → Fin K → ℝ} {bc : ℝ → Fin K → ℝ} {e : Fin K → ℝ} {t₀ : ℝ}
    (hW : ∀ j k, HasDerivAt (fun t => Wc t j k) (E j k) t₀)
    (hb : ∀ k, HasDerivAt (fun t => bc t k) (e k) t₀) (g : Fin n → Fin K → ℝ) :
    HasDerivAt (fun t => ∑ i, ∑ k, g i k * linearInfer X (Wc t) (bc t) i k)
      (∑ j, ∑ k, -(linearGradW X (linearInfer X (Wc t₀) (bc t₀)) g j k) * E j k
        + ∑ k, -(linearGradB (linearInfer X (Wc t₀) (bc t₀)) g k) * e k) t₀ := by
  simp only [linearInfer_row]
  refine (hasDerivAt_softmax_rows (fun i k => hasDerivAt_affine_const X hW hb i k) g).congr_deriv ?_
  simp only [linearGradW_apply, linearGradB_apply, neg_neg, mul_add, Finset.sum_add_distrib, pull_W, pull_b]
  rfl

/-- CategoricalModel: `[-tau]` is minus the gradient of `⟨g, softmax(logits)⟩`. -/
theorem categorical_hasDerivAt_curve {Lc : ℝ → Fin n → Fin K → ℝ} {E : Fin n → Fin K → ℝ} {t₀ : ℝ}
    (hL : ∀ i k, HasDerivAt (fun t => Lc t i k) (E i k) t₀) (g : Fin n → Fin K → ℝ) :
    HasDerivAt (fun t => ∑ i, ∑ k, g i k * categoricalInfer (Lc t) i k)
      (∑ i, ∑ k, -(categoricalGrad (categoricalInfer (Lc t₀)) g i k) * E i k) t₀ := by
  simp only [categoricalInfer, categoricalGrad, neg_neg]
  exact hasDerivAt_softmax_rows hL g

/-- the l2 penalty of RIM -/
theorem hasDerivAt_sq_penalty {Wc : ℝ → Fin d → Fin K → ℝ} {E : Fin d → Fin K → ℝ} {t₀ : ℝ}
    (hW : ∀ j k, HasDerivAt (fun t => Wc t j k) (E j k) t₀) :
    HasDerivAt (fun t => ∑ j, ∑ k, Wc t j k ^ 2) (∑ j, ∑ k, 2 * Wc t₀ j k * E j k) t₀ :=
  HasDerivAt.fun_sum fun j _ => HasDerivAt.fun_sum fun k _ => by
    simpa using (hW j k).fun_pow 2

/-- the kernel-weighted l2 penalty `tr(Wᵀ κ W)` of KernelRIM, for a symmetric kernel -/
theorem hasDerivAt_kernel_penalty (κ : Fin n → Fin n → ℝ) (hκ : ∀ j l, κ j l = κ l j)
    {Wc : ℝ → Fin n → Fin K → ℝ} {E : Fin n → Fin K → ℝ} {t₀ : ℝ}
    (hW : ∀ j k, HasDerivAt (fun t => Wc t j k) (E j k) t₀) :
    HasDerivAt (fun t => ∑ k, ∑ j, ∑ l, Wc t j k * κ j l * Wc t l k)
      (∑ j, ∑ k, 2 * (∑ l, κ j l * Wc t₀ l k) * E j k) t₀ := by
  have h := HasDerivAt.fun_sum (u := Finset.univ) fun k _ => HasDerivAt.fun_sum (u := Finset.univ) fun j _ =>
    HasDerivAt.fun_sum (u := Finset.univ) fun l _ => ((hW j k).mul_const (κ j l)).fun_mul (hW l k)
  refine h.congr_deriv ?_
  have hB : ∑ k, ∑ j, ∑ l, Wc t₀ j k * κ j l * E l k = ∑ k, ∑ j, ∑ l, E j k * κ j l * Wc t₀ l k := by
    refine Finset.sum_congr rfl fun k _ => ?_
    rw [Finset.sum_comm]
    refine Finset.sum_congr rfl fun j _ => Finset.sum_congr rfl fun l _ => ?_
    rw [hκ l j]; ring
  simp only [Finset.sum_add_distrib, hB]
  rw [Finset.sum_comm (f := fun j k => 2 * (∑ l, κ j l * Wc t₀ l k) * E j k)]
  simp only [Finset.mul_sum, Finset.sum_mul, ← Finset.sum_add_distrib]
  exact Finset.sum_congr rfl fun k _ => Finset.sum_congr rfl fun j _ => Finset.sum_congr rfl fun l _ => by ring

theorem rimGradW_apply (reg : ℝ) (X : Fin n → Fin d → ℝ) (W : Fin d → Fin K → ℝ) (y g : Fin n → Fin K → ℝ)
    (j : Fin d) (k : Fin K) : rimGradW reg X W y g j k = linearGradW X y g j k + reg * 2 * W j k := by
  simp [rimGradW]

theorem kernelRimGradW_apply (reg : ℝ) (κ : Fin n → Fin n → ℝ) (Xb : Fin m → Fin n → ℝ) (W : Fin n → Fin K → ℝ)
    (y g : Fin m → Fin K → ℝ) (j : Fin n) (k : Fin K) :
    kernelRimGradW reg κ Xb W y g j k = linearGradW Xb y g j k + 2 * reg * ∑ l, κ j l * W l k := by
  simp [kernelRimGradW]

/-- RIM: after `_update_weights` the direction is minus the gradient of `⟨g, infer⟩ - reg * ‖W‖²`. -/
theorem rim_hasDerivAt_curve (reg : ℝ) (X : Fin n → Fin d → ℝ)
    {Wc : ℝ → Fin d → Fin K → ℝ} {E : Fin d → Fin K → ℝ} {bc : ℝ → Fin K → ℝ} {e : Fin K → ℝ} {t₀ : ℝ}
    (hW : ∀ j k, HasDerivAt (fun t => Wc t j k) (E j k) t₀)
    (hb : ∀ k, HasDerivAt (fun t => bc t k) (e k) t₀) (g : Fin n → Fin K → ℝ) :
    HasDerivAt (fun t => (∑ i, ∑ k, g i k * linearInfer X (Wc t) (bc t) i k) - reg * ∑ j, ∑ k, Wc t j k ^ 2)
      (∑ j, ∑ k, -(rimGradW reg X (Wc t₀) (linearInfer X (Wc t₀) (bc t₀)) g j k) * E j k
        + ∑ k, -(linearGradB (linearInfer X (Wc t₀) (bc t₀)) g k) * e k) t₀ := by
  refine ((linear_hasDerivAt_curve X hW hb g).fun_sub ((hasDerivAt_sq_penalty hW).const_mul reg)).congr_deriv ?_
  simp only [rimGradW_apply]
  generalize linearGradW X (linearInfer X (Wc t₀) (bc t₀)) g = LG
  have e1 : ∑ j, ∑ k, -(LG j k + reg * 2 * Wc t₀ j k) * E j k
      = ∑ j, ∑ k, -(LG j k) * E j k - reg * ∑ j, ∑ k, 2 * Wc t₀ j k * E j k := by
    simp only [Finset.mul_sum, ← Finset.sum_sub_distrib]
    exact Finset.sum_congr rfl fun j _ => Finset.sum_congr rfl fun k _ => by ring
  rw [e1]
  ring

/-- KernelRIM: the direction is minus the gradient of `⟨g, infer⟩ - reg * tr(Wᵀ κ W)` (symmetric `κ`), whatever
    rows `Xb` of the kernel form the batch. -/
theorem kernelRim_hasDerivAt_curve (reg : ℝ) (κ : Fin n → Fin n → ℝ) (hκ : ∀ j l, κ j l = κ l j)
    (Xb : Fin m → Fin n → ℝ)
    {Wc : ℝ → Fin n → Fin K → ℝ} {E : Fin n → Fin K → ℝ} {bc : ℝ → Fin K → ℝ} {e : Fin K → ℝ} {t₀ : ℝ}
    (hW : ∀ j k, HasDerivAt (fun t => Wc t j k) (E j k) t₀)
    (hb : ∀ k, HasDerivAt (fun t => bc t k) (e k) t₀) (g : Fin m → Fin K → ℝ) :
    HasDerivAt (fun t => (∑ i, ∑ k, g i k * linearInfer Xb (Wc t) (bc t) i k)
        - reg * ∑ k, ∑ j, ∑ l, Wc t j k * κ j l * Wc t l k)
      (∑ j, ∑ k, -(kernelRimGradW reg κ Xb (Wc t₀) (linearInfer Xb (Wc t₀) (bc t₀)) g j k) * E j k
        + ∑ k, -(linearGradB (linearInfer Xb (Wc t₀) (bc t₀)) g k) * e k) t₀ := by
  refine ((linear_hasDerivAt_curve Xb hW hb g).fun_sub
    ((hasDerivAt_kernel_penalty κ hκ hW).const_mul reg)).congr_deriv ?_
  simp only [kernelRimGradW_apply]
  generalize linearGradW Xb (linearInfer Xb (Wc t₀) (bc t₀)) g = LG
  have e1 : ∑ j, ∑ k, -(LG j k + 2 * reg * ∑ l, κ j l * Wc t₀ l k) * E j k
      = ∑ j, ∑ k, -(LG j k) * E j k - reg * ∑ j, ∑ k, 2 * (∑ l, κ j l * Wc t₀ l k) * E j k := by
    rw [Finset.mul_sum, ← Finset.sum_sub_distrib]
    refine Finset.sum_congr rfl fun j _ => ?_
    rw [Finset.mul_sum, ← Finset.sum_sub_distrib]
    exact Finset.sum_congr rfl fun k _ => by ring
  rw [e1]
  ring

/-! ### MLP family along curves -/

/-- Output layer of the (sparse) MLP fed by an arbitrary differentiable hidden curve `Hc`. -/
theorem sparse_output_hasDerivAt_curve (X : Fin n → Fin d → ℝ)
    {Hc : ℝ → Fin n → Fin h → ℝ} {H' : Fin n → Fin h → ℝ}
    {W2c : ℝ → Fin h → Fin K → ℝ} {E2 : Fin h → Fin K → ℝ} {b2c : ℝ → Fin K → ℝ} {e2 : Fin K → ℝ}
    {Wsc : ℝ → Fin d → Fin K → ℝ} {Es : Fin d → Fin K → ℝ} {t₀ : ℝ}
    (hH : ∀ i j, HasDerivAt (fun t => Hc t i j) (H' i j) t₀)
    (hW2 : ∀ j k, HasDerivAt (fun t => W2c t j k) (E2 j k) t₀)
    (hb2 : ∀ k, HasDerivAt (fun t => b2c t k) (e2 k) t₀)
    (hWs : ∀ a k, HasDerivAt (fun t => Wsc t a k) (Es a k) t₀)
    (g y : Fin n → Fin K → ℝ)
    (hy : ∀ i, y i = softmaxRow fun k => affine (Hc t₀) (W2c t₀) (b2c t₀) i k + ∑ a, X i a * Wsc t₀ a k) :
    HasDerivAt
      (fun t => ∑ i, ∑ k, g i k *
        softmaxRow (fun k => affine (Hc t) (W2c t) (b2c t) i k + ∑ a, X i a * Wsc t a k) k)
      (∑ i, ∑ j, (∑ k, tauHat y g i k * W2c t₀ j k) * H' i j
        + ∑ j, ∑ k, (∑ i, Hc t₀ i j * tauHat y g i k) * E2 j k
        + ∑ k, (∑ i, tauHat y g i k) * e2 k
        + ∑ a, ∑ k, (∑ i, X i a * tauHat y g i k) * Es a k) t₀ := by
  have hZ : ∀ i k, HasDerivAt (fun t => affine (Hc t) (W2c t) (b2c t) i k + ∑ a, X i a * Wsc t a k)
      (∑ j, (H' i j * W2c t₀ j k + Hc t₀ i j * E2 j k) + e2 k + ∑ a, X i a * Es a k) t₀ := fun i k =>
    (hasDerivAt_affine hH hW2 hb2 i k).fun_add (HasDerivAt.fun_sum fun a _ => (hWs a k).const_mul (X i a))
  have hy' : y = fun i => softmaxRow fun k => affine (Hc t₀) (W2c t₀) (b2c t₀) i k + ∑ a, X i a * Wsc t₀ a k :=
    funext hy
  refine (hasDerivAt_softmax_rows (Z := fun t i k => affine (Hc t) (W2c t) (b2c t) i k + ∑ a, X i a * Wsc t a k)
    hZ g).congr_deriv ?_
  simp only [← hy']
  simp only [Finset.sum_add_distrib, mul_add]
  rw [pull_H (tauHat y g) H' (W2c t₀), pull_W (tauHat y g) (Hc t₀) E2, pull_b, pull_W (tauHat y g) X Es]

theorem pull_hidden (S M : Fin n → Fin h → ℝ) (X : Fin n → Fin d → ℝ) (E1 : Fin d → Fin h → ℝ) (e1 : Fin h → ℝ) :
    ∑ i, ∑ j, S i j * (M i j * (∑ a, X i a * E1 a j + e1 j))
      = ∑ a, ∑ j, (∑ i, X i a * (S i j * M i j)) * E1 a j + ∑ j, (∑ i, S i j * M i j) * e1 j := by
  have h1 := pull_W (fun i j => S i j * M i j) X E1
  have h2 := pull_b (fun i j => S i j * M i j) e1
  rw [← h1, ← h2, ← Finset.sum_add_distrib]
  refine Finset.sum_congr rfl fun i _ => ?_
  rw [← Finset.sum_add_distrib]
  exact Finset.sum_congr rfl fun j _ => by ring

/-- SparseMLPModel, output-side parameters (`W2, b2, W_skip`): no differentiability condition is needed. -/
theorem sparse_outer_hasDerivAt_curve (X : Fin n → Fin d → ℝ) (W1 : Fin d → Fin h → ℝ) (b1 : Fin h → ℝ)
    {W2c : ℝ → Fin h → Fin K → ℝ} {E2 : Fin h → Fin K → ℝ} {b2c : ℝ → Fin K → ℝ} {e2 : Fin K → ℝ}
    {Wsc : ℝ → Fin d → Fin K → ℝ} {Es : Fin d → Fin K → ℝ} {t₀ : ℝ}
    (hW2 : ∀ j k, HasDerivAt (fun t => W2c t j k) (E2 j k) t₀)
    (hb2 : ∀ k, HasDerivAt (fun t => b2c t k) (e2 k) t₀)
    (hWs : ∀ a k, HasDerivAt (fun t => Wsc t a k) (Es a k) t₀) (g : Fin n → Fin K → ℝ) :
    HasDerivAt (fun t => ∑ i, ∑ k, g i k * sparseMlpInfer X W1 b1 (W2c t) (b2c t) (Wsc t) i k)
      (∑ j, ∑ k, -((mlpGrads X (hidden X W1 b1) (W2c t₀)
            (sparseMlpInfer X W1 b1 (W2c t₀) (b2c t₀) (Wsc t₀)) g).W2 j k) * E2 j k
        + ∑ k, -((mlpGrads X (hidden X W1 b1) (W2c t₀)
            (sparseMlpInfer X W1 b1 (W2c t₀) (b2c t₀) (Wsc t₀)) g).b2 k) * e2 k
        + ∑ a, ∑ k, -((mlpGrads X (hidden X W1 b1) (W2c t₀)
            (sparseMlpInfer X W1 b1 (W2c t₀) (b2c t₀) (Wsc t₀)) g).Ws a k) * Es a k) t₀ := by
  simp only [sparseMlpInfer_row X W1 b1]
  have h := sparse_output_hasDerivAt_curve X (Hc := fun _ => hidden X W1 b1) (H' := fun _ _ => 0)
    (fun i j => hasDerivAt_const t₀ _) hW2 hb2 hWs g
    (sparseMlpInfer X W1 b1 (W2c t₀) (b2c t₀) (Wsc t₀)) (fun i => sparseMlpInfer_row X W1 b1 _ _ _ i)
  refine h.congr_deriv ?_
  simp only [mlpGrads_W2, mlpGrads_b2, mlpGrads_Ws, neg_neg, mul_zero, Finset.sum_const_zero, zero_add]

/-- SparseMLPModel, all five parameters at once, at a point where no pre-activation is 0. -/
theorem sparse_hasDerivAt_curve (X : Fin n → Fin d → ℝ)
    {W1c : ℝ → Fin d → Fin h → ℝ} {E1 : Fin d → Fin h → ℝ} {b1c : ℝ → Fin h → ℝ} {e1 : Fin h → ℝ}
    {W2c : ℝ → Fin h → Fin K → ℝ} {E2 : Fin h → Fin K → ℝ} {b2c : ℝ → Fin K → ℝ} {e2 : Fin K → ℝ}
    {Wsc : ℝ → Fin d → Fin K → ℝ} {Es : Fin d → Fin K → ℝ} {t₀ : ℝ}
    (hW1 : ∀ a j, HasDerivAt (fun t => W1c t a j) (E1 a j) t₀)
    (hb1 : ∀ j, HasDerivAt (fun t => b1c t j) (e1 j) t₀)
    (hW2 : ∀ j k, HasDerivAt (fun t => W2c t j k) (E2 j k) t₀)
    (hb2 : ∀ k, HasDerivAt (fun t => b2c t k) (e2 k) t₀)
    (hWs : ∀ a k, HasDerivAt (fun t => Wsc t a k) (Es a k) t₀)
    (hact : ∀ i j, affine X (W1c t₀) (b1c t₀) i j ≠ 0) (g : Fin n → Fin K → ℝ) :
    HasDerivAt (fun t => ∑ i, ∑ k, g i k * sparseMlpInfer X (W1c t) (b1c t) (W2c t) (b2c t) (Wsc t) i k)
      (∑ a, ∑ j, -((mlpGrads X (hidden X (W1c t₀) (b1c t₀)) (W2c t₀)
            (sparseMlpInfer X (W1c t₀) (b1c t₀) (W2c t₀) (b2c t₀) (Wsc t₀)) g).W1 a j) * E1 a j
        + ∑ j, -((mlpGrads X (hidden X (W1c t₀) (b1c t₀)) (W2c t₀)
            (sparseMlpInfer X (W1c t₀) (b1c t₀) (W2c t₀) (b2c t₀) (Wsc t₀)) g).b1 j) * e1 j
        + ∑ j, ∑ k, -((mlpGrads X (hidden X (W1c t₀) (b1c t₀)) (W2c t₀)
            (sparseMlpInfer X (W1c t₀) (b1c t₀) (W2c t₀) (b2c t₀) (Wsc t₀)) g).W2 j k) * E2 j k
        + ∑ k, -((mlpGrads X (hidden X (W1c t₀) (b1c t₀)) (W2c t₀)
            (sparseMlpInfer X (W1c t₀) (b1c t₀) (W2c t₀) (b2c t₀) (Wsc t₀)) g).b2 k) * e2 k
        + ∑ a, ∑ k, -((mlpGrads X (hidden X (W1c t₀) (b1c t₀)) (W2c t₀)
            (sparseMlpInfer X (W1c t₀) (b1c t₀) (W2c t₀) (b2c t₀) (Wsc t₀)) g).Ws a k) * Es a k) t₀ := by
  simp only [sparseMlpInfer_row X]
  have h := sparse_output_hasDerivAt_curve X (Hc := fun t => hidden X (W1c t) (b1c t))
    (hasDerivAt_hidden X hW1 hb1 hact) hW2 hb2 hWs g
    (sparseMlpInfer X (W1c t₀) (b1c t₀) (W2c t₀) (b2c t₀) (Wsc t₀)) (fun i => sparseMlpInfer_row X _ _ _ _ _ i)
  refine h.congr_deriv ?_
  simp only [mlpGrads_W1, mlpGrads_b1, mlpGrads_W2, mlpGrads_b2, mlpGrads_Ws, neg_neg, pull_hidden, bpSignal]

/-- MLPModel, output-side parameters (`W2, b2`): no differentiability condition is needed. -/
theorem mlp_outer_hasDerivAt_curve (X : Fin n → Fin d → ℝ) (W1 : Fin d → Fin h → ℝ) (b1 : Fin h → ℝ)
    {W2c : ℝ → Fin h → Fin K → ℝ} {E2 : Fin h → Fin K → ℝ} {b2c : ℝ → Fin K → ℝ} {e2 : Fin K → ℝ} {t₀ : ℝ}
    (hW2 : ∀ j k, HasDerivAt (fun t => W2c t j k) (E2 j k) t₀)
    (hb2 : ∀ k, HasDerivAt (fun t => b2c t k) (e2 k) t₀) (g : Fin n → Fin K → ℝ) :
    HasDerivAt (fun t => ∑ i, ∑ k, g i k * mlpInfer X W1 b1 (W2c t) (b2c t) i k)
      (∑ j, ∑ k, -((mlpGrads X (hidden X W1 b1) (W2c t₀) (mlpInfer X W1 b1 (W2c t₀) (b2c t₀)) g).W2 j k) * E2 j k
        + ∑ k, -((mlpGrads X (hidden X W1 b1) (W2c t₀) (mlpInfer X W1 b1 (W2c t₀) (b2c t₀)) g).b2 k) * e2 k) t₀ := by
  simp only [mlpInfer_eq_sparse]
  have h := sparse_outer_hasDerivAt_curve X W1 b1 (Wsc := fun _ _ _ => 0) (Es := fun _ _ => 0) hW2 hb2
    (fun _ _ => hasDerivAt_const t₀ _) g
  refine h.congr_deriv ?_
  simp only [mul_zero, Finset.sum_const_zero, add_zero]

/-- MLPModel, all four parameters at once, at a point where no pre-activation is 0. -/
theorem mlp_hasDerivAt_curve (X : Fin n → Fin d → ℝ)
    {W1c : ℝ → Fin d → Fin h → ℝ} {E1 : Fin d → Fin h → ℝ} {b1c : ℝ → Fin h → ℝ} {e1 : Fin h → ℝ}
    {W2c : ℝ → Fin h → Fin K → ℝ} {E2 : Fin h → Fin K → ℝ} {b2c : ℝ → Fin K → ℝ} {e2 : Fin K → ℝ} {t₀ : ℝ}
    (hW1 : ∀ a j, HasDerivAt (fun t => W1c t a j) (E1 a j) t₀)
    (hb1 : ∀ j, HasDerivAt (fun t => b1c t j) (e1 j) t₀)
    (hW2 : ∀ j k, HasDerivAt (fun t => W2c t j k) (E2 j k) t₀)
    (hb2 : ∀ k, HasDerivAt (fun t => b2c t k) (e2 k) t₀)
    (hact : ∀ i j, affine X (W1c t₀) (b1c t₀) i j ≠ 0) (g : Fin n → Fin K → ℝ) :
    HasDerivAt (fun t => ∑ i, ∑ k, g i k * mlpInfer X (W1c t) (b1c t) (W2c t) (b2c t) i k)
      (∑ a, ∑ j, -((mlpGrads X (hidden X (W1c t₀) (b1c t₀)) (W2c t₀)
            (mlpInfer X (W1c t₀) (b1c t₀) (W2c t₀) (b2c t₀)) g).W1 a j) * E1 a j
        + ∑ j, -((mlpGrads X (hidden X (W1c t₀) (b1c t₀)) (W2c t₀)
            (mlpInfer X (W1c t₀) (b1c t₀) (W2c t₀) (b2c t₀)) g).b1 j) * e1 j
        + ∑ j, ∑ k, -((mlpGrads X (hidden X (W1c t₀) (b1c t₀)) (W2c t₀)
            (mlpInfer X (W1c t₀) (b1c t₀) (W2c t₀) (b2c t₀)) g).W2 j k) * E2 j k
        + ∑ k, -((mlpGrads X (hidden X (W1c t₀) (b1c t₀)) (W2c t₀)
            (mlpInfer X (W1c t₀) (b1c t₀) (W2c t₀) (b2c t₀)) g).b2 k) * e2 k) t₀ := by
  simp only [mlpInfer_eq_sparse]
  have h := sparse_hasDerivAt_curve X (Wsc := fun _ _ _ => 0) (Es := fun _ _ => 0) hW1 hb1 hW2 hb2
    (fun _ _ => hasDerivAt_const t₀ _) hact g
  refine h.congr_deriv ?_
  simp only [mul_zero, Finset.sum_const_zero, add_zero]

/-! ### lines and single-entry perturbations -/

theorem hasDerivAt_lin (a b : ℝ) : HasDerivAt (fun t : ℝ => a + t * b) b 0 := by
  simpa using ((hasDerivAt_id' (0 : ℝ)).mul_const b).const_add a

/-- `W` with the single entry `(a, c)` moved by `t` -/
def bump2 {r s : ℕ} (W : Fin r → Fin s → ℝ) (a : Fin r) (c : Fin s) (t : ℝ) : Fin r → Fin s → ℝ :=
  Function.update W a (Function.update (W a) c (W a c + t))

/-- `b` with the single entry `c` moved by `t` -/
def bump1 {s : ℕ} (b : Fin s → ℝ) (c : Fin s) (t : ℝ) : Fin s → ℝ :=
  Function.update b c (b c + t)

theorem bump2_apply {r s : ℕ} (W : Fin r → Fin s → ℝ) (a : Fin r) (c : Fin s) (t : ℝ) (j : Fin r) (k : Fin s) :
    bump2 W a c t j k = W j k + t * (if j = a ∧ k = c then 1 else 0) := by
  unfold bump2
  by_cases hj : j = a
  · subst hj
    by_cases hk : k = c
    · subst hk; simp
    · simp [hk]
  · simp [hj]

theorem bump1_apply {s : ℕ} (b : Fin s → ℝ) (c : Fin s) (t : ℝ) (k : Fin s) :
    bump1 b c t k = b k + t * (if k = c then 1 else 0) := by
  unfold bump1
  by_cases hk : k = c
  · subst hk; simp
  · simp [hk]

@[simp] theorem bump2_zero {r s : ℕ} (W : Fin r → Fin s → ℝ) (a : Fin r) (c : Fin s) : bump2 W a c 0 = W := by
  funext j k; simp [bump2_apply]

@[simp] theorem bump1_zero {s : ℕ} (b : Fin s → ℝ) (c : Fin s) : bump1 b c 0 = b := by
  funext k; simp [bump1_apply]

theorem hasDerivAt_bump2 {r s : ℕ} (W : Fin r → Fin s → ℝ) (a : Fin r) (c : Fin s) (j : Fin r) (k : Fin s) :
    HasDerivAt (fun t => bump2 W a c t j k) (if j = a ∧ k = c then 1 else 0) 0 := by
  simp only [bump2_apply]
  exact hasDerivAt_lin _ _

theorem hasDerivAt_bump1 {s : ℕ} (b : Fin s → ℝ) (c : Fin s) (k : Fin s) :
    HasDerivAt (fun t => bump1 b c t k) (if k = c then 1 else 0) 0 := by
  simp only [bump1_apply]
  exact hasDerivAt_lin _ _

theorem sum_ind2 {r s : ℕ} (F : Fin r → Fin s → ℝ) (a : Fin r) (c : Fin s) :
    ∑ j, ∑ k, F j k * (if j = a ∧ k = c then 1 else 0) = F a c := by
  rw [Finset.sum_eq_single a (fun j _ hj => by simp [hj]) (fun h => absurd (Finset.mem_univ a) h),
    Finset.sum_eq_single c (fun k _ hk => by simp [hk]) (fun h => absurd (Finset.mem_univ c) h)]
  simp

theorem sum_ind1 {s : ℕ} (F : Fin s → ℝ) (c : Fin s) :
    ∑ k, F k * (if k = c then 1 else 0) = F c := by
  rw [Finset.sum_eq_single c (fun k _ hk => by simp [hk]) (fun h => absurd (Finset.mem_univ c) h)]
  simp

/-! ### the condition on the pre-activations cannot be dropped -/

/-- a function with non-zero slope composed with `max(·,0)` has a genuine kink at 0 -/
theorem not_differentiableAt_comp_relu {φ : ℝ → ℝ} {φ' : ℝ} (hφ : HasDerivAt φ φ' 0) (h0 : φ' ≠ 0) :
    ¬ DifferentiableAt ℝ (fun t : ℝ => φ (max t 0)) 0 := by
  intro hd
  have hD := hd.hasDerivAt
  have hr : HasDerivWithinAt (fun t : ℝ => φ (max t 0)) φ' (Set.Ici 0) 0 :=
    hφ.hasDerivWithinAt.congr (fun t ht => by simp [max_eq_left (Set.mem_Ici.mp ht)]) (by simp)
  have hl : HasDerivWithinAt (fun t : ℝ => φ (max t 0)) 0 (Set.Iic 0) 0 :=
    (hasDerivWithinAt_const (0 : ℝ) (Set.Iic 0) (φ 0)).congr
      (fun t ht => by simp [max_eq_right (Set.mem_Iic.mp ht)]) (by simp)
  have e1 := (uniqueDiffWithinAt_Ici (0 : ℝ)).eq_deriv _ hD.hasDerivWithinAt hr
  have e2 := (uniqueDiffWithinAt_Iic (0 : ℝ)).eq_deriv _ hD.hasDerivWithinAt hl
  exact h0 (e1 ▸ e2)

/-- a 1-sample, 1-feature, 1-hidden-unit, 2-cluster MLP whose pre-activation is 0: as a function of `W1` the
    objective `⟨g, infer⟩` is `exp(max t 0) / (exp(max t 0) + 1)` -/
theorem kink_example_eq (t : ℝ) :
    (∑ i : Fin 1, ∑ k : Fin 2, (if k = 0 then (1 : ℝ) else 0) *
      mlpInfer (fun _ _ => (1 : ℝ)) (bump2 (fun _ _ => (0 : ℝ)) (0 : Fin 1) (0 : Fin 1) t) (fun _ => 0)
        (fun _ k => if k = 0 then 1 else 0) (fun _ => 0) i k)
    = Real.exp (max t 0) / (Real.exp (max t 0) + 1) := by
  simp [mlpInfer_eq_sparse, sparseMlpInfer_row, softmaxRow_eq, affine_apply, hidden_apply, bump2_apply,
    Fin.sum_univ_two]

theorem kink_example_not_differentiable :
    ¬ DifferentiableAt ℝ (fun t : ℝ => Real.exp (max t 0) / (Real.exp (max t 0) + 1)) 0 := by
  have hφ : HasDerivAt (fun s : ℝ => Real.exp s / (Real.exp s + 1))
      ((Real.exp 0 * (Real.exp 0 + 1) - Real.exp 0 * Real.exp 0) / (Real.exp 0 + 1) ^ 2) 0 :=
    (Real.hasDerivAt_exp 0).fun_div ((Real.hasDerivAt_exp 0).add_const 1) (by positivity)
  exact not_differentiableAt_comp_relu hφ (by simp [Real.exp_zero])

end GemVerif
