/-
  Helper lemmas for C03 (the hand-written back-propagation is the exact parameter gradient).
  Everything is proved along arbitrary differentiable parameter CURVES `t ↦ θ t` (entrywise `HasDerivAt` at `t₀`);
  the property theorems in `Props/C03.lean` specialise to lines `θ + t·E` at `t₀ = 0`.
-/
import GemVerif.Model.Nets
import GemVerif.NumReal
import GemVerif.Lemmas.GeminiC02
import Mathlib.Analysis.SpecialFunctions.ExpDeriv

namespace GemVerif
open scoped BigOperators Topology
open Model.Nets Filter

variable {n m d h K : ℕ}

set_option linter.unusedSimpArgs false

/-! ### soft-max: closed form and basic facts -/

/-- Over ℝ the max-subtraction of `sklearn.utils.extmath.softmax` cancels. -/
theorem softmaxRow_eq (z : Fin K → ℝ) (k : Fin K) :
    softmaxRow z k = Real.exp (z k) / ∑ c, Real.exp (z c) := by
  have hpos : 0 < ∑ c, Real.exp (z c) :=
    Finset.sum_pos (fun _ _ => Real.exp_pos _) ⟨k, Finset.mem_univ k⟩
  simp only [softmaxRow, tab_apply, sumFin_eq_sum, RealLike.exp_real]
  generalize rowMax z = m
  simp only [Real.exp_sub, ← Finset.sum_div]
  have := (Real.exp_pos m).ne'
  field_simp

theorem sum_exp_pos (z : Fin K → ℝ) (k : Fin K) : 0 < ∑ c, Real.exp (z c) :=
  Finset.sum_pos (fun _ _ => Real.exp_pos _) ⟨k, Finset.mem_univ k⟩

theorem softmaxRow_pos (z : Fin K → ℝ) (k : Fin K) : 0 < softmaxRow z k := by
  rw [softmaxRow_eq]
  exact div_pos (Real.exp_pos _) (sum_exp_pos z k)

theorem softmaxRow_sum (z : Fin K → ℝ) (hK : 0 < K) : ∑ k, softmaxRow z k = 1 := by
  simp only [softmaxRow_eq, ← Finset.sum_div]
  exact div_self (sum_exp_pos z ⟨0, hK⟩).ne'

theorem softmaxRow_lt_one (z : Fin K → ℝ) (k : Fin K) (hK : 1 < K) : softmaxRow z k < 1 := by
  rw [← softmaxRow_sum z (by omega)]
  obtain ⟨c, hc⟩ : ∃ c : Fin K, c ≠ k := by
    by_cases hk : k.val = 0
    · exact ⟨⟨1, hK⟩, fun h => by have := congrArg Fin.val h; simp at this; omega⟩
    · exact ⟨⟨0, by omega⟩, fun h => by have := congrArg Fin.val h; simp at this; omega⟩
  rw [← Finset.add_sum_erase _ _ (Finset.mem_univ k)]
  have : 0 < ∑ x ∈ Finset.univ.erase k, softmaxRow z x :=
    Finset.sum_pos (fun x _ => softmaxRow_pos z x) ⟨c, by simp [hc]⟩
  linarith

/-! ### the soft-max Jacobian, paired with an arbitrary `g`, along an arbitrary curve of logits -/

/-- `tauHat` for one row -/
theorem tauHat_apply (y g : Fin n → Fin K → ℝ) (i : Fin n) (k : Fin K) :
    tauHat y g i k = y i k * (g i k - ∑ c, y i c * g i c) := by
  simp [tauHat]

/-- Chain rule through one soft-max row: if every logit `u · k` is differentiable at `t₀` with derivative `v k`, then
    `t ↦ ∑ k, g k * softmax(u t) k` has derivative `∑ l, y l * (g l - ∑ k, y k * g k) * v l`, `y = softmax(u t₀)`. -/
theorem hasDerivAt_softmaxRow_pairing {u : ℝ → Fin K → ℝ} {v : Fin K → ℝ} {t₀ : ℝ}
    (hu : ∀ k, HasDerivAt (fun t => u t k) (v k) t₀) (g : Fin K → ℝ) :
    HasDerivAt (fun t => ∑ k, g k * softmaxRow (u t) k)
      (∑ l, softmaxRow (u t₀) l * (g l - ∑ k, softmaxRow (u t₀) k * g k) * v l) t₀ := by
  rcases Nat.eq_zero_or_pos K with rfl | hK
  · simpa using hasDerivAt_const t₀ (0 : ℝ)
  have hD : ∀ t, 0 < ∑ c, Real.exp (u t c) := fun t => sum_exp_pos (u t) ⟨0, hK⟩
  have hfun : (fun t => ∑ k, g k * softmaxRow (u t) k)
      = fun t => (∑ k, g k * Real.exp (u t k)) / ∑ c, Real.exp (u t c) := by
    funext t; simp only [softmaxRow_eq, Finset.sum_div, mul_div_assoc]
  rw [hfun]
  have hN : HasDerivAt (fun t => ∑ k, g k * Real.exp (u t k))
      (∑ k, g k * (Real.exp (u t₀ k) * v k)) t₀ :=
    HasDerivAt.fun_sum fun k _ => ((hu k).exp).const_mul (g k)
  have hDn : HasDerivAt (fun t => ∑ c, Real.exp (u t c)) (∑ c, Real.exp (u t₀ c) * v c) t₀ :=
    HasDerivAt.fun_sum fun c _ => (hu c).exp
  refine (hN.fun_div hDn (hD t₀).ne').congr_deriv ?_
  simp only [softmaxRow_eq]
  have hD0 := (hD t₀).ne'
  obtain ⟨e, he⟩ : ∃ e : Fin K → ℝ, ∀ k, e k = Real.exp (u t₀ k) := ⟨_, fun _ => rfl⟩
  simp only [← he] at hD0 ⊢
  have e1 : ∑ k, e k / (∑ c, e c) * g k = (∑ k, g k * e k) / ∑ c, e c := by
    rw [Finset.sum_div]; exact Finset.sum_congr rfl fun k _ => by ring
  rw [e1]
  have e2 : ∀ N D : ℝ, ∑ l, e l / D * (g l - N / D) * v l
      = (∑ l, g l * (e l * v l)) / D - N / D * ((∑ c, e c * v c) / D) := fun N D => by
    rw [Finset.sum_div, Finset.sum_div, Finset.mul_sum, ← Finset.sum_sub_distrib]
    exact Finset.sum_congr rfl fun l _ => by ring
  rw [e2]
  generalize (∑ c, e c) = D at *
  field_simp

/-- `softmax_jacobian`, coordinate form: `∑ k, g k * ∂ softmax(z) k / ∂ z l = y l * (g l - ∑ k, y k * g k)`. -/
theorem softmax_jacobian (z g : Fin K → ℝ) (l : Fin K) :
    HasDerivAt (fun t => ∑ k, g k * softmaxRow (Function.update z l t) k)
      (softmaxRow z l * (g l - ∑ k, softmaxRow z k * g k)) (z l) := by
  have hu : ∀ k, HasDerivAt (fun t => Function.update z l t k) (if k = l then 1 else 0) (z l) := fun k => by
    by_cases hk : k = l
    · subst hk; simpa using hasDerivAt_id' (z k)
    · simpa [Function.update_of_ne hk, hk] using hasDerivAt_const (z l) (z k)
  have := hasDerivAt_softmaxRow_pairing hu g
  simpa using this

/-- Chain rule through a whole prediction matrix: rows of logits `Z t i`, pulled back by `tauHat`. -/
theorem hasDerivAt_softmax_rows {Z : ℝ → Fin n → Fin K → ℝ} {Z' : Fin n → Fin K → ℝ} {t₀ : ℝ}
    (hZ : ∀ i k, HasDerivAt (fun t => Z t i k) (Z' i k) t₀) (g : Fin n → Fin K → ℝ) :
    HasDerivAt (fun t => ∑ i, ∑ k, g i k * softmaxRow (Z t i) k)
      (∑ i, ∑ k, tauHat (fun i => softmaxRow (Z t₀ i)) g i k * Z' i k) t₀ := by
  simp only [tauHat_apply]
  exact HasDerivAt.fun_sum fun i _ => hasDerivAt_softmaxRow_pairing (hZ i) (g i)

/-! ### layers over ℝ -/

theorem affine_apply (X : Fin n → Fin d → ℝ) (W : Fin d → Fin K → ℝ) (b : Fin K → ℝ) (i : Fin n) (k : Fin K) :
    affine X W b i k = ∑ j, X i j * W j k + b k := by
  simp [affine]

theorem hidden_apply (X : Fin n → Fin d → ℝ) (W1 : Fin d → Fin h → ℝ) (b1 : Fin h → ℝ) (i : Fin n) (j : Fin h) :
    hidden X W1 b1 i j = max (affine X W1 b1 i j) 0 := rfl

theorem linearInfer_row (X : Fin n → Fin d → ℝ) (W : Fin d → Fin K → ℝ) (b : Fin K → ℝ) (i : Fin n) :
    linearInfer X W b i = softmaxRow (affine X W b i) := rfl

theorem sparseMlpInfer_row (X : Fin n → Fin d → ℝ) (W1 : Fin d → Fin h → ℝ) (b1 : Fin h → ℝ)
    (W2 : Fin h → Fin K → ℝ) (b2 : Fin K → ℝ) (Ws : Fin d → Fin K → ℝ) (i : Fin n) :
    sparseMlpInfer X W1 b1 W2 b2 Ws i
      = softmaxRow fun k => affine (hidden X W1 b1) W2 b2 i k + ∑ a, X i a * Ws a k := by
  simp only [sparseMlpInfer, tab2_coe, sumFin_eq_sum]

/-- the MLP is the sparse MLP with a zero skip connection -/
theorem mlpInfer_eq_sparse (X : Fin n → Fin d → ℝ) (W1 : Fin d → Fin h → ℝ) (b1 : Fin h → ℝ)
    (W2 : Fin h → Fin K → ℝ) (b2 : Fin K → ℝ) :
    mlpInfer X W1 b1 W2 b2 = sparseMlpInfer X W1 b1 W2 b2 (fun _ _ => 0) := by
  funext i
  rw [sparseMlpInfer_row]
  simp [mlpInfer, tab2_coe]

theorem linearGradW_apply (X : Fin n → Fin d → ℝ) (y g : Fin n → Fin K → ℝ) (j : Fin d) (k : Fin K) :
    linearGradW X y g j k = -(∑ i, X i j * tauHat y g i k) := by
  simp [linearGradW]

theorem linearGradB_apply (y g : Fin n → Fin K → ℝ) (k : Fin K) :
    linearGradB y g k = -(∑ i, tauHat y g i k) := by
  simp [linearGradB]

/-- back-propagated signal `(tau @ W2.T) * (H > 0)` -/
noncomputable def bpSignal (H : Fin n → Fin h → ℝ) (W2 : Fin h → Fin K → ℝ) (τ : Fin n → Fin K → ℝ) :
    Fin n → Fin h → ℝ :=
  fun i j => (∑ k, τ i k * W2 j k) * RealLike.ofBool (RealLike.lt 0 (H i j))

theorem mlpGrads_W1 (X : Fin n → Fin d → ℝ) (H : Fin n → Fin h → ℝ) (W2 : Fin h → Fin K → ℝ)
    (y g : Fin n → Fin K → ℝ) (a : Fin d) (j : Fin h) :
    (mlpGrads X H W2 y g).W1 a j = -(∑ i, X i a * bpSignal H W2 (tauHat y g) i j) := by
  simp [mlpGrads, bpSignal]

theorem mlpGrads_b1 (X : Fin n → Fin d → ℝ) (H : Fin n → Fin h → ℝ) (W2 : Fin h → Fin K → ℝ)
    (y g : Fin n → Fin K → ℝ) (j : Fin h) :
    (mlpGrads X H W2 y g).b1 j = -(∑ i, bpSignal H W2 (tauHat y g) i j) := by
  simp [mlpGrads, bpSignal]

theorem mlpGrads_W2 (X : Fin n → Fin d → ℝ) (H : Fin n → Fin h → ℝ) (W2 : Fin h → Fin K → ℝ)
    (y g : Fin n → Fin K → ℝ) (j : Fin h) (k : Fin K) :
    (mlpGrads X H W2 y g).W2 j k = -(∑ i, H i j * tauHat y g i k) := by
  simp [mlpGrads]

theorem mlpGrads_b2 (X : Fin n → Fin d → ℝ) (H : Fin n → Fin h → ℝ) (W2 : Fin h → Fin K → ℝ)
    (y g : Fin n → Fin K → ℝ) (k : Fin K) :
    (mlpGrads X H W2 y g).b2 k = -(∑ i, tauHat y g i k) := by
  simp [mlpGrads]

theorem mlpGrads_Ws (X : Fin n → Fin d → ℝ) (H : Fin n → Fin h → ℝ) (W2 : Fin h → Fin K → ℝ)
    (y g : Fin n → Fin K → ℝ) (a : Fin d) (k : Fin K) :
    (mlpGrads X H W2 y g).Ws a k = -(∑ i, X i a * tauHat y g i k) := by
  simp [mlpGrads]

/-! ### derivatives of the layers along curves -/

/-- an affine layer whose input, weights and bias all move -/
theorem hasDerivAt_affine {Xc : ℝ → Fin n → Fin d → ℝ} {X' : Fin n → Fin d → ℝ}
    {Wc : ℝ → Fin d → Fin K → ℝ} {W' : Fin d → Fin K → ℝ} {bc : ℝ → Fin K → ℝ} {b' : Fin K → ℝ} {t₀ : ℝ}
    (hX : ∀ i j, HasDerivAt (fun t => Xc t i j) (X' i j) t₀)
    (hW : ∀ j k, HasDerivAt (fun t => Wc t j k) (W' j k) t₀)
    (hb : ∀ k, HasDerivAt (fun t => bc t k) (b' k) t₀) (i : Fin n) (k : Fin K) :
    HasDerivAt (fun t => affine (Xc t) (Wc t) (bc t) i k)
      (∑ j, (X' i j * Wc t₀ j k + Xc t₀ i j * W' j k) + b' k) t₀ := by
  simp only [affine_apply]
  exact (HasDerivAt.fun_sum fun j _ => (hX i j).fun_mul (hW j k)).fun_add (hb k)

/-- an affine layer with a fixed input -/
theorem hasDerivAt_affine_const (X : Fin n → Fin d → ℝ)
    {Wc : ℝ → Fin d → Fin K → ℝ} {W' : Fin d → Fin K → ℝ} {bc : ℝ → Fin K → ℝ} {b' : Fin K → ℝ} {t₀ : ℝ}
    (hW : ∀ j k, HasDerivAt (fun t => Wc t j k) (W' j k) t₀)
    (hb : ∀ k, HasDerivAt (fun t => bc t k) (b' k) t₀) (i : Fin n) (k : Fin K) :
    HasDerivAt (fun t => affine X (Wc t) (bc t) i k) (∑ j, X i j * W' j k + b' k) t₀ := by
  simpa using hasDerivAt_affine (Xc := fun _ => X) (X' := fun _ _ => 0)
    (fun i j => hasDerivAt_const t₀ (X i j)) hW hb i k

/-- `max(·, 0)` away from the kink, with the mask written as the code writes it (`H > 0`) -/
theorem hasDerivAt_relu {f : ℝ → ℝ} {f' x : ℝ} (hf : HasDerivAt f f' x) (h : f x ≠ 0) :
    HasDerivAt (fun y => max (f y) 0) (RealLike.ofBool (RealLike.lt 0 (max (f x) 0)) * f') x := by
  rcases lt_or_gt_of_ne h with hneg | hpos
  · have hm : max (f x) 0 = 0 := max_eq_right hneg.le
    have : HasDerivAt (fun _ : ℝ => (0 : ℝ)) (RealLike.ofBool (RealLike.lt 0 (max (f x) 0)) * f') x := by
      simpa [hm, RealLike.ofBool] using hasDerivAt_const x (0 : ℝ)
    exact this.congr_of_eventuallyEq
      ((hf.continuousAt.eventually (gt_mem_nhds hneg)).mono fun _ hy => max_eq_right (le_of_lt hy))
  · have hm : max (f x) 0 = f x := max_eq_left hpos.le
    simpa [hm, RealLike.ofBool, hpos] using hasDerivAt_max_zero hf hpos

/-- the hidden layer, at a point where no pre-activation vanishes -/
theorem hasDerivAt_hidden (X : Fin n → Fin d → ℝ)
    {W1c : ℝ → Fin d → Fin h → ℝ} {E1 : Fin d → Fin h → ℝ} {b1c : ℝ → Fin h → ℝ} {e1 : Fin h → ℝ} {t₀ : ℝ}
    (hW1 : ∀ a j, HasDerivAt (fun t => W1c t a j) (E1 a j) t₀)
    (hb1 : ∀ j, HasDerivAt (fun t => b1c t j) (e1 j) t₀)
    (hact : ∀ i j, affine X (W1c t₀) (b1c t₀) i j ≠ 0) (i : Fin n) (j : Fin h) :
    HasDerivAt (fun t => hidden X (W1c t) (b1c t) i j)
      (RealLike.ofBool (RealLike.lt 0 (hidden X (W1c t₀) (b1c t₀) i j)) * (∑ a, X i a * E1 a j + e1 j)) t₀ :=
  hasDerivAt_relu (hasDerivAt_affine_const X hW1 hb1 i j) (hact i j)

/-! ### re-indexing the pulled-back sums -/

theorem pull_W (τ : Fin n → Fin K → ℝ) (X : Fin n → Fin d → ℝ) (E : Fin d → Fin K → ℝ) :
    ∑ i, ∑ k, τ i k * ∑ j, X i j * E j k = ∑ j, ∑ k, (∑ i, X i j * τ i k) * E j k := by
  simp only [Finset.mul_sum, Finset.sum_mul]
  calc ∑ i, ∑ k, ∑ j, τ i k * (X i j * E j k)
      = ∑ i, ∑ j, ∑ k, τ i k * (X i j * E j k) := Finset.sum_congr rfl fun i _ => Finset.sum_comm
    _ = ∑ j, ∑ i, ∑ k, τ i k * (X i j * E j k) := Finset.sum_comm
    _ = ∑ j, ∑ k, ∑ i, τ i k * (X i j * E j k) := Finset.sum_congr rfl fun j _ => Finset.sum_comm
    _ = _ := Finset.sum_congr rfl fun j _ => Finset.sum_congr rfl fun k _ =>
        Finset.sum_congr rfl fun i _ => by ring

theorem pull_b (τ : Fin n → Fin K → ℝ) (e : Fin K → ℝ) :
    ∑ i, ∑ k, τ i k * e k = ∑ k, (∑ i, τ i k) * e k := by
  rw [Finset.sum_comm]
  exact Finset.sum_congr rfl fun k _ => by rw [Finset.sum_mul]

theorem pull_H (τ : Fin n → Fin K → ℝ) (M : Fin n → Fin h → ℝ) (W2 : Fin h → Fin K → ℝ) :
    ∑ i, ∑ k, τ i k * ∑ j, M i j * W2 j k = ∑ i, ∑ j, (∑ k, τ i k * W2 j k) * M i j := by
  refine Finset.sum_congr rfl fun i _ => ?_
  simp only [Finset.mul_sum, Finset.sum_mul]
  rw [Finset.sum_comm]
  exact Finset.sum_congr rfl fun j _ => Finset.sum_congr rfl fun k _ => by ring

/-! ### linear family along curves -/

/-- LinearModel: `[-X.T @ tau, -tau.sum(0)]` is minus the gradient of `⟨g, infer⟩`, along any curve of `(W, b)`. -/
theorem linear_hasDerivAt_curve (X : Fin n → Fin d → ℝ)
    {Wc : ℝ → Fin d → Fin K → ℝ} {E : Fin d → Fin K → ℝ} {bc : ℝ → Fin K → ℝ} {e : Fin K → ℝ} {t₀ : ℝ}
    (hW : ∀ j k, HasDerivAt (fun t => Wc t j k) (E j k) t₀)
    (hb : ∀ k, HasDerivAt (fun t => bc t k) (e k) t₀) (g : Fin n → Fin K → ℝ) :
    HasDerivAt (fun t => ∑ i, ∑ k, g i k * linearInfer X (Wc t) (bc t) i k)
      (∑ j, ∑ k, -(linearGradW X (linearInfer X (Wc t₀) (bc t₀)) g j k) * E j k
        + ∑ k, -(linearGradB (linearInfer X (Wc t₀) (bc t₀)) g k) * e k) t₀ := by
  simp only [linearInfer_row]
  refine (hasDerivAt_softmax_rows (fun i k => hasDerivAt_affine_const X hW hb i k) g).congr_deriv ?_
  simp only [linearGradW_apply, linearGradB_apply, neg_neg, mul_add, Finset.sum_add_distrib, pull_W, pull_b]
  rfl

end GemVerif
