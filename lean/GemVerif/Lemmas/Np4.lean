/-
  Reading rules of GemVerif/Np4.lean (shape, error flag and entries of every operation, all by unfolding), the invariant
  rules for the `List.foldl`s that Python `for` loops over `range` become, and the facts about Python lists of POT logs
  (`L[k] = log`, `L.append(log)`, `np.vstack([… for x in L])`) used by Props/C01WassGen.lean.
  Generic in `[RealLike α]`.
-/
import GemVerif.Lemmas.Np3
import GemVerif.Np4

set_option linter.unusedSectionVars false

namespace GemVerif.Np
open GemVerif RealLike

/-! ### loops -/

/-- `for k in range(K):` — an invariant that holds before the loop and is carried by every iteration holds after it -/
theorem foldl_range_inv {σ : Type} (Inv : Nat → σ → Prop) (K : Nat) (f : σ → Nat → σ) (init : σ)
    (h0 : Inv 0 init) (hstep : ∀ k st, k < K → Inv k st → Inv (k + 1) (f st k)) :
    Inv K ((List.range K).foldl f init) := by
  induction K with
  | zero => simpa using h0
  | succ K ih =>
    rw [List.range_succ, List.foldl_append]
    simp only [List.foldl_cons, List.foldl_nil]
    exact hstep K _ (Nat.lt_succ_self K) (ih fun k st hk => hstep k st (Nat.lt_succ_of_lt hk))

/-- `for k in range(a, b):` with `a ≤ b` -/
theorem foldl_pyRange_inv {σ : Type} (Inv : Nat → σ → Prop) (a b : Nat) (hab : a ≤ b) (f : σ → Nat → σ) (init : σ)
    (h0 : Inv a init) (hstep : ∀ k st, a ≤ k → k < b → Inv k st → Inv (k + 1) (f st k)) :
    Inv b ((pyRange a b).foldl f init) := by
  obtain ⟨m, rfl⟩ : ∃ m, b = a + m := ⟨b - a, by omega⟩
  unfold pyRange
  rw [Nat.add_sub_cancel_left]
  clear hab
  induction m with
  | zero => simpa using h0
  | succ m ih =>
    rw [List.range'_1_concat, List.foldl_append]
    simp only [List.foldl_cons, List.foldl_nil]
    exact hstep (a + m) _ (Nat.le_add_right a m) (by omega)
      (ih fun k st h1 h2 => hstep k st h1 (by omega))

namespace Arr
variable {α : Type} [RealLike α]

/-! ### integer indexing -/

@[simp] theorem row_r (A : Arr α) (k : Nat) : (row A k).r = 1 := rfl
@[simp] theorem row_c (A : Arr α) (k : Nat) : (row A k).c = A.c := rfl
@[simp] theorem row_ok (A : Arr α) (k : Nat) : (row A k).ok = (A.ok && decide (k < A.r)) := rfl
@[simp] theorem row_get (A : Arr α) (k i j : Nat) : (row A k).get i j = A.get k j := rfl

@[simp] theorem col_r (A : Arr α) (k : Nat) : (col A k).r = 1 := rfl
@[simp] theorem col_c (A : Arr α) (k : Nat) : (col A k).c = A.r := rfl
@[simp] theorem col_ok (A : Arr α) (k : Nat) : (col A k).ok = (A.ok && decide (k < A.c)) := rfl
@[simp] theorem col_get (A : Arr α) (k i j : Nat) : (col A k).get i j = A.get j k := rfl

@[simp] theorem at1_def (v : Arr α) (k : Nat) : at1 v k = v.get 0 k := rfl
@[simp] theorem inb1_def (v : Arr α) (k : Nat) : inb1 v k = (v.ok && v.r == 1 && decide (k < v.c)) := rfl

@[simp] theorem setAt1_r (v : Arr α) (k : Nat) (s : α) : (setAt1 v k s).r = v.r := rfl
@[simp] theorem setAt1_c (v : Arr α) (k : Nat) (s : α) : (setAt1 v k s).c = v.c := rfl
@[simp] theorem setAt1_ok (v : Arr α) (k : Nat) (s : α) :
    (setAt1 v k s).ok = (v.ok && v.r == 1 && decide (k < v.c)) := rfl
@[simp] theorem setAt1_get (v : Arr α) (k : Nat) (s : α) (i j : Nat) :
    (setAt1 v k s).get i j = if j = k then s else v.get i j := rfl

@[simp] theorem setAt2_r (A : Arr α) (a b : Nat) (s : α) : (setAt2 A a b s).r = A.r := rfl
@[simp] theorem setAt2_c (A : Arr α) (a b : Nat) (s : α) : (setAt2 A a b s).c = A.c := rfl
@[simp] theorem setAt2_ok (A : Arr α) (a b : Nat) (s : α) :
    (setAt2 A a b s).ok = (A.ok && decide (a < A.r) && decide (b < A.c)) := rfl
@[simp] theorem setAt2_get (A : Arr α) (a b : Nat) (s : α) (i j : Nat) :
    (setAt2 A a b s).get i j = if i = a ∧ j = b then s else A.get i j := rfl

@[simp] theorem setCol_r (A : Arr α) (k : Nat) (R : Arr α) : (setCol A k R).r = A.r := rfl
@[simp] theorem setCol_c (A : Arr α) (k : Nat) (R : Arr α) : (setCol A k R).c = A.c := rfl
@[simp] theorem setCol_ok (A : Arr α) (k : Nat) (R : Arr α) :
    (setCol A k R).ok = (A.ok && R.ok && R.r == 1 && R.c == A.r && decide (k < A.c)) := rfl
@[simp] theorem setCol_get (A : Arr α) (k : Nat) (R : Arr α) (i j : Nat) :
    (setCol A k R).get i j = if j = k then R.get 0 i else A.get i j := rfl

@[simp] theorem dotVec_r (a b : Arr α) : (dotVec a b).r = 1 := rfl
@[simp] theorem dotVec_c (a b : Arr α) : (dotVec a b).c = 1 := rfl
@[simp] theorem dotVec_ok (a b : Arr α) : (dotVec a b).ok = (a.ok && b.ok && a.r == 1 && b.r == 1 && a.c == b.c) := rfl
@[simp] theorem dotVec_get (a b : Arr α) (i j : Nat) :
    (dotVec a b).get i j = sumTo a.c fun l => a.get 0 l * b.get 0 l := rfl

@[simp] theorem err_ok : (err : Arr α).ok = false := rfl

/-- a row is what it is read as: a copy of `IsRow` for rows of matrices described by `IsMat` -/
theorem IsMat.row {n k : Nat} {A : Arr α} {f : Fin n → Fin k → α} (h : IsMat A f) (i : Fin n) :
    IsRow (row A i.val) (f i) := by
  obtain ⟨hok, hr, hc, hget⟩ := h
  exact ⟨by simp [hok, hr], rfl, hc, fun j => hget i j⟩

/-! ### `np.vstack` -/

@[simp] theorem vstack_r (L : List (Arr α)) : (vstack L).r = L.length := rfl
@[simp] theorem vstack_get (L : List (Arr α)) (i j : Nat) : (vstack L).get i j = (L.getD i err).get 0 j := rfl

/-- `np.vstack` of `K > 0` rows of one length `n`, each known entry for entry -/
theorem isMat_vstack {K n : Nat} (L : List (Arr α)) (f : Fin K → Fin n → α) (hK : 0 < K) (hlen : L.length = K)
    (h : ∀ j : Fin K, IsRow (L.getD j.val err) (f j)) : IsMat (vstack L) f := by
  have hhead : (L.headD err).c = n := by
    have h0 := (h ⟨0, hK⟩).2.2.1
    cases L with
    | nil => simp at hlen; omega
    | cons A L => simpa using h0
  refine ⟨?_, hlen, hhead, fun i j => ?_⟩
  · have hne : L.isEmpty = false := by
      cases L with
      | nil => simp at hlen; omega
      | cons A L => rfl
    simp only [vstack, hne, Bool.not_false, Bool.true_and, List.all_eq_true]
    intro A hA
    obtain ⟨i, hi, rfl⟩ := List.getElem_of_mem hA
    have := h ⟨i, hlen ▸ hi⟩
    rw [List.getD_eq_getElem _ _ hi] at this
    obtain ⟨h1, h2, h3, -⟩ := this
    simp only [h1, h2, h3, hhead, beq_self_eq_true, Bool.and_self]
  · exact (h i).2.2.2 j

end Arr

/-! ### POT results and Python lists of them -/

namespace EmdR
variable {α : Type} [RealLike α]

@[simp] theorem ofEmd_value {n : Nat} (E : Model.Emd α n) : (ofEmd E).value = E.value := rfl
@[simp] theorem ofEmd_u {n : Nat} (E : Model.Emd α n) : (ofEmd E).u = Arr.ofRow E.u := rfl
@[simp] theorem ofEmd_v {n : Nat} (E : Model.Emd α n) : (ofEmd E).v = Arr.ofRow E.v := rfl
@[simp] theorem ofEmd_ok {n : Nat} (E : Model.Emd α n) : (ofEmd E).ok = true := rfl

/-- `ot.emd2(a, b, M, log=True)` on arrays that are, without error, the weight vectors `fa`, `fb` and the cost matrix `fM`
    is the solver of the model applied to them -/
theorem ofModel_eq {n : Nat} (emd : (Fin n → Fin n → α) → (Fin n → α) → (Fin n → α) → Model.Emd α n) {a b M : Arr α}
    {fa fb : Fin n → α} {fM : Fin n → Fin n → α} (ha : Arr.IsRow a fa) (hb : Arr.IsRow b fb) (hM : Arr.IsMat M fM) :
    ofModel emd a b M = ofEmd (emd fM fa fb) := by
  obtain ⟨ha1, ha2, ha3, ha4⟩ := ha
  obtain ⟨hb1, hb2, hb3, hb4⟩ := hb
  obtain ⟨hM1, hM2, hM3, hM4⟩ := hM
  have e1 : (fun i j : Fin n => M.get i.val j.val) = fM := by funext i j; exact hM4 i j
  have e2 : (fun i : Fin n => a.get 0 i.val) = fa := by funext i; exact ha4 i
  have e3 : (fun i : Fin n => b.get 0 i.val) = fb := by funext i; exact hb4 i
  simp [ofModel, e1, e2, e3, ha1, ha2, ha3, hb1, hb2, hb3, hM1, hM2, hM3, ofEmd]

/-! the two ways the source may collect the logs: `L = [None] * K; L[k] = log`, or `L = []; L.append(log)` -/

theorem setNth_length {L : List (EmdR α)} {k : Nat} (x : EmdR α) (hk : k < L.length) : (setNth L k x).length = L.length := by
  simp [setNth, hk]

theorem setNth_getD {L : List (EmdR α)} {k : Nat} (x : EmdR α) (hk : k < L.length) (j : Nat) :
    (setNth L k x).getD j none = if j = k then x else L.getD j none := by
  simp only [setNth, hk, if_true]
  by_cases hj : j = k
  · subst hj; simp [List.getD_eq_getElem?_getD, hk]
  · have hj' : k ≠ j := fun e => hj e.symm
    simp [List.getD_eq_getElem?_getD, hj, List.getElem?_set_ne hj']

theorem append_getD {L : List (EmdR α)} {k : Nat} (x : EmdR α) (hk : L.length = k) (j : Nat) (hj : j ≤ k) :
    (L ++ [x]).getD j none = if j = k then x else L.getD j none := by
  by_cases hjk : j = k
  · subst hjk; simp [List.getD_eq_getElem?_getD, ← hk]
  · have : j < L.length := by omega
    simp [List.getD_eq_getElem?_getD, hjk, List.getElem?_append_left this]

end EmdR

/-- `[g(x) for x in L][j]` -/
theorem getD_map_of_getElem? {β γ : Type} (L : List β) (g : β → γ) (e : γ) {j : Nat} {x : β} (h : L[j]? = some x) :
    (L.map g).getD j e = g x := by
  simp [List.getD_eq_getElem?_getD, h]

/-- `[g(x) for x in L][j]` -/
theorem getD_map_of_lt {β γ : Type} (L : List β) (g : β → γ) (d : β) (e : γ) {j : Nat} (hj : j < L.length) :
    (L.map g).getD j e = g (L.getD j d) := by
  simp [List.getD_eq_getElem?_getD, hj]

end GemVerif.Np
