/-
  C07 — helper lemmas about `Model/Path.lean`: the outer loop as a derivation (`Runs`), so that every property of
  `_path` is a rule induction; specification-side definitions (`geomList`, `runBest`, `LastAccepted`).
-/
import GemVerif.NumReal
import GemVerif.Model.Path

namespace GemVerif.Model.Path
open GemVerif RealLike

variable {α : Type} [RealLike α] {ω : Type}

/-! ### the outer loop as a derivation -/

/-- `Runs c st nSel steps r`: started in state `st` with `nSel` selected features and the remaining trace `steps`, the
    outer loop of `_path` ends with result `r`.  One constructor per way through the loop body. -/
inductive Runs (c : Cfg α) : PState α ω → Nat → List (StepObs α ω) → PathResult α ω → Prop
  | stop (st : PState α ω) (nSel : Nat) (steps : List (StepObs α ω)) :
      ¬ ((nSel : Int) > c.minFeatures) → Runs c st nSel steps (finish st .normal)
  | needSteps (st : PState α ω) (nSel : Nat) :
      (nSel : Int) > c.minFeatures → Runs c st nSel [] (finish st .needMoreSteps)
  | needEpochs (st : PState α ω) (nSel : Nat) (s : StepObs α ω) (rest : List (StepObs α ω)) :
      (nSel : Int) > c.minFeatures → stepInner c st s = .exhausted →
      Runs c st nSel (s :: rest) (finish { st with clfAlpha := st.alpha } .needMoreEpochs)
  | unbound (st : PState α ω) (nSel : Nat) (s : StepObs α ω) (rest : List (StepObs α ω)) (i : Nat) :
      (nSel : Int) > c.minFeatures → stepInner c st s = .done i none →
      Runs c st nSel (s :: rest) (finish (afterInner st s i none) .unboundScore)
  | nan (st : PState α ω) (nSel : Nat) (s : StepObs α ω) (rest : List (StepObs α ω)) (i : Nat) (e : Epoch α) :
      (nSel : Int) > c.minFeatures → stepInner c st s = .done i (some e) → e.isNaN = true →
      Runs c st nSel (s :: rest) (finish (afterInner st s i (some e)) .nanAbort)
  | step (st : PState α ω) (nSel : Nat) (s : StepObs α ω) (rest : List (StepObs α ω)) (i : Nat) (e : Epoch α)
      (r : PathResult α ω) :
      (nSel : Int) > c.minFeatures → stepInner c st s = .done i (some e) → e.isNaN = false →
      Runs c (advance c st s i e) s.nSel rest r → Runs c st nSel (s :: rest) r

theorem outerLoop_runs (c : Cfg α) (steps : List (StepObs α ω)) :
    ∀ (st : PState α ω) (nSel : Nat), Runs c st nSel steps (outerLoop c st nSel steps) := by
  induction steps with
  | nil =>
    intro st nSel
    unfold outerLoop
    by_cases h : (nSel : Int) > c.minFeatures
    · rw [if_pos h]; exact Runs.needSteps st nSel h
    · rw [if_neg h]; exact Runs.stop st nSel [] h
  | cons s rest ih =>
    intro st nSel
    unfold outerLoop
    by_cases h : (nSel : Int) > c.minFeatures
    · rw [if_pos h]
      cases hin : stepInner c st s with
      | exhausted => exact Runs.needEpochs st nSel s rest h hin
      | done i last =>
        cases last with
        | none => exact Runs.unbound st nSel s rest i h hin
        | some e =>
          by_cases hn : e.isNaN = true
          · simp only [hn, if_true]; exact Runs.nan st nSel s rest i e h hin hn
          · have hn' : e.isNaN = false := by simpa using hn
            simp only [hn', Bool.false_eq_true, if_false]
            exact Runs.step st nSel s rest i e _ h hin hn' (ih _ _)
    · rw [if_neg h]; exact Runs.stop st nSel (s :: rest) h

/-! ### inner loop -/

/-- the counter never exceeds `max_iter` (when it started below), every epoch run consumes one observation, and the
    loop's `last` is the last observation consumed -/
theorem innerLoop_done (maxIter : Nat) (maxPat : Int) (esf alpha : α) (eps : List (Epoch α)) :
    ∀ (i0 : Nat) (pat : Int) (vs vl : α) (last0 : Option (Epoch α)) (i : Nat) (last : Option (Epoch α)),
      innerLoop maxIter maxPat esf alpha i0 pat vs vl last0 eps = .done i last →
      i0 ≤ i ∧ i - i0 ≤ eps.length ∧ (i0 ≤ maxIter → i ≤ maxIter) ∧
      ((i = i0 ∧ last = last0) ∨ (i0 < i ∧ ∃ e, eps[i - i0 - 1]? = some e ∧ last = some e)) := by
  induction eps with
  | nil =>
    intro i0 pat vs vl last0 i last h
    unfold innerLoop at h
    split at h
    · cases h
    · injection h with h1 h2
      subst h1 h2
      exact ⟨Nat.le_refl _, by simp, fun h => h, Or.inl ⟨rfl, rfl⟩⟩
  | cons e rest ih =>
    intro i0 pat vs vl last0 i last h
    unfold innerLoop at h
    split at h
    · rename_i hc
      obtain ⟨h1, h2, h3, h4⟩ := ih _ _ _ _ _ _ _ h
      refine ⟨by omega, by simp only [List.length_cons]; omega, fun hm => h3 (by omega), Or.inr ⟨by omega, ?_⟩⟩
      rcases h4 with ⟨hi, hl⟩ | ⟨hi, e', he', hl⟩
      · refine ⟨e, ?_, hl⟩
        have : i - i0 - 1 = 0 := by omega
        rw [this]; rfl
      · refine ⟨e', ?_, hl⟩
        have : i - i0 - 1 = (i - (i0 + 1) - 1) + 1 := by omega
        rw [this, List.getElem?_cons_succ]; exact he'
    · injection h with h1 h2
      subst h1 h2
      exact ⟨Nat.le_refl _, by simp, fun h => h, Or.inl ⟨rfl, rfl⟩⟩

/-! ### specification-side definitions -/

/-- `[a, a*m, (a*m)*m, …]` (`T` entries): repeated multiplication, exactly as `alpha *= alpha_multiplier` computes it -/
def geomList (a m : α) : Nat → List α
  | 0 => []
  | T + 1 => a :: geomList (a * m) m T

theorem geomList_length (a m : α) (T : Nat) : (geomList a m T).length = T := by
  induction T generalizing a with
  | zero => rfl
  | succ T ih => simp [geomList, ih]

theorem geomList_snoc (a m : α) (T : Nat) :
    ∃ b, geomList a m (T + 1) = geomList a m T ++ [b] ∧ (T = 0 → b = a) ∧
      (∀ l x, geomList a m T = l ++ [x] → b = x * m) := by
  induction T generalizing a with
  | zero => exact ⟨a, rfl, fun _ => rfl, fun l x h => by cases l <;> simp [geomList] at h⟩
  | succ T ih =>
    obtain ⟨b, hb, h0, hl⟩ := ih (a * m)
    refine ⟨b, ?_, by omega, ?_⟩
    · show a :: geomList (a * m) m (T + 1) = (a :: geomList (a * m) m T) ++ [b]
      rw [hb]; rfl
    · intro l x h
      cases T with
      | zero =>
        have hb0 := h0 rfl
        have : l = [] ∧ x = a := by
          cases l with
          | nil => simpa [geomList] using h.symm
          | cons y l' => cases l' <;> simp [geomList] at h
        rw [hb0, this.2]
      | succ T' =>
        cases l with
        | nil => simp [geomList] at h
        | cons y l' =>
          have h' : geomList (a * m) m (T' + 1) = l' ++ [x] := by
            have := h
            simp only [geomList, List.cons_append, List.cons.injEq] at this
            simpa [geomList] using this.2
          exact hl l' x h'

/-- the running best score: `B ← score` whenever `score ≥ B` and all `d` features are still selected -/
def runBest (d : Nat) (B0 : α) (cs : List (α × Nat × ω)) : α :=
  cs.foldl (fun B c => newBest d B c.1 c.2.1) B0

theorem runBest_cons (d : Nat) (B0 : α) (c : α × Nat × ω) (cs : List (α × Nat × ω)) :
    runBest d B0 (c :: cs) = runBest d (newBest d B0 c.1 c.2.1) cs := rfl

theorem runBest_append (d : Nat) (B0 : α) (cs cs' : List (α × Nat × ω)) :
    runBest d B0 (cs ++ cs') = runBest d (runBest d B0 cs) cs' := by
  unfold runBest; rw [List.foldl_append]

/-- step `c`, coming after the completed steps `pre`, is accepted: `score_c ≥ keep_threshold · B` with `B` the running
    best over the initial fit, `pre` and `c` itself -/
def accepts (thr : α) (d : Nat) (B0 : α) (pre : List (α × Nat × ω)) (c : α × Nat × ω) : Bool :=
  keeps thr (runBest d B0 (pre ++ [c])) c.1

/-- `W` is the weights of the LAST accepted step of `cs`, and `W0` (the initial-fit snapshot) if no step is accepted -/
def LastAccepted (thr : α) (d : Nat) (B0 : α) (W0 : ω) (cs : List (α × Nat × ω)) (W : ω) : Prop :=
  (W = W0 ∧ ∀ pre c post, cs = pre ++ c :: post → accepts thr d B0 pre c = false) ∨
  (∃ pre c post, cs = pre ++ c :: post ∧ accepts thr d B0 pre c = true ∧
    (∀ pre' c' post', post = pre' ++ c' :: post' → accepts thr d B0 (pre ++ c :: pre') c' = false) ∧ W = c.2.2)

theorem accepts_cons (thr : α) (d : Nat) (B0 : α) (c0 : α × Nat × ω) (pre : List (α × Nat × ω)) (c : α × Nat × ω) :
    accepts thr d B0 (c0 :: pre) c = accepts thr d (newBest d B0 c0.1 c0.2.1) pre c := rfl

theorem lastAccepted_nil (thr : α) (d : Nat) (B0 : α) (W0 : ω) : LastAccepted thr d B0 W0 [] W0 :=
  Or.inl ⟨rfl, fun pre c post h => by cases pre <;> simp at h⟩

/-- one more step at the FRONT: the code's update of `(best_gemini_score, best_weights)` by step `c0`, followed by the
    rule on the remaining steps, is the rule on `c0 :: cs` -/
theorem lastAccepted_cons (thr : α) (d : Nat) (B0 : α) (W0 : ω) (c0 : α × Nat × ω) (cs : List (α × Nat × ω)) (W : ω)
    (h : LastAccepted thr d (newBest d B0 c0.1 c0.2.1)
          (if keeps thr (newBest d B0 c0.1 c0.2.1) c0.1 then c0.2.2 else W0) cs W) :
    LastAccepted thr d B0 W0 (c0 :: cs) W := by
  have hacc0 : accepts thr d B0 [] c0 = keeps thr (newBest d B0 c0.1 c0.2.1) c0.1 := rfl
  rcases h with ⟨hW, hnone⟩ | ⟨pre, c, post, hcs, hacc, hlater, hW⟩
  · by_cases hk : keeps thr (newBest d B0 c0.1 c0.2.1) c0.1 = true
    · rw [if_pos hk] at hW
      refine Or.inr ⟨[], c0, cs, rfl, by rw [hacc0]; exact hk, ?_, hW⟩
      intro pre' c' post' hp
      rw [List.nil_append, accepts_cons]
      exact hnone pre' c' post' hp
    · rw [if_neg hk] at hW
      refine Or.inl ⟨hW, ?_⟩
      intro pre c post hp
      cases pre with
      | nil =>
        simp only [List.nil_append, List.cons.injEq] at hp
        rw [← hp.1, hacc0]; simpa using hk
      | cons x pre' =>
        simp only [List.cons_append, List.cons.injEq] at hp
        rw [← hp.1, accepts_cons]
        exact hnone pre' c post hp.2
  · refine Or.inr ⟨c0 :: pre, c, post, by rw [hcs]; rfl, by rw [accepts_cons]; exact hacc, ?_, hW⟩
    intro pre' c' post' hp
    rw [List.cons_append, accepts_cons]
    exact hlater pre' c' post' hp

/-! ### what a run appends -/

/-- the completed steps: (score, selected count, weights) -/
def completed (g : List α) (n : List Nat) (w : List ω) : List (α × Nat × ω) := List.zip g (List.zip n w)

omit [RealLike α] in
theorem completed_cons (g : List α) (n : List Nat) (w : List ω) (x : α) (y : Nat) (z : ω) :
    completed (x :: g) (y :: n) (z :: w) = (x, y, z) :: completed g n w := rfl

/-- Master lemma: a run appends to the histories exactly one entry per completed step `steps[0..j)`, with the observed
    count / penalty / weights of that step and the geometric alphas; the final best score and best weights follow the rule
    on the appended steps; the exit kind is determined by how the run left the loop.
    `hlast`: the inherited `iteration_gemini_score` (Python scoping) is never NaN — it comes from a completed step. -/
theorem runs_spec (c : Cfg α) {st : PState α ω} {nSel : Nat} {steps : List (StepObs α ω)} {r : PathResult α ω}
    (hr : Runs c st nSel steps r) (hlast : ∀ e, st.last = some e → e.isNaN = false) :
    ∃ (j : Nat) (scores : List α), j ≤ steps.length ∧ scores.length = j ∧
      r.alphas = st.alphas ++ geomList st.alpha c.mult j ∧
      r.nFeatures = st.nFeatures ++ (steps.take j).map (·.nSel) ∧
      r.penalties = st.penalties ++ (steps.take j).map (·.penalty) ∧
      r.weightsHist = st.weightsHist ++ (steps.take j).map (·.weights) ∧
      r.geminis = st.geminis ++ scores ∧
      r.best = runBest c.d st.best (completed scores ((steps.take j).map (·.nSel)) ((steps.take j).map (·.weights))) ∧
      LastAccepted c.keep c.d st.best st.bestW
        (completed scores ((steps.take j).map (·.nSel)) ((steps.take j).map (·.weights))) r.bestWeights ∧
      (r.exit = .normal → r.epochsRun.length = st.epochsRun.length + j ∧
          ((((steps.take j).map (·.nSel)).getLast?.getD nSel : Nat) : Int) ≤ c.minFeatures) ∧
      (r.exit = .nanAbort → r.epochsRun.length = st.epochsRun.length + j + 1 ∧
          ∃ s e, steps[j]? = some s ∧ e ∈ s.epochs ∧ e.isNaN = true ∧ r.curW = s.weights) ∧
      (r.exit = .needMoreSteps → j = steps.length ∧
          ((((steps.take j).map (·.nSel)).getLast?.getD nSel : Nat) : Int) > c.minFeatures) := by
  induction hr with
  | stop st nSel steps h =>
    refine ⟨0, [], Nat.zero_le _, rfl, by simp [finish, geomList], by simp [finish], by simp [finish], by simp [finish],
      by simp [finish], rfl, lastAccepted_nil _ _ _ _, ?_, ?_, ?_⟩
    · intro _; exact ⟨rfl, by simpa using h⟩
    · intro hx; cases hx
    · intro hx; cases hx
  | needSteps st nSel h =>
    refine ⟨0, [], Nat.zero_le _, rfl, by simp [finish, geomList], by simp [finish], by simp [finish], by simp [finish],
      by simp [finish], rfl, lastAccepted_nil _ _ _ _, ?_, ?_, ?_⟩
    · intro hx; cases hx
    · intro hx; cases hx
    · intro _; exact ⟨rfl, by simpa using h⟩
  | needEpochs st nSel s rest h hin =>
    refine ⟨0, [], Nat.zero_le _, rfl, by simp [finish, geomList], by simp [finish], by simp [finish], by simp [finish],
      by simp [finish], rfl, lastAccepted_nil _ _ _ _, ?_, ?_, ?_⟩
    · intro hx; cases hx
    · intro hx; cases hx
    · intro hx; cases hx
  | unbound st nSel s rest i h hin =>
    refine ⟨0, [], Nat.zero_le _, rfl, by simp [finish, afterInner, geomList], by simp [finish, afterInner],
      by simp [finish, afterInner], by simp [finish, afterInner], by simp [finish, afterInner], rfl,
      lastAccepted_nil _ _ _ _, ?_, ?_, ?_⟩
    · intro hx; cases hx
    · intro hx; cases hx
    · intro hx; cases hx
  | nan st nSel s rest i e h hin hn =>
    refine ⟨0, [], Nat.zero_le _, rfl, by simp [finish, afterInner, geomList], by simp [finish, afterInner],
      by simp [finish, afterInner], by simp [finish, afterInner], by simp [finish, afterInner], rfl,
      lastAccepted_nil _ _ _ _, ?_, ?_, ?_⟩
    · intro hx; cases hx
    · intro _
      refine ⟨by simp [finish, afterInner], s, e, rfl, ?_, hn, rfl⟩
      -- the NaN epoch is one of the step's observed epochs (an inherited value is never NaN)
      obtain ⟨_, _, _, h4⟩ := innerLoop_done _ _ _ _ _ _ _ _ _ _ _ _ hin
      rcases h4 with ⟨_, hl⟩ | ⟨_, e', he', hl⟩
      · have := hlast e hl.symm
        rw [hn] at this; cases this
      · injection hl with hl; subst hl
        exact List.mem_of_getElem? he'
    · intro hx; cases hx
  | step st nSel s rest i e r h hin hn hrest ih =>
    obtain ⟨j, scores, hj, hsc, ha, hn', hp, hw, hg, hb, hacc, hnormal, hnan, hmore⟩ :=
      ih (by intro e' he'; simp only [advance, afterInner] at he'; injection he' with he'; rw [← he']; exact hn)
    refine ⟨j + 1, e.score :: scores, by simpa using hj, by simp [hsc], ?_, ?_, ?_, ?_, ?_, ?_, ?_, ?_, ?_, ?_⟩
    · rw [ha]; simp [advance, afterInner, geomList]
    · rw [hn']; simp [advance, afterInner]
    · rw [hp]; simp [advance, afterInner]
    · rw [hw]; simp [advance, afterInner]
    · rw [hg]; simp [advance, afterInner]
    · rw [hb]; simp only [List.take_succ_cons, List.map_cons, completed_cons, runBest_cons]; rfl
    · simp only [List.take_succ_cons, List.map_cons, completed_cons]
      exact lastAccepted_cons _ _ _ _ (e.score, s.nSel, s.weights) _ _ hacc
    · intro hx
      obtain ⟨h1, h2⟩ := hnormal hx
      refine ⟨by rw [h1]; simp [advance, afterInner]; omega, ?_⟩
      simp only [List.take_succ_cons, List.map_cons, List.getLast?_cons, Option.getD_some]
      exact h2
    · intro hx
      obtain ⟨h1, s', e', h2, h3⟩ := hnan hx
      exact ⟨by rw [h1]; simp [advance, afterInner]; omega, s', e', by simpa using h2, h3⟩
    · intro hx
      obtain ⟨h1, h2⟩ := hmore hx
      refine ⟨by simp [h1], ?_⟩
      simp only [List.take_succ_cons, List.map_cons, List.getLast?_cons, Option.getD_some]
      exact h2

/-! ### `restoreAlpha` only touches `clf.alpha` -/

omit [RealLike α] in
theorem restoreAlpha_eq (a : α) (r : PathResult α ω) :
    restoreAlpha a r = { r with clfAlpha := (restoreAlpha a r).clfAlpha } := by
  unfold restoreAlpha; split <;> rfl

omit [RealLike α] in
theorem restoreAlpha_alphas (a : α) (r : PathResult α ω) : (restoreAlpha a r).alphas = r.alphas := by rw [restoreAlpha_eq]
omit [RealLike α] in
theorem restoreAlpha_nFeatures (a : α) (r : PathResult α ω) : (restoreAlpha a r).nFeatures = r.nFeatures := by rw [restoreAlpha_eq]
omit [RealLike α] in
theorem restoreAlpha_penalties (a : α) (r : PathResult α ω) : (restoreAlpha a r).penalties = r.penalties := by rw [restoreAlpha_eq]
omit [RealLike α] in
theorem restoreAlpha_weightsHist (a : α) (r : PathResult α ω) : (restoreAlpha a r).weightsHist = r.weightsHist := by rw [restoreAlpha_eq]
omit [RealLike α] in
theorem restoreAlpha_geminis (a : α) (r : PathResult α ω) : (restoreAlpha a r).geminis = r.geminis := by rw [restoreAlpha_eq]
omit [RealLike α] in
theorem restoreAlpha_best (a : α) (r : PathResult α ω) : (restoreAlpha a r).best = r.best := by rw [restoreAlpha_eq]
omit [RealLike α] in
theorem restoreAlpha_bestWeights (a : α) (r : PathResult α ω) : (restoreAlpha a r).bestWeights = r.bestWeights := by rw [restoreAlpha_eq]
omit [RealLike α] in
theorem restoreAlpha_exit (a : α) (r : PathResult α ω) : (restoreAlpha a r).exit = r.exit := by rw [restoreAlpha_eq]
omit [RealLike α] in
theorem restoreAlpha_epochsRun (a : α) (r : PathResult α ω) : (restoreAlpha a r).epochsRun = r.epochsRun := by rw [restoreAlpha_eq]
omit [RealLike α] in
theorem restoreAlpha_curW (a : α) (r : PathResult α ω) : (restoreAlpha a r).curW = r.curW := by rw [restoreAlpha_eq]

omit [RealLike α] in
/-- `_path` returns with `clf.alpha` back at its initial value -/
theorem restoreAlpha_clfAlpha (a : α) (r : PathResult α ω)
    (h : r.exit = .normal ∨ r.exit = .nanAbort ∨ r.exit = .unboundScore) : (restoreAlpha a r).clfAlpha = a := by
  unfold restoreAlpha
  rcases h with h | h | h <;> rw [h]

/-- (on the loop's own result) instance of the master lemma at the state in which `_path` enters its outer loop -/
theorem outerLoop_spec0 (alpha0 : α) (maxIter d : Nat) (args : PathArgs α) (tr : Trace α ω) :
    ∃ (j : Nat) (scores : List α), j ≤ tr.steps.length ∧ scores.length = j ∧
      (outerLoop (cfgOf maxIter d (normalise args d).1) (initState alpha0 tr) tr.initNSel tr.steps).alphas = geomList alpha0 (normalise args d).1.alphaMultiplier j ∧
      (outerLoop (cfgOf maxIter d (normalise args d).1) (initState alpha0 tr) tr.initNSel tr.steps).nFeatures = (tr.steps.take j).map (·.nSel) ∧
      (outerLoop (cfgOf maxIter d (normalise args d).1) (initState alpha0 tr) tr.initNSel tr.steps).penalties = (tr.steps.take j).map (·.penalty) ∧
      (outerLoop (cfgOf maxIter d (normalise args d).1) (initState alpha0 tr) tr.initNSel tr.steps).weightsHist = (tr.steps.take j).map (·.weights) ∧
      (outerLoop (cfgOf maxIter d (normalise args d).1) (initState alpha0 tr) tr.initNSel tr.steps).geminis = scores ∧
      (outerLoop (cfgOf maxIter d (normalise args d).1) (initState alpha0 tr) tr.initNSel tr.steps).best = runBest d tr.initScore
          (completed scores ((tr.steps.take j).map (·.nSel)) ((tr.steps.take j).map (·.weights))) ∧
      LastAccepted (normalise args d).1.keepThreshold d tr.initScore tr.initWeights
        (completed scores ((tr.steps.take j).map (·.nSel)) ((tr.steps.take j).map (·.weights)))
        (outerLoop (cfgOf maxIter d (normalise args d).1) (initState alpha0 tr) tr.initNSel tr.steps).bestWeights ∧
      ((outerLoop (cfgOf maxIter d (normalise args d).1) (initState alpha0 tr) tr.initNSel tr.steps).exit = .normal → (outerLoop (cfgOf maxIter d (normalise args d).1) (initState alpha0 tr) tr.initNSel tr.steps).epochsRun.length = j ∧
          ((((tr.steps.take j).map (·.nSel)).getLast?.getD tr.initNSel : Nat) : Int) ≤ (normalise args d).1.minFeatures) ∧
      ((outerLoop (cfgOf maxIter d (normalise args d).1) (initState alpha0 tr) tr.initNSel tr.steps).exit = .nanAbort → (outerLoop (cfgOf maxIter d (normalise args d).1) (initState alpha0 tr) tr.initNSel tr.steps).epochsRun.length = j + 1 ∧
          ∃ s e, tr.steps[j]? = some s ∧ e ∈ s.epochs ∧ e.isNaN = true ∧ (outerLoop (cfgOf maxIter d (normalise args d).1) (initState alpha0 tr) tr.initNSel tr.steps).curW = s.weights) ∧
      ((outerLoop (cfgOf maxIter d (normalise args d).1) (initState alpha0 tr) tr.initNSel tr.steps).exit = .needMoreSteps → j = tr.steps.length ∧
          ((((tr.steps.take j).map (·.nSel)).getLast?.getD tr.initNSel : Nat) : Int) > (normalise args d).1.minFeatures) := by
  have hr := outerLoop_runs (cfgOf maxIter d (normalise args d).1) tr.steps (initState alpha0 tr) tr.initNSel
  obtain ⟨j, scores, h1, h2, h3, h4, h5, h6, h7, h8, h9, h10, h11, h12⟩ :=
    runs_spec (cfgOf maxIter d (normalise args d).1) hr (by intro e he; cases he)
  refine ⟨j, scores, h1, h2, ?_, ?_, ?_, ?_, ?_, h8, h9, ?_, ?_, h12⟩
  · rw [show (outerLoop (cfgOf maxIter d (normalise args d).1) (initState alpha0 tr) tr.initNSel tr.steps).alphas = _ from h3]; simp [initState, cfgOf]
  · rw [show (outerLoop (cfgOf maxIter d (normalise args d).1) (initState alpha0 tr) tr.initNSel tr.steps).nFeatures = _ from h4]; simp [initState]
  · rw [show (outerLoop (cfgOf maxIter d (normalise args d).1) (initState alpha0 tr) tr.initNSel tr.steps).penalties = _ from h5]; simp [initState]
  · rw [show (outerLoop (cfgOf maxIter d (normalise args d).1) (initState alpha0 tr) tr.initNSel tr.steps).weightsHist = _ from h6]; simp [initState]
  · rw [show (outerLoop (cfgOf maxIter d (normalise args d).1) (initState alpha0 tr) tr.initNSel tr.steps).geminis = _ from h7]; simp [initState]
  · intro hx
    obtain ⟨ha, hb⟩ := h10 hx
    exact ⟨by rw [show (outerLoop (cfgOf maxIter d (normalise args d).1) (initState alpha0 tr) tr.initNSel tr.steps).epochsRun.length = _ from ha]; simp [initState], hb⟩
  · intro hx
    obtain ⟨ha, hb⟩ := h11 hx
    exact ⟨by rw [show (outerLoop (cfgOf maxIter d (normalise args d).1) (initState alpha0 tr) tr.initNSel tr.steps).epochsRun.length = _ from ha]; simp [initState], hb⟩

/-- instance of the master lemma at the state in which `_path` enters its outer loop -/
theorem runPath_spec (alpha0 : α) (maxIter d : Nat) (args : PathArgs α) (tr : Trace α ω) :
    ∃ (j : Nat) (scores : List α), j ≤ tr.steps.length ∧ scores.length = j ∧
      (runPath alpha0 maxIter d args tr).1.alphas = geomList alpha0 (normalise args d).1.alphaMultiplier j ∧
      (runPath alpha0 maxIter d args tr).1.nFeatures = (tr.steps.take j).map (·.nSel) ∧
      (runPath alpha0 maxIter d args tr).1.penalties = (tr.steps.take j).map (·.penalty) ∧
      (runPath alpha0 maxIter d args tr).1.weightsHist = (tr.steps.take j).map (·.weights) ∧
      (runPath alpha0 maxIter d args tr).1.geminis = scores ∧
      (runPath alpha0 maxIter d args tr).1.best = runBest d tr.initScore
          (completed scores ((tr.steps.take j).map (·.nSel)) ((tr.steps.take j).map (·.weights))) ∧
      LastAccepted (normalise args d).1.keepThreshold d tr.initScore tr.initWeights
        (completed scores ((tr.steps.take j).map (·.nSel)) ((tr.steps.take j).map (·.weights)))
        (runPath alpha0 maxIter d args tr).1.bestWeights ∧
      ((runPath alpha0 maxIter d args tr).1.exit = .normal → (runPath alpha0 maxIter d args tr).1.epochsRun.length = j ∧
          ((((tr.steps.take j).map (·.nSel)).getLast?.getD tr.initNSel : Nat) : Int) ≤ (normalise args d).1.minFeatures) ∧
      ((runPath alpha0 maxIter d args tr).1.exit = .nanAbort → (runPath alpha0 maxIter d args tr).1.epochsRun.length = j + 1 ∧
          ∃ s e, tr.steps[j]? = some s ∧ e ∈ s.epochs ∧ e.isNaN = true ∧ (runPath alpha0 maxIter d args tr).1.curW = s.weights) ∧
      ((runPath alpha0 maxIter d args tr).1.exit = .needMoreSteps → j = tr.steps.length ∧
          ((((tr.steps.take j).map (·.nSel)).getLast?.getD tr.initNSel : Nat) : Int) > (normalise args d).1.minFeatures) := by
  have h := outerLoop_spec0 alpha0 maxIter d args tr
  have e : (runPath alpha0 maxIter d args tr).1 = restoreAlpha alpha0 (outerLoop (cfgOf maxIter d (normalise args d).1) (initState alpha0 tr) tr.initNSel tr.steps) := rfl
  rw [e]
  simpa only [restoreAlpha_alphas, restoreAlpha_nFeatures, restoreAlpha_penalties, restoreAlpha_weightsHist,
    restoreAlpha_geminis, restoreAlpha_best, restoreAlpha_bestWeights, restoreAlpha_exit, restoreAlpha_epochsRun,
    restoreAlpha_curW] using h

/-- a run whose loop test fails at once is a normal exit -/
theorem runs_stop_exit (c : Cfg α) {st : PState α ω} {nSel : Nat} {steps : List (StepObs α ω)} {r : PathResult α ω}
    (hr : Runs c st nSel steps r) (h : ¬ ((nSel : Int) > c.minFeatures)) : r.exit = .normal := by
  cases hr with
  | stop => rfl
  | needSteps _ _ h' => exact absurd h' h
  | needEpochs _ _ _ _ h' => exact absurd h' h
  | unbound _ _ _ _ _ h' => exact absurd h' h
  | nan _ _ _ _ _ _ h' => exact absurd h' h
  | step _ _ _ _ _ _ _ h' => exact absurd h' h

/-- PARTIAL termination of the outer loop: if the observed selected count is at most `min_features` after some step of
    the trace, the loop does not ask for steps beyond the trace -/
theorem runs_terminates (c : Cfg α) {st : PState α ω} {nSel : Nat} {steps : List (StepObs α ω)} {r : PathResult α ω}
    (hr : Runs c st nSel steps r) (hdrop : ∃ s ∈ steps, (s.nSel : Int) ≤ c.minFeatures) : r.exit ≠ .needMoreSteps := by
  induction hr with
  | stop => intro h; cases h
  | needSteps => obtain ⟨s, hs, _⟩ := hdrop; cases hs
  | needEpochs => intro h; cases h
  | unbound => intro h; cases h
  | nan => intro h; cases h
  | step st nSel s rest i e r h hin hn hrest ih =>
    obtain ⟨s', hs', hle⟩ := hdrop
    rcases List.mem_cons.mp hs' with rfl | hmem
    · rw [runs_stop_exit c hrest (by omega)]; intro h; cases h
    · exact ih ⟨s', hmem, hle⟩

/-- every started step ran at most `max_iter` epochs -/
theorem runs_epochs_le (c : Cfg α) {st : PState α ω} {nSel : Nat} {steps : List (StepObs α ω)} {r : PathResult α ω}
    (hr : Runs c st nSel steps r) (h0 : ∀ i ∈ st.epochsRun, i ≤ c.maxIter) : ∀ i ∈ r.epochsRun, i ≤ c.maxIter := by
  have key : ∀ (st : PState α ω) (s : StepObs α ω) (i : Nat) (last : Option (Epoch α)),
      stepInner c st s = .done i last → i ≤ c.maxIter := by
    intro st s i last hin
    exact (innerLoop_done _ _ _ _ _ _ _ _ _ _ _ _ hin).2.2.1 (Nat.zero_le _)
  induction hr with
  | stop => exact h0
  | needSteps => exact h0
  | needEpochs => exact h0
  | unbound st nSel s rest i h hin =>
    intro k hk
    simp only [finish, afterInner, List.mem_append, List.mem_singleton] at hk
    rcases hk with hk | rfl
    · exact h0 k hk
    · exact key _ _ _ _ hin
  | nan st nSel s rest i e h hin hn =>
    intro k hk
    simp only [finish, afterInner, List.mem_append, List.mem_singleton] at hk
    rcases hk with hk | rfl
    · exact h0 k hk
    · exact key _ _ _ _ hin
  | step st nSel s rest i e r h hin hn hrest ih =>
    apply ih
    intro k hk
    simp only [advance, afterInner, List.mem_append, List.mem_singleton] at hk
    rcases hk with hk | rfl
    · exact h0 k hk
    · exact key _ _ _ _ hin

/-- the inner loop asks for more observations only if fewer than `max_iter` were recorded for the step -/
theorem innerLoop_exhausted (maxIter : Nat) (maxPat : Int) (esf alpha : α) (eps : List (Epoch α)) :
    ∀ (i0 : Nat) (pat : Int) (vs vl : α) (last0 : Option (Epoch α)),
      innerLoop maxIter maxPat esf alpha i0 pat vs vl last0 eps = .exhausted → i0 + eps.length < maxIter := by
  induction eps with
  | nil =>
    intro i0 pat vs vl last0 h
    unfold innerLoop at h
    split at h
    · rename_i hc; simpa using hc.1
    · cases h
  | cons e rest ih =>
    intro i0 pat vs vl last0 h
    unfold innerLoop at h
    split at h
    · have := ih _ _ _ _ _ h
      simp only [List.length_cons]; omega
    · cases h

/-- running best: steps at which not all `d` features are selected leave it unchanged -/
theorem runBest_append_not_full (d : Nat) (B0 : α) (pre post : List (α × Nat × ω))
    (h : ∀ c ∈ post, c.2.1 ≠ d) : runBest d B0 (pre ++ post) = runBest d B0 pre := by
  rw [runBest_append]
  generalize runBest d B0 pre = B
  induction post generalizing B with
  | nil => rfl
  | cons c post ih =>
    rw [runBest_cons]
    have hc : c.2.1 ≠ d := h c (List.mem_cons_self)
    have : newBest d B c.1 c.2.1 = B := by
      unfold newBest
      have : (c.2.1 == d) = false := by simpa using hc
      rw [this, Bool.and_false]; rfl
    rw [this]
    exact ih (fun c' hc' => h c' (List.mem_cons_of_mem _ hc')) B

/-! ### over the reals -/

theorem geomList_real (a m : ℝ) (T : Nat) : geomList a m T = (List.range T).map fun t => a * m ^ t := by
  induction T generalizing a with
  | zero => rfl
  | succ T ih =>
    rw [geomList, ih, List.range_succ_eq_map, List.map_cons, List.map_map]
    simp only [pow_zero, mul_one, List.cons.injEq, true_and]
    apply List.map_congr_left
    intro t _
    simp only [Function.comp, pow_succ]
    ring

theorem newBest_real (d : Nat) (B s : ℝ) (n : Nat) : newBest d B s n = if B ≤ s ∧ n = d then s else B := by
  unfold newBest
  by_cases h1 : B ≤ s <;> by_cases h2 : n = d <;> simp [h1, h2]

theorem keeps_real (thr B s : ℝ) : keeps thr B s = true ↔ thr * B ≤ s := by
  unfold keeps; simp

end GemVerif.Model.Path
