/-
  Helper definitions and lemmas for C08, control part ("the chosen split is the best one").

  Part A (generic in the number type, no order laws): `find_best_split` is three nested folds calling
  `compute_all_splits` on an explicit candidate record `candAt … j f l` at the places `(j, f, l)` where the guard
  `evaluatedB` holds (`findBestSplit_eq`), and the fold-induction principle `findBestSplit_induction` that follows.

  Part B (`compute_all_splits`; the decomposition into its four blocks `computeAllSplits_eq` is generic, the rest is
  over ℝ): the vocabulary `Admissible` (the candidates `compute_all_splits` may evaluate, each under the guard
  written in the code) and the control lemmas: the running best never decreases, dominates every admissible candidate
  (including the top-2 argument of the reallocation block, `pick_max`) and is either unchanged or the record of an
  admissible candidate (`computeAllSplits_adv`).  The gain formulas `Gen.Kauri.*` are never unfolded.

  Part C (over ℝ): the same three facts lifted through the folds of `find_best_split`.

  `Example`: two concrete candidates evaluated by hand (the only place where the gain formulas are unfolded).
-/
import GemVerif.NumReal
import GemVerif.Model.Kauri
import Mathlib.Tactic.Linarith
import Mathlib.Tactic.NormNum

namespace GemVerif.KauriC08
open GemVerif RealLike Model.Kauri

attribute [local instance low] GemVerif.Model.Kauri.instInhabited_gemVerif

/-! ## Part A: `find_best_split` as nested folds over explicit candidates (any number type) -/

section scan
variable {α : Type} [RealLike α]

theorem foldl_induction {β γ : Type} (f : β → γ → β) (P : β → Prop) (l : List γ)
    (hstep : ∀ b x, x ∈ l → P b → P (f b x)) (init : β) (h0 : P init) : P (l.foldl f init) := by
  induction l generalizing init with
  | nil => exact h0
  | cons x xs ih =>
    rw [List.foldl_cons]
    exact ih (fun b y hy hb => hstep b y (List.mem_cons_of_mem _ hy) hb) _
      (hstep init x List.mem_cons_self h0)

/-- if `Q` is established by the step at `x ∈ l` and preserved by every step, it holds at the end of the fold -/
theorem foldl_reach {β γ : Type} (f : β → γ → β) (Q : β → Prop) (l : List γ) {x : γ} (hx : x ∈ l)
    (hest : ∀ b, Q (f b x)) (hpres : ∀ b y, y ∈ l → Q b → Q (f b y)) (init : β) : Q (l.foldl f init) := by
  induction l generalizing init with
  | nil => cases hx
  | cons y ys ih =>
    rw [List.foldl_cons]
    rcases List.mem_cons.1 hx with rfl | hx'
    · exact foldl_induction f Q ys (fun b z hz hb => hpres b z (List.mem_cons_of_mem _ hz) hb) _ (hest init)
    · exact ih hx' (fun b z hz hb => hpres b z (List.mem_cons_of_mem _ hz) hb) _

variable (κ X : Nat → Nat → α) (a : Assign) (nClusters K_max nLeaves minLeaf : Nat)

/-- samples of each cluster (`Y[:n_clusters, :n_leaves] @ Z[:n_leaves]`) -/
def clusterSamplesOf : Array (List Nat) :=
  Array.ofFn fun c : Fin nClusters => a.samplesOfCluster nLeaves c.val

/-- `omega[c, i] = σ(C_c × {i})` -/
def omegaOf : Array (Array α) :=
  (clusterSamplesOf a nClusters nLeaves).map fun cs => Array.ofFn fun i : Fin a.n => sumL (cs.map fun j => κ j i.val)

/-- `gamma[c, c] = σ(C_c²)` -/
def gammaDiagOf : Array α :=
  Array.ofFn fun c : Fin nClusters =>
    sumL (((clusterSamplesOf a nClusters nLeaves)[c.val]!).map fun i => ((omegaOf κ a nClusters nLeaves)[c.val]!)[i]!)

/-- `cluster_sizes` -/
def sizesOf : Array Nat := (clusterSamplesOf a nClusters nLeaves).map List.length

/-- number of samples of leaf `j` -/
def nLeafOf (j : Nat) : Nat := (a.samplesOfLeaf j).length

/-- `nu`: the samples of leaf `j` sorted by feature `f` -/
def nuOf (j f : Nat) : Array Nat :=
  ((sortBy (fun x y => le x y) ((a.samplesOfLeaf j).map fun i => (X i f, i))).map (·.2)).toArray

/-- the accumulators `sl_square`, `sr_square`, `sl_clusters`, `sr_clusters` of the sorted scan -/
structure Acc (α : Type) where
  sl : α
  sr : α
  slc : Array α
  src : Array α

/-- their values before the scan of leaf `j` -/
def accInit (j : Nat) : Acc α :=
  ⟨0, stock κ (a.samplesOfLeaf j) (a.samplesOfLeaf j), Array.replicate nClusters 0,
   Array.ofFn fun c : Fin nClusters =>
     sumL ((a.samplesOfLeaf j).map fun i => ((omegaOf κ a nClusters nLeaves)[c.val]!)[i]!)⟩

/-- their update when the sample at sorted position `l` moves from the right part to the left part -/
def accStep (j f : Nat) (s : Acc α) (l : Nat) : Acc α :=
  let nu := nuOf X a j f
  let i := nu[l]!
  let alpha := sumL ((List.range l).map fun l' => κ i nu[l']!)
  let beta := sumL ((List.range (nLeafOf a j - 1 - l)).map fun d => κ i nu[l + 1 + d]!)
  ⟨s.sl + (nat 2 * alpha + κ i i), s.sr - (nat 2 * beta + κ i i),
   Array.ofFn fun c : Fin nClusters => s.slc[c.val]! + ((omegaOf κ a nClusters nLeaves)[c.val]!)[i]!,
   Array.ofFn fun c : Fin nClusters => s.src[c.val]! - ((omegaOf κ a nClusters nLeaves)[c.val]!)[i]!⟩

/-- the accumulators after the first `m` sorted samples of leaf `j` (feature `f`) have moved to the left -/
def accAt (j f m : Nat) : Acc α :=
  (List.range m).foldl (accStep κ X a nClusters nLeaves j f) (accInit κ a nClusters nLeaves j)

/-- The candidate record that `find_best_split` passes to `compute_all_splits` at leaf `j`, feature `f`, sorted
    position `l` (the left part is the first `l + 1` sorted samples, the threshold is the value of the `l`-th). -/
def candAt (j f l : Nat) : Cand α :=
  let s := accAt κ X a nClusters nLeaves j f (l + 1)
  { sl_square := s.sl, sr_square := s.sr,
    leaf_square := stock κ (a.samplesOfLeaf j) (a.samplesOfLeaf j),
    sl_clusters := fun c => s.slc[c]!, sr_clusters := fun c => s.src[c]!,
    cluster_sizes := fun c => (sizesOf a nClusters nLeaves)[c]!,
    gammaDiag := fun c => (gammaDiagOf κ a nClusters nLeaves)[c]!,
    omega_k_feat := ((omegaOf κ a nClusters nLeaves)[a.clusterOf[j]!]!)[f]!,
    n_leaf := nLeafOf a j, n_clusters := nClusters, K_max := K_max, k := a.clusterOf[j]!, leaf_id := j,
    split_size := l + 1, feature_id := f, threshold := X (nuOf X a j f)[l]! f }

/-- the guard (as computed) under which the scan calls `compute_all_splits` at position `l` -/
def evaluatedB (j f l : Nat) : Bool :=
  !(l + 1 < minLeaf || l + minLeaf + 1 > nLeafOf a j) &&
    !(beq (X (nuOf X a j f)[l]! f) (X (nuOf X a j f)[l + 1]! f))

/-- The scan of leaf `j`, feature `f` calls `compute_all_splits` at sorted position `l`: both parts keep at least
    `min_samples_leaf` samples and the feature values at positions `l` and `l + 1` differ (`==` of the code false). -/
def Evaluated (j f l : Nat) : Prop :=
  l < nLeafOf a j - 1 ∧ minLeaf ≤ l + 1 ∧ l + minLeaf + 1 ≤ nLeafOf a j ∧
    beq (X (nuOf X a j f)[l]! f) (X (nuOf X a j f)[l + 1]! f) = false

theorem evaluatedB_eq_true {j f l : Nat} :
    evaluatedB X a minLeaf j f l = true ↔
      (minLeaf ≤ l + 1 ∧ l + minLeaf + 1 ≤ nLeafOf a j ∧
        beq (X (nuOf X a j f)[l]! f) (X (nuOf X a j f)[l + 1]! f) = false) := by
  unfold evaluatedB
  simp only [Bool.and_eq_true, Bool.not_eq_true', Bool.or_eq_false_iff, decide_eq_false_iff_not, not_lt, gt_iff_lt]
  tauto

/-- the update of the running best at position `l` of the scan -/
def bestUpd (j f : Nat) (b : Split α) (l : Nat) : Split α :=
  if evaluatedB X a minLeaf j f l then computeAllSplits b (candAt κ X a nClusters K_max nLeaves j f l) else b

/-- the body of the `l_split` loop of the model, with its free variables as parameters -/
def scanBody (j f : Nat) (s : Scan α) (l : Nat) : Scan α :=
  let omega := omegaOf κ a nClusters nLeaves
  let gammaDiag := gammaDiagOf κ a nClusters nLeaves
  let sizes := sizesOf a nClusters nLeaves
  let leaf := a.samplesOfLeaf j
  let k := a.clusterOf[j]!
  let nLeaf := nLeafOf a j
  let leafSq : α := stock κ leaf leaf
  let nu : Array Nat := nuOf X a j f
  let i := nu[l]!
  let alpha := sumL ((List.range l).map fun l' => κ i nu[l']!)
  let beta := sumL ((List.range (nLeaf - 1 - l)).map fun d => κ i nu[l + 1 + d]!)
  let sl := s.sl_square + (nat 2 * alpha + κ i i)
  let sr := s.sr_square - (nat 2 * beta + κ i i)
  let slc := Array.ofFn fun c : Fin nClusters => s.sl_clusters[c.val]! + (omega[c.val]!)[i]!
  let src := Array.ofFn fun c : Fin nClusters => s.sr_clusters[c.val]! - (omega[c.val]!)[i]!
  let s' : Scan α := ⟨sl, sr, slc, src, s.best⟩
  if l + 1 < minLeaf || l + minLeaf + 1 > nLeaf then s'
  else if beq (X i f) (X nu[l + 1]! f) then s'
  else
    let c : Cand α := {
      sl_square := sl, sr_square := sr, leaf_square := leafSq,
      sl_clusters := fun c => slc[c]!, sr_clusters := fun c => src[c]!,
      cluster_sizes := fun c => sizes[c]!, gammaDiag := fun c => gammaDiag[c]!,
      omega_k_feat := (omega[k]!)[f]!,
      n_leaf := nLeaf, n_clusters := nClusters, K_max := K_max, k := k, leaf_id := j,
      split_size := l + 1, feature_id := f, threshold := X i f }
    { s' with best := computeAllSplits s'.best c }

/-- the model is literally these three folds -/
theorem findBestSplit_eq_scanBody (toExplore features : List Nat) :
    findBestSplit κ X toExplore a nClusters K_max nLeaves minLeaf features =
      toExplore.foldl (fun best j =>
        features.foldl (fun best f =>
          ((List.range (nLeafOf a j - 1)).foldl (scanBody κ X a nClusters K_max nLeaves minLeaf j f)
            ⟨(accInit κ a nClusters nLeaves j).sl, (accInit κ a nClusters nLeaves j).sr,
             (accInit κ a nClusters nLeaves j).slc, (accInit κ a nClusters nLeaves j).src, best⟩).best) best)
        Split.init := rfl

/-- the scan state whose accumulators are `A` and whose running best is `b` -/
def Acc.toScan (A : Acc α) (b : Split α) : Scan α := ⟨A.sl, A.sr, A.slc, A.src, b⟩

theorem accAt_succ (j f m : Nat) :
    accAt κ X a nClusters nLeaves j f (m + 1) =
      accStep κ X a nClusters nLeaves j f (accAt κ X a nClusters nLeaves j f m) m := by
  unfold accAt
  rw [List.range_succ, List.foldl_append, List.foldl_cons, List.foldl_nil]

/-- one iteration of the scan: the accumulators advance and the running best is updated by `bestUpd` -/
theorem scanBody_toScan (j f l : Nat) (b : Split α) :
    scanBody κ X a nClusters K_max nLeaves minLeaf j f ((accAt κ X a nClusters nLeaves j f l).toScan b) l =
      (accAt κ X a nClusters nLeaves j f (l + 1)).toScan (bestUpd κ X a nClusters K_max nLeaves minLeaf j f b l) := by
  unfold bestUpd evaluatedB candAt
  rw [accAt_succ]
  unfold scanBody
  dsimp only
  generalize (decide (l + 1 < minLeaf) || decide (l + minLeaf + 1 > nLeafOf a j)) = A
  generalize beq (X (nuOf X a j f)[l]! f) (X (nuOf X a j f)[l + 1]! f) = B
  cases A <;> cases B <;> rfl

theorem scan_fold (j f m : Nat) (b : Split α) :
    (List.range m).foldl (scanBody κ X a nClusters K_max nLeaves minLeaf j f)
        ((accAt κ X a nClusters nLeaves j f 0).toScan b) =
      (accAt κ X a nClusters nLeaves j f m).toScan
        ((List.range m).foldl (bestUpd κ X a nClusters K_max nLeaves minLeaf j f) b) := by
  induction m with
  | zero => rfl
  | succ m ih =>
    rw [List.range_succ, List.foldl_append, List.foldl_append, ih]
    simp only [List.foldl_cons, List.foldl_nil]
    exact scanBody_toScan κ X a nClusters K_max nLeaves minLeaf j f m _

/-- `find_best_split` is three nested folds — leaves to explore, candidate features, positions of the sorted scan —
    that update the running best by `compute_all_splits` on `candAt … j f l` wherever `evaluatedB … j f l`. -/
theorem findBestSplit_eq (toExplore features : List Nat) :
    findBestSplit κ X toExplore a nClusters K_max nLeaves minLeaf features =
      toExplore.foldl (fun best j =>
        features.foldl (fun best f =>
          (List.range (nLeafOf a j - 1)).foldl (bestUpd κ X a nClusters K_max nLeaves minLeaf j f) best) best)
        Split.init := by
  rw [findBestSplit_eq_scanBody]
  congr 1
  funext best j
  congr 1
  funext best f
  exact congrArg Scan.best (scan_fold κ X a nClusters K_max nLeaves minLeaf j f (nLeafOf a j - 1) best)

/-- Fold induction for `find_best_split`: a predicate that holds for the initial `Split(0, -1, -1, -1, -1, 0)` and is
    preserved by every call of `compute_all_splits` at an evaluated place holds for the result. -/
theorem findBestSplit_induction (toExplore features : List Nat) (P : Split α → Prop) (h0 : P Split.init)
    (hstep : ∀ b j f l, j ∈ toExplore → f ∈ features → Evaluated X a minLeaf j f l → P b →
      P (computeAllSplits b (candAt κ X a nClusters K_max nLeaves j f l))) :
    P (findBestSplit κ X toExplore a nClusters K_max nLeaves minLeaf features) := by
  rw [findBestSplit_eq]
  refine foldl_induction _ P _ (fun b j hj hb => ?_) _ h0
  refine foldl_induction _ P _ (fun b f hf hb => ?_) _ hb
  refine foldl_induction _ P _ (fun b l hl hb => ?_) _ hb
  unfold bestUpd
  split_ifs with he
  · rw [evaluatedB_eq_true] at he
    exact hstep b j f l hj hf ⟨List.mem_range.1 hl, he⟩ hb
  · exact hb

end scan

/-! ## Part B: `compute_all_splits` over ℝ -/

noncomputable section computeAllSplits

/-- the record `compute_all_splits` writes into `best_split` for candidate `c`: gain `g`, targets `(l, r)` -/
def Cand.record {α : Type} (c : Cand α) (g : α) (l r : Int) : Split α :=
  ⟨g, c.leaf_id, l, r, c.feature_id, c.threshold⟩

theorem set_eq_record {α : Type} (b : Split α) (c : Cand α) (g : α) (l r : Nat) :
    b.set c g l r = Cand.record c g (l : Int) (r : Int) := rfl

/-- `left_switch` of the code for the other cluster `p` -/
abbrev lsw (c : Cand ℝ) (p : Nat) : ℝ := c.app Gen.Kauri.leftSwitch p
/-- `right_switch` of the code for the other cluster `p` -/
abbrev rsw (c : Cand ℝ) (p : Nat) : ℝ := c.app Gen.Kauri.rightSwitch p

/-- The candidates `compute_all_splits` may evaluate for `c` — gain, target of the left part, target of the right
    part — each under the guard written in the code.  (`2 ≤ n_clusters` / `3 ≤ n_clusters` are the guards of the
    switch and refurbish blocks; they follow from the other conditions when `c.k < c.n_clusters`, see
    `two_le_of_switch`, `three_le_of_realloc`.) -/
inductive Admissible (c : Cand ℝ) : ℝ → Int → Int → Prop
  /-- both parts become new clusters -/
  | doubleStar : c.n_clusters + 1 < c.K_max → c.n_leaf ≠ c.cluster_sizes c.k →
      Admissible c (c.app Gen.Kauri.doubleStar c.k) (c.n_clusters : Int) ((c.n_clusters + 1 : Nat) : Int)
  /-- the left part becomes a new cluster, the right part stays in `k` -/
  | leftStar : c.n_clusters < c.K_max →
      Admissible c (c.app Gen.Kauri.leftStar c.k) (c.n_clusters : Int) (c.k : Int)
  /-- the right part becomes a new cluster, the left part stays in `k` -/
  | rightStar : c.n_clusters < c.K_max →
      Admissible c (c.app Gen.Kauri.rightStar c.k) (c.k : Int) (c.n_clusters : Int)
  /-- the left part joins the existing cluster `p` -/
  | leftSwitch (p : Nat) : 2 ≤ c.n_clusters → p < c.n_clusters → p ≠ c.k →
      Admissible c (lsw c p) (p : Int) (c.k : Int)
  /-- the right part joins the existing cluster `p` -/
  | rightSwitch (p : Nat) : 2 ≤ c.n_clusters → p < c.n_clusters → p ≠ c.k →
      Admissible c (rsw c p) (c.k : Int) (p : Int)
  /-- the left part joins `l`, the right part joins `r`, two different existing clusters other than `k` -/
  | realloc (l r : Nat) : 3 ≤ c.n_clusters → c.n_leaf ≠ c.cluster_sizes c.k →
      l < c.n_clusters → r < c.n_clusters → l ≠ c.k → r ≠ c.k → l ≠ r →
      Admissible c (lsw c l + rsw c r + c.app Gen.Kauri.corrective c.k) (l : Int) (r : Int)

theorem two_le_of_switch {c : Cand ℝ} (hk : c.k < c.n_clusters) {p : Nat} (hp : p < c.n_clusters) (hpk : p ≠ c.k) :
    2 ≤ c.n_clusters := by omega

theorem three_le_of_realloc {c : Cand ℝ} (hk : c.k < c.n_clusters) {l r : Nat} (hl : l < c.n_clusters)
    (hr : r < c.n_clusters) (hlk : l ≠ c.k) (hrk : r ≠ c.k) (hlr : l ≠ r) : 3 ≤ c.n_clusters := by omega

/-- the candidate is one of the two switch candidates of some other cluster `p` (the block that overwrites on ties) -/
def IsSwitch (c : Cand ℝ) (g : ℝ) (l r : Int) : Prop :=
  ∃ p : Nat, p < c.n_clusters ∧ p ≠ c.k ∧
    ((g = lsw c p ∧ l = (p : Int) ∧ r = (c.k : Int)) ∨ (g = rsw c p ∧ l = (c.k : Int) ∧ r = (p : Int)))

/-- `b'` is what the running best `b` may have become after evaluating candidates of `c`: unchanged, or the record of
    an admissible candidate whose gain is at least (strictly more than, unless it is a switch candidate) `b.gain`. -/
def Adv (c : Cand ℝ) (b b' : Split ℝ) : Prop :=
  b' = b ∨ ∃ g l r, Admissible c g l r ∧ b' = Cand.record c g l r ∧ b.gain ≤ g ∧ (b.gain < g ∨ IsSwitch c g l r)

theorem Adv.refl (c : Cand ℝ) (b : Split ℝ) : Adv c b b := Or.inl rfl

theorem Adv.gain_le {c : Cand ℝ} {b b' : Split ℝ} (h : Adv c b b') : b.gain ≤ b'.gain := by
  rcases h with rfl | ⟨g, l, r, _, rfl, hg, _⟩
  · exact le_refl _
  · exact hg

theorem Adv.trans {c : Cand ℝ} {b b' b'' : Split ℝ} (h1 : Adv c b b') (h2 : Adv c b' b'') : Adv c b b'' := by
  rcases h2 with rfl | ⟨g, l, r, ha, rfl, hg, hs⟩
  · exact h1
  · have := h1.gain_le
    refine Or.inr ⟨g, l, r, ha, rfl, le_trans this hg, ?_⟩
    rcases hs with hs | hs
    · exact Or.inl (lt_of_le_of_lt this hs)
    · exact Or.inr hs

theorem Adv.of_lt {c : Cand ℝ} {b : Split ℝ} {g : ℝ} {l r : Int} (ha : Admissible c g l r) (hg : b.gain < g) :
    Adv c b (Cand.record c g l r) :=
  Or.inr ⟨g, l, r, ha, rfl, le_of_lt hg, Or.inl hg⟩

/-! ### the four blocks of `compute_all_splits` -/

section stages
variable {α : Type} [RealLike α]

/-- double-star block -/
def stage1 (c : Cand α) (best : Split α) : Split α :=
  if c.n_clusters + 1 < c.K_max && c.n_leaf != c.cluster_sizes c.k then
    let g := c.app Gen.Kauri.doubleStar c.k
    if lt best.gain g then best.set c g c.n_clusters (c.n_clusters + 1) else best
  else best

/-- single-star block -/
def stage2 (c : Cand α) (best : Split α) : Split α :=
  if c.n_clusters < c.K_max then
    let l := c.app Gen.Kauri.leftStar c.k
    let r := c.app Gen.Kauri.rightStar c.k
    if lt best.gain l || lt best.gain r then
      if lt r l then best.set c l c.n_clusters c.k else best.set c r c.k c.n_clusters
    else best
  else best

/-- the choice of the pair of switches in the refurbish block -/
def pick (t : Top2 α) : NegInf α × Int × Int :=
  if t.topKL != t.topKR then (addN t.topGL t.topGR, t.topKL, t.topKR)
  else if gtN (addN t.topGL t.secGR) (addN t.topGR t.secGL) then (addN t.topGL t.secGR, t.topKL, t.secKR)
  else (addN t.topGR t.secGL, t.secKL, t.topKR)

/-- refurbish (reallocation) block -/
def stage4 (c : Cand α) (t : Top2 α) (best : Split α) : Split α :=
  if c.n_clusters ≥ 3 && c.n_leaf != c.cluster_sizes c.k then
    match (pick t).1 with
    | some r =>
      if lt best.gain (r + c.app Gen.Kauri.corrective c.k) then
        Cand.record c (r + c.app Gen.Kauri.corrective c.k) (pick t).2.1 (pick t).2.2
      else best
    | none => best
  else best

/-- switch loop followed by the refurbish block -/
def stage34 (c : Cand α) (best : Split α) : Split α :=
  if c.n_clusters ≥ 2 then
    stage4 c ((List.range c.n_clusters).foldl (switchStep c) (({} : Top2 α), best)).1
      ((List.range c.n_clusters).foldl (switchStep c) (({} : Top2 α), best)).2
  else best

theorem computeAllSplits_eq (best : Split α) (c : Cand α) :
    computeAllSplits best c = stage34 c (stage2 c (stage1 c best)) := by
  unfold computeAllSplits
  extract_lets csk g b1 l r b2 corr
  have h1 : b1 = stage1 c best := rfl
  have h2 : b2 = stage2 c b1 := rfl
  have h3 : corr = c.app Gen.Kauri.corrective c.k := rfl
  have h4 : csk = c.cluster_sizes c.k := rfl
  clear_value b1 b2 corr csk
  subst h1 h2 h3 h4
  unfold stage34
  by_cases h : c.n_clusters ≥ 2
  · rw [if_pos h, if_pos h]
    generalize List.foldl (switchStep c) (({} : Top2 α), stage2 c (stage1 c best)) (List.range c.n_clusters) = st
    obtain ⟨t, b⟩ := st
    unfold stage4 pick
    dsimp only
    split_ifs <;> rfl
  · rw [if_neg h, if_neg h]

end stages

/-! ### double-star and single-star blocks -/

theorem stage1_adv (c : Cand ℝ) (b : Split ℝ) : Adv c b (stage1 c b) := by
  unfold stage1
  dsimp only
  split_ifs with h1 h2
  · simp only [Bool.and_eq_true, decide_eq_true_eq, bne_iff_ne, ne_eq] at h1
    rw [set_eq_record]
    exact Adv.of_lt (Admissible.doubleStar h1.1 h1.2) (by simpa using h2)
  · exact Adv.refl _ _
  · exact Adv.refl _ _

theorem stage1_max (c : Cand ℝ) (b : Split ℝ) (h1 : c.n_clusters + 1 < c.K_max)
    (h2 : c.n_leaf ≠ c.cluster_sizes c.k) : c.app Gen.Kauri.doubleStar c.k ≤ (stage1 c b).gain := by
  unfold stage1
  dsimp only
  rw [if_pos (by simp [h1, h2])]
  split_ifs with h
  · exact le_refl _
  · simpa using h

theorem stage2_adv (c : Cand ℝ) (b : Split ℝ) : Adv c b (stage2 c b) := by
  unfold stage2
  dsimp only
  split_ifs with h1 h2 h3
  · simp only [lt_real, Bool.or_eq_true, decide_eq_true_eq] at h2 h3
    rw [set_eq_record]
    refine Adv.of_lt (Admissible.leftStar h1) ?_
    rcases h2 with h2 | h2
    · exact h2
    · exact lt_trans h2 h3
  · simp only [lt_real, Bool.or_eq_true, decide_eq_true_eq, not_lt] at h2 h3
    rw [set_eq_record]
    refine Adv.of_lt (Admissible.rightStar h1) ?_
    rcases h2 with h2 | h2
    · exact lt_of_lt_of_le h2 h3
    · exact h2
  · exact Adv.refl _ _
  · exact Adv.refl _ _

theorem stage2_max (c : Cand ℝ) (b : Split ℝ) (h1 : c.n_clusters < c.K_max) :
    c.app Gen.Kauri.leftStar c.k ≤ (stage2 c b).gain ∧ c.app Gen.Kauri.rightStar c.k ≤ (stage2 c b).gain := by
  unfold stage2
  dsimp only
  rw [if_pos h1]
  split_ifs with h2 h3
  · simp only [lt_real, decide_eq_true_eq] at h3
    exact ⟨le_refl _, le_of_lt h3⟩
  · simp only [lt_real, decide_eq_true_eq, not_lt] at h3
    exact ⟨h3, le_refl _⟩
  · simp only [lt_real, Bool.or_eq_true, decide_eq_true_eq, not_or, not_lt] at h2
    exact h2

/-! ### the switch loop: running best -/

/-- the `best_split` update of one iteration of the switch loop -/
def bestStep (c : Cand ℝ) (b : Split ℝ) (p : Nat) : Split ℝ :=
  if c.k = p then b else
  if le b.gain (lsw c p) || le b.gain (rsw c p) then
    if lt (rsw c p) (lsw c p) then Cand.record c (lsw c p) p c.k else Cand.record c (rsw c p) c.k p
  else b

theorem switchStep_snd (c : Cand ℝ) (st : Top2 ℝ × Split ℝ) (p : Nat) :
    (switchStep c st p).2 = bestStep c st.2 p := by
  obtain ⟨t, b⟩ := st
  unfold switchStep bestStep
  dsimp only
  split_ifs <;> rfl

theorem bestStep_adv (c : Cand ℝ) (b : Split ℝ) {p : Nat} (hn : 2 ≤ c.n_clusters) (hp : p < c.n_clusters) :
    Adv c b (bestStep c b p) := by
  unfold bestStep
  split_ifs with hk h1 h2
  · exact Adv.refl _ _
  · simp only [le_real, lt_real, Bool.or_eq_true, decide_eq_true_eq] at h1 h2
    have hpk : p ≠ c.k := fun h => hk h.symm
    refine Or.inr ⟨_, _, _, Admissible.leftSwitch p hn hp hpk, rfl, ?_, Or.inr ⟨p, hp, hpk, Or.inl ⟨rfl, rfl, rfl⟩⟩⟩
    rcases h1 with h1 | h1
    · exact h1
    · exact le_trans h1 (le_of_lt h2)
  · simp only [le_real, lt_real, Bool.or_eq_true, decide_eq_true_eq, not_lt] at h1 h2
    have hpk : p ≠ c.k := fun h => hk h.symm
    refine Or.inr ⟨_, _, _, Admissible.rightSwitch p hn hp hpk, rfl, ?_, Or.inr ⟨p, hp, hpk, Or.inr ⟨rfl, rfl, rfl⟩⟩⟩
    rcases h1 with h1 | h1
    · exact le_trans h1 h2
    · exact h1
  · exact Adv.refl _ _

theorem bestStep_max (c : Cand ℝ) (b : Split ℝ) {p : Nat} (hk : c.k ≠ p) :
    lsw c p ≤ (bestStep c b p).gain ∧ rsw c p ≤ (bestStep c b p).gain := by
  unfold bestStep
  rw [if_neg hk]
  split_ifs with h1 h2
  · simp only [lt_real, decide_eq_true_eq] at h2
    exact ⟨le_refl _, le_of_lt h2⟩
  · simp only [lt_real, decide_eq_true_eq, not_lt] at h2
    exact ⟨h2, le_refl _⟩
  · simp only [le_real, Bool.or_eq_true, decide_eq_true_eq, not_or, not_le] at h1
    exact ⟨le_of_lt h1.1, le_of_lt h1.2⟩

/-! ### the switch loop: top-2 tracking -/

/-- `x ≤ o` where `none` is `-∞` -/
def leN (x : ℝ) (o : NegInf ℝ) : Prop := ∃ y, o = some y ∧ x ≤ y

/-- the four top-2 variables of one side (left or right) -/
structure Side where
  tg : NegInf ℝ
  sg : NegInf ℝ
  tk : Int
  sk : Int

/-- the `if … >= top … elif … >= second …` update of one side -/
def Side.upd (s : Side) (x : ℝ) (p : Nat) : Side :=
  if geN x s.tg then ⟨some x, s.tg, p, s.tk⟩ else if geN x s.sg then ⟨s.tg, some x, s.tk, p⟩ else s

def Top2L (t : Top2 ℝ) : Side := ⟨t.topGL, t.secGL, t.topKL, t.secKL⟩
def Top2R (t : Top2 ℝ) : Side := ⟨t.topGR, t.secGR, t.topKR, t.secKR⟩

theorem switchStep_L (c : Cand ℝ) (t : Top2 ℝ) (b : Split ℝ) {p : Nat} (h : c.k ≠ p) :
    Top2L (switchStep c (t, b) p).1 = (Top2L t).upd (lsw c p) p := by
  unfold switchStep
  rw [if_neg h]
  dsimp only [Top2L, Side.upd]
  split_ifs <;> rfl

theorem switchStep_R (c : Cand ℝ) (t : Top2 ℝ) (b : Split ℝ) {p : Nat} (h : c.k ≠ p) :
    Top2R (switchStep c (t, b) p).1 = (Top2R t).upd (rsw c p) p := by
  unfold switchStep
  rw [if_neg h]
  dsimp only [Top2R, Side.upd]
  split_ifs <;> rfl

/-- invariant of the top-2 tracking of `f` over the clusters `q < n`, `q ≠ k` -/
structure TopInv (f : Nat → ℝ) (k n : Nat) (s : Side) : Prop where
  top_ge : ∀ q, q < n → q ≠ k → leN (f q) s.tg
  sec_ge : ∀ q, q < n → q ≠ k → (q : Int) ≠ s.tk → leN (f q) s.sg
  top_at : ∀ y, s.tg = some y → ∃ q, q < n ∧ q ≠ k ∧ s.tk = (q : Int) ∧ f q = y
  sec_at : ∀ y, s.sg = some y → ∃ q, q < n ∧ q ≠ k ∧ s.sk = (q : Int) ∧ (q : Int) ≠ s.tk ∧ f q = y

theorem TopInv.init (f : Nat → ℝ) (k : Nat) : TopInv f k 0 ⟨none, none, -1, -1⟩ :=
  ⟨fun q h _ => absurd h (Nat.not_lt_zero q), fun q h _ _ => absurd h (Nat.not_lt_zero q),
   fun y h => (by cases h), fun y h => (by cases h)⟩

theorem TopInv.skip {f : Nat → ℝ} {k n : Nat} {s : Side} (h : TopInv f k n s) (hk : k = n) :
    TopInv f k (n + 1) s := by
  have lt_of : ∀ q, q < n + 1 → q ≠ k → q < n := fun q h1 h2 => by omega
  refine ⟨fun q h1 h2 => h.top_ge q (lt_of q h1 h2) h2, fun q h1 h2 => h.sec_ge q (lt_of q h1 h2) h2, ?_, ?_⟩
  · intro y hy
    obtain ⟨q, h1, h2⟩ := h.top_at y hy
    exact ⟨q, Nat.lt_succ_of_lt h1, h2⟩
  · intro y hy
    obtain ⟨q, h1, h2⟩ := h.sec_at y hy
    exact ⟨q, Nat.lt_succ_of_lt h1, h2⟩

theorem geN_iff (x : ℝ) (o : NegInf ℝ) : geN x o = true ↔ ∀ y, o = some y → y ≤ x := by
  cases o with
  | none => simp [geN]
  | some z => simp [geN]

theorem not_geN_iff (x : ℝ) (o : NegInf ℝ) : ¬ geN x o = true ↔ ∃ y, o = some y ∧ x < y := by
  cases o with
  | none => simp [geN]
  | some z => simp [geN]

theorem TopInv.step {f : Nat → ℝ} {k n : Nat} {s : Side} (h : TopInv f k n s) (hk : k ≠ n) :
    TopInv f k (n + 1) (s.upd (f n) n) := by
  have cast_ne : ∀ q, q < n → (q : Int) ≠ (n : Int) := fun q hq => by omega
  unfold Side.upd
  split_ifs with h1 h2
  · -- new top
    rw [geN_iff] at h1
    refine ⟨?_, ?_, ?_, ?_⟩
    · intro q hq hqk
      rcases Nat.lt_succ_iff_lt_or_eq.1 hq with hq | rfl
      · obtain ⟨y, hy, hle⟩ := h.top_ge q hq hqk
        exact ⟨_, rfl, le_trans hle (h1 y hy)⟩
      · exact ⟨_, rfl, le_refl _⟩
    · intro q hq hqk hne
      rcases Nat.lt_succ_iff_lt_or_eq.1 hq with hq | rfl
      · exact h.top_ge q hq hqk
      · exact absurd rfl hne
    · intro y hy
      cases hy
      exact ⟨n, Nat.lt_succ_self n, fun e => hk e.symm, rfl, rfl⟩
    · intro y hy
      obtain ⟨q, hq, hqk, htk, hf⟩ := h.top_at y hy
      exact ⟨q, Nat.lt_succ_of_lt hq, hqk, htk, cast_ne q hq, hf⟩
  · -- new second
    rw [not_geN_iff] at h1
    rw [geN_iff] at h2
    obtain ⟨y1, hy1, hlt1⟩ := h1
    obtain ⟨q1, hq1, hq1k, htk1, hf1⟩ := h.top_at y1 hy1
    refine ⟨?_, ?_, ?_, ?_⟩
    · intro q hq hqk
      rcases Nat.lt_succ_iff_lt_or_eq.1 hq with hq | rfl
      · exact h.top_ge q hq hqk
      · exact ⟨y1, hy1, le_of_lt hlt1⟩
    · intro q hq hqk hne
      rcases Nat.lt_succ_iff_lt_or_eq.1 hq with hq | rfl
      · obtain ⟨y, hy, hle⟩ := h.sec_ge q hq hqk hne
        exact ⟨_, rfl, le_trans hle (h2 y hy)⟩
      · exact ⟨_, rfl, le_refl _⟩
    · intro y hy
      obtain ⟨q, hq, h'⟩ := h.top_at y hy
      exact ⟨q, Nat.lt_succ_of_lt hq, h'⟩
    · intro y hy
      cases hy
      refine ⟨n, Nat.lt_succ_self n, fun e => hk e.symm, rfl, ?_, rfl⟩
      show (n : Int) ≠ s.tk
      rw [htk1]
      exact fun e => cast_ne q1 hq1 e.symm
  · -- unchanged
    rw [not_geN_iff] at h1 h2
    obtain ⟨y1, hy1, hlt1⟩ := h1
    obtain ⟨y2, hy2, hlt2⟩ := h2
    refine ⟨?_, ?_, ?_, ?_⟩
    · intro q hq hqk
      rcases Nat.lt_succ_iff_lt_or_eq.1 hq with hq | rfl
      · exact h.top_ge q hq hqk
      · exact ⟨y1, hy1, le_of_lt hlt1⟩
    · intro q hq hqk hne
      rcases Nat.lt_succ_iff_lt_or_eq.1 hq with hq | rfl
      · exact h.sec_ge q hq hqk hne
      · exact ⟨y2, hy2, le_of_lt hlt2⟩
    · intro y hy
      obtain ⟨q, hq, h'⟩ := h.top_at y hy
      exact ⟨q, Nat.lt_succ_of_lt hq, h'⟩
    · intro y hy
      obtain ⟨q, hq, h'⟩ := h.sec_at y hy
      exact ⟨q, Nat.lt_succ_of_lt hq, h'⟩

/-! ### the choice of the pair in the refurbish block -/

theorem addN_some (x y : ℝ) : addN (some x) (some y) = some (x + y) := rfl

theorem addN_eq_some {a b : NegInf ℝ} {m : ℝ} (h : addN a b = some m) :
    ∃ x y, a = some x ∧ b = some y ∧ m = x + y := by
  cases a with
  | none => cases h
  | some x =>
    cases b with
    | none => cases h
    | some y => exact ⟨x, y, rfl, rfl, (Option.some.inj h).symm⟩

theorem gtN_some (x y : ℝ) : gtN (some x) (some y) = decide (y < x) := rfl

/-- The pair chosen by the refurbish block dominates `left_switch(l) + right_switch(r)` for every pair of different
    clusters `l ≠ r` other than `k`: this is the top-2 argument (when both maxima sit on the same cluster, the best
    pair uses the second best of one side). -/
theorem pick_max {c : Cand ℝ} {t : Top2 ℝ} {n : Nat} (hL : TopInv (lsw c) c.k n (Top2L t))
    (hR : TopInv (rsw c) c.k n (Top2R t)) {l r : Nat} (hl : l < n) (hlk : l ≠ c.k) (hr : r < n) (hrk : r ≠ c.k)
    (hlr : l ≠ r) : ∃ m, (pick t).1 = some m ∧ lsw c l + rsw c r ≤ m := by
  obtain ⟨a, ha, hla⟩ := hL.top_ge l hl hlk
  obtain ⟨b, hb, hrb⟩ := hR.top_ge r hr hrk
  change t.topGL = some a at ha
  change t.topGR = some b at hb
  unfold pick
  by_cases h : t.topKL = t.topKR
  · have hne : (l : Int) ≠ t.topKL ∨ (r : Int) ≠ t.topKL := by
      by_contra hc
      simp only [not_or, not_not] at hc
      exact hlr (by omega)
    -- both second bests exist
    obtain ⟨a', ha'⟩ : ∃ a', t.secGL = some a' := by
      rcases hne with h1 | h1
      · obtain ⟨y, hy, _⟩ := hL.sec_ge l hl hlk h1; exact ⟨y, hy⟩
      · obtain ⟨y, hy, _⟩ := hL.sec_ge r hr hrk h1; exact ⟨y, hy⟩
    obtain ⟨b', hb'⟩ : ∃ b', t.secGR = some b' := by
      rcases hne with h1 | h1
      · obtain ⟨y, hy, _⟩ := hR.sec_ge l hl hlk (show (l : Int) ≠ t.topKR from h ▸ h1); exact ⟨y, hy⟩
      · obtain ⟨y, hy, _⟩ := hR.sec_ge r hr hrk (show (r : Int) ≠ t.topKR from h ▸ h1); exact ⟨y, hy⟩
    have hcond : ¬ (t.topKL != t.topKR) = true := by simp [h]
    rw [if_neg hcond, ha, hb, ha', hb', addN_some, addN_some, gtN_some]
    have hbound : lsw c l + rsw c r ≤ a + b' ∨ lsw c l + rsw c r ≤ b + a' := by
      rcases hne with h1 | h1
      · obtain ⟨y, hy, hle⟩ := hL.sec_ge l hl hlk h1
        have : y = a' := Option.some.inj (hy.symm.trans ha')
        subst this
        right; linarith
      · obtain ⟨y, hy, hle⟩ := hR.sec_ge r hr hrk (show (r : Int) ≠ t.topKR from h ▸ h1)
        have : y = b' := Option.some.inj (hy.symm.trans hb')
        subst this
        left; linarith
    split_ifs with hgt
    · simp only [decide_eq_true_eq] at hgt
      refine ⟨_, rfl, ?_⟩
      rcases hbound with hbd | hbd
      · exact hbd
      · linarith
    · simp only [decide_eq_true_eq, not_lt] at hgt
      refine ⟨_, rfl, ?_⟩
      rcases hbound with hbd | hbd
      · linarith
      · exact hbd
  · have hcond : (t.topKL != t.topKR) = true := by simp [h]
    rw [if_pos hcond, ha, hb, addN_some]
    exact ⟨_, rfl, by linarith⟩

/-- The pair chosen by the refurbish block is a pair of two different clusters other than `k`, and the reference gain
    is the sum of their switch gains. -/
theorem pick_attained {c : Cand ℝ} {t : Top2 ℝ} {n : Nat} (hL : TopInv (lsw c) c.k n (Top2L t))
    (hR : TopInv (rsw c) c.k n (Top2R t)) {m : ℝ} (hm : (pick t).1 = some m) :
    ∃ kl kr : Nat, kl < n ∧ kr < n ∧ kl ≠ c.k ∧ kr ≠ c.k ∧ kl ≠ kr ∧ (pick t).2.1 = (kl : Int) ∧
      (pick t).2.2 = (kr : Int) ∧ m = lsw c kl + rsw c kr := by
  unfold pick at hm ⊢
  split_ifs at hm ⊢ with h1 h2
  · obtain ⟨x, y, hx, hy, rfl⟩ := addN_eq_some hm
    obtain ⟨kl, hkl, hklk, htl, hfl⟩ := hL.top_at x hx
    obtain ⟨kr, hkr, hkrk, htr, hfr⟩ := hR.top_at y hy
    change t.topKL = _ at htl
    change t.topKR = _ at htr
    refine ⟨kl, kr, hkl, hkr, hklk, hkrk, ?_, htl, htr, by rw [hfl, hfr]⟩
    intro e
    simp only [bne_iff_ne, ne_eq] at h1
    exact h1 (by rw [htl, htr, e])
  · obtain ⟨x, y, hx, hy, rfl⟩ := addN_eq_some hm
    obtain ⟨kl, hkl, hklk, htl, hfl⟩ := hL.top_at x hx
    obtain ⟨kr, hkr, hkrk, hsr, hne, hfr⟩ := hR.sec_at y hy
    change t.topKL = _ at htl
    change t.secKR = _ at hsr
    change _ ≠ t.topKR at hne
    refine ⟨kl, kr, hkl, hkr, hklk, hkrk, ?_, htl, hsr, by rw [hfl, hfr]⟩
    intro e
    simp only [bne_iff_ne, ne_eq, not_not] at h1
    exact hne (by rw [← h1, htl, e])
  · obtain ⟨x, y, hx, hy, rfl⟩ := addN_eq_some hm
    obtain ⟨kr, hkr, hkrk, htr, hfr⟩ := hR.top_at x hx
    obtain ⟨kl, hkl, hklk, hsl, hne, hfl⟩ := hL.sec_at y hy
    change t.topKR = _ at htr
    change t.secKL = _ at hsl
    change _ ≠ t.topKL at hne
    refine ⟨kl, kr, hkl, hkr, hklk, hkrk, ?_, hsl, htr, by rw [hfl, hfr, add_comm]⟩
    intro e
    simp only [bne_iff_ne, ne_eq, not_not] at h1
    exact hne (by rw [h1, htr, e])

/-! ### the switch loop: the invariant -/

/-- state of the switch loop after the clusters `q < n` -/
structure LoopInv (c : Cand ℝ) (best : Split ℝ) (n : Nat) (st : Top2 ℝ × Split ℝ) : Prop where
  L : TopInv (lsw c) c.k n (Top2L st.1)
  R : TopInv (rsw c) c.k n (Top2R st.1)
  adv : Adv c best st.2
  ge : ∀ q, q < n → q ≠ c.k → lsw c q ≤ st.2.gain ∧ rsw c q ≤ st.2.gain

theorem LoopInv.step {c : Cand ℝ} {best : Split ℝ} {n : Nat} {st : Top2 ℝ × Split ℝ} (h : LoopInv c best n st)
    (hn : 2 ≤ c.n_clusters) (hlt : n < c.n_clusters) : LoopInv c best (n + 1) (switchStep c st n) := by
  by_cases hk : c.k = n
  · have e : switchStep c st n = st := by unfold switchStep; rw [if_pos hk]
    rw [e]
    refine ⟨h.L.skip hk, h.R.skip hk, h.adv, fun q hq hqk => h.ge q (by omega) hqk⟩
  · obtain ⟨t, b⟩ := st
    have hadv := bestStep_adv c b hn hlt
    refine ⟨?_, ?_, ?_, ?_⟩
    · rw [switchStep_L c t b hk]; exact h.L.step hk
    · rw [switchStep_R c t b hk]; exact h.R.step hk
    · rw [switchStep_snd]; exact h.adv.trans hadv
    · intro q hq hqk
      rw [switchStep_snd]
      rcases Nat.lt_succ_iff_lt_or_eq.1 hq with hq | rfl
      · have := h.ge q hq hqk
        have hg := hadv.gain_le
        exact ⟨le_trans this.1 hg, le_trans this.2 hg⟩
      · exact bestStep_max c b hk

theorem loopInv_range (c : Cand ℝ) (best : Split ℝ) (hn : 2 ≤ c.n_clusters) :
    ∀ m, m ≤ c.n_clusters → LoopInv c best m ((List.range m).foldl (switchStep c) (({} : Top2 ℝ), best)) := by
  intro m
  induction m with
  | zero =>
    intro _
    exact ⟨TopInv.init _ _, TopInv.init _ _, Adv.refl _ _, fun q hq => absurd hq (Nat.not_lt_zero q)⟩
  | succ m ih =>
    intro hm
    rw [List.range_succ, List.foldl_append, List.foldl_cons, List.foldl_nil]
    exact (ih (by omega)).step hn (by omega)

/-! ### refurbish block -/

theorem stage4_adv {c : Cand ℝ} {t : Top2 ℝ} (hL : TopInv (lsw c) c.k c.n_clusters (Top2L t))
    (hR : TopInv (rsw c) c.k c.n_clusters (Top2R t)) (b : Split ℝ) : Adv c b (stage4 c t b) := by
  unfold stage4
  split_ifs with hg
  · simp only [ge_iff_le, Bool.and_eq_true, decide_eq_true_eq, bne_iff_ne, ne_eq] at hg
    cases hp : (pick t).1 with
    | none => exact Adv.refl _ _
    | some m =>
      obtain ⟨kl, kr, hkl, hkr, hklk, hkrk, hne, e1, e2, rfl⟩ := pick_attained hL hR hp
      dsimp only
      split_ifs with hlt
      · rw [e1, e2]
        exact Adv.of_lt (Admissible.realloc kl kr hg.1 hg.2 hkl hkr hklk hkrk hne) (by simpa using hlt)
      · exact Adv.refl _ _
  · exact Adv.refl _ _

theorem stage4_max {c : Cand ℝ} {t : Top2 ℝ} (hL : TopInv (lsw c) c.k c.n_clusters (Top2L t))
    (hR : TopInv (rsw c) c.k c.n_clusters (Top2R t)) (b : Split ℝ) (h3 : 3 ≤ c.n_clusters)
    (hleaf : c.n_leaf ≠ c.cluster_sizes c.k) {l r : Nat} (hl : l < c.n_clusters) (hr : r < c.n_clusters)
    (hlk : l ≠ c.k) (hrk : r ≠ c.k) (hlr : l ≠ r) :
    lsw c l + rsw c r + c.app Gen.Kauri.corrective c.k ≤ (stage4 c t b).gain := by
  obtain ⟨m, hm, hle⟩ := pick_max hL hR hl hlk hr hrk hlr
  unfold stage4
  rw [if_pos (by simp [h3, hleaf]), hm]
  dsimp only
  split_ifs with hlt
  · show _ ≤ m + c.app Gen.Kauri.corrective c.k
    linarith
  · simp only [lt_real, decide_eq_true_eq, not_lt] at hlt
    refine le_trans ?_ hlt
    show _ ≤ m + c.app Gen.Kauri.corrective c.k
    linarith

/-! ### switch loop + refurbish block -/

theorem stage34_adv (c : Cand ℝ) (b : Split ℝ) : Adv c b (stage34 c b) := by
  unfold stage34
  split_ifs with hn
  · have h := loopInv_range c b hn c.n_clusters (le_refl _)
    exact h.adv.trans (stage4_adv h.L h.R _)
  · exact Adv.refl _ _

theorem stage34_switch_max (c : Cand ℝ) (b : Split ℝ) (hn : 2 ≤ c.n_clusters) {p : Nat} (hp : p < c.n_clusters)
    (hpk : p ≠ c.k) : lsw c p ≤ (stage34 c b).gain ∧ rsw c p ≤ (stage34 c b).gain := by
  unfold stage34
  rw [if_pos hn]
  have h := loopInv_range c b hn c.n_clusters (le_refl _)
  have hg := (stage4_adv h.L h.R
    ((List.range c.n_clusters).foldl (switchStep c) (({} : Top2 ℝ), b)).2).gain_le
  have := h.ge p hp hpk
  exact ⟨le_trans this.1 hg, le_trans this.2 hg⟩

theorem stage34_realloc_max (c : Cand ℝ) (b : Split ℝ) (h3 : 3 ≤ c.n_clusters)
    (hleaf : c.n_leaf ≠ c.cluster_sizes c.k) {l r : Nat} (hl : l < c.n_clusters) (hr : r < c.n_clusters)
    (hlk : l ≠ c.k) (hrk : r ≠ c.k) (hlr : l ≠ r) :
    lsw c l + rsw c r + c.app Gen.Kauri.corrective c.k ≤ (stage34 c b).gain := by
  have hn : 2 ≤ c.n_clusters := by omega
  unfold stage34
  rw [if_pos hn]
  have h := loopInv_range c b hn c.n_clusters (le_refl _)
  exact stage4_max h.L h.R _ h3 hleaf hl hr hlk hrk hlr

/-! ### `compute_all_splits` as a whole -/

/-- The running best after `compute_all_splits` is the old one or the record of an admissible candidate of `c` with a
    gain at least as large (strictly larger unless it is a switch candidate). -/
theorem computeAllSplits_adv (best : Split ℝ) (c : Cand ℝ) : Adv c best (computeAllSplits best c) := by
  rw [computeAllSplits_eq]
  exact ((stage1_adv c best).trans (stage2_adv c _)).trans (stage34_adv c _)

/-- `compute_all_splits` never decreases the gain of the running best. -/
theorem computeAllSplits_ge_best (best : Split ℝ) (c : Cand ℝ) : best.gain ≤ (computeAllSplits best c).gain :=
  (computeAllSplits_adv best c).gain_le

/-- After `compute_all_splits`, the running best dominates every admissible candidate of `c`. -/
theorem computeAllSplits_max (best : Split ℝ) (c : Cand ℝ) {g : ℝ} {l r : Int} (h : Admissible c g l r) :
    g ≤ (computeAllSplits best c).gain := by
  rw [computeAllSplits_eq]
  cases h with
  | doubleStar h1 h2 =>
    exact le_trans (stage1_max c best h1 h2) (((stage2_adv c _).trans (stage34_adv c _)).gain_le)
  | leftStar h1 => exact le_trans (stage2_max c _ h1).1 (stage34_adv c _).gain_le
  | rightStar h1 => exact le_trans (stage2_max c _ h1).2 (stage34_adv c _).gain_le
  | leftSwitch p hn hp hpk => exact (stage34_switch_max c _ hn hp hpk).1
  | rightSwitch p hn hp hpk => exact (stage34_switch_max c _ hn hp hpk).2
  | realloc l r h3 hleaf hl hr hlk hrk hlr => exact stage34_realloc_max c _ h3 hleaf hl hr hlk hrk hlr

end computeAllSplits

/-! ## Part C: maximality lifted through `find_best_split` (over ℝ) -/

section lift
variable (κ X : Nat → Nat → ℝ) (a : Assign) (nClusters K_max nLeaves minLeaf : Nat)

/-- over ℝ the `==` test of the scan is equality -/
theorem evaluated_real_iff {j f l : Nat} :
    Evaluated X a minLeaf j f l ↔
      (l < nLeafOf a j - 1 ∧ minLeaf ≤ l + 1 ∧ l + minLeaf + 1 ≤ nLeafOf a j ∧
        X (nuOf X a j f)[l]! f ≠ X (nuOf X a j f)[l + 1]! f) := by
  unfold Evaluated
  simp only [beq_real, decide_eq_false_iff_not, ne_eq]

theorem bestUpd_ge (j f : Nat) (b : Split ℝ) (l : Nat) :
    b.gain ≤ (bestUpd κ X a nClusters K_max nLeaves minLeaf j f b l).gain := by
  unfold bestUpd
  split_ifs
  · exact computeAllSplits_ge_best _ _
  · exact le_refl _

theorem foldl_ge {γ : Type} (F : Split ℝ → γ → Split ℝ) (hF : ∀ b x, b.gain ≤ (F b x).gain) (l : List γ)
    (b : Split ℝ) : b.gain ≤ (l.foldl F b).gain :=
  foldl_induction F (fun b' => b.gain ≤ b'.gain) l (fun b' x _ hb => le_trans hb (hF b' x)) b (le_refl _)

/-- the scan of one (leaf, feature) never decreases the running best -/
theorem scan_ge (j f : Nat) (b : Split ℝ) (m : Nat) :
    b.gain ≤ ((List.range m).foldl (bestUpd κ X a nClusters K_max nLeaves minLeaf j f) b).gain :=
  foldl_ge _ (bestUpd_ge κ X a nClusters K_max nLeaves minLeaf j f) _ _

/-- The result of `find_best_split` dominates every admissible candidate at every evaluated place. -/
theorem findBestSplit_max (toExplore features : List Nat) {j f l : Nat} (hj : j ∈ toExplore) (hf : f ∈ features)
    (he : Evaluated X a minLeaf j f l) {g : ℝ} {lt rt : Int}
    (hadm : Admissible (candAt κ X a nClusters K_max nLeaves j f l) g lt rt) :
    g ≤ (findBestSplit κ X toExplore a nClusters K_max nLeaves minLeaf features).gain := by
  rw [findBestSplit_eq]
  have scan : ∀ j' f' (b : Split ℝ), b.gain ≤
      ((List.range (nLeafOf a j' - 1)).foldl (bestUpd κ X a nClusters K_max nLeaves minLeaf j' f') b).gain :=
    fun j' f' b => scan_ge κ X a nClusters K_max nLeaves minLeaf j' f' b _
  have feat : ∀ j' (b : Split ℝ), b.gain ≤ (features.foldl (fun best f' =>
      (List.range (nLeafOf a j' - 1)).foldl (bestUpd κ X a nClusters K_max nLeaves minLeaf j' f') best) b).gain :=
    fun j' b => foldl_ge _ (fun b' f' => scan j' f' b') _ _
  refine foldl_reach _ (fun b => g ≤ b.gain) toExplore hj (fun b => ?_)
    (fun b j' _ hb => le_trans hb (feat j' b)) _
  refine foldl_reach _ (fun b => g ≤ b.gain) features hf (fun b => ?_)
    (fun b f' _ hb => le_trans hb (scan j f' b)) _
  refine foldl_reach _ (fun b => g ≤ b.gain) _ (List.mem_range.2 he.1) (fun b => ?_)
    (fun b l' _ hb => le_trans hb (bestUpd_ge κ X a nClusters K_max nLeaves minLeaf j f b l')) _
  unfold bestUpd
  rw [if_pos ((evaluatedB_eq_true X a minLeaf).2 he.2)]
  exact computeAllSplits_max _ _ hadm

/-- what `find_best_split` can return: the initial record or the record of an admissible candidate at an evaluated
    place of an explorable leaf and a candidate feature -/
def Chosen (toExplore features : List Nat) (b : Split ℝ) : Prop :=
  b = Split.init ∨ ∃ j f l g lt rt, j ∈ toExplore ∧ f ∈ features ∧ Evaluated X a minLeaf j f l ∧
    Admissible (candAt κ X a nClusters K_max nLeaves j f l) g lt rt ∧
    b = Cand.record (candAt κ X a nClusters K_max nLeaves j f l) g lt rt

theorem findBestSplit_chosen (toExplore features : List Nat) :
    Chosen κ X a nClusters K_max nLeaves minLeaf toExplore features
      (findBestSplit κ X toExplore a nClusters K_max nLeaves minLeaf features) := by
  refine findBestSplit_induction κ X a nClusters K_max nLeaves minLeaf toExplore features _ (Or.inl rfl) ?_
  intro b j f l hj hf he hb
  rcases computeAllSplits_adv b (candAt κ X a nClusters K_max nLeaves j f l) with e | ⟨g, lt, rt, hadm, e, _⟩
  · rw [e]; exact hb
  · exact Or.inr ⟨j, f, l, g, lt, rt, hj, hf, he, hadm, e⟩

theorem findBestSplit_gain_nonneg (toExplore features : List Nat) :
    0 ≤ (findBestSplit κ X toExplore a nClusters K_max nLeaves minLeaf features).gain := by
  refine findBestSplit_induction κ X a nClusters K_max nLeaves minLeaf toExplore features (fun b => 0 ≤ b.gain)
    (le_refl (0 : ℝ)) ?_
  intro b j f l _ _ _ hb
  exact le_trans hb (computeAllSplits_ge_best _ _)

end lift

/-! ## concrete candidates (used by the non-vacuity examples in `Props/C08Max.lean`) -/

namespace Example

/-- a cut of a 2-sample leaf of cluster `k = 0` (4 samples) into 1 + 1, with three clusters and `K_max = 3` (no star
    allowed); `slc`, `src` are the stocks σ(S_L × C_p), σ(S_R × C_p) -/
noncomputable def exCand (slc src : List ℝ) : Cand ℝ :=
  { sl_square := 1, sr_square := 1, leaf_square := 2,
    sl_clusters := fun c => slc.getD c 0, sr_clusters := fun c => src.getD c 0,
    cluster_sizes := fun c => [4, 2, 2].getD c 0, gammaDiag := fun c => [6, 4, 4].getD c 0,
    omega_k_feat := 0, n_leaf := 2, n_clusters := 3, K_max := 3, k := 0, leaf_id := 0, split_size := 1,
    feature_id := 0, threshold := 0 }

/-- the left sample is close to cluster 1, the right sample to cluster 2 -/
noncomputable def exA : Cand ℝ := exCand [1, 6, 0] [1, 0, 6]
/-- both samples are closest to cluster 1 -/
noncomputable def exB : Cand ℝ := exCand [1, 6, 3] [1, 6, 2]

theorem lswA1 : lsw exA 1 = 23 / 6 := by
  simp [lsw, Cand.app, exA, exCand, Gen.Kauri.leftSwitch]; norm_num
theorem lswA2 : lsw exA 2 = -1 / 6 := by
  simp [lsw, Cand.app, exA, exCand, Gen.Kauri.leftSwitch]; norm_num
theorem rswA1 : rsw exA 1 = -1 / 6 := by
  simp [rsw, Cand.app, exA, exCand, Gen.Kauri.rightSwitch]; norm_num
theorem rswA2 : rsw exA 2 = 23 / 6 := by
  simp [rsw, Cand.app, exA, exCand, Gen.Kauri.rightSwitch]; norm_num
theorem corrA : exA.app Gen.Kauri.corrective 0 = 1 / 6 := by
  simp [Cand.app, exA, exCand, Gen.Kauri.corrective]; norm_num

theorem lswB1 : lsw exB 1 = 23 / 6 := by
  simp [lsw, Cand.app, exB, exCand, Gen.Kauri.leftSwitch]; norm_num
theorem lswB2 : lsw exB 2 = 11 / 6 := by
  simp [lsw, Cand.app, exB, exCand, Gen.Kauri.leftSwitch]; norm_num
theorem rswB1 : rsw exB 1 = 23 / 6 := by
  simp [rsw, Cand.app, exB, exCand, Gen.Kauri.rightSwitch]; norm_num
theorem rswB2 : rsw exB 2 = 7 / 6 := by
  simp [rsw, Cand.app, exB, exCand, Gen.Kauri.rightSwitch]; norm_num
theorem corrB : exB.app Gen.Kauri.corrective 0 = 1 / 6 := by
  simp [Cand.app, exB, exCand, Gen.Kauri.corrective]; norm_num

/-- the switch loop on `exA`: the maxima sit on different clusters (1 on the left, 2 on the right); the running best
    was overwritten on a tie (`right_switch(2) = left_switch(1)`) -/
theorem foldA : (List.range 3).foldl (switchStep exA) (({} : Top2 ℝ), Split.init) =
    (⟨some (23 / 6), some (-1 / 6), 1, 2, some (23 / 6), some (-1 / 6), 2, 1⟩, Cand.record exA (23 / 6) 0 2) := by
  have hk : exA.k = 0 := rfl
  simp [List.range_succ, switchStep, hk, lswA1, lswA2, rswA1, rswA2, geN, Split.init, Split.set, Cand.record]
  norm_num

/-- the switch loop on `exB`: both maxima sit on cluster 1 -/
theorem foldB : (List.range 3).foldl (switchStep exB) (({} : Top2 ℝ), Split.init) =
    (⟨some (23 / 6), some (11 / 6), 1, 2, some (23 / 6), some (7 / 6), 1, 2⟩, Cand.record exB (23 / 6) 0 1) := by
  have hk : exB.k = 0 := rfl
  simp [List.range_succ, switchStep, hk, lswB1, lswB2, rswB1, rswB2, geN, Split.init, Split.set, Cand.record]
  norm_num

theorem resultA : computeAllSplits Split.init exA = Cand.record exA (47 / 6) 1 2 := by
  have h1 : stage1 exA Split.init = Split.init := by simp [stage1, exA, exCand]
  have h2 : stage2 exA Split.init = Split.init := by simp [stage2, exA, exCand]
  have hn : exA.n_clusters = 3 := rfl
  have hl : exA.n_leaf = 2 := rfl
  have hk : exA.k = 0 := rfl
  have hc : exA.cluster_sizes 0 = 4 := rfl
  rw [computeAllSplits_eq, h1, h2]
  unfold stage34
  rw [hn, if_pos (by norm_num), foldA]
  simp [stage4, pick, hn, hl, hk, hc, corrA, addN, Cand.record]
  norm_num

theorem resultB : computeAllSplits Split.init exB = Cand.record exB (35 / 6) 2 1 := by
  have h1 : stage1 exB Split.init = Split.init := by simp [stage1, exB, exCand]
  have h2 : stage2 exB Split.init = Split.init := by simp [stage2, exB, exCand]
  have hn : exB.n_clusters = 3 := rfl
  have hl : exB.n_leaf = 2 := rfl
  have hk : exB.k = 0 := rfl
  have hc : exB.cluster_sizes 0 = 4 := rfl
  rw [computeAllSplits_eq, h1, h2]
  unfold stage34
  rw [hn, if_pos (by norm_num), foldB]
  simp [stage4, pick, hn, hl, hk, hc, corrB, addN, gtN, Cand.record]
  norm_num

end Example

end GemVerif.KauriC08
