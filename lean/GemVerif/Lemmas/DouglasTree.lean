/-
  Helper lemmas for the Douglas theorems (C15), part 3: Kronecker product of membership vectors,
  `_infer` (mask inertness, leaf count, leaf of the cell), `_init_params` bookkeeping.
-/
import GemVerif.Lemmas.DouglasBins

namespace GemVerif.Douglas
open scoped BigOperators
open GemVerif Model.Douglas

/-! ### generic facts (any number type): `_infer` reads the used columns only -/

section generic
variable {α : Type} [RealLike α]

theorem binnings_congr {d : ℕ} (T : α) (x x' : Fin d → α) (cl : List (ℕ × List α))
    (h : ∀ z ∈ cl, xget x z.1 = xget x' z.1) : binnings T x cl = binnings T x' cl := by
  unfold binnings
  exact List.map_congr_left fun z hz => by rw [h z hz]

theorem leafRow_congr {d : ℕ} (T : α) (x x' : Fin d → α) (cl : List (ℕ × List α))
    (h : ∀ z ∈ cl, xget x z.1 = xget x' z.1) : leafRow T x cl = leafRow T x' cl := by
  unfold leafRow
  rw [binnings_congr T x x' cl h]

theorem inferRow_congr {d L K : ℕ} (T : α) (x x' : Fin d → α) (cl : List (ℕ × List α)) (S : Fin L → Fin K → α)
    (h : ∀ z ∈ cl, xget x z.1 = xget x' z.1) : inferRow T x cl S = inferRow T x' cl S := by
  unfold inferRow
  rw [leafRow_congr T x x' cl h]

theorem xget_eq_of_agree {d : ℕ} {x x' : Fin d → α} {f : ℕ} (h : ∀ hf : f < d, x ⟨f, hf⟩ = x' ⟨f, hf⟩) :
    xget x f = xget x' f := by
  unfold xget
  split
  · exact h _
  · rfl

end generic

/-! ### `_init_params` -/

theorem mem_usedFeatures_none {d f : ℕ} : f ∈ List.range d ↔ f < d := List.mem_range

theorem usedFeatures_some {m : List Bool} {d : ℕ} {u : List ℕ} (h : usedFeatures (some m) d = some u) :
    m.length = d ∧ u = (List.range d).filter fun i => m.getD i false := by
  unfold usedFeatures at h
  simp only at h
  split at h
  · exact absurd h (by simp)
  · rename_i hlen
    simp only [bne_iff_ne, ne_eq, not_not] at hlen
    exact ⟨hlen, (Option.some.inj h).symm⟩

/-- the features that receive cut points are exactly the positions where the mask is `True` -/
theorem mem_usedFeatures {m : List Bool} {d : ℕ} {u : List ℕ} (h : usedFeatures (some m) d = some u) (f : ℕ) :
    f ∈ u ↔ f < d ∧ m.getD f false = true := by
  obtain ⟨_, rfl⟩ := usedFeatures_some h
  simp [List.mem_filter]

/-- a mask of the wrong length is rejected -/
theorem usedFeatures_eq_none {m : List Bool} {d : ℕ} : usedFeatures (some m) d = none ↔ m.length ≠ d := by
  unfold usedFeatures
  simp only
  split
  · rename_i h; simpa using h
  · rename_i h; simpa using h

theorem filter_range_length (m : List Bool) :
    ((List.range m.length).filter fun i => m.getD i false).length = m.count true := by
  have h1 : List.range m.length = m.zipIdx.map Prod.snd := by
    rw [List.zipIdx_map_snd, List.range_eq_range']
  rw [h1, List.filter_map, List.length_map, ← List.countP_eq_length_filter]
  have h2 : m.zipIdx.countP ((fun i => m.getD i false) ∘ Prod.snd) = m.zipIdx.countP (fun q => q.1 == true) := by
    refine List.countP_congr fun q hq => ?_
    have := List.mem_zipIdx_iff_getElem?.mp hq
    simp [List.getD_eq_getElem?_getD, this]
  rw [h2]
  have h3 : m.zipIdx.countP (fun q => q.1 == true) = (m.zipIdx.map Prod.fst).countP (fun b => b == true) := by
    rw [List.countP_map]; rfl
  rw [h3, List.zipIdx_map_fst, List.count]

/-- the number of used features is the number of `True` entries of the mask -/
theorem usedFeatures_length {m : List Bool} {d : ℕ} {u : List ℕ} (h : usedFeatures (some m) d = some u) :
    u.length = m.count true := by
  obtain ⟨hlen, rfl⟩ := usedFeatures_some h
  subst hlen
  exact filter_range_length m

theorem numLeaf_eq {nCuts d : ℕ} {mask : Option (List Bool)} {u : List ℕ} (h : usedFeatures mask d = some u) :
    numLeaf nCuts mask d = some ((nCuts + 1) ^ u.length) := by
  cases mask with
  | none =>
    simp only [usedFeatures, Option.some.injEq] at h
    subst h
    simp [numLeaf]
  | some m => simp [numLeaf, h]

/-! ### Kronecker product of membership vectors -/

theorem kron_cons (a : ℝ) (as b : List ℝ) : kron (a :: as) b = (b.map fun bk => a * bk) ++ kron as b := by
  simp [kron]

theorem kron_nil (b : List ℝ) : kron ([] : List ℝ) b = [] := rfl

theorem kron_length (a b : List ℝ) : (kron a b).length = a.length * b.length := by
  induction a with
  | nil => simp [kron_nil]
  | cons x as ih => rw [kron_cons, List.length_append, List.length_map, ih, List.length_cons]; ring

theorem sum_map_mul_left (a : ℝ) (b : List ℝ) : (b.map fun bk => a * bk).sum = a * b.sum := by
  induction b with
  | nil => simp
  | cons x b ih => simp [ih]; ring

theorem kron_sum (a b : List ℝ) : (kron a b).sum = a.sum * b.sum := by
  induction a with
  | nil => simp [kron_nil]
  | cons x as ih => rw [kron_cons, List.sum_append, sum_map_mul_left, ih, List.sum_cons]; ring

theorem kron_pos {a b : List ℝ} (ha : ∀ p ∈ a, 0 < p) (hb : ∀ p ∈ b, 0 < p) : ∀ p ∈ kron a b, 0 < p := by
  induction a with
  | nil => simp [kron_nil]
  | cons x as ih =>
    intro p hp
    rw [kron_cons, List.mem_append] at hp
    rcases hp with hp | hp
    · obtain ⟨q, hq, rfl⟩ := List.mem_map.mp hp
      exact mul_pos (ha x List.mem_cons_self) (hb q hq)
    · exact ih (fun p hp => ha p (List.mem_cons_of_mem _ hp)) p hp

/-- entry `i · len(b) + j` of the product is `a[i] · b[j]` (the `einsum(...).reshape` layout) -/
theorem kron_getD (a b : List ℝ) {i j : ℕ} (hi : i < a.length) (hj : j < b.length) :
    (kron a b).getD (i * b.length + j) 0 = a.getD i 0 * b.getD j 0 := by
  induction a generalizing i with
  | nil => simp at hi
  | cons x as ih =>
    rw [kron_cons]
    cases i with
    | zero =>
      simp only [zero_mul, zero_add, List.getD_eq_getElem?_getD]
      rw [List.getElem?_append_left (by simpa using hj)]
      simp [List.getElem?_eq_getElem hj]
    | succ i =>
      have hi' : i < as.length := by simpa using hi
      have he : (i + 1) * b.length + j = (b.map fun bk => x * bk).length + (i * b.length + j) := by
        rw [List.length_map]; ring
      rw [he, List.getD_eq_getElem?_getD, List.getElem?_append_right (Nat.le_add_right _ _), Nat.add_sub_cancel_left,
        ← List.getD_eq_getElem?_getD, ih hi']
      simp

/-- positive entries that sum to one -/
def IsProb (l : List ℝ) : Prop := (∀ p ∈ l, 0 < p) ∧ l.sum = 1

theorem IsProb.kron {a b : List ℝ} (ha : IsProb a) (hb : IsProb b) : IsProb (kron a b) :=
  ⟨kron_pos ha.1 hb.1, by rw [kron_sum, ha.2, hb.2, one_mul]⟩

theorem IsProb.le_one {l : List ℝ} (h : IsProb l) : ∀ p ∈ l, p ≤ 1 := fun p hp => by
  rw [← h.2]; exact List.single_le_sum (fun q hq => (h.1 q hq).le) p hp

theorem foldl_kron_prob : ∀ (bs : List (List ℝ)) (b : List ℝ), IsProb b → (∀ c ∈ bs, IsProb c) →
    IsProb (bs.foldl kron b)
  | [], _, hb, _ => hb
  | c :: bs, b, hb, h =>
    foldl_kron_prob bs (kron b c) (hb.kron (h c List.mem_cons_self)) fun c' hc' => h c' (List.mem_cons_of_mem _ hc')

theorem foldl_kron_length : ∀ (bs : List (List ℝ)) (b : List ℝ),
    (bs.foldl kron b).length = b.length * (bs.map List.length).prod
  | [], b => by simp
  | c :: bs, b => by
    rw [List.foldl_cons, foldl_kron_length bs, kron_length, List.map_cons, List.prod_cons]; ring

theorem binning_isProb (T x : ℝ) (cuts : List ℝ) : IsProb (binning T x cuts) :=
  ⟨binning_pos T x cuts, binning_sum T x cuts⟩

/-- mixed-radix index: `acc`, then one (digit, radix) pair per further feature -/
def cellIdx (acc : ℕ) : List (ℕ × ℕ) → ℕ
  | [] => acc
  | p :: rest => cellIdx (acc * p.2 + p.1) rest

theorem idx_lt {i k a b : ℕ} (hi : i < a) (hk : k < b) : i * b + k < a * b := by
  calc i * b + k < i * b + b := by omega
    _ = (i + 1) * b := by ring
    _ ≤ a * b := Nat.mul_le_mul_right _ hi

/-- the merged leaf at the mixed-radix index of the digits is the product of the digits' memberships -/
theorem foldl_kron_getD : ∀ (kc : List (ℕ × List ℝ)) (b : List ℝ) (i : ℕ), i < b.length →
    (∀ p ∈ kc, p.1 < p.2.length) →
    ((kc.map Prod.snd).foldl kron b).getD (cellIdx i (kc.map fun p => (p.1, p.2.length))) 0
      = b.getD i 0 * (kc.map fun p => p.2.getD p.1 0).prod
  | [], b, i, _, _ => by simp [cellIdx]
  | p :: kc, b, i, hi, h => by
    have hp := h p List.mem_cons_self
    have hlt : i * p.2.length + p.1 < (kron b p.2).length := by
      rw [kron_length]; exact idx_lt hi hp
    have ih := foldl_kron_getD kc (kron b p.2) (i * p.2.length + p.1) hlt
      fun q hq => h q (List.mem_cons_of_mem _ hq)
    simp only [List.map_cons, List.foldl_cons, cellIdx, List.prod_cons]
    rw [ih, kron_getD b p.2 hi hp]
    ring

theorem cellIdx_lt : ∀ (kr : List (ℕ × ℕ)) (i a : ℕ), i < a → (∀ p ∈ kr, p.1 < p.2) →
    cellIdx i kr < a * (kr.map Prod.snd).prod
  | [], i, a, hi, _ => by simpa [cellIdx] using hi
  | p :: kr, i, a, hi, h => by
    have := cellIdx_lt kr (i * p.2 + p.1) (a * p.2) (idx_lt hi (h p List.mem_cons_self))
      fun q hq => h q (List.mem_cons_of_mem _ hq)
    simpa [cellIdx, mul_assoc] using this

/-- `∏ pᵢ ≥ 1 − Σ aᵢ` when `pᵢ ∈ (0, 1]` and `pᵢ ≥ 1 − aᵢ` -/
theorem prod_ge_one_sub_sum : ∀ (pa : List (ℝ × ℝ)), (∀ q ∈ pa, 0 < q.1 ∧ q.1 ≤ 1 ∧ 1 - q.2 ≤ q.1) →
    0 < (pa.map Prod.fst).prod ∧ (pa.map Prod.fst).prod ≤ 1 ∧ 1 - (pa.map Prod.snd).sum ≤ (pa.map Prod.fst).prod
  | [], _ => by simp
  | q :: pa, h => by
    obtain ⟨h0, h1, h2⟩ := prod_ge_one_sub_sum pa fun r hr => h r (List.mem_cons_of_mem _ hr)
    obtain ⟨q0, q1, q2⟩ := h q List.mem_cons_self
    simp only [List.map_cons, List.prod_cons, List.sum_cons]
    refine ⟨mul_pos q0 h0, by nlinarith, ?_⟩
    nlinarith [mul_nonneg (sub_nonneg.mpr q1) (sub_nonneg.mpr h1)]

/-! ### `_infer`: the merged leaf -/

theorem mergeAll_eq_some {bs : List (List ℝ)} {leaf : List ℝ} (h : mergeAll bs = some leaf) :
    ∃ b rest, bs = b :: rest ∧ leaf = rest.foldl kron b := by
  cases bs with
  | nil => simp [mergeAll] at h
  | cons b rest => exact ⟨b, rest, rfl, (Option.some.inj h).symm⟩

theorem leafRow_eq_some {d : ℕ} {T : ℝ} {x : Fin d → ℝ} {cl : List (ℕ × List ℝ)} {leaf : List ℝ}
    (h : leafRow T x cl = some leaf) : inRange d cl = true ∧ mergeAll (binnings T x cl) = some leaf := by
  unfold leafRow at h
  split at h
  · exact ⟨by assumption, h⟩
  · exact absurd h (by simp)

/-- `_infer` succeeds on a non-empty `cut_points_list_` whose feature indices address the data -/
theorem leafRow_isSome {d : ℕ} (T : ℝ) (x : Fin d → ℝ) {cl : List (ℕ × List ℝ)} (hne : cl ≠ [])
    (hr : ∀ z ∈ cl, z.1 < d) : ∃ leaf, leafRow T x cl = some leaf := by
  have hin : inRange d cl = true := by simpa [inRange] using hr
  cases cl with
  | nil => exact absurd rfl hne
  | cons z rest =>
    rw [leafRow, if_pos hin]
    exact ⟨_, rfl⟩

theorem leafRow_isProb {d : ℕ} {T : ℝ} {x : Fin d → ℝ} {cl : List (ℕ × List ℝ)} {leaf : List ℝ}
    (h : leafRow T x cl = some leaf) : IsProb leaf := by
  obtain ⟨b, rest, hb, rfl⟩ := mergeAll_eq_some (leafRow_eq_some h).2
  have hall : ∀ c ∈ binnings T x cl, IsProb c := by
    intro c hc
    obtain ⟨z, _, rfl⟩ := List.mem_map.mp hc
    exact binning_isProb _ _ _
  rw [hb] at hall
  exact foldl_kron_prob rest b (hall b List.mem_cons_self) fun c hc => hall c (List.mem_cons_of_mem _ hc)

theorem leafRow_length {d : ℕ} {T : ℝ} {x : Fin d → ℝ} {cl : List (ℕ × List ℝ)} {leaf : List ℝ}
    (h : leafRow T x cl = some leaf) : leaf.length = (cl.map fun z => z.2.length + 1).prod := by
  obtain ⟨b, rest, hb, rfl⟩ := mergeAll_eq_some (leafRow_eq_some h).2
  rw [foldl_kron_length, ← List.prod_cons, ← List.map_cons, ← hb]
  simp [binnings, binning_length, Function.comp_def]

theorem prod_const_pow (cl : List (ℕ × List ℝ)) (nCuts : ℕ) (h : ∀ z ∈ cl, z.2.length = nCuts) :
    (cl.map fun z => z.2.length + 1).prod = (nCuts + 1) ^ cl.length := by
  induction cl with
  | nil => simp
  | cons z cl ih =>
    rw [List.map_cons, List.prod_cons, ih fun w hw => h w (List.mem_cons_of_mem _ hw), h z List.mem_cons_self,
      List.length_cons, pow_succ]
    ring

/-- index of the leaf of the cell of `x`: mixed radix in the per-feature cells -/
noncomputable def leafIndex {d : ℕ} (x : Fin d → ℝ) (cl : List (ℕ × List ℝ)) : ℕ :=
  cellIdx 0 (cl.map fun z => (cell (xget x z.1) z.2, z.2.length + 1))

/-- the leaf of the cell holds the product of the memberships of the per-feature cells -/
theorem leafRow_cell {d : ℕ} {T : ℝ} {x : Fin d → ℝ} {cl : List (ℕ × List ℝ)} {leaf : List ℝ}
    (h : leafRow T x cl = some leaf) :
    leaf.getD (leafIndex x cl) 0 = (cl.map fun z => memb T (xget x z.1) z.2 (cell (xget x z.1) z.2)).prod := by
  obtain ⟨_b, rest, hb, rfl⟩ := mergeAll_eq_some (leafRow_eq_some h).2
  cases cl with
  | nil => simp [binnings] at hb
  | cons z cl =>
    simp only [binnings, List.map_cons, List.cons.injEq] at hb
    obtain ⟨rfl, rfl⟩ := hb
    have key := foldl_kron_getD
      (cl.map fun w => (cell (xget x w.1) w.2, binning T (xget x w.1) w.2))
      (binning T (xget x z.1) z.2) (cell (xget x z.1) z.2)
      (by rw [binning_length]; have := cell_le_length (xget x z.1) z.2; omega)
      (by
        intro p hp
        obtain ⟨w, _, rfl⟩ := List.mem_map.mp hp
        simp only [binning_length]
        have := cell_le_length (xget x w.1) w.2; omega)
    simp only [List.map_map, Function.comp_def, binning_length] at key
    simp only [leafIndex, List.map_cons, cellIdx, zero_mul, zero_add, List.prod_cons]
    rw [key]
    rfl

theorem leafIndex_lt {d : ℕ} (x : Fin d → ℝ) {cl : List (ℕ × List ℝ)} (hne : cl ≠ []) :
    leafIndex x cl < (cl.map fun z => z.2.length + 1).prod := by
  cases cl with
  | nil => exact absurd rfl hne
  | cons z cl =>
    simp only [leafIndex, List.map_cons, cellIdx, zero_mul, zero_add, List.prod_cons]
    have := cellIdx_lt (cl.map fun w => (cell (xget x w.1) w.2, w.2.length + 1)) (cell (xget x z.1) z.2)
      (z.2.length + 1) (by have := cell_le_length (xget x z.1) z.2; omega)
      (by
        intro p hp
        obtain ⟨w, _, rfl⟩ := List.mem_map.mp hp
        have := cell_le_length (xget x w.1) w.2
        simp only; omega)
    simpa [List.map_map, Function.comp_def] using this

theorem sum_cast_mul (l : List ℕ) (e : ℝ) : (l.map fun m : ℕ => (m : ℝ) * e).sum = (l.sum : ℕ) * e := by
  induction l with
  | nil => simp
  | cons a l ih => simp only [List.map_cons, List.sum_cons, ih, Nat.cast_add]; ring

/-- the leaf of the cell holds at least `1 − (Σ_f n_cuts_f) · exp(−gap / T)` -/
theorem leafRow_cell_ge {d : ℕ} {T g : ℝ} (hT : 0 < T) (hg0 : 0 ≤ g) {x : Fin d → ℝ} {cl : List (ℕ × List ℝ)}
    (hg : ∀ z ∈ cl, ∀ c ∈ z.2, g ≤ |xget x z.1 - c|) {leaf : List ℝ} (h : leafRow T x cl = some leaf) :
    1 - ((cl.map fun z => z.2.length).sum : ℕ) * Real.exp (-g / T) ≤ leaf.getD (leafIndex x cl) 0 := by
  rw [leafRow_cell h]
  have key := prod_ge_one_sub_sum
    (cl.map fun z => (memb T (xget x z.1) z.2 (cell (xget x z.1) z.2), (z.2.length : ℝ) * Real.exp (-g / T)))
    (by
      intro q hq
      obtain ⟨z, hz, rfl⟩ := List.mem_map.mp hq
      exact ⟨memb_pos _ _ _ (cell_le_length _ _), memb_le_one _ _ _ _, memb_cell_ge hT (hg z hz) hg0⟩)
  simp only [List.map_map, Function.comp_def] at key
  have hsum := sum_cast_mul (cl.map fun z => z.2.length) (Real.exp (-g / T))
  rw [List.map_map] at hsum
  simp only [Function.comp_def] at hsum
  rw [← hsum]
  exact key.2.2

end GemVerif.Douglas
